-- Root of the FairModel library: model files (import-free) and property files.
import FairModel.Model.Proto
import FairModel.Model.BaseMetrics
