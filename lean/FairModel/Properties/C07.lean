/-
C07 — reduction identity: sample re-weighting is the exact gradient of the Lagrangian.
Property theorems only; helper lemmas live in `Lemmas/Moments*.lean`, `Lemmas/Oracle.lean`.

Everything is stated for arbitrary rational multipliers `lam` and arbitrary (soft) prediction vectors
`h`, `h'` of the right length — no basis/affinity argument is needed — and for an arbitrary event
assignment `ev` (so it covers the documented rule and the pre-F3-fix code alike).

CLAUSE → THEOREM TABLE (review R1; property text in properties.jsonl, id C07)
  (1) "for every constraint moment … every non-negative λ and any two (soft) predictors h, h′:
       λ·γ(h) − λ·γ(h′) = −(1/n) Σ_i w_i (h_i − h′_i), w = signed_weights(λ)"
        `reduction_identity` — all five parity moments (any `ev`, any `Util`), ANY rational λ (non-negativity is not
        needed; a λ shorter/longer than the index is read on the common prefix on both sides), ANY rational h, h′ of
        length n (not only [0,1]); `shared_U` (same `U` in both).  n = 0: both sides are 0 (Lean `1/0 = 0`); the
        case does not exist in the code (`_validate_and_reformat_input` rejects empty y; the driver rejects empty rows).
  (2) "… and objective"      `objective_identity` (ErrorRate with costs; labels 0/1 and h, h′ ∈ [0,1] are NEEDED: the
        code's `y − pred` is split by sign, `objective_needs_unit_interval` is the counterexample outside [0,1]),
        `objective_weights_scaled`; objective + constraints together: `lagrangian_identity`.
  (3) "for loss moments λ·γ(h) = (1/n) Σ_i w_i loss_i(h)"     `loss_identity`, `loss_weights_default`
  (4) "Consequently a learner that minimises the weighted 0/1 error against labels 1[w>0] with weights |w| minimises
       objective + λ·γ over its hypothesis class"
        `best_response` (identity), `best_response_minimises_lagrangian` (pairwise), and over the LIFTED
        `_call_oracle` / `GridSearch.fit` expressions, for an ARBITRARY class `H` of hard predictors and INCLUDING the
        objective term: `eg_argmin_iff`, `grid_argmin_iff` (both directions), `eg/grid_weighted_error_affine` (exact
        constants), `eg_normalisation_preserves_order`; tie at w = 0 (`>` vs `≥`): `relabel_nonstrict_harmless`,
        `zero_signed_weight_zero_weight`, `zero_weight_label_irrelevant`; all-zero weights (0/0 normalisation):
        `call_oracle_nan_iff`; DummyClassifier shortcut: `dummy_is_minimiser`, `eg/grid_dummy_minimises_lagrangian`;
        regression reductions: `loss_oracle_identity`, `loss_grid_identity`.
  (5) "project_lambda returns a non-negative vector whose Lagrangian value is never lower than the original for any
       predictor"   `project_lambda_guarantee` (ANY ratio, both parts), from `project_lambda_sound` (ratio 1) and
        `project_lambda_identity` (ratio ≠ 1: the code returns λ unchanged), `project_lambda_flat`,
        `gamma_minus_eq_neg_plus`.  Hypotheses λ ≥ 0 and slack ≥ 0 are NEEDED: `project_lambda_needs_nonneg_slack`
        (replayed on fairlearn: L drops from 2 to 0; since fairlearn c80f72a the constructor rejects a negative slack —
        lifted into `mkConfig` — so `accepted_config_slack_nonneg` discharges the slack hypothesis for every object that
        can exist: `project_lambda_guarantee_of_config`).
        TIE: `projectLambda` is computed with the guard and the entry formulas LIFTED from `UtilityParity.project_lambda`
        (`Generated/ProjectLambdaSrc.lean`, lifter `projlambda.py`: symbolic execution of the method body, so the order
        "negate, then clip in place" is part of the lifted text); `project_lambda_lifted` (through
        `Lemmas/Moments.lean:src_posOf_clip0/src_negOf_clip0/src_projects_iff`) is where a source edit breaks.
-/
import FairModel.Lemmas.MomentsReduction
import FairModel.Lemmas.Oracle

namespace C07
open Moments

/-! ### constraint moments -/

/-- `λ·γ(h) − λ·γ(h') = −(1/n) Σ_i w_i (h_i − h'_i)` with `w = signed_weights(λ)` -/
theorem reduction_identity (ev : Ev) (rows : List Row) (ratio : Rat) (ut : Util) (lam h h' : List Rat)
    (hl : h.length = rows.length) (hl' : h'.length = rows.length) :
    dot lam (gamma ev rows ratio ut h) - dot lam (gamma ev rows ratio ut h')
      = -(1 / (rows.length : Rat)) * dot (signedWeights ev rows ratio ut lam) (vsub h h') :=
  reduction_keys ev rows ratio ut (index ev rows) lam h h' hl hl'

/-- the same `U` is used by `gamma` and `signed_weights`: entry `i` of the weights is
    `utility_diff_i * Σ_k U[i,k] λ_k`, entry `k` of gamma is `−(Σ_i U[i,k] pred_i)/n` -/
theorem shared_U (ev : Ev) (rows : List Row) (ratio : Rat) (ut : Util) (lam h : List Rat) :
    signedWeights ev rows ratio ut lam
      = List.zipWith (fun r urow => ut.ud r * dot urow lam) rows (U ev rows ratio) ∧
    gamma ev rows ratio ut h
      = (index ev rows).map (fun k => -(dot (uCol ev rows ratio k) (predOf ut rows h)) / (rows.length : Rat)) := by
  constructor
  · unfold signedWeights U MomentsSrc.swOf
    generalize index ev rows = K
    generalize uEntry ev rows ratio = f
    induction rows with
    | nil => simp
    | cons r rs ih => simp only [List.map_cons, List.zipWith_cons_cons, ih]
  · simp [gamma, gammaAt, MomentsSrc.gammaOf]

/-! ### loss moments -/

/-- BoundedGroupLoss: `λ·γ(h) = (1/n) Σ_i w_i loss_i(h)` with `w = signed_weights(λ)`, `w_i = λ_{g_i}/P(g_i)` -/
theorem loss_identity (l : Loss) (rows : List LRow) (lam h : List Rat) (hne : rows ≠ []) :
    dot lam (bglGamma l rows h)
      = (1 / (rows.length : Rat)) * dot (bglSignedWeights rows (some lam)) (lossOf l rows h) := by
  have := loss_keys rows (bglIndex rows) lam (lossOf l rows h) hne
  unfold bglGamma bglSignedWeights
  rw [← this]
  congr 1
  apply List.map_congr_left
  intro g _
  exact (bgl_form l rows h g)
where
  bgl_form (l : Loss) (rows : List LRow) (h : List Rat) (g : String) :
      bglGammaAt l rows h g
        = dot (rows.map (fun r => ind (r.g == g))) (lossOf l rows h) / (countG rows g : Rat) := by
    unfold bglGammaAt
    congr 1
    generalize lossOf l rows h = v
    induction rows generalizing v with
    | nil => simp
    | cons x xs ih => cases v with
      | nil => simp
      | cons y ys => simp [ih ys]

/-- without multipliers (`MeanLoss` as objective, `signed_weights()`), every sample has weight 1 -/
theorem loss_weights_default (rows : List LRow) :
    bglSignedWeights rows none = List.replicate rows.length 1 := by
  simp [bglSignedWeights]

/-! ### the objective -/

/-- ErrorRate with costs: `err(h) − err(h') = −(1/n) Σ_i w_i (h_i − h'_i)`, `w_i = −c_fp + (c_fp + c_fn)·y_i` -/
theorem objective_identity (fp fn : Rat) (ys h h' : List Rat)
    (hl : h.length = ys.length) (hl' : h'.length = ys.length) (hy : Hard ys) (hh : Soft h) (hh' : Soft h') :
    errGamma fp fn ys h - errGamma fp fn ys h'
      = -(1 / (ys.length : Rat)) * dot (errWeights fp fn ys none) (vsub h h') := by
  rw [errGamma_soft fp fn ys h hl hy hh, errGamma_soft fp fn ys h' hl' hy hh']
  have := errNum_sub fp fn ys h h' hl hl'
  simp only [errWeights]
  rw [← sub_div, this]; ring

/-- a multiplier on the objective just scales its weights -/
theorem objective_weights_scaled (fp fn l : Rat) (ys : List Rat) :
    errWeights fp fn ys (some l) = (errWeights fp fn ys none).map (fun w => l * w) := by
  simp [errWeights, List.map_map, Function.comp_def]

/-! ### best response -/

/-- weighted 0/1 error against the labels `1[w>0]` with weights `|w|` is `C(w) − Σ w_i h_i` for hard `h` -/
theorem best_response (w h : List Rat) (hl : h.length = w.length) (hh : Hard h) :
    weighted01 (relabel w) (absWeights w) h = posPart w - dot w h :=
  weighted01_relabel w h hl hh

/-- hence, with `w = objective weights + signed_weights(λ)`: `h` has smaller relabelled/reweighted 0/1 error
    than `h'` iff it has smaller `err + λ·γ` — a learner minimising the former over its hypothesis class
    minimises the latter (labels in {0,1}, hard predictions) -/
theorem best_response_minimises_lagrangian (ev : Ev) (rows : List Row) (ratio : Rat) (ut : Util) (fp fn : Rat)
    (lam h h' : List Rat) (hne : rows ≠ [])
    (hl : h.length = rows.length) (hl' : h'.length = rows.length)
    (hy : Hard (labelsOf rows)) (hh : Hard h) (hh' : Hard h') :
    let w := vadd (errWeights fp fn (labelsOf rows) none) (signedWeights ev rows ratio ut lam)
    weighted01 (relabel w) (absWeights w) h ≤ weighted01 (relabel w) (absWeights w) h'
      ↔ errGamma fp fn (labelsOf rows) h + dot lam (gamma ev rows ratio ut h)
          ≤ errGamma fp fn (labelsOf rows) h' + dot lam (gamma ev rows ratio ut h') := by
  intro w
  have hlen : (labelsOf rows).length = rows.length := by simp [labelsOf]
  have hwlen : w.length = rows.length := by
    simp [w, vadd, errWeights, signedWeights, labelsOf]
  have hn : (0 : Rat) < (rows.length : Rat) := by
    have := List.length_pos_of_ne_nil hne
    exact_mod_cast this
  rw [best_response w h (by rw [hwlen, hl]) hh, best_response w h' (by rw [hwlen, hl']) hh']
  have e1 := reduction_identity ev rows ratio ut lam h h' hl hl'
  have e2 := objective_identity fp fn (labelsOf rows) h h' (by rw [hlen, hl]) (by rw [hlen, hl']) hy hh.soft hh'.soft
  rw [hlen] at e2
  have e3 : dot w h - dot w h' = dot w (vsub h h') := dot_sub_right w h h' (by rw [hwlen, hl]) (by rw [hwlen, hl'])
  have e4 : dot w (vsub h h')
      = dot (errWeights fp fn (labelsOf rows) none) (vsub h h') + dot (signedWeights ev rows ratio ut lam) (vsub h h') :=
    dot_vadd_left _ _ _ (by simp [errWeights, signedWeights, labelsOf])
  set D := dot w (vsub h h') with hD
  set A := dot (errWeights fp fn (labelsOf rows) none) (vsub h h')
  set B := dot (signedWeights ev rows ratio ut lam) (vsub h h')
  have key : (errGamma fp fn (labelsOf rows) h + dot lam (gamma ev rows ratio ut h))
      - (errGamma fp fn (labelsOf rows) h' + dot lam (gamma ev rows ratio ut h'))
      = -(1 / (rows.length : Rat)) * D := by
    rw [e4]
    have e5 : (errGamma fp fn (labelsOf rows) h + dot lam (gamma ev rows ratio ut h))
        - (errGamma fp fn (labelsOf rows) h' + dot lam (gamma ev rows ratio ut h'))
        = (errGamma fp fn (labelsOf rows) h - errGamma fp fn (labelsOf rows) h')
          + (dot lam (gamma ev rows ratio ut h) - dot lam (gamma ev rows ratio ut h')) := by ring
    rw [e5, e1, e2]; ring
  have hpos : 0 < 1 / (rows.length : Rat) := by positivity
  constructor
  · intro hle
    have : 0 ≤ D := by linarith
    have := mul_nonneg hpos.le this
    linarith
  · intro hle
    have h1 : 0 ≤ (1 / (rows.length : Rat)) * D := by linarith
    have : 0 ≤ D := by
      by_contra hneg
      have := mul_neg_of_pos_of_neg hpos (not_le.mp hneg)
      linarith
    linarith

/-- `_call_oracle` rescales the weights to `n·|w|/Σ|w|`; a positive rescaling does not change which of two
    hypotheses has the smaller weighted error (GridSearch passes `|w|` itself) -/
theorem eg_normalisation_preserves_order (w h h' : List Rat) (hne : w ≠ []) (hs : 0 < (absWeights w).sum) :
    weighted01 (relabel w) (egWeights w) h ≤ weighted01 (relabel w) (egWeights w) h'
      ↔ weighted01 (relabel w) (absWeights w) h ≤ weighted01 (relabel w) (absWeights w) h' := by
  have hn : (0 : Rat) < (w.length : Rat) := by
    have := List.length_pos_of_ne_nil hne
    exact_mod_cast this
  have hc : 0 < (w.length : Rat) / (absWeights w).sum := div_pos hn hs
  have e : egWeights w = (absWeights w).map (fun a => ((w.length : Rat) / (absWeights w).sum) * a) := by
    unfold egWeights
    apply List.map_congr_left
    intro a _; ring
  rw [e, weighted01_scale, weighted01_scale]
  exact mul_le_mul_iff_of_pos_left hc

/-! ### project_lambda -/

/-- for ratio ≠ 1 `project_lambda` is the identity (so a non-negative vector stays non-negative and the
    Lagrangian value is unchanged) -/
theorem project_lambda_identity (ratio : Rat) (lp lm : List Rat) (hr : ratio ≠ 1) :
    projectLambda ratio lp lm = (lp, lm) := by
  rw [projectLambda_closed, if_neg hr]

/-- **the tie of (5) to the source**: `projectLambda` is computed with the entry formulas and the guard LIFTED from
    `UtilityParity.project_lambda` (`Generated/ProjectLambdaSrc.lean`: `lambda_pos = λ⁺ − λ⁻`, `lambda_neg = −lambda_pos`
    taken before the in-place clips, both clipped at 0, keyed `+` / `-`, only `if self.ratio == 1.0`); for the text in
    the tree it is the projection of every pair onto the positive / negative part of its difference.  A sign, threshold,
    key or data-flow change in the source changes the lifted text and this theorem (hence `project_lambda_sound`,
    `project_lambda_guarantee`) no longer checks. -/
theorem project_lambda_lifted (ratio : Rat) (lp lm : List Rat) :
    projectLambda ratio lp lm =
      if ratio = 1 then ((List.zipWith (· - ·) lp lm).map clip0, (List.zipWith (· - ·) lp lm).map (fun x => clip0 (-x)))
      else (lp, lm) :=
  projectLambda_closed ratio lp lm

/-- the flat version used on the `index`-ordered vector splits it into its `+` and `-` halves -/
theorem project_lambda_flat (ratio : Rat) (lp lm : List Rat) (hlen : lp.length = lm.length) :
    projectLambdaFlat ratio (lp ++ lm) = (projectLambda ratio lp lm).1 ++ (projectLambda ratio lp lm).2 := by
  unfold projectLambdaFlat
  have : (lp ++ lm).length / 2 = lp.length := by simp [hlen]; omega
  simp only [this, List.take_left', List.drop_left']

/-- for ratio 1 the `-` entries of gamma are the negated `+` entries … -/
theorem gamma_minus_eq_neg_plus (ev : Ev) (rows : List Row) (ut : Util) (h : List Rat) (e g : String) :
    gammaAt ev rows 1 ut h ⟨.minus, e, g⟩ = - gammaAt ev rows 1 ut h ⟨.plus, e, g⟩ :=
  gammaAt_minus_ratio_one ev rows ut h e g

/-- … so projecting every (λ⁺, λ⁻) pair onto its difference gives a non-negative vector whose Lagrangian
    value `err + Σ λ·(γ − ε)` is not lower than the original, for every predictor `h` (ratio 1, ε ≥ 0, λ ≥ 0) -/
theorem project_lambda_sound (ev : Ev) (rows : List Row) (ut : Util) (h : List Rat) (eps err : Rat)
    (lp lm : List Rat) (heps : 0 ≤ eps) (hp : ∀ x ∈ lp, 0 ≤ x) (hm : ∀ x ∈ lm, 0 ≤ x)
    (h1 : lp.length = (observedPairs ev rows).length) (h2 : lm.length = (observedPairs ev rows).length) :
    let p := projectLambda 1 lp lm
    (∀ x ∈ p.1 ++ p.2, 0 ≤ x) ∧
    lagrangianValue err (lp ++ lm) (gamma ev rows 1 ut h) (bound ev rows eps)
      ≤ lagrangianValue err (p.1 ++ p.2) (gamma ev rows 1 ut h) (bound ev rows eps) := by
  intro p
  have hp1 : p.1 = (List.zipWith (· - ·) lp lm).map clip0 := by simp [p, project_lambda_lifted]
  have hp2 : p.2 = (List.zipWith (· - ·) lp lm).map (fun x => clip0 (-x)) := by simp [p, project_lambda_lifted]
  constructor
  · intro x hx
    rw [hp1, hp2] at hx
    simp only [List.mem_append, List.mem_map] at hx
    rcases hx with ⟨y, _, rfl⟩ | ⟨y, _, rfl⟩ <;> exact clip0_nonneg _
  · unfold lagrangianValue
    rw [gamma_split, bound_split, vsub_append _ _ _ _ (by simp), vsub_map_map, vsub_map_map]
    set obs := observedPairs ev rows
    set gp := obs.map (fun q => gammaAt ev rows 1 ut h ⟨.plus, q.1, q.2⟩) with hgp
    have eP : obs.map (fun q => gammaAt ev rows 1 ut h ⟨.plus, q.1, q.2⟩ - eps) = gp.map (fun x => x - eps) := by
      simp [hgp, List.map_map, Function.comp_def]
    have eM : obs.map (fun q => gammaAt ev rows 1 ut h ⟨.minus, q.1, q.2⟩ - eps) = gp.map (fun x => -x - eps) := by
      simp [hgp, List.map_map, Function.comp_def, gammaAt_minus_ratio_one]
    have hgl : gp.length = obs.length := by simp [hgp]
    have hz : (List.zipWith (· - ·) lp lm).length = obs.length := by simp [h1, h2]
    rw [eP, eM, dot_append _ _ _ _ (by simp [h1, hgl]), dot_append _ _ _ _ (by rw [hp1]; simp [h1, h2, hgl])]
    have := project_pairs_le eps heps lp lm gp hp hm (by rw [h1, hgl]) (by rw [h2, hgl])
    rw [hp1, hp2]
    linarith

/-- the projection really changes something: a pair with both multipliers positive is replaced by its
    difference, and the value strictly increases when ε > 0 -/
example : projectLambda 1 [3, 1] [1, 2] = ([2, 0], [0, 1]) := by decide +kernel
example : projectLambdaFlat 1 [3, 1, 1, 2] = [2, 0, 0, 1] := by decide +kernel
example : projectLambdaFlat (1/2) [3, 1, 1, 2] = [3, 1, 1, 2] := by decide +kernel

/-! ### non-vacuity: concrete inputs meeting the hypotheses, evaluated by the kernel -/

def ex1 : List Row :=
  [⟨1, "a", some "x"⟩, ⟨0, "b", some "x"⟩, ⟨1, "a", some "y"⟩, ⟨0, "b", some "y"⟩, ⟨1, "b", some "x"⟩, ⟨1, "a", some "y"⟩]
def hA : List Rat := [1, 0, 1/2, 1, 0, 1]
def hB : List Rat := [0, 1, 1, 1/4, 1, 0]
def lam1 : List Rat := [1, 0, 2, 1/2, 0, 3, 0, 1, 1/4, 2]

example : (index (eventOf .eo) ex1).length = 10 := by decide +kernel
example : signedWeights (eventOf .eo) ex1 (1/2) defaultUtil lam1 = [9/2, 12, 3, 9/4, 9/2, 3] := by
  decide +kernel
example : dot lam1 (gamma (eventOf .eo) ex1 (1/2) defaultUtil hA) - dot lam1 (gamma (eventOf .eo) ex1 (1/2) defaultUtil hB)
    = -(1 / 6) * dot (signedWeights (eventOf .eo) ex1 (1/2) defaultUtil lam1) (vsub hA hB) := by decide +kernel
example : Hard (labelsOf ex1) := by
  show ∀ x ∈ labelsOf ex1, x = 0 ∨ x = 1
  decide +kernel
example : weighted01 (relabel [2, -1, 0]) (absWeights [2, -1, 0]) [0, 1, 1] = 3 := by decide +kernel
example : bglSignedWeights [⟨1, "a"⟩, ⟨0, "b"⟩, ⟨1, "b"⟩] (some [1, 2]) = [3, 3, 3] := by decide +kernel
example : errWeights 2 3 [1, 0] none = [3, -2] := by decide +kernel

/-! ### `_Lagrangian._call_oracle` and `GridSearch.fit` as lifted from the source (`Generated/OracleSrc.lean`)

`Oracle.callOracle*` / `Oracle.callGrid*` arrange the lifted expressions in the order of the code.  Below,
`w = totalW … = ErrorRate(costs).signed_weights() + constraints.signed_weights(λ)` and
`L(h) = lagr … h = objective(h) + λ·γ(h)`; `λ` is ANY rational vector (non-negativity is not needed). -/

open Oracle in
/-- what `_call_oracle` hands to the learner: unless all total weights are 0 (then the normalisation is 0/0), it
    fits either a copy of the learner or a constant on labels `egLabel(w_i)` and weights `n·|w_i|/Σ|w|`; the
    constant is used only when every label equals it -/
theorem call_oracle_cases (ow cw : List Rat) (hS : (egAbsWeights (vadd ow cw)).sum ≠ 0) :
    callOracle ow cw = .fit (egLabels (vadd ow cw)) (egNormWeights (vadd ow cw)) ∨
    ∃ c, callOracle ow cw = .dummy c (egLabels (vadd ow cw)) (egNormWeights (vadd ow cw)) ∧
      ∀ x ∈ egLabels (vadd ow cw), x = c := by
  unfold callOracle
  simp only [egSignedWeights_eq, hS, if_false]
  exact eg_shortcut_cases _ _

open Oracle in
theorem call_oracle_nan_iff (ow cw : List Rat) :
    callOracle ow cw = .nanWeights ↔ (egAbsWeights (vadd ow cw)).sum = 0 := by
  unfold callOracle
  simp only [egSignedWeights_eq]
  constructor
  · intro h
    by_contra hS
    simp only [hS, if_false] at h
    rcases eg_shortcut_cases (egLabels (vadd ow cw)) (egNormWeights (vadd ow cw)) with h' | ⟨c, h', _⟩ <;>
      rw [h'] at h <;> cases h
  · intro h; simp [h]

open Oracle in
/-- one `GridSearch.fit` column: labels `gridLabel(w_i)`, weights `|w_i|` (no normalisation), where the objective's
    weights are added exactly when the objective is not in the span of the constraints -/
theorem call_grid_cases (inSpan : Bool) (cw ow : List Rat) :
    let w := gridSignedWeights inSpan cw ow
    (w = if inSpan then cw else vadd ow cw) ∧
    (callGrid inSpan cw ow = .fit (gridLabels w) (gridAbsWeights w) ∨
     ∃ c, callGrid inSpan cw ow = .dummy c (gridLabels w) (gridAbsWeights w) ∧ ∀ x ∈ gridLabels w, x = c) := by
  intro w
  refine ⟨?_, grid_shortcut_cases _ _⟩
  simp only [w, gridSignedWeights, OracleSrc.gridAddsObjective]
  cases inSpan <;> simp [gridSignedWeights_eq]

open Oracle in
/-- (a) best response for the lifted expressions: the weighted 0/1 error of a hard predictor against the labels
    and (un-normalised) weights of either reduction is `Σ max(w_i,0) − Σ w_i h_i` -/
theorem call_oracle_best_response (w h : List Rat) (hl : h.length = w.length) (hh : Hard h) :
    weighted01 (egLabels w) (egAbsWeights w) h = posPart w - dot w h ∧
    weighted01 (gridLabels w) (gridAbsWeights w) h = posPart w - dot w h :=
  ⟨weighted01_of_reduces _ _ eg_reduces w h hl hh, weighted01_of_reduces _ _ grid_reduces w h hl hh⟩

open Oracle in
/-- (b) exact constant and scale, `_call_oracle`: for every hard `h`
    `weighted error(h) = (n²/S)·L(h) + (n/S)·(Σ max(w_i,0) − n·L(0))`, `S = Σ|w_i| ≠ 0`, `n` = number of rows -/
theorem eg_weighted_error_affine (ev : Ev) (rows : List Row) (ratio : Rat) (ut : Util) (fp fn : Rat)
    (lam h : List Rat) (hne : rows ≠ []) (hl : h.length = rows.length)
    (hy : Hard (labelsOf rows)) (hh : Hard h) :
    let w := totalW ev rows ratio ut fp fn lam
    let n := (rows.length : Rat)
    let S := (egAbsWeights w).sum
    weighted01 (egLabels w) (egNormWeights w) h
      = (n ^ 2 / S) * lagr ev rows ratio ut fp fn lam h
        + (n / S) * (posPart w - n * lagr ev rows ratio ut fp fn lam (List.replicate rows.length 0)) := by
  intro w n S
  have hwl : w.length = rows.length := totalW_length ev rows ratio ut fp fn lam
  rw [egNormWeights_scale, weighted01_scale, (call_oracle_best_response w h (by rw [hwl, hl]) hh).1,
    dot_totalW ev rows ratio ut fp fn lam h hne hl hy hh.soft, hwl]
  ring

open Oracle in
/-- (b) the same for a `GridSearch.fit` column (weights `|w_i|`): scale `n`, constant `Σ max(w_i,0) − n·L(0)` -/
theorem grid_weighted_error_affine (ev : Ev) (rows : List Row) (ratio : Rat) (ut : Util) (fp fn : Rat)
    (lam h : List Rat) (hne : rows ≠ []) (hl : h.length = rows.length)
    (hy : Hard (labelsOf rows)) (hh : Hard h) :
    let w := totalW ev rows ratio ut fp fn lam
    let n := (rows.length : Rat)
    weighted01 (gridLabels w) (gridAbsWeights w) h
      = n * lagr ev rows ratio ut fp fn lam h
        + (posPart w - n * lagr ev rows ratio ut fp fn lam (List.replicate rows.length 0)) := by
  intro w n
  have hwl : w.length = rows.length := totalW_length ev rows ratio ut fp fn lam
  rw [(call_oracle_best_response w h (by rw [hwl, hl]) hh).2,
    dot_totalW ev rows ratio ut fp fn lam h hne hl hy hh.soft]
  ring

open Oracle in
/-- (b) hence the arg-min sets coincide, in both directions, over ANY class `H` of hard predictors: `h` minimises the
    weighted 0/1 error the learner is given iff it minimises `objective + λ·γ` -/
theorem eg_argmin_iff (ev : Ev) (rows : List Row) (ratio : Rat) (ut : Util) (fp fn : Rat) (lam : List Rat)
    (H : List Rat → Prop) (hH : ∀ h, H h → h.length = rows.length ∧ Hard h)
    (hne : rows ≠ []) (hy : Hard (labelsOf rows))
    (hS : (egAbsWeights (totalW ev rows ratio ut fp fn lam)).sum ≠ 0) (h : List Rat) :
    MinOver H (weighted01 (egLabels (totalW ev rows ratio ut fp fn lam)) (egNormWeights (totalW ev rows ratio ut fp fn lam))) h
      ↔ MinOver H (lagr ev rows ratio ut fp fn lam) h := by
  have hn : (0 : Rat) < (rows.length : Rat) := by
    have := List.length_pos_of_ne_nil hne
    exact_mod_cast this
  have hSpos : 0 < (egAbsWeights (totalW ev rows ratio ut fp fn lam)).sum :=
    lt_of_le_of_ne (egAbsWeights_sum_nonneg _) (Ne.symm hS)
  exact minOver_affine H _ _ _ _ (div_pos (pow_pos hn 2) hSpos)
    (fun h' hh' => eg_weighted_error_affine ev rows ratio ut fp fn lam h' hne (hH h' hh').1 hy (hH h' hh').2) h

open Oracle in
theorem grid_argmin_iff (ev : Ev) (rows : List Row) (ratio : Rat) (ut : Util) (fp fn : Rat) (lam : List Rat)
    (H : List Rat → Prop) (hH : ∀ h, H h → h.length = rows.length ∧ Hard h)
    (hne : rows ≠ []) (hy : Hard (labelsOf rows)) (h : List Rat) :
    MinOver H (weighted01 (gridLabels (totalW ev rows ratio ut fp fn lam)) (gridAbsWeights (totalW ev rows ratio ut fp fn lam))) h
      ↔ MinOver H (lagr ev rows ratio ut fp fn lam) h := by
  have hn : (0 : Rat) < (rows.length : Rat) := by
    have := List.length_pos_of_ne_nil hne
    exact_mod_cast this
  exact minOver_affine H _ _ _ _ hn
    (fun h' hh' => grid_weighted_error_affine ev rows ratio ut fp fn lam h' hne (hH h' hh').1 hy (hH h' hh').2) h

open Oracle in
/-- (c) the `DummyClassifier` shortcut is consistent: when every label equals `c`, the constant predictor `c` has
    weighted error 0, which no predictor whatsoever can beat (non-negative weights) — so it is a minimiser over
    ANY hypothesis class that contains it, and no worse than every member of one that does not -/
theorem dummy_is_minimiser (z wt h : List Rat) (c : Rat) (hz : ∀ x ∈ z, x = c) (hw : ∀ x ∈ wt, 0 ≤ x) :
    weighted01 z wt (List.replicate z.length c) = 0 ∧
    weighted01 z wt (List.replicate z.length c) ≤ weighted01 z wt h := by
  have h0 : weighted01 z wt (List.replicate z.length c) = 0 := by
    rw [← const_eq_replicate z c hz]; exact weighted01_self z wt
  exact ⟨h0, by rw [h0]; exact weighted01_nonneg z wt h hw⟩

open Oracle in
/-- (c) in terms of the Lagrangian: whenever `_call_oracle` takes the shortcut with constant `c`, the constant
    predictor `c` minimises `objective + λ·γ` over ALL hard predictors -/
theorem eg_dummy_minimises_lagrangian (ev : Ev) (rows : List Row) (ratio : Rat) (ut : Util) (fp fn : Rat)
    (lam h y wt : List Rat) (c : Rat) (hne : rows ≠ []) (hl : h.length = rows.length)
    (hy : Hard (labelsOf rows)) (hh : Hard h)
    (hcall : callOracleParity ev rows ratio ut fp fn lam = .dummy c y wt) :
    lagr ev rows ratio ut fp fn lam (List.replicate rows.length c) ≤ lagr ev rows ratio ut fp fn lam h := by
  set w := totalW ev rows ratio ut fp fn lam with hw
  have hwl : w.length = rows.length := totalW_length ev rows ratio ut fp fn lam
  have hn : (0 : Rat) < (rows.length : Rat) := by
    have := List.length_pos_of_ne_nil hne
    exact_mod_cast this
  have hS : (egAbsWeights w).sum ≠ 0 := by
    intro h0
    have := (call_oracle_nan_iff _ _).mpr h0
    unfold callOracleParity at hcall
    rw [this] at hcall; cases hcall
  have hall : ∀ x ∈ egLabels w, x = c := by
    unfold callOracleParity at hcall
    rcases call_oracle_cases _ _ hS with hf | ⟨c', hd, hc'⟩
    · rw [hf] at hcall; cases hcall
    · rw [hd] at hcall
      simp only [Call.dummy.injEq] at hcall
      rw [← hcall.1]; exact hc'
  have hwne : w ≠ [] := by
    intro h0; rw [h0] at hwl; simp at hwl; exact hne (List.eq_nil_of_length_eq_zero hwl.symm)
  have hc : c = 0 ∨ c = 1 := by
    obtain ⟨x, hx⟩ := List.exists_mem_of_ne_nil w hwne
    have := hall (OracleSrc.egLabel x) (by simp only [egLabels, List.mem_map]; exact ⟨x, hx, rfl⟩)
    rw [← this]; exact egLabel_hard x
  have hwts : ∀ x ∈ egNormWeights w, 0 ≤ x := by
    intro x hx
    rw [egNormWeights_scale] at hx
    simp only [egAbsWeights, List.mem_map] at hx
    obtain ⟨a, ⟨b, _, rfl⟩, rfl⟩ := hx
    exact mul_nonneg (div_nonneg (by positivity) (egAbsWeights_sum_nonneg w)) (egAbs_nonneg b)
  have hd := (dummy_is_minimiser (egLabels w) (egNormWeights w) h c hall hwts).2
  have hlen : (egLabels w).length = rows.length := by simp [egLabels, hwl]
  rw [hlen] at hd
  have hSpos : 0 < (egAbsWeights w).sum := lt_of_le_of_ne (egAbsWeights_sum_nonneg _) (Ne.symm hS)
  have e1 := eg_weighted_error_affine ev rows ratio ut fp fn lam _ hne (by simp) hy (hard_replicate rows.length c hc)
  have e2 := eg_weighted_error_affine ev rows ratio ut fp fn lam h hne hl hy hh
  simp only [← hw] at e1 e2
  rw [e1, e2] at hd
  have hpos : 0 < (rows.length : Rat) ^ 2 / (egAbsWeights w).sum := div_pos (pow_pos hn 2) hSpos
  have : (rows.length : Rat) ^ 2 / (egAbsWeights w).sum * lagr ev rows ratio ut fp fn lam (List.replicate rows.length c)
      ≤ (rows.length : Rat) ^ 2 / (egAbsWeights w).sum * lagr ev rows ratio ut fp fn lam h := by linarith
  exact le_of_mul_le_mul_left this hpos

open Oracle in
/-- (c) the same for a `GridSearch.fit` column of a parity moment -/
theorem grid_dummy_minimises_lagrangian (ev : Ev) (rows : List Row) (ratio : Rat) (ut : Util) (fp fn : Rat)
    (lam h y wt : List Rat) (c : Rat) (hne : rows ≠ []) (hl : h.length = rows.length)
    (hy : Hard (labelsOf rows)) (hh : Hard h)
    (hcall : callGridParity ev rows ratio ut fp fn lam = .dummy c y wt) :
    lagr ev rows ratio ut fp fn lam (List.replicate rows.length c) ≤ lagr ev rows ratio ut fp fn lam h := by
  set w := totalW ev rows ratio ut fp fn lam with hw
  have hwl : w.length = rows.length := totalW_length ev rows ratio ut fp fn lam
  have hn : (0 : Rat) < (rows.length : Rat) := by
    have := List.length_pos_of_ne_nil hne
    exact_mod_cast this
  have hgw : gridSignedWeights OracleSrc.parityObjectiveInSpan (signedWeights ev rows ratio ut lam)
      (errWeights fp fn (labelsOf rows) none) = w := by
    have := (call_grid_cases OracleSrc.parityObjectiveInSpan (signedWeights ev rows ratio ut lam)
      (errWeights fp fn (labelsOf rows) none)).1
    simpa [OracleSrc.parityObjectiveInSpan, hw, totalW] using this
  have hall : ∀ x ∈ gridLabels w, x = c := by
    unfold callGridParity at hcall
    have := (call_grid_cases OracleSrc.parityObjectiveInSpan (signedWeights ev rows ratio ut lam)
      (errWeights fp fn (labelsOf rows) none)).2
    simp only [hgw] at this
    rcases this with hf | ⟨c', hd, hc'⟩
    · rw [hf] at hcall; cases hcall
    · rw [hd] at hcall
      simp only [Call.dummy.injEq] at hcall
      rw [← hcall.1]; exact hc'
  have hwne : w ≠ [] := by
    intro h0; rw [h0] at hwl; simp at hwl; exact hne (List.eq_nil_of_length_eq_zero hwl.symm)
  have hc : c = 0 ∨ c = 1 := by
    obtain ⟨x, hx⟩ := List.exists_mem_of_ne_nil w hwne
    have := hall (OracleSrc.gridLabel x) (by simp only [gridLabels, List.mem_map]; exact ⟨x, hx, rfl⟩)
    rw [← this]; exact gridLabel_hard x
  have hwts : ∀ x ∈ gridAbsWeights w, 0 ≤ x := by
    intro x hx
    simp only [gridAbsWeights, List.mem_map] at hx
    obtain ⟨b, _, rfl⟩ := hx
    exact gridAbs_nonneg b
  have hd := (dummy_is_minimiser (gridLabels w) (gridAbsWeights w) h c hall hwts).2
  have hlen : (gridLabels w).length = rows.length := by simp [gridLabels, hwl]
  rw [hlen] at hd
  have e1 := grid_weighted_error_affine ev rows ratio ut fp fn lam _ hne (by simp) hy (hard_replicate rows.length c hc)
  have e2 := grid_weighted_error_affine ev rows ratio ut fp fn lam h hne hl hy hh
  simp only [← hw] at e1 e2
  rw [e1, e2] at hd
  have : (rows.length : Rat) * lagr ev rows ratio ut fp fn lam (List.replicate rows.length c)
      ≤ (rows.length : Rat) * lagr ev rows ratio ut fp fn lam h := by linarith
  exact le_of_mul_le_mul_left this hn

open Oracle in
/-- (d) a row with signed weight 0 gets sample weight 0 … -/
theorem zero_signed_weight_zero_weight : OracleSrc.egAbs 0 = 0 ∧ OracleSrc.gridAbs 0 = 0 ∧
    ∀ n s : Rat, OracleSrc.egNorm n (OracleSrc.egAbs 0) s = 0 := by
  refine ⟨egAbs_zero, gridAbs_zero, fun n s => ?_⟩
  rw [egAbs_zero]; unfold OracleSrc.egNorm; simp

open Oracle in
/-- (d) … and the label of a zero-weight row is irrelevant to every predictor's weighted error … -/
theorem zero_weight_label_irrelevant (z z' wt h : List Rat) (hlen : z.length = z'.length)
    (H : ∀ t ∈ (z.zip z').zip wt, t.2 = 0 ∨ t.1.1 = t.1.2) :
    weighted01 z wt h = weighted01 z' wt h :=
  weighted01_congr_labels z z' wt h hlen H

open Oracle in
/-- (d) … so relabelling with `w ≥ 0` instead of `w > 0` gives every predictor the same weighted error, for the
    plain `|w|` weights of GridSearch and the normalised ones of `_call_oracle` alike -/
theorem relabel_nonstrict_harmless (w h : List Rat) :
    weighted01 (w.map (fun x => if x ≥ 0 then (1 : Rat) else 0)) (egAbsWeights w) h
      = weighted01 (egLabels w) (egAbsWeights w) h ∧
    weighted01 (w.map (fun x => if x ≥ 0 then (1 : Rat) else 0)) (egNormWeights w) h
      = weighted01 (egLabels w) (egNormWeights w) h ∧
    weighted01 (w.map (fun x => if x ≥ 0 then (1 : Rat) else 0)) (gridAbsWeights w) h
      = weighted01 (gridLabels w) (gridAbsWeights w) h := by
  have key : ∀ x : Rat, OracleSrc.egAbs x = 0 ∨ (if x ≥ 0 then (1 : Rat) else 0) = OracleSrc.egLabel x := by
    intro x
    rcases lt_trichotomy x 0 with hx | hx | hx
    · right
      have h1 : ¬ (0 ≤ x) := by linarith
      have h2 : ¬ (0 < x) := by linarith
      simp [OracleSrc.egLabel, h1, h2, ge_iff_le, gt_iff_lt]
    · left; rw [hx]; exact egAbs_zero
    · right
      have h1 : (0 : Rat) ≤ x := hx.le
      simp [OracleSrc.egLabel, h1, hx, ge_iff_le, gt_iff_lt]
  have keyg : ∀ x : Rat, OracleSrc.gridAbs x = 0 ∨ (if x ≥ 0 then (1 : Rat) else 0) = OracleSrc.gridLabel x := by
    intro x
    rcases lt_trichotomy x 0 with hx | hx | hx
    · right
      have h1 : ¬ (0 ≤ x) := by linarith
      have h2 : ¬ (0 < x) := by linarith
      simp [OracleSrc.gridLabel, h1, h2, ge_iff_le, gt_iff_lt]
    · left; rw [hx]; exact gridAbs_zero
    · right
      have h1 : (0 : Rat) ≤ x := hx.le
      simp [OracleSrc.gridLabel, h1, hx, ge_iff_le, gt_iff_lt]
  refine ⟨weighted01_map_congr _ _ _ w h key, ?_, weighted01_map_congr _ _ _ w h keyg⟩
  rw [egNormWeights_scale, weighted01_scale, weighted01_scale]
  congr 1
  exact weighted01_map_congr _ _ _ w h key

/-! ### the regression reductions (loss moments) -/

open Oracle in
/-- `_call_oracle` for `BoundedGroupLoss` with non-negative multipliers: the labels are passed unchanged, row `i` gets
    weight `n·(1 + λ_{g_i}/P(g_i)) / S` (the objective `MeanLoss` contributes the 1), and the weighted loss the learner
    is asked to minimise is an increasing affine function of `mean loss + λ·γ`:
    `Σ_i redW_i·loss_i(h) = (n²/S)·(mean loss(h) + λ·γ(h))`, `S = Σ_i (1 + λ_{g_i}/P(g_i)) ≥ n > 0` -/
theorem loss_oracle_identity (l : Loss) (rows : List LRow) (lam h : List Rat) (hne : rows ≠ [])
    (hlam : ∀ x ∈ lam, 0 ≤ x) (hl : h.length = rows.length) :
    let w := vadd (bglSignedWeights (allGroup rows) none) (bglSignedWeights rows (some lam))
    let n := (rows.length : Rat)
    let S := w.sum
    n ≤ S ∧
    (callOracleLoss rows lam = .fit (rows.map (·.y)) (egNormWeights w) ∨
      ∃ c, callOracleLoss rows lam = .dummy c (rows.map (·.y)) (egNormWeights w) ∧ ∀ r ∈ rows, r.y = c) ∧
    dot (egNormWeights w) (lossOf l rows h)
      = (n ^ 2 / S) * ((lossOf l rows h).sum / n + dot lam (bglGamma l rows h)) := by
  intro w n S
  have hnd : n = (rows.length : Rat) := rfl
  have hSd : S = w.sum := rfl
  have hnpos : (0 : Rat) < n := by
    have := List.length_pos_of_ne_nil hne
    rw [hnd]; exact_mod_cast this
  have hones : bglSignedWeights (allGroup rows) none = List.replicate rows.length 1 := by
    simp [bglSignedWeights, allGroup, Function.comp_def, List.map_const']
  have hsw := bglSignedWeights_nonneg rows lam hlam
  have hwn : ∀ x ∈ w, 0 ≤ x := vadd_nonneg _ _ (by rw [hones]; intro x hx; rw [List.mem_replicate] at hx; rw [hx.2]; norm_num) hsw
  have hlen : (bglSignedWeights (allGroup rows) none).length = (bglSignedWeights rows (some lam)).length := by
    simp [bglSignedWeights, allGroup]
  have hS : S = n + (bglSignedWeights rows (some lam)).sum := by
    rw [hSd, sum_vadd _ _ hlen, hones, hnd]
    simp
  have hSn : n ≤ S := by rw [hS]; have := sum_nonneg' _ hsw; linarith
  have hSpos : 0 < S := lt_of_lt_of_le hnpos hSn
  have habs : egAbsWeights w = w := egAbsWeights_of_nonneg w hwn
  have hwl : w.length = rows.length := by simp [w, vadd, bglSignedWeights, allGroup]
  refine ⟨hSn, ?_, ?_⟩
  · unfold callOracleLoss callOracleReg
    simp only [egSignedWeights_eq]
    have : (egAbsWeights w).sum ≠ 0 := by rw [habs]; exact hSpos.ne'
    simp only [w] at this
    simp only [this, if_false]
    rcases eg_shortcut_cases (rows.map (·.y)) (egNormWeights w) with hf | ⟨c, hd, hc⟩
    · left; exact hf
    · right; exact ⟨c, hd, fun r hr => hc r.y (List.mem_map.mpr ⟨r, hr, rfl⟩)⟩
  · rw [egNormWeights_scale, habs, hwl, dot_scale_left]
    have e1 : dot w (lossOf l rows h)
        = dot (bglSignedWeights (allGroup rows) none) (lossOf l rows h)
          + dot (bglSignedWeights rows (some lam)) (lossOf l rows h) := dot_vadd_left _ _ _ hlen
    have e2 : dot (bglSignedWeights (allGroup rows) none) (lossOf l rows h) = (lossOf l rows h).sum := by
      rw [hones]; exact dot_ones _ _ (by simp [lossOf, hl])
    have e3 := loss_identity l rows lam h hne
    have hn0 : n ≠ 0 := hnpos.ne'
    have e4 : dot (bglSignedWeights rows (some lam)) (lossOf l rows h) = n * dot lam (bglGamma l rows h) := by
      rw [e3, hnd]; rw [hnd] at hn0; field_simp
    rw [e1, e2, e4, ← hnd, ← hSd]
    have hS0 : S ≠ 0 := hSpos.ne'
    clear_value n S
    field_simp

open Oracle in
/-- one `GridSearch.fit` column for `BoundedGroupLoss`: the objective is in the span of the constraints (lifted flag),
    so the learner gets the labels unchanged and the raw weights `λ_{g_i}/P(g_i)`, whose weighted loss is `n·λ·γ(h)` -/
theorem loss_grid_identity (l : Loss) (rows : List LRow) (lam h : List Rat) (hne : rows ≠ []) :
    (callGridLoss rows lam = .fit (rows.map (·.y)) (bglSignedWeights rows (some lam)) ∨
      ∃ c, callGridLoss rows lam = .dummy c (rows.map (·.y)) (bglSignedWeights rows (some lam)) ∧ ∀ r ∈ rows, r.y = c) ∧
    dot (bglSignedWeights rows (some lam)) (lossOf l rows h) = (rows.length : Rat) * dot lam (bglGamma l rows h) := by
  have hn0 : (rows.length : Rat) ≠ 0 := by
    have := List.length_pos_of_ne_nil hne
    exact_mod_cast this.ne'
  constructor
  · unfold callGridLoss callGridReg
    simp only [gridSignedWeights, OracleSrc.lossObjectiveInSpan, OracleSrc.gridAddsObjective, Bool.not_true,
      Bool.false_eq_true, if_false]
    rcases grid_shortcut_cases (rows.map (·.y)) (bglSignedWeights rows (some lam)) with hf | ⟨c, hd, hc⟩
    · left; exact hf
    · right; exact ⟨c, hd, fun r hr => hc r.y (List.mem_map.mpr ⟨r, hr, rfl⟩)⟩
  · rw [loss_identity l rows lam h hne]; field_simp

example : Oracle.callOracleLoss [⟨1, "a"⟩, ⟨0, "b"⟩, ⟨1/2, "b"⟩] [1, 2] = .fit [1, 0, 1/2] [1, 1, 1] := by decide +kernel
example : Oracle.callGridLoss [⟨1, "a"⟩, ⟨0, "b"⟩, ⟨1/2, "b"⟩] [1, 2] = .fit [1, 0, 1/2] [3, 3, 3] := by decide +kernel

/-! non-vacuity of the hypotheses above, evaluated by the kernel -/
example : Oracle.callOracle [1, -1, 1] [1/2, 3, -2] = .fit [1, 1, 0] [1, 4/3, 2/3] := by decide +kernel
example : Oracle.callOracle [1, 1] [1/2, 3] = .dummy 1 [1, 1] [6/11, 16/11] := by decide +kernel
example : Oracle.callOracle [1, -1] [-1, 1] = .nanWeights := by decide +kernel
example : Oracle.callGrid false [1/2, 3, -2] [1, -1, 1] = .fit [1, 1, 0] [3/2, 2, 1] := by decide +kernel
example : Oracle.callGrid true [1/2, 3, -2] [1, -1, 1] = .fit [1, 1, 0] [1/2, 3, 2] := by decide +kernel
example : Oracle.callOracleParity (eventOf .eo) ex1 (1/2) defaultUtil 1 1 lam1
    = .dummy 1 [1, 1, 1, 1, 1, 1] [132/125, 264/125, 96/125, 6/25, 132/125, 96/125] := by decide +kernel
example : (Oracle.egAbsWeights (Oracle.totalW (eventOf .eo) ex1 (1/2) defaultUtil 1 1 lam1)).sum ≠ 0 := by decide +kernel


/-! ### review R1: objective + constraints in one identity, project_lambda for every ratio, necessity witnesses -/

/-- **the Lagrangian's gradient is the total sample weight**: for soft predictors `h, h'` and 0/1 labels,
    `(err + λ·γ)(h) − (err + λ·γ)(h') = −(1/n) Σ_i (w^obj_i + w_i)(h_i − h'_i)` with `w^obj = ErrorRate.signed_weights()`,
    `w = signed_weights(λ)` — any rational λ, any costs -/
theorem lagrangian_identity (ev : Ev) (rows : List Row) (ratio : Rat) (ut : Util) (fp fn : Rat)
    (lam h h' : List Rat) (hl : h.length = rows.length) (hl' : h'.length = rows.length)
    (hy : Hard (labelsOf rows)) (hh : Soft h) (hh' : Soft h') :
    (errGamma fp fn (labelsOf rows) h + dot lam (gamma ev rows ratio ut h))
      - (errGamma fp fn (labelsOf rows) h' + dot lam (gamma ev rows ratio ut h'))
      = -(1 / (rows.length : Rat))
          * dot (vadd (errWeights fp fn (labelsOf rows) none) (signedWeights ev rows ratio ut lam)) (vsub h h') := by
  have hlen : (labelsOf rows).length = rows.length := by simp [labelsOf]
  have e1 := reduction_identity ev rows ratio ut lam h h' hl hl'
  have e2 := objective_identity fp fn (labelsOf rows) h h' (by rw [hlen, hl]) (by rw [hlen, hl']) hy hh hh'
  rw [hlen] at e2
  have e4 : dot (vadd (errWeights fp fn (labelsOf rows) none) (signedWeights ev rows ratio ut lam)) (vsub h h')
      = dot (errWeights fp fn (labelsOf rows) none) (vsub h h') + dot (signedWeights ev rows ratio ut lam) (vsub h h') :=
    dot_vadd_left _ _ _ (by simp [errWeights, signedWeights, labelsOf])
  rw [e4]
  have e5 : (errGamma fp fn (labelsOf rows) h + dot lam (gamma ev rows ratio ut h))
      - (errGamma fp fn (labelsOf rows) h' + dot lam (gamma ev rows ratio ut h'))
      = (errGamma fp fn (labelsOf rows) h - errGamma fp fn (labelsOf rows) h')
        + (dot lam (gamma ev rows ratio ut h) - dot lam (gamma ev rows ratio ut h')) := by ring
  rw [e5, e1, e2]; ring

/-- the restriction of `objective_identity` to predictions in [0,1] is necessary: `ErrorRate.gamma` splits `y − pred`
    by sign, so outside [0,1] it is not affine in the prediction (label 1, predictions 2 and 0, unit costs) -/
theorem objective_needs_unit_interval :
    errGamma 1 1 [1] [2] - errGamma 1 1 [1] [0] ≠ -(1 / ((([1] : List Rat).length : Nat) : Rat)) * dot (errWeights 1 1 [1] none) (vsub [2] [0]) := by
  decide +kernel

/-- **project_lambda, every ratio**: for non-negative multipliers and a non-negative slack the result is non-negative
    and its Lagrangian value is not lower than the original's, for every predictor `h` — the projection for ratio 1,
    the identity otherwise (as coded) -/
theorem project_lambda_guarantee (ev : Ev) (rows : List Row) (ratio : Rat) (ut : Util) (h : List Rat) (eps err : Rat)
    (lp lm : List Rat) (heps : 0 ≤ eps) (hp : ∀ x ∈ lp, 0 ≤ x) (hm : ∀ x ∈ lm, 0 ≤ x)
    (h1 : lp.length = (observedPairs ev rows).length) (h2 : lm.length = (observedPairs ev rows).length) :
    let p := projectLambda ratio lp lm
    (∀ x ∈ p.1 ++ p.2, 0 ≤ x) ∧
    lagrangianValue err (lp ++ lm) (gamma ev rows ratio ut h) (bound ev rows eps)
      ≤ lagrangianValue err (p.1 ++ p.2) (gamma ev rows ratio ut h) (bound ev rows eps) := by
  by_cases hr : ratio = 1
  · subst hr
    exact project_lambda_sound ev rows ut h eps err lp lm heps hp hm h1 h2
  · intro p
    have hp' : p = (lp, lm) := project_lambda_identity ratio lp lm hr
    rw [hp']
    refine ⟨?_, le_refl _⟩
    intro x hx
    rcases List.mem_append.mp hx with hx | hx
    · exact hp x hx
    · exact hm x hx

/-- the slack must be non-negative for that guarantee: with slack −1, projecting λ = (1, 0 | 1, 0) to (0, 0 | 0, 0) lowers
    `Σ λ·(γ − ε)` from 2 to 0 (two rows, two groups, predictor 0; replayed on fairlearn by review R1 — finding F24).  Since
    fairlearn c80f72a the constructor REJECTS such a configuration (`if self.eps < 0: raise`, lifted into `mkConfig`
    through `slackMustBeNonneg`), first conjunct; before that commit it was accepted. -/
theorem project_lambda_needs_nonneg_slack :
    let rows : List Row := [⟨0, "a", none⟩, ⟨0, "b", none⟩]
    let p := projectLambda 1 [1, 0] [1, 0]
    mkConfig (some (-1)) none 0 = .error .negSlack ∧
    lagrangianValue 0 ([1, 0] ++ [1, 0]) (gamma (eventOf .dp) rows 1 defaultUtil [0, 0]) (bound (eventOf .dp) rows (-1)) = 2 ∧
    lagrangianValue 0 (p.1 ++ p.2) (gamma (eventOf .dp) rows 1 defaultUtil [0, 0]) (bound (eventOf .dp) rows (-1)) = 0 := by
  decide +kernel

/-- every configuration the (lifted) constructor accepts has a non-negative slack — so the hypothesis `0 ≤ eps` of
    `project_lambda_guarantee` holds for every `UtilityParity` object that exists (this is what the F24 repair bought) -/
theorem accepted_config_slack_nonneg (d r : Option Rat) (s eps ratio : Rat) (h : mkConfig d r s = .ok (eps, ratio)) :
    0 ≤ eps := by
  unfold mkConfig at h
  simp only [Generated.ValidationTables.slackMustBeNonneg, Bool.true_and] at h
  split at h
  · split at h
    · cases h
    · next hneg =>
      cases h
      simpa using hneg
  · split at h <;> cases h

/-- `project_lambda_guarantee` for every constructible moment: the slack hypothesis is discharged by the constructor -/
theorem project_lambda_guarantee_of_config (d r : Option Rat) (s eps ratio : Rat) (hcfg : mkConfig d r s = .ok (eps, ratio))
    (ev : Ev) (rows : List Row) (ut : Util) (h : List Rat) (err : Rat)
    (lp lm : List Rat) (hp : ∀ x ∈ lp, 0 ≤ x) (hm : ∀ x ∈ lm, 0 ≤ x)
    (h1 : lp.length = (observedPairs ev rows).length) (h2 : lm.length = (observedPairs ev rows).length) :
    let p := projectLambda ratio lp lm
    (∀ x ∈ p.1 ++ p.2, 0 ≤ x) ∧
    lagrangianValue err (lp ++ lm) (gamma ev rows ratio ut h) (bound ev rows eps)
      ≤ lagrangianValue err (p.1 ++ p.2) (gamma ev rows ratio ut h) (bound ev rows eps) :=
  project_lambda_guarantee ev rows ratio ut h eps err lp lm (accepted_config_slack_nonneg d r s eps ratio hcfg) hp hm h1 h2

example : mkConfig (some (1/8)) none 0 = .ok (1/8, 1) := by decide +kernel

/-! non-vacuity: all hypotheses of the main theorems met simultaneously by `ex1` (6 rows, 2 groups, 2 strata, both
    labels), non-trivial multipliers and two different predictors -/
def hC : List Rat := [1, 0, 1, 1, 0, 1]
def hD : List Rat := [0, 1, 1, 0, 1, 0]
example : ex1 ≠ [] ∧ hC.length = ex1.length ∧ hD.length = ex1.length := by decide +kernel
example : Hard hC ∧ Hard hD := by
  constructor
  · show ∀ x ∈ hC, x = 0 ∨ x = 1
    decide +kernel
  · show ∀ x ∈ hD, x = 0 ∨ x = 1
    decide +kernel
example : Soft hA ∧ Soft hB := by
  constructor
  · show ∀ x ∈ hA, 0 ≤ x ∧ x ≤ 1
    decide +kernel
  · show ∀ x ∈ hB, 0 ≤ x ∧ x ≤ 1
    decide +kernel
-- `objective_identity` / `lagrangian_identity`: both sides are the same NON-ZERO number
example : errGamma 2 3 (labelsOf ex1) hA - errGamma 2 3 (labelsOf ex1) hB
    = -(1 / 6) * dot (errWeights 2 3 (labelsOf ex1) none) (vsub hA hB) ∧
    errGamma 2 3 (labelsOf ex1) hA - errGamma 2 3 (labelsOf ex1) hB ≠ 0 := by decide +kernel
-- `best_response_minimises_lagrangian`: both sides of the ↔ on concrete hard predictors: `hD` beats `hC` on the
-- weighted 0/1 error (43/4 < 33/2) and on the Lagrangian (−11/4 < −43/24); the differences are in ratio n = 6
example :
    let w := vadd (errWeights 1 1 (labelsOf ex1) none) (signedWeights (eventOf .eo) ex1 (1/2) defaultUtil lam1)
    weighted01 (relabel w) (absWeights w) hC = 33/2 ∧ weighted01 (relabel w) (absWeights w) hD = 43/4 ∧
    errGamma 1 1 (labelsOf ex1) hC + dot lam1 (gamma (eventOf .eo) ex1 (1/2) defaultUtil hC) = -43/24 ∧
    errGamma 1 1 (labelsOf ex1) hD + dot lam1 (gamma (eventOf .eo) ex1 (1/2) defaultUtil hD) = -11/4 := by decide +kernel
-- `project_lambda_sound` / `_guarantee`: ratio 1, slack 1/8, λ ≥ 0 with both members of a pair positive; the value
-- strictly increases
example : (observedPairs (eventOf .tpr) ex1).length = 3 := by decide +kernel
example :
    let p := projectLambda 1 [3, 1, 0] [1, 2, 0]
    lagrangianValue 0 ([3, 1, 0] ++ [1, 2, 0]) (gamma (eventOf .tpr) ex1 1 defaultUtil hA) (bound (eventOf .tpr) ex1 (1/8)) = 5/8 ∧
    lagrangianValue 0 (p.1 ++ p.2) (gamma (eventOf .tpr) ex1 1 defaultUtil hA) (bound (eventOf .tpr) ex1 (1/8)) = 9/8 := by
  decide +kernel
-- `loss_identity`: three rows, two groups, non-trivial multipliers, clipping active
example : dot [1, 2] (bglGamma (.square 0 1) [⟨1, "a"⟩, ⟨0, "b"⟩, ⟨1, "b"⟩] [1/2, 2, 1/4])
    = (1 / 3) * dot (bglSignedWeights [⟨1, "a"⟩, ⟨0, "b"⟩, ⟨1, "b"⟩] (some [1, 2])) (lossOf (.square 0 1) [⟨1, "a"⟩, ⟨0, "b"⟩, ⟨1, "b"⟩] [1/2, 2, 1/4]) ∧
    dot [1, 2] (bglGamma (.square 0 1) [⟨1, "a"⟩, ⟨0, "b"⟩, ⟨1, "b"⟩] [1/2, 2, 1/4]) ≠ 0 := by decide +kernel
-- `eg_argmin_iff` / `grid_argmin_iff`: a concrete two-element hypothesis class meets `hH`; `hS` is the example above
open Oracle in
example : ∀ h, (fun h => h = hC ∨ h = hD) h → h.length = ex1.length ∧ Hard h := by
  rintro h (rfl | rfl)
  · exact ⟨by decide, by show ∀ x ∈ hC, x = 0 ∨ x = 1; decide +kernel⟩
  · exact ⟨by decide, by show ∀ x ∈ hD, x = 0 ∨ x = 1; decide +kernel⟩
-- `loss_oracle_identity`: λ ≥ 0 on three rows
example : (∀ x ∈ ([1, 2] : List Rat), 0 ≤ x) := by decide +kernel

end C07
