/-
C07 — reduction identity: sample re-weighting is the exact gradient of the Lagrangian.
Property theorems only; helper lemmas live in `Lemmas/Moments*.lean`.

Everything is stated for arbitrary rational multipliers `lam` and arbitrary (soft) prediction vectors
`h`, `h'` of the right length — no basis/affinity argument is needed — and for an arbitrary event
assignment `ev` (so it covers the documented rule and the code as written alike).
-/
import FairModel.Lemmas.MomentsReduction

namespace C07
open Moments

/-! ### constraint moments -/

/-- `λ·γ(h) − λ·γ(h') = −(1/n) Σ_i w_i (h_i − h'_i)` with `w = signed_weights(λ)` -/
theorem reduction_identity (ev : Ev) (rows : List Row) (ratio : Rat) (ut : Util) (lam h h' : List Rat)
    (hl : h.length = rows.length) (hl' : h'.length = rows.length) :
    dot lam (gamma ev rows ratio ut h) - dot lam (gamma ev rows ratio ut h')
      = -(1 / (rows.length : Rat)) * dot (signedWeights ev rows ratio ut lam) (vsub h h') :=
  reduction_keys ev rows ratio ut (index ev rows) lam h h' hl hl'

/-- the same `U` is used by `gamma` and `signed_weights`: entry `i` of the weights is
    `utility_diff_i * Σ_k U[i,k] λ_k`, entry `k` of gamma is `−(Σ_i U[i,k] pred_i)/n` -/
theorem shared_U (ev : Ev) (rows : List Row) (ratio : Rat) (ut : Util) (lam h : List Rat) :
    signedWeights ev rows ratio ut lam
      = List.zipWith (fun r urow => ut.ud r * dot urow lam) rows (U ev rows ratio) ∧
    gamma ev rows ratio ut h
      = (index ev rows).map (fun k => -(dot (uCol ev rows ratio k) (predOf ut rows h)) / (rows.length : Rat)) := by
  constructor
  · unfold signedWeights U MomentsSrc.swOf
    generalize index ev rows = K
    generalize uEntry ev rows ratio = f
    induction rows with
    | nil => simp
    | cons r rs ih => simp only [List.map_cons, List.zipWith_cons_cons, ih]
  · simp [gamma, gammaAt, MomentsSrc.gammaOf]

/-! ### loss moments -/

/-- BoundedGroupLoss: `λ·γ(h) = (1/n) Σ_i w_i loss_i(h)` with `w = signed_weights(λ)`, `w_i = λ_{g_i}/P(g_i)` -/
theorem loss_identity (l : Loss) (rows : List LRow) (lam h : List Rat) (hne : rows ≠ []) :
    dot lam (bglGamma l rows h)
      = (1 / (rows.length : Rat)) * dot (bglSignedWeights rows (some lam)) (lossOf l rows h) := by
  have := loss_keys rows (bglIndex rows) lam (lossOf l rows h) hne
  unfold bglGamma bglSignedWeights
  rw [← this]
  congr 1
  apply List.map_congr_left
  intro g _
  exact (bgl_form l rows h g)
where
  bgl_form (l : Loss) (rows : List LRow) (h : List Rat) (g : String) :
      bglGammaAt l rows h g
        = dot (rows.map (fun r => ind (r.g == g))) (lossOf l rows h) / (countG rows g : Rat) := by
    unfold bglGammaAt
    congr 1
    generalize lossOf l rows h = v
    induction rows generalizing v with
    | nil => simp
    | cons x xs ih => cases v with
      | nil => simp
      | cons y ys => simp [ih ys]

/-- without multipliers (`MeanLoss` as objective, `signed_weights()`), every sample has weight 1 -/
theorem loss_weights_default (rows : List LRow) :
    bglSignedWeights rows none = List.replicate rows.length 1 := by
  simp [bglSignedWeights]

/-! ### the objective -/

/-- ErrorRate with costs: `err(h) − err(h') = −(1/n) Σ_i w_i (h_i − h'_i)`, `w_i = −c_fp + (c_fp + c_fn)·y_i` -/
theorem objective_identity (fp fn : Rat) (ys h h' : List Rat)
    (hl : h.length = ys.length) (hl' : h'.length = ys.length) (hy : Hard ys) (hh : Soft h) (hh' : Soft h') :
    errGamma fp fn ys h - errGamma fp fn ys h'
      = -(1 / (ys.length : Rat)) * dot (errWeights fp fn ys none) (vsub h h') := by
  rw [errGamma_soft fp fn ys h hl hy hh, errGamma_soft fp fn ys h' hl' hy hh']
  have := errNum_sub fp fn ys h h' hl hl'
  simp only [errWeights]
  rw [← sub_div, this]; ring

/-- a multiplier on the objective just scales its weights -/
theorem objective_weights_scaled (fp fn l : Rat) (ys : List Rat) :
    errWeights fp fn ys (some l) = (errWeights fp fn ys none).map (fun w => l * w) := by
  simp [errWeights, List.map_map, Function.comp_def]

/-! ### best response -/

/-- weighted 0/1 error against the labels `1[w>0]` with weights `|w|` is `C(w) − Σ w_i h_i` for hard `h` -/
theorem best_response (w h : List Rat) (hl : h.length = w.length) (hh : Hard h) :
    weighted01 (relabel w) (absWeights w) h = posPart w - dot w h :=
  weighted01_relabel w h hl hh

/-- hence, with `w = objective weights + signed_weights(λ)`: `h` has smaller relabelled/reweighted 0/1 error
    than `h'` iff it has smaller `err + λ·γ` — a learner minimising the former over its hypothesis class
    minimises the latter (labels in {0,1}, hard predictions) -/
theorem best_response_minimises_lagrangian (ev : Ev) (rows : List Row) (ratio : Rat) (ut : Util) (fp fn : Rat)
    (lam h h' : List Rat) (hne : rows ≠ [])
    (hl : h.length = rows.length) (hl' : h'.length = rows.length)
    (hy : Hard (labelsOf rows)) (hh : Hard h) (hh' : Hard h') :
    let w := vadd (errWeights fp fn (labelsOf rows) none) (signedWeights ev rows ratio ut lam)
    weighted01 (relabel w) (absWeights w) h ≤ weighted01 (relabel w) (absWeights w) h'
      ↔ errGamma fp fn (labelsOf rows) h + dot lam (gamma ev rows ratio ut h)
          ≤ errGamma fp fn (labelsOf rows) h' + dot lam (gamma ev rows ratio ut h') := by
  intro w
  have hlen : (labelsOf rows).length = rows.length := by simp [labelsOf]
  have hwlen : w.length = rows.length := by
    simp [w, vadd, errWeights, signedWeights, labelsOf]
  have hn : (0 : Rat) < (rows.length : Rat) := by
    have := List.length_pos_of_ne_nil hne
    exact_mod_cast this
  rw [best_response w h (by rw [hwlen, hl]) hh, best_response w h' (by rw [hwlen, hl']) hh']
  have e1 := reduction_identity ev rows ratio ut lam h h' hl hl'
  have e2 := objective_identity fp fn (labelsOf rows) h h' (by rw [hlen, hl]) (by rw [hlen, hl']) hy hh.soft hh'.soft
  rw [hlen] at e2
  have e3 : dot w h - dot w h' = dot w (vsub h h') := dot_sub_right w h h' (by rw [hwlen, hl]) (by rw [hwlen, hl'])
  have e4 : dot w (vsub h h')
      = dot (errWeights fp fn (labelsOf rows) none) (vsub h h') + dot (signedWeights ev rows ratio ut lam) (vsub h h') :=
    dot_vadd_left _ _ _ (by simp [errWeights, signedWeights, labelsOf])
  set D := dot w (vsub h h') with hD
  set A := dot (errWeights fp fn (labelsOf rows) none) (vsub h h')
  set B := dot (signedWeights ev rows ratio ut lam) (vsub h h')
  have key : (errGamma fp fn (labelsOf rows) h + dot lam (gamma ev rows ratio ut h))
      - (errGamma fp fn (labelsOf rows) h' + dot lam (gamma ev rows ratio ut h'))
      = -(1 / (rows.length : Rat)) * D := by
    rw [e4]
    have e5 : (errGamma fp fn (labelsOf rows) h + dot lam (gamma ev rows ratio ut h))
        - (errGamma fp fn (labelsOf rows) h' + dot lam (gamma ev rows ratio ut h'))
        = (errGamma fp fn (labelsOf rows) h - errGamma fp fn (labelsOf rows) h')
          + (dot lam (gamma ev rows ratio ut h) - dot lam (gamma ev rows ratio ut h')) := by ring
    rw [e5, e1, e2]; ring
  have hpos : 0 < 1 / (rows.length : Rat) := by positivity
  constructor
  · intro hle
    have : 0 ≤ D := by linarith
    have := mul_nonneg hpos.le this
    linarith
  · intro hle
    have h1 : 0 ≤ (1 / (rows.length : Rat)) * D := by linarith
    have : 0 ≤ D := by
      by_contra hneg
      have := mul_neg_of_pos_of_neg hpos (not_le.mp hneg)
      linarith
    linarith

/-- `_call_oracle` rescales the weights to `n·|w|/Σ|w|`; a positive rescaling does not change which of two
    hypotheses has the smaller weighted error (GridSearch passes `|w|` itself) -/
theorem eg_normalisation_preserves_order (w h h' : List Rat) (hne : w ≠ []) (hs : 0 < (absWeights w).sum) :
    weighted01 (relabel w) (egWeights w) h ≤ weighted01 (relabel w) (egWeights w) h'
      ↔ weighted01 (relabel w) (absWeights w) h ≤ weighted01 (relabel w) (absWeights w) h' := by
  have hn : (0 : Rat) < (w.length : Rat) := by
    have := List.length_pos_of_ne_nil hne
    exact_mod_cast this
  have hc : 0 < (w.length : Rat) / (absWeights w).sum := div_pos hn hs
  have e : egWeights w = (absWeights w).map (fun a => ((w.length : Rat) / (absWeights w).sum) * a) := by
    unfold egWeights
    apply List.map_congr_left
    intro a _; ring
  rw [e, weighted01_scale, weighted01_scale]
  exact mul_le_mul_iff_of_pos_left hc

/-! ### project_lambda -/

/-- for ratio ≠ 1 `project_lambda` is the identity (so a non-negative vector stays non-negative and the
    Lagrangian value is unchanged) -/
theorem project_lambda_identity (ratio : Rat) (lp lm : List Rat) (hr : ratio ≠ 1) :
    projectLambda ratio lp lm = (lp, lm) := by
  simp [projectLambda, hr]

/-- the flat version used on the `index`-ordered vector splits it into its `+` and `-` halves -/
theorem project_lambda_flat (ratio : Rat) (lp lm : List Rat) (hlen : lp.length = lm.length) :
    projectLambdaFlat ratio (lp ++ lm) = (projectLambda ratio lp lm).1 ++ (projectLambda ratio lp lm).2 := by
  unfold projectLambdaFlat
  have : (lp ++ lm).length / 2 = lp.length := by simp [hlen]; omega
  simp only [this, List.take_left', List.drop_left']

/-- for ratio 1 the `-` entries of gamma are the negated `+` entries … -/
theorem gamma_minus_eq_neg_plus (ev : Ev) (rows : List Row) (ut : Util) (h : List Rat) (e g : String) :
    gammaAt ev rows 1 ut h ⟨.minus, e, g⟩ = - gammaAt ev rows 1 ut h ⟨.plus, e, g⟩ :=
  gammaAt_minus_ratio_one ev rows ut h e g

/-- … so projecting every (λ⁺, λ⁻) pair onto its difference gives a non-negative vector whose Lagrangian
    value `err + Σ λ·(γ − ε)` is not lower than the original, for every predictor `h` (ratio 1, ε ≥ 0, λ ≥ 0) -/
theorem project_lambda_sound (ev : Ev) (rows : List Row) (ut : Util) (h : List Rat) (eps err : Rat)
    (lp lm : List Rat) (heps : 0 ≤ eps) (hp : ∀ x ∈ lp, 0 ≤ x) (hm : ∀ x ∈ lm, 0 ≤ x)
    (h1 : lp.length = (observedPairs ev rows).length) (h2 : lm.length = (observedPairs ev rows).length) :
    let p := projectLambda 1 lp lm
    (∀ x ∈ p.1 ++ p.2, 0 ≤ x) ∧
    lagrangianValue err (lp ++ lm) (gamma ev rows 1 ut h) (bound ev rows eps)
      ≤ lagrangianValue err (p.1 ++ p.2) (gamma ev rows 1 ut h) (bound ev rows eps) := by
  intro p
  have hp1 : p.1 = (List.zipWith (· - ·) lp lm).map clip0 := by simp [p, projectLambda]
  have hp2 : p.2 = (List.zipWith (· - ·) lp lm).map (fun x => clip0 (-x)) := by simp [p, projectLambda]
  constructor
  · intro x hx
    rw [hp1, hp2] at hx
    simp only [List.mem_append, List.mem_map] at hx
    rcases hx with ⟨y, _, rfl⟩ | ⟨y, _, rfl⟩ <;> exact clip0_nonneg _
  · unfold lagrangianValue
    rw [gamma_split, bound_split, vsub_append _ _ _ _ (by simp), vsub_map_map, vsub_map_map]
    set obs := observedPairs ev rows
    set gp := obs.map (fun q => gammaAt ev rows 1 ut h ⟨.plus, q.1, q.2⟩) with hgp
    have eP : obs.map (fun q => gammaAt ev rows 1 ut h ⟨.plus, q.1, q.2⟩ - eps) = gp.map (fun x => x - eps) := by
      simp [hgp, List.map_map, Function.comp_def]
    have eM : obs.map (fun q => gammaAt ev rows 1 ut h ⟨.minus, q.1, q.2⟩ - eps) = gp.map (fun x => -x - eps) := by
      simp [hgp, List.map_map, Function.comp_def, gammaAt_minus_ratio_one]
    have hgl : gp.length = obs.length := by simp [hgp]
    have hz : (List.zipWith (· - ·) lp lm).length = obs.length := by simp [h1, h2]
    rw [eP, eM, dot_append _ _ _ _ (by simp [h1, hgl]), dot_append _ _ _ _ (by rw [hp1]; simp [h1, h2, hgl])]
    have := project_pairs_le eps heps lp lm gp hp hm (by rw [h1, hgl]) (by rw [h2, hgl])
    rw [hp1, hp2]
    linarith

/-- the projection really changes something: a pair with both multipliers positive is replaced by its
    difference, and the value strictly increases when ε > 0 -/
example : projectLambda 1 [3, 1] [1, 2] = ([2, 0], [0, 1]) := by decide +kernel
example : projectLambdaFlat 1 [3, 1, 1, 2] = [2, 0, 0, 1] := by decide +kernel
example : projectLambdaFlat (1/2) [3, 1, 1, 2] = [3, 1, 1, 2] := by decide +kernel

/-! ### non-vacuity: concrete inputs meeting the hypotheses, evaluated by the kernel -/

def ex1 : List Row :=
  [⟨1, "a", some "x"⟩, ⟨0, "b", some "x"⟩, ⟨1, "a", some "y"⟩, ⟨0, "b", some "y"⟩, ⟨1, "b", some "x"⟩, ⟨1, "a", some "y"⟩]
def hA : List Rat := [1, 0, 1/2, 1, 0, 1]
def hB : List Rat := [0, 1, 1, 1/4, 1, 0]
def lam1 : List Rat := [1, 0, 2, 1/2, 0, 3, 0, 1, 1/4, 2]

example : (index (eventOf .eo) ex1).length = 10 := by decide +kernel
example : signedWeights (eventOf .eo) ex1 (1/2) defaultUtil lam1 = [9/2, 12, 3, 9/4, 9/2, 3] := by
  decide +kernel
example : dot lam1 (gamma (eventOf .eo) ex1 (1/2) defaultUtil hA) - dot lam1 (gamma (eventOf .eo) ex1 (1/2) defaultUtil hB)
    = -(1 / 6) * dot (signedWeights (eventOf .eo) ex1 (1/2) defaultUtil lam1) (vsub hA hB) := by decide +kernel
example : Hard (labelsOf ex1) := by
  show ∀ x ∈ labelsOf ex1, x = 0 ∨ x = 1
  decide +kernel
example : weighted01 (relabel [2, -1, 0]) (absWeights [2, -1, 0]) [0, 1, 1] = 3 := by decide +kernel
example : bglSignedWeights [⟨1, "a"⟩, ⟨0, "b"⟩, ⟨1, "b"⟩] (some [1, 2]) = [3, 3, 3] := by decide +kernel
example : errWeights 2 3 [1, 0] none = [3, -2] := by decide +kernel

end C07
