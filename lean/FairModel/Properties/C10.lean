/-
C10 — randomised predictors sample from the probability mass function they report.
Property theorems only; helper lemmas live in `Lemmas/Pmf.lean` and `Lemmas/PmfMore.lean`.

What is random is an input of the model (`u`, the number `RandomState` drew); "frequencies over
seeds match" is therefore stated as: the set of `u ∈ [0,1)` on which an outcome is produced is an
interval whose length is the reported probability.  The uniformity of the generator is trusted.

The hypotheses on a fitted rule (`Rule.Valid`) are a decidable predicate (`Rule.valid`, see `valid_iff`) that the
driver evaluates on every fitted model the harness produces; for the models of `Model/Threshold.lean` they are
DERIVED from the fitting code (`fitted_rules_valid_simple / _EO`), so the `fitted_*` theorems below carry no
hypothesis beyond "the fit succeeded".

CLAUSE → THEOREM TABLE (R1 review; property text in properties.jsonl)
  1  reported probabilities are a valid distribution per row (in [0,1], summing to 1)
       thresholder : `thresholder_pmf_range` (any dict of valid rules, seen or unseen group, any score),
                     `fitted_pmf_is_distribution_simple / _EO` (every fitted model, NO further hypothesis),
                     `thresholder_pmf_range_slack` (float slack on p0 + p1)
       EG          : `eg_pmf_range`, `eg_pmf_range_slack`, `eg_pmf_row_distribution` (row `(1 - p, p)`); the sum
                     hypothesis is needed: `eg_pmf_range_needs_sum`.  HYPOTHESES, not derived here:
                     `weights_` is a probability vector over distinct predictor ids and the stored classifiers output
                     values in [0,1]; evaluated by the harness on every fitted model (relation `C10.eg_pmf_range.hyp`);
                     that the EG loop produces such weights is C08's subject.
  2  EG: positive probability = `weights_`-weighted mixture of the stored predictors' outputs
       `eg_pmf_is_mixture`, `eg_pmf_order_irrelevant`; the mask, the `.dot` pairing, the `[1 − p, p]` columns, the
       column `[:, 1]`, the `>=` and the `* 1` of `_pmf_predict` / `predict` are LIFTED (`Generated/EgPredict.lean`) and
       the model computes with them: `eg_mask_lifted`, `eg_dot_lifted`, `eg_pmf_row_lifted`, `eg_predict_label_lifted`,
       `eg_predict_deterministic`
  3  thresholder: depends only on the row's score and group
       `pmf_depends_only_on_score_group`, `thresholder_selects_group`, `thresholder_unseen_group`
       (the model is row-wise BY CONSTRUCTION; what ties the real mask assignment to it is the correspondence
        relation `C10.pmf_depends_only_on_score_group`: permuted / duplicated query rows in another container)
  4  thresholder, without flip: never decreases as the score increases
       `pmf_monotone_noflip` (hypotheses), `fitted_pmf_monotone_noflip_simple / _EO` (every model fitted with
       flip = False); sharpness `flip_not_monotone`
  5  predict returns labels in {0,1}
       `bernoulli_is_label`, `predict_rowwise`
  6  regression moments: the value of ONE STORED predictor, chosen with its OWN weight
       `eg_regression_own_weight` (code = id-aligned draw, pairing lifted), `eg_regression_byid_own_weight`
       (interval of length `weights_[t]`), `eg_regression_returns_stored_value` (never the 0 placeholder of a
       zero-weight predictor), `choice_own_weight`, `choice_total`; old positional code refuted:
       `eg_regression_positional_counterexample`; `eg_regression_own_weight_partial` = the clause for positional code
  7  frequencies over independent seeds match the probabilities — PARTIAL BY NATURE (RNG trusted)
       `bernoulli_iff` (label 1 exactly on u ≤ p: measure p of [0,1) for 0 ≤ p < 1), `choice_own_weight`;
       harness: exact replay of RandomState draws + exact binomial tests + pooled Hoeffding test
  8  reproducible for a fixed random_state
       the model is a FUNCTION of (reported probabilities, draws): `predict_rowwise`, `predict_row_independent`,
       `predict_draw_count`, `bernoulli_reproducible` (congruence — trivial by design); that equal seeds give
       equal draws is RandomState behaviour (trusted), observed by relation `C10.bernoulli_reproducible`
  9  deterministic where the probability is 0 or 1
       `bernoulli_deterministic_one` (all u < 1), `bernoulli_deterministic_zero` (all u > 0; u = 0 — probability
       2⁻⁵³ — gives label 1 because the code compares with `>=`: `example : bernoulli 0 0 = 1`),
       regression: `choice_deterministic`
  Totalisation: `preds.getD t 0` / `weightOf … = 0` defaults are reached only for a predictor id outside
  `0..T-1` (pandas would raise KeyError); `fit` fills `weights_` for exactly the ids `0..T-1`, and the harness
  reports any other index as `C10.eg_pmf_range.hyp`.  `choice` returns an `Option` (no default).
-/
import FairModel.Lemmas.Pmf
import FairModel.Lemmas.PmfMore
import FairModel.Properties.C04

namespace C10
open Pmf

/-! ### InterpolatedThresholder / ThresholdOptimizer -/

/-- what the text LIFTED on every run from `_threshold_operation.py` / `_interpolated_thresholder.py`
    (`Generated/ThresholderSrc.lean`, over which `Model/Pmf.lean` is defined) has to say for the theorems below:
    strict comparisons with the threshold on the right, the interpolation and `p_ignore` mixing expressions, start value 0,
    returned row `[1 - p, p]`, column 1 compared with the draw by `p >= u` -/
theorem src_predict_path (s t p0 o0 p1 o1 pi c v p u : Rat) :
    (ThresholderSrc.opGt s t = true ↔ t < s) ∧ (ThresholderSrc.opLt s t = true ↔ s < t) ∧
    ThresholderSrc.interp p0 o0 p1 o1 = p0 * o0 + p1 * o1 ∧
    ThresholderSrc.withIgnore pi c v = pi * c + (1 - pi) * v ∧
    ThresholderSrc.initialProb s = 0 ∧ ThresholderSrc.col0 p = 1 - p ∧ ThresholderSrc.col1 p = p ∧
    ThresholderSrc.probColumn = 1 ∧ (ThresholderSrc.drawsOne p u = true ↔ u ≤ p) :=
  ⟨src_opGt s t, src_opLt s t, src_interp p0 o0 p1 o1, src_withIgnore pi c v, src_initialProb s, (src_cols p).1,
   (src_cols p).2, src_probColumn, src_drawsOne p u⟩

/-- the decidable predicate the driver evaluates is exactly the hypothesis used below -/
theorem valid_decides (eps : Rat) (r : Rule) : r.valid eps = true ↔ r.Valid eps := valid_iff eps r

/-- an equalized-odds style rule with ±inf thresholds -/
def exRule : Rule := ⟨3/4, ⟨.gt, .fin (1/2)⟩, 1/4, ⟨.gt, .pinf⟩, some (1/5, 3/8)⟩
def exDict : List (String × Rule) :=
  [("a", exRule), ("b", ⟨0, ⟨.gt, .ninf⟩, 1, ⟨.gt, .fin (1/4)⟩, none⟩)]

/-- non-vacuity (`thresholder_rule_range`, `thresholder_pmf_range`, `pmf_monotone_noflip`): a two-group dict with a
    genuinely interpolating rule (p0 = 3/4, p_ignore = 1/5), ±inf thresholds, meets ALL hypotheses at once, and the
    value at an interior score is strictly between 0 and 1 -/
example : (∀ e ∈ exDict, e.2.Valid 0) ∧ (∀ e ∈ exDict, e.2.allGt = true) ∧ ((exDict.map (·.1)).Nodup) ∧
    0 < thrPositive exDict "a" (5/8) ∧ thrPositive exDict "a" (5/8) < 1 ∧
    thrPositive exDict "a" (1/4) < thrPositive exDict "a" (5/8) := by
  refine ⟨?_, by decide +kernel, by decide +kernel, by decide +kernel, by decide +kernel, by decide +kernel⟩
  intro e he
  rw [← valid_iff]
  revert e
  decide +kernel

/-- one rule: `p_ignore*c + (1-p_ignore)*(p0*op0(s) + p1*op1(s))` is a probability -/
theorem thresholder_rule_range (r : Rule) (s : Rat) (h : r.Valid 0) :
    0 ≤ r.positive s ∧ r.positive s ≤ 1 := by
  refine ⟨positive_nonneg 0 r s h, ?_⟩
  have := positive_le 0 (le_refl 0) r s h
  linarith

/-- **the reported row `[1-p, p]` is a valid distribution**, for every dict of valid rules, every
    group (seen at fit time or not) and every score -/
theorem thresholder_pmf_range (dict : List (String × Rule)) (g : String) (s : Rat)
    (h : ∀ e ∈ dict, e.2.Valid 0) :
    0 ≤ (pmfRow (thrPositive dict g s)).2 ∧ (pmfRow (thrPositive dict g s)).2 ≤ 1 ∧
    0 ≤ (pmfRow (thrPositive dict g s)).1 ∧ (pmfRow (thrPositive dict g s)).1 ≤ 1 ∧
    (pmfRow (thrPositive dict g s)).1 + (pmfRow (thrPositive dict g s)).2 = 1 := by
  have hp : 0 ≤ thrPositive dict g s ∧ thrPositive dict g s ≤ 1 := by
    rcases thrPositive_cases dict g s with h0 | ⟨e, he, _, h1⟩
    · rw [h0]; norm_num
    · rw [h1]; exact thresholder_rule_range e.2 s (h e he)
  simp only [pmfRow, (src_cols _).1, (src_cols _).2]
  refine ⟨hp.1, hp.2, by linarith, by linarith, by ring⟩

/-- the same with the rounding slack of the fitted floats (`p0 = 1 - p1` up to `eps`) -/
theorem thresholder_pmf_range_slack (eps : Rat) (heps : 0 ≤ eps) (dict : List (String × Rule))
    (g : String) (s : Rat) (h : ∀ e ∈ dict, e.2.Valid eps) :
    0 ≤ thrPositive dict g s ∧ thrPositive dict g s ≤ 1 + eps := by
  rcases thrPositive_cases dict g s with h0 | ⟨e, he, _, h1⟩
  · rw [h0]; constructor <;> linarith
  · rw [h1]; exact ⟨positive_nonneg eps e.2 s (h e he), positive_le eps heps e.2 s (h e he)⟩

/-- the rule applied to a row is the rule stored under the row's own group key -/
theorem thresholder_selects_group (dict : List (String × Rule)) (g : String) (r : Rule) (s : Rat)
    (hnd : (dict.map (·.1)).Nodup) (hm : (g, r) ∈ dict) : thrPositive dict g s = r.positive s :=
  thrPositive_of_mem dict g r s hnd hm

/-- a group that has no rule keeps the initial `0.0` -/
theorem thresholder_unseen_group (dict : List (String × Rule)) (g : String) (s : Rat)
    (h : ∀ e ∈ dict, g ≠ e.1) : thrPositive dict g s = 0 := by
  unfold thrPositive
  rw [foldl_select_absent dict g s _ h]
  exact src_initialProb s

/-- **the pmf of a row depends only on its (group, score)**: neither on the other rows of the query
    set nor on its position -/
theorem pmf_depends_only_on_score_group (dict : List (String × Rule))
    (rows rows' : List (String × Rat)) (i j : Nat) (hi : i < rows.length) (hj : j < rows'.length)
    (h : rows[i] = rows'[j]) :
    (thrPmf dict rows)[i]'(by simpa [thrPmf] using hi) = (thrPmf dict rows')[j]'(by simpa [thrPmf] using hj) := by
  simp [thrPmf, h]

/-- **without flip the positive probability never decreases as the score increases**
    (both operations are `>` thresholds; valid weights) -/
theorem pmf_monotone_noflip (eps : Rat) (dict : List (String × Rule)) (g : String) (s s' : Rat)
    (hv : ∀ e ∈ dict, e.2.Valid eps) (hgt : ∀ e ∈ dict, e.2.allGt = true) (hs : s ≤ s') :
    thrPositive dict g s ≤ thrPositive dict g s' := by
  unfold thrPositive
  rw [src_initialProb s, src_initialProb s']
  apply foldl_select_mono dict g s s' 0 0 (le_refl 0)
  intro e he
  exact positive_mono eps e.2 s s' (hv e he) (hgt e he) hs

/-- with a flipped (`<`) operation monotonicity genuinely fails -/
def flippedRule : Rule := ⟨1, ⟨.lt, .fin (1/2)⟩, 0, ⟨.gt, .fin (1/2)⟩, none⟩
theorem flip_not_monotone :
    flippedRule.Valid 0 ∧ ¬ (thrPositive [("a", flippedRule)] "a" 0 ≤ thrPositive [("a", flippedRule)] "a" 1) := by
  constructor
  · rw [← valid_iff]; decide +kernel
  · decide +kernel

/-! ### the hypotheses above are MET by every model `ThresholdOptimizer.fit` produces

`ThresholdPredict.dictOf names fit.rules` is the `interpolation_dict` stored by the fit (`Model/Threshold.lean`), with one
Bunch per sensitive-feature value.  So for fitted models the range / monotonicity theorems hold unconditionally. -/

open Threshold ThresholdGen ThresholdPredict in
/-- every Bunch stored by a successful fit for a simple constraint is a valid rule, and all its operations are `>`
    when `flip = False` -/
theorem fitted_rules_valid_simple (flip : Bool) (xm ym : Metric) (N : Nat) (groups : List (List Row))
    (force : Option Nat) (fit : Fit) (names : List String) (hN : 1 ≤ N) (hx : IsConstraintMetric xm)
    (hfit : fitSimple flip xm ym N groups force = some fit) :
    ∀ e ∈ dictOf names fit.rules, e.2.Valid 0 ∧ (flip = false → e.2.allGt = true) := by
  obtain ⟨hulls, cs, best, hh, hc, hb, _, hrules, _, _⟩ := fitSimple_some hfit
  obtain ⟨hi, hbest⟩ := List.getElem?_eq_some_iff.mp hb
  obtain ⟨hrow, hent⟩ := curves_entry hx hh hN hc fit.iBest hi
  have hlenh := (hullsOf_some hh).1
  rw [hbest] at hrow hent
  intro e he
  obtain ⟨j, _, hj', hej⟩ := mem_dictOf he
  have hjb : j < best.length := by rw [hrules] at hj'; simpa using hj'
  obtain ⟨gc, hs⟩ := hent j (by omega) hjb (by omega)
  have hr : fit.rules[j] = simpleRule best[j] := by simp [hrules]
  rw [hej, hr]
  refine ⟨valid_simple hs, ?_⟩
  intro hf
  subst hf
  obtain ⟨g0, g1⟩ := interp_ops_gt gc hs
  exact toPmfRule_allGt _ g0 g1

open Threshold ThresholdGen ThresholdPredict in
/-- the same for equalized odds: additionally `p_ignore ∈ [0,1]` and `prediction_constant = x_best ∈ [0,1]` -/
theorem fitted_rules_valid_EO (flip : Bool) (obj : Metric) (N : Nat) (groups : List (List Row))
    (force : Option Nat) (fit : Fit) (yBest : Rat) (names : List String) (hN : 1 ≤ N)
    (hfit : fitEO flip obj N groups force = some (fit, yBest)) :
    ∀ e ∈ dictOf names fit.rules, e.2.Valid 0 ∧ (flip = false → e.2.allGt = true) := by
  obtain ⟨_, hiN, hrl, hpar⟩ := C04.parity_EO flip obj N groups force fit yBest hN hfit
  obtain ⟨hulls, cs, ymins, best, hh, hc, _, hb, _, _, hrules, _, _⟩ := fitEO_some hfit
  have hx := C04.eo_metric_is_constraint
  obtain ⟨hi, hbest⟩ := List.getElem?_eq_some_iff.mp hb
  obtain ⟨hrow, hent⟩ := curves_entry hx hh hN hc fit.iBest hi
  have hlenh := (hullsOf_some hh).1
  rw [hbest] at hrow hent
  intro e he
  obtain ⟨j, _, hj', hej⟩ := mem_dictOf he
  have hjb : j < best.length := by rw [hrules] at hj'; simpa using hj'
  obtain ⟨gc, hs⟩ := hent j (by omega) hjb (by omega)
  have hr : fit.rules[j] = eoRule (gridVal N fit.iBest) yBest best[j] := by simp [hrules]
  obtain ⟨pi, c, hign, hp0, hp1, hcv⟩ := (hpar j (by omega) hj').2.2
  rw [hej]
  refine ⟨valid_of _ (by rw [hr]; exact hs.p0_nonneg) (by rw [hr]; exact hs.p1_nonneg)
    (by rw [hr]; exact hs.sum_one) ?_, ?_⟩
  · intro pi' c' h'
    rw [hign] at h'
    simp only [Option.some.injEq, Prod.mk.injEq] at h'
    obtain ⟨rfl, rfl⟩ := h'
    exact ⟨hp0, hp1, by rw [hcv]; exact gridVal_nonneg N fit.iBest, by rw [hcv]; exact gridVal_le_one hN hiN⟩
  · intro hf
    subst hf
    obtain ⟨g0, g1⟩ := interp_ops_gt gc hs
    rw [hr]
    exact toPmfRule_allGt _ g0 g1

open Threshold ThresholdGen ThresholdPredict in
/-- **end to end**: whatever was fitted (simple constraint or equalized odds), whatever the query rows (training rows,
    unseen scores, scores equal to a threshold, unseen sensitive-feature values), `_pmf_predict` of the fitted model
    returns rows `[1 - p, p]` with `0 ≤ p ≤ 1` -/
theorem fitted_pmf_is_distribution (names : List String) (fit : Fit)
    (hv : ∀ e ∈ dictOf names fit.rules, e.2.Valid 0) (rows : List (String × Rat)) :
    ∀ row ∈ predictPmf names fit rows, 0 ≤ row.2 ∧ row.2 ≤ 1 ∧ 0 ≤ row.1 ∧ row.1 ≤ 1 ∧ row.1 + row.2 = 1 := by
  intro row hrow
  unfold predictPmf thrPmf at hrow
  obtain ⟨q, _, rfl⟩ := List.mem_map.mp hrow
  exact thresholder_pmf_range (dictOf names fit.rules) q.1 q.2 hv

open Threshold ThresholdGen ThresholdPredict in
/-- clause 1 for every model fitted with a single-metric constraint — no hypothesis beyond "the fit succeeded" -/
theorem fitted_pmf_is_distribution_simple (flip : Bool) (xm ym : Metric) (N : Nat) (groups : List (List Row))
    (force : Option Nat) (fit : Fit) (names : List String) (hN : 1 ≤ N) (hx : IsConstraintMetric xm)
    (hfit : fitSimple flip xm ym N groups force = some fit) (rows : List (String × Rat)) :
    ∀ row ∈ predictPmf names fit rows, 0 ≤ row.2 ∧ row.2 ≤ 1 ∧ 0 ≤ row.1 ∧ row.1 ≤ 1 ∧ row.1 + row.2 = 1 :=
  fitted_pmf_is_distribution names fit
    (fun e he => (fitted_rules_valid_simple flip xm ym N groups force fit names hN hx hfit e he).1) rows

open Threshold ThresholdGen ThresholdPredict in
/-- ... and for every equalized-odds fit -/
theorem fitted_pmf_is_distribution_EO (flip : Bool) (obj : Metric) (N : Nat) (groups : List (List Row))
    (force : Option Nat) (fit : Fit) (yBest : Rat) (names : List String) (hN : 1 ≤ N)
    (hfit : fitEO flip obj N groups force = some (fit, yBest)) (rows : List (String × Rat)) :
    ∀ row ∈ predictPmf names fit rows, 0 ≤ row.2 ∧ row.2 ≤ 1 ∧ 0 ≤ row.1 ∧ row.1 ≤ 1 ∧ row.1 + row.2 = 1 :=
  fitted_pmf_is_distribution names fit
    (fun e he => (fitted_rules_valid_EO flip obj N groups force fit yBest names hN hfit e he).1) rows

open Threshold ThresholdGen ThresholdPredict in
/-- clause 4 for every model fitted with `flip = False` (single-metric constraint): for every group key (seen or not)
    the reported positive probability is non-decreasing in the score — no further hypothesis -/
theorem fitted_pmf_monotone_noflip_simple (xm ym : Metric) (N : Nat) (groups : List (List Row))
    (force : Option Nat) (fit : Fit) (names : List String) (hN : 1 ≤ N) (hx : IsConstraintMetric xm)
    (hfit : fitSimple false xm ym N groups force = some fit) (g : String) (s s' : Rat) (hs : s ≤ s') :
    thrPositive (dictOf names fit.rules) g s ≤ thrPositive (dictOf names fit.rules) g s' := by
  have h := fitted_rules_valid_simple false xm ym N groups force fit names hN hx hfit
  exact pmf_monotone_noflip 0 _ g s s' (fun e he => (h e he).1) (fun e he => (h e he).2 rfl) hs

open Threshold ThresholdGen ThresholdPredict in
/-- ... and for every equalized-odds model fitted with `flip = False` (the `p_ignore` mixing keeps monotonicity) -/
theorem fitted_pmf_monotone_noflip_EO (obj : Metric) (N : Nat) (groups : List (List Row))
    (force : Option Nat) (fit : Fit) (yBest : Rat) (names : List String) (hN : 1 ≤ N)
    (hfit : fitEO false obj N groups force = some (fit, yBest)) (g : String) (s s' : Rat) (hs : s ≤ s') :
    thrPositive (dictOf names fit.rules) g s ≤ thrPositive (dictOf names fit.rules) g s' := by
  have h := fitted_rules_valid_EO false obj N groups force fit yBest names hN hfit
  exact pmf_monotone_noflip 0 _ g s s' (fun e he => (h e he).1) (fun e he => (h e he).2 rfl) hs

open Threshold ThresholdGen ThresholdPredict in
/-- non-vacuity of the `fitted_*` theorems: the 3-group example of C04 (ties, a vertical hull segment) fits under a
    simple constraint without flip and under equalized odds with flip; the stored dicts are valid, the no-flip one
    has only `>` operations, and both are genuinely randomised (0 < p < 1) at a training score -/
example : (fitSimple false .selection_rate .balanced_accuracy_score 3 C04.ex none).map (fun f =>
      ((dictOf ["a", "b", "c"] f.rules).all (fun e => e.2.valid 0 && e.2.allGt),
       decide (0 < thrPositive (dictOf ["a", "b", "c"] f.rules) "b" (1/2) ∧
               thrPositive (dictOf ["a", "b", "c"] f.rules) "b" (1/2) < 1))) = some (true, true) := by
  decide +kernel
open Threshold ThresholdGen ThresholdPredict in
example : (fitEO true .accuracy_score 4 C04.ex none).map (fun f =>
      ((dictOf ["a", "b", "c"] f.1.rules).all (fun e => e.2.valid 0),
       decide (0 < thrPositive (dictOf ["a", "b", "c"] f.1.rules) "a" (1/2) ∧
               thrPositive (dictOf ["a", "b", "c"] f.1.rules) "a" (1/2) < 1))) = some (true, true) := by
  decide +kernel

/-! ### `predict`: labels row by row from the draws -/

open Threshold ThresholdPredict in
/-- **for ANY sequence of draws** the `i`-th label of `predict` is the Bernoulli rule `[p_i ≥ u_i]` applied to the `i`-th
    row's own reported probability and the `i`-th draw: rows are independent given the draws -/
theorem predict_rowwise (names : List String) (fit : Fit) (rows : List (String × Rat)) (us : List Rat)
    (i : Nat) (hi : i < rows.length) (hu : i < us.length) (h : i < (predictLabels names fit rows us).length) :
    (predictLabels names fit rows us)[i] =
      bernoulli (thrPositive (dictOf names fit.rules) rows[i].1 rows[i].2) us[i] :=
  predictLabels_get names fit rows us i hi hu h

open Threshold ThresholdPredict in
/-- ... so the label of a row depends only on its own (group, score) and its own draw, not on the rest of the query
    set or on the row's position -/
theorem predict_row_independent (names : List String) (fit : Fit) (rows rows' : List (String × Rat))
    (us us' : List Rat) (i j : Nat) (hi : i < rows.length) (hu : i < us.length) (hj : j < rows'.length)
    (hu' : j < us'.length) (hrow : rows[i] = rows'[j]) (hdraw : us[i] = us'[j]) :
    (predictLabels names fit rows us)[i]'(by rw [predictLabels_length]; omega) =
    (predictLabels names fit rows' us')[j]'(by rw [predictLabels_length]; omega) := by
  rw [predict_rowwise names fit rows us i hi hu, predict_rowwise names fit rows' us' j hj hu', hrow, hdraw]

open Threshold ThresholdPredict in
/-- one `predict` call on `n` rows consumes exactly `n` draws (`rand(len(positive_probs))`) and returns `n` labels; two
    calls on the same rows consume the same number, whatever the seed -/
theorem predict_draw_count (names : List String) (fit : Fit) (rows : List (String × Rat)) (us : List Rat)
    (hus : us.length = drawsConsumed rows) :
    drawsConsumed rows = rows.length ∧ (predictLabels names fit rows us).length = rows.length := by
  refine ⟨rfl, ?_⟩
  rw [predictLabels_length, hus]; simp [drawsConsumed]

/-! ### ExponentiatedGradient, classification -/

/-- the reported positive probability is the `weights_`-weighted mixture of the stored predictors'
    outputs, aligned by predictor id -/
theorem eg_pmf_is_mixture (preds : List Rat) (weights : List (Nat × Rat))
    (hnd : (weights.map (·.1)).Nodup) :
    egPositive preds weights = (weights.map (fun e => preds.getD e.1 0 * e.2)).sum :=
  egPositive_eq_sum preds weights hnd

/-- ... so the order in which `weights_` lists the predictors is irrelevant -/
theorem eg_pmf_order_irrelevant (preds : List Rat) (w w' : List (Nat × Rat))
    (hnd : (w.map (·.1)).Nodup) (hperm : w.Perm w') : egPositive preds w = egPositive preds w' := by
  have hnd' : (w'.map (·.1)).Nodup := (hperm.map _).nodup_iff.mp hnd
  rw [egPositive_eq_sum preds w hnd, egPositive_eq_sum preds w' hnd']
  exact (hperm.map _).sum_eq

/-- **a probability vector over predictors with outputs in [0,1] (in particular 0/1) gives a
    probability** -/
theorem eg_pmf_range (preds : List Rat) (weights : List (Nat × Rat))
    (hnd : (weights.map (·.1)).Nodup) (hw : ∀ e ∈ weights, 0 ≤ e.2)
    (hsum : (weights.map (·.2)).sum = 1)
    (hp : ∀ e ∈ weights, 0 ≤ preds.getD e.1 0 ∧ preds.getD e.1 0 ≤ 1) :
    0 ≤ egPositive preds weights ∧ egPositive preds weights ≤ 1 := by
  rw [egPositive_eq_sum preds weights hnd]
  have := sum_mul_le_sum (weights.map (fun e => (preds.getD e.1 0, e.2))) (by
    intro x hx
    obtain ⟨e, he, rfl⟩ := List.mem_map.mp hx
    exact ⟨(hp e he).1, (hp e he).2, hw e he⟩)
  simp only [List.map_map, Function.comp_def] at this
  rw [hsum] at this
  exact this

/-- the same WITHOUT assuming the weights sum to exactly 1 (the LP step returns `weights_` that sum to 1 only up to the
    solver's tolerance; the harness evaluates `|Σ weights_ - 1| ≤ 1e-7`): `0 ≤ p ≤ Σ weights_ ≤ 1 + eps` -/
theorem eg_pmf_range_slack (preds : List Rat) (weights : List (Nat × Rat)) (eps : Rat)
    (hnd : (weights.map (·.1)).Nodup) (hw : ∀ e ∈ weights, 0 ≤ e.2)
    (hsum : (weights.map (·.2)).sum ≤ 1 + eps)
    (hp : ∀ e ∈ weights, 0 ≤ preds.getD e.1 0 ∧ preds.getD e.1 0 ≤ 1) :
    0 ≤ egPositive preds weights ∧ egPositive preds weights ≤ 1 + eps := by
  rw [egPositive_eq_sum preds weights hnd]
  have := sum_mul_le_sum (weights.map (fun e => (preds.getD e.1 0, e.2))) (by
    intro x hx
    obtain ⟨e, he, rfl⟩ := List.mem_map.mp hx
    exact ⟨(hp e he).1, (hp e he).2, hw e he⟩)
  simp only [List.map_map, Function.comp_def] at this
  exact ⟨this.1, le_trans this.2 hsum⟩

/-- the hypothesis `Σ weights_ = 1` of `eg_pmf_range` is NEEDED (the model function, like the code, just forms the dot
    product): weights summing to 3/2 give the "probability" 3/2.  The harness therefore evaluates the hypothesis on every
    fitted model (`C10.eg_pmf_range.hyp`) -/
theorem eg_pmf_range_needs_sum :
    (∀ e ∈ [((0 : Nat), (3/4 : Rat)), (1, 3/4)], 0 ≤ e.2) ∧ egPositive [1, 1] [(0, 3/4), (1, 3/4)] = 3/2 := by
  decide +kernel

/-- the reported row `(1 - p, p)` of `ExponentiatedGradient._pmf_predict` is a valid distribution under the same
    hypotheses.  (The column expression `np.concatenate((1 - positive_probs, positive_probs), axis=1)` is lifted:
    `eg_pmf_row_lifted` below; the harness also compares both reported columns with `1 - p` and `p`.) -/
theorem eg_pmf_row_distribution (preds : List Rat) (weights : List (Nat × Rat))
    (hnd : (weights.map (·.1)).Nodup) (hw : ∀ e ∈ weights, 0 ≤ e.2)
    (hsum : (weights.map (·.2)).sum = 1)
    (hp : ∀ e ∈ weights, 0 ≤ preds.getD e.1 0 ∧ preds.getD e.1 0 ≤ 1) :
    0 ≤ 1 - egPositive preds weights ∧ 1 - egPositive preds weights ≤ 1 ∧
    0 ≤ egPositive preds weights ∧ egPositive preds weights ≤ 1 ∧
    (1 - egPositive preds weights) + egPositive preds weights = 1 := by
  obtain ⟨h0, h1⟩ := eg_pmf_range preds weights hnd hw hsum hp
  exact ⟨by linarith, by linarith, h0, h1, by ring⟩

/-- non-vacuity (`eg_pmf_is_mixture`, `eg_pmf_range`, `eg_pmf_row_distribution`): three stored 0/1 predictors, `weights_`
    listed in an order that is NOT the id order, one zero weight; all hypotheses hold at once, every id is inside the
    predictor list (no `getD` default is used) and the mixture is strictly between 0 and 1 -/
example :
    let preds : List Rat := [1, 0, 1, 1]
    let w : List (Nat × Rat) := [(0, 1/2), (3, 0), (2, 1/4), (1, 1/4)]
    (w.map (·.1)).Nodup ∧ (∀ e ∈ w, 0 ≤ e.2) ∧ (w.map (·.2)).sum = 1 ∧ (∀ e ∈ w, e.1 < preds.length) ∧
    (∀ e ∈ w, 0 ≤ preds.getD e.1 0 ∧ preds.getD e.1 0 ≤ 1) ∧ egPositive preds w = 3/4 := by
  decide +kernel

/-! ### ExponentiatedGradient: the LIFTED `_pmf_predict` / `predict` text (`Generated/EgPredict.lean`)

`Pmf.maskedPred`, `egPositive`, `egPmfRow`, `egLabel` are computed with the zero-weight mask, the `.dot` pairing, the two
returned columns, the column index `[:, 1]`, the comparison and the `* 1` lifted from the source on every run.  The
theorems below state what that text means; an edit of any of these fragments changes the generated definitions and the
corresponding theorem (and `eg_pmf_is_mixture` … through `Lemmas/Pmf.lean:egPositive_eq_sum`) stops checking. -/

/-- the zero-weight mask: a stored predictor whose weight is exactly 0 contributes the column `0`, every other one its own
    output — so the mask never changes the mixture (`eg_pmf_is_mixture`) and only saves evaluating unused predictors -/
theorem eg_mask_lifted (preds : List Rat) (weights : List (Nat × Rat)) (t : Nat) :
    maskedPred preds weights t = (if weightOf weights t = 0 then 0 else preds.getD t 0) ∧
    maskedPred preds weights t * weightOf weights t = preds.getD t 0 * weightOf weights t := by
  unfold maskedPred EgPredict.egColumn
  refine ⟨rfl, ?_⟩
  by_cases h : weightOf weights t = 0 <;> simp [h]

/-- `pred[self.weights_.index].dot(self.weights_)` pairs every weight with the column of ITS OWN predictor id, also when
    `weights_` does not list the ids in order (the LP step appends ids; `eg_pmf_order_irrelevant`) -/
theorem eg_dot_lifted (preds : List Rat) (weights : List (Nat × Rat)) :
    egPositive preds weights = (weights.map (fun e => maskedPred preds weights e.1 * e.2)).sum := by
  unfold egPositive
  rw [if_pos (by rfl : EgPredict.dotById = true)]

/-- the reported row is `[1 − p, p]` with `p` the mixture: the two columns sum to one for EVERY input, column 1 is the
    positive probability -/
theorem eg_pmf_row_lifted (preds : List Rat) (weights : List (Nat × Rat)) :
    egPmfRow preds weights = (1 - egPositive preds weights, egPositive preds weights) ∧
    (egPmfRow preds weights).1 + (egPmfRow preds weights).2 = 1 := by
  unfold egPmfRow EgPredict.col0 EgPredict.col1
  exact ⟨rfl, by ring⟩

/-- `predict` (classification): `positive_probs = _pmf_predict(X)[:, 1]`, label `(positive_probs >= u) * 1` — the label
    is 1 exactly when the row's uniform draw is at most the REPORTED POSITIVE probability (column 1, not column 0), and
    0 otherwise: for `u` uniform on [0,1) the label is 1 with probability `p` (0 ≤ p < 1).  It is the same rule as the
    thresholder's `bernoulli`, which the driver runs on the reported column. -/
theorem eg_predict_label_lifted (preds : List Rat) (weights : List (Nat × Rat)) (u : Rat) :
    (egLabel preds weights u = 1 ↔ u ≤ egPositive preds weights) ∧
    (egLabel preds weights u = 0 ∨ egLabel preds weights u = 1) ∧
    egLabel preds weights u = bernoulli (egPositive preds weights) u := by
  have hrow := (eg_pmf_row_lifted preds weights).1
  have key : egLabel preds weights u = if u ≤ egPositive preds weights then 1 else 0 := by
    unfold egLabel EgPredict.positiveCol EgPredict.drawsOne EgPredict.labelScale
    rw [hrow]
    simp only [ge_iff_le, decide_eq_true_eq]
  refine ⟨?_, ?_, ?_⟩
  · rw [key]; split <;> simp_all
  · rw [key]; split <;> simp
  · rw [key]
    by_cases h : u ≤ egPositive preds weights
    · rw [if_pos h, (bernoulli_eq_one_iff _ _).mpr h]
    · rw [if_neg h]
      rcases bernoulli_zero_or_one (egPositive preds weights) u with h0 | h1
      · exact h0.symm
      · exact absurd ((bernoulli_eq_one_iff _ _).mp h1) h

/-- hence `predict` is deterministic where the reported probability is 0 or 1 (u in (0,1)), and labels are in {0,1} -/
theorem eg_predict_deterministic (preds : List Rat) (weights : List (Nat × Rat)) (u : Rat) (h0 : 0 < u) (h1 : u < 1) :
    (egPositive preds weights = 1 → egLabel preds weights u = 1) ∧
    (egPositive preds weights = 0 → egLabel preds weights u = 0) := by
  obtain ⟨hiff, hor, _⟩ := eg_predict_label_lifted preds weights u
  constructor
  · intro hp; exact hiff.mpr (by rw [hp]; exact le_of_lt h1)
  · intro hp
    rcases hor with h | h
    · exact h
    · have := hiff.mp h; rw [hp] at this; exact absurd h0 (not_lt.mpr this)

example : egPmfRow [1, 0, 1] [(0, 1/2), (2, 1/4), (1, 1/4)] = (1/4, 3/4) ∧
    egLabel [1, 0, 1] [(0, 1/2), (2, 1/4), (1, 1/4)] (1/2) = 1 ∧ egLabel [1, 0, 1] [(0, 1/2), (2, 1/4), (1, 1/4)] (7/8) = 0 := by
  decide +kernel

/-! ### the Bernoulli draw `(p >= u) * 1` -/

theorem bernoulli_is_label (p u : Rat) : bernoulli p u = 0 ∨ bernoulli p u = 1 :=
  bernoulli_zero_or_one p u

/-- label 1 is produced exactly on `u ∈ [0, p]`: for `0 ≤ p ≤ 1` a set of measure `p` in `[0,1)` -/
theorem bernoulli_iff (p u : Rat) : bernoulli p u = 1 ↔ u ≤ p := bernoulli_eq_one_iff p u

/-- reproducible: the label is a function of the reported probability and the drawn number -/
theorem bernoulli_reproducible (p p' u u' : Rat) (hp : p = p') (hu : u = u') :
    bernoulli p u = bernoulli p' u' := by rw [hp, hu]

/-- **deterministic where the probability is 1** (every `u < 1`, in fact every `u ≤ 1`) -/
theorem bernoulli_deterministic_one (u : Rat) (hu : u < 1) : bernoulli 1 u = 1 :=
  (bernoulli_eq_one_iff 1 u).mpr (le_of_lt hu)

/-- **deterministic where the probability is 0** for every `u > 0`.  (`u = 0`, which `rand()` returns
    with probability 2⁻⁵³, gives label 1 because the code compares with `>=`: see the example.) -/
theorem bernoulli_deterministic_zero (u : Rat) (hu : 0 < u) : bernoulli 0 u = 0 := by
  rcases bernoulli_zero_or_one 0 u with h | h
  · exact h
  · have := (bernoulli_eq_one_iff 0 u).mp h
    linarith

/-! ### `RandomState.choice(values, p=probs)` -/

/-- **position `i` is returned exactly on `u ∈ [c, c + probs[i])`, `c = probs[0]+…+probs[i-1]`** —
    an interval of length `probs[i]`.  So the VALUE at position `i` is drawn with the probability at
    position `i`: values and probabilities must be aligned. -/
theorem choice_own_weight (probs : List Rat) (hp : ∀ p ∈ probs, 0 ≤ p) (u : Rat) (hu : 0 ≤ u)
    (i : Nat) (hi : i < probs.length) :
    choiceIdx probs u = i ↔ (probs.take i).sum ≤ u ∧ u < (probs.take i).sum + probs[i] := by
  have := choiceIdxFrom_eq_iff probs hp 0 u hu i hi
  simp only [zero_add] at this
  unfold choiceIdx
  rw [this, List.sum_take_succ probs i hi]

/-- a probability vector always yields a value for `u ∈ [0,1)` -/
theorem choice_total (values probs : List Rat) (hlen : values.length = probs.length)
    (hsum : probs.sum = 1) (u : Rat) (hu0 : 0 ≤ u) (hu1 : u < 1) :
    ∃ v, choice values probs u = some v := by
  have : choiceIdx probs u < probs.length := by
    unfold choiceIdx
    apply choiceIdxFrom_lt probs 0 u hu0
    rw [hsum]; linarith
  unfold choice
  rw [← hlen] at this
  exact ⟨values[choiceIdx probs u], by simp [List.getElem?_eq_getElem this]⟩

/-- **deterministic where a probability is 1**: in a probability vector with `probs[i] = 1` position `i` is returned for
    EVERY draw `u ∈ [0,1)` -/
theorem choice_deterministic (probs : List Rat) (hp : ∀ p ∈ probs, 0 ≤ p) (hsum : probs.sum = 1)
    (i : Nat) (hi : i < probs.length) (h1 : probs[i] = 1) (u : Rat) (hu0 : 0 ≤ u) (hu1 : u < 1) :
    choiceIdx probs u = i := by
  rw [choice_own_weight probs hp u hu0 i hi, take_sum_zero_of_one probs hp hsum i hi h1, h1]
  constructor <;> linarith

/-- the chosen position always carries a positive probability (a zero-probability value is never returned) -/
theorem choice_positive_weight (probs : List Rat) (hp : ∀ p ∈ probs, 0 ≤ p) (hsum : probs.sum = 1)
    (u : Rat) (hu0 : 0 ≤ u) (hu1 : u < 1) :
    ∃ h : choiceIdx probs u < probs.length, 0 < probs[choiceIdx probs u] :=
  choiceIdx_prob_pos probs hp u hu0 (by rw [hsum]; exact hu1)

/-- non-vacuity (`choice_own_weight`, `choice_total`, `choice_positive_weight`, `choice_deterministic`): a probability
    vector with a zero entry in the middle; the draw 1/2 falls on the boundary and selects position 2 (never 1) -/
example : (∀ p ∈ ([1/2, 0, 1/2] : List Rat), 0 ≤ p) ∧ ([1/2, 0, 1/2] : List Rat).sum = 1 ∧
    choiceIdx [1/2, 0, 1/2] (1/2) = 2 ∧ choiceIdx [1/2, 0, 1/2] (1/4) = 0 ∧
    choiceIdx [0, 1, 0] (3/4) = 1 ∧ choiceIdx [0, 1, 0] 0 = 1 := by decide +kernel

/-! ### ExponentiatedGradient, regression moments -/

/-- what the property demands, proved for the id-aligned draw: predictor `t`'s (masked) value is
    returned exactly on an interval of length `weights_[t]` -/
theorem eg_regression_byid_own_weight (preds : List Rat) (weights : List (Nat × Rat))
    (hw : ∀ t, 0 ≤ weightOf weights t) (u : Rat) (hu : 0 ≤ u) (t : Nat) (ht : t < preds.length) :
    choiceIdx ((List.range preds.length).map (weightOf weights)) u = t ↔
      (((List.range preds.length).map (weightOf weights)).take t).sum ≤ u ∧
      u < (((List.range preds.length).map (weightOf weights)).take t).sum + weightOf weights t := by
  have hp : ∀ p ∈ (List.range preds.length).map (weightOf weights), 0 ≤ p := by
    intro p hp
    obtain ⟨k, _, rfl⟩ := List.mem_map.mp hp
    exact hw k
  have hlen : t < ((List.range preds.length).map (weightOf weights)).length := by simpa using ht
  have := choice_own_weight _ hp u hu t hlen
  simpa using this

/-- FULL STATEMENT (regression clause of C10): `predict` returns the value of stored predictor `t`
    with probability `weights_[t]`, i.e.  `egRegPredict = egRegPredictById` for every fitted model.
    PROVED ONLY under the decidable hypothesis `aligned weights` (`weights_.index = 0..T-1` in this
    order), which the driver evaluates on every fitted regression model; it is FALSE in general, see
    `eg_regression_positional_counterexample`. -/
theorem eg_regression_own_weight_partial (preds : List Rat) (weights : List (Nat × Rat))
    (hal : aligned weights = true) (hlen : preds.length = weights.length) (u : Rat) :
    egRegPredict preds weights u = egRegPredictById preds weights u := by
  unfold egRegPredict egRegPredictById
  rw [hlen, aligned_weights weights hal]

/-- The regression clause for the function the driver runs as "the code" (`egRegPredictCode`, whose pairing
    is lifted from `ExponentiatedGradient.predict` on every run): it is the id-aligned draw — and therefore
    has the own-weight property `eg_regression_byid_own_weight` — as soon as EITHER the source re-orders
    the weights by predictor id (`EgPredict.regressionDrawById`, generated) OR the fitted `weights_.index`
    is `0..T-1` (decidable, evaluated per fitted model). -/
theorem eg_regression_code_own_weight (preds : List Rat) (weights : List (Nat × Rat))
    (h : EgPredict.regressionDrawById = true ∨ (aligned weights = true ∧ preds.length = weights.length))
    (u : Rat) : egRegPredictCode preds weights u = egRegPredictById preds weights u := by
  unfold egRegPredictCode
  rcases h with h | ⟨h1, h2⟩
  · simp [h]
  · split
    · rfl
    · exact eg_regression_own_weight_partial preds weights h1 h2 u

/-- **Regression clause, full strength, for the code as it is now** (F7 repaired in 74c05e5: `predict` hands
    `choice` the weights re-indexed by `pred.columns`).  The pairing is read from the source on every run; if
    the positional pairing comes back, `by decide` below no longer closes and this theorem is reported broken. -/
theorem eg_regression_own_weight (preds : List Rat) (weights : List (Nat × Rat)) (u : Rat) :
    egRegPredictCode preds weights u = egRegPredictById preds weights u :=
  eg_regression_code_own_weight preds weights (Or.inl (by decide)) u

/-- **"the value of one stored predictor"**: for non-negative weights and every draw below their total (every
    `u ∈ [0,1)` for a probability vector) `predict` returns `preds[t]` for a stored predictor `t` with POSITIVE weight —
    never the `0.0` placeholder column `_pmf_predict` writes for a zero-weight predictor, never nothing -/
theorem eg_regression_returns_stored_value (preds : List Rat) (weights : List (Nat × Rat))
    (hw : ∀ t, 0 ≤ weightOf weights t) (u : Rat) (hu0 : 0 ≤ u)
    (hu1 : u < ((List.range preds.length).map (weightOf weights)).sum) :
    ∃ t, ∃ ht : t < preds.length, 0 < weightOf weights t ∧ egRegPredictCode preds weights u = some preds[t] := by
  rw [eg_regression_own_weight]
  have hp : ∀ p ∈ (List.range preds.length).map (weightOf weights), 0 ≤ p := by
    intro p hp
    obtain ⟨k, _, rfl⟩ := List.mem_map.mp hp
    exact hw k
  obtain ⟨hlt, hpos⟩ := choiceIdx_prob_pos _ hp u hu0 hu1
  have ht : choiceIdx ((List.range preds.length).map (weightOf weights)) u < preds.length := by simpa using hlt
  simp only [List.getElem_map, List.getElem_range] at hpos
  refine ⟨_, ht, hpos, ?_⟩
  unfold egRegPredictById choice
  rw [List.getElem?_eq_getElem (by simpa using ht)]
  simp only [List.getElem_map, List.getElem_range, maskedPred_def, if_neg (ne_of_gt hpos), List.getD,
    List.getElem?_eq_getElem ht, Option.getD_some]

/-- non-vacuity (`eg_regression_byid_own_weight`, `eg_regression_returns_stored_value`): the F7 shape — `weights_.index`
    = [0, 1, 3, 2], predictor 2 has weight 0 — meets the hypotheses; the draw 3/4 returns predictor 3's value 8,
    not the placeholder -/
example :
    let w : List (Nat × Rat) := [(0, 1/3), (1, 1/3), (3, 1/3), (2, 0)]
    (∀ t < 4, 0 ≤ weightOf w t) ∧ ((List.range 4).map (weightOf w)).sum = 1 ∧ weightOf w 2 = 0 ∧
    egRegPredictCode [5, 6, 7, 8] w (3/4) = some 8 ∧ egRegPredictCode [5, 6, 7, 8] w 0 = some 5 := by
  decide +kernel

/-- **F7 (regression witness for the OLD, positional pairing `p=self.weights_`; kept so that
    re-introducing it is recognised).**  A fitted model reachable with
    `run_linprog_step=False` has `weights_` = {0: 1/3, 1: 1/3, 3: 1/3, 2: 0} in THIS index order
    (predictor 2 was found inside `eval_gap`, never played, and is appended last).  For every
    `u ∈ [2/3, 1)` the code returns the zero placeholder of predictor 2 — a number no stored predictor
    outputs — although `weights_[2] = 0`, and it never returns predictor 3's value, although
    `weights_[3] = 1/3`; the id-aligned draw returns predictor 3's value on that interval. -/
theorem eg_regression_positional_counterexample (a b c d u : Rat) (h1 : 2/3 ≤ u) (h2 : u < 1) :
    let w : List (Nat × Rat) := [(0, 1/3), (1, 1/3), (3, 1/3), (2, 0)]
    egRegPredict [a, b, c, d] w u = some 0 ∧ egRegPredictById [a, b, c, d] w u = some d := by
  intro w
  have e1 : (3:Rat)⁻¹ ≤ u := by norm_num at h1 ⊢; linarith
  have e2 : (3:Rat)⁻¹ + 3⁻¹ ≤ u := by norm_num at h1 ⊢; linarith
  have e3 : ¬ ((3:Rat)⁻¹ + 3⁻¹ + 3⁻¹ ≤ u) := by intro h; norm_num at h; linarith
  constructor
  · simp [egRegPredict, choice, choiceIdx, choiceIdxFrom, w, maskedPred_def, weightOf, List.range, List.range.loop]
    rw [if_pos e1, if_pos e2, if_neg e3]
    rfl
  · simp [egRegPredictById, choice, choiceIdx, choiceIdxFrom, w, maskedPred_def, weightOf, List.range, List.range.loop]
    rw [if_pos e1, if_pos e2, if_neg e3, if_pos e2]
    rfl

/-! Non-vacuity: concrete fitted-model shapes meet the hypotheses (evaluated by the kernel). -/

example : exRule.valid 0 = true := by decide +kernel
example : exDict.all (fun e => e.2.valid 0 && e.2.allGt) = true := by decide +kernel
example : thrPositive exDict "a" (5/8) = 1/5 * (3/8) + (1 - 1/5) * (3/4) := by decide +kernel
example : thrPositive exDict "b" (1/4) = 0 := by decide +kernel
example : thrPositive exDict "c" 1 = 0 := by decide +kernel
example : egPositive [1, 0, 1] [(0, 1/2), (2, 1/4), (1, 1/4)] = 3/4 := by decide +kernel
example : bernoulli 0 0 = 1 := by decide +kernel
example : choice [10, 20, 30] [1/2, 0, 1/2] (1/2) = some 30 := by decide +kernel
example : aligned [(0, 1/3), (1, 1/3), (3, 1/3), (2, 0)] = false := by decide +kernel
example : egRegPredict [5, 6, 7, 8] [(0, 1/3), (1, 1/3), (3, 1/3), (2, 0)] (3/4) = some 0 := by decide +kernel
example : egRegPredictById [5, 6, 7, 8] [(0, 1/3), (1, 1/3), (3, 1/3), (2, 0)] (3/4) = some 8 := by decide +kernel

end C10
