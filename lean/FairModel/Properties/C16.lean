/-
C16 — adversarial training applies the documented projected-gradient update.
Property theorems only; helper lemmas live in `Lemmas/Adversarial.lean`.

  a = dLP/dW, b = dLA/dW (inputs: autograd is trusted), g = combine a b α = a - proj_b(a) - α b.
  `torchInner`, `torchTiny`, `torchUnit`, `torchGrad` (and the `tf…` twins) are GENERATED from the
  Python source by harness/lifters/adv_projection.py; the theorems that mention them are re-checked
  against what the source says now.

CLAUSE -> THEOREM TABLE (review R2; property text: properties.jsonl C16)
  (1) "each training step changes every parameter tensor W of the predictor along g"
        whole_step_feeds_optimisers (any optimisers), whole_step_sgd + whole_step_sgd_pointwise (plain SGD: W' = W - lr*g per
        tensor, = `predictorStep`), whole_step_keeps_all_tensors (no tensor is dropped), predictor_follows_combined,
        observed_recovers_gradient (what the harness reads off recovers g)
  (2) "g = dLP/dW - proj_{dLA/dW}(dLP/dW) - alpha*dLA/dW"
        torch_step_is_combine, torch_whole_step_direction, update_matrix_is_combine, update_is_projection_residual;
        literal source lines = normalised model: torch_literal_form / tf_literal_form (regulariser tiny = 0) and
        torch_literal_form_tiny / tf_literal_form_tiny (the regulariser as written: coefficient <B,A>/(|B|+tiny)^2)
  (3) "the projection uses the ordinary (Frobenius) inner product of that tensor"
        torch_projection_is_frobenius, tf_projection_is_frobenius (generated kinds), frobenius_is_flat_dot;
        counter-model: sumInner_ne_frobenius_two_rows, sumInner_update_not_orthogonal, sumInner_eq_frobenius_single_row
        NORM KIND (lifted: `torchNorm`, `tfNorm : NormKind`, Generated/AdvProjection.lean; the model `gradWithN`/`engineGradN`
        computes with it): lifted_norm_is_frobenius / tf_lifted_norm_is_frobenius (what the source says now);
        norm_kind_update_shape (ANY kind: g = A - c*B - alpha*B, c = <B,A>/|B|_n^2), norm_kind_orthogonality_defect (ANY kind:
        <g + alpha B, B> = <A,B>*(1 - |B|_2^2/|B|_n^2)), orthogonal_iff_two_norm and projection_coefficient_iff_two_norm
        (BOTH orthogonality and "c is the projection coefficient" hold iff |B|_n = |B|_2 -- a unit vector that is B scaled by
        an arbitrary non-zero scalar is NOT enough), norm_kinds_vanish_together (zero branch independent of the kind),
        norm_kinds_agree_on_one_entry (1x1 tensors cannot see the kind), norm_kinds_ordered (max-abs <= 2-norm <= L1), l1_update_not_orthogonal / maxAbs_update_not_orthogonal
        (2x2 witnesses with non-proportional rows), torch_literal_form_lifted_norm (literal lines = torchStep's non-zero branch
        when nrm is the norm of the LIFTED kind)
  (4) "so g + alpha*dLA/dW is orthogonal to dLA/dW"
        orthogonal, engine_orthogonal, engine_orthogonal_norm (through the norm kind), torch_step_orthogonal, tf_step_orthogonal (model = exact arithmetic, tiny dropped for
        dLA/dW != 0).  PARTIAL for the literal text: literal_tiny_orthogonality_defect gives the EXACT residual
        <A,B> * (1 - |B|^2/(|B|+tiny)^2) of the three source lines, literal_tiny_not_orthogonal proves it is non-zero whenever
        tiny > 0 and <A,B> != 0.  In float32 |B| + tiny == |B| for |B| >= 2^-102, so the defect is below resolution there;
        for 0 < |dLA/dW| <~ 1e-22 the float32 norm underflows and the code's update is off by ~1/tiny (review finding,
        replayed on real fairlearn; the harness does not judge tensors with max|entry| < 1e-18).
        dLA/dW = 0: zero_branch, torch_zero_gradient_keeps_dLP, step_total_iff_tiny_survives, torch_step_total (g = dLP/dW, no NaN)
  (5) "the adversary's parameters follow the plain gradient of its own loss LA"
        adversary_plain_gradient, whole_step_sgd (adversary part), lifted_backward_graph_alive (call arguments pinned by the
        lifter; `retain_graph` lifted: no backward pass through a freed graph), lifted_train_step_gradients (appliedA = 0*dLP + 1*dLA + 0*stale),
        step_eq_stepFromBookkeeping_lifted (the whole-step function IS the step dictated by the lifted statement list),
        tf_adversary_plain_gradient_structural (TensorFlow, structural only)
  (6) "for every layer shape (vectors and matrices with several rows)"
        all theorems quantify over `Mat = List (List Rat)` with `sameShape`; a bias is a one-row matrix.  Tensors of rank > 2
        (not produced by the Linear layers of the quantifier) are covered only through their flattening (`orthogonal` on `Vec`).
  (7) "for demographic parity and for equalized odds (where the adversary also sees y)"
        lifted_adversary_sees_y_iff_equalized_odds, lifted_loss_dependencies
  (8) "alpha >= 0, learning rates; observed through plain-SGD optimisers": every theorem holds for all rational alpha and lr
        (lr != 0 where the observation divides by it); optimisers are parameters (`Opt`), `sgd` / `sgdMomentum` instances.
  Driver ops used by harness/props/c16.py -> model function -> theorem:
    adv.step torch -> predictorStep torchStep -> predictor_follows_combined, torch_step_is_combine, whole_step_sgd_pointwise
    adv.grad ref -> gradWith .frobenius -> update_matrix_is_combine;  adv.grad suminner -> engineGrad .sumInner -> sumInner_update_not_orthogonal
    adv.sgd -> adversaryStep -> adversary_plain_gradient;  trainstep.applied -> TrainStepL.lifted -> lifted_train_step_gradients
    advstep.fit -> SchedL.fitSrc over AdvStep.trainStepRec -> C17.src_fit_recorded_is_fold_of_steps (Properties/C17.lean)
  Trusted / not modelled: autograd (gradients are inputs), float32 rounding (model is exact), TensorFlow engine never executed.
-/
import FairModel.Lemmas.Adversarial
import FairModel.Lemmas.AdvStep
import FairModel.Lemmas.AdvR2
import FairModel.Lemmas.AdvNorm
import FairModel.Model.TrainStepLifted

namespace C16
open Adversarial AdvProjection

/-! ### the rule itself (flattened tensors, any length) -/

/-- `g + α·dLA/dW` is orthogonal to `dLA/dW` (ordinary inner product of the flattened tensor). -/
theorem orthogonal (a b : Vec) (α : Rat) (hlen : a.length = b.length) (hb : dot b b ≠ 0) :
    dot (vadd (combine a b α) (smul α b)) b = 0 :=
  dot_combine_add a b α hlen hb

/- non-vacuity: a = (3,1), b = (1,2), alpha = 1/2 meet BOTH hypotheses (b != 0, a not parallel to b, projection != 0) -/
example : dot (vadd (combine [3, 1] [1, 2] (1/2)) (smul (1/2) [1, 2])) [1, 2] = 0 :=
  orthogonal [3, 1] [1, 2] (1/2) (by decide) (by decide +kernel)
example : combine [3, 1] [1, 2] (1/2) = [3/2, -2] ∧ dot [1, 2] [3, 1] = 5 ∧ dot [1, 2] [1, 2] = 5 := by decide +kernel

/-- ... and it is `a` minus a multiple of `b`, i.e. the projection residual of `a`. -/
theorem update_is_projection_residual (a b : Vec) (α : Rat) (hlen : a.length = b.length) :
    vadd (combine a b α) (smul α b) = vsub a (smul (dot b a / dot b b) b) :=
  combine_add a b α hlen

example : vadd (combine [3, 1] [1, 2] (1/2)) (smul (1/2) [1, 2]) = vsub [3, 1] (smul (dot [1, 2] [3, 1] / dot [1, 2] [1, 2]) [1, 2]) :=
  update_is_projection_residual [3, 1] [1, 2] (1/2) (by decide)
example : vadd (combine [3, 1] [1, 2] (1/2)) (smul (1/2) [1, 2]) = [2, -1] := by decide +kernel

/-- the matrix Frobenius product is the dot product of the flattenings, for every shape
    (any number of rows, any row lengths, as long as the two tensors have the same shape) -/
theorem frobenius_is_flat_dot (A B : Mat) (h : sameShape A B = true) : frob A B = dot (flat A) (flat B) :=
  frob_eq_dot_flat h

/- non-vacuity: a 2x2 pair and a RAGGED pair of the same shape (rows of length 3 and 1) -/
example : frob [[1, 2], [3, 4]] [[0, 1], [1, 1]] = dot (flat [[1, 2], [3, 4]]) (flat [[0, 1], [1, 1]]) :=
  frobenius_is_flat_dot _ _ (by decide +kernel)
example : frob [[1, 2], [3, 4]] [[0, 1], [1, 1]] = 9 ∧ sameShape [[1, 2, 3], [4]] [[1, 1, 1], [2]] = true ∧
    frob [[1, 2, 3], [4]] [[1, 1, 1], [2]] = 14 := by decide +kernel

/-- the matrix-level update with the Frobenius product IS `combine` on the flattened tensors -/
theorem update_matrix_is_combine (A B : Mat) (α : Rat) (h : sameShape A B = true) :
    flat (gradWith .frobenius A B α) = combine (flat A) (flat B) α :=
  flat_gradWith_frobenius α h

example : flat (gradWith .frobenius [[1, 0], [0, 1]] [[1, 1], [0, 1]] 1) = combine [1, 0, 0, 1] [1, 1, 0, 1] 1 :=
  update_matrix_is_combine _ _ 1 (by decide +kernel)
example : gradWith .frobenius [[1, 0], [0, 1]] [[1, 1], [0, 1]] 1 = [[-2/3, -5/3], [0, -2/3]] := by decide +kernel

/-! ### which inputs take which branch of the loop body -/

theorem nonzero_branch (k : InnerKind) (t : TinyKind) (A B : Mat) (α : Rat) (hB : frob B B ≠ 0) :
    engineGrad k t A B α = some (gradWith k A B α) := by
  simp [engineGrad, hB]

example : engineGrad .frobenius .float64 [[1, 0], [0, 1]] [[1, 1], [0, 1]] 1 = some (gradWith .frobenius [[1, 0], [0, 1]] [[1, 1], [0, 1]] 1) :=
  nonzero_branch _ _ _ _ 1 (by decide +kernel)

/-- `dLA/dW = 0`: a `tiny` that survives float32 gives `g = dLP/dW` (the projection on the zero tensor is 0);
    the float64 `tiny` vanishes and the engine produces the NaN tensor. -/
theorem zero_branch (k : InnerKind) (A B : Mat) (α : Rat) (hB : ∀ r ∈ B, ∀ x ∈ r, x = 0) :
    engineGrad k .float32 A B α = some A ∧ engineGrad k .float64 A B α = none := by
  have h0 : frob B B = 0 := (frob_self_eq_zero B).mpr hB
  simp [engineGrad, h0]

/- non-vacuity: a 2x2 zero tensor against a non-zero dLP/dW -/
example : engineGrad .frobenius .float32 [[1, 2], [3, 4]] [[0, 0], [0, 0]] 1 = some [[1, 2], [3, 4]] ∧
    engineGrad .frobenius .float64 [[1, 2], [3, 4]] [[0, 0], [0, 0]] 1 = none :=
  zero_branch .frobenius [[1, 2], [3, 4]] [[0, 0], [0, 0]] 1 (by decide +kernel)

theorem frob_self_zero_iff (B : Mat) : frob B B = 0 ↔ ∀ r ∈ B, ∀ x ∈ r, x = 0 := frob_self_eq_zero B

/-- an engine that projects with the Frobenius product satisfies the property on every tensor shape -/
theorem engine_orthogonal (t : TinyKind) (A B G : Mat) (α : Rat) (h : sameShape A B = true)
    (hB : frob B B ≠ 0) (hG : engineGrad .frobenius t A B α = some G) :
    frob (madd G (msmul α B)) B = 0 := by
  rw [nonzero_branch _ _ _ _ _ hB] at hG
  cases hG
  have hGB := sameShape_gradWith .frobenius α h
  have hs : sameShape (madd (gradWith .frobenius A B α) (msmul α B)) B = true := by
    have h1 := sameShape_msmul_right α hGB
    -- madd keeps the shape
    have : ∀ (X Y Z : Mat), sameShape X Y = true → sameShape X Z = true → sameShape (madd X Y) Z = true := by
      intro X
      induction X with
      | nil => intro Y Z hy hz; cases Y <;> cases Z <;> simp_all [madd]
      | cons r X ih =>
        intro Y Z hy hz
        cases Y with
        | nil => simp at hy
        | cons s Y =>
          cases Z with
          | nil => simp at hz
          | cons t Z =>
            simp only [sameShape_cons, Bool.and_eq_true, beq_iff_eq] at hy hz
            have := ih Y Z hy.2 hz.2
            simp only [madd, List.zipWith_cons_cons, sameShape_cons, length_vadd, Bool.and_eq_true,
              beq_iff_eq] at this ⊢
            exact ⟨by omega, this⟩
    exact this _ _ _ h1 hGB
  rw [frob_eq_dot_flat hs, flat_madd (sameShape_msmul_right α hGB), flat_msmul, flat_gradWith_frobenius α h]
  apply dot_combine_add _ _ _ (sameShape_flat_length h)
  rwa [← frob_eq_dot_flat (sameShape_refl B)]

/- non-vacuity: all three hypotheses at once, 2x2 tensors, dLP/dW not orthogonal to dLA/dW (projection coefficient 2/3) -/
example : frob (madd [[-2/3, -5/3], [0, -2/3]] (msmul 1 [[1, 1], [0, 1]])) [[1, 1], [0, 1]] = 0 :=
  engine_orthogonal .float32 [[1, 0], [0, 1]] [[1, 1], [0, 1]] [[-2/3, -5/3], [0, -2/3]] 1 (by decide +kernel) (by decide +kernel)
    (by decide +kernel)

/-! ### tie to the source (generated definitions) -/

/-- _pytorch_engine.py projects with the Frobenius product (FALSE before fix 4e3c7cd: F4) -/
theorem torch_projection_is_frobenius : torchInner = InnerKind.frobenius := by decide

/-- _tensorflow_engine.py: `reduce_sum(multiply(·,·))` (lifted structurally; TensorFlow is not installed) -/
theorem tf_projection_is_frobenius : tfInner = InnerKind.frobenius := by decide

/-! ### the norm kind (lifted) -/

/-- _pytorch_engine.py normalises dLA/dW with the 2-norm of the flattened tensor (`torch.norm(g)`, default arguments).
    FALSE after `torch.norm(g, p=1)` / `g.abs().max()` (lifted as `l1Flat` / `maxAbs`); `torch.linalg.norm(g, 2)` (spectral),
    `dim=` variants and `p='nuc'` are refused by the lifter. -/
theorem lifted_norm_is_frobenius : torchNorm = NormKind.frobenius := by decide

/-- _tensorflow_engine.py: `tensorflow.norm(g)` (default `ord='euclidean'`, `axis=None`: the flattened 2-norm) -/
theorem tf_lifted_norm_is_frobenius : tfNorm = NormKind.frobenius := by decide

/-- NEEDS NO PARTICULAR NORM: whatever the norm kind, the update is `A − c·B − α·B` with `c = <B,A>_k / ‖B‖ₙ²` (the update
    stays in `A + span B`; only the coefficient depends on the norm) -/
theorem norm_kind_update_shape (k : InnerKind) (n : NormKind) (A B : Mat) (α : Rat) :
    gradWithN k n A B α = gradCoef (inner k B A / normSq n B) A B α := rfl

example : gradWithN .frobenius .l1Flat [[1, 0], [0, 1]] [[1, 1], [0, 1]] 1 = [[-2/9, -11/9], [0, -2/9]] ∧
    normSq .l1Flat [[1, 1], [0, 1]] = 9 ∧ normSq .frobenius [[1, 1], [0, 1]] = 3 ∧ normSq .maxAbs [[1, 1], [0, 1]] = 1 := by
  decide +kernel

/-- NEEDS NO PARTICULAR NORM: the exact component of `g + α·dLA/dW` along `dLA/dW`, for every norm kind -/
theorem norm_kind_orthogonality_defect (n : NormKind) (A B : Mat) (α : Rat) (h : sameShape A B = true) :
    frob (madd (gradWithN .frobenius n A B α) (msmul α B)) B = frob A B * (1 - frob B B / normSq n B) :=
  frob_gradWithN_add n α h

/- non-vacuity: A = I, B = [[1,1],[0,1]] (non-proportional rows), l1: <A,B> = 2, |B|_2^2 = 3, |B|_1^2 = 9: defect 2*(1-1/3) = 4/3 -/
example : frob (madd (gradWithN .frobenius .l1Flat [[1, 0], [0, 1]] [[1, 1], [0, 1]] 1) (msmul 1 [[1, 1], [0, 1]])) [[1, 1], [0, 1]] = 4/3 := by
  decide +kernel

/-- ORTHOGONALITY NEEDS THE 2-NORM: with `dLA/dW ≠ 0` and `<dLP/dW, dLA/dW> ≠ 0` the update is orthogonal to `dLA/dW`
    iff `‖B‖ₙ² = <B,B>`. -/
theorem orthogonal_iff_two_norm (n : NormKind) (A B : Mat) (α : Rat) (h : sameShape A B = true)
    (hB : frob B B ≠ 0) (hAB : frob A B ≠ 0) :
    frob (madd (gradWithN .frobenius n A B α) (msmul α B)) B = 0 ↔ normSq n B = frob B B :=
  orthogonal_iff_normSq_eq_frob n α h hB hAB

example : frob (madd (gradWithN .frobenius .frobenius [[1, 0], [0, 1]] [[1, 1], [0, 1]] 1) (msmul 1 [[1, 1], [0, 1]])) [[1, 1], [0, 1]] = 0 :=
  (orthogonal_iff_two_norm .frobenius [[1, 0], [0, 1]] [[1, 1], [0, 1]] 1 (by decide +kernel) (by decide +kernel) (by decide +kernel)).mpr rfl

/-- "THE COEFFICIENT IS THE PROJECTION COEFFICIENT" NEEDS THE 2-NORM, exactly as orthogonality does -/
theorem projection_coefficient_iff_two_norm (n : NormKind) (A B : Mat) (hB : frob B B ≠ 0) (hBA : frob B A ≠ 0) :
    frob B A / normSq n B = frob B A / frob B B ↔ normSq n B = frob B B :=
  coefficient_is_projection_iff n A B hB hBA

example : frob [[1, 1], [0, 1]] [[1, 0], [0, 1]] / normSq .l1Flat [[1, 1], [0, 1]] ≠
    frob [[1, 1], [0, 1]] [[1, 0], [0, 1]] / frob [[1, 1], [0, 1]] [[1, 1], [0, 1]] := by decide +kernel

/-- the three kinds vanish on exactly the same tensors (the zero tensor): the zero branch does not depend on the kind -/
theorem norm_kinds_vanish_together (n : NormKind) (B : Mat) : normSq n B = 0 ↔ ∀ r ∈ B, ∀ x ∈ r, x = 0 := by
  rw [normSq_eq_zero_iff, frob_self_eq_zero]

/-- the kinds are ordered, `‖B‖_max² ≤ ‖B‖₂² ≤ ‖B‖₁²` (every tensor): by `norm_kind_orthogonality_defect` the L1 norm leaves a
    component along dLA/dW of the SAME sign as `<dLP/dW, dLA/dW>` (under-projection), the max-abs norm one of the OPPOSITE
    sign (over-projection) -/
theorem norm_kinds_ordered (B : Mat) :
    normSq .maxAbs B ≤ normSq .frobenius B ∧ normSq .frobenius B ≤ normSq .l1Flat B := normSq_order B

/- strict on a tensor with two non-zero entries -/
example : normSq .maxAbs [[1, 1], [0, 1]] < normSq .frobenius [[1, 1], [0, 1]] ∧
    normSq .frobenius [[1, 1], [0, 1]] < normSq .l1Flat [[1, 1], [0, 1]] := by decide +kernel

/-- why a 1×1 tensor cannot see the norm kind -/
theorem norm_kinds_agree_on_one_entry (n : NormKind) (x : Rat) : normSq n [[x]] = x * x := normSq_single_entry n x

/-- regression witnesses: with the L1 norm / the max-abs norm of the flattened tensor the update is NOT orthogonal to dLA/dW
    (2×2, non-proportional rows; also visible on the single row [[1,1]]) -/
theorem l1_update_not_orthogonal :
    ∃ A B G : Mat, ∃ α : Rat, sameShape A B = true ∧ engineGradN .frobenius .l1Flat .float32 A B α = some G ∧
      frob (madd G (msmul α B)) B ≠ 0 :=
  ⟨[[1, 0], [0, 1]], [[1, 1], [0, 1]], [[-2/9, -11/9], [0, -2/9]], 1, by decide +kernel, by decide +kernel, by decide +kernel⟩

theorem maxAbs_update_not_orthogonal :
    ∃ A B G : Mat, ∃ α : Rat, sameShape A B = true ∧ engineGradN .frobenius .maxAbs .float32 A B α = some G ∧
      frob (madd G (msmul α B)) B ≠ 0 :=
  ⟨[[1, 0], [0, 1]], [[1, 1], [0, 1]], [[-2, -3], [0, -2]], 1, by decide +kernel, by decide +kernel, by decide +kernel⟩

/-- `engine_orthogonal` THROUGH the norm kind: an engine with the Frobenius projection line and norm kind `n` satisfies the
    property on every tensor shape as soon as `n` is the 2-norm of the flattening -/
theorem engine_orthogonal_norm (n : NormKind) (t : TinyKind) (A B G : Mat) (α : Rat) (hn : n = NormKind.frobenius)
    (h : sameShape A B = true) (hB : frob B B ≠ 0) (hG : engineGradN .frobenius n t A B α = some G) :
    frob (madd G (msmul α B)) B = 0 := by
  subst hn
  exact engine_orthogonal t A B G α h hB hG

/-- the literal three lines of the PyTorch loop body (norm as a parameter, tiny = 0) equal the normalised model -/
theorem torch_literal_form (A B : Mat) (α nrm : Rat) (h : sameShape A B = true)
    (hn : nrm * nrm = frob B B) (hn0 : nrm ≠ 0) :
    engineGradRaw torchUnit torchGrad torchInner A B α nrm 0 = gradWith torchInner A B α :=
  engineGradRaw_eq torchUnit torchGrad (by intro b n; simp [torchUnit]) (by intro a u b p α; simp [torchGrad])
    torchInner A B α nrm h hn hn0

/- non-vacuity: dLA/dW = [[3,0],[0,4]] has the RATIONAL norm 5: all three hypotheses hold, and the literal lines give a
   non-trivial tensor (projection coefficient 7/25) -/
example : engineGradRaw torchUnit torchGrad torchInner [[1, 2], [3, 1]] [[3, 0], [0, 4]] (1/2) 5 0 =
    gradWith torchInner [[1, 2], [3, 1]] [[3, 0], [0, 4]] (1/2) :=
  torch_literal_form _ _ (1/2) 5 (by decide +kernel) (by decide +kernel) (by decide +kernel)
example : engineGradRaw torchUnit torchGrad torchInner [[1, 2], [3, 1]] [[3, 0], [0, 4]] (1/2) 5 0 =
    [[-67/50, 2], [3, -53/25]] := by decide +kernel

theorem tf_literal_form (A B : Mat) (α nrm : Rat) (h : sameShape A B = true)
    (hn : nrm * nrm = frob B B) (hn0 : nrm ≠ 0) :
    engineGradRaw tfUnit tfGrad tfInner A B α nrm 0 = gradWith tfInner A B α :=
  engineGradRaw_eq tfUnit tfGrad (by intro b n; simp [tfUnit]) (by intro a u b p α; simp [tfGrad])
    tfInner A B α nrm h hn hn0

example : engineGradRaw tfUnit tfGrad tfInner [[1, 2], [3, 1]] [[3, 0], [0, 4]] (1/2) 5 0 =
    gradWith tfInner [[1, 2], [3, 1]] [[3, 0], [0, 4]] (1/2) :=
  tf_literal_form _ _ (1/2) 5 (by decide +kernel) (by decide +kernel) (by decide +kernel)

/-- the literal three lines with `nrm` = the norm of the LIFTED kind (`nrm² = ‖B‖ₙ²`, `n = torchNorm`) are exactly what
    `torchStep` (the function behind the driver ops `adv.step torch`, `advstep.step`, `advstep.fit`) returns on its
    non-zero branch -/
theorem torch_literal_form_lifted_norm (A B : Mat) (α nrm : Rat) (h : sameShape A B = true)
    (hn : nrm * nrm = normSq torchNorm B) (hn0 : nrm ≠ 0) (hB : frob B B ≠ 0) :
    torchStep A B α = some (engineGradRaw torchUnit torchGrad torchInner A B α nrm 0) := by
  unfold torchStep
  rw [engineGradN_nonzero _ _ _ _ _ _ hB,
    engineGradRaw_eq_N torchUnit torchGrad (by intro b n; simp [torchUnit]) (by intro a u b p α; simp [torchGrad])
      torchInner torchNorm A B α nrm h hn hn0]

theorem tf_literal_form_lifted_norm (A B : Mat) (α nrm : Rat) (h : sameShape A B = true)
    (hn : nrm * nrm = normSq tfNorm B) (hn0 : nrm ≠ 0) (hB : frob B B ≠ 0) :
    tfStep A B α = some (engineGradRaw tfUnit tfGrad tfInner A B α nrm 0) := by
  unfold tfStep
  rw [engineGradN_nonzero _ _ _ _ _ _ hB,
    engineGradRaw_eq_N tfUnit tfGrad (by intro b n; simp [tfUnit]) (by intro a u b p α; simp [tfGrad])
      tfInner tfNorm A B α nrm h hn hn0]

/- non-vacuity: |[[3,0],[0,4]]|_2 = 5 -/
example : torchStep [[1, 2], [3, 1]] [[3, 0], [0, 4]] (1/2) =
    some (engineGradRaw torchUnit torchGrad torchInner [[1, 2], [3, 1]] [[3, 0], [0, 4]] (1/2) 5 0) :=
  torch_literal_form_lifted_norm _ _ (1/2) 5 (by decide +kernel) (by decide +kernel) (by decide +kernel) (by decide +kernel)

/-- REVIEW R2. The three source lines WITH the regulariser as written (`unit = dW_LA / (norm + tiny)`), for every `tiny` and
    every value `nrm` of the norm: the projection coefficient is `<B,A> / (nrm + tiny)²`. -/
theorem torch_literal_form_tiny (A B : Mat) (α nrm tiny : Rat) (h : sameShape A B = true) :
    engineGradRaw torchUnit torchGrad torchInner A B α nrm tiny =
      gradCoef (frob B A / ((nrm + tiny) * (nrm + tiny))) A B α := by
  have := engineGradRaw_tiny torchUnit torchGrad (by intro b n t; simp [torchUnit]) (by intro a u b p α; simp [torchGrad])
    torchInner A B α nrm tiny h
  rwa [torch_projection_is_frobenius] at this

theorem tf_literal_form_tiny (A B : Mat) (α nrm tiny : Rat) (h : sameShape A B = true) :
    engineGradRaw tfUnit tfGrad tfInner A B α nrm tiny =
      gradCoef (frob B A / ((nrm + tiny) * (nrm + tiny))) A B α := by
  have := engineGradRaw_tiny tfUnit tfGrad (by intro b n t; simp [tfUnit]) (by intro a u b p α; simp [tfGrad])
    tfInner A B α nrm tiny h
  rwa [tf_projection_is_frobenius] at this

/-- ... hence the EXACT orthogonality residual of the literal lines (exact arithmetic, `nrm² = <B,B>`):
    `<g + α B, B> = <A,B> · (1 − <B,B> / (nrm + tiny)²)`.  It vanishes for `tiny = 0`; see the next theorem. -/
theorem literal_tiny_orthogonality_defect (A B : Mat) (α nrm tiny : Rat) (h : sameShape A B = true) :
    frob (madd (engineGradRaw torchUnit torchGrad torchInner A B α nrm tiny) (msmul α B)) B =
      frob A B * (1 - frob B B / ((nrm + tiny) * (nrm + tiny))) := by
  rw [torch_literal_form_tiny A B α nrm tiny h, frob_gradCoef_add _ α h, frob_comm B A]
  ring

/-- CLAUSE (4) IS NOT EXACTLY TRUE OF THE LITERAL TEXT: with the true norm (`nrm > 0`, `nrm² = <B,B>`) and ANY positive
    regulariser the three source lines leave a non-zero component along dLA/dW whenever `<dLP/dW, dLA/dW> ≠ 0`.
    (Relative size `≈ 2·tiny/nrm`: invisible in float32 unless `nrm` itself is near `tiny`.) -/
theorem literal_tiny_not_orthogonal (A B : Mat) (α nrm tiny : Rat) (h : sameShape A B = true)
    (hn : nrm * nrm = frob B B) (hn0 : 0 < nrm) (ht : 0 < tiny) (hAB : frob A B ≠ 0) :
    frob (madd (engineGradRaw torchUnit torchGrad torchInner A B α nrm tiny) (msmul α B)) B ≠ 0 := by
  rw [literal_tiny_orthogonality_defect A B α nrm tiny h, ← hn]
  have hpos : 0 < (nrm + tiny) * (nrm + tiny) := by positivity
  have hlt : nrm * nrm < (nrm + tiny) * (nrm + tiny) := by nlinarith
  have : nrm * nrm / ((nrm + tiny) * (nrm + tiny)) < 1 := by rw [div_lt_one hpos]; exact hlt
  exact mul_ne_zero hAB (by linarith)

/- witness, all hypotheses at once: |B| = 5, tiny = 5 (so (nrm+tiny)² = 100), <A,B> = 7: residual 7·(1 − 25/100) = 21/4 -/
example : frob (madd (engineGradRaw torchUnit torchGrad torchInner [[1, 2], [3, 1]] [[3, 0], [0, 4]] (1/2) 5 5)
    (msmul (1/2) [[3, 0], [0, 4]])) [[3, 0], [0, 4]] ≠ 0 :=
  literal_tiny_not_orthogonal _ _ (1/2) 5 5 (by decide +kernel) (by decide +kernel) (by decide +kernel) (by decide +kernel)
    (by decide +kernel)
example : frob (madd (engineGradRaw torchUnit torchGrad torchInner [[1, 2], [3, 1]] [[3, 0], [0, 4]] (1/2) 5 5)
    (msmul (1/2) [[3, 0], [0, 4]])) [[3, 0], [0, 4]] = 21/4 := by decide +kernel

/-- the PyTorch step as written: orthogonal update for every tensor shape with `dLA/dW ≠ 0` -/
theorem torch_step_orthogonal (A B G : Mat) (α : Rat) (h : sameShape A B = true) (hB : frob B B ≠ 0)
    (hG : torchStep A B α = some G) : frob (madd G (msmul α B)) B = 0 := by
  unfold torchStep at hG
  rw [torch_projection_is_frobenius] at hG
  exact engine_orthogonal_norm torchNorm _ A B G α lifted_norm_is_frobenius h hB hG

example : frob (madd [[-2/3, -5/3], [0, -2/3]] (msmul 1 [[1, 1], [0, 1]])) [[1, 1], [0, 1]] = 0 :=
  torch_step_orthogonal [[1, 0], [0, 1]] [[1, 1], [0, 1]] _ 1 (by decide +kernel) (by decide +kernel) (by decide +kernel)

theorem tf_step_orthogonal (A B G : Mat) (α : Rat) (h : sameShape A B = true) (hB : frob B B ≠ 0)
    (hG : tfStep A B α = some G) : frob (madd G (msmul α B)) B = 0 := by
  unfold tfStep at hG
  rw [tf_projection_is_frobenius] at hG
  exact engine_orthogonal_norm tfNorm _ A B G α tf_lifted_norm_is_frobenius h hB hG

example : frob (madd [[-2/3, -5/3], [0, -2/3]] (msmul 1 [[1, 1], [0, 1]])) [[1, 1], [0, 1]] = 0 :=
  tf_step_orthogonal [[1, 0], [0, 1]] [[1, 1], [0, 1]] _ 1 (by decide +kernel) (by decide +kernel) (by decide +kernel)

/-- and its flattening is exactly the documented `g` -/
theorem torch_step_is_combine (A B : Mat) (α : Rat) (h : sameShape A B = true) (hB : frob B B ≠ 0) :
    (torchStep A B α).map flat = some (combine (flat A) (flat B) α) := by
  unfold torchStep
  rw [torch_projection_is_frobenius, lifted_norm_is_frobenius, engineGradN_frobenius, nonzero_branch _ _ _ _ _ hB]
  simp [flat_gradWith_frobenius α h]

example : (torchStep [[1, 0], [0, 1]] [[1, 1], [0, 1]] 1).map flat = some (combine [1, 0, 0, 1] [1, 1, 0, 1] 1) :=
  torch_step_is_combine _ _ 1 (by decide +kernel) (by decide +kernel)
example : combine [1, 0, 0, 1] [1, 1, 0, 1] 1 = [-2/3, -5/3, 0, -2/3] := by decide +kernel

/-- the step is defined (no NaN tensor) exactly when the regulariser survives float32 arithmetic -/
theorem step_total_iff_tiny_survives (k : InnerKind) (t : TinyKind) :
    (∀ (A B : Mat) (α : Rat), (engineGrad k t A B α).isSome = true) ↔ t = TinyKind.float32 := by
  constructor
  · intro h
    cases t with
    | float32 => rfl
    | float64 =>
      have := h [[1]] [[0]] 0
      simp [engineGrad] at this
  · rintro rfl A B α
    unfold engineGrad
    split <;> simp

/-- the same for every norm kind (the zero branch does not depend on it) -/
theorem step_total_iff_tiny_survives_norm (k : InnerKind) (n : NormKind) (t : TinyKind) :
    (∀ (A B : Mat) (α : Rat), (engineGradN k n t A B α).isSome = true) ↔ t = TinyKind.float32 := by
  constructor
  · intro h
    cases t with
    | float32 => rfl
    | float64 =>
      have := h [[1]] [[0]] 0
      simp [engineGradN] at this
  · rintro rfl A B α
    unfold engineGradN
    split <;> simp

theorem tf_step_total (A B : Mat) (α : Rat) : (tfStep A B α).isSome = true :=
  (step_total_iff_tiny_survives_norm tfInner tfNorm tfTiny).mpr (by decide) A B α

/-- _pytorch_engine.py adds a regulariser that survives float32 arithmetic
    (FALSE while the source says `torch.finfo(float).tiny`, the float64 tiny: finding F11) -/
theorem torch_tiny_survives_float32 : torchTiny = TinyKind.float32 := by decide

/-- hence the PyTorch step never produces the NaN tensor ... -/
theorem torch_step_total (A B : Mat) (α : Rat) : (torchStep A B α).isSome = true :=
  (step_total_iff_tiny_survives_norm torchInner torchNorm torchTiny).mpr torch_tiny_survives_float32 A B α

/-- ... and for `dLA/dW = 0` the parameter follows `dLP/dW` alone (the projection on the zero tensor is 0) -/
theorem torch_zero_gradient_keeps_dLP (A B : Mat) (α : Rat) (hB : ∀ r ∈ B, ∀ x ∈ r, x = 0) :
    torchStep A B α = some A := by
  unfold torchStep
  rw [torch_tiny_survives_float32]
  exact (engineGradN_zero torchInner torchNorm A B α ((frob_self_eq_zero B).mpr hB)).1

example : torchStep [[1, 2], [3, 4]] [[0, 0], [0, 0]] (5/2) = some [[1, 2], [3, 4]] :=
  torch_zero_gradient_keeps_dLP _ _ (5/2) (by decide +kernel)

/-- TensorFlow engine, structural (lifted from the source, never executed here): the adversary optimiser applies the
    plain gradient of LA w.r.t. the adversary's own variables; the loop combines dLP/dW and dLA/dW of the predictor. -/
theorem tf_adversary_plain_gradient_structural :
    tf_adversary_applies = (⟨Loss.LA, Player.adversary⟩, Player.adversary) ∧
    tf_predictor_applies = (⟨Loss.LP, Player.predictor⟩, Player.predictor) ∧
    tf_dW_LA = ⟨Loss.LA, Player.predictor⟩ := by decide

/-! ### the WHOLE training step (`Model/AdvStep.lean`): all tensors of both players, optimisers as parameters -/

section WholeStep
open AdvStep

/-- example data of this section: predictor with a 2x2 weight and a bias, adversary with one 1x2 weight -/
def exModel : Model Unit Unit := ⟨⟨[[[1, 0], [0, 1]], [[1, 1]]], [(), ()]⟩, ⟨[[[2, 4]]], [()]⟩⟩
/-- dLP/dW, dLA/dW (the bias has dLA/db = 0: the zero branch), dLA/dU -/
def exGrads : Grads := ⟨[[[1, 0], [0, 1]], [[1, 0]]], [[[1, 1], [0, 1]], [[0, 0]]], [[[4, 8]]]⟩

/-- What each optimiser is handed, for ANY pair of optimisers: the predictor's optimiser gets, tensor by tensor, the
    engine's rule applied to (dLP/dW_i, dLA/dW_i); the adversary's optimiser gets dLA/dU_j unchanged. -/
theorem whole_step_feeds_optimisers {τP τA : Type} (eng : Mat → Mat → Rat → Option Mat) (α : Rat)
    (optP : Opt τP) (optA : Opt τA) (m m' : Model τP τA) (g : Grads) (h : step eng α optP optA m g = some m') :
    ∃ gs, combineAll eng α g.dWLP g.dWLA = some gs ∧
      g.dWLP.length = g.dWLA.length ∧
      List.Forall₂ (fun ab G => eng ab.1 ab.2 α = some G) (g.dWLP.zip g.dWLA) gs ∧
      (m'.pred.params, m'.pred.state) = applyOpt optP m.pred.params m.pred.state gs ∧
      (m'.adv.params, m'.adv.state) = applyOpt optA m.adv.params m.adv.state g.dULA := by
  unfold step at h
  cases hc : combineAll eng α g.dWLP g.dWLA with
  | none => simp [hc] at h
  | some gs =>
    simp only [hc, Option.some.injEq] at h
    subst h
    have := combineAll_spec eng α _ _ gs hc
    exact ⟨gs, rfl, this.1, this.2, rfl, rfl⟩

/- non-vacuity: the hypothesis `step … = some m'` is met by the example model (alpha = 1, lr 1/2 and 1/4) -/
example : ∃ gs, combineAll torchStep 1 exGrads.dWLP exGrads.dWLA = some gs ∧ exGrads.dWLP.length = exGrads.dWLA.length ∧
    List.Forall₂ (fun ab G => torchStep ab.1 ab.2 1 = some G) (exGrads.dWLP.zip exGrads.dWLA) gs := by
  obtain ⟨m', h⟩ := Option.isSome_iff_exists.mp
    (show (step torchStep 1 (sgd (1/2)) (sgd (1/4)) exModel exGrads).isSome = true by decide +kernel)
  obtain ⟨gs, h1, h2, h3, _⟩ := whole_step_feeds_optimisers torchStep 1 (sgd (1/2)) (sgd (1/4)) exModel m' exGrads h
  exact ⟨gs, h1, h2, h3⟩

/-- With plain SGD the predictor moves exactly along `−lr_P · g_i` (g_i = the engine's combined gradient of tensor i)
    and the adversary along `−lr_A · dLA/dU_j`. -/
theorem whole_step_sgd (eng : Mat → Mat → Rat → Option Mat) (α lrP lrA : Rat) (m m' : Model Unit Unit) (g : Grads)
    (hP : m.pred.state.length = m.pred.params.length) (hA : m.adv.state.length = m.adv.params.length)
    (h : step eng α (sgd lrP) (sgd lrA) m g = some m') :
    ∃ gs, List.Forall₂ (fun ab G => eng ab.1 ab.2 α = some G) (g.dWLP.zip g.dWLA) gs ∧
      m'.pred.params = List.zipWith (fun W G => msub W (msmul lrP G)) m.pred.params gs ∧
      m'.adv.params = List.zipWith (fun U d => msub U (msmul lrA d)) m.adv.params g.dULA := by
  obtain ⟨gs, _, _, hf, h1, h2⟩ := whole_step_feeds_optimisers eng α (sgd lrP) (sgd lrA) m m' g h
  refine ⟨gs, hf, ?_, ?_⟩
  · rw [← applyOpt_sgd lrP _ _ gs hP, ← h1]
  · rw [← applyOpt_sgd lrA _ _ g.dULA hA, ← h2]

/- non-vacuity: all three hypotheses at once; the resulting parameters are non-trivial (see the last example of the file) -/
example : ∃ m' gs, step torchStep 1 (sgd (1/2)) (sgd (1/4)) exModel exGrads = some m' ∧
    m'.pred.params = List.zipWith (fun W G => msub W (msmul (1/2) G)) exModel.pred.params gs ∧
    m'.adv.params = List.zipWith (fun U d => msub U (msmul (1/4) d)) exModel.adv.params exGrads.dULA := by
  obtain ⟨m', h⟩ := Option.isSome_iff_exists.mp
    (show (step torchStep 1 (sgd (1/2)) (sgd (1/4)) exModel exGrads).isSome = true by decide +kernel)
  obtain ⟨gs, _, h2, h3⟩ := whole_step_sgd torchStep 1 (1/2) (1/4) exModel m' exGrads (by decide) (by decide) h
  exact ⟨m', gs, h, h2, h3⟩

/-- REVIEW R2. The same, tensor by tensor, in terms of the two single-tensor functions the driver ops `adv.step` and
    `adv.sgd` evaluate (`predictorStep`, `adversaryStep`): every predictor tensor is `predictorStep eng W_i A_i B_i α lr_P`,
    every adversary tensor is `adversaryStep U_j dU_j lr_A`. -/
theorem whole_step_sgd_pointwise (eng : Mat → Mat → Rat → Option Mat) (α lrP lrA : Rat) (m m' : Model Unit Unit) (g : Grads)
    (hP : m.pred.state.length = m.pred.params.length) (hA : m.adv.state.length = m.adv.params.length)
    (h : step eng α (sgd lrP) (sgd lrA) m g = some m') :
    List.Forall₂ (fun (wab : Mat × Mat × Mat) W' => predictorStep eng wab.1 wab.2.1 wab.2.2 α lrP = some W')
      (m.pred.params.zip (g.dWLP.zip g.dWLA)) m'.pred.params ∧
    m'.adv.params = List.zipWith (fun U d => adversaryStep U d lrA) m.adv.params g.dULA := by
  obtain ⟨gs, hf, h1, h2⟩ := whole_step_sgd eng α lrP lrA m m' g hP hA h
  refine ⟨?_, by simpa [adversaryStep] using h2⟩
  rw [h1]
  clear h1 h2 h hP hA
  generalize m.pred.params = Ws
  generalize g.dWLP.zip g.dWLA = abs at hf
  induction hf generalizing Ws with
  | nil => cases Ws <;> simp
  | cons hab _ ih =>
    cases Ws with
    | nil => simp
    | cons W Ws =>
      simp only [List.zip_cons_cons, List.zipWith_cons_cons]
      exact List.Forall₂.cons (by simp [predictorStep, hab]) (ih Ws)

/-- REVIEW R2 (totalisation). The `zip`s of the model drop nothing: when autograd delivers one gradient per tensor, the
    step keeps the number of tensors (and of optimiser states) of both players. -/
theorem whole_step_keeps_all_tensors {τP τA : Type} (eng : Mat → Mat → Rat → Option Mat) (α : Rat) (optP : Opt τP)
    (optA : Opt τA) (m m' : Model τP τA) (g : Grads) (hP : m.pred.state.length = m.pred.params.length)
    (hA : m.adv.state.length = m.adv.params.length) (hgP : g.dWLP.length = m.pred.params.length)
    (hgU : g.dULA.length = m.adv.params.length) (h : step eng α optP optA m g = some m') :
    m'.pred.params.length = m.pred.params.length ∧ m'.pred.state.length = m.pred.params.length ∧
    m'.adv.params.length = m.adv.params.length ∧ m'.adv.state.length = m.adv.params.length :=
  step_lengths eng α optP optA m m' g hP hA hgP hgU h

example : ∃ m', step torchStep 1 (sgd (1/2)) (sgd (1/4)) exModel exGrads = some m' ∧ m'.pred.params.length = 2 ∧
    m'.adv.params.length = 1 := by
  obtain ⟨m', h⟩ := Option.isSome_iff_exists.mp
    (show (step torchStep 1 (sgd (1/2)) (sgd (1/4)) exModel exGrads).isSome = true by decide +kernel)
  have := whole_step_keeps_all_tensors torchStep 1 (sgd (1/2)) (sgd (1/4)) exModel m' exGrads (by decide) (by decide)
    (by decide) (by decide) h
  exact ⟨m', h, this.1, this.2.2.1⟩

/-- ERROR BRANCH: gradient lists of different lengths (cannot happen with autograd: one `.grad` per parameter) give the
    undefined model, not a silently shorter parameter list -/
theorem whole_step_length_mismatch_undefined {τP τA : Type} (eng : Mat → Mat → Rat → Option Mat) (α : Rat)
    (optP : Opt τP) (optA : Opt τA) (m : Model τP τA) (g : Grads) (h : g.dWLP.length ≠ g.dWLA.length) :
    step eng α optP optA m g = none := by
  unfold step
  cases hc : combineAll eng α g.dWLP g.dWLA with
  | none => rfl
  | some gs => exact absurd (combineAll_spec eng α _ _ gs hc).1 h

/-- the PyTorch step (loop body as lifted from the source) is defined for every list of gradient tensors: no NaN model -/
theorem torch_whole_step_defined {τP τA : Type} (α : Rat) (optP : Opt τP) (optA : Opt τA) (m : Model τP τA) (g : Grads)
    (hlen : g.dWLP.length = g.dWLA.length) : (step torchStep α optP optA m g).isSome = true := by
  obtain ⟨gs, hgs, _⟩ := combineAll_total torchStep α (fun A B => torch_step_total A B α) _ _ hlen
  simp [step, hgs]

example : (step torchStep 1 (sgd (1/2)) (sgd (1/4)) exModel exGrads).isSome = true :=
  torch_whole_step_defined 1 (sgd (1/2)) (sgd (1/4)) exModel exGrads (by decide)

/-- direction of one predictor tensor under the PyTorch engine: the documented
    `g = dLP/dW − proj_{dLA/dW}(dLP/dW) − α·dLA/dW` (Frobenius projection), with `g + α·dLA/dW ⟂ dLA/dW`;
    for `dLA/dW = 0` it is `dLP/dW` itself -/
theorem torch_whole_step_direction (A B G : Mat) (α : Rat) (hs : sameShape A B = true) (h : torchStep A B α = some G) :
    (frob B B ≠ 0 → flat G = combine (flat A) (flat B) α ∧
      dot (vadd (flat G) (smul α (flat B))) (flat B) = 0) ∧
    ((∀ r ∈ B, ∀ x ∈ r, x = 0) → G = A) := by
  constructor
  · intro hB
    have e := torch_step_is_combine A B α hs hB
    rw [h] at e
    simp only [Option.map_some, Option.some.injEq] at e
    refine ⟨e, ?_⟩
    rw [e]
    have hb : dot (flat B) (flat B) ≠ 0 := by rwa [← frob_eq_dot_flat (sameShape_refl B)]
    exact orthogonal (flat A) (flat B) α (sameShape_flat_length hs) hb
  · intro hz
    have := torch_zero_gradient_keeps_dLP A B α hz
    rw [h] at this
    exact Option.some.inj this

/- non-vacuity, non-zero branch (2x2, projection coefficient 2/3) and zero branch (bias with dLA/db = 0) -/
example : flat [[-2/3, -5/3], [0, -2/3]] = combine (flat [[1, 0], [0, 1]]) (flat [[1, 1], [0, 1]]) 1 :=
  ((torch_whole_step_direction [[1, 0], [0, 1]] [[1, 1], [0, 1]] [[-2/3, -5/3], [0, -2/3]] 1 (by decide +kernel)
    (by decide +kernel)).1 (by decide +kernel)).1
example : ([[1, 0]] : Mat) = [[1, 0]] :=
  (torch_whole_step_direction [[1, 0]] [[0, 0]] [[1, 0]] 1 (by decide +kernel) (by decide +kernel)).2 (by decide +kernel)

end WholeStep

/-! ### the statement structure of `train_step`, LIFTED (`Generated/AdvTrainStepSrc.lean`, harness/lifters/adv_trainstep.py) -/

section TrainStepStructure
open TrainStepL AdvTrainStepSrc

/-- Whatever the `.grad` buffers held before the step (coefficient `stale`), after the statements of `train_step` in
    their source order: the first copy is exactly dLP/dW, the second exactly dLA/dW (the buffers are cleared between the
    two backward passes, nothing accumulates), the predictor's optimiser applies the combine rule to (dLP/dW, dLA/dW) and
    the adversary's optimiser applies exactly dLA/dU — the plain gradient of its own loss. -/
theorem lifted_train_step_gradients :
    lifted.ok = true ∧ lifted.snapLP = some ⟨1, 0, 0⟩ ∧ lifted.snapLA = some ⟨0, 1, 0⟩ ∧
    lifted.appliedP = some (.comb ⟨1, 0, 0⟩ ⟨0, 1, 0⟩) ∧ lifted.appliedA = some ⟨0, 1, 0⟩ := by decide

/-- The arguments of the bookkeeping calls are pinned by the lifter (`zero_grad` / `train` / `step`: nothing that changes a
    gradient; `backward`: only `retain_graph=<literal>`, lifted as `retainsGraph`; `inputs=` / `gradient=` are REFUSED).
    What remains to be checked about `retain_graph`: LP's backward pass keeps the predictor's forward graph, which LA's
    backward pass walks again (LA reaches the predictor through the undetached `Y_hat`) -- no pass meets a freed graph. -/
theorem lifted_backward_graph_alive : liftedGraphOk = true ∧ retainsGraph .LP = true := by decide

/-- regression witness: without `retain_graph=True` on the first backward pass the second one raises -/
theorem dropped_retain_graph_raises : graphOk dependsOn (fun _ => false) events [] = false := by decide

/-- ... and the flag is only needed because LA depends on the predictor: with a detached adversary input
    (`dependsOn .LA = [.adversary]`) nothing is walked twice -/
theorem retain_graph_needed_only_through_yhat :
    graphOk (fun l => match l with | .LP => [.predictor] | .LA => [.adversary]) (fun _ => false) events [] = true := by decide

/-- the data flow of `train_step`: LP reaches only the predictor's parameters, LA reaches both players' -/
theorem lifted_loss_dependencies : dependsOn .LP = [.predictor] ∧ dependsOn .LA = [.predictor, .adversary] := by decide

/-- why the clearing between the backward passes matters: without the two `zero_grad` calls in the middle the second
    copy would be dLP/dW + dLA/dW (regression witness for a dropped `zero_grad`) -/
theorem accumulation_without_clearing :
    (run dependsOn [.zeroGrad .predictor, .zeroGrad .adversary, .backward .LP, .snapshot .dW_LP, .backward .LA,
      .snapshot .dW_LA, .combine, .step .predictor, .step .adversary] init).appliedP
      = some (.comb ⟨1, 0, 0⟩ ⟨1, 1, 0⟩) := by decide

/-- … and without the clearing at the start the adversary would apply stale gradients of the previous step as well -/
theorem stale_without_initial_clearing :
    (run dependsOn [.zeroGrad .predictor, .backward .LP, .snapshot .dW_LP, .zeroGrad .predictor, .backward .LA,
      .snapshot .dW_LA, .combine, .step .predictor, .step .adversary] init).appliedA = some ⟨0, 1, 1⟩ := by decide

/-- demographic parity vs equalized odds, as lifted: `pass_y_` is set exactly for "equalized_odds" (any other keyword is
    rejected); the adversary is fed the predictor's (undetached) output, followed by the encoded target `y` exactly when
    `pass_y_`; and the adversary model is built with the matching input width. -/
theorem lifted_adversary_sees_y_iff_equalized_odds :
    passY "demographic_parity" = some false ∧ passY "equalized_odds" = some true ∧
    adversaryInput false = [.yhat] ∧ adversaryInput true = [.yhat, .y] ∧
    (∀ ny p, adversaryInputWidth ny p = ny * (adversaryInput p).length) := by
  refine ⟨by decide, by decide, by decide, by decide, ?_⟩
  intro ny p
  cases p <;> simp [adversaryInputWidth, adversaryInput]

/-- REVIEW R2 — the bridge between the two halves of the tie. `AdvR2.stepFromBookkeeping ts` is the whole training step
    DICTATED by a bookkeeping result `ts` (which buffers each optimiser applies, read as lists of autograd gradients);
    at the bookkeeping LIFTED from the statement list of `train_step` it is exactly `AdvStep.step` — the function the
    driver ops `advstep.step` / `advstep.fit` evaluate and `whole_step_*` talk about — for every engine rule, optimisers,
    model and gradients.  A source edit that changes what an optimiser is handed changes `lifted` and breaks this proof. -/
theorem step_eq_stepFromBookkeeping_lifted {τP τA : Type} (eng : Adversarial.Mat → Adversarial.Mat → Rat → Option Adversarial.Mat)
    (α : Rat) (optP : AdvStep.Opt τP) (optA : AdvStep.Opt τA) (m : AdvStep.Model τP τA) (g : AdvStep.Grads) :
    AdvR2.stepFromBookkeeping lifted eng α optP optA m g = AdvStep.step eng α optP optA m g := by
  obtain ⟨h1, _, _, h4, h5⟩ := lifted_train_step_gradients
  exact AdvR2.stepFromBookkeeping_documented lifted h1 h4 h5 eng α optP optA m g

/-- … whereas the statement list WITHOUT the clearing between the two backward passes dictates no documented step at all -/
theorem dropped_clearing_dictates_no_step {τP τA : Type} (eng : Adversarial.Mat → Adversarial.Mat → Rat → Option Adversarial.Mat)
    (α : Rat) (optP : AdvStep.Opt τP) (optA : AdvStep.Opt τA) (m : AdvStep.Model τP τA) (g : AdvStep.Grads) :
    AdvR2.stepFromBookkeeping (run dependsOn [.zeroGrad .predictor, .zeroGrad .adversary, .backward .LP, .snapshot .dW_LP,
      .backward .LA, .snapshot .dW_LA, .combine, .step .predictor, .step .adversary] init) eng α optP optA m g = none :=
  AdvR2.stepFromBookkeeping_accumulated _ accumulation_without_clearing eng α optP optA m g

end TrainStepStructure

/-! ### why single-row tests cannot see F4 -/

/-- for single-row tensors (bias vectors, 1×c weights) `torch.sum(torch.inner(U, A))` IS the Frobenius product -/
theorem sumInner_eq_frobenius_single_row (U A : Mat) (hU : U.length = 1) (hA : A.length = 1) :
    sumInner U A = frob U A := by
  match U, A, hU, hA with
  | [u], [a], _, _ => simp [sumInner_single]

example : sumInner [[1, 2, 3]] [[4, 5, 6]] = frob [[1, 2, 3]] [[4, 5, 6]] :=
  sumInner_eq_frobenius_single_row _ _ (by decide) (by decide)
example : frob [[1, 2, 3]] [[4, 5, 6]] = 32 := by decide +kernel

/-- ... but not for several rows: a 2×2 witness -/
theorem sumInner_ne_frobenius_two_rows :
    sumInner [[1, 0], [0, 1]] [[0, 1], [1, 0]] ≠ frob [[1, 0], [0, 1]] [[0, 1], [1, 0]] := by decide +kernel

/-- regression witness of F4: with the sum-of-all-row-pairs product the update is NOT orthogonal to dLA/dW -/
theorem sumInner_update_not_orthogonal :
    ∃ A B G : Mat, ∃ α : Rat, sameShape A B = true ∧ engineGrad .sumInner .float32 A B α = some G ∧
      frob (madd G (msmul α B)) B ≠ 0 :=
  ⟨[[1, 0], [0, 1]], [[1, 1], [0, 1]], [[-1, -2], [0, -1]], 1, by decide +kernel, by decide +kernel, by decide +kernel⟩

/-! ### optimiser steps: what the harness observes recovers the applied gradient -/

/-- plain SGD: `(W_before - W_after)/lr` is the gradient that was applied -/
theorem observed_recovers_gradient (W g : Vec) (lr : Rat) (h : W.length = g.length) (hlr : lr ≠ 0) :
    observed W (sgdStep W g lr) lr = g :=
  observed_sgdStep W g lr h hlr

example : observed [1, 2] (sgdStep [1, 2] [4, 8] (1/4)) (1/4) = [4, 8] :=
  observed_recovers_gradient [1, 2] [4, 8] (1/4) (by decide) (by decide +kernel)

/-- the adversary's parameters follow the plain gradient of its own loss LA -/
theorem adversary_plain_gradient (U dU : Mat) (lr : Rat) (h : sameShape U dU = true) (hlr : lr ≠ 0) :
    flat (adversaryStep U dU lr) = sgdStep (flat U) (flat dU) lr ∧
    observed (flat U) (flat (adversaryStep U dU lr)) lr = flat dU := by
  have e : flat (adversaryStep U dU lr) = sgdStep (flat U) (flat dU) lr := by
    unfold adversaryStep sgdStep
    rw [flat_msub (sameShape_msmul_right lr h), flat_msmul]
  exact ⟨e, by rw [e]; exact observed_sgdStep _ _ lr (sameShape_flat_length h) hlr⟩

/- non-vacuity: a 2x2 adversary tensor, lr = 1/4 -/
example : flat (adversaryStep [[2, 4], [1, 0]] [[4, 8], [0, 4]] (1/4)) = sgdStep [2, 4, 1, 0] [4, 8, 0, 4] (1/4) ∧
    observed [2, 4, 1, 0] (flat (adversaryStep [[2, 4], [1, 0]] [[4, 8], [0, 4]] (1/4))) (1/4) = [4, 8, 0, 4] :=
  adversary_plain_gradient [[2, 4], [1, 0]] [[4, 8], [0, 4]] (1/4) (by decide +kernel) (by decide +kernel)
example : adversaryStep [[2, 4], [1, 0]] [[4, 8], [0, 4]] (1/4) = [[1, 2], [1, -1]] := by decide +kernel

/-- the predictor's parameters move along the combined gradient -/
theorem predictor_follows_combined (eng : Mat → Mat → Rat → Option Mat) (W A B G : Mat) (α lr : Rat)
    (hG : eng A B α = some G) (h : sameShape W G = true) (hlr : lr ≠ 0) :
    ∃ W', predictorStep eng W A B α lr = some W' ∧ observed (flat W) (flat W') lr = flat G := by
  refine ⟨msub W (msmul lr G), by simp [predictorStep, hG], ?_⟩
  rw [flat_msub (sameShape_msmul_right lr h), flat_msmul]
  exact observed_sgdStep _ _ lr (sameShape_flat_length h) hlr

/- non-vacuity: the PyTorch engine on the 2x2 pair, lr = 1/2: all three hypotheses at once -/
example : ∃ W', predictorStep torchStep [[1, 0], [0, 1]] [[1, 0], [0, 1]] [[1, 1], [0, 1]] 1 (1/2) = some W' ∧
    observed (flat [[1, 0], [0, 1]]) (flat W') (1/2) = flat [[-2/3, -5/3], [0, -2/3]] :=
  predictor_follows_combined torchStep [[1, 0], [0, 1]] [[1, 0], [0, 1]] [[1, 1], [0, 1]] [[-2/3, -5/3], [0, -2/3]] 1 (1/2)
    (by decide +kernel) (by decide +kernel) (by decide +kernel)

/-! ### non-vacuity -/
example : dot [1, 2] [1, 2] ≠ 0 := by decide +kernel
example : combine [3, 1] [1, 2] (1/2) = [3/2, -2] := by decide +kernel
example : dot (vadd (combine [3, 1] [1, 2] (1/2)) (smul (1/2) [1, 2])) [1, 2] = 0 := by decide +kernel
example : sameShape [[1, 0], [0, 1]] [[1, 1], [0, 1]] = true ∧ frob [[1, 1], [0, 1]] [[1, 1], [0, 1]] ≠ 0 := by
  decide +kernel
example : torchStep [[1, 0], [0, 1]] [[1, 1], [0, 1]] 1 = some [[-2/3, -5/3], [0, -2/3]] := by decide +kernel
example : engineGrad .sumInner .float32 [[1, 0], [0, 1]] [[1, 1], [0, 1]] 1 = some [[-1, -2], [0, -1]] := by
  decide +kernel
example : engineGrad .frobenius .float64 [[1]] [[0]] 1 = none := by decide +kernel
example : (2 : Rat) * 2 = frob [[2, 0], [0, 0]] [[2, 0], [0, 0]] := by decide +kernel
example : observed [1, 2] (sgdStep [1, 2] [4, 8] (1/4)) (1/4) = [4, 8] := by decide +kernel
-- the optimiser is a parameter: two steps of SGD with momentum 1/2 on one 1x1 tensor (gradient 1 both times, lr 1):
-- buf = 1, then 1/2 + 1 = 3/2; W = 0 - 1 - 3/2
example : ((AdvStep.step torchStep 0 (AdvStep.sgdMomentum 1 (1/2)) (AdvStep.sgd 1)
      ⟨⟨[[[0]]], [none]⟩, ⟨[], []⟩⟩ ⟨[[[1]]], [[[0]]], []⟩).bind
    (fun m => AdvStep.step torchStep 0 (AdvStep.sgdMomentum 1 (1/2)) (AdvStep.sgd 1) m ⟨[[[1]]], [[[0]]], []⟩)).map
    (fun m => m.pred.params) = some [[[-5/2]]] := by decide +kernel
-- one whole step: predictor with a 2x2 weight and a bias, adversary with one 1x2 weight; alpha = 1, lr 1/2 and 1/4
example : (AdvStep.step torchStep 1 (AdvStep.sgd (1/2)) (AdvStep.sgd (1/4))
    ⟨⟨[[[1, 0], [0, 1]], [[1, 1]]], [(), ()]⟩, ⟨[[[2, 4]]], [()]⟩⟩
    ⟨[[[1, 0], [0, 1]], [[1, 0]]], [[[1, 1], [0, 1]], [[0, 0]]], [[[4, 8]]]⟩).map (fun m => (m.pred.params, m.adv.params)) =
    some ([[[4/3, 5/6], [0, 4/3]], [[1/2, 1]]], [[[1, 2]]]) := by decide +kernel

/-! ### α re-scheduled between steps (session 3; seeded C16c cached `alpha` at engine construction) -/

section AlphaSchedule
open AdvStep Adversarial

theorem runSched_none {τP τA : Type} (eng : Mat → Mat → Rat → Option Mat) (optP : Opt τP) (optA : Opt τA)
    (s : List (Rat × Grads)) : runSched eng optP optA (none : Option (Model τP τA)) s = none := by
  cases s <;> rfl

/-- schedules compose: running `s₁ ++ s₂` is running `s₂` from the result of `s₁` -/
theorem runSched_append {τP τA : Type} (eng : Mat → Mat → Rat → Option Mat) (optP : Opt τP) (optA : Opt τA)
    (m : Option (Model τP τA)) (s₁ s₂ : List (Rat × Grads)) :
    runSched eng optP optA m (s₁ ++ s₂) = runSched eng optP optA (runSched eng optP optA m s₁) s₂ := by
  induction s₁ generalizing m with
  | nil => cases m <;> cases s₂ <;> rfl
  | cons x xs ih =>
    cases m with
    | none => simp [runSched, runSched_none]
    | some m => obtain ⟨α, g⟩ := x; simp only [List.cons_append, runSched]; exact ih _

/-- **Every step of a run uses the α in force at THAT step**: if the run succeeds, the `k`-th step is `step eng αₖ`
    applied to the model the first `k` steps produced — whatever α the earlier steps (or the constructor) had. -/
theorem runSched_step_uses_own_alpha {τP τA : Type} (eng : Mat → Mat → Rat → Option Mat) (optP : Opt τP) (optA : Opt τA)
    (m : Model τP τA) (pre : List (Rat × Grads)) (α : Rat) (g : Grads) (post : List (Rat × Grads))
    (mk : Model τP τA) (hk : runSched eng optP optA (some m) pre = some mk) :
    runSched eng optP optA (some m) (pre ++ (α, g) :: post)
      = runSched eng optP optA (step eng α optP optA mk g) post := by
  rw [runSched_append, hk]; rfl

/-- a constant schedule is the fold of the constant-α step (the whole-`fit` model of `advstep.fit`) -/
theorem runSched_const {τP τA : Type} (eng : Mat → Mat → Rat → Option Mat) (optP : Opt τP) (optA : Opt τA) (α : Rat)
    (m : Option (Model τP τA)) (gs : List Grads) :
    runSched eng optP optA m (gs.map (fun g => (α, g)))
      = gs.foldl (fun acc g => acc.bind (fun mm => step eng α optP optA mm g)) m := by
  induction gs generalizing m with
  | nil => cases m <;> rfl
  | cons g gs ih =>
    cases m with
    | none =>
      simp only [List.map_cons, runSched, List.foldl_cons, Option.bind_none]
      rw [← ih]; exact (runSched_none eng optP optA _).symm
    | some mm => simp only [List.map_cons, runSched, List.foldl_cons, Option.bind_some]; exact ih _

/-- non-vacuity: a two-step run whose second step has another α than the first (1×1 tensors, plain SGD) succeeds, and
    ends elsewhere than the run that keeps the first α — the schedule is observable -/
example : (runSched torchStep (sgd (1/2)) (sgd (1/4)) (some ⟨⟨[[[1]]], [()]⟩, ⟨[[[1]]], [()]⟩⟩)
      [(0, ⟨[[[1]]], [[[2]]], [[[1]]]⟩), (1, ⟨[[[1]]], [[[2]]], [[[1]]]⟩)]).map (fun m => (m.pred.params, m.adv.params))
      = some ([[[2]]], [[[1/2]]]) ∧
    (runSched torchStep (sgd (1/2)) (sgd (1/4)) (some ⟨⟨[[[1]]], [()]⟩, ⟨[[[1]]], [()]⟩⟩)
      [(0, ⟨[[[1]]], [[[2]]], [[[1]]]⟩), (0, ⟨[[[1]]], [[[2]]], [[[1]]]⟩)]).map (fun m => (m.pred.params, m.adv.params))
      = some ([[[1]]], [[[1/2]]]) := by decide +kernel

end AlphaSchedule

end C16
