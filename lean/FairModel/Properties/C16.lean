/-
C16 — adversarial training applies the documented projected-gradient update.
Property theorems only; helper lemmas live in `Lemmas/Adversarial.lean`.

  a = dLP/dW, b = dLA/dW (inputs: autograd is trusted), g = combine a b α = a - proj_b(a) - α b.
  `torchInner`, `torchTiny`, `torchUnit`, `torchGrad` (and the `tf…` twins) are GENERATED from the
  Python source by harness/lifters/adv_projection.py; the theorems that mention them are re-checked
  against what the source says now.
-/
import FairModel.Lemmas.Adversarial
import FairModel.Lemmas.AdvStep
import FairModel.Model.TrainStepLifted

namespace C16
open Adversarial AdvProjection

/-! ### the rule itself (flattened tensors, any length) -/

/-- `g + α·dLA/dW` is orthogonal to `dLA/dW` (ordinary inner product of the flattened tensor). -/
theorem orthogonal (a b : Vec) (α : Rat) (hlen : a.length = b.length) (hb : dot b b ≠ 0) :
    dot (vadd (combine a b α) (smul α b)) b = 0 :=
  dot_combine_add a b α hlen hb

/-- ... and it is `a` minus a multiple of `b`, i.e. the projection residual of `a`. -/
theorem update_is_projection_residual (a b : Vec) (α : Rat) (hlen : a.length = b.length) :
    vadd (combine a b α) (smul α b) = vsub a (smul (dot b a / dot b b) b) :=
  combine_add a b α hlen

/-- the matrix Frobenius product is the dot product of the flattenings, for every shape
    (any number of rows, any row lengths, as long as the two tensors have the same shape) -/
theorem frobenius_is_flat_dot (A B : Mat) (h : sameShape A B = true) : frob A B = dot (flat A) (flat B) :=
  frob_eq_dot_flat h

/-- the matrix-level update with the Frobenius product IS `combine` on the flattened tensors -/
theorem update_matrix_is_combine (A B : Mat) (α : Rat) (h : sameShape A B = true) :
    flat (gradWith .frobenius A B α) = combine (flat A) (flat B) α :=
  flat_gradWith_frobenius α h

/-! ### which inputs take which branch of the loop body -/

theorem nonzero_branch (k : InnerKind) (t : TinyKind) (A B : Mat) (α : Rat) (hB : frob B B ≠ 0) :
    engineGrad k t A B α = some (gradWith k A B α) := by
  simp [engineGrad, hB]

/-- `dLA/dW = 0`: a `tiny` that survives float32 gives `g = dLP/dW` (the projection on the zero tensor is 0);
    the float64 `tiny` vanishes and the engine produces the NaN tensor. -/
theorem zero_branch (k : InnerKind) (A B : Mat) (α : Rat) (hB : ∀ r ∈ B, ∀ x ∈ r, x = 0) :
    engineGrad k .float32 A B α = some A ∧ engineGrad k .float64 A B α = none := by
  have h0 : frob B B = 0 := (frob_self_eq_zero B).mpr hB
  simp [engineGrad, h0]

theorem frob_self_zero_iff (B : Mat) : frob B B = 0 ↔ ∀ r ∈ B, ∀ x ∈ r, x = 0 := frob_self_eq_zero B

/-- an engine that projects with the Frobenius product satisfies the property on every tensor shape -/
theorem engine_orthogonal (t : TinyKind) (A B G : Mat) (α : Rat) (h : sameShape A B = true)
    (hB : frob B B ≠ 0) (hG : engineGrad .frobenius t A B α = some G) :
    frob (madd G (msmul α B)) B = 0 := by
  rw [nonzero_branch _ _ _ _ _ hB] at hG
  cases hG
  have hGB := sameShape_gradWith .frobenius α h
  have hs : sameShape (madd (gradWith .frobenius A B α) (msmul α B)) B = true := by
    have h1 := sameShape_msmul_right α hGB
    -- madd keeps the shape
    have : ∀ (X Y Z : Mat), sameShape X Y = true → sameShape X Z = true → sameShape (madd X Y) Z = true := by
      intro X
      induction X with
      | nil => intro Y Z hy hz; cases Y <;> cases Z <;> simp_all [madd]
      | cons r X ih =>
        intro Y Z hy hz
        cases Y with
        | nil => simp at hy
        | cons s Y =>
          cases Z with
          | nil => simp at hz
          | cons t Z =>
            simp only [sameShape_cons, Bool.and_eq_true, beq_iff_eq] at hy hz
            have := ih Y Z hy.2 hz.2
            simp only [madd, List.zipWith_cons_cons, sameShape_cons, length_vadd, Bool.and_eq_true,
              beq_iff_eq] at this ⊢
            exact ⟨by omega, this⟩
    exact this _ _ _ h1 hGB
  rw [frob_eq_dot_flat hs, flat_madd (sameShape_msmul_right α hGB), flat_msmul, flat_gradWith_frobenius α h]
  apply dot_combine_add _ _ _ (sameShape_flat_length h)
  rwa [← frob_eq_dot_flat (sameShape_refl B)]

/-! ### tie to the source (generated definitions) -/

/-- _pytorch_engine.py projects with the Frobenius product (FALSE before fix 4e3c7cd: F4) -/
theorem torch_projection_is_frobenius : torchInner = InnerKind.frobenius := by decide

/-- _tensorflow_engine.py: `reduce_sum(multiply(·,·))` (lifted structurally; TensorFlow is not installed) -/
theorem tf_projection_is_frobenius : tfInner = InnerKind.frobenius := by decide

/-- the literal three lines of the PyTorch loop body (norm as a parameter, tiny = 0) equal the normalised model -/
theorem torch_literal_form (A B : Mat) (α nrm : Rat) (h : sameShape A B = true)
    (hn : nrm * nrm = frob B B) (hn0 : nrm ≠ 0) :
    engineGradRaw torchUnit torchGrad torchInner A B α nrm 0 = gradWith torchInner A B α :=
  engineGradRaw_eq torchUnit torchGrad (by intro b n; simp [torchUnit]) (by intro a u b p α; simp [torchGrad])
    torchInner A B α nrm h hn hn0

theorem tf_literal_form (A B : Mat) (α nrm : Rat) (h : sameShape A B = true)
    (hn : nrm * nrm = frob B B) (hn0 : nrm ≠ 0) :
    engineGradRaw tfUnit tfGrad tfInner A B α nrm 0 = gradWith tfInner A B α :=
  engineGradRaw_eq tfUnit tfGrad (by intro b n; simp [tfUnit]) (by intro a u b p α; simp [tfGrad])
    tfInner A B α nrm h hn hn0

/-- the PyTorch step as written: orthogonal update for every tensor shape with `dLA/dW ≠ 0` -/
theorem torch_step_orthogonal (A B G : Mat) (α : Rat) (h : sameShape A B = true) (hB : frob B B ≠ 0)
    (hG : torchStep A B α = some G) : frob (madd G (msmul α B)) B = 0 := by
  unfold torchStep at hG
  rw [torch_projection_is_frobenius] at hG
  exact engine_orthogonal _ A B G α h hB hG

theorem tf_step_orthogonal (A B G : Mat) (α : Rat) (h : sameShape A B = true) (hB : frob B B ≠ 0)
    (hG : tfStep A B α = some G) : frob (madd G (msmul α B)) B = 0 := by
  unfold tfStep at hG
  rw [tf_projection_is_frobenius] at hG
  exact engine_orthogonal _ A B G α h hB hG

/-- and its flattening is exactly the documented `g` -/
theorem torch_step_is_combine (A B : Mat) (α : Rat) (h : sameShape A B = true) (hB : frob B B ≠ 0) :
    (torchStep A B α).map flat = some (combine (flat A) (flat B) α) := by
  unfold torchStep
  rw [torch_projection_is_frobenius, nonzero_branch _ _ _ _ _ hB]
  simp [flat_gradWith_frobenius α h]

/-- the step is defined (no NaN tensor) exactly when the regulariser survives float32 arithmetic -/
theorem step_total_iff_tiny_survives (k : InnerKind) (t : TinyKind) :
    (∀ (A B : Mat) (α : Rat), (engineGrad k t A B α).isSome = true) ↔ t = TinyKind.float32 := by
  constructor
  · intro h
    cases t with
    | float32 => rfl
    | float64 =>
      have := h [[1]] [[0]] 0
      simp [engineGrad] at this
  · rintro rfl A B α
    unfold engineGrad
    split <;> simp

theorem tf_step_total (A B : Mat) (α : Rat) : (tfStep A B α).isSome = true :=
  (step_total_iff_tiny_survives tfInner tfTiny).mpr (by decide) A B α

/-- _pytorch_engine.py adds a regulariser that survives float32 arithmetic
    (FALSE while the source says `torch.finfo(float).tiny`, the float64 tiny: finding F11) -/
theorem torch_tiny_survives_float32 : torchTiny = TinyKind.float32 := by decide

/-- hence the PyTorch step never produces the NaN tensor ... -/
theorem torch_step_total (A B : Mat) (α : Rat) : (torchStep A B α).isSome = true :=
  (step_total_iff_tiny_survives torchInner torchTiny).mpr torch_tiny_survives_float32 A B α

/-- ... and for `dLA/dW = 0` the parameter follows `dLP/dW` alone (the projection on the zero tensor is 0) -/
theorem torch_zero_gradient_keeps_dLP (A B : Mat) (α : Rat) (hB : ∀ r ∈ B, ∀ x ∈ r, x = 0) :
    torchStep A B α = some A := by
  unfold torchStep
  rw [torch_tiny_survives_float32]
  exact (zero_branch torchInner A B α hB).1

/-- TensorFlow engine, structural (lifted from the source, never executed here): the adversary optimiser applies the
    plain gradient of LA w.r.t. the adversary's own variables; the loop combines dLP/dW and dLA/dW of the predictor. -/
theorem tf_adversary_plain_gradient_structural :
    tf_adversary_applies = (⟨Loss.LA, Player.adversary⟩, Player.adversary) ∧
    tf_predictor_applies = (⟨Loss.LP, Player.predictor⟩, Player.predictor) ∧
    tf_dW_LA = ⟨Loss.LA, Player.predictor⟩ := by decide

/-! ### the WHOLE training step (`Model/AdvStep.lean`): all tensors of both players, optimisers as parameters -/

section WholeStep
open AdvStep

/-- What each optimiser is handed, for ANY pair of optimisers: the predictor's optimiser gets, tensor by tensor, the
    engine's rule applied to (dLP/dW_i, dLA/dW_i); the adversary's optimiser gets dLA/dU_j unchanged. -/
theorem whole_step_feeds_optimisers {τP τA : Type} (eng : Mat → Mat → Rat → Option Mat) (α : Rat)
    (optP : Opt τP) (optA : Opt τA) (m m' : Model τP τA) (g : Grads) (h : step eng α optP optA m g = some m') :
    ∃ gs, combineAll eng α g.dWLP g.dWLA = some gs ∧
      g.dWLP.length = g.dWLA.length ∧
      List.Forall₂ (fun ab G => eng ab.1 ab.2 α = some G) (g.dWLP.zip g.dWLA) gs ∧
      (m'.pred.params, m'.pred.state) = applyOpt optP m.pred.params m.pred.state gs ∧
      (m'.adv.params, m'.adv.state) = applyOpt optA m.adv.params m.adv.state g.dULA := by
  unfold step at h
  cases hc : combineAll eng α g.dWLP g.dWLA with
  | none => simp [hc] at h
  | some gs =>
    simp only [hc, Option.some.injEq] at h
    subst h
    have := combineAll_spec eng α _ _ gs hc
    exact ⟨gs, rfl, this.1, this.2, rfl, rfl⟩

/-- With plain SGD the predictor moves exactly along `−lr_P · g_i` (g_i = the engine's combined gradient of tensor i)
    and the adversary along `−lr_A · dLA/dU_j`. -/
theorem whole_step_sgd (eng : Mat → Mat → Rat → Option Mat) (α lrP lrA : Rat) (m m' : Model Unit Unit) (g : Grads)
    (hP : m.pred.state.length = m.pred.params.length) (hA : m.adv.state.length = m.adv.params.length)
    (h : step eng α (sgd lrP) (sgd lrA) m g = some m') :
    ∃ gs, List.Forall₂ (fun ab G => eng ab.1 ab.2 α = some G) (g.dWLP.zip g.dWLA) gs ∧
      m'.pred.params = List.zipWith (fun W G => msub W (msmul lrP G)) m.pred.params gs ∧
      m'.adv.params = List.zipWith (fun U d => msub U (msmul lrA d)) m.adv.params g.dULA := by
  obtain ⟨gs, _, _, hf, h1, h2⟩ := whole_step_feeds_optimisers eng α (sgd lrP) (sgd lrA) m m' g h
  refine ⟨gs, hf, ?_, ?_⟩
  · rw [← applyOpt_sgd lrP _ _ gs hP, ← h1]
  · rw [← applyOpt_sgd lrA _ _ g.dULA hA, ← h2]

/-- the PyTorch step (loop body as lifted from the source) is defined for every list of gradient tensors: no NaN model -/
theorem torch_whole_step_defined {τP τA : Type} (α : Rat) (optP : Opt τP) (optA : Opt τA) (m : Model τP τA) (g : Grads)
    (hlen : g.dWLP.length = g.dWLA.length) : (step torchStep α optP optA m g).isSome = true := by
  obtain ⟨gs, hgs, _⟩ := combineAll_total torchStep α (fun A B => torch_step_total A B α) _ _ hlen
  simp [step, hgs]

/-- direction of one predictor tensor under the PyTorch engine: the documented
    `g = dLP/dW − proj_{dLA/dW}(dLP/dW) − α·dLA/dW` (Frobenius projection), with `g + α·dLA/dW ⟂ dLA/dW`;
    for `dLA/dW = 0` it is `dLP/dW` itself -/
theorem torch_whole_step_direction (A B G : Mat) (α : Rat) (hs : sameShape A B = true) (h : torchStep A B α = some G) :
    (frob B B ≠ 0 → flat G = combine (flat A) (flat B) α ∧
      dot (vadd (flat G) (smul α (flat B))) (flat B) = 0) ∧
    ((∀ r ∈ B, ∀ x ∈ r, x = 0) → G = A) := by
  constructor
  · intro hB
    have e := torch_step_is_combine A B α hs hB
    rw [h] at e
    simp only [Option.map_some, Option.some.injEq] at e
    refine ⟨e, ?_⟩
    rw [e]
    have hb : dot (flat B) (flat B) ≠ 0 := by rwa [← frob_eq_dot_flat (sameShape_refl B)]
    exact orthogonal (flat A) (flat B) α (sameShape_flat_length hs) hb
  · intro hz
    have := torch_zero_gradient_keeps_dLP A B α hz
    rw [h] at this
    exact Option.some.inj this

end WholeStep

/-! ### the statement structure of `train_step`, LIFTED (`Generated/AdvTrainStepSrc.lean`, harness/lifters/adv_trainstep.py) -/

section TrainStepStructure
open TrainStepL AdvTrainStepSrc

/-- Whatever the `.grad` buffers held before the step (coefficient `stale`), after the statements of `train_step` in
    their source order: the first copy is exactly dLP/dW, the second exactly dLA/dW (the buffers are cleared between the
    two backward passes, nothing accumulates), the predictor's optimiser applies the combine rule to (dLP/dW, dLA/dW) and
    the adversary's optimiser applies exactly dLA/dU — the plain gradient of its own loss. -/
theorem lifted_train_step_gradients :
    lifted.ok = true ∧ lifted.snapLP = some ⟨1, 0, 0⟩ ∧ lifted.snapLA = some ⟨0, 1, 0⟩ ∧
    lifted.appliedP = some (.comb ⟨1, 0, 0⟩ ⟨0, 1, 0⟩) ∧ lifted.appliedA = some ⟨0, 1, 0⟩ := by decide

/-- the data flow of `train_step`: LP reaches only the predictor's parameters, LA reaches both players' -/
theorem lifted_loss_dependencies : dependsOn .LP = [.predictor] ∧ dependsOn .LA = [.predictor, .adversary] := by decide

/-- why the clearing between the backward passes matters: without the two `zero_grad` calls in the middle the second
    copy would be dLP/dW + dLA/dW (regression witness for a dropped `zero_grad`) -/
theorem accumulation_without_clearing :
    (run dependsOn [.zeroGrad .predictor, .zeroGrad .adversary, .backward .LP, .snapshot .dW_LP, .backward .LA,
      .snapshot .dW_LA, .combine, .step .predictor, .step .adversary] init).appliedP
      = some (.comb ⟨1, 0, 0⟩ ⟨1, 1, 0⟩) := by decide

/-- … and without the clearing at the start the adversary would apply stale gradients of the previous step as well -/
theorem stale_without_initial_clearing :
    (run dependsOn [.zeroGrad .predictor, .backward .LP, .snapshot .dW_LP, .zeroGrad .predictor, .backward .LA,
      .snapshot .dW_LA, .combine, .step .predictor, .step .adversary] init).appliedA = some ⟨0, 1, 1⟩ := by decide

/-- demographic parity vs equalized odds, as lifted: `pass_y_` is set exactly for "equalized_odds" (any other keyword is
    rejected); the adversary is fed the predictor's (undetached) output, followed by the encoded target `y` exactly when
    `pass_y_`; and the adversary model is built with the matching input width. -/
theorem lifted_adversary_sees_y_iff_equalized_odds :
    passY "demographic_parity" = some false ∧ passY "equalized_odds" = some true ∧
    adversaryInput false = [.yhat] ∧ adversaryInput true = [.yhat, .y] ∧
    (∀ ny p, adversaryInputWidth ny p = ny * (adversaryInput p).length) := by
  refine ⟨by decide, by decide, by decide, by decide, ?_⟩
  intro ny p
  cases p <;> simp [adversaryInputWidth, adversaryInput]

end TrainStepStructure

/-! ### why single-row tests cannot see F4 -/

/-- for single-row tensors (bias vectors, 1×c weights) `torch.sum(torch.inner(U, A))` IS the Frobenius product -/
theorem sumInner_eq_frobenius_single_row (U A : Mat) (hU : U.length = 1) (hA : A.length = 1) :
    sumInner U A = frob U A := by
  match U, A, hU, hA with
  | [u], [a], _, _ => simp [sumInner_single]

/-- ... but not for several rows: a 2×2 witness -/
theorem sumInner_ne_frobenius_two_rows :
    sumInner [[1, 0], [0, 1]] [[0, 1], [1, 0]] ≠ frob [[1, 0], [0, 1]] [[0, 1], [1, 0]] := by decide +kernel

/-- regression witness of F4: with the sum-of-all-row-pairs product the update is NOT orthogonal to dLA/dW -/
theorem sumInner_update_not_orthogonal :
    ∃ A B G : Mat, ∃ α : Rat, sameShape A B = true ∧ engineGrad .sumInner .float32 A B α = some G ∧
      frob (madd G (msmul α B)) B ≠ 0 :=
  ⟨[[1, 0], [0, 1]], [[1, 1], [0, 1]], [[-1, -2], [0, -1]], 1, by decide +kernel, by decide +kernel, by decide +kernel⟩

/-! ### optimiser steps: what the harness observes recovers the applied gradient -/

/-- plain SGD: `(W_before - W_after)/lr` is the gradient that was applied -/
theorem observed_recovers_gradient (W g : Vec) (lr : Rat) (h : W.length = g.length) (hlr : lr ≠ 0) :
    observed W (sgdStep W g lr) lr = g :=
  observed_sgdStep W g lr h hlr

/-- the adversary's parameters follow the plain gradient of its own loss LA -/
theorem adversary_plain_gradient (U dU : Mat) (lr : Rat) (h : sameShape U dU = true) (hlr : lr ≠ 0) :
    flat (adversaryStep U dU lr) = sgdStep (flat U) (flat dU) lr ∧
    observed (flat U) (flat (adversaryStep U dU lr)) lr = flat dU := by
  have e : flat (adversaryStep U dU lr) = sgdStep (flat U) (flat dU) lr := by
    unfold adversaryStep sgdStep
    rw [flat_msub (sameShape_msmul_right lr h), flat_msmul]
  exact ⟨e, by rw [e]; exact observed_sgdStep _ _ lr (sameShape_flat_length h) hlr⟩

/-- the predictor's parameters move along the combined gradient -/
theorem predictor_follows_combined (eng : Mat → Mat → Rat → Option Mat) (W A B G : Mat) (α lr : Rat)
    (hG : eng A B α = some G) (h : sameShape W G = true) (hlr : lr ≠ 0) :
    ∃ W', predictorStep eng W A B α lr = some W' ∧ observed (flat W) (flat W') lr = flat G := by
  refine ⟨msub W (msmul lr G), by simp [predictorStep, hG], ?_⟩
  rw [flat_msub (sameShape_msmul_right lr h), flat_msmul]
  exact observed_sgdStep _ _ lr (sameShape_flat_length h) hlr

/-! ### non-vacuity -/
example : dot [1, 2] [1, 2] ≠ 0 := by decide +kernel
example : combine [3, 1] [1, 2] (1/2) = [3/2, -2] := by decide +kernel
example : dot (vadd (combine [3, 1] [1, 2] (1/2)) (smul (1/2) [1, 2])) [1, 2] = 0 := by decide +kernel
example : sameShape [[1, 0], [0, 1]] [[1, 1], [0, 1]] = true ∧ frob [[1, 1], [0, 1]] [[1, 1], [0, 1]] ≠ 0 := by
  decide +kernel
example : torchStep [[1, 0], [0, 1]] [[1, 1], [0, 1]] 1 = some [[-2/3, -5/3], [0, -2/3]] := by decide +kernel
example : engineGrad .sumInner .float32 [[1, 0], [0, 1]] [[1, 1], [0, 1]] 1 = some [[-1, -2], [0, -1]] := by
  decide +kernel
example : engineGrad .frobenius .float64 [[1]] [[0]] 1 = none := by decide +kernel
example : (2 : Rat) * 2 = frob [[2, 0], [0, 0]] [[2, 0], [0, 0]] := by decide +kernel
example : observed [1, 2] (sgdStep [1, 2] [4, 8] (1/4)) (1/4) = [4, 8] := by decide +kernel
-- the optimiser is a parameter: two steps of SGD with momentum 1/2 on one 1x1 tensor (gradient 1 both times, lr 1):
-- buf = 1, then 1/2 + 1 = 3/2; W = 0 - 1 - 3/2
example : ((AdvStep.step torchStep 0 (AdvStep.sgdMomentum 1 (1/2)) (AdvStep.sgd 1)
      ⟨⟨[[[0]]], [none]⟩, ⟨[], []⟩⟩ ⟨[[[1]]], [[[0]]], []⟩).bind
    (fun m => AdvStep.step torchStep 0 (AdvStep.sgdMomentum 1 (1/2)) (AdvStep.sgd 1) m ⟨[[[1]]], [[[0]]], []⟩)).map
    (fun m => m.pred.params) = some [[[-5/2]]] := by decide +kernel
-- one whole step: predictor with a 2x2 weight and a bias, adversary with one 1x2 weight; alpha = 1, lr 1/2 and 1/4
example : (AdvStep.step torchStep 1 (AdvStep.sgd (1/2)) (AdvStep.sgd (1/4))
    ⟨⟨[[[1, 0], [0, 1]], [[1, 1]]], [(), ()]⟩, ⟨[[[2, 4]]], [()]⟩⟩
    ⟨[[[1, 0], [0, 1]], [[1, 0]]], [[[1, 1], [0, 1]], [[0, 0]]], [[[4, 8]]]⟩).map (fun m => (m.pred.params, m.adv.params)) =
    some ([[[4/3, 5/6], [0, 4/3]], [[1/2, 1]]], [[[1, 2]]]) := by decide +kernel

end C16
