/-
C17 — adversarial fit is the documented step schedule; predict stays in label space.
Property theorems only; helper lemmas live in `Lemmas/Schedule.lean`.
`none` stands for the Python value -1 of batch_size / epochs / max_iter.

CLAUSE -> THEOREM TABLE (review R2; property text: properties.jsonl C17).  `src_*` = the same clause for `SchedL.fitSrc`,
the interpreter of the configuration LIFTED from the source (`lifted_cfg` proves it equal to the documented one).
  (1) "fit with shuffle=False performs exactly epochs*ceil(n/batch_size) steps (or max_iter if smaller)"
        steps_count, steps_count_epochs_auto (epochs = -1: exactly max_iter), steps_le_max_iter, steps_count_positive,
        src_steps_count, src_steps_count_epochs_auto; both unset: both_unset_rejected, src_both_unset_rejected;
        shuffle=False never permutes: lifted_shuffle_placement (the shuffle stands under `if self.shuffle:`)
  (2) "on consecutive row slices"
        slices_consecutive_cover, slice_bounds, number_of_slices, no_batching_single_slice (batch_size = -1),
        large_batch_single_slice, schedule_slices_prefix, src_slices_consecutive_cover
  (3) "invokes every callback once after each completed step with step numbers 1,2,... (except after a final step that
       exhausts max_iter)"
        callbacks_numbered, callback_fired_iff, src_callbacks_numbered (ANY list of callbacks: `st.calls = callsOf …`, i.e.
        every callback of the list, in list order, once per fired step, with that step's number)
  (4) "and stops at the first step whose callback returns True"
        stops_at_first_true, src_stops_at_first_true (some callback of the list returns True; all are still called)
  (5) "the resulting model is identical to the one obtained by issuing the same slices through partial_fit on an
       identically configured estimator"
        fit_eq_fold_partial_fit, fitLoop_defined_iff, src_fit_eq_fold_partial_fit (MAIN TIE), src_fit_is_fold_of_train_steps
        (concrete projected-gradient step, autograd as a function), src_fit_recorded_is_fold_of_steps (the table-driven step
        the driver op `advstep.fit` folds), fit_eq_partial_fit_twin (with the first-call set-up), fit_cold_start,
        fit_warm_start_continues, partial_fit_first_call_sets_up, partial_fit_later_calls_continue, partialFitAll_continue
  (6) "predict returns members of the training label set: the positive class exactly when the predictor's output is at
       least 0.5 for binary targets"
        predict_binary, predict_binary_iff (EXACTLY when, for distinct classes), src_predict_binary,
        src_predict_binary_iff (lifted rule AND lifted default threshold 1/2)
  (7) "the arg-max class for multiclass targets"   predict_multi (first arg-max, member of the class list), src_predict_multi,
        src_predict_multi_in_classes
  (8) "and the raw output for regression"   src_predict_pipeline (continuousRule = identity; stages rawPredict → rule → inverse
        transform).  PARTIAL: the inverse label transform of a continuous target (`inverse = y`, _preprocessor.py:120) is not
        lifted; the harness compares predict with _raw_predict bit for bit.
  Quantifier: n >= 1, batch_size / epochs / max_iter positive or -1.  0 is rejected by fairlearn with ValueError before any
  step (replayed on the real code: batch_size=0, epochs=0, max_iter=0 all raise); the driver refuses 0 (`bad-op`); the Nat
  model is DEGENERATE there (`batch_size_zero_outside_model`), which is why the `src_*` theorems carry `0 < n` and
  `bs = some k → 0 < k`, and `steps_count` needs `0 < max_iter` (`max_iter_zero_outside_model`).
  Driver ops used by harness/props/c17.py -> model function -> theorem:
    sched.run -> schedule -> steps_count, callbacks_numbered, callback_fired_iff;  sched.loop -> fitLoop -> fit_eq_fold_partial_fit
    schedsrc.fit -> SchedL.fitSrc -> src_fit_eq_fold_partial_fit;  sched.predbin -> predictBinaryLabel -> predict_binary(_iff)
    sched.predmulti -> predictMultiLabel -> predict_multi;  schedsrc.predbin -> predictBinarySrc -> src_predict_binary(_iff)
    schedsrc.predmulti -> predictMultiSrc -> src_predict_multi;  schedlife.run -> SchedLife.fit / partialFit / predict ->
    fit_cold_start, fit_warm_start_continues, partial_fit_first_call_sets_up, partial_fit_later_calls_continue,
    predict_before_fit_rejected, fit_rejected_after_setup
-/
import FairModel.Lemmas.Schedule
import FairModel.Lemmas.SchedLifted
import FairModel.Lemmas.AdvStep
import FairModel.Model.SchedLife

namespace C17
open Schedule

/-! ### number of steps -/

/-- `epochs` given, no callback stops: exactly `epochs * ceil(n / batch_size)` steps, or `max_iter` if smaller -/
theorem steps_count (n e : Nat) (bs mi : Option Nat) (cb : Bool) (stopAt : Nat → Bool) (steps : List Step)
    (hstop : ∀ k, (cb && stopAt k) = false) (hmi : ∀ m, mi = some m → 0 < m)
    (h : schedule n bs (some e) mi cb stopAt = some steps) :
    steps.length = match mi with
      | none => e * ceilDiv n (batchSizeOf n bs)
      | some m => min (e * ceilDiv n (batchSizeOf n bs)) m := by
  simp only [schedule, epochsOf] at h
  cases h
  rw [run_length_no_stop mi cb stopAt 0 _ hstop hmi, length_allSlices]
  cases mi <;> simp [batchesOf]

/- non-vacuity (n = 7, batch_size = 3, epochs = 2, max_iter = 5, a callback that never stops): all three hypotheses at once;
   the count is min(2·3, 5) = 5, cut by max_iter in the middle of the second epoch -/
example : [(⟨0, 3, 1, true⟩ : Step), ⟨3, 6, 2, true⟩, ⟨6, 7, 3, true⟩, ⟨0, 3, 4, true⟩, ⟨3, 6, 5, false⟩].length =
    min (2 * ceilDiv 7 (batchSizeOf 7 (some 3))) 5 :=
  steps_count 7 2 (some 3) (some 5) true (fun _ => false) _ (by intro k; rfl) (by intro m h; cases h; decide)
    (by decide +kernel)
example : ceilDiv 7 (batchSizeOf 7 (some 3)) = 3 := by decide +kernel

/-- REVIEW R2 (totalisation): inside the quantifier (n ≥ 1, batch size ≥ 1, epochs ≥ 1, max_iter ≥ 1 or unset) at least one
    step is made — the count of `steps_count` is not the degenerate `e * (n / 0) = 0` of Lean's division. -/
theorem steps_count_positive (n e : Nat) (bs mi : Option Nat) (cb : Bool) (stopAt : Nat → Bool) (steps : List Step)
    (hn : 0 < n) (hb : 0 < batchSizeOf n bs) (he : 0 < e) (h : schedule n bs (some e) mi cb stopAt = some steps) :
    0 < steps.length := by
  simp only [schedule, epochsOf] at h
  cases h
  have hbt : 0 < batchesOf n (batchSizeOf n bs) := ceilDiv_pos n _ hn hb
  have hl : 0 < (allSlices n (batchSizeOf n bs) e).length := by
    rw [length_allSlices]; exact Nat.mul_pos he hbt
  cases hL : allSlices n (batchSizeOf n bs) e with
  | nil => rw [hL] at hl; simp at hl
  | cons p L =>
    obtain ⟨lo, hi⟩ := p
    unfold run
    split
    · simp
    · split <;> simp

example : 0 < [(⟨0, 3, 1, true⟩ : Step), ⟨3, 6, 2, true⟩, ⟨6, 7, 3, true⟩, ⟨0, 3, 4, true⟩, ⟨3, 6, 5, false⟩].length :=
  steps_count_positive 7 2 (some 3) (some 5) true (fun _ => false) _ (by decide) (by decide) (by decide) (by decide +kernel)

/-- OUTSIDE THE MODEL: `batch_size = 0`.  Lean's `n / 0 = 0` makes the Nat model plan NO slices and accept; the real code
    raises ValueError ("should be set to a positive number or -1", replayed) and the driver refuses the input (`bad-op`).
    `steps_count` holds there only by this degeneracy — hence the positivity hypotheses of the `src_*` theorems. -/
theorem batch_size_zero_outside_model (n e : Nat) (mi : Option Nat) (cb : Bool) (stopAt : Nat → Bool) :
    schedule n (some 0) (some e) mi cb stopAt = some [] := by
  have h0 : batchesOf n 0 = 0 := by simp [batchesOf, ceilDiv]
  have : allSlices n 0 e = [] := by
    simp [allSlices, epochSlices, h0]
  simp [schedule, epochsOf, batchSizeOf, this, run]

/-- OUTSIDE THE MODEL: `max_iter = 0` (rejected by the real code with ValueError, replayed; refused by the driver).  The
    loop text would still make ONE step (the test `n_iter_ >= max_iter` stands after the step), not `min(…, 0) = 0`:
    that is why `steps_count` requires `0 < max_iter`. -/
theorem max_iter_zero_outside_model (n e : Nat) (bs : Option Nat) (cb : Bool) (stopAt : Nat → Bool)
    (hn : 0 < n) (hb : 0 < batchSizeOf n bs) (he : 0 < e) :
    (schedule n bs (some e) (some 0) cb stopAt).map List.length = some 1 := by
  simp only [schedule, epochsOf, Option.map_some, Option.some.injEq]
  have hbt : 0 < batchesOf n (batchSizeOf n bs) := ceilDiv_pos n _ hn hb
  have hl : 0 < (allSlices n (batchSizeOf n bs) e).length := by
    rw [length_allSlices]; exact Nat.mul_pos he hbt
  cases hL : allSlices n (batchSizeOf n bs) e with
  | nil => rw [hL] at hl; simp at hl
  | cons p L =>
    obtain ⟨lo, hi⟩ := p
    simp [run, hitMax]

/-- `epochs = -1`: the number of epochs is `ceil(max_iter / batches)` and exactly `max_iter` steps are made -/
theorem steps_count_epochs_auto (n m : Nat) (bs : Option Nat) (cb : Bool) (stopAt : Nat → Bool) (steps : List Step)
    (hn : 0 < n) (hb : 0 < batchSizeOf n bs) (hm : 0 < m) (hstop : ∀ k, (cb && stopAt k) = false)
    (h : schedule n bs none (some m) cb stopAt = some steps) : steps.length = m := by
  simp only [schedule, epochsOf] at h
  cases h
  rw [run_length_no_stop (some m) cb stopAt 0 _ hstop (by intro m' h'; cases h'; exact hm), length_allSlices]
  have hbt : 0 < batchesOf n (batchSizeOf n bs) := ceilDiv_pos n _ hn hb
  have := le_ceilDiv_mul m (batchesOf n (batchSizeOf n bs)) hbt
  simp only [Nat.sub_zero]
  omega

/- non-vacuity: n = 7, batch_size = 3 (3 batches), epochs = -1, max_iter = 5: all five hypotheses; ceil(5/3) = 2 epochs planned -/
example : [(⟨0, 3, 1, false⟩ : Step), ⟨3, 6, 2, false⟩, ⟨6, 7, 3, false⟩, ⟨0, 3, 4, false⟩, ⟨3, 6, 5, false⟩].length = 5 :=
  steps_count_epochs_auto 7 5 (some 3) false (fun _ => false) _ (by decide) (by decide) (by decide) (by intro k; rfl)
    (by decide +kernel)

/-- `epochs = -1` and `max_iter = -1` is rejected -/
theorem both_unset_rejected (n : Nat) (bs : Option Nat) (cb : Bool) (stopAt : Nat → Bool) :
    schedule n bs none none cb stopAt = none := by
  simp [schedule, epochsOf]

/-- `n_iter_` never exceeds `max_iter` -/
theorem steps_le_max_iter (n m : Nat) (bs ep : Option Nat) (cb : Bool) (stopAt : Nat → Bool) (steps : List Step)
    (hm : 0 < m) (h : schedule n bs ep (some m) cb stopAt = some steps) : steps.length ≤ m := by
  simp only [schedule] at h
  split at h
  · cases h
  · cases h
    -- generalise over the planned slices
    have key : ∀ (L : List (Nat × Nat)) (d : Nat), d < m → (run (some m) cb stopAt d L).length ≤ m - d := by
      intro L
      induction L with
      | nil => intro d _; simp [run]
      | cons p L ih =>
        intro d hd
        obtain ⟨lo, hi⟩ := p
        unfold run
        by_cases h1 : m ≤ d + 1
        · simp [hitMax, h1]; omega
        · simp only [hitMax, h1, decide_false, Bool.false_eq_true, if_false]
          split
          · simp; omega
          · have := ih (d + 1) (by omega)
            simp only [List.length_cons]; omega
    simpa using key _ 0 hm

example : [(⟨0, 3, 1, true⟩ : Step), ⟨3, 6, 2, true⟩, ⟨6, 7, 3, true⟩, ⟨0, 3, 4, true⟩, ⟨3, 6, 5, false⟩].length ≤ 5 :=
  steps_le_max_iter 7 5 (some 3) (some 2) true (fun _ => false) _ (by decide) (by decide +kernel)

/-! ### which rows each step sees -/

/-- `batch_size = -1` means one slice with all rows; so does any `batch_size >= n` -/
theorem no_batching_single_slice (n : Nat) (hn : 0 < n) :
    batchSizeOf n none = n ∧ epochSlices n n = [(0, n)] := by
  refine ⟨rfl, ?_⟩
  have h1 : batchesOf n n = 1 := by
    have hp := ceilDiv_pos n n hn hn
    have : ¬ 1 < ceilDiv n n := by
      rw [lt_ceilDiv_iff n n 1 hn]; omega
    unfold batchesOf; omega
  simp [epochSlices, h1, sliceOf]

example : batchSizeOf 7 none = 7 ∧ epochSlices 7 7 = [(0, 7)] := no_batching_single_slice 7 (by decide)

theorem large_batch_single_slice (n b : Nat) (hn : 0 < n) (hb : n ≤ b) : epochSlices n b = [(0, n)] := by
  have hb0 : 0 < b := by omega
  have h1 : batchesOf n b = 1 := by
    have hp := ceilDiv_pos n b hn hb0
    have : ¬ 1 < ceilDiv n b := by
      rw [lt_ceilDiv_iff n b 1 hb0]; omega
    unfold batchesOf; omega
  simp [epochSlices, h1, sliceOf]
  omega

example : epochSlices 7 45 = [(0, 7)] := large_batch_single_slice 7 45 (by decide) (by decide)

/-- each epoch's slices are consecutive, non-empty and cover rows `0 .. n` exactly:
    `[0,b), [b,2b), …, [kb, n)` -/
theorem slices_consecutive_cover (n b : Nat) (hn : 0 < n) (hb : 0 < b) : Covers 0 (epochSlices n b) n :=
  epochSlices_covers n b hn hb

/- non-vacuity: 7 rows in batches of 3 — two full slices and a last one of a single row -/
example : Covers 0 (epochSlices 7 3) 7 := slices_consecutive_cover 7 3 (by decide) (by decide)
example : epochSlices 7 3 = [(0, 3), (3, 6), (6, 7)] := by decide +kernel

theorem slice_bounds (n b k : Nat) (hb : 0 < b) (hk : k < batchesOf n b) :
    (sliceOf n b k).1 = k * b ∧ (sliceOf n b k).1 < (sliceOf n b k).2 ∧ (sliceOf n b k).2 ≤ n ∧
    (sliceOf n b k).2 - (sliceOf n b k).1 ≤ b ∧
    (k + 1 < batchesOf n b → (sliceOf n b k).2 = (sliceOf n b (k + 1)).1) ∧
    (k + 1 = batchesOf n b → (sliceOf n b k).2 = n) := by
  refine ⟨rfl, sliceOf_nonempty n b k hb hk, by simp [sliceOf], sliceOf_size_le n b k, ?_, sliceOf_hi_last n b k hb⟩
  intro h
  rw [sliceOf_hi_inner n b k hb h]; rfl

/- non-vacuity: the LAST slice (k = 2 of 3) of n = 7, b = 3: starts at 6, ends at n = 7, is shorter than b -/
example : (sliceOf 7 3 2).1 = 2 * 3 ∧ (sliceOf 7 3 2).1 < (sliceOf 7 3 2).2 ∧ (sliceOf 7 3 2).2 ≤ 7 ∧
    (sliceOf 7 3 2).2 - (sliceOf 7 3 2).1 ≤ 3 ∧ (2 + 1 < batchesOf 7 3 → (sliceOf 7 3 2).2 = (sliceOf 7 3 (2 + 1)).1) ∧
    (2 + 1 = batchesOf 7 3 → (sliceOf 7 3 2).2 = 7) := slice_bounds 7 3 2 (by decide) (by decide +kernel)

theorem number_of_slices (n b e : Nat) :
    (epochSlices n b).length = ceilDiv n b ∧ (allSlices n b e).length = e * ceilDiv n b :=
  ⟨length_epochSlices n b, length_allSlices n b e⟩

/-- the executed steps are an initial segment of `epochs` repetitions of the epoch's slices -/
theorem schedule_slices_prefix (n : Nat) (bs ep mi : Option Nat) (cb : Bool) (stopAt : Nat → Bool) (steps : List Step)
    (h : schedule n bs ep mi cb stopAt = some steps) :
    ∃ e, epochsOf ep mi (batchesOf n (batchSizeOf n bs)) = some e ∧
      steps.map (fun s => (s.lo, s.hi)) <+: allSlices n (batchSizeOf n bs) e := by
  simp only [schedule] at h
  split at h
  · cases h
  · next e he =>
    cases h
    exact ⟨e, he, run_prefix mi cb stopAt 0 _⟩

example : ∃ e, epochsOf (some 2) (some 5) (batchesOf 7 (batchSizeOf 7 (some 3))) = some e ∧
    [(0, 3), (3, 6), (6, 7), (0, 3), (3, 6)] <+: allSlices 7 (batchSizeOf 7 (some 3)) e := by
  simpa using schedule_slices_prefix 7 (some 3) (some 2) (some 5) true (fun _ => false)
    [⟨0, 3, 1, true⟩, ⟨3, 6, 2, true⟩, ⟨6, 7, 3, true⟩, ⟨0, 3, 4, true⟩, ⟨3, 6, 5, false⟩] (by decide +kernel)

/-! ### callbacks -/

/-- steps (and therefore the `step=` argument of the callbacks) are numbered 1, 2, … -/
theorem callbacks_numbered (n : Nat) (bs ep mi : Option Nat) (cb : Bool) (stopAt : Nat → Bool) (steps : List Step)
    (h : schedule n bs ep mi cb stopAt = some steps) :
    steps.map (·.stepNo) = List.range' 1 steps.length := by
  simp only [schedule] at h
  split at h
  · cases h
  · cases h; exact run_stepNo mi cb stopAt 0 _

example : [(⟨0, 3, 1, true⟩ : Step), ⟨3, 6, 2, true⟩, ⟨6, 7, 3, true⟩, ⟨0, 3, 4, true⟩, ⟨3, 6, 5, false⟩].map (·.stepNo) =
    List.range' 1 5 :=
  callbacks_numbered 7 (some 3) (some 2) (some 5) true (fun _ => false) _ (by decide +kernel)

/-- the callbacks are invoked after every completed step EXCEPT a step that exhausts `max_iter` -/
theorem callback_fired_iff (n : Nat) (bs ep mi : Option Nat) (cb : Bool) (stopAt : Nat → Bool) (steps : List Step)
    (h : schedule n bs ep mi cb stopAt = some steps) :
    ∀ s ∈ steps, s.callbackFired = (cb && !hitMax mi s.stepNo) := by
  simp only [schedule] at h
  split at h
  · cases h
  · cases h; exact run_callbackFired mi cb stopAt 0 _

/- non-vacuity: step 5 exhausts max_iter = 5 — the only step after which the callback is NOT invoked -/
example : ∀ s ∈ [(⟨0, 3, 1, true⟩ : Step), ⟨3, 6, 2, true⟩, ⟨6, 7, 3, true⟩, ⟨0, 3, 4, true⟩, ⟨3, 6, 5, false⟩],
    s.callbackFired = (true && !hitMax (some 5) s.stepNo) :=
  callback_fired_iff 7 (some 3) (some 2) (some 5) true (fun _ => false) _ (by decide +kernel)

/-- fit stops at the first step whose callback returns True -/
theorem stops_at_first_true (n k : Nat) (bs ep mi : Option Nat) (stopAt : Nat → Bool) (steps : List Step) (e : Nat)
    (h : schedule n bs ep mi true stopAt = some steps)
    (he : epochsOf ep mi (batchesOf n (batchSizeOf n bs)) = some e)
    (hk0 : 0 < k) (hk : k ≤ e * ceilDiv n (batchSizeOf n bs)) (hs : stopAt k = true)
    (hbefore : ∀ j, 0 < j → j < k → stopAt j = false) (hmi : ∀ m, mi = some m → k < m) :
    steps.length = k ∧ (steps.getLast?).map (fun s => (s.stepNo, s.callbackFired)) = some (k, true) := by
  simp only [schedule, he] at h
  cases h
  have := run_stops_at_first_true mi stopAt 0 k (allSlices n (batchSizeOf n bs) e) hk0
    (by rw [length_allSlices]; simpa [batchesOf] using hk) hs hbefore hmi
  simpa using this

/- non-vacuity: all seven hypotheses at once — 6 steps planned, the callback says True at steps 4 AND 6, max_iter = 9 > 4:
   the run ends at step 4 (first True), whose callback was invoked -/
example : [(⟨0, 3, 1, true⟩ : Step), ⟨3, 6, 2, true⟩, ⟨6, 7, 3, true⟩, ⟨0, 3, 4, true⟩].length = 4 ∧
    ([(⟨0, 3, 1, true⟩ : Step), ⟨3, 6, 2, true⟩, ⟨6, 7, 3, true⟩, ⟨0, 3, 4, true⟩].getLast?).map
      (fun s => (s.stepNo, s.callbackFired)) = some (4, true) :=
  stops_at_first_true 7 4 (some 3) (some 2) (some 9) (fun k => k == 4 || k == 6) _ 2 (by decide +kernel) (by decide +kernel)
    (by decide) (by decide +kernel) (by decide) (by intro j h0 h4; have : j = 1 ∨ j = 2 ∨ j = 3 := (by omega); rcases this with rfl | rfl | rfl <;> decide)
    (by intro m h; cases h; decide)

/-! ### fit = the same slices through partial_fit -/

/-- The nested loops of `fit` (with both early returns) leave exactly the state obtained by folding the single-step
    entry point over the scheduled slices, and `n_iter_` is the number of scheduled steps. -/
theorem fit_eq_fold_partial_fit {σ : Type} (n : Nat) (bs ep mi : Option Nat) (cb : Bool) (stopAt : Nat → Bool)
    (trainStep : σ → Nat → Nat → σ) (s0 : σ) (r : Loop σ)
    (h : fitLoop n bs ep mi cb stopAt trainStep s0 = some r) :
    ∃ steps, schedule n bs ep mi cb stopAt = some steps ∧
      r.state = partialFitSeq trainStep s0 steps ∧ r.nIter = steps.length := by
  simp only [fitLoop] at h
  simp only [schedule]
  split at h
  · cases h
  · next e he =>
    cases h
    refine ⟨_, rfl, ?_⟩
    rw [foldl_epochs]
    have := foldl_batchBody_run mi cb stopAt trainStep (allSlices n (batchSizeOf n bs) e) s0 0
    simpa [allSlices] using this

/- non-vacuity: the nested loops with a recording state, cut by max_iter = 5 in the second epoch -/
example : ∃ steps, schedule 7 (some 3) (some 2) (some 5) true (fun _ => false) = some steps ∧ steps.length = 5 := by
  obtain ⟨r, h⟩ := Option.isSome_iff_exists.mp (show (fitLoop 7 (some 3) (some 2) (some 5) true (fun _ => false)
    (fun (l : List (Nat × Nat)) lo hi => l ++ [(lo, hi)]) []).isSome = true by decide +kernel)
  obtain ⟨steps, h1, _, _⟩ := fit_eq_fold_partial_fit 7 (some 3) (some 2) (some 5) true (fun _ => false) _ [] r h
  refine ⟨steps, h1, ?_⟩
  have : schedule 7 (some 3) (some 2) (some 5) true (fun _ => false) =
    some [⟨0, 3, 1, true⟩, ⟨3, 6, 2, true⟩, ⟨6, 7, 3, true⟩, ⟨0, 3, 4, true⟩, ⟨3, 6, 5, false⟩] := by decide +kernel
  rw [this] at h1; cases h1; rfl

/-- and conversely `fit` is defined whenever the schedule is -/
theorem fitLoop_defined_iff {σ : Type} (n : Nat) (bs ep mi : Option Nat) (cb : Bool) (stopAt : Nat → Bool)
    (trainStep : σ → Nat → Nat → σ) (s0 : σ) :
    (fitLoop n bs ep mi cb stopAt trainStep s0).isSome = (schedule n bs ep mi cb stopAt).isSome := by
  simp only [fitLoop, schedule]
  split <;> simp

/-! ### predict stays in label space -/

/-- binary: the positive (larger) class exactly when the output is at least the threshold, else the other class -/
theorem predict_binary (c0 c1 : Int) (t o : Rat) :
    (t ≤ o → predictBinaryLabel [c0, c1] t o = some c1) ∧
    (o < t → predictBinaryLabel [c0, c1] t o = some c0) ∧
    (∃ c ∈ [c0, c1], predictBinaryLabel [c0, c1] t o = some c) := by
  unfold predictBinaryLabel predictBinary labelAt
  by_cases h : t ≤ o
  · have h2 : ¬ o < t := not_lt.mpr h
    simp [h, h2]
  · have h2 : o < t := not_le.mp h
    simp [h, h2]

/-- REVIEW R2 — the clause says "the positive class EXACTLY WHEN the output is at least the threshold": for two DISTINCT
    classes (the sorted class list of a binary target) the implication of `predict_binary` is an equivalence. -/
theorem predict_binary_iff (c0 c1 : Int) (t o : Rat) (hne : c0 ≠ c1) :
    (predictBinaryLabel [c0, c1] t o = some c1 ↔ t ≤ o) ∧ (predictBinaryLabel [c0, c1] t o = some c0 ↔ o < t) := by
  obtain ⟨h1, h2, _⟩ := predict_binary c0 c1 t o
  constructor
  · refine ⟨fun h => ?_, h1⟩
    by_contra hlt
    rw [h2 (not_le.mp hlt)] at h
    exact hne (Option.some.inj h)
  · refine ⟨fun h => ?_, h2⟩
    by_contra hge
    rw [h1 (not_lt.mp hge)] at h
    exact hne (Option.some.inj h).symm

/- non-vacuity: classes 3 < 5, threshold 1/2; the tie o = 1/2 goes to the positive class, 127/256 does not -/
example : (predictBinaryLabel [3, 5] (1/2) (1/2) = some 5 ↔ (1/2 : Rat) ≤ 1/2) ∧
    (predictBinaryLabel [3, 5] (1/2) (1/2) = some 3 ↔ (1/2 : Rat) < 1/2) := predict_binary_iff 3 5 (1/2) (1/2) (by decide)
example : predictBinaryLabel [3, 5] (1/2) (127/256) = some 3 ∧ predictBinaryLabel [3, 5] (1/2) (1/2) = some 5 := by
  decide +kernel

/-- multiclass: the prediction is the class at the arg-max position, which is a member of the class list;
    the arg-max is the FIRST maximal output -/
theorem predict_multi (classes : List Int) (o : List Rat) (hne : o ≠ []) (hlen : o.length = classes.length) :
    ∃ (hi : argmaxFirst o < o.length) (c : Int), c ∈ classes ∧ predictMultiLabel classes o = some c ∧
      classes[argmaxFirst o]? = some c ∧
      (∀ v ∈ o, v ≤ o[argmaxFirst o]) ∧
      (∀ j (hj : j < argmaxFirst o), o[j]'(by omega) < o[argmaxFirst o]) := by
  have hi := argmaxFirst_lt o hne
  have hc : argmaxFirst o < classes.length := by omega
  refine ⟨hi, classes[argmaxFirst o], List.getElem_mem hc, ?_, ?_, ?_, ?_⟩
  · simp [predictMultiLabel, labelAt, hc]
  · simp [hc]
  · intro v hv; rw [argmaxFirst_spec o hne]; exact le_maxOf o v hv
  · intro j hj; rw [argmaxFirst_spec o hne]; exact argmaxFirst_first o j hj (by omega)


/- non-vacuity: four classes, an exact tie between positions 1 and 2: the FIRST one (class 5) wins -/
example : ∃ (_ : argmaxFirst [1/4, 1/2, 1/2, 0] < 4) (c : Int), c ∈ [3, 5, 7, 9] ∧
    predictMultiLabel [3, 5, 7, 9] [1/4, 1/2, 1/2, 0] = some c := by
  obtain ⟨hi, c, h1, h2, _⟩ := predict_multi [3, 5, 7, 9] [1/4, 1/2, 1/2, 0] (by decide) (by decide)
  exact ⟨hi, c, h1, h2⟩

/-! ### the tie to the source: the configuration LIFTED from `fit` / `partial_fit` / `predict`
(`Generated/AdvScheduleSrc.lean`, rewritten from /repo on every run by harness/lifters/adv_schedule.py).
`SchedL.fitSrc` interprets the lifted statement order, expressions, stop rule and exits; the theorems below are the
clauses of the property for THAT interpreter, so an edit of the source re-checks them, breaks them, or is refused. -/

section Lifted
open SchedL SchedCfg
set_option linter.unusedTactic false
set_option linter.unreachableTactic false

/-- the rejection guard: `self.epochs == -1 and self.max_iter == -1` -/
theorem lifted_rejects : AdvScheduleSrc.rejects = reference.rejects := by
  first
  | rfl
  | (funext e m; simp only [AdvScheduleSrc.rejects, reference]; grind)

/-- `batch_size = X.shape[0] if self.batch_size == -1 else self.batch_size` -/
theorem lifted_batchSize : AdvScheduleSrc.batchSize = reference.batchSize := by
  first
  | rfl
  | (funext s n; simp only [AdvScheduleSrc.batchSize, reference]; grind)

/-- `batches = ceil(X.shape[0] / batch_size)` -/
theorem lifted_batches : AdvScheduleSrc.batches = reference.batches := by
  first
  | rfl
  | (funext n b; simp only [AdvScheduleSrc.batches, reference])

/-- `epochs = ceil(self.max_iter / batches) if self.epochs == -1 else self.epochs` -/
theorem lifted_epochs : AdvScheduleSrc.epochs = reference.epochs := by
  first
  | rfl
  | (funext e m b; simp only [AdvScheduleSrc.epochs, reference]; grind)

/-- `batch_slice = slice(batch * batch_size, min((batch + 1) * batch_size, X.shape[0]))` -/
theorem lifted_slice : AdvScheduleSrc.sliceLo = reference.sliceLo ∧ AdvScheduleSrc.sliceHi = reference.sliceHi := by
  constructor
  · first
    | rfl
    | (funext k b n; simp only [AdvScheduleSrc.sliceLo, reference]; grind)
  · first
    | rfl
    | (funext k b n; simp only [AdvScheduleSrc.sliceHi, reference]; grind)

/-- `self.n_iter_ = 0` before the loops, `self.n_iter_ += 1` after each train step, and the callbacks get
    `step=self.n_iter_` -/
theorem lifted_counter : AdvScheduleSrc.nIterInit = 0 ∧ AdvScheduleSrc.incIter = reference.incIter ∧
    AdvScheduleSrc.cbStep = reference.cbStep := by
  refine ⟨by first | rfl | (simp only [AdvScheduleSrc.nIterInit]), ?_, ?_⟩
  · first
    | rfl
    | (funext i; simp only [AdvScheduleSrc.incIter, reference]; omega)
  · first
    | rfl
    | (funext i; simp only [AdvScheduleSrc.cbStep, reference]; omega)

/-- `if self.max_iter != -1 and self.n_iter_ >= self.max_iter: return self` -/
theorem lifted_hitMax : AdvScheduleSrc.hitMax = reference.hitMax ∧ AdvScheduleSrc.exitMax = .returnSelf := by
  constructor
  · first
    | rfl
    | (funext m i; simp only [AdvScheduleSrc.hitMax, reference]; grind)
  · decide

/-- `stop = False; for cb in self.callbacks_: ...; stop = stop or result; if stop: return self`
    (ALL callbacks run; any True stops; both loops are left) -/
theorem lifted_stop_rule : AdvScheduleSrc.stopInit = false ∧ AdvScheduleSrc.stopAcc = .orAcc ∧
    AdvScheduleSrc.exitStop = .returnSelf := by decide

/-- order of the batch-loop body: train step, THEN the counter, THEN the max_iter test, THEN the callbacks -/
theorem lifted_body_order : AdvScheduleSrc.body = [.train, .incIter, .checkMax, .callbacks] := by decide

/-- the configuration lifted from the source is the documented reference configuration -/
theorem lifted_cfg : AdvScheduleSrc.cfg = SchedCfg.reference := by
  have h : AdvScheduleSrc.cfg = ⟨AdvScheduleSrc.rejects, AdvScheduleSrc.batchSize, AdvScheduleSrc.batches,
    AdvScheduleSrc.epochs, AdvScheduleSrc.nIterInit, AdvScheduleSrc.sliceLo, AdvScheduleSrc.sliceHi,
    AdvScheduleSrc.incIter, AdvScheduleSrc.hitMax, AdvScheduleSrc.exitMax, AdvScheduleSrc.stopInit,
    AdvScheduleSrc.stopAcc, AdvScheduleSrc.cbStep, AdvScheduleSrc.exitStop, AdvScheduleSrc.body⟩ := rfl
  rw [h, lifted_rejects, lifted_batchSize, lifted_batches, lifted_epochs, lifted_slice.1, lifted_slice.2,
    lifted_counter.1, lifted_counter.2.1, lifted_counter.2.2, lifted_hitMax.1, lifted_hitMax.2, lifted_stop_rule.1,
    lifted_stop_rule.2.1, lifted_stop_rule.2.2, lifted_body_order]
  rfl

/-- shuffle: once per epoch, before the batch loop, only under `if self.shuffle:` (so `shuffle=False` never permutes) -/
theorem lifted_shuffle_placement : AdvScheduleSrc.shuffleAt = .perEpoch ∧ AdvScheduleSrc.shuffleGuarded = true := by
  decide

/-- `partial_fit` performs exactly one `train_step`, on the validated (X, y, A) it was given -/
theorem lifted_partial_fit_single_step : AdvScheduleSrc.partialFitTrainSteps = 1 := by decide

/-- stop predicate of a callback list: some callback returns True at step `k` -/
def anyStop (cbs : List (Int → Bool)) : Nat → Bool := fun k => cbs.any (fun cb => cb (k : Int))

/-- MAIN TIE. `fit` as interpreted from the source (lifted order, expressions, stop rule), for `n ≥ 1` rows, any
    batch_size / epochs / max_iter (positive or unset) and ANY list of callbacks: it is rejected exactly when both epochs
    and max_iter are unset; otherwise the trained state is the left fold of the single-step entry point (`partial_fit`)
    over the slices of the flat schedule, `n_iter_` is the number of scheduled steps and the recorded callback
    invocations are exactly: after every step that does not exhaust max_iter, every callback, in order, with that
    step's number. -/
theorem src_fit_eq_fold_partial_fit {σ : Type} (n : Nat) (bs ep mi : Option Nat) (cbs : List (Int → Bool))
    (ts : σ → Nat → Nat → σ) (s0 : σ) (hn : 0 < n) (hbs : ∀ k, bs = some k → 0 < k) :
    match schedule n bs ep mi (!cbs.isEmpty) (anyStop cbs) with
    | none => fitSrc n (enc bs) (enc ep) (enc mi) cbs ts s0 = none
    | some steps => ∃ st, fitSrc n (enc bs) (enc ep) (enc mi) cbs ts s0 = some st ∧
        st.state = partialFitSeq ts s0 steps ∧ st.nIter = (steps.length : Int) ∧
        st.calls = callsOf cbs.length steps := by
  unfold fitSrc
  rw [lifted_cfg]
  exact fit_reference n bs ep mi cbs ts s0 hn hbs

/- non-vacuity of the MAIN TIE: n = 7, batch_size = 3, epochs = 2, max_iter = 5, TWO callbacks (the second says True at
   step 4), a recording state: both side conditions hold and the schedule branch taken is `some` with 4 steps -/
example : ∃ st, fitSrc 7 (enc (some 3)) (enc (some 2)) (enc (some 5)) [fun _ => false, fun k => k == 4]
      (fun (l : List (Nat × Nat)) lo hi => l ++ [(lo, hi)]) [] = some st ∧
    st.state = [(0, 3), (3, 6), (6, 7), (0, 3)] ∧ st.nIter = 4 ∧
    st.calls = [(0, 1), (1, 1), (0, 2), (1, 2), (0, 3), (1, 3), (0, 4), (1, 4)] := by
  have h := src_fit_eq_fold_partial_fit 7 (some 3) (some 2) (some 5) [fun _ => false, fun k => k == 4]
    (fun (l : List (Nat × Nat)) lo hi => l ++ [(lo, hi)]) [] (by decide) (by intro k h; cases h; decide)
  have hs : schedule 7 (some 3) (some 2) (some 5) (![fun _ => false, fun (k : Int) => k == 4].isEmpty)
      (anyStop [fun _ => false, fun k => k == 4]) =
      some [⟨0, 3, 1, true⟩, ⟨3, 6, 2, true⟩, ⟨6, 7, 3, true⟩, ⟨0, 3, 4, true⟩] := by decide +kernel
  rw [hs] at h
  obtain ⟨st, h1, h2, h3, h4⟩ := h
  refine ⟨st, h1, ?_, ?_, ?_⟩
  · rw [h2]; decide +kernel
  · rw [h3]; rfl
  · rw [h4]; decide +kernel

/-- both unset: ValueError, no step is made -/
theorem src_both_unset_rejected {σ : Type} (n : Nat) (bs : Option Nat) (cbs : List (Int → Bool))
    (ts : σ → Nat → Nat → σ) (s0 : σ) (hn : 0 < n) (hbs : ∀ k, bs = some k → 0 < k) :
    fitSrc n (enc bs) (-1) (-1) cbs ts s0 = none := by
  have := src_fit_eq_fold_partial_fit n bs none none cbs ts s0 hn hbs
  rw [both_unset_rejected] at this
  exact this

example : fitSrc 7 (enc (some 3)) (-1) (-1) [fun _ => false] (fun (l : List (Nat × Nat)) lo hi => l ++ [(lo, hi)]) [] = none :=
  src_both_unset_rejected 7 (some 3) _ _ [] (by decide) (by intro k h; cases h; decide)

/-- `epochs * ceil(n / batch_size)`, or `max_iter` if that is smaller -/
def plannedSteps (n e : Nat) (bs mi : Option Nat) : Nat :=
  match mi with
  | none => e * ceilDiv n (batchSizeOf n bs)
  | some m => min (e * ceilDiv n (batchSizeOf n bs)) m

/-- number of steps of the lifted `fit` when no callback ever returns True: `epochs * ceil(n / batch_size)`, or
    `max_iter` if smaller -/
theorem src_steps_count {σ : Type} (n e : Nat) (bs mi : Option Nat) (cbs : List (Int → Bool))
    (ts : σ → Nat → Nat → σ) (s0 : σ) (hn : 0 < n) (hbs : ∀ k, bs = some k → 0 < k) (hmi : ∀ m, mi = some m → 0 < m)
    (hstop : ∀ k, anyStop cbs k = false) :
    ∃ st, fitSrc n (enc bs) (e : Int) (enc mi) cbs ts s0 = some st ∧ st.nIter = (plannedSteps n e bs mi : Int) := by
  have h := src_fit_eq_fold_partial_fit n bs (some e) mi cbs ts s0 hn hbs
  cases hs : schedule n bs (some e) mi (!cbs.isEmpty) (anyStop cbs) with
  | none => simp [schedule, epochsOf] at hs
  | some steps =>
    rw [hs] at h
    obtain ⟨st, h1, _, h3, _⟩ := h
    refine ⟨st, h1, ?_⟩
    have hc := steps_count n e bs mi _ _ steps (by intro k; simp [hstop k]) hmi hs
    rw [h3]
    congr 1
    cases mi <;> simpa [plannedSteps] using hc

/- non-vacuity: all four hypotheses at once (one callback that never says True); planned = min(2·3, 5) = 5 -/
example : ∃ st, fitSrc 7 (enc (some 3)) ((2 : Nat) : Int) (enc (some 5)) [fun _ => false]
      (fun (l : List (Nat × Nat)) lo hi => l ++ [(lo, hi)]) [] = some st ∧
    st.nIter = ((plannedSteps 7 2 (some 3) (some 5) : Nat) : Int) :=
  src_steps_count 7 2 (some 3) (some 5) [fun _ => false] _ [] (by decide) (by intro k h; cases h; decide)
    (by intro m h; cases h; decide) (by intro k; simp [anyStop])
example : plannedSteps 7 2 (some 3) (some 5) = 5 ∧ plannedSteps 7 2 (some 3) none = 6 ∧ plannedSteps 7 2 none (some 5) = 2 := by
  decide +kernel

/-- REVIEW R2 — `epochs = -1` for the lifted `fit`: exactly `max_iter` steps (the lifted `ceil(max_iter / batches)` epochs
    always suffice), when no callback ever returns True -/
theorem src_steps_count_epochs_auto {σ : Type} (n m : Nat) (bs : Option Nat) (cbs : List (Int → Bool))
    (ts : σ → Nat → Nat → σ) (s0 : σ) (hn : 0 < n) (hbs : ∀ k, bs = some k → 0 < k) (hm : 0 < m)
    (hstop : ∀ k, anyStop cbs k = false) :
    ∃ st, fitSrc n (enc bs) (-1) (m : Int) cbs ts s0 = some st ∧ st.nIter = (m : Int) := by
  have hb : 0 < batchSizeOf n bs := by
    cases bs with
    | none => exact hn
    | some k => exact hbs k rfl
  have h := src_fit_eq_fold_partial_fit n bs none (some m) cbs ts s0 hn hbs
  cases hs : schedule n bs none (some m) (!cbs.isEmpty) (anyStop cbs) with
  | none => simp [schedule, epochsOf] at hs
  | some steps =>
    rw [hs] at h
    obtain ⟨st, h1, _, h3, _⟩ := h
    refine ⟨st, h1, ?_⟩
    rw [h3, steps_count_epochs_auto n m bs _ _ steps hn hb hm (by intro k; simp [hstop k]) hs]

example : ∃ st, fitSrc 7 (enc (some 3)) (-1) ((5 : Nat) : Int) [fun _ => false]
    (fun (l : List (Nat × Nat)) lo hi => l ++ [(lo, hi)]) [] = some st ∧ st.nIter = ((5 : Nat) : Int) :=
  src_steps_count_epochs_auto 7 5 (some 3) [fun _ => false] _ [] (by decide) (by intro k h; cases h; decide) (by decide)
    (by intro k; simp [anyStop])

/-- the slices of one epoch, computed from the LIFTED slice / batches / batch-size expressions, are consecutive,
    non-empty and cover rows `0 .. n` exactly -/
theorem src_slices_consecutive_cover (n : Nat) (bs : Option Nat) (hn : 0 < n) (hbs : ∀ k, bs = some k → 0 < k) :
    Covers 0 (epochSlicesSrc AdvScheduleSrc.cfg n (enc bs)) n := by
  have hb : 0 < batchSizeOf n bs := by
    cases bs with
    | none => exact hn
    | some k => exact hbs k rfl
  rw [lifted_cfg, epochSlicesSrc_ref n bs hn hbs]
  exact slices_consecutive_cover n _ hn hb

example : Covers 0 (epochSlicesSrc AdvScheduleSrc.cfg 7 (enc (some 3))) 7 :=
  src_slices_consecutive_cover 7 (some 3) (by decide) (by intro k h; cases h; decide)

/-- callbacks of the lifted `fit`: invoked after every completed step except one that exhausts max_iter, every
    callback of the list in order, with step numbers 1, 2, … -/
theorem src_callbacks_numbered {σ : Type} (n : Nat) (bs ep mi : Option Nat) (cbs : List (Int → Bool))
    (ts : σ → Nat → Nat → σ) (s0 : σ) (st : St σ) (hn : 0 < n) (hbs : ∀ k, bs = some k → 0 < k)
    (h : fitSrc n (enc bs) (enc ep) (enc mi) cbs ts s0 = some st) :
    ∃ steps, schedule n bs ep mi (!cbs.isEmpty) (anyStop cbs) = some steps ∧
      st.calls = callsOf cbs.length steps ∧
      steps.map (·.stepNo) = List.range' 1 steps.length ∧
      (∀ s ∈ steps, s.callbackFired = (!cbs.isEmpty && !hitMax mi s.stepNo)) := by
  have h0 := src_fit_eq_fold_partial_fit n bs ep mi cbs ts s0 hn hbs
  cases hs : schedule n bs ep mi (!cbs.isEmpty) (anyStop cbs) with
  | none => rw [hs] at h0; rw [h0] at h; cases h
  | some steps =>
    rw [hs] at h0
    obtain ⟨st', h1, _, _, h4⟩ := h0
    rw [h1] at h; cases h
    exact ⟨steps, rfl, h4, callbacks_numbered n bs ep mi _ _ steps hs, callback_fired_iff n bs ep mi _ _ steps hs⟩

/- non-vacuity: the hypothesis `fitSrc … = some st` is met (two callbacks, max_iter = 5 ends the run) -/
example : ∃ steps, schedule 7 (some 3) (some 2) (some 5) (![fun _ => false, fun (_ : Int) => false].isEmpty)
    (anyStop [fun _ => false, fun _ => false]) = some steps ∧ steps.map (·.stepNo) = List.range' 1 steps.length := by
  obtain ⟨st, h⟩ := Option.isSome_iff_exists.mp (show (fitSrc 7 (enc (some 3)) (enc (some 2)) (enc (some 5))
    [fun _ => false, fun _ => false] (fun (l : List (Nat × Nat)) lo hi => l ++ [(lo, hi)]) []).isSome = true by decide +kernel)
  obtain ⟨steps, h1, _, h3, _⟩ := src_callbacks_numbered 7 (some 3) (some 2) (some 5) _ _ [] st (by decide)
    (by intro k h; cases h; decide) h
  exact ⟨steps, h1, h3⟩

/-- the lifted `fit` stops at the first step at which some callback returns True -/
theorem src_stops_at_first_true {σ : Type} (n k e : Nat) (bs ep mi : Option Nat) (cbs : List (Int → Bool))
    (ts : σ → Nat → Nat → σ) (s0 : σ) (hn : 0 < n) (hbs : ∀ k, bs = some k → 0 < k)
    (he : epochsOf ep mi (batchesOf n (batchSizeOf n bs)) = some e)
    (hk0 : 0 < k) (hk : k ≤ e * ceilDiv n (batchSizeOf n bs)) (hs : anyStop cbs k = true)
    (hbefore : ∀ j, 0 < j → j < k → anyStop cbs j = false) (hmi : ∀ m, mi = some m → k < m) :
    ∃ st, fitSrc n (enc bs) (enc ep) (enc mi) cbs ts s0 = some st ∧ st.nIter = (k : Int) := by
  have hne : cbs.isEmpty = false := by
    cases cbs with
    | nil => simp [anyStop] at hs
    | cons _ _ => rfl
  have h0 := src_fit_eq_fold_partial_fit n bs ep mi cbs ts s0 hn hbs
  cases hsch : schedule n bs ep mi (!cbs.isEmpty) (anyStop cbs) with
  | none => simp [schedule, he] at hsch
  | some steps =>
    rw [hsch] at h0
    obtain ⟨st, h1, _, h3, _⟩ := h0
    refine ⟨st, h1, ?_⟩
    rw [hne] at hsch
    have := stops_at_first_true n k bs ep mi (anyStop cbs) steps e hsch he hk0 hk hs hbefore hmi
    rw [h3, this.1]

/- non-vacuity: all eight hypotheses at once — two callbacks, the SECOND says True at steps 4 and 6; 6 steps planned;
   max_iter = 9 -/
example : ∃ st, fitSrc 7 (enc (some 3)) (enc (some 2)) (enc (some 9)) [fun _ => false, fun k => k == 4 || k == 6]
    (fun (l : List (Nat × Nat)) lo hi => l ++ [(lo, hi)]) [] = some st ∧ st.nIter = ((4 : Nat) : Int) :=
  src_stops_at_first_true 7 4 2 (some 3) (some 2) (some 9) [fun _ => false, fun k => k == 4 || k == 6] _ []
    (by decide) (by intro k h; cases h; decide) (by decide +kernel) (by decide) (by decide +kernel) (by decide +kernel)
    (by intro j h0 h4; have : j = 1 ∨ j = 2 ∨ j = 3 := (by omega); rcases this with rfl | rfl | rfl <;> decide +kernel)
    (by intro m h; cases h; decide)

/-! #### one `fit` = the fold of the CONCRETE training step over the scheduled slices -/

/-- `fit` as interpreted from the source, run with the concrete `train_step` of the engine (`AdvStep.trainStep`: the
    projected-gradient rule for every predictor tensor, the plain gradient for every adversary tensor, any optimisers,
    autograd as the parameter `G`): the model after `fit` is the left fold of that step over the scheduled slices — the
    same model as after issuing these slices one by one through `partial_fit`. -/
theorem src_fit_is_fold_of_train_steps {τP τA : Type} (eng : Adversarial.Mat → Adversarial.Mat → Rat → Option Adversarial.Mat)
    (α : Rat) (optP : AdvStep.Opt τP) (optA : AdvStep.Opt τA)
    (G : List Adversarial.Mat → List Adversarial.Mat → Nat → Nat → AdvStep.Grads)
    (n : Nat) (bs ep mi : Option Nat) (cbs : List (Int → Bool)) (m0 : AdvStep.Model τP τA)
    (hn : 0 < n) (hbs : ∀ k, bs = some k → 0 < k) :
    match schedule n bs ep mi (!cbs.isEmpty) (anyStop cbs) with
    | none => fitSrc n (enc bs) (enc ep) (enc mi) cbs (AdvStep.trainStep eng α optP optA G) (some m0) = none
    | some steps => ∃ st, fitSrc n (enc bs) (enc ep) (enc mi) cbs (AdvStep.trainStep eng α optP optA G) (some m0) = some st ∧
        st.state = steps.foldl (fun m s => AdvStep.trainStep eng α optP optA G m s.lo s.hi) (some m0) ∧
        st.nIter = (steps.length : Int) := by
  have h := src_fit_eq_fold_partial_fit n bs ep mi cbs (AdvStep.trainStep eng α optP optA G) (some m0) hn hbs
  cases hs : schedule n bs ep mi (!cbs.isEmpty) (anyStop cbs) with
  | none => rw [hs] at h; exact h
  | some steps =>
    rw [hs] at h
    obtain ⟨st, h1, h2, h3, _⟩ := h
    exact ⟨st, h1, h2, h3⟩

/-- REVIEW R2 — the function the driver op `advstep.fit` evaluates (C16 correspondence, kind=fit): `fitSrc` folded over the
    TABLE-driven step `AdvStep.trainStepRec` (one recorded autograd triple per executed step, plain SGD).  With at least as
    many records as scheduled steps the resulting model is the fold of `AdvStep.step` over the first `n_iter_` records, in
    order; the unused records remain.  (With fewer records the result is the undefined model:
    `AdvStep.partialFitSeq_trainStepRec_exhausted`.) -/
theorem src_fit_recorded_is_fold_of_steps (eng : Adversarial.Mat → Adversarial.Mat → Rat → Option Adversarial.Mat)
    (α lrP lrA : Rat) (n : Nat) (bs ep mi : Option Nat) (m0 : AdvStep.Model Unit Unit) (gs : List AdvStep.Grads)
    (steps : List Step) (hn : 0 < n) (hbs : ∀ k, bs = some k → 0 < k)
    (hs : schedule n bs ep mi false (anyStop []) = some steps) (hlen : steps.length ≤ gs.length) :
    ∃ st, fitSrc n (enc bs) (enc ep) (enc mi) [] (AdvStep.trainStepRec eng α lrP lrA) (some m0, gs) = some st ∧
      st.state = ((gs.take steps.length).foldl (AdvStep.stepOpt eng α lrP lrA) (some m0), gs.drop steps.length) ∧
      st.nIter = (steps.length : Int) := by
  have h := src_fit_eq_fold_partial_fit n bs ep mi [] (AdvStep.trainStepRec eng α lrP lrA) (some m0, gs) hn hbs
  simp only [List.isEmpty_nil, Bool.not_true] at h
  rw [hs] at h
  obtain ⟨st, h1, h2, h3, _⟩ := h
  exact ⟨st, h1, by rw [h2, AdvStep.partialFitSeq_trainStepRec eng α lrP lrA steps gs (some m0) hlen], h3⟩

/- non-vacuity: n = 4, batch_size = 2, one epoch: two steps, THREE records (the third stays unused); 1x1 tensors,
   dLA/dW = 0 in the first step (zero branch), non-zero in the second -/
example : ∃ st, fitSrc 4 (enc (some 2)) (enc (some 1)) (enc none) [] (AdvStep.trainStepRec Adversarial.torchStep 1 (1/2) (1/4))
      (some ⟨⟨[[[1]]], [()]⟩, ⟨[[[2]]], [()]⟩⟩, [⟨[[[1]]], [[[0]]], [[[4]]]⟩, ⟨[[[1]]], [[[2]]], [[[0]]]⟩, ⟨[[[7]]], [[[7]]], [[[7]]]⟩]) = some st ∧
    st.nIter = ((2 : Nat) : Int) ∧ st.state.2.length = 1 := by
  obtain ⟨st, h1, h2, h3⟩ := src_fit_recorded_is_fold_of_steps Adversarial.torchStep 1 (1/2) (1/4) 4 (some 2) (some 1) none
    ⟨⟨[[[1]]], [()]⟩, ⟨[[[2]]], [()]⟩⟩ [⟨[[[1]]], [[[0]]], [[[4]]]⟩, ⟨[[[1]]], [[[2]]], [[[0]]]⟩, ⟨[[[7]]], [[[7]]], [[[7]]]⟩]
    [⟨0, 2, 1, false⟩, ⟨2, 4, 2, false⟩] (by decide) (by intro k h; cases h; decide) (by decide +kernel) (by decide)
  exact ⟨st, h1, h3, by rw [h2]; rfl⟩
example : (([(⟨[[[1]]], [[[0]]], [[[4]]]⟩ : AdvStep.Grads), ⟨[[[1]]], [[[2]]], [[[0]]]⟩].foldl
    (AdvStep.stepOpt Adversarial.torchStep 1 (1/2) (1/4)) (some ⟨⟨[[[1]]], [()]⟩, ⟨[[[2]]], [()]⟩⟩)).map
    (fun m => (m.pred.params, m.adv.params))) = some ([[[3/2]]], [[[1]]]) := by decide +kernel

/-! #### life cycle around the schedule: which call (re-)initialises the models (`Model/SchedLife.lean`) -/

section Lifecycle
open SchedLife

/-- the latch conditions as lifted from `fit`, `partial_fit`, `_validate_input`, `_raw_predict` -/
theorem lifted_lifecycle :
    (∀ h w, AdvScheduleSrc.fitReinit h w = (!h || !w)) ∧
    (∀ h, AdvScheduleSrc.partialFitFirstCall h = !h) ∧
    (∀ f c, AdvScheduleSrc.partialFitSetsClasses f c = (f && c)) ∧
    (∀ f r, AdvScheduleSrc.setupWhen f r = (!f || r)) ∧
    AdvScheduleSrc.rawPredictChecksFitted = true ∧
    AdvScheduleSrc.fitValidatesBeforeReject = true := by
  refine ⟨?_, ?_, ?_, ?_, by decide, by decide⟩
  · intro h w; cases h <;> cases w <;> decide
  · intro h; cases h <;> decide
  · intro f c; cases f <;> cases c <;> decide
  · intro f r; cases f <;> cases r <;> decide

/-- `predict` on an estimator that was never fitted raises NotFittedError -/
theorem predict_before_fit_rejected {σ : Type} : predict (fresh : Est σ) = .notFitted := by
  simp [predict, fresh, lifted_lifecycle.2.2.2.2.1]

/-- the FIRST `partial_fit` call builds the models (engine no. 1) and makes exactly one training step on them -/
theorem partial_fit_first_call_sets_up {σ : Type} (init : Nat → σ) (ts : σ → Nat → Nat → σ) (lo hi : Nat) (cg : Bool) :
    partialFit init ts fresh lo hi cg = (⟨true, true, some (ts (init 1) lo hi), 1, none⟩, .ok) := by
  obtain ⟨_, h2, h3, h4, _, _⟩ := lifted_lifecycle
  have h1 : AdvScheduleSrc.partialFitTrainSteps = 1 := lifted_partial_fit_single_step
  cases cg <;> simp [partialFit, fresh, validateInput, h2, h3, h4, h1, trainTimes]

/-- every later `partial_fit` call continues on the SAME models: one more step, no new engine, latches unchanged -/
theorem partial_fit_later_calls_continue {σ : Type} (init : Nat → σ) (ts : σ → Nat → Nat → σ) (m : σ) (g : Nat)
    (k : Option Int) (lo hi : Nat) (cg : Bool) :
    partialFit init ts ⟨true, true, some m, g, k⟩ lo hi cg = (⟨true, true, some (ts m lo hi), g, k⟩, .ok) := by
  obtain ⟨_, h2, h3, h4, _, _⟩ := lifted_lifecycle
  have h1 : AdvScheduleSrc.partialFitTrainSteps = 1 := lifted_partial_fit_single_step
  cases cg <;> simp [partialFit, validateInput, h2, h3, h4, h1, trainTimes]

/-- a list of slices issued through `partial_fit` on an already set-up estimator = the fold of the single step -/
theorem partialFitAll_continue {σ : Type} (init : Nat → σ) (ts : σ → Nat → Nat → σ) (steps : List Step) (m : σ) (g : Nat)
    (k : Option Int) :
    partialFitAll init ts ⟨true, true, some m, g, k⟩ steps = ⟨true, true, some (partialFitSeq ts m steps), g, k⟩ := by
  induction steps generalizing m with
  | nil => rfl
  | cons s rest ih =>
    simp only [partialFitAll, List.foldl_cons, partial_fit_later_calls_continue, partialFitSeq] at ih ⊢
    exact ih (ts m s.lo s.hi)

/-- `fit` with `warm_start = False` ALWAYS starts from newly initialised models (engine no. `gen + 1`), whatever
    happened to the estimator before; `n_iter_` counts the steps of THIS call -/
theorem fit_cold_start {σ : Type} (init : Nat → σ) (ts : σ → Nat → Nat → σ) (e : Est σ) (n : Nat) (bs ep mi : Option Nat)
    (cbs : List (Int → Bool)) (steps : List Step) (hn : 0 < n) (hbs : ∀ k, bs = some k → 0 < k)
    (hs : schedule n bs ep mi (!cbs.isEmpty) (anyStop cbs) = some steps) :
    SchedLife.fit init ts e n (enc bs) (enc ep) (enc mi) false cbs =
      (⟨true, true, some (partialFitSeq ts (init (e.gen + 1)) steps), e.gen + 1, some (steps.length : Int)⟩, .ok) := by
  obtain ⟨h1, _, _, h4, _, h6⟩ := lifted_lifecycle
  have hf := src_fit_eq_fold_partial_fit n bs ep mi cbs ts (init (e.gen + 1)) hn hbs
  rw [hs] at hf
  obtain ⟨st, hst, hs1, hs2, _⟩ := hf
  simp [SchedLife.fit, h6, validateInput, h1, h4, hst, hs1, hs2]

/- non-vacuity: an estimator that already built 3 engines; n = 4, batch_size = 2, one epoch: all three hypotheses -/
example : SchedLife.fit (fun g => (g, ([] : List (Nat × Nat)))) (fun m lo hi => (m.1, m.2 ++ [(lo, hi)]))
      ⟨true, true, some (3, [(0, 9)]), 3, some 7⟩ 4 (enc (some 2)) (enc (some 1)) (enc none) false [] =
    (⟨true, true, some (partialFitSeq (fun m lo hi => (m.1, m.2 ++ [(lo, hi)])) (4, [])
      [⟨0, 2, 1, false⟩, ⟨2, 4, 2, false⟩]), 4, some 2⟩, .ok) :=
  fit_cold_start _ _ ⟨true, true, some (3, [(0, 9)]), 3, some 7⟩ 4 (some 2) (some 1) none [] _ (by decide)
    (by intro k h; cases h; decide) (by decide +kernel)

/-- `fit` with `warm_start = True` on an estimator that was fitted before CONTINUES on the current models (no new
    engine); `n_iter_` restarts and counts the steps of this call -/
theorem fit_warm_start_continues {σ : Type} (init : Nat → σ) (ts : σ → Nat → Nat → σ) (m : σ) (g : Nat) (k : Option Int)
    (n : Nat) (bs ep mi : Option Nat) (cbs : List (Int → Bool)) (steps : List Step) (hn : 0 < n)
    (hbs : ∀ k, bs = some k → 0 < k) (hs : schedule n bs ep mi (!cbs.isEmpty) (anyStop cbs) = some steps) :
    SchedLife.fit init ts ⟨true, true, some m, g, k⟩ n (enc bs) (enc ep) (enc mi) true cbs =
      (⟨true, true, some (partialFitSeq ts m steps), g, some (steps.length : Int)⟩, .ok) := by
  obtain ⟨h1, _, _, h4, _, h6⟩ := lifted_lifecycle
  have hf := src_fit_eq_fold_partial_fit n bs ep mi cbs ts m hn hbs
  rw [hs] at hf
  obtain ⟨st, hst, hs1, hs2, _⟩ := hf
  simp [SchedLife.fit, h6, validateInput, h1, h4, hst, hs1, hs2]

example : SchedLife.fit (fun g => (g, ([] : List (Nat × Nat)))) (fun m lo hi => (m.1, m.2 ++ [(lo, hi)]))
      ⟨true, true, some (3, [(0, 9)]), 3, some 7⟩ 4 (enc (some 2)) (enc (some 1)) (enc none) true [] =
    (⟨true, true, some (partialFitSeq (fun m lo hi => (m.1, m.2 ++ [(lo, hi)])) (3, [(0, 9)])
      [⟨0, 2, 1, false⟩, ⟨2, 4, 2, false⟩]), 3, some 2⟩, .ok) :=
  fit_warm_start_continues _ _ (3, [(0, 9)]) 3 (some 7) 4 (some 2) (some 1) none [] _ (by decide)
    (by intro k h; cases h; decide) (by decide +kernel)

/-- a rejected configuration (epochs and max_iter unset) raises ValueError — but only AFTER `_validate_input` has set the
    estimator up (the guard stands behind it in the source), so the estimator then counts as fitted -/
theorem fit_rejected_after_setup {σ : Type} (init : Nat → σ) (ts : σ → Nat → Nat → σ) (n : Nat) (bs : Option Nat)
    (warm : Bool) (cbs : List (Int → Bool)) (hn : 0 < n) (hbs : ∀ k, bs = some k → 0 < k) :
    SchedLife.fit init ts fresh n (enc bs) (-1) (-1) warm cbs = (⟨true, true, some (init 1), 1, none⟩, .valueError) := by
  obtain ⟨h1, _, _, h4, _, h6⟩ := lifted_lifecycle
  have hf := src_both_unset_rejected (σ := σ) n bs cbs ts (init 1) hn hbs
  cases warm <;> simp [SchedLife.fit, fresh, h6, validateInput, h1, h4, hf]

example : SchedLife.fit (fun g => (g, ([] : List (Nat × Nat)))) (fun m lo hi => (m.1, m.2 ++ [(lo, hi)])) fresh 4
    (enc (some 2)) (-1) (-1) true [] = (⟨true, true, some (1, []), 1, none⟩, .valueError) :=
  fit_rejected_after_setup _ _ 4 (some 2) true [] (by decide) (by intro k h; cases h; decide)

/-- THE HISTORY CLAUSE, with the first-call set-up included: on two identically configured, never fitted estimators
    (same `init`), `fit` and the same slices issued one by one through `partial_fit` leave the same models, both on their
    first engine. -/
theorem fit_eq_partial_fit_twin {σ : Type} (init : Nat → σ) (ts : σ → Nat → Nat → σ) (n : Nat) (bs ep mi : Option Nat)
    (warm : Bool) (cbs : List (Int → Bool)) (steps : List Step) (hn : 0 < n) (hbs : ∀ k, bs = some k → 0 < k)
    (hs : schedule n bs ep mi (!cbs.isEmpty) (anyStop cbs) = some steps) (hne : steps ≠ []) :
    (SchedLife.fit init ts fresh n (enc bs) (enc ep) (enc mi) warm cbs).1.model = (partialFitAll init ts fresh steps).model ∧
    (SchedLife.fit init ts fresh n (enc bs) (enc ep) (enc mi) warm cbs).1.gen = 1 ∧ (partialFitAll init ts fresh steps).gen = 1 := by
  obtain ⟨h1, _, _, h4, _, h6⟩ := lifted_lifecycle
  have hf := src_fit_eq_fold_partial_fit n bs ep mi cbs ts (init 1) hn hbs
  rw [hs] at hf
  obtain ⟨st, hst, hs1, hs2, _⟩ := hf
  have hfit : SchedLife.fit init ts fresh n (enc bs) (enc ep) (enc mi) warm cbs =
      (⟨true, true, some (partialFitSeq ts (init 1) steps), 1, some (steps.length : Int)⟩, .ok) := by
    cases warm <;> simp [SchedLife.fit, fresh, h6, validateInput, h1, h4, hst, hs1, hs2]
  cases steps with
  | nil => exact absurd rfl hne
  | cons s rest =>
    have hp : partialFitAll init ts fresh (s :: rest) =
        ⟨true, true, some (partialFitSeq ts (ts (init 1) s.lo s.hi) rest), 1, none⟩ := by
      simp only [partialFitAll, List.foldl_cons, partial_fit_first_call_sets_up]
      exact partialFitAll_continue init ts rest _ 1 none
    rw [hfit, hp]
    simp [partialFitSeq]

/- non-vacuity: n = 5, batch_size = 2, 2 epochs, max_iter = 4: all four hypotheses, a non-empty schedule with a short
   last slice -/
example : (SchedLife.fit (fun g => (g, ([] : List (Nat × Nat)))) (fun m lo hi => (m.1, m.2 ++ [(lo, hi)])) fresh 5
      (enc (some 2)) (enc (some 2)) (enc (some 4)) false []).1.model =
    (partialFitAll (fun g => (g, ([] : List (Nat × Nat)))) (fun m lo hi => (m.1, m.2 ++ [(lo, hi)])) fresh
      [⟨0, 2, 1, false⟩, ⟨2, 4, 2, false⟩, ⟨4, 5, 3, false⟩, ⟨0, 2, 4, false⟩]).model :=
  (fit_eq_partial_fit_twin _ _ 5 (some 2) (some 2) (some 4) false [] _ (by decide) (by intro k h; cases h; decide)
    (by decide +kernel) (by simp)).1
example : (partialFitAll (fun g => (g, ([] : List (Nat × Nat)))) (fun m lo hi => (m.1, m.2 ++ [(lo, hi)])) fresh
    [⟨0, 2, 1, false⟩, ⟨2, 4, 2, false⟩, ⟨4, 5, 3, false⟩, ⟨0, 2, 4, false⟩]).model =
    some (1, [(0, 2), (2, 4), (4, 5), (0, 2)]) := by decide +kernel

end Lifecycle

/-! #### predict, from the lifted decision rules -/

/-- binary targets: `(pred >= self.threshold_value)`; default threshold 0.5 -/
theorem src_predict_binary (c0 c1 : Int) (t o : Rat) :
    (t ≤ o → predictBinarySrc [c0, c1] t o = some c1) ∧
    (o < t → predictBinarySrc [c0, c1] t o = some c0) ∧
    AdvScheduleSrc.thresholdDefault = 1 / 2 := by
  have hr : AdvScheduleSrc.binaryRule = .threshold .ge := by decide
  refine ⟨?_, ?_, by first | rfl | (simp only [AdvScheduleSrc.thresholdDefault]; norm_num)⟩
  · intro h
    simp [predictBinarySrc, hr, decideBinary, Cmp.eval, h, labelAt]
  · intro h
    have h2 : ¬ t ≤ o := not_le.mpr h
    simp [predictBinarySrc, hr, decideBinary, Cmp.eval, h2, labelAt]

/-- REVIEW R2 — binary `predict` from the LIFTED rule with the LIFTED default threshold: the positive (larger) class
    EXACTLY WHEN the predictor's output is at least 1/2 -/
theorem src_predict_binary_iff (c0 c1 : Int) (o : Rat) (hne : c0 ≠ c1) :
    (predictBinarySrc [c0, c1] AdvScheduleSrc.thresholdDefault o = some c1 ↔ (1 / 2 : Rat) ≤ o) ∧
    (predictBinarySrc [c0, c1] AdvScheduleSrc.thresholdDefault o = some c0 ↔ o < (1 / 2 : Rat)) := by
  obtain ⟨h1, h2, h3⟩ := src_predict_binary c0 c1 AdvScheduleSrc.thresholdDefault o
  rw [h3] at h1 h2 ⊢
  constructor
  · refine ⟨fun h => ?_, h1⟩
    by_contra hlt
    rw [h2 (not_le.mp hlt)] at h
    exact hne (Option.some.inj h)
  · refine ⟨fun h => ?_, h2⟩
    by_contra hge
    rw [h1 (not_lt.mp hge)] at h
    exact hne (Option.some.inj h).symm

example : (predictBinarySrc [3, 5] AdvScheduleSrc.thresholdDefault (1/2) = some 5 ↔ (1 / 2 : Rat) ≤ 1/2) ∧
    (predictBinarySrc [3, 5] AdvScheduleSrc.thresholdDefault (1/2) = some 3 ↔ (1/2 : Rat) < 1 / 2) :=
  src_predict_binary_iff 3 5 (1/2) (by decide)
example : predictBinarySrc [3, 5] AdvScheduleSrc.thresholdDefault (127/256) = some 3 := by decide +kernel

/-- multiclass targets: the class at the FIRST arg-max position (the lifted rule is numpy's `argmax(pred, axis=1)`) -/
theorem src_predict_multi (classes : List Int) (o : List Rat) :
    predictMultiSrc classes o = predictMultiLabel classes o := by
  have hr : AdvScheduleSrc.multiclassRule = .argmaxRow := by decide
  simp [predictMultiSrc, hr, decideMulti, predictMultiLabel]

/-- REVIEW R2 — multiclass `predict` from the lifted rule returns a MEMBER of the class list: the class at the first
    arg-max position of the outputs -/
theorem src_predict_multi_in_classes (classes : List Int) (o : List Rat) (hne : o ≠ []) (hlen : o.length = classes.length) :
    ∃ c ∈ classes, predictMultiSrc classes o = some c ∧ classes[argmaxFirst o]? = some c ∧
      (∀ v ∈ o, v ≤ maxOf o) ∧ o[argmaxFirst o]? = some (maxOf o) := by
  obtain ⟨hi, c, hc, hp, hcl, _, _⟩ := predict_multi classes o hne hlen
  refine ⟨c, hc, by rw [src_predict_multi]; exact hp, hcl, le_maxOf o, ?_⟩
  rw [List.getElem?_eq_getElem hi, argmaxFirst_spec o hne]

example : ∃ c ∈ [3, 5, 7, 9], predictMultiSrc [3, 5, 7, 9] [1/4, 1/2, 1/2, 0] = some c ∧
    ([3, 5, 7, 9] : List Int)[argmaxFirst [1/4, 1/2, 1/2, 0]]? = some c := by
  obtain ⟨c, h1, h2, h3, _⟩ := src_predict_multi_in_classes [3, 5, 7, 9] [1/4, 1/2, 1/2, 0] (by decide) (by decide)
  exact ⟨c, h1, h2, h3⟩
example : predictMultiSrc [3, 5, 7, 9] [1/4, 1/2, 1/2, 0] = some 5 := by decide +kernel

/-- regression: the raw output; and `predict` = raw output → decision rule → inverse label transform, in this order -/
theorem src_predict_pipeline : AdvScheduleSrc.continuousRule = .identity ∧
    AdvScheduleSrc.predictStages = [.rawPredict, .predictorFunction, .inverseTransform] := by decide

/-! ### the guard of the callback block and the check of the callbacks' results (lifted) -/

/-- the lifted guard is `if self.callbacks_:`, a truthy non-bool result raises RuntimeError, `partial_fit` calls no callback -/
theorem lifted_cb_guard : AdvScheduleSrc.cbGuard = .truthy ∧
    AdvScheduleSrc.cbResultCheck = .truthyNonBool .runtimeError ∧ AdvScheduleSrc.partialFitCallbackCalls = 0 := by decide

/-- the truth values of what the callbacks return -/
def truthyOf (cbs : List (Int → CbRes)) : List (Int → Bool) := cbs.map (fun cb k => (cb k).truthy)

/-- every result of every callback passes the check -/
def AllPass (chk : ResultCheck) (cbs : List (Int → CbRes)) : Prop := ∀ cb ∈ cbs, ∀ k, checkRes chk (cb k) = none

theorem runCbsV_pass (acc : Acc) (chk : ResultCheck) (k : Int) (cbs : List (Int → CbRes)) (h : AllPass chk cbs)
    (i : Nat) (stop : Bool) (calls : List (Nat × Int)) :
    runCbsV acc chk k cbs i stop calls =
      ((runCbs acc k (truthyOf cbs) i stop calls).1, (runCbs acc k (truthyOf cbs) i stop calls).2, none) := by
  induction cbs generalizing i stop calls with
  | nil => rfl
  | cons cb r ih =>
    have h1 : checkRes chk (cb k) = none := h cb (by simp) k
    have h2 : AllPass chk r := fun c hc => h c (by simp [hc])
    simp only [runCbsV, h1, truthyOf, List.map_cons, runCbs]
    exact ih h2 _ _ _

theorem execEvV_pass {σ : Type} (cfg : Cfg) (chk : ResultCheck) (mi : Int) (cbs : List (Int → CbRes))
    (ts : σ → Nat → Nat → σ) (lo hi : Nat) (h : AllPass chk cbs) (s : St σ) (ev : Ev) :
    execEvV cfg .truthy chk mi cbs ts lo hi ⟨s, none⟩ ev = ⟨execEv cfg mi (truthyOf cbs) ts lo hi s ev, none⟩ := by
  cases ev with
  | train => rfl
  | incIter => rfl
  | checkMax => rfl
  | callbacks =>
    have he : (truthyOf cbs).isEmpty = cbs.isEmpty := by cases cbs <;> rfl
    simp only [execEvV, execEv, he]
    cases hc : cbs.isEmpty with
    | true => simp
    | false => simp [cbBlockV, runCbsV_pass _ _ _ _ h]

theorem foldl_sim {α β γ : Type} (f : α → γ → α) (f' : β → γ → β) (emb : α → β)
    (h : ∀ a c, f' (emb a) c = emb (f a c)) (l : List γ) (a : α) :
    l.foldl f' (emb a) = emb (l.foldl f a) := by
  induction l generalizing a with
  | nil => rfl
  | cons c r ih => simp only [List.foldl_cons, h, ih]

theorem bodyStepV_pass {σ : Type} (cfg : Cfg) (chk : ResultCheck) (mi : Int) (cbs : List (Int → CbRes))
    (ts : σ → Nat → Nat → σ) (b n : Int) (h : AllPass chk cbs) (s : St σ) (batch : Nat) :
    bodyStepV cfg .truthy chk mi cbs ts b n ⟨s, none⟩ batch = ⟨bodyStep cfg mi (truthyOf cbs) ts b n s batch, none⟩ := by
  unfold bodyStepV bodyStep
  by_cases hh : (s.returned || s.broke) = true
  · simp [haltedV, hh]
  · have hv : haltedV (⟨s, none⟩ : StV σ) = false := by simpa [haltedV] using hh
    rw [if_neg hh, if_neg (by simp [hv])]
    exact foldl_sim _ _ (fun a => (⟨a, none⟩ : StV σ)) (by
      intro a ev
      by_cases ha : (a.returned || a.broke) = true
      · simp [haltedV, ha]
      · have hv' : haltedV (⟨a, none⟩ : StV σ) = false := by simpa [haltedV] using ha
        rw [if_neg ha, if_neg (by simp [hv'])]
        exact execEvV_pass cfg chk mi cbs ts _ _ h a ev) _ _

theorem epochStepV_pass {σ : Type} (cfg : Cfg) (chk : ResultCheck) (mi : Int) (cbs : List (Int → CbRes))
    (ts : σ → Nat → Nat → σ) (b n bt : Int) (h : AllPass chk cbs) (s : St σ) (ep : Nat) :
    epochStepV cfg .truthy chk mi cbs ts b n bt ⟨s, none⟩ ep = ⟨epochStep cfg mi (truthyOf cbs) ts b n bt s ep, none⟩ := by
  unfold epochStepV epochStep
  by_cases hh : s.returned = true
  · simp [hh]
  · have this : List.foldl (bodyStepV cfg .truthy chk mi cbs ts b n) (⟨⟨s.state, s.nIter, false, false, s.calls⟩, none⟩ : StV σ)
        (List.range bt.toNat) =
        ⟨List.foldl (bodyStep cfg mi (truthyOf cbs) ts b n) ⟨s.state, s.nIter, false, false, s.calls⟩ (List.range bt.toNat), none⟩ :=
      foldl_sim (bodyStep cfg mi (truthyOf cbs) ts b n) (bodyStepV cfg .truthy chk mi cbs ts b n)
        (fun a => (⟨a, none⟩ : StV σ)) (bodyStepV_pass cfg chk mi cbs ts b n h) (List.range bt.toNat) _
    simp [hh, this]

/-- callbacks whose results all pass the lifted check (in particular: all return a bool or a falsy value) behave in the
    interpreter with guard and check exactly as their truth values in the interpreter of `src_fit_eq_fold_partial_fit`,
    and nothing is raised: every `src_*` theorem above is a theorem about `fitVSrc` for such callbacks -/
theorem fitV_pass {σ : Type} (cfg : Cfg) (chk : ResultCheck) (n : Nat) (bs ep mi : Int) (cbs : List (Int → CbRes))
    (ts : σ → Nat → Nat → σ) (s0 : σ) (h : AllPass chk cbs) :
    fitV cfg .truthy chk n bs ep mi cbs ts s0 =
      (SchedL.fit cfg n bs ep mi (truthyOf cbs) ts s0).map (fun s => (⟨s, none⟩ : StV σ)) := by
  unfold fitV SchedL.fit
  by_cases hr : cfg.rejects ep mi = true
  · simp [hr]
  · simp only [hr, Bool.false_eq_true, if_false, Option.map_some]
    congr 1
    exact foldl_sim _ _ (fun a => (⟨a, none⟩ : StV σ)) (epochStepV_pass cfg chk mi cbs ts _ _ _ h) _ _

theorem src_fitV_passing_callbacks {σ : Type} (n : Nat) (bs ep mi : Int) (cbs : List (Int → CbRes))
    (ts : σ → Nat → Nat → σ) (s0 : σ) (h : AllPass AdvScheduleSrc.cbResultCheck cbs) :
    fitVSrc n bs ep mi cbs ts s0 = (fitSrc n bs ep mi (truthyOf cbs) ts s0).map (fun s => (⟨s, none⟩ : StV σ)) := by
  unfold fitVSrc fitSrc
  rw [lifted_cb_guard.1]
  exact fitV_pass _ _ n bs ep mi cbs ts s0 h

theorem callsOf_zero (steps : List Step) : callsOf 0 steps = [] := by
  simp [callsOf]

/-- no callbacks (`callbacks_ = None`): under the lifted guard the block is skipped — nothing is called, nothing is
    raised, and the run makes the full planned number of steps -/
theorem src_no_callbacks_no_calls {σ : Type} (n e : Nat) (bs mi : Option Nat) (ts : σ → Nat → Nat → σ) (s0 : σ)
    (hn : 0 < n) (hbs : ∀ k, bs = some k → 0 < k) (hmi : ∀ m, mi = some m → 0 < m) :
    ∃ r, fitVSrc n (enc bs) (e : Int) (enc mi) [] ts s0 = some r ∧ r.raised = none ∧ r.st.calls = [] ∧
      r.st.nIter = (plannedSteps n e bs mi : Int) := by
  rw [src_fitV_passing_callbacks n _ _ _ [] ts s0 (by intro cb hcb; cases hcb)]
  obtain ⟨st, h1, hN⟩ := src_steps_count n e bs mi [] ts s0 hn hbs hmi (by intro k; simp [anyStop])
  have h := src_fit_eq_fold_partial_fit n bs (some e) mi [] ts s0 hn hbs
  cases hs : schedule n bs (some e) mi (!([] : List (Int → Bool)).isEmpty) (anyStop []) with
  | none => simp [schedule, epochsOf] at hs
  | some steps =>
    rw [hs] at h
    obtain ⟨st', h1', _, _, h4⟩ := h
    have hst : st = st' := by
      have : (enc (some e)) = (e : Int) := rfl
      rw [this] at h1'
      exact Option.some.inj (h1.symm.trans h1')
    refine ⟨⟨st, none⟩, ?_, rfl, ?_, hN⟩
    · simp [truthyOf, h1]
    · show st.calls = []
      rw [hst, h4]
      exact callsOf_zero steps

/-- a falsy result of any type (None, 0, "") is accepted and counts as False -/
theorem src_falsy_result_accepted (b : Bool) : checkRes AdvScheduleSrc.cbResultCheck ⟨false, b⟩ = none := by
  cases b <;> rfl

/-- a bool result is accepted -/
theorem src_bool_result_accepted (t : Bool) : checkRes AdvScheduleSrc.cbResultCheck ⟨t, true⟩ = none := by
  cases t <;> rfl

/-- a callback returning a TRUTHY value that is not a bool: the callback loop raises RuntimeError right after that call;
    the callbacks before it have been called (with the same step), the ones after it are not, and the stop flag is not
    acted upon -/
theorem src_nonbool_callback_rejected (k : Int) (pre post : List (Int → CbRes)) (cb : Int → CbRes) (i : Nat) (stop : Bool)
    (calls : List (Nat × Int)) (hpre : ∀ c ∈ pre, (c k).truthy = true → (c k).isBool = true)
    (ht : (cb k).truthy = true) (hb : (cb k).isBool = false) :
    runCbsV AdvScheduleSrc.stopAcc AdvScheduleSrc.cbResultCheck k (pre ++ cb :: post) i stop calls =
      (pre.foldl (fun s c => s || (c k).truthy) stop,
       calls ++ (List.range' i (pre.length + 1)).map (fun j => (j, k)), some .runtimeError) := by
  induction pre generalizing i stop calls with
  | nil =>
    simp [runCbsV, checkRes, AdvScheduleSrc.cbResultCheck, ht, hb]
  | cons c r ih =>
    have hc : checkRes AdvScheduleSrc.cbResultCheck (c k) = none := by
      have := hpre c (by simp)
      cases h1 : (c k).truthy <;> cases h2 : (c k).isBool <;> simp_all [checkRes, AdvScheduleSrc.cbResultCheck]
    have ih' := ih (i + 1) (accF AdvScheduleSrc.stopAcc stop (c k).truthy) (calls ++ [(i, k)])
      (fun c' hc' => hpre c' (by simp [hc']))
    simp only [List.cons_append, runCbsV, hc, ih', List.foldl_cons, List.length_cons]
    rw [List.range'_succ (n := r.length + 1)]
    simp [accF, AdvScheduleSrc.stopAcc, List.append_assoc]

/-- once an exception has been raised nothing more happens: the remaining batches and epochs leave the state alone -/
theorem raised_is_final {σ : Type} (cfg : Cfg) (g : CbGuard) (chk : ResultCheck) (mi : Int) (cbs : List (Int → CbRes))
    (ts : σ → Nat → Nat → σ) (b n bt : Int) (s : StV σ) (hr : s.raised.isSome = true) (j : Nat) :
    bodyStepV cfg g chk mi cbs ts b n s j = s ∧ epochStepV cfg g chk mi cbs ts b n bt s j = s := by
  constructor
  · simp [bodyStepV, haltedV, hr]
  · simp [epochStepV, hr]

/-! ### the range checks of `__setup` on batch_size / epochs / max_iter (lifted) -/

/-- exactly the values that are neither positive nor the sentinel -1 are rejected (0, -2, -3, ..), with ValueError -/
theorem src_param_rejected_iff (v : Int) : AdvScheduleSrc.paramRejected v = true ↔ (v ≤ 0 ∧ v ≠ -1) := by
  simp only [AdvScheduleSrc.paramRejected, Bool.or_eq_true, Bool.and_eq_true, decide_eq_true_eq, bne_iff_ne, ne_eq]
  omega

theorem lifted_param_exc : AdvScheduleSrc.paramRejectedExc = .valueError := by decide

/-- the accepted values are exactly the ones the theorems above are stated for: `enc o` with `o` unset or positive
    (the side conditions `hbs`, `hmi` are the lifted domain, not an extra assumption) -/
theorem src_param_accepted_iff_enc (v : Int) :
    AdvScheduleSrc.paramRejected v = false ↔ ∃ o : Option Nat, v = enc o ∧ ∀ k, o = some k → 0 < k := by
  rw [← Bool.not_eq_true, src_param_rejected_iff]
  constructor
  · intro h
    by_cases hv : v = -1
    · exact ⟨none, hv, by intro k hk; cases hk⟩
    · refine ⟨some v.toNat, ?_, ?_⟩
      · show v = ((v.toNat : Nat) : Int)
        omega
      · intro k hk
        cases hk
        omega
  · rintro ⟨o, rfl, ho⟩
    cases o with
    | none => simp [enc]
    | some k =>
      have := ho k rfl
      simp only [enc]
      omega

/-- a non-positive batch_size / epochs / max_iter other than -1: `fit` fails in the set-up with ValueError, before the
    both-unset rejection and before any training step; otherwise the set-up passes -/
theorem src_nonpositive_params_rejected {σ : Type} (n : Nat) (bs ep mi : Int) (cbs : List (Int → CbRes))
    (ts : σ → Nat → Nat → σ) (s0 : σ) :
    (((bs ≤ 0 ∧ bs ≠ -1) ∨ (ep ≤ 0 ∧ ep ≠ -1) ∨ (mi ≤ 0 ∧ mi ≠ -1)) →
      fitChecked n bs ep mi cbs ts s0 = .setupError .valueError) ∧
    (¬((bs ≤ 0 ∧ bs ≠ -1) ∨ (ep ≤ 0 ∧ ep ≠ -1) ∨ (mi ≤ 0 ∧ mi ≠ -1)) →
      fitChecked n bs ep mi cbs ts s0 = match fitVSrc n bs ep mi cbs ts s0 with | none => .rejected | some r => .done r) := by
  have hb := src_param_rejected_iff bs
  have he := src_param_rejected_iff ep
  have hm := src_param_rejected_iff mi
  constructor
  · intro h
    have : (AdvScheduleSrc.paramRejected bs || AdvScheduleSrc.paramRejected ep || AdvScheduleSrc.paramRejected mi) = true := by
      simp only [Bool.or_eq_true, hb, he, hm]
      tauto
    simp only [fitChecked, this, if_true, lifted_param_exc]
  · intro h
    have : (AdvScheduleSrc.paramRejected bs || AdvScheduleSrc.paramRejected ep || AdvScheduleSrc.paramRejected mi) = false := by
      rw [← Bool.not_eq_true]
      simp only [Bool.or_eq_true, hb, he, hm]
      tauto
    unfold fitChecked
    rw [this]
    rfl

example : (fitChecked 7 0 2 (-1) [] (fun (l : List (Nat × Nat)) lo hi => l ++ [(lo, hi)]) [] matches .setupError .valueError) = true := by
  decide +kernel
example : (fitChecked 7 3 (-1) (-1) [] (fun (l : List (Nat × Nat)) lo hi => l ++ [(lo, hi)]) [] matches .rejected) = true := by
  decide +kernel

-- two callbacks, the first returns a truthy non-bool (e.g. `1`) at step 2: RuntimeError after 2 steps, the second
-- callback is not called at step 2
example : (fitVSrc 7 3 2 (-1) [fun k => if k == 2 then ⟨true, false⟩ else ⟨false, false⟩, fun _ => ⟨false, true⟩]
    (fun (l : List (Nat × Nat)) lo hi => l ++ [(lo, hi)]) []).map (fun r => (r.st.state, r.st.nIter, r.st.calls, r.raised)) =
    some ([(0, 3), (3, 6)], 2, [(0, 1), (1, 1), (0, 2)], some .runtimeError) := by decide +kernel
example : (fitVSrc 7 3 1 (-1) [] (fun (l : List (Nat × Nat)) lo hi => l ++ [(lo, hi)]) []).map
    (fun r => (r.st.state, r.st.nIter, r.st.calls, r.raised)) = some ([(0, 3), (3, 6), (6, 7)], 3, [], none) := by
  decide +kernel

end Lifted

/-! ### non-vacuity (n = 7, batch_size = 3, epochs = 2, max_iter = 5) -/
example : schedule 7 (some 3) (some 2) (some 5) true (fun _ => false) =
    some [⟨0, 3, 1, true⟩, ⟨3, 6, 2, true⟩, ⟨6, 7, 3, true⟩, ⟨0, 3, 4, true⟩, ⟨3, 6, 5, false⟩] := by decide +kernel
example : schedule 7 (some 3) (some 2) none true (fun k => k == 4) =
    some [⟨0, 3, 1, true⟩, ⟨3, 6, 2, true⟩, ⟨6, 7, 3, true⟩, ⟨0, 3, 4, true⟩] := by decide +kernel
example : schedule 7 none none (some 2) false (fun _ => false) = some [⟨0, 7, 1, false⟩, ⟨0, 7, 2, false⟩] := by
  decide +kernel
example : (fitLoop 7 (some 3) (some 2) (some 5) true (fun _ => false)
    (fun (l : List (Nat × Nat)) lo hi => l ++ [(lo, hi)]) []).map (fun r => (r.state, r.nIter)) =
    some ([(0, 3), (3, 6), (6, 7), (0, 3), (3, 6)], 5) := by decide +kernel
example : epochSlices 7 3 = [(0, 3), (3, 6), (6, 7)] := by decide +kernel
example : argmaxFirst [1/4, 1/2, 1/2, 0] = 1 := by decide +kernel
example : predictMultiLabel [3, 5, 7, 9] [1/4, 1/2, 1/2, 0] = some 5 := by decide +kernel
example : predictBinaryLabel [3, 5] (1/2) (1/2) = some 5 := by decide +kernel
-- the interpreter at the lifted configuration: two callbacks, the second says True at step 4 (both are called there)
example : (SchedL.fitSrc 7 3 2 (-1) [fun _ => false, fun k => k == 4]
    (fun (l : List (Nat × Nat)) lo hi => l ++ [(lo, hi)]) []).map (fun r => (r.state, r.nIter, r.calls)) =
    some ([(0, 3), (3, 6), (6, 7), (0, 3)], 4, [(0, 1), (1, 1), (0, 2), (1, 2), (0, 3), (1, 3), (0, 4), (1, 4)]) := by
  decide +kernel
-- max_iter = 5 ends the run without calling the callback after step 5
example : (SchedL.fitSrc 7 3 2 5 [fun _ => false]
    (fun (l : List (Nat × Nat)) lo hi => l ++ [(lo, hi)]) []).map (fun r => (r.state, r.nIter, r.calls)) =
    some ([(0, 3), (3, 6), (6, 7), (0, 3), (3, 6)], 5, [(0, 1), (0, 2), (0, 3), (0, 4)]) := by decide +kernel
example : SchedL.epochSlicesSrc AdvScheduleSrc.cfg 7 3 = [(0, 3), (3, 6), (6, 7)] := by decide +kernel
-- life cycle: predict first (NotFitted), first partial_fit builds engine 1, a warm fit continues on it (2 more steps,
-- n_iter_ = 2), a cold fit builds engine 2 and trains it on one slice
example : (SchedLife.runOps [.predict, .pfit 0 2 false, .fit 4 2 1 (-1) true, .fit 4 (-1) 1 (-1) false]).1 =
    ["notfitted:0:x:x", "ok:1:x:1/1", "ok:1:2:1/3", "ok:2:1:2/1"] := by decide +kernel
example : SchedL.predictBinarySrc [3, 5] AdvScheduleSrc.thresholdDefault (1/2) = some 5 := by decide +kernel

end C17
