/-
C17 — adversarial fit is the documented step schedule; predict stays in label space.
Property theorems only; helper lemmas live in `Lemmas/Schedule.lean`.
`none` stands for the Python value -1 of batch_size / epochs / max_iter.
-/
import FairModel.Lemmas.Schedule

namespace C17
open Schedule

/-! ### number of steps -/

/-- `epochs` given, no callback stops: exactly `epochs * ceil(n / batch_size)` steps, or `max_iter` if smaller -/
theorem steps_count (n e : Nat) (bs mi : Option Nat) (cb : Bool) (stopAt : Nat → Bool) (steps : List Step)
    (hstop : ∀ k, (cb && stopAt k) = false) (hmi : ∀ m, mi = some m → 0 < m)
    (h : schedule n bs (some e) mi cb stopAt = some steps) :
    steps.length = match mi with
      | none => e * ceilDiv n (batchSizeOf n bs)
      | some m => min (e * ceilDiv n (batchSizeOf n bs)) m := by
  simp only [schedule, epochsOf] at h
  cases h
  rw [run_length_no_stop mi cb stopAt 0 _ hstop hmi, length_allSlices]
  cases mi <;> simp [batchesOf]

/-- `epochs = -1`: the number of epochs is `ceil(max_iter / batches)` and exactly `max_iter` steps are made -/
theorem steps_count_epochs_auto (n m : Nat) (bs : Option Nat) (cb : Bool) (stopAt : Nat → Bool) (steps : List Step)
    (hn : 0 < n) (hb : 0 < batchSizeOf n bs) (hm : 0 < m) (hstop : ∀ k, (cb && stopAt k) = false)
    (h : schedule n bs none (some m) cb stopAt = some steps) : steps.length = m := by
  simp only [schedule, epochsOf] at h
  cases h
  rw [run_length_no_stop (some m) cb stopAt 0 _ hstop (by intro m' h'; cases h'; exact hm), length_allSlices]
  have hbt : 0 < batchesOf n (batchSizeOf n bs) := ceilDiv_pos n _ hn hb
  have := le_ceilDiv_mul m (batchesOf n (batchSizeOf n bs)) hbt
  simp only [Nat.sub_zero]
  omega

/-- `epochs = -1` and `max_iter = -1` is rejected -/
theorem both_unset_rejected (n : Nat) (bs : Option Nat) (cb : Bool) (stopAt : Nat → Bool) :
    schedule n bs none none cb stopAt = none := by
  simp [schedule, epochsOf]

/-- `n_iter_` never exceeds `max_iter` -/
theorem steps_le_max_iter (n m : Nat) (bs ep : Option Nat) (cb : Bool) (stopAt : Nat → Bool) (steps : List Step)
    (hm : 0 < m) (h : schedule n bs ep (some m) cb stopAt = some steps) : steps.length ≤ m := by
  simp only [schedule] at h
  split at h
  · cases h
  · cases h
    -- generalise over the planned slices
    have key : ∀ (L : List (Nat × Nat)) (d : Nat), d < m → (run (some m) cb stopAt d L).length ≤ m - d := by
      intro L
      induction L with
      | nil => intro d _; simp [run]
      | cons p L ih =>
        intro d hd
        obtain ⟨lo, hi⟩ := p
        unfold run
        by_cases h1 : m ≤ d + 1
        · simp [hitMax, h1]; omega
        · simp only [hitMax, h1, decide_false, Bool.false_eq_true, if_false]
          split
          · simp; omega
          · have := ih (d + 1) (by omega)
            simp only [List.length_cons]; omega
    simpa using key _ 0 hm

/-! ### which rows each step sees -/

/-- `batch_size = -1` means one slice with all rows; so does any `batch_size >= n` -/
theorem no_batching_single_slice (n : Nat) (hn : 0 < n) :
    batchSizeOf n none = n ∧ epochSlices n n = [(0, n)] := by
  refine ⟨rfl, ?_⟩
  have h1 : batchesOf n n = 1 := by
    have hp := ceilDiv_pos n n hn hn
    have : ¬ 1 < ceilDiv n n := by
      rw [lt_ceilDiv_iff n n 1 hn]; omega
    unfold batchesOf; omega
  simp [epochSlices, h1, sliceOf]

theorem large_batch_single_slice (n b : Nat) (hn : 0 < n) (hb : n ≤ b) : epochSlices n b = [(0, n)] := by
  have hb0 : 0 < b := by omega
  have h1 : batchesOf n b = 1 := by
    have hp := ceilDiv_pos n b hn hb0
    have : ¬ 1 < ceilDiv n b := by
      rw [lt_ceilDiv_iff n b 1 hb0]; omega
    unfold batchesOf; omega
  simp [epochSlices, h1, sliceOf]
  omega

/-- each epoch's slices are consecutive, non-empty and cover rows `0 .. n` exactly:
    `[0,b), [b,2b), …, [kb, n)` -/
theorem slices_consecutive_cover (n b : Nat) (hn : 0 < n) (hb : 0 < b) : Covers 0 (epochSlices n b) n :=
  epochSlices_covers n b hn hb

theorem slice_bounds (n b k : Nat) (hb : 0 < b) (hk : k < batchesOf n b) :
    (sliceOf n b k).1 = k * b ∧ (sliceOf n b k).1 < (sliceOf n b k).2 ∧ (sliceOf n b k).2 ≤ n ∧
    (sliceOf n b k).2 - (sliceOf n b k).1 ≤ b ∧
    (k + 1 < batchesOf n b → (sliceOf n b k).2 = (sliceOf n b (k + 1)).1) ∧
    (k + 1 = batchesOf n b → (sliceOf n b k).2 = n) := by
  refine ⟨rfl, sliceOf_nonempty n b k hb hk, by simp [sliceOf], sliceOf_size_le n b k, ?_, sliceOf_hi_last n b k hb⟩
  intro h
  rw [sliceOf_hi_inner n b k hb h]; rfl

theorem number_of_slices (n b e : Nat) :
    (epochSlices n b).length = ceilDiv n b ∧ (allSlices n b e).length = e * ceilDiv n b :=
  ⟨length_epochSlices n b, length_allSlices n b e⟩

/-- the executed steps are an initial segment of `epochs` repetitions of the epoch's slices -/
theorem schedule_slices_prefix (n : Nat) (bs ep mi : Option Nat) (cb : Bool) (stopAt : Nat → Bool) (steps : List Step)
    (h : schedule n bs ep mi cb stopAt = some steps) :
    ∃ e, epochsOf ep mi (batchesOf n (batchSizeOf n bs)) = some e ∧
      steps.map (fun s => (s.lo, s.hi)) <+: allSlices n (batchSizeOf n bs) e := by
  simp only [schedule] at h
  split at h
  · cases h
  · next e he =>
    cases h
    exact ⟨e, he, run_prefix mi cb stopAt 0 _⟩

/-! ### callbacks -/

/-- steps (and therefore the `step=` argument of the callbacks) are numbered 1, 2, … -/
theorem callbacks_numbered (n : Nat) (bs ep mi : Option Nat) (cb : Bool) (stopAt : Nat → Bool) (steps : List Step)
    (h : schedule n bs ep mi cb stopAt = some steps) :
    steps.map (·.stepNo) = List.range' 1 steps.length := by
  simp only [schedule] at h
  split at h
  · cases h
  · cases h; exact run_stepNo mi cb stopAt 0 _

/-- the callbacks are invoked after every completed step EXCEPT a step that exhausts `max_iter` -/
theorem callback_fired_iff (n : Nat) (bs ep mi : Option Nat) (cb : Bool) (stopAt : Nat → Bool) (steps : List Step)
    (h : schedule n bs ep mi cb stopAt = some steps) :
    ∀ s ∈ steps, s.callbackFired = (cb && !hitMax mi s.stepNo) := by
  simp only [schedule] at h
  split at h
  · cases h
  · cases h; exact run_callbackFired mi cb stopAt 0 _

/-- fit stops at the first step whose callback returns True -/
theorem stops_at_first_true (n k : Nat) (bs ep mi : Option Nat) (stopAt : Nat → Bool) (steps : List Step) (e : Nat)
    (h : schedule n bs ep mi true stopAt = some steps)
    (he : epochsOf ep mi (batchesOf n (batchSizeOf n bs)) = some e)
    (hk0 : 0 < k) (hk : k ≤ e * ceilDiv n (batchSizeOf n bs)) (hs : stopAt k = true)
    (hbefore : ∀ j, 0 < j → j < k → stopAt j = false) (hmi : ∀ m, mi = some m → k < m) :
    steps.length = k ∧ (steps.getLast?).map (fun s => (s.stepNo, s.callbackFired)) = some (k, true) := by
  simp only [schedule, he] at h
  cases h
  have := run_stops_at_first_true mi stopAt 0 k (allSlices n (batchSizeOf n bs) e) hk0
    (by rw [length_allSlices]; simpa [batchesOf] using hk) hs hbefore hmi
  simpa using this

/-! ### fit = the same slices through partial_fit -/

/-- The nested loops of `fit` (with both early returns) leave exactly the state obtained by folding the single-step
    entry point over the scheduled slices, and `n_iter_` is the number of scheduled steps. -/
theorem fit_eq_fold_partial_fit {σ : Type} (n : Nat) (bs ep mi : Option Nat) (cb : Bool) (stopAt : Nat → Bool)
    (trainStep : σ → Nat → Nat → σ) (s0 : σ) (r : Loop σ)
    (h : fitLoop n bs ep mi cb stopAt trainStep s0 = some r) :
    ∃ steps, schedule n bs ep mi cb stopAt = some steps ∧
      r.state = partialFitSeq trainStep s0 steps ∧ r.nIter = steps.length := by
  simp only [fitLoop] at h
  simp only [schedule]
  split at h
  · cases h
  · next e he =>
    cases h
    refine ⟨_, rfl, ?_⟩
    rw [foldl_epochs]
    have := foldl_batchBody_run mi cb stopAt trainStep (allSlices n (batchSizeOf n bs) e) s0 0
    simpa [allSlices] using this

/-- and conversely `fit` is defined whenever the schedule is -/
theorem fitLoop_defined_iff {σ : Type} (n : Nat) (bs ep mi : Option Nat) (cb : Bool) (stopAt : Nat → Bool)
    (trainStep : σ → Nat → Nat → σ) (s0 : σ) :
    (fitLoop n bs ep mi cb stopAt trainStep s0).isSome = (schedule n bs ep mi cb stopAt).isSome := by
  simp only [fitLoop, schedule]
  split <;> simp

/-! ### predict stays in label space -/

/-- binary: the positive (larger) class exactly when the output is at least the threshold, else the other class -/
theorem predict_binary (c0 c1 : Int) (t o : Rat) :
    (t ≤ o → predictBinaryLabel [c0, c1] t o = some c1) ∧
    (o < t → predictBinaryLabel [c0, c1] t o = some c0) ∧
    (∃ c ∈ [c0, c1], predictBinaryLabel [c0, c1] t o = some c) := by
  unfold predictBinaryLabel predictBinary labelAt
  by_cases h : t ≤ o
  · have h2 : ¬ o < t := not_lt.mpr h
    simp [h, h2]
  · have h2 : o < t := not_le.mp h
    simp [h, h2]

/-- multiclass: the prediction is the class at the arg-max position, which is a member of the class list;
    the arg-max is the FIRST maximal output -/
theorem predict_multi (classes : List Int) (o : List Rat) (hne : o ≠ []) (hlen : o.length = classes.length) :
    ∃ (hi : argmaxFirst o < o.length) (c : Int), c ∈ classes ∧ predictMultiLabel classes o = some c ∧
      classes[argmaxFirst o]? = some c ∧
      (∀ v ∈ o, v ≤ o[argmaxFirst o]) ∧
      (∀ j (hj : j < argmaxFirst o), o[j]'(by omega) < o[argmaxFirst o]) := by
  have hi := argmaxFirst_lt o hne
  have hc : argmaxFirst o < classes.length := by omega
  refine ⟨hi, classes[argmaxFirst o], List.getElem_mem hc, ?_, ?_, ?_, ?_⟩
  · simp [predictMultiLabel, labelAt, hc]
  · simp [hc]
  · intro v hv; rw [argmaxFirst_spec o hne]; exact le_maxOf o v hv
  · intro j hj; rw [argmaxFirst_spec o hne]; exact argmaxFirst_first o j hj (by omega)

/-! ### non-vacuity (n = 7, batch_size = 3, epochs = 2, max_iter = 5) -/
example : schedule 7 (some 3) (some 2) (some 5) true (fun _ => false) =
    some [⟨0, 3, 1, true⟩, ⟨3, 6, 2, true⟩, ⟨6, 7, 3, true⟩, ⟨0, 3, 4, true⟩, ⟨3, 6, 5, false⟩] := by decide +kernel
example : schedule 7 (some 3) (some 2) none true (fun k => k == 4) =
    some [⟨0, 3, 1, true⟩, ⟨3, 6, 2, true⟩, ⟨6, 7, 3, true⟩, ⟨0, 3, 4, true⟩] := by decide +kernel
example : schedule 7 none none (some 2) false (fun _ => false) = some [⟨0, 7, 1, false⟩, ⟨0, 7, 2, false⟩] := by
  decide +kernel
example : (fitLoop 7 (some 3) (some 2) (some 5) true (fun _ => false)
    (fun (l : List (Nat × Nat)) lo hi => l ++ [(lo, hi)]) []).map (fun r => (r.state, r.nIter)) =
    some ([(0, 3), (3, 6), (6, 7), (0, 3), (3, 6)], 5) := by decide +kernel
example : epochSlices 7 3 = [(0, 3), (3, 6), (6, 7)] := by decide +kernel
example : argmaxFirst [1/4, 1/2, 1/2, 0] = 1 := by decide +kernel
example : predictMultiLabel [3, 5, 7, 9] [1/4, 1/2, 1/2, 0] = some 5 := by decide +kernel
example : predictBinaryLabel [3, 5] (1/2) (1/2) = some 5 := by decide +kernel

end C17
