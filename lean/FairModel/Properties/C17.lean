/-
C17 — adversarial fit is the documented step schedule; predict stays in label space.
Property theorems only; helper lemmas live in `Lemmas/Schedule.lean`.
`none` stands for the Python value -1 of batch_size / epochs / max_iter.
-/
import FairModel.Lemmas.Schedule
import FairModel.Lemmas.SchedLifted
import FairModel.Lemmas.AdvStep
import FairModel.Model.SchedLife

namespace C17
open Schedule

/-! ### number of steps -/

/-- `epochs` given, no callback stops: exactly `epochs * ceil(n / batch_size)` steps, or `max_iter` if smaller -/
theorem steps_count (n e : Nat) (bs mi : Option Nat) (cb : Bool) (stopAt : Nat → Bool) (steps : List Step)
    (hstop : ∀ k, (cb && stopAt k) = false) (hmi : ∀ m, mi = some m → 0 < m)
    (h : schedule n bs (some e) mi cb stopAt = some steps) :
    steps.length = match mi with
      | none => e * ceilDiv n (batchSizeOf n bs)
      | some m => min (e * ceilDiv n (batchSizeOf n bs)) m := by
  simp only [schedule, epochsOf] at h
  cases h
  rw [run_length_no_stop mi cb stopAt 0 _ hstop hmi, length_allSlices]
  cases mi <;> simp [batchesOf]

/-- `epochs = -1`: the number of epochs is `ceil(max_iter / batches)` and exactly `max_iter` steps are made -/
theorem steps_count_epochs_auto (n m : Nat) (bs : Option Nat) (cb : Bool) (stopAt : Nat → Bool) (steps : List Step)
    (hn : 0 < n) (hb : 0 < batchSizeOf n bs) (hm : 0 < m) (hstop : ∀ k, (cb && stopAt k) = false)
    (h : schedule n bs none (some m) cb stopAt = some steps) : steps.length = m := by
  simp only [schedule, epochsOf] at h
  cases h
  rw [run_length_no_stop (some m) cb stopAt 0 _ hstop (by intro m' h'; cases h'; exact hm), length_allSlices]
  have hbt : 0 < batchesOf n (batchSizeOf n bs) := ceilDiv_pos n _ hn hb
  have := le_ceilDiv_mul m (batchesOf n (batchSizeOf n bs)) hbt
  simp only [Nat.sub_zero]
  omega

/-- `epochs = -1` and `max_iter = -1` is rejected -/
theorem both_unset_rejected (n : Nat) (bs : Option Nat) (cb : Bool) (stopAt : Nat → Bool) :
    schedule n bs none none cb stopAt = none := by
  simp [schedule, epochsOf]

/-- `n_iter_` never exceeds `max_iter` -/
theorem steps_le_max_iter (n m : Nat) (bs ep : Option Nat) (cb : Bool) (stopAt : Nat → Bool) (steps : List Step)
    (hm : 0 < m) (h : schedule n bs ep (some m) cb stopAt = some steps) : steps.length ≤ m := by
  simp only [schedule] at h
  split at h
  · cases h
  · cases h
    -- generalise over the planned slices
    have key : ∀ (L : List (Nat × Nat)) (d : Nat), d < m → (run (some m) cb stopAt d L).length ≤ m - d := by
      intro L
      induction L with
      | nil => intro d _; simp [run]
      | cons p L ih =>
        intro d hd
        obtain ⟨lo, hi⟩ := p
        unfold run
        by_cases h1 : m ≤ d + 1
        · simp [hitMax, h1]; omega
        · simp only [hitMax, h1, decide_false, Bool.false_eq_true, if_false]
          split
          · simp; omega
          · have := ih (d + 1) (by omega)
            simp only [List.length_cons]; omega
    simpa using key _ 0 hm

/-! ### which rows each step sees -/

/-- `batch_size = -1` means one slice with all rows; so does any `batch_size >= n` -/
theorem no_batching_single_slice (n : Nat) (hn : 0 < n) :
    batchSizeOf n none = n ∧ epochSlices n n = [(0, n)] := by
  refine ⟨rfl, ?_⟩
  have h1 : batchesOf n n = 1 := by
    have hp := ceilDiv_pos n n hn hn
    have : ¬ 1 < ceilDiv n n := by
      rw [lt_ceilDiv_iff n n 1 hn]; omega
    unfold batchesOf; omega
  simp [epochSlices, h1, sliceOf]

theorem large_batch_single_slice (n b : Nat) (hn : 0 < n) (hb : n ≤ b) : epochSlices n b = [(0, n)] := by
  have hb0 : 0 < b := by omega
  have h1 : batchesOf n b = 1 := by
    have hp := ceilDiv_pos n b hn hb0
    have : ¬ 1 < ceilDiv n b := by
      rw [lt_ceilDiv_iff n b 1 hb0]; omega
    unfold batchesOf; omega
  simp [epochSlices, h1, sliceOf]
  omega

/-- each epoch's slices are consecutive, non-empty and cover rows `0 .. n` exactly:
    `[0,b), [b,2b), …, [kb, n)` -/
theorem slices_consecutive_cover (n b : Nat) (hn : 0 < n) (hb : 0 < b) : Covers 0 (epochSlices n b) n :=
  epochSlices_covers n b hn hb

theorem slice_bounds (n b k : Nat) (hb : 0 < b) (hk : k < batchesOf n b) :
    (sliceOf n b k).1 = k * b ∧ (sliceOf n b k).1 < (sliceOf n b k).2 ∧ (sliceOf n b k).2 ≤ n ∧
    (sliceOf n b k).2 - (sliceOf n b k).1 ≤ b ∧
    (k + 1 < batchesOf n b → (sliceOf n b k).2 = (sliceOf n b (k + 1)).1) ∧
    (k + 1 = batchesOf n b → (sliceOf n b k).2 = n) := by
  refine ⟨rfl, sliceOf_nonempty n b k hb hk, by simp [sliceOf], sliceOf_size_le n b k, ?_, sliceOf_hi_last n b k hb⟩
  intro h
  rw [sliceOf_hi_inner n b k hb h]; rfl

theorem number_of_slices (n b e : Nat) :
    (epochSlices n b).length = ceilDiv n b ∧ (allSlices n b e).length = e * ceilDiv n b :=
  ⟨length_epochSlices n b, length_allSlices n b e⟩

/-- the executed steps are an initial segment of `epochs` repetitions of the epoch's slices -/
theorem schedule_slices_prefix (n : Nat) (bs ep mi : Option Nat) (cb : Bool) (stopAt : Nat → Bool) (steps : List Step)
    (h : schedule n bs ep mi cb stopAt = some steps) :
    ∃ e, epochsOf ep mi (batchesOf n (batchSizeOf n bs)) = some e ∧
      steps.map (fun s => (s.lo, s.hi)) <+: allSlices n (batchSizeOf n bs) e := by
  simp only [schedule] at h
  split at h
  · cases h
  · next e he =>
    cases h
    exact ⟨e, he, run_prefix mi cb stopAt 0 _⟩

/-! ### callbacks -/

/-- steps (and therefore the `step=` argument of the callbacks) are numbered 1, 2, … -/
theorem callbacks_numbered (n : Nat) (bs ep mi : Option Nat) (cb : Bool) (stopAt : Nat → Bool) (steps : List Step)
    (h : schedule n bs ep mi cb stopAt = some steps) :
    steps.map (·.stepNo) = List.range' 1 steps.length := by
  simp only [schedule] at h
  split at h
  · cases h
  · cases h; exact run_stepNo mi cb stopAt 0 _

/-- the callbacks are invoked after every completed step EXCEPT a step that exhausts `max_iter` -/
theorem callback_fired_iff (n : Nat) (bs ep mi : Option Nat) (cb : Bool) (stopAt : Nat → Bool) (steps : List Step)
    (h : schedule n bs ep mi cb stopAt = some steps) :
    ∀ s ∈ steps, s.callbackFired = (cb && !hitMax mi s.stepNo) := by
  simp only [schedule] at h
  split at h
  · cases h
  · cases h; exact run_callbackFired mi cb stopAt 0 _

/-- fit stops at the first step whose callback returns True -/
theorem stops_at_first_true (n k : Nat) (bs ep mi : Option Nat) (stopAt : Nat → Bool) (steps : List Step) (e : Nat)
    (h : schedule n bs ep mi true stopAt = some steps)
    (he : epochsOf ep mi (batchesOf n (batchSizeOf n bs)) = some e)
    (hk0 : 0 < k) (hk : k ≤ e * ceilDiv n (batchSizeOf n bs)) (hs : stopAt k = true)
    (hbefore : ∀ j, 0 < j → j < k → stopAt j = false) (hmi : ∀ m, mi = some m → k < m) :
    steps.length = k ∧ (steps.getLast?).map (fun s => (s.stepNo, s.callbackFired)) = some (k, true) := by
  simp only [schedule, he] at h
  cases h
  have := run_stops_at_first_true mi stopAt 0 k (allSlices n (batchSizeOf n bs) e) hk0
    (by rw [length_allSlices]; simpa [batchesOf] using hk) hs hbefore hmi
  simpa using this

/-! ### fit = the same slices through partial_fit -/

/-- The nested loops of `fit` (with both early returns) leave exactly the state obtained by folding the single-step
    entry point over the scheduled slices, and `n_iter_` is the number of scheduled steps. -/
theorem fit_eq_fold_partial_fit {σ : Type} (n : Nat) (bs ep mi : Option Nat) (cb : Bool) (stopAt : Nat → Bool)
    (trainStep : σ → Nat → Nat → σ) (s0 : σ) (r : Loop σ)
    (h : fitLoop n bs ep mi cb stopAt trainStep s0 = some r) :
    ∃ steps, schedule n bs ep mi cb stopAt = some steps ∧
      r.state = partialFitSeq trainStep s0 steps ∧ r.nIter = steps.length := by
  simp only [fitLoop] at h
  simp only [schedule]
  split at h
  · cases h
  · next e he =>
    cases h
    refine ⟨_, rfl, ?_⟩
    rw [foldl_epochs]
    have := foldl_batchBody_run mi cb stopAt trainStep (allSlices n (batchSizeOf n bs) e) s0 0
    simpa [allSlices] using this

/-- and conversely `fit` is defined whenever the schedule is -/
theorem fitLoop_defined_iff {σ : Type} (n : Nat) (bs ep mi : Option Nat) (cb : Bool) (stopAt : Nat → Bool)
    (trainStep : σ → Nat → Nat → σ) (s0 : σ) :
    (fitLoop n bs ep mi cb stopAt trainStep s0).isSome = (schedule n bs ep mi cb stopAt).isSome := by
  simp only [fitLoop, schedule]
  split <;> simp

/-! ### predict stays in label space -/

/-- binary: the positive (larger) class exactly when the output is at least the threshold, else the other class -/
theorem predict_binary (c0 c1 : Int) (t o : Rat) :
    (t ≤ o → predictBinaryLabel [c0, c1] t o = some c1) ∧
    (o < t → predictBinaryLabel [c0, c1] t o = some c0) ∧
    (∃ c ∈ [c0, c1], predictBinaryLabel [c0, c1] t o = some c) := by
  unfold predictBinaryLabel predictBinary labelAt
  by_cases h : t ≤ o
  · have h2 : ¬ o < t := not_lt.mpr h
    simp [h, h2]
  · have h2 : o < t := not_le.mp h
    simp [h, h2]

/-- multiclass: the prediction is the class at the arg-max position, which is a member of the class list;
    the arg-max is the FIRST maximal output -/
theorem predict_multi (classes : List Int) (o : List Rat) (hne : o ≠ []) (hlen : o.length = classes.length) :
    ∃ (hi : argmaxFirst o < o.length) (c : Int), c ∈ classes ∧ predictMultiLabel classes o = some c ∧
      classes[argmaxFirst o]? = some c ∧
      (∀ v ∈ o, v ≤ o[argmaxFirst o]) ∧
      (∀ j (hj : j < argmaxFirst o), o[j]'(by omega) < o[argmaxFirst o]) := by
  have hi := argmaxFirst_lt o hne
  have hc : argmaxFirst o < classes.length := by omega
  refine ⟨hi, classes[argmaxFirst o], List.getElem_mem hc, ?_, ?_, ?_, ?_⟩
  · simp [predictMultiLabel, labelAt, hc]
  · simp [hc]
  · intro v hv; rw [argmaxFirst_spec o hne]; exact le_maxOf o v hv
  · intro j hj; rw [argmaxFirst_spec o hne]; exact argmaxFirst_first o j hj (by omega)


/-! ### the tie to the source: the configuration LIFTED from `fit` / `partial_fit` / `predict`
(`Generated/AdvScheduleSrc.lean`, rewritten from /repo on every run by harness/lifters/adv_schedule.py).
`SchedL.fitSrc` interprets the lifted statement order, expressions, stop rule and exits; the theorems below are the
clauses of the property for THAT interpreter, so an edit of the source re-checks them, breaks them, or is refused. -/

section Lifted
open SchedL SchedCfg
set_option linter.unusedTactic false
set_option linter.unreachableTactic false

/-- the rejection guard: `self.epochs == -1 and self.max_iter == -1` -/
theorem lifted_rejects : AdvScheduleSrc.rejects = reference.rejects := by
  first
  | rfl
  | (funext e m; simp only [AdvScheduleSrc.rejects, reference]; grind)

/-- `batch_size = X.shape[0] if self.batch_size == -1 else self.batch_size` -/
theorem lifted_batchSize : AdvScheduleSrc.batchSize = reference.batchSize := by
  first
  | rfl
  | (funext s n; simp only [AdvScheduleSrc.batchSize, reference]; grind)

/-- `batches = ceil(X.shape[0] / batch_size)` -/
theorem lifted_batches : AdvScheduleSrc.batches = reference.batches := by
  first
  | rfl
  | (funext n b; simp only [AdvScheduleSrc.batches, reference])

/-- `epochs = ceil(self.max_iter / batches) if self.epochs == -1 else self.epochs` -/
theorem lifted_epochs : AdvScheduleSrc.epochs = reference.epochs := by
  first
  | rfl
  | (funext e m b; simp only [AdvScheduleSrc.epochs, reference]; grind)

/-- `batch_slice = slice(batch * batch_size, min((batch + 1) * batch_size, X.shape[0]))` -/
theorem lifted_slice : AdvScheduleSrc.sliceLo = reference.sliceLo ∧ AdvScheduleSrc.sliceHi = reference.sliceHi := by
  constructor
  · first
    | rfl
    | (funext k b n; simp only [AdvScheduleSrc.sliceLo, reference]; grind)
  · first
    | rfl
    | (funext k b n; simp only [AdvScheduleSrc.sliceHi, reference]; grind)

/-- `self.n_iter_ = 0` before the loops, `self.n_iter_ += 1` after each train step, and the callbacks get
    `step=self.n_iter_` -/
theorem lifted_counter : AdvScheduleSrc.nIterInit = 0 ∧ AdvScheduleSrc.incIter = reference.incIter ∧
    AdvScheduleSrc.cbStep = reference.cbStep := by
  refine ⟨by first | rfl | (simp only [AdvScheduleSrc.nIterInit]), ?_, ?_⟩
  · first
    | rfl
    | (funext i; simp only [AdvScheduleSrc.incIter, reference]; omega)
  · first
    | rfl
    | (funext i; simp only [AdvScheduleSrc.cbStep, reference]; omega)

/-- `if self.max_iter != -1 and self.n_iter_ >= self.max_iter: return self` -/
theorem lifted_hitMax : AdvScheduleSrc.hitMax = reference.hitMax ∧ AdvScheduleSrc.exitMax = .returnSelf := by
  constructor
  · first
    | rfl
    | (funext m i; simp only [AdvScheduleSrc.hitMax, reference]; grind)
  · decide

/-- `stop = False; for cb in self.callbacks_: ...; stop = stop or result; if stop: return self`
    (ALL callbacks run; any True stops; both loops are left) -/
theorem lifted_stop_rule : AdvScheduleSrc.stopInit = false ∧ AdvScheduleSrc.stopAcc = .orAcc ∧
    AdvScheduleSrc.exitStop = .returnSelf := by decide

/-- order of the batch-loop body: train step, THEN the counter, THEN the max_iter test, THEN the callbacks -/
theorem lifted_body_order : AdvScheduleSrc.body = [.train, .incIter, .checkMax, .callbacks] := by decide

/-- the configuration lifted from the source is the documented reference configuration -/
theorem lifted_cfg : AdvScheduleSrc.cfg = SchedCfg.reference := by
  have h : AdvScheduleSrc.cfg = ⟨AdvScheduleSrc.rejects, AdvScheduleSrc.batchSize, AdvScheduleSrc.batches,
    AdvScheduleSrc.epochs, AdvScheduleSrc.nIterInit, AdvScheduleSrc.sliceLo, AdvScheduleSrc.sliceHi,
    AdvScheduleSrc.incIter, AdvScheduleSrc.hitMax, AdvScheduleSrc.exitMax, AdvScheduleSrc.stopInit,
    AdvScheduleSrc.stopAcc, AdvScheduleSrc.cbStep, AdvScheduleSrc.exitStop, AdvScheduleSrc.body⟩ := rfl
  rw [h, lifted_rejects, lifted_batchSize, lifted_batches, lifted_epochs, lifted_slice.1, lifted_slice.2,
    lifted_counter.1, lifted_counter.2.1, lifted_counter.2.2, lifted_hitMax.1, lifted_hitMax.2, lifted_stop_rule.1,
    lifted_stop_rule.2.1, lifted_stop_rule.2.2, lifted_body_order]
  rfl

/-- shuffle: once per epoch, before the batch loop, only under `if self.shuffle:` (so `shuffle=False` never permutes) -/
theorem lifted_shuffle_placement : AdvScheduleSrc.shuffleAt = .perEpoch ∧ AdvScheduleSrc.shuffleGuarded = true := by
  decide

/-- `partial_fit` performs exactly one `train_step`, on the validated (X, y, A) it was given -/
theorem lifted_partial_fit_single_step : AdvScheduleSrc.partialFitTrainSteps = 1 := by decide

/-- stop predicate of a callback list: some callback returns True at step `k` -/
def anyStop (cbs : List (Int → Bool)) : Nat → Bool := fun k => cbs.any (fun cb => cb (k : Int))

/-- MAIN TIE. `fit` as interpreted from the source (lifted order, expressions, stop rule), for `n ≥ 1` rows, any
    batch_size / epochs / max_iter (positive or unset) and ANY list of callbacks: it is rejected exactly when both epochs
    and max_iter are unset; otherwise the trained state is the left fold of the single-step entry point (`partial_fit`)
    over the slices of the flat schedule, `n_iter_` is the number of scheduled steps and the recorded callback
    invocations are exactly: after every step that does not exhaust max_iter, every callback, in order, with that
    step's number. -/
theorem src_fit_eq_fold_partial_fit {σ : Type} (n : Nat) (bs ep mi : Option Nat) (cbs : List (Int → Bool))
    (ts : σ → Nat → Nat → σ) (s0 : σ) (hn : 0 < n) (hbs : ∀ k, bs = some k → 0 < k) :
    match schedule n bs ep mi (!cbs.isEmpty) (anyStop cbs) with
    | none => fitSrc n (enc bs) (enc ep) (enc mi) cbs ts s0 = none
    | some steps => ∃ st, fitSrc n (enc bs) (enc ep) (enc mi) cbs ts s0 = some st ∧
        st.state = partialFitSeq ts s0 steps ∧ st.nIter = (steps.length : Int) ∧
        st.calls = callsOf cbs.length steps := by
  unfold fitSrc
  rw [lifted_cfg]
  exact fit_reference n bs ep mi cbs ts s0 hn hbs

/-- both unset: ValueError, no step is made -/
theorem src_both_unset_rejected {σ : Type} (n : Nat) (bs : Option Nat) (cbs : List (Int → Bool))
    (ts : σ → Nat → Nat → σ) (s0 : σ) (hn : 0 < n) (hbs : ∀ k, bs = some k → 0 < k) :
    fitSrc n (enc bs) (-1) (-1) cbs ts s0 = none := by
  have := src_fit_eq_fold_partial_fit n bs none none cbs ts s0 hn hbs
  rw [both_unset_rejected] at this
  exact this

/-- `epochs * ceil(n / batch_size)`, or `max_iter` if that is smaller -/
def plannedSteps (n e : Nat) (bs mi : Option Nat) : Nat :=
  match mi with
  | none => e * ceilDiv n (batchSizeOf n bs)
  | some m => min (e * ceilDiv n (batchSizeOf n bs)) m

/-- number of steps of the lifted `fit` when no callback ever returns True: `epochs * ceil(n / batch_size)`, or
    `max_iter` if smaller -/
theorem src_steps_count {σ : Type} (n e : Nat) (bs mi : Option Nat) (cbs : List (Int → Bool))
    (ts : σ → Nat → Nat → σ) (s0 : σ) (hn : 0 < n) (hbs : ∀ k, bs = some k → 0 < k) (hmi : ∀ m, mi = some m → 0 < m)
    (hstop : ∀ k, anyStop cbs k = false) :
    ∃ st, fitSrc n (enc bs) (e : Int) (enc mi) cbs ts s0 = some st ∧ st.nIter = (plannedSteps n e bs mi : Int) := by
  have h := src_fit_eq_fold_partial_fit n bs (some e) mi cbs ts s0 hn hbs
  cases hs : schedule n bs (some e) mi (!cbs.isEmpty) (anyStop cbs) with
  | none => simp [schedule, epochsOf] at hs
  | some steps =>
    rw [hs] at h
    obtain ⟨st, h1, _, h3, _⟩ := h
    refine ⟨st, h1, ?_⟩
    have hc := steps_count n e bs mi _ _ steps (by intro k; simp [hstop k]) hmi hs
    rw [h3]
    congr 1
    cases mi <;> simpa [plannedSteps] using hc

/-- the slices of one epoch, computed from the LIFTED slice / batches / batch-size expressions, are consecutive,
    non-empty and cover rows `0 .. n` exactly -/
theorem src_slices_consecutive_cover (n : Nat) (bs : Option Nat) (hn : 0 < n) (hbs : ∀ k, bs = some k → 0 < k) :
    Covers 0 (epochSlicesSrc AdvScheduleSrc.cfg n (enc bs)) n := by
  have hb : 0 < batchSizeOf n bs := by
    cases bs with
    | none => exact hn
    | some k => exact hbs k rfl
  rw [lifted_cfg, epochSlicesSrc_ref n bs hn hbs]
  exact slices_consecutive_cover n _ hn hb

/-- callbacks of the lifted `fit`: invoked after every completed step except one that exhausts max_iter, every
    callback of the list in order, with step numbers 1, 2, … -/
theorem src_callbacks_numbered {σ : Type} (n : Nat) (bs ep mi : Option Nat) (cbs : List (Int → Bool))
    (ts : σ → Nat → Nat → σ) (s0 : σ) (st : St σ) (hn : 0 < n) (hbs : ∀ k, bs = some k → 0 < k)
    (h : fitSrc n (enc bs) (enc ep) (enc mi) cbs ts s0 = some st) :
    ∃ steps, schedule n bs ep mi (!cbs.isEmpty) (anyStop cbs) = some steps ∧
      st.calls = callsOf cbs.length steps ∧
      steps.map (·.stepNo) = List.range' 1 steps.length ∧
      (∀ s ∈ steps, s.callbackFired = (!cbs.isEmpty && !hitMax mi s.stepNo)) := by
  have h0 := src_fit_eq_fold_partial_fit n bs ep mi cbs ts s0 hn hbs
  cases hs : schedule n bs ep mi (!cbs.isEmpty) (anyStop cbs) with
  | none => rw [hs] at h0; rw [h0] at h; cases h
  | some steps =>
    rw [hs] at h0
    obtain ⟨st', h1, _, _, h4⟩ := h0
    rw [h1] at h; cases h
    exact ⟨steps, rfl, h4, callbacks_numbered n bs ep mi _ _ steps hs, callback_fired_iff n bs ep mi _ _ steps hs⟩

/-- the lifted `fit` stops at the first step at which some callback returns True -/
theorem src_stops_at_first_true {σ : Type} (n k e : Nat) (bs ep mi : Option Nat) (cbs : List (Int → Bool))
    (ts : σ → Nat → Nat → σ) (s0 : σ) (hn : 0 < n) (hbs : ∀ k, bs = some k → 0 < k)
    (he : epochsOf ep mi (batchesOf n (batchSizeOf n bs)) = some e)
    (hk0 : 0 < k) (hk : k ≤ e * ceilDiv n (batchSizeOf n bs)) (hs : anyStop cbs k = true)
    (hbefore : ∀ j, 0 < j → j < k → anyStop cbs j = false) (hmi : ∀ m, mi = some m → k < m) :
    ∃ st, fitSrc n (enc bs) (enc ep) (enc mi) cbs ts s0 = some st ∧ st.nIter = (k : Int) := by
  have hne : cbs.isEmpty = false := by
    cases cbs with
    | nil => simp [anyStop] at hs
    | cons _ _ => rfl
  have h0 := src_fit_eq_fold_partial_fit n bs ep mi cbs ts s0 hn hbs
  cases hsch : schedule n bs ep mi (!cbs.isEmpty) (anyStop cbs) with
  | none => simp [schedule, he] at hsch
  | some steps =>
    rw [hsch] at h0
    obtain ⟨st, h1, _, h3, _⟩ := h0
    refine ⟨st, h1, ?_⟩
    rw [hne] at hsch
    have := stops_at_first_true n k bs ep mi (anyStop cbs) steps e hsch he hk0 hk hs hbefore hmi
    rw [h3, this.1]

/-! #### one `fit` = the fold of the CONCRETE training step over the scheduled slices -/

/-- `fit` as interpreted from the source, run with the concrete `train_step` of the engine (`AdvStep.trainStep`: the
    projected-gradient rule for every predictor tensor, the plain gradient for every adversary tensor, any optimisers,
    autograd as the parameter `G`): the model after `fit` is the left fold of that step over the scheduled slices — the
    same model as after issuing these slices one by one through `partial_fit`. -/
theorem src_fit_is_fold_of_train_steps {τP τA : Type} (eng : Adversarial.Mat → Adversarial.Mat → Rat → Option Adversarial.Mat)
    (α : Rat) (optP : AdvStep.Opt τP) (optA : AdvStep.Opt τA)
    (G : List Adversarial.Mat → List Adversarial.Mat → Nat → Nat → AdvStep.Grads)
    (n : Nat) (bs ep mi : Option Nat) (cbs : List (Int → Bool)) (m0 : AdvStep.Model τP τA)
    (hn : 0 < n) (hbs : ∀ k, bs = some k → 0 < k) :
    match schedule n bs ep mi (!cbs.isEmpty) (anyStop cbs) with
    | none => fitSrc n (enc bs) (enc ep) (enc mi) cbs (AdvStep.trainStep eng α optP optA G) (some m0) = none
    | some steps => ∃ st, fitSrc n (enc bs) (enc ep) (enc mi) cbs (AdvStep.trainStep eng α optP optA G) (some m0) = some st ∧
        st.state = steps.foldl (fun m s => AdvStep.trainStep eng α optP optA G m s.lo s.hi) (some m0) ∧
        st.nIter = (steps.length : Int) := by
  have h := src_fit_eq_fold_partial_fit n bs ep mi cbs (AdvStep.trainStep eng α optP optA G) (some m0) hn hbs
  cases hs : schedule n bs ep mi (!cbs.isEmpty) (anyStop cbs) with
  | none => rw [hs] at h; exact h
  | some steps =>
    rw [hs] at h
    obtain ⟨st, h1, h2, h3, _⟩ := h
    exact ⟨st, h1, h2, h3⟩

/-! #### life cycle around the schedule: which call (re-)initialises the models (`Model/SchedLife.lean`) -/

section Lifecycle
open SchedLife

/-- the latch conditions as lifted from `fit`, `partial_fit`, `_validate_input`, `_raw_predict` -/
theorem lifted_lifecycle :
    (∀ h w, AdvScheduleSrc.fitReinit h w = (!h || !w)) ∧
    (∀ h, AdvScheduleSrc.partialFitFirstCall h = !h) ∧
    (∀ f c, AdvScheduleSrc.partialFitSetsClasses f c = (f && c)) ∧
    (∀ f r, AdvScheduleSrc.setupWhen f r = (!f || r)) ∧
    AdvScheduleSrc.rawPredictChecksFitted = true ∧
    AdvScheduleSrc.fitValidatesBeforeReject = true := by
  refine ⟨?_, ?_, ?_, ?_, by decide, by decide⟩
  · intro h w; cases h <;> cases w <;> decide
  · intro h; cases h <;> decide
  · intro f c; cases f <;> cases c <;> decide
  · intro f r; cases f <;> cases r <;> decide

/-- `predict` on an estimator that was never fitted raises NotFittedError -/
theorem predict_before_fit_rejected {σ : Type} : predict (fresh : Est σ) = .notFitted := by
  simp [predict, fresh, lifted_lifecycle.2.2.2.2.1]

/-- the FIRST `partial_fit` call builds the models (engine no. 1) and makes exactly one training step on them -/
theorem partial_fit_first_call_sets_up {σ : Type} (init : Nat → σ) (ts : σ → Nat → Nat → σ) (lo hi : Nat) (cg : Bool) :
    partialFit init ts fresh lo hi cg = (⟨true, true, some (ts (init 1) lo hi), 1, none⟩, .ok) := by
  obtain ⟨_, h2, h3, h4, _, _⟩ := lifted_lifecycle
  have h1 : AdvScheduleSrc.partialFitTrainSteps = 1 := lifted_partial_fit_single_step
  cases cg <;> simp [partialFit, fresh, validateInput, h2, h3, h4, h1, trainTimes]

/-- every later `partial_fit` call continues on the SAME models: one more step, no new engine, latches unchanged -/
theorem partial_fit_later_calls_continue {σ : Type} (init : Nat → σ) (ts : σ → Nat → Nat → σ) (m : σ) (g : Nat)
    (k : Option Int) (lo hi : Nat) (cg : Bool) :
    partialFit init ts ⟨true, true, some m, g, k⟩ lo hi cg = (⟨true, true, some (ts m lo hi), g, k⟩, .ok) := by
  obtain ⟨_, h2, h3, h4, _, _⟩ := lifted_lifecycle
  have h1 : AdvScheduleSrc.partialFitTrainSteps = 1 := lifted_partial_fit_single_step
  cases cg <;> simp [partialFit, validateInput, h2, h3, h4, h1, trainTimes]

/-- a list of slices issued through `partial_fit` on an already set-up estimator = the fold of the single step -/
theorem partialFitAll_continue {σ : Type} (init : Nat → σ) (ts : σ → Nat → Nat → σ) (steps : List Step) (m : σ) (g : Nat)
    (k : Option Int) :
    partialFitAll init ts ⟨true, true, some m, g, k⟩ steps = ⟨true, true, some (partialFitSeq ts m steps), g, k⟩ := by
  induction steps generalizing m with
  | nil => rfl
  | cons s rest ih =>
    simp only [partialFitAll, List.foldl_cons, partial_fit_later_calls_continue, partialFitSeq] at ih ⊢
    exact ih (ts m s.lo s.hi)

/-- `fit` with `warm_start = False` ALWAYS starts from newly initialised models (engine no. `gen + 1`), whatever
    happened to the estimator before; `n_iter_` counts the steps of THIS call -/
theorem fit_cold_start {σ : Type} (init : Nat → σ) (ts : σ → Nat → Nat → σ) (e : Est σ) (n : Nat) (bs ep mi : Option Nat)
    (cbs : List (Int → Bool)) (steps : List Step) (hn : 0 < n) (hbs : ∀ k, bs = some k → 0 < k)
    (hs : schedule n bs ep mi (!cbs.isEmpty) (anyStop cbs) = some steps) :
    SchedLife.fit init ts e n (enc bs) (enc ep) (enc mi) false cbs =
      (⟨true, true, some (partialFitSeq ts (init (e.gen + 1)) steps), e.gen + 1, some (steps.length : Int)⟩, .ok) := by
  obtain ⟨h1, _, _, h4, _, h6⟩ := lifted_lifecycle
  have hf := src_fit_eq_fold_partial_fit n bs ep mi cbs ts (init (e.gen + 1)) hn hbs
  rw [hs] at hf
  obtain ⟨st, hst, hs1, hs2, _⟩ := hf
  simp [SchedLife.fit, h6, validateInput, h1, h4, hst, hs1, hs2]

/-- `fit` with `warm_start = True` on an estimator that was fitted before CONTINUES on the current models (no new
    engine); `n_iter_` restarts and counts the steps of this call -/
theorem fit_warm_start_continues {σ : Type} (init : Nat → σ) (ts : σ → Nat → Nat → σ) (m : σ) (g : Nat) (k : Option Int)
    (n : Nat) (bs ep mi : Option Nat) (cbs : List (Int → Bool)) (steps : List Step) (hn : 0 < n)
    (hbs : ∀ k, bs = some k → 0 < k) (hs : schedule n bs ep mi (!cbs.isEmpty) (anyStop cbs) = some steps) :
    SchedLife.fit init ts ⟨true, true, some m, g, k⟩ n (enc bs) (enc ep) (enc mi) true cbs =
      (⟨true, true, some (partialFitSeq ts m steps), g, some (steps.length : Int)⟩, .ok) := by
  obtain ⟨h1, _, _, h4, _, h6⟩ := lifted_lifecycle
  have hf := src_fit_eq_fold_partial_fit n bs ep mi cbs ts m hn hbs
  rw [hs] at hf
  obtain ⟨st, hst, hs1, hs2, _⟩ := hf
  simp [SchedLife.fit, h6, validateInput, h1, h4, hst, hs1, hs2]

/-- a rejected configuration (epochs and max_iter unset) raises ValueError — but only AFTER `_validate_input` has set the
    estimator up (the guard stands behind it in the source), so the estimator then counts as fitted -/
theorem fit_rejected_after_setup {σ : Type} (init : Nat → σ) (ts : σ → Nat → Nat → σ) (n : Nat) (bs : Option Nat)
    (warm : Bool) (cbs : List (Int → Bool)) (hn : 0 < n) (hbs : ∀ k, bs = some k → 0 < k) :
    SchedLife.fit init ts fresh n (enc bs) (-1) (-1) warm cbs = (⟨true, true, some (init 1), 1, none⟩, .valueError) := by
  obtain ⟨h1, _, _, h4, _, h6⟩ := lifted_lifecycle
  have hf := src_both_unset_rejected (σ := σ) n bs cbs ts (init 1) hn hbs
  cases warm <;> simp [SchedLife.fit, fresh, h6, validateInput, h1, h4, hf]

/-- THE HISTORY CLAUSE, with the first-call set-up included: on two identically configured, never fitted estimators
    (same `init`), `fit` and the same slices issued one by one through `partial_fit` leave the same models, both on their
    first engine. -/
theorem fit_eq_partial_fit_twin {σ : Type} (init : Nat → σ) (ts : σ → Nat → Nat → σ) (n : Nat) (bs ep mi : Option Nat)
    (warm : Bool) (cbs : List (Int → Bool)) (steps : List Step) (hn : 0 < n) (hbs : ∀ k, bs = some k → 0 < k)
    (hs : schedule n bs ep mi (!cbs.isEmpty) (anyStop cbs) = some steps) (hne : steps ≠ []) :
    (SchedLife.fit init ts fresh n (enc bs) (enc ep) (enc mi) warm cbs).1.model = (partialFitAll init ts fresh steps).model ∧
    (SchedLife.fit init ts fresh n (enc bs) (enc ep) (enc mi) warm cbs).1.gen = 1 ∧ (partialFitAll init ts fresh steps).gen = 1 := by
  obtain ⟨h1, _, _, h4, _, h6⟩ := lifted_lifecycle
  have hf := src_fit_eq_fold_partial_fit n bs ep mi cbs ts (init 1) hn hbs
  rw [hs] at hf
  obtain ⟨st, hst, hs1, hs2, _⟩ := hf
  have hfit : SchedLife.fit init ts fresh n (enc bs) (enc ep) (enc mi) warm cbs =
      (⟨true, true, some (partialFitSeq ts (init 1) steps), 1, some (steps.length : Int)⟩, .ok) := by
    cases warm <;> simp [SchedLife.fit, fresh, h6, validateInput, h1, h4, hst, hs1, hs2]
  cases steps with
  | nil => exact absurd rfl hne
  | cons s rest =>
    have hp : partialFitAll init ts fresh (s :: rest) =
        ⟨true, true, some (partialFitSeq ts (ts (init 1) s.lo s.hi) rest), 1, none⟩ := by
      simp only [partialFitAll, List.foldl_cons, partial_fit_first_call_sets_up]
      exact partialFitAll_continue init ts rest _ 1 none
    rw [hfit, hp]
    simp [partialFitSeq]

end Lifecycle

/-! #### predict, from the lifted decision rules -/

/-- binary targets: `(pred >= self.threshold_value)`; default threshold 0.5 -/
theorem src_predict_binary (c0 c1 : Int) (t o : Rat) :
    (t ≤ o → predictBinarySrc [c0, c1] t o = some c1) ∧
    (o < t → predictBinarySrc [c0, c1] t o = some c0) ∧
    AdvScheduleSrc.thresholdDefault = 1 / 2 := by
  have hr : AdvScheduleSrc.binaryRule = .threshold .ge := by decide
  refine ⟨?_, ?_, by first | rfl | (simp only [AdvScheduleSrc.thresholdDefault]; norm_num)⟩
  · intro h
    simp [predictBinarySrc, hr, decideBinary, Cmp.eval, h, labelAt]
  · intro h
    have h2 : ¬ t ≤ o := not_le.mpr h
    simp [predictBinarySrc, hr, decideBinary, Cmp.eval, h2, labelAt]

/-- multiclass targets: the class at the FIRST arg-max position (the lifted rule is numpy's `argmax(pred, axis=1)`) -/
theorem src_predict_multi (classes : List Int) (o : List Rat) :
    predictMultiSrc classes o = predictMultiLabel classes o := by
  have hr : AdvScheduleSrc.multiclassRule = .argmaxRow := by decide
  simp [predictMultiSrc, hr, decideMulti, predictMultiLabel]

/-- regression: the raw output; and `predict` = raw output → decision rule → inverse label transform, in this order -/
theorem src_predict_pipeline : AdvScheduleSrc.continuousRule = .identity ∧
    AdvScheduleSrc.predictStages = [.rawPredict, .predictorFunction, .inverseTransform] := by decide

end Lifted

/-! ### non-vacuity (n = 7, batch_size = 3, epochs = 2, max_iter = 5) -/
example : schedule 7 (some 3) (some 2) (some 5) true (fun _ => false) =
    some [⟨0, 3, 1, true⟩, ⟨3, 6, 2, true⟩, ⟨6, 7, 3, true⟩, ⟨0, 3, 4, true⟩, ⟨3, 6, 5, false⟩] := by decide +kernel
example : schedule 7 (some 3) (some 2) none true (fun k => k == 4) =
    some [⟨0, 3, 1, true⟩, ⟨3, 6, 2, true⟩, ⟨6, 7, 3, true⟩, ⟨0, 3, 4, true⟩] := by decide +kernel
example : schedule 7 none none (some 2) false (fun _ => false) = some [⟨0, 7, 1, false⟩, ⟨0, 7, 2, false⟩] := by
  decide +kernel
example : (fitLoop 7 (some 3) (some 2) (some 5) true (fun _ => false)
    (fun (l : List (Nat × Nat)) lo hi => l ++ [(lo, hi)]) []).map (fun r => (r.state, r.nIter)) =
    some ([(0, 3), (3, 6), (6, 7), (0, 3), (3, 6)], 5) := by decide +kernel
example : epochSlices 7 3 = [(0, 3), (3, 6), (6, 7)] := by decide +kernel
example : argmaxFirst [1/4, 1/2, 1/2, 0] = 1 := by decide +kernel
example : predictMultiLabel [3, 5, 7, 9] [1/4, 1/2, 1/2, 0] = some 5 := by decide +kernel
example : predictBinaryLabel [3, 5] (1/2) (1/2) = some 5 := by decide +kernel
-- the interpreter at the lifted configuration: two callbacks, the second says True at step 4 (both are called there)
example : (SchedL.fitSrc 7 3 2 (-1) [fun _ => false, fun k => k == 4]
    (fun (l : List (Nat × Nat)) lo hi => l ++ [(lo, hi)]) []).map (fun r => (r.state, r.nIter, r.calls)) =
    some ([(0, 3), (3, 6), (6, 7), (0, 3)], 4, [(0, 1), (1, 1), (0, 2), (1, 2), (0, 3), (1, 3), (0, 4), (1, 4)]) := by
  decide +kernel
-- max_iter = 5 ends the run without calling the callback after step 5
example : (SchedL.fitSrc 7 3 2 5 [fun _ => false]
    (fun (l : List (Nat × Nat)) lo hi => l ++ [(lo, hi)]) []).map (fun r => (r.state, r.nIter, r.calls)) =
    some ([(0, 3), (3, 6), (6, 7), (0, 3), (3, 6)], 5, [(0, 1), (0, 2), (0, 3), (0, 4)]) := by decide +kernel
example : SchedL.epochSlicesSrc AdvScheduleSrc.cfg 7 3 = [(0, 3), (3, 6), (6, 7)] := by decide +kernel
-- life cycle: predict first (NotFitted), first partial_fit builds engine 1, a warm fit continues on it (2 more steps,
-- n_iter_ = 2), a cold fit builds engine 2 and trains it on one slice
example : (SchedLife.runOps [.predict, .pfit 0 2 false, .fit 4 2 1 (-1) true, .fit 4 (-1) 1 (-1) false]).1 =
    ["notfitted:0:x:x", "ok:1:x:1/1", "ok:1:2:1/3", "ok:2:1:2/1"] := by decide +kernel
example : SchedL.predictBinarySrc [3, 5] AdvScheduleSrc.thresholdDefault (1/2) = some 5 := by decide +kernel

end C17
