/-
C06X — composition theorems C06 ↔ C03: "the moment's constraint is satisfied" ⇒ "the user-facing fairness
metric of `fairlearn.metrics` is bounded".

Left-hand sides are stated with the moments model (`Moments.gamma`, `Moments.bound`, any event rule `ev`,
any number of rows / groups / control strata); right-hand sides with the named-metric model of C03
(`Fairness.named`, `Fairness.eodds`, `Fairness.run`) evaluated on the frame `Cross.toFrame S rows h` a user
would build from the same samples (unit weights, the moment's group as the sensitive feature, `S` = all
rows or one control stratum).  Bridge lemmas: `Lemmas/CrossRates.lean`, `Lemmas/CrossFrame.lean`.

Reading guide: `GammaLe ev rows ratio ut h eps` ⇔ `gamma(h) ≤ bound()` entrywise (`constraint_iff_bound`).
`h` is ANY rational prediction vector.  Hard predictions (`Hard h`, entries 0/1) are where MetricFrame's
`selection_rate` / `true_positive_rate` / `false_positive_rate` apply directly; for a randomised classifier
the same inequalities hold for the EXPECTED rates (`expected_rates_of_constraint`, via affinity of gamma).

Review R1: the generic theorems take the event's row selector as a hypothesis `hS : ∀ r, inE ev e r = (S r && r.y == c)`;
the last section instantiates it for the real rules `eventOf .tpr / .fpr / .eo` (`S := fun r => r.c == none` without
control features — NOT `fun _ => true`, which no real rule satisfies for rows carrying a control value —, and
`S := fun r => r.c == some c0` inside a stratum).
-/
import FairModel.Lemmas.CrossFrame
import FairModel.Lemmas.CrossError
import FairModel.Lemmas.CrossStrings

namespace C06
open Moments Cross Fairness Frame MetricPool XR Aggregate

/-! ### (0) the constraint, entrywise -/

/-- `gamma(h) ≤ bound()` entry by entry is `GammaLe` -/
theorem constraint_iff_bound (ev : Ev) (rows : List Row) (ratio : Rat) (ut : Util) (h : List Rat) (eps : Rat) :
    (∀ p ∈ (gamma ev rows ratio ut h).zip (bound ev rows eps), p.1 ≤ p.2) ↔ GammaLe ev rows ratio ut h eps :=
  (gammaLe_iff_bound ev rows ratio ut h eps).symm

/-- **constraint ⇔ rate inequalities**: `gamma(h) ≤ eps` entrywise iff for every observed (event, group):
    `ratio·mean_{e,g} − mean_e ≤ eps` and `ratio·mean_e − mean_{e,g} ≤ eps` (means of the utility) -/
theorem constraint_iff_rates (ev : Ev) (rows : List Row) (ratio : Rat) (ut : Util) (h : List Rat) (eps : Rat) :
    GammaLe ev rows ratio ut h eps ↔
      ∀ e g, Observed ev rows e g →
        ratio * mEG ev rows ut h e g - mE ev rows ut h e ≤ eps ∧
        ratio * mE ev rows ut h e - mEG ev rows ut h e g ≤ eps :=
  ⟨fun hg _ _ hobs => rates_of_gammaLe hg hobs, gammaLe_of_rates⟩

/-- difference bound: `|mean_{e,g} − mean_e| ≤ eps`, and `|mean_{e,g} − mean_{e,g'}| ≤ 2·eps` -/
theorem constraint_difference (ev : Ev) (rows : List Row) (ut : Util) (h : List Rat) (eps : Rat)
    (hg : GammaLe ev rows 1 ut h eps) (e g g' : String)
    (hobs : Observed ev rows e g) (hobs' : Observed ev rows e g') :
    |mEG ev rows ut h e g - mE ev rows ut h e| ≤ eps ∧
    |mEG ev rows ut h e g - mEG ev rows ut h e g'| ≤ 2 * eps :=
  ⟨abs_le_of_gammaLe hg hobs, abs_pair_le_of_gammaLe hg hobs hobs'⟩

/-- the "2" is sharp: two groups at `m − eps` and `m + eps` (equal sizes) satisfy the constraint with slack
    exactly `eps = 1/4` and differ by `2·eps` -/
theorem constraint_difference_two_sharp :
    let rows : List Row := [⟨0, "a", none⟩, ⟨0, "a", none⟩, ⟨0, "a", none⟩, ⟨0, "a", none⟩,
                            ⟨0, "b", none⟩, ⟨0, "b", none⟩, ⟨0, "b", none⟩, ⟨0, "b", none⟩]
    let h : List Rat := [1, 0, 0, 0, 1, 1, 1, 0]
    GammaLe (eventOf .dp) rows 1 defaultUtil h (1/4) ∧
    mEG (eventOf .dp) rows defaultUtil h "all" "b" - mEG (eventOf .dp) rows defaultUtil h "all" "a" = 2 * (1/4) := by
  decide +kernel

/-- the overall (event) mean is a frequency-weighted mean of the group means … -/
theorem mixing (ev : Ev) (rows : List Row) (u : List Rat) (e : String) :
    meanOn (inE ev e) rows u * (countE ev rows e : Rat)
      = ((groupVals rows).map (fun g => meanOn (inEG ev e g) rows u * (countEG ev rows e g : Rat))).sum ∧
    (countE ev rows e : Rat) = ((groupVals rows).map (fun g => (countEG ev rows e g : Rat))).sum :=
  mixing_identity ev rows u e

/-- … hence lies between the smallest and the largest of them -/
theorem overall_between_groups (ev : Ev) (rows : List Row) (u : List Rat) (e : String) (lo hi : Rat)
    (hb : ∀ g, Observed ev rows e g → lo ≤ meanOn (inEG ev e g) rows u ∧ meanOn (inEG ev e g) rows u ≤ hi)
    (hne : ∃ g, Observed ev rows e g) :
    lo ≤ meanOn (inE ev e) rows u ∧ meanOn (inE ev e) rows u ≤ hi :=
  mE_between ev rows u e lo hi hb hne

/-! ### (1) the dictionary between the frame's base rates and the moment's means -/

/-- `spec` (a C03 base-rate specification) on the frame `frows` reads off the means of event `e` -/
structure Dict (ev : Ev) (rows : List Row) (h : List Rat) (e : String) (spec : List Dat → Rat)
    (frows : List (Frame.Row Dat)) : Prop where
  grp : ∀ r' ∈ frows, ∃ g, Observed ev rows e g ∧ spec (groupOf frows r') = mEG ev rows defaultUtil h e g
  all : spec (slice frows) = mE ev rows defaultUtil h e

theorem mEG_default (ev : Ev) (rows : List Row) (h : List Rat) (e g : String) (hl : h.length = rows.length) :
    mEG ev rows defaultUtil h e g = meanOn (inEG ev e g) rows h := by
  unfold mEG; rw [pred_default rows h hl]

theorem mE_default (ev : Ev) (rows : List Row) (h : List Rat) (e : String) (hl : h.length = rows.length) :
    mE ev rows defaultUtil h e = meanOn (inE ev e) rows h := by
  unfold mE; rw [pred_default rows h hl]

theorem observed_of_inE {ev : Ev} {rows : List Row} {e : String} {r : Row} (hr : r ∈ rows)
    (he : inE ev e r = true) : Observed ev rows e r.g :=
  ⟨r, hr, by simpa [inE] using he, rfl⟩

/-- selection rate on the frame of the rows of event `e` (demographic parity: all rows, or one control stratum) -/
theorem selrate_dict (ev : Ev) (rows : List Row) (h : List Rat) (e : String)
    (hl : h.length = rows.length) (hh : Hard h) :
    Dict ev rows h e selRateSpec (toFrame (inE ev e) rows h) := by
  constructor
  · intro r' hr'
    obtain ⟨t, rfl, ht, hs⟩ := toFrame_group_mem hr'
    refine ⟨t.1.g, observed_of_inE ht hs, ?_⟩
    rw [groupOf_toFrame, selRateSpec_selDat _ rows h hl hh, mEG_default ev rows h e _ hl]
    rfl
  · rw [slice_toFrame, selRateSpec_selDat _ rows h hl hh, mE_default ev rows h e hl]

/-- TPR (`c = 1`) / FPR (`c = 0`) on the frame of stratum `S` (ALL labels), when event `e` selects the
    label-`c` rows of `S` and every group of `S` has a label-`c` row -/
theorem rate_dict (ev : Ev) (rows : List Row) (h : List Rat) (e : String) (S : Row → Bool) (c : Int)
    (spec : List Dat → Rat)
    (hspec : ∀ P : Row → Bool, spec (selDat P rows h) = meanOn (fun r => P r && (r.y == c)) rows h)
    (hl : h.length = rows.length)
    (hS : ∀ r, inE ev e r = (S r && (r.y == c)))
    (hcov : ∀ r ∈ rows, S r = true → ∃ r2 ∈ rows, S r2 = true ∧ r2.g = r.g ∧ r2.y = c) :
    Dict ev rows h e spec (toFrame S rows h) := by
  constructor
  · intro r' hr'
    obtain ⟨t, rfl, ht, hs⟩ := toFrame_group_mem hr'
    obtain ⟨r2, hr2, hs2, hg2, hy2⟩ := hcov t.1 ht hs
    have hobs : Observed ev rows e t.1.g := by
      rw [← hg2]
      exact observed_of_inE hr2 (by rw [hS]; simp [hs2, hy2])
    refine ⟨t.1.g, hobs, ?_⟩
    rw [groupOf_toFrame, hspec, mEG_default ev rows h e _ hl]
    congr 1
    funext r
    rw [inEG_eq, hS]
    cases S r <;> cases (r.g == t.1.g) <;> cases (r.y == c) <;> rfl
  · rw [slice_toFrame, hspec, mE_default ev rows h e hl]
    congr 1
    funext r
    exact (hS r).symm

/-! ### (2) difference bounds -/

section diff
variable {ev : Ev} {rows : List Row} {h : List Rat} {e : String} {spec : List Dat → Rat}
  {frows : List (Frame.Row Dat)} {m : Metric}

/-- **constraint ⇒ MetricFrame difference**: if the difference constraint holds with slack `eps`, the metric
    whose per-group values are the moment's means has `difference(method="to_overall") ≤ eps` and
    `difference(method="between_groups") ≤ 2·eps` -/
theorem difference_le_of_constraint (hv : C03.Valid 1 frows) (hf : FiniteOn (eval m) spec frows)
    (hd : Dict ev rows h e spec frows) {eps : Rat} (hg : GammaLe ev rows 1 defaultUtil h eps) :
    (∃ D, run m .difference .toOverall true 1 frows = .value (fin D) ∧ 0 ≤ D ∧ D ≤ eps) ∧
    (∃ D, run m .difference .between true 1 frows = .value (fin D) ∧ 0 ≤ D ∧ D ≤ 2 * eps) := by
  constructor
  · apply diff_overall_le hv hf
    intro r hr
    obtain ⟨g, hobs, hgv⟩ := hd.grp r hr
    rw [hgv, hd.all]
    exact abs_le_of_gammaLe hg hobs
  · apply diff_between_le hv hf
    intro r hr r' hr'
    obtain ⟨g, hobs, hgv⟩ := hd.grp r hr
    obtain ⟨g', hobs', hgv'⟩ := hd.grp r' hr'
    rw [hgv, hgv']
    exact abs_pair_le_of_gammaLe hg hobs hobs'

end diff

/-- **DemographicParity(difference_bound = eps) satisfied ⇒ demographic_parity_difference ≤ eps (to_overall),
    ≤ 2·eps (between_groups)** — for a hard predictor `h`, on the rows of event `e`: `e = "all"` (no control
    features: every row, `dp_all_rows`) or `e = "control=c,all"` (the rows of control stratum `c`,
    `dp_stratum_rows`), i.e. per stratum -/
theorem dp_difference_le_of_constraint (ev : Ev) (rows : List Row) (h : List Rat) (eps : Rat) (e : String)
    (hl : h.length = rows.length) (hh : Hard h) (hne : ∃ g, Observed ev rows e g)
    (hg : GammaLe ev rows 1 defaultUtil h eps) :
    (∃ D, named "demographic_parity_difference" .toOverall 1 (toFrame (inE ev e) rows h) = some (.value (fin D)) ∧
      0 ≤ D ∧ D ≤ eps) ∧
    (∃ D, named "demographic_parity_difference" .between 1 (toFrame (inE ev e) rows h) = some (.value (fin D)) ∧
      0 ≤ D ∧ D ≤ 2 * eps) := by
  obtain ⟨g0, hg0⟩ := hne
  have hne' : rows.filter (inE ev e) ≠ [] := List.ne_nil_of_length_pos (countE_pos ev rows e g0 hg0)
  have hv := toFrame_valid (inE ev e) rows h hl hne'
  have := difference_le_of_constraint (m := .selrate) hv (C03.selrate_finiteOn hv) (selrate_dict ev rows h e hl hh) hg
  simpa only [C03.demographic_parity_difference_def] using And.intro
    (this.1.imp fun D hD => ⟨congrArg some hD.1, hD.2⟩) (this.2.imp fun D hD => ⟨congrArg some hD.1, hD.2⟩)

/-- mean prediction on the frame of the rows of event `e` — ANY rational prediction vector (soft scores, or the
    expected predictions of a randomised classifier) -/
theorem meanpred_dict (ev : Ev) (rows : List Row) (h : List Rat) (e : String) (hl : h.length = rows.length) :
    Dict ev rows h e meanPredSpec (toFrame (inE ev e) rows h) := by
  constructor
  · intro r' hr'
    obtain ⟨t, rfl, ht, hs⟩ := toFrame_group_mem hr'
    refine ⟨t.1.g, observed_of_inE ht hs, ?_⟩
    rw [groupOf_toFrame, meanPredSpec_selDat _ rows h hl, mEG_default ev rows h e _ hl]
    rfl
  · rw [slice_toFrame, meanPredSpec_selDat _ rows h hl, mE_default ev rows h e hl]

/-- **soft / expected predictions**: DemographicParity satisfied ⇒
    `MetricFrame(metrics=mean_prediction, …).difference(method="to_overall") ≤ eps`, `"between_groups" ≤ 2·eps`
    (for hard predictions `mean_prediction` = `selection_rate`, i.e. this is demographic_parity_difference) -/
theorem meanpred_difference_le_of_constraint (ev : Ev) (rows : List Row) (h : List Rat) (eps : Rat) (e : String)
    (hl : h.length = rows.length) (hne : ∃ g, Observed ev rows e g)
    (hg : GammaLe ev rows 1 defaultUtil h eps) :
    (∃ D, run .meanpred .difference .toOverall true 1 (toFrame (inE ev e) rows h) = .value (fin D) ∧ 0 ≤ D ∧ D ≤ eps) ∧
    (∃ D, run .meanpred .difference .between true 1 (toFrame (inE ev e) rows h) = .value (fin D) ∧ 0 ≤ D ∧ D ≤ 2 * eps) := by
  obtain ⟨g0, hg0⟩ := hne
  have hne' : rows.filter (inE ev e) ≠ [] := List.ne_nil_of_length_pos (countE_pos ev rows e g0 hg0)
  have hv := toFrame_valid (inE ev e) rows h hl hne'
  exact difference_le_of_constraint (m := .meanpred) hv (meanpred_finiteOn hv) (meanpred_dict ev rows h e hl) hg

/-- which rows the DP events select: all rows when there are no control features … -/
theorem dp_all_rows (rows : List Row) (h : List Rat) (hc : ∀ r ∈ rows, r.c = none) :
    toFrame (inE (eventOf .dp) MomentsSrc.allEvent) rows h = toFrame (fun _ => true) rows h := by
  unfold toFrame
  congr 1
  apply List.filter_congr
  intro t ht
  rw [dp_event_selects, hc t.1 (List.of_mem_zip ht).1]; rfl

/-- … and exactly the rows of stratum `c0` for the event `control=c0,all` -/
theorem dp_stratum_rows (rows : List Row) (h : List Rat) (c0 : String) :
    toFrame (inE (eventOf .dp) (MomentsSrc.ctrlFormat c0 MomentsSrc.allEvent)) rows h
      = toFrame (fun r => r.c == some c0) rows h := by
  unfold toFrame
  congr 1
  apply List.filter_congr
  intro t _
  rw [dp_event_selects_in_stratum]

/-- **TruePositiveRateParity satisfied ⇒ equal_opportunity_difference ≤ eps / 2·eps** on stratum `S`
    (`S = fun _ => true` without control features), provided every group of `S` has a positive example -/
theorem eopp_difference_le_of_constraint (ev : Ev) (rows : List Row) (h : List Rat) (eps : Rat) (e : String)
    (S : Row → Bool) (hl : h.length = rows.length) (hh : Hard h) (hy : ∀ r ∈ rows, r.y = 0 ∨ r.y = 1)
    (hne : rows.filter S ≠ [])
    (hS : ∀ r, inE ev e r = (S r && (r.y == 1)))
    (hcov : ∀ r ∈ rows, S r = true → ∃ r2 ∈ rows, S r2 = true ∧ r2.g = r.g ∧ r2.y = 1)
    (hg : GammaLe ev rows 1 defaultUtil h eps) :
    (∃ D, named "equal_opportunity_difference" .toOverall 1 (toFrame S rows h) = some (.value (fin D)) ∧
      0 ≤ D ∧ D ≤ eps) ∧
    (∃ D, named "equal_opportunity_difference" .between 1 (toFrame S rows h) = some (.value (fin D)) ∧
      0 ≤ D ∧ D ≤ 2 * eps) := by
  have hv := toFrame_valid S rows h hl hne
  have hb := toFrame_binary S rows h hy hh
  have hd := rate_dict ev rows h e S 1 tprSpec (fun P => tprSpec_selDat P rows h hl hh) hl hS hcov
  have := difference_le_of_constraint (m := .tpr) hv (C03.tpr_finiteOn hb) hd hg
  simpa only [C03.equal_opportunity_difference_def] using And.intro
    (this.1.imp fun D hD => ⟨congrArg some hD.1, hD.2⟩) (this.2.imp fun D hD => ⟨congrArg some hD.1, hD.2⟩)

/-- **the coverage hypothesis is necessary**: group "b" has no positive example, so TruePositiveRateParity
    places NO constraint on it (its index has no entry for "b") and is satisfied with slack 0, while
    `true_positive_rate` of "b" is 0 by convention and equal_opportunity_difference is 1 -/
theorem eopp_uncovered_group_counterexample :
    let rows : List Row := [⟨1, "a", none⟩, ⟨0, "b", none⟩]
    let h : List Rat := [1, 0]
    GammaLe (eventOf .tpr) rows 1 defaultUtil h 0 ∧
    named "equal_opportunity_difference" .between 1 (toFrame (fun _ => true) rows h) = some (.value (fin 1)) := by
  decide +kernel

/-- **FalsePositiveRateParity satisfied ⇒ false_positive_rate difference ≤ eps / 2·eps** -/
theorem fpr_difference_le_of_constraint (ev : Ev) (rows : List Row) (h : List Rat) (eps : Rat) (e : String)
    (S : Row → Bool) (hl : h.length = rows.length) (hh : Hard h) (hy : ∀ r ∈ rows, r.y = 0 ∨ r.y = 1)
    (hne : rows.filter S ≠ [])
    (hS : ∀ r, inE ev e r = (S r && (r.y == 0)))
    (hcov : ∀ r ∈ rows, S r = true → ∃ r2 ∈ rows, S r2 = true ∧ r2.g = r.g ∧ r2.y = 0)
    (hg : GammaLe ev rows 1 defaultUtil h eps) :
    (∃ D, run .fpr .difference .toOverall true 1 (toFrame S rows h) = .value (fin D) ∧ 0 ≤ D ∧ D ≤ eps) ∧
    (∃ D, run .fpr .difference .between true 1 (toFrame S rows h) = .value (fin D) ∧ 0 ≤ D ∧ D ≤ 2 * eps) := by
  have hv := toFrame_valid S rows h hl hne
  have hb := toFrame_binary S rows h hy hh
  have hd := rate_dict ev rows h e S 0 fprSpec (fun P => fprSpec_selDat P rows h hl hh) hl hS hcov
  exact difference_le_of_constraint (m := .fpr) hv (C03.fpr_finiteOn hb) hd hg

/-- **EqualizedOdds satisfied ⇒ equalized_odds_difference (agg = worst_case) ≤ eps (to_overall), ≤ 2·eps
    (between_groups)**: `e1` / `e0` are the events selecting the positives / negatives of stratum `S`; every
    group of `S` has both labels -/
theorem eodds_difference_le_of_constraint (ev : Ev) (rows : List Row) (h : List Rat) (eps : Rat) (e1 e0 : String)
    (S : Row → Bool) (hl : h.length = rows.length) (hh : Hard h) (hy : ∀ r ∈ rows, r.y = 0 ∨ r.y = 1)
    (hne : rows.filter S ≠ [])
    (hS1 : ∀ r, inE ev e1 r = (S r && (r.y == 1))) (hS0 : ∀ r, inE ev e0 r = (S r && (r.y == 0)))
    (hcov1 : ∀ r ∈ rows, S r = true → ∃ r2 ∈ rows, S r2 = true ∧ r2.g = r.g ∧ r2.y = 1)
    (hcov0 : ∀ r ∈ rows, S r = true → ∃ r2 ∈ rows, S r2 = true ∧ r2.g = r.g ∧ r2.y = 0)
    (hg : GammaLe ev rows 1 defaultUtil h eps) :
    (∃ D, eodds "equalized_odds_difference" .toOverall .worstCase 1 (toFrame S rows h) = some (.value (fin D)) ∧
      0 ≤ D ∧ D ≤ eps) ∧
    (∃ D, eodds "equalized_odds_difference" .between .worstCase 1 (toFrame S rows h) = some (.value (fin D)) ∧
      0 ≤ D ∧ D ≤ 2 * eps) := by
  have hv := toFrame_valid S rows h hl hne
  have hb := toFrame_binary S rows h hy hh
  have hd1 := rate_dict ev rows h e1 S 1 tprSpec (fun P => tprSpec_selDat P rows h hl hh) hl hS1 hcov1
  have hd0 := rate_dict ev rows h e0 S 0 fprSpec (fun P => fprSpec_selDat P rows h hl hh) hl hS0 hcov0
  obtain ⟨⟨Dt, ht, ht0, hte⟩, ⟨Dt', ht', ht0', hte'⟩⟩ :=
    difference_le_of_constraint (m := .tpr) hv (C03.tpr_finiteOn hb) hd1 hg
  obtain ⟨⟨Df, hf, hf0, hfe⟩, ⟨Df', hf', hf0', hfe'⟩⟩ :=
    difference_le_of_constraint (m := .fpr) hv (C03.fpr_finiteOn hb) hd0 hg
  constructor
  · obtain ⟨a, b, ha, hb', he⟩ := C03.eodds_def "equalized_odds_difference" "difference" "max" .difference
      (by decide +kernel) (by decide +kernel) .toOverall .worstCase 1 _ hv hb
    rw [ht] at ha; rw [hf] at hb'
    injection ha with ha; injection hb' with hb'
    subst ha; subst hb'
    refine ⟨max Dt Df, ?_, le_trans ht0 (le_max_left _ _), max_le hte hfe⟩
    rw [he]; simp only [C03.pyFold_max_fin, Option.map_some]
  · obtain ⟨a, b, ha, hb', he⟩ := C03.eodds_def "equalized_odds_difference" "difference" "max" .difference
      (by decide +kernel) (by decide +kernel) .between .worstCase 1 _ hv hb
    rw [ht'] at ha; rw [hf'] at hb'
    injection ha with ha; injection hb' with hb'
    subst ha; subst hb'
    refine ⟨max Dt' Df', ?_, le_trans ht0' (le_max_left _ _), max_le hte' hfe'⟩
    rw [he]; simp only [C03.pyFold_max_fin, Option.map_some]

/-- the event rule of the EqualizedOdds moment without control features selects by label -/
theorem eo_event_selects (r : Row) (hc : r.c = none) (hy : r.y = 0 ∨ r.y = 1) (c : Int) (hc' : c = 0 ∨ c = 1) :
    inE (eventOf .eo) (MomentsSrc.labelEvent c) r = (true && (r.y == c)) := by
  unfold inE eventOf baseEvent
  rw [hc]
  rcases hy with h | h <;> rcases hc' with rfl | rfl <;> simp only [h] <;> decide +kernel

/-! ### (3) ratio bounds -/

theorem meanOn_nonneg (p : Row → Bool) (rows : List Row) (u : List Rat) (hu : ∀ x ∈ u, 0 ≤ x) :
    0 ≤ meanOn p rows u := by
  unfold meanOn
  apply div_nonneg _ (by exact_mod_cast Nat.zero_le _)
  induction rows generalizing u with
  | nil => simp
  | cons r rs ih =>
    cases u with
    | nil => simp
    | cons x xs =>
      simp only [List.map_cons, dot_cons]
      have h1 := hu x (by simp)
      have h2 := ih xs (fun y hy => hu y (by simp [hy]))
      have h3 : 0 ≤ ind (p r) := by unfold ind; split <;> norm_num
      exact add_nonneg (mul_nonneg h3 h1) h2

/-- **ratio constraint ⇒ rate window**: with `ratio_bound = r ∈ (0,1]` and `ratio_bound_slack = eps`, every group
    mean lies in `[r·m − eps, (m + eps)/r]`, `m` the event mean -/
theorem constraint_ratio_window (ev : Ev) (rows : List Row) (ratio : Rat) (ut : Util) (h : List Rat) (eps : Rat)
    (hr : 0 < ratio) (hg : GammaLe ev rows ratio ut h eps) (e g : String) (hobs : Observed ev rows e g) :
    ratio * mE ev rows ut h e - eps ≤ mEG ev rows ut h e g ∧
    mEG ev rows ut h e g ≤ (mE ev rows ut h e + eps) / ratio :=
  ratio_window hr hg hobs

/-- **DemographicParity(ratio_bound = r, ratio_bound_slack = eps) satisfied ⇒ lower bounds on
    demographic_parity_ratio**, `m` = overall selection rate of the event's rows, `m > 0`, `eps ≥ 0`:
      between_groups:  `ratio ≥ r·(r·m − eps)/(m + eps)`;
      to_overall:      `ratio ≥ (r·m − eps)/m = r − eps/m`.
    Both are positive exactly when `r·m > eps`, and both are attained (`dp_ratio_bounds_sharp`). -/
theorem dp_ratio_ge_of_constraint (ev : Ev) (rows : List Row) (h : List Rat) (ratio eps : Rat) (e : String)
    (hl : h.length = rows.length) (hh : Hard h) (hne : ∃ g, Observed ev rows e g)
    (hr : 0 < ratio) (hr1 : ratio ≤ 1) (he : 0 ≤ eps)
    (hm : 0 < mE ev rows defaultUtil h e)
    (hg : GammaLe ev rows ratio defaultUtil h eps) :
    (∃ ρ, named "demographic_parity_ratio" .between 1 (toFrame (inE ev e) rows h) = some (.value (fin ρ)) ∧
      ratio * (ratio * mE ev rows defaultUtil h e - eps) / (mE ev rows defaultUtil h e + eps) ≤ ρ) ∧
    (∃ ρ, named "demographic_parity_ratio" .toOverall 1 (toFrame (inE ev e) rows h) = some (.value (fin ρ)) ∧
      (ratio * mE ev rows defaultUtil h e - eps) / mE ev rows defaultUtil h e ≤ ρ) := by
  obtain ⟨g0, hg0⟩ := hne
  have hne' : rows.filter (inE ev e) ≠ [] := List.ne_nil_of_length_pos (countE_pos ev rows e g0 hg0)
  have hv := toFrame_valid (inE ev e) rows h hl hne'
  have hf := C03.selrate_finiteOn hv
  have hd := selrate_dict ev rows h e hl hh
  set m := mE ev rows defaultUtil h e with hmdef
  constructor
  · obtain ⟨mn, mx, ⟨⟨r1, hr1', e1⟩, _⟩, ⟨⟨r2, hr2, e2⟩, hmx⟩, h3⟩ := C03.ratio_between_spec hv hf
    obtain ⟨g1, ho1, hv1⟩ := hd.grp r1 hr1'
    obtain ⟨g2, ho2, hv2⟩ := hd.grp r2 hr2
    have hmn0 : 0 ≤ mn := by
      rw [e1, hv1, mEG_default ev rows h e g1 hl]
      exact meanOn_nonneg _ rows h (fun x hx => (hh.soft x hx).1)
    have w1 := (ratio_window hr hg ho1).1
    have w2 := (ratio_window hr hg ho2).2
    rw [← hv1, ← e1] at w1
    rw [← hv2, ← e2] at w2
    -- the overall mean is at most the largest group mean
    have hmle : m ≤ mx := by
      have := (mE_between ev rows h e 0 mx (fun g hobs => by
        refine ⟨meanOn_nonneg _ rows h (fun x hx => (hh.soft x hx).1), ?_⟩
        -- every observed group occurs in the frame
        obtain ⟨r, hr, hre, hrg⟩ := hobs
        obtain ⟨i, hi, hget⟩ := List.getElem_of_mem hr
        have hi' : i < h.length := by omega
        have hz : (r, h[i]) ∈ rows.zip h := by
          rw [List.mem_iff_getElem]
          exact ⟨i, by simp [hi, hi'], by simp [hget]⟩
        have hmem : frow (r, h[i]) ∈ toFrame (inE ev e) rows h :=
          List.mem_map.mpr ⟨(r, h[i]), List.mem_filter.mpr ⟨hz, by simp [inE, hre]⟩, rfl⟩
        have := hmx _ hmem
        rw [groupOf_toFrame, selRateSpec_selDat _ rows h hl hh] at this
        have e3 : (fun r' : Row => inE ev e r' && (r'.g == r.g)) = inEG ev e g := by
          funext r'; rw [inEG_eq, hrg]
        simp only at this
        rw [e3] at this
        exact this) ⟨g0, hg0⟩).2
      rw [hmdef, mE_default ev rows h e hl]; exact this
    have hmx0 : 0 < mx := lt_of_lt_of_le hm hmle
    refine ⟨mn / mx, ?_, ratio_between_lower hr (by linarith) hmx0 hmn0 w1 w2⟩
    rw [C03.demographic_parity_ratio_def, h3, div_fin_fin, if_neg (ne_of_gt hmx0)]
  · have ho : selRateSpec (slice (toFrame (inE ev e) rows h)) ≠ 0 := by rw [hd.all]; exact ne_of_gt hm
    obtain ⟨ρ, h1, ⟨r, hr', hρ⟩, _⟩ := C03.ratio_overall_spec hv hf ho
    obtain ⟨g1, ho1, hv1⟩ := hd.grp r hr'
    refine ⟨ρ, by rw [C03.demographic_parity_ratio_def, h1], ?_⟩
    rw [hρ, hv1, hd.all]
    obtain ⟨w1, w2⟩ := ratio_window hr hg ho1
    exact ratio_overall_lower hr hr1 he hm w1 w2

/-- both ratio constants are attained: `r = 1`, `eps = 1/4`, overall rate `1/2`, groups at `1/4` and `3/4`:
    between_groups ratio `= 1/3 = r(r·m − eps)/(m + eps)`, to_overall ratio `= 1/2 = (r·m − eps)/m` -/
theorem dp_ratio_bounds_sharp :
    let rows : List Row := [⟨0, "a", none⟩, ⟨0, "a", none⟩, ⟨0, "a", none⟩, ⟨0, "a", none⟩,
                            ⟨0, "b", none⟩, ⟨0, "b", none⟩, ⟨0, "b", none⟩, ⟨0, "b", none⟩]
    let h : List Rat := [1, 0, 0, 0, 1, 1, 1, 0]
    GammaLe (eventOf .dp) rows 1 defaultUtil h (1/4) ∧ mE (eventOf .dp) rows defaultUtil h "all" = 1/2 ∧
    named "demographic_parity_ratio" .between 1 (toFrame (inE (eventOf .dp) "all") rows h)
      = some (.value (fin (1 * (1 * (1/2) - 1/4) / (1/2 + 1/4)))) ∧
    named "demographic_parity_ratio" .toOverall 1 (toFrame (inE (eventOf .dp) "all") rows h)
      = some (.value (fin ((1 * (1/2) - 1/4) / (1/2)))) := by
  decide +kernel

/-! ### (4) randomised classifiers: expected rates -/

open Finset in
/-- **expected rates of a `weights_`-mixture**: if the constraint holds for the expected prediction vector
    `Σ_t Q_t·h_t` of a randomised classifier (this is the vector `gamma(Q)` is evaluated at, because gamma is
    affine: `gamma_of_mixture`), then for every observed (event, group) the EXPECTED group rate
    `Σ_t Q_t·rate_{e,g}(h_t)` is within `eps` of the expected event rate, and two groups within `2·eps` -/
theorem expected_rates_of_constraint (ev : Ev) (rows : List Row) (Q : Nat → Rat) (H : Nat → List Rat) (n : Nat)
    (eps : Rat) (hH : ∀ t < n, (H t).length = rows.length)
    (hg : GammaLe ev rows 1 defaultUtil (mixN rows.length Q H n) eps)
    (e g g' : String) (hobs : Observed ev rows e g) (hobs' : Observed ev rows e g') :
    |∑ t ∈ range n, Q t * meanOn (inEG ev e g) rows (H t) - ∑ t ∈ range n, Q t * meanOn (inE ev e) rows (H t)| ≤ eps ∧
    |∑ t ∈ range n, Q t * meanOn (inEG ev e g) rows (H t) - ∑ t ∈ range n, Q t * meanOn (inEG ev e g') rows (H t)|
      ≤ 2 * eps := by
  have hlen := mixN_length rows.length Q H n hH
  have h1 := abs_le_of_gammaLe hg hobs
  have h2 := abs_pair_le_of_gammaLe hg hobs hobs'
  rw [mEG_default _ _ _ _ _ hlen, mE_default _ _ _ _ hlen, meanOn_mixN _ rows Q H n hH,
    meanOn_mixN _ rows Q H n hH] at h1
  rw [mEG_default _ _ _ _ _ hlen, mEG_default _ _ _ _ _ hlen, meanOn_mixN _ rows Q H n hH,
    meanOn_mixN _ rows Q H n hH] at h2
  exact ⟨h1, h2⟩

open Finset in
/-- gamma is affine in the predictor: for weights summing to 1, `gamma(Σ_t Q_t h_t) = Σ_t Q_t gamma(h_t)`
    entry by entry (any utilities, any ratio) -/
theorem gamma_of_mixture (ev : Ev) (rows : List Row) (ratio : Rat) (ut : Util) (Q : Nat → Rat) (H : Nat → List Rat)
    (n : Nat) (k : Moments.Key) (hH : ∀ t < n, (H t).length = rows.length) (hQ : ∑ t ∈ range n, Q t = 1) :
    gammaAt ev rows ratio ut (mixN rows.length Q H n) k = ∑ t ∈ range n, Q t * gammaAt ev rows ratio ut (H t) k :=
  gammaAt_mixN ev rows ratio ut Q H n k hH hQ

/-! ### non-vacuity: concrete rows meeting the hypotheses -/

def xRows : List Row :=
  [⟨1, "a", none⟩, ⟨0, "a", none⟩, ⟨1, "a", none⟩, ⟨0, "a", none⟩,
   ⟨1, "b", none⟩, ⟨0, "b", none⟩, ⟨1, "b", none⟩, ⟨0, "b", none⟩]
def xH : List Rat := [1, 0, 1, 1, 1, 0, 0, 0]

example : Hard xH := by decide +kernel
example : xH.length = xRows.length := by decide +kernel
example : GammaLe (eventOf .dp) xRows 1 defaultUtil xH (1/4) := by decide +kernel
example : ¬ GammaLe (eventOf .dp) xRows 1 defaultUtil xH (1/5) := by decide +kernel
example : Observed (eventOf .dp) xRows "all" "b" := ⟨⟨1, "b", none⟩, by decide +kernel⟩
example : named "demographic_parity_difference" .toOverall 1 (toFrame (inE (eventOf .dp) "all") xRows xH)
    = some (.value (fin (1/4))) := by decide +kernel
example : named "demographic_parity_difference" .between 1 (toFrame (inE (eventOf .dp) "all") xRows xH)
    = some (.value (fin (1/2))) := by decide +kernel
-- equalized odds: TPR a = 1, b = 1/2; FPR a = 1/2, b = 0: overall TPR 3/4, FPR 1/4, slack 1/4
example : GammaLe (eventOf .eo) xRows 1 defaultUtil xH (1/4) := by decide +kernel
example : ∀ r ∈ xRows, (fun _ => true) r = true → ∃ r2 ∈ xRows, (fun _ => true) r2 = true ∧ r2.g = r.g ∧ r2.y = 1 := by
  decide +kernel
example : eodds "equalized_odds_difference" .toOverall .worstCase 1 (toFrame (fun _ => true) xRows xH)
    = some (.value (fin (1/4))) := by decide +kernel
example : eodds "equalized_odds_difference" .between .worstCase 1 (toFrame (fun _ => true) xRows xH)
    = some (.value (fin (1/2))) := by decide +kernel
-- ratio constraint r = 1/2, slack 1/8: rates a = 3/4, b = 1/4, overall 1/2
example : GammaLe (eventOf .dp) xRows (1/2) defaultUtil xH (1/8) := by decide +kernel
example : (0 : Rat) < mE (eventOf .dp) xRows defaultUtil xH "all" := by decide +kernel
-- a 2-component mixture: weights 1/2, 1/2 of xH and the all-zero predictor
example : GammaLe (eventOf .dp) xRows 1 defaultUtil
    (mixN xRows.length (fun t => if t < 2 then 1/2 else 0) (fun t => if t = 0 then xH else List.replicate 8 0) 2) (1/8) := by
  decide +kernel
-- soft predictions: mean_prediction difference
example : run .meanpred .difference .between true 1 (toFrame (inE (eventOf .dp) "all") xRows [1/2, 1/4, 1, 1/4, 0, 1/2, 1/2, 0])
    = .value (fin (1/4)) := by decide +kernel
-- control features: two strata, constraint per stratum
def xRowsC : List Row :=
  [⟨1, "a", some "x"⟩, ⟨0, "b", some "x"⟩, ⟨1, "a", some "y"⟩, ⟨0, "b", some "y"⟩, ⟨1, "b", some "y"⟩]
example : GammaLe (eventOf .dp) xRowsC 1 defaultUtil [1, 1, 0, 1, 0] (1/3) := by decide +kernel
example : named "demographic_parity_difference" .toOverall 1
    (toFrame (fun r => r.c == some "y") xRowsC [1, 1, 0, 1, 0]) = some (.value (fin (1/3))) := by decide +kernel


/-! ### review R1: the selector hypotheses `hS` ARE met by the real event rules (instances) -/

/-- TruePositiveRateParity WITHOUT control features ⇒ equal_opportunity_difference bounds on the frame of all
    (control-free) rows -/
theorem tpr_constraint_bounds_eopp (rows : List Row) (h : List Rat) (eps : Rat)
    (hl : h.length = rows.length) (hh : Hard h) (hy : ∀ r ∈ rows, r.y = 0 ∨ r.y = 1)
    (hne : rows.filter (fun r => r.c == none) ≠ [])
    (hcov : ∀ r ∈ rows, (r.c == none) = true → ∃ r2 ∈ rows, (r2.c == none) = true ∧ r2.g = r.g ∧ r2.y = 1)
    (hg : GammaLe (eventOf .tpr) rows 1 defaultUtil h eps) :
    (∃ D, named "equal_opportunity_difference" .toOverall 1 (toFrame (fun r => r.c == none) rows h) = some (.value (fin D)) ∧
      0 ≤ D ∧ D ≤ eps) ∧
    (∃ D, named "equal_opportunity_difference" .between 1 (toFrame (fun r => r.c == none) rows h) = some (.value (fin D)) ∧
      0 ≤ D ∧ D ≤ 2 * eps) :=
  eopp_difference_le_of_constraint (eventOf .tpr) rows h eps (MomentsSrc.labelEvent 1) (fun r => r.c == none)
    hl hh hy hne (fun r => tpr_inE_nocontrol r) hcov hg

/-- TruePositiveRateParity WITH control features ⇒ the same bounds within stratum `c0` -/
theorem tpr_constraint_bounds_eopp_in_stratum (rows : List Row) (h : List Rat) (eps : Rat) (c0 : String)
    (hl : h.length = rows.length) (hh : Hard h) (hy : ∀ r ∈ rows, r.y = 0 ∨ r.y = 1)
    (hne : rows.filter (fun r => r.c == some c0) ≠ [])
    (hcov : ∀ r ∈ rows, (r.c == some c0) = true → ∃ r2 ∈ rows, (r2.c == some c0) = true ∧ r2.g = r.g ∧ r2.y = 1)
    (hg : GammaLe (eventOf .tpr) rows 1 defaultUtil h eps) :
    (∃ D, named "equal_opportunity_difference" .toOverall 1 (toFrame (fun r => r.c == some c0) rows h) = some (.value (fin D)) ∧
      0 ≤ D ∧ D ≤ eps) ∧
    (∃ D, named "equal_opportunity_difference" .between 1 (toFrame (fun r => r.c == some c0) rows h) = some (.value (fin D)) ∧
      0 ≤ D ∧ D ≤ 2 * eps) :=
  eopp_difference_le_of_constraint (eventOf .tpr) rows h eps (MomentsSrc.ctrlFormat c0 (MomentsSrc.labelEvent 1))
    (fun r => r.c == some c0) hl hh hy hne (fun r => C06.tpr_event_selects_in_stratum r c0) hcov hg

/-- FalsePositiveRateParity, without control features and within a stratum -/
theorem fpr_constraint_bounds (rows : List Row) (h : List Rat) (eps : Rat) (c0 : Option String)
    (hl : h.length = rows.length) (hh : Hard h) (hy : ∀ r ∈ rows, r.y = 0 ∨ r.y = 1)
    (hne : rows.filter (fun r => r.c == c0) ≠ [])
    (hcov : ∀ r ∈ rows, (r.c == c0) = true → ∃ r2 ∈ rows, (r2.c == c0) = true ∧ r2.g = r.g ∧ r2.y = 0)
    (hg : GammaLe (eventOf .fpr) rows 1 defaultUtil h eps) :
    (∃ D, run .fpr .difference .toOverall true 1 (toFrame (fun r => r.c == c0) rows h) = .value (fin D) ∧ 0 ≤ D ∧ D ≤ eps) ∧
    (∃ D, run .fpr .difference .between true 1 (toFrame (fun r => r.c == c0) rows h) = .value (fin D) ∧ 0 ≤ D ∧ D ≤ 2 * eps) := by
  cases c0 with
  | none =>
    exact fpr_difference_le_of_constraint (eventOf .fpr) rows h eps (MomentsSrc.labelEvent 0) (fun r => r.c == none)
      hl hh hy hne (fun r => fpr_inE_nocontrol r) hcov hg
  | some c =>
    exact fpr_difference_le_of_constraint (eventOf .fpr) rows h eps (MomentsSrc.ctrlFormat c (MomentsSrc.labelEvent 0))
      (fun r => r.c == some c) hl hh hy hne (fun r => C06.fpr_event_selects_in_stratum r c) hcov hg

/-- EqualizedOdds WITHOUT control features ⇒ equalized_odds_difference bounds (every group has both labels) -/
theorem eo_constraint_bounds_eodds (rows : List Row) (h : List Rat) (eps : Rat)
    (hl : h.length = rows.length) (hh : Hard h) (hy : ∀ r ∈ rows, r.y = 0 ∨ r.y = 1)
    (hne : rows.filter (fun r => r.c == none) ≠ [])
    (hcov1 : ∀ r ∈ rows, (r.c == none) = true → ∃ r2 ∈ rows, (r2.c == none) = true ∧ r2.g = r.g ∧ r2.y = 1)
    (hcov0 : ∀ r ∈ rows, (r.c == none) = true → ∃ r2 ∈ rows, (r2.c == none) = true ∧ r2.g = r.g ∧ r2.y = 0)
    (hg : GammaLe (eventOf .eo) rows 1 defaultUtil h eps) :
    (∃ D, eodds "equalized_odds_difference" .toOverall .worstCase 1 (toFrame (fun r => r.c == none) rows h) = some (.value (fin D)) ∧
      0 ≤ D ∧ D ≤ eps) ∧
    (∃ D, eodds "equalized_odds_difference" .between .worstCase 1 (toFrame (fun r => r.c == none) rows h) = some (.value (fin D)) ∧
      0 ≤ D ∧ D ≤ 2 * eps) :=
  eodds_difference_le_of_constraint (eventOf .eo) rows h eps (MomentsSrc.labelEvent 1) (MomentsSrc.labelEvent 0)
    (fun r => r.c == none) hl hh hy hne (fun r => eo_inE_nocontrol r 1 (Or.inr rfl)) (fun r => eo_inE_nocontrol r 0 (Or.inl rfl))
    hcov1 hcov0 hg

/-- all hypotheses of `eo_constraint_bounds_eodds` / `tpr_constraint_bounds_eopp` are met by `xRows`, `xH`, slack 1/4 -/
example : (∃ D, eodds "equalized_odds_difference" .toOverall .worstCase 1 (toFrame (fun r => r.c == none) xRows xH) = some (.value (fin D)) ∧
      0 ≤ D ∧ D ≤ 1/4) :=
  (eo_constraint_bounds_eodds xRows xH (1/4) (by decide) (by decide +kernel) (by decide +kernel) (by decide +kernel)
    (by decide +kernel) (by decide +kernel) (by decide +kernel)).1
example : GammaLe (eventOf .tpr) xRows 1 defaultUtil xH (1/4) ∧
    named "equal_opportunity_difference" .between 1 (toFrame (fun r => r.c == none) xRows xH) = some (.value (fin (1/2))) := by
  decide +kernel

/-! ## Work package L3: ErrorRateParity, ratio bounds for TPR / FPR / EO, EqualizedOdds inside a control stratum

### (5) affine dictionaries: ErrorRateParity ↔ `zero_one_loss_difference` / `accuracy_score_difference` -/

/-- `spec` on the frame reads off `a·(mean of the utility) + b` of event `e` (`Dict` is `a = 1`, `b = 0`, default
    utilities; accuracy under ErrorRateParity is `a = −1`, `b = 1`) -/
structure DictA (ev : Ev) (rows : List Row) (ut : Util) (h : List Rat) (e : String) (a b : Rat)
    (spec : List Dat → Rat) (frows : List (Frame.Row Dat)) : Prop where
  grp : ∀ r' ∈ frows, ∃ g, Observed ev rows e g ∧ spec (groupOf frows r') = a * mEG ev rows ut h e g + b
  all : spec (slice frows) = a * mE ev rows ut h e + b

theorem Dict.toDictA {ev : Ev} {rows : List Row} {h : List Rat} {e : String} {spec : List Dat → Rat}
    {frows : List (Frame.Row Dat)} (hd : Dict ev rows h e spec frows) :
    DictA ev rows defaultUtil h e 1 0 spec frows :=
  ⟨fun r' hr' => by obtain ⟨g, ho, hv⟩ := hd.grp r' hr'; exact ⟨g, ho, by rw [hv]; ring⟩, by rw [hd.all]; ring⟩

/-- `difference_le_of_constraint` for any utilities and any affine reading with `|a| ≤ 1` -/
theorem difference_le_of_constraint_affine {ev : Ev} {rows : List Row} {ut : Util} {h : List Rat} {e : String}
    {a b : Rat} {spec : List Dat → Rat} {frows : List (Frame.Row Dat)} {m : Metric}
    (hv : C03.Valid 1 frows) (hf : FiniteOn (eval m) spec frows)
    (hd : DictA ev rows ut h e a b spec frows) (ha : |a| ≤ 1) {eps : Rat} (hg : GammaLe ev rows 1 ut h eps) :
    (∃ D, run m .difference .toOverall true 1 frows = .value (fin D) ∧ 0 ≤ D ∧ D ≤ eps) ∧
    (∃ D, run m .difference .between true 1 frows = .value (fin D) ∧ 0 ≤ D ∧ D ≤ 2 * eps) := by
  have key : ∀ x y c : Rat, |x - y| ≤ c → |a * x + b - (a * y + b)| ≤ c := by
    intro x y c hxy
    have e1 : a * x + b - (a * y + b) = a * (x - y) := by ring
    rw [e1, abs_mul]
    calc |a| * |x - y| ≤ 1 * |x - y| := mul_le_mul_of_nonneg_right ha (abs_nonneg _)
      _ = |x - y| := one_mul _
      _ ≤ c := hxy
  constructor
  · apply diff_overall_le hv hf
    intro r hr
    obtain ⟨g, hobs, hgv⟩ := hd.grp r hr
    rw [hgv, hd.all]
    exact key _ _ _ (abs_le_of_gammaLe hg hobs)
  · apply diff_between_le hv hf
    intro r hr r' hr'
    obtain ⟨g, hobs, hgv⟩ := hd.grp r hr
    obtain ⟨g', hobs', hgv'⟩ := hd.grp r' hr'
    rw [hgv, hgv']
    exact key _ _ _ (abs_pair_le_of_gammaLe hg hobs hobs')

/-- `zero_one_loss` on the frame of the rows of event `e` IS the mean of the ErrorRateParity utility -/
theorem zeroone_dict (ev : Ev) (rows : List Row) (h : List Rat) (e : String)
    (hl : h.length = rows.length) (hy : ∀ r ∈ rows, r.y = 0 ∨ r.y = 1) (hh : Hard h) :
    DictA ev rows erpUtil h e 1 0 zeroOneSpec (toFrame (inE ev e) rows h) := by
  constructor
  · intro r' hr'
    obtain ⟨t, rfl, ht, hs⟩ := toFrame_group_mem hr'
    refine ⟨t.1.g, observed_of_inE ht hs, ?_⟩
    rw [groupOf_toFrame, zeroOneSpec_selDat _ rows h hl hy hh, one_mul, add_zero]
    rfl
  · rw [slice_toFrame, zeroOneSpec_selDat _ rows h hl hy hh, one_mul, add_zero]
    rfl

/-- `accuracy_score` on that frame is one minus it -/
theorem accuracy_dict (ev : Ev) (rows : List Row) (h : List Rat) (e : String)
    (hl : h.length = rows.length) (hy : ∀ r ∈ rows, r.y = 0 ∨ r.y = 1) (hh : Hard h)
    (hne : ∃ g, Observed ev rows e g) :
    DictA ev rows erpUtil h e (-1) 1 accuracySpec (toFrame (inE ev e) rows h) := by
  constructor
  · intro r' hr'
    obtain ⟨t, rfl, ht, hs⟩ := toFrame_group_mem hr'
    refine ⟨t.1.g, observed_of_inE ht hs, ?_⟩
    have hne' : rows.filter (fun r => inE ev e r && (r.g == t.1.g)) ≠ [] :=
      List.ne_nil_of_mem (List.mem_filter.mpr ⟨ht, by simp [hs]⟩)
    rw [groupOf_toFrame, accuracySpec_selDat _ rows h hl hne', zeroOneSpec_selDat _ rows h hl hy hh]
    show 1 - meanOn (inEG ev e t.1.g) rows (predOf erpUtil rows h) = _
    unfold mEG; ring
  · obtain ⟨g0, hg0⟩ := hne
    have hne' : rows.filter (inE ev e) ≠ [] := List.ne_nil_of_length_pos (countE_pos ev rows e g0 hg0)
    rw [slice_toFrame, accuracySpec_selDat _ rows h hl hne', zeroOneSpec_selDat _ rows h hl hy hh]
    unfold mE; ring

/-- the generated functions `accuracy_score_difference` / `zero_one_loss_difference` (read from the lifted
    `METRICS_SPEC` through `C03.generated_family`) are the MetricFrame difference of their base metric -/
theorem accuracy_score_difference_def (meth : Method) (nsf : Nat) (frows : List (Frame.Row Dat)) :
    generated "accuracy_score_difference" meth nsf frows = some (some (run .accuracy .difference meth true nsf frows)) := by
  obtain ⟨k, b, hk, hgen⟩ := C03.generated_family ("accuracy_score_difference", "accuracy_score", "difference")
    (by decide +kernel) .accuracy (by decide +kernel) meth nsf frows
  simp only [C03.variantSpec, Option.some.injEq, Prod.mk.injEq] at hk
  obtain ⟨rfl, rfl⟩ := hk
  exact hgen

theorem zero_one_loss_difference_def (meth : Method) (nsf : Nat) (frows : List (Frame.Row Dat)) :
    generated "zero_one_loss_difference" meth nsf frows = some (some (run .zeroOne .difference meth true nsf frows)) := by
  obtain ⟨k, b, hk, hgen⟩ := C03.generated_family ("zero_one_loss_difference", "zero_one_loss", "difference")
    (by decide +kernel) .zeroOne (by decide +kernel) meth nsf frows
  simp only [C03.variantSpec, Option.some.injEq, Prod.mk.injEq] at hk
  obtain ⟨rfl, rfl⟩ := hk
  exact hgen

/-- **ErrorRateParity(difference_bound = eps) satisfied ⇒ `accuracy_score_difference` and `zero_one_loss_difference`
    are ≤ eps (to_overall) and ≤ 2·eps (between_groups)** — hard predictor, 0/1 labels, on the rows of event `e`
    (`"all"`: every row; `"control=c,all"`: the rows of control stratum `c` — `erp_constraint_bounds`) -/
theorem erp_difference_le_of_constraint (ev : Ev) (rows : List Row) (h : List Rat) (eps : Rat) (e : String)
    (hl : h.length = rows.length) (hh : Hard h) (hy : ∀ r ∈ rows, r.y = 0 ∨ r.y = 1)
    (hne : ∃ g, Observed ev rows e g) (hg : GammaLe ev rows 1 erpUtil h eps) :
    ((∃ D, generated "accuracy_score_difference" .toOverall 1 (toFrame (inE ev e) rows h) = some (some (.value (fin D))) ∧
        0 ≤ D ∧ D ≤ eps) ∧
     (∃ D, generated "accuracy_score_difference" .between 1 (toFrame (inE ev e) rows h) = some (some (.value (fin D))) ∧
        0 ≤ D ∧ D ≤ 2 * eps)) ∧
    ((∃ D, generated "zero_one_loss_difference" .toOverall 1 (toFrame (inE ev e) rows h) = some (some (.value (fin D))) ∧
        0 ≤ D ∧ D ≤ eps) ∧
     (∃ D, generated "zero_one_loss_difference" .between 1 (toFrame (inE ev e) rows h) = some (some (.value (fin D))) ∧
        0 ≤ D ∧ D ≤ 2 * eps)) := by
  obtain ⟨g0, hg0⟩ := hne
  have hne' : rows.filter (inE ev e) ≠ [] := List.ne_nil_of_length_pos (countE_pos ev rows e g0 hg0)
  have hv := toFrame_valid (inE ev e) rows h hl hne'
  have hb := toFrame_binary (inE ev e) rows h hy hh
  have hA := difference_le_of_constraint_affine (m := .accuracy) hv
    (C03.finiteOn_of_spec hv hb (rfl : C03.specOf .accuracy = some accuracySpec))
    (accuracy_dict ev rows h e hl hy hh ⟨g0, hg0⟩) (by norm_num) hg
  have hZ := difference_le_of_constraint_affine (m := .zeroOne) hv
    (C03.finiteOn_of_spec hv hb (rfl : C03.specOf .zeroOne = some zeroOneSpec))
    (zeroone_dict ev rows h e hl hy hh) (by norm_num) hg
  simp only [accuracy_score_difference_def, zero_one_loss_difference_def]
  exact ⟨⟨hA.1.imp fun D hD => ⟨congrArg (some ∘ some) hD.1, hD.2⟩, hA.2.imp fun D hD => ⟨congrArg (some ∘ some) hD.1, hD.2⟩⟩,
    ⟨hZ.1.imp fun D hD => ⟨congrArg (some ∘ some) hD.1, hD.2⟩, hZ.2.imp fun D hD => ⟨congrArg (some ∘ some) hD.1, hD.2⟩⟩⟩

/-- the selector of the real ErrorRateParity rule: event `"all"` = the rows without control value, event
    `"control=c,all"` = the rows of stratum `c` (for ALL rows) -/
def stratumEvent (c0 : Option String) (base : String) : String :=
  match c0 with
  | none => base
  | some c => MomentsSrc.ctrlFormat c base

theorem erp_event_selects (c0 : Option String) :
    inE (eventOf .erp) (stratumEvent c0 MomentsSrc.allEvent) = fun r => r.c == c0 := by
  funext r
  rw [eventOf_erp_eq_dp]
  cases c0 with
  | none => exact dp_event_selects r
  | some c => exact dp_event_selects_in_stratum r c

/-- **the real rule**: `ErrorRateParity` with or without control features (`c0 = none`: no control features;
    `c0 = some c`: inside stratum `c`) bounds the accuracy / zero-one-loss difference of the stratum's frame -/
theorem erp_constraint_bounds (rows : List Row) (h : List Rat) (eps : Rat) (c0 : Option String)
    (hl : h.length = rows.length) (hh : Hard h) (hy : ∀ r ∈ rows, r.y = 0 ∨ r.y = 1)
    (hne : rows.filter (fun r => r.c == c0) ≠ [])
    (hg : GammaLe (eventOf .erp) rows 1 erpUtil h eps) :
    ((∃ D, generated "accuracy_score_difference" .toOverall 1 (toFrame (fun r => r.c == c0) rows h) = some (some (.value (fin D))) ∧
        0 ≤ D ∧ D ≤ eps) ∧
     (∃ D, generated "accuracy_score_difference" .between 1 (toFrame (fun r => r.c == c0) rows h) = some (some (.value (fin D))) ∧
        0 ≤ D ∧ D ≤ 2 * eps)) ∧
    ((∃ D, generated "zero_one_loss_difference" .toOverall 1 (toFrame (fun r => r.c == c0) rows h) = some (some (.value (fin D))) ∧
        0 ≤ D ∧ D ≤ eps) ∧
     (∃ D, generated "zero_one_loss_difference" .between 1 (toFrame (fun r => r.c == c0) rows h) = some (some (.value (fin D))) ∧
        0 ≤ D ∧ D ≤ 2 * eps)) := by
  obtain ⟨r0, hr0⟩ := List.exists_mem_of_ne_nil _ hne
  obtain ⟨hr0m, hr0c⟩ := List.mem_filter.mp hr0
  have hsel := erp_event_selects c0
  have hobs : Observed (eventOf .erp) rows (stratumEvent c0 MomentsSrc.allEvent) r0.g := by
    refine ⟨r0, hr0m, ?_, rfl⟩
    have := congrFun hsel r0
    simp only [inE, hr0c, beq_iff_eq] at this
    exact this
  have := erp_difference_le_of_constraint (eventOf .erp) rows h eps (stratumEvent c0 MomentsSrc.allEvent) hl hh hy
    ⟨r0.g, hobs⟩ hg
  rw [hsel] at this
  exact this

/-! ### (6) ratio bounds beyond demographic parity -/

/-- every selected row occurs in the frame (with its own prediction) -/
theorem mem_toFrame_of_mem {S : Row → Bool} {rows : List Row} {h : List Rat} (hl : h.length = rows.length)
    {r : Row} (hr : r ∈ rows) (hs : S r = true) : ∃ p, frow (r, p) ∈ toFrame S rows h := by
  obtain ⟨i, hi, hget⟩ := List.getElem_of_mem hr
  have hi' : i < h.length := by omega
  have hz : (r, h[i]) ∈ rows.zip h := by
    rw [List.mem_iff_getElem]
    exact ⟨i, by simp [hi, hi'], by simp [hget]⟩
  exact ⟨h[i], List.mem_map.mpr ⟨(r, h[i]), List.mem_filter.mpr ⟨hz, hs⟩, rfl⟩⟩

/-- a dictionary that also COVERS every observed group of the event (each has a row in the frame) -/
def Covers (ev : Ev) (rows : List Row) (h : List Rat) (e : String) (spec : List Dat → Rat)
    (frows : List (Frame.Row Dat)) : Prop :=
  ∀ g, Observed ev rows e g → ∃ r' ∈ frows, spec (groupOf frows r') = mEG ev rows defaultUtil h e g

theorem selrate_covers (ev : Ev) (rows : List Row) (h : List Rat) (e : String)
    (hl : h.length = rows.length) (hh : Hard h) :
    Covers ev rows h e selRateSpec (toFrame (inE ev e) rows h) := by
  intro g ⟨r, hr, hre, hrg⟩
  obtain ⟨p, hp⟩ := mem_toFrame_of_mem (S := inE ev e) (h := h) hl hr (by simp [inE, hre])
  refine ⟨_, hp, ?_⟩
  rw [groupOf_toFrame, selRateSpec_selDat _ rows h hl hh, mEG_default ev rows h e _ hl, ← hrg]
  rfl

theorem rate_covers (ev : Ev) (rows : List Row) (h : List Rat) (e : String) (S : Row → Bool) (c : Int)
    (spec : List Dat → Rat)
    (hspec : ∀ P : Row → Bool, spec (selDat P rows h) = meanOn (fun r => P r && (r.y == c)) rows h)
    (hl : h.length = rows.length) (hS : ∀ r, inE ev e r = (S r && (r.y == c))) :
    Covers ev rows h e spec (toFrame S rows h) := by
  intro g ⟨r, hr, hre, hrg⟩
  have hin : inE ev e r = true := by simp [inE, hre]
  rw [hS] at hin
  have hs : S r = true := by
    cases hS' : S r
    · rw [hS'] at hin; simp at hin
    · rfl
  obtain ⟨p, hp⟩ := mem_toFrame_of_mem (S := S) (h := h) hl hr hs
  refine ⟨_, hp, ?_⟩
  rw [groupOf_toFrame, hspec, mEG_default ev rows h e _ hl, ← hrg]
  congr 1
  funext r'
  rw [inEG_eq, hS]
  cases S r' <;> cases (r'.g == r.g) <;> cases (r'.y == c) <;> rfl

section ratio
variable {ev : Ev} {rows : List Row} {h : List Rat} {e : String} {spec : List Dat → Rat}
  {frows : List (Frame.Row Dat)} {m : Metric}

/-- **ratio constraint ⇒ MetricFrame ratio**, generic in the base metric: if `gamma ≤ eps` holds with
    `ratio_bound = r ∈ (0,1]`, `eps ≥ 0`, the predictions are non-negative and the event mean `μ` is positive, then
      `ratio(method="between_groups") ≥ r·(r·μ − eps)/(μ + eps)`,
      `ratio(method="to_overall")    ≥ (r·μ − eps)/μ`  -/
theorem ratio_ge_of_constraint (hv : C03.Valid 1 frows) (hf : FiniteOn (eval m) spec frows)
    (hd : Dict ev rows h e spec frows) (hc : Covers ev rows h e spec frows)
    (hl : h.length = rows.length) (hnn : ∀ x ∈ h, 0 ≤ x)
    {ratio eps : Rat} (hr : 0 < ratio) (hr1 : ratio ≤ 1) (he : 0 ≤ eps)
    (hm : 0 < mE ev rows defaultUtil h e)
    (hg : GammaLe ev rows ratio defaultUtil h eps) :
    (∃ ρ, run m .ratio .between true 1 frows = .value (fin ρ) ∧
      ratio * (ratio * mE ev rows defaultUtil h e - eps) / (mE ev rows defaultUtil h e + eps) ≤ ρ) ∧
    (∃ ρ, run m .ratio .toOverall true 1 frows = .value (fin ρ) ∧
      (ratio * mE ev rows defaultUtil h e - eps) / mE ev rows defaultUtil h e ≤ ρ) := by
  set μ := mE ev rows defaultUtil h e with hμ
  obtain ⟨r0, hr0⟩ := List.exists_mem_of_ne_nil _ hv.ne
  obtain ⟨g0, hg0, _⟩ := hd.grp r0 hr0
  constructor
  · obtain ⟨mn, mx, ⟨⟨r1, hr1', e1⟩, _⟩, ⟨⟨r2, hr2, e2⟩, hmx⟩, h3⟩ := C03.ratio_between_spec hv hf
    obtain ⟨g1, ho1, hv1⟩ := hd.grp r1 hr1'
    obtain ⟨g2, ho2, hv2⟩ := hd.grp r2 hr2
    have hmn0 : 0 ≤ mn := by
      rw [e1, hv1, mEG_default ev rows h e g1 hl]
      exact meanOn_nonneg _ rows h hnn
    have w1 := (ratio_window hr hg ho1).1
    have w2 := (ratio_window hr hg ho2).2
    rw [← hv1, ← e1] at w1
    rw [← hv2, ← e2] at w2
    have hmle : μ ≤ mx := by
      have := (mE_between ev rows h e 0 mx (fun g hobs => by
        refine ⟨meanOn_nonneg _ rows h hnn, ?_⟩
        obtain ⟨r', hr', hs⟩ := hc g hobs
        have := hmx r' hr'
        rw [hs, mEG_default ev rows h e g hl] at this
        exact this) ⟨g0, hg0⟩).2
      rw [hμ, mE_default ev rows h e hl]; exact this
    have hmx0 : 0 < mx := lt_of_lt_of_le hm hmle
    refine ⟨mn / mx, ?_, ratio_between_lower hr (by linarith) hmx0 hmn0 w1 w2⟩
    rw [h3, div_fin_fin, if_neg (ne_of_gt hmx0)]
  · have ho : spec (slice frows) ≠ 0 := by rw [hd.all]; exact ne_of_gt hm
    obtain ⟨ρ, h1, ⟨r, hr', hρ⟩, _⟩ := C03.ratio_overall_spec hv hf ho
    obtain ⟨g1, ho1, hv1⟩ := hd.grp r hr'
    refine ⟨ρ, h1, ?_⟩
    rw [hρ, hv1, hd.all]
    obtain ⟨w1, w2⟩ := ratio_window hr hg ho1
    exact ratio_overall_lower hr hr1 he hm w1 w2

end ratio

/-- **TruePositiveRateParity(ratio_bound = r, ratio_bound_slack = eps) satisfied ⇒ lower bounds on
    equal_opportunity_ratio** on stratum `S`; `μ` = the stratum's overall TPR (`μ > 0`), every group of `S` has a
    positive example.  between_groups: `≥ r(rμ − eps)/(μ + eps)`; to_overall: `≥ (rμ − eps)/μ`; both attained
    (`eopp_ratio_bounds_sharp`) -/
theorem eopp_ratio_ge_of_constraint (ev : Ev) (rows : List Row) (h : List Rat) (ratio eps : Rat) (e : String)
    (S : Row → Bool) (hl : h.length = rows.length) (hh : Hard h) (hy : ∀ r ∈ rows, r.y = 0 ∨ r.y = 1)
    (hne : rows.filter S ≠ [])
    (hS : ∀ r, inE ev e r = (S r && (r.y == 1)))
    (hcov : ∀ r ∈ rows, S r = true → ∃ r2 ∈ rows, S r2 = true ∧ r2.g = r.g ∧ r2.y = 1)
    (hr : 0 < ratio) (hr1 : ratio ≤ 1) (he : 0 ≤ eps) (hm : 0 < mE ev rows defaultUtil h e)
    (hg : GammaLe ev rows ratio defaultUtil h eps) :
    (∃ ρ, named "equal_opportunity_ratio" .between 1 (toFrame S rows h) = some (.value (fin ρ)) ∧
      ratio * (ratio * mE ev rows defaultUtil h e - eps) / (mE ev rows defaultUtil h e + eps) ≤ ρ) ∧
    (∃ ρ, named "equal_opportunity_ratio" .toOverall 1 (toFrame S rows h) = some (.value (fin ρ)) ∧
      (ratio * mE ev rows defaultUtil h e - eps) / mE ev rows defaultUtil h e ≤ ρ) := by
  have hv := toFrame_valid S rows h hl hne
  have hb := toFrame_binary S rows h hy hh
  have hd := rate_dict ev rows h e S 1 tprSpec (fun P => tprSpec_selDat P rows h hl hh) hl hS hcov
  have hc := rate_covers ev rows h e S 1 tprSpec (fun P => tprSpec_selDat P rows h hl hh) hl hS
  have := ratio_ge_of_constraint (m := .tpr) hv (C03.tpr_finiteOn hb) hd hc hl (fun x hx => (hh.soft x hx).1)
    hr hr1 he hm hg
  simpa only [C03.equal_opportunity_ratio_def] using And.intro
    (this.1.imp fun ρ hρ => ⟨congrArg some hρ.1, hρ.2⟩) (this.2.imp fun ρ hρ => ⟨congrArg some hρ.1, hρ.2⟩)

/-- the generated `false_positive_rate_ratio` is the MetricFrame ratio of `false_positive_rate` -/
theorem false_positive_rate_ratio_def (meth : Method) (nsf : Nat) (frows : List (Frame.Row Dat)) :
    generated "false_positive_rate_ratio" meth nsf frows = some (some (run .fpr .ratio meth true nsf frows)) := by
  obtain ⟨k, b, hk, hgen⟩ := C03.generated_family ("false_positive_rate_ratio", "false_positive_rate", "ratio")
    (by decide +kernel) .fpr (by decide +kernel) meth nsf frows
  simp only [C03.variantSpec, Option.some.injEq, Prod.mk.injEq] at hk
  obtain ⟨rfl, rfl⟩ := hk
  exact hgen

/-- **FalsePositiveRateParity(ratio_bound, ratio_bound_slack) satisfied ⇒ lower bounds on
    `false_positive_rate_ratio`**; `μ` = the stratum's overall FPR -/
theorem fpr_ratio_ge_of_constraint (ev : Ev) (rows : List Row) (h : List Rat) (ratio eps : Rat) (e : String)
    (S : Row → Bool) (hl : h.length = rows.length) (hh : Hard h) (hy : ∀ r ∈ rows, r.y = 0 ∨ r.y = 1)
    (hne : rows.filter S ≠ [])
    (hS : ∀ r, inE ev e r = (S r && (r.y == 0)))
    (hcov : ∀ r ∈ rows, S r = true → ∃ r2 ∈ rows, S r2 = true ∧ r2.g = r.g ∧ r2.y = 0)
    (hr : 0 < ratio) (hr1 : ratio ≤ 1) (he : 0 ≤ eps) (hm : 0 < mE ev rows defaultUtil h e)
    (hg : GammaLe ev rows ratio defaultUtil h eps) :
    (∃ ρ, generated "false_positive_rate_ratio" .between 1 (toFrame S rows h) = some (some (.value (fin ρ))) ∧
      ratio * (ratio * mE ev rows defaultUtil h e - eps) / (mE ev rows defaultUtil h e + eps) ≤ ρ) ∧
    (∃ ρ, generated "false_positive_rate_ratio" .toOverall 1 (toFrame S rows h) = some (some (.value (fin ρ))) ∧
      (ratio * mE ev rows defaultUtil h e - eps) / mE ev rows defaultUtil h e ≤ ρ) := by
  have hv := toFrame_valid S rows h hl hne
  have hb := toFrame_binary S rows h hy hh
  have hd := rate_dict ev rows h e S 0 fprSpec (fun P => fprSpec_selDat P rows h hl hh) hl hS hcov
  have hc := rate_covers ev rows h e S 0 fprSpec (fun P => fprSpec_selDat P rows h hl hh) hl hS
  have := ratio_ge_of_constraint (m := .fpr) hv (C03.fpr_finiteOn hb) hd hc hl (fun x hx => (hh.soft x hx).1)
    hr hr1 he hm hg
  simpa only [false_positive_rate_ratio_def] using And.intro
    (this.1.imp fun ρ hρ => ⟨congrArg (some ∘ some) hρ.1, hρ.2⟩) (this.2.imp fun ρ hρ => ⟨congrArg (some ∘ some) hρ.1, hρ.2⟩)

/-- **EqualizedOdds(ratio_bound = r, ratio_bound_slack = eps) satisfied ⇒ equalized_odds_ratio (agg = worst_case)
    is at least the SMALLER of the TPR and the FPR bound**; `μ1` / `μ0` = the stratum's overall TPR / FPR, both
    positive; every group of `S` has both labels -/
theorem eodds_ratio_ge_of_constraint (ev : Ev) (rows : List Row) (h : List Rat) (ratio eps : Rat) (e1 e0 : String)
    (S : Row → Bool) (hl : h.length = rows.length) (hh : Hard h) (hy : ∀ r ∈ rows, r.y = 0 ∨ r.y = 1)
    (hne : rows.filter S ≠ [])
    (hS1 : ∀ r, inE ev e1 r = (S r && (r.y == 1))) (hS0 : ∀ r, inE ev e0 r = (S r && (r.y == 0)))
    (hcov1 : ∀ r ∈ rows, S r = true → ∃ r2 ∈ rows, S r2 = true ∧ r2.g = r.g ∧ r2.y = 1)
    (hcov0 : ∀ r ∈ rows, S r = true → ∃ r2 ∈ rows, S r2 = true ∧ r2.g = r.g ∧ r2.y = 0)
    (hr : 0 < ratio) (hr1 : ratio ≤ 1) (he : 0 ≤ eps)
    (hm1 : 0 < mE ev rows defaultUtil h e1) (hm0 : 0 < mE ev rows defaultUtil h e0)
    (hg : GammaLe ev rows ratio defaultUtil h eps) :
    (∃ ρ, eodds "equalized_odds_ratio" .between .worstCase 1 (toFrame S rows h) = some (.value (fin ρ)) ∧
      min (ratio * (ratio * mE ev rows defaultUtil h e1 - eps) / (mE ev rows defaultUtil h e1 + eps))
          (ratio * (ratio * mE ev rows defaultUtil h e0 - eps) / (mE ev rows defaultUtil h e0 + eps)) ≤ ρ) ∧
    (∃ ρ, eodds "equalized_odds_ratio" .toOverall .worstCase 1 (toFrame S rows h) = some (.value (fin ρ)) ∧
      min ((ratio * mE ev rows defaultUtil h e1 - eps) / mE ev rows defaultUtil h e1)
          ((ratio * mE ev rows defaultUtil h e0 - eps) / mE ev rows defaultUtil h e0) ≤ ρ) := by
  have hv := toFrame_valid S rows h hl hne
  have hb := toFrame_binary S rows h hy hh
  have hd1 := rate_dict ev rows h e1 S 1 tprSpec (fun P => tprSpec_selDat P rows h hl hh) hl hS1 hcov1
  have hd0 := rate_dict ev rows h e0 S 0 fprSpec (fun P => fprSpec_selDat P rows h hl hh) hl hS0 hcov0
  have hc1 := rate_covers ev rows h e1 S 1 tprSpec (fun P => tprSpec_selDat P rows h hl hh) hl hS1
  have hc0 := rate_covers ev rows h e0 S 0 fprSpec (fun P => fprSpec_selDat P rows h hl hh) hl hS0
  have hnn : ∀ x ∈ h, 0 ≤ x := fun x hx => (hh.soft x hx).1
  obtain ⟨⟨ρt, ht, hte⟩, ⟨ρt', ht', hte'⟩⟩ :=
    ratio_ge_of_constraint (m := .tpr) hv (C03.tpr_finiteOn hb) hd1 hc1 hl hnn hr hr1 he hm1 hg
  obtain ⟨⟨ρf, hf, hfe⟩, ⟨ρf', hf', hfe'⟩⟩ :=
    ratio_ge_of_constraint (m := .fpr) hv (C03.fpr_finiteOn hb) hd0 hc0 hl hnn hr hr1 he hm0 hg
  constructor
  · obtain ⟨a, b, ha, hb', he'⟩ := C03.eodds_def "equalized_odds_ratio" "ratio" "min" .ratio
      (by decide +kernel) (by decide +kernel) .between .worstCase 1 _ hv hb
    rw [ht] at ha; rw [hf] at hb'
    injection ha with ha; injection hb' with hb'
    subst ha; subst hb'
    refine ⟨min ρt ρf, ?_, min_le_min hte hfe⟩
    rw [he']; simp only [C03.pyFold_min_fin, Option.map_some]
  · obtain ⟨a, b, ha, hb', he'⟩ := C03.eodds_def "equalized_odds_ratio" "ratio" "min" .ratio
      (by decide +kernel) (by decide +kernel) .toOverall .worstCase 1 _ hv hb
    rw [ht'] at ha; rw [hf'] at hb'
    injection ha with ha; injection hb' with hb'
    subst ha; subst hb'
    refine ⟨min ρt' ρf', ?_, min_le_min hte' hfe'⟩
    rw [he']; simp only [C03.pyFold_min_fin, Option.map_some]

/-! ### (7) EqualizedOdds inside a control stratum, through the named metric

The step the review left open: the event `control=c0,label=l` of the real rule `eventOf .eo` selects, among ALL
rows (any control string, commas included; any integer label), exactly the rows of stratum `c0` with label `l` —
`Cross.eo_event_selects_in_stratum`, from "`str(y)` of an integer contains no comma" (`Cross.toString_int_no_comma`). -/

/-- **EqualizedOdds WITH control features ⇒ equalized_odds_difference bounds within stratum `c0`** -/
theorem eo_constraint_bounds_eodds_in_stratum (rows : List Row) (h : List Rat) (eps : Rat) (c0 : String)
    (hl : h.length = rows.length) (hh : Hard h) (hy : ∀ r ∈ rows, r.y = 0 ∨ r.y = 1)
    (hne : rows.filter (fun r => r.c == some c0) ≠ [])
    (hcov1 : ∀ r ∈ rows, (r.c == some c0) = true → ∃ r2 ∈ rows, (r2.c == some c0) = true ∧ r2.g = r.g ∧ r2.y = 1)
    (hcov0 : ∀ r ∈ rows, (r.c == some c0) = true → ∃ r2 ∈ rows, (r2.c == some c0) = true ∧ r2.g = r.g ∧ r2.y = 0)
    (hg : GammaLe (eventOf .eo) rows 1 defaultUtil h eps) :
    (∃ D, eodds "equalized_odds_difference" .toOverall .worstCase 1 (toFrame (fun r => r.c == some c0) rows h) = some (.value (fin D)) ∧
      0 ≤ D ∧ D ≤ eps) ∧
    (∃ D, eodds "equalized_odds_difference" .between .worstCase 1 (toFrame (fun r => r.c == some c0) rows h) = some (.value (fin D)) ∧
      0 ≤ D ∧ D ≤ 2 * eps) :=
  eodds_difference_le_of_constraint (eventOf .eo) rows h eps
    (MomentsSrc.ctrlFormat c0 (MomentsSrc.labelEvent 1)) (MomentsSrc.ctrlFormat c0 (MomentsSrc.labelEvent 0))
    (fun r => r.c == some c0) hl hh hy hne
    (fun r => eo_event_selects_in_stratum r c0 1) (fun r => eo_event_selects_in_stratum r c0 0) hcov1 hcov0 hg

/-- selectors of the three label-conditioned rules, with or without control features, for ALL rows -/
theorem tpr_selects (c0 : Option String) (r : Row) :
    inE (eventOf .tpr) (stratumEvent c0 (MomentsSrc.labelEvent 1)) r = ((r.c == c0) && (r.y == 1)) := by
  cases c0 with
  | none => exact tpr_inE_nocontrol r
  | some c => exact C06.tpr_event_selects_in_stratum r c

theorem fpr_selects (c0 : Option String) (r : Row) :
    inE (eventOf .fpr) (stratumEvent c0 (MomentsSrc.labelEvent 0)) r = ((r.c == c0) && (r.y == 0)) := by
  cases c0 with
  | none => exact fpr_inE_nocontrol r
  | some c => exact C06.fpr_event_selects_in_stratum r c

theorem eo_selects (c0 : Option String) (lab : Int) (hlab : lab = 0 ∨ lab = 1) (r : Row) :
    inE (eventOf .eo) (stratumEvent c0 (MomentsSrc.labelEvent lab)) r = ((r.c == c0) && (r.y == lab)) := by
  cases c0 with
  | none => exact eo_inE_nocontrol r lab hlab
  | some c => exact eo_event_selects_in_stratum r c lab

/-- **the real rules, ratio form** (`c0 = none`: no control features; `some c`: inside stratum `c`):
    TruePositiveRateParity ⇒ equal_opportunity_ratio, EqualizedOdds ⇒ equalized_odds_ratio -/
theorem tpr_ratio_constraint_bounds_eopp (rows : List Row) (h : List Rat) (ratio eps : Rat) (c0 : Option String)
    (hl : h.length = rows.length) (hh : Hard h) (hy : ∀ r ∈ rows, r.y = 0 ∨ r.y = 1)
    (hne : rows.filter (fun r => r.c == c0) ≠ [])
    (hcov : ∀ r ∈ rows, (r.c == c0) = true → ∃ r2 ∈ rows, (r2.c == c0) = true ∧ r2.g = r.g ∧ r2.y = 1)
    (hr : 0 < ratio) (hr1 : ratio ≤ 1) (he : 0 ≤ eps)
    (hm : 0 < mE (eventOf .tpr) rows defaultUtil h (stratumEvent c0 (MomentsSrc.labelEvent 1)))
    (hg : GammaLe (eventOf .tpr) rows ratio defaultUtil h eps) :
    (∃ ρ, named "equal_opportunity_ratio" .between 1 (toFrame (fun r => r.c == c0) rows h) = some (.value (fin ρ)) ∧
      ratio * (ratio * mE (eventOf .tpr) rows defaultUtil h (stratumEvent c0 (MomentsSrc.labelEvent 1)) - eps)
        / (mE (eventOf .tpr) rows defaultUtil h (stratumEvent c0 (MomentsSrc.labelEvent 1)) + eps) ≤ ρ) ∧
    (∃ ρ, named "equal_opportunity_ratio" .toOverall 1 (toFrame (fun r => r.c == c0) rows h) = some (.value (fin ρ)) ∧
      (ratio * mE (eventOf .tpr) rows defaultUtil h (stratumEvent c0 (MomentsSrc.labelEvent 1)) - eps)
        / mE (eventOf .tpr) rows defaultUtil h (stratumEvent c0 (MomentsSrc.labelEvent 1)) ≤ ρ) :=
  eopp_ratio_ge_of_constraint (eventOf .tpr) rows h ratio eps _ (fun r => r.c == c0) hl hh hy hne
    (tpr_selects c0) hcov hr hr1 he hm hg

theorem eo_ratio_constraint_bounds_eodds (rows : List Row) (h : List Rat) (ratio eps : Rat) (c0 : Option String)
    (hl : h.length = rows.length) (hh : Hard h) (hy : ∀ r ∈ rows, r.y = 0 ∨ r.y = 1)
    (hne : rows.filter (fun r => r.c == c0) ≠ [])
    (hcov1 : ∀ r ∈ rows, (r.c == c0) = true → ∃ r2 ∈ rows, (r2.c == c0) = true ∧ r2.g = r.g ∧ r2.y = 1)
    (hcov0 : ∀ r ∈ rows, (r.c == c0) = true → ∃ r2 ∈ rows, (r2.c == c0) = true ∧ r2.g = r.g ∧ r2.y = 0)
    (hr : 0 < ratio) (hr1 : ratio ≤ 1) (he : 0 ≤ eps)
    (hm1 : 0 < mE (eventOf .eo) rows defaultUtil h (stratumEvent c0 (MomentsSrc.labelEvent 1)))
    (hm0 : 0 < mE (eventOf .eo) rows defaultUtil h (stratumEvent c0 (MomentsSrc.labelEvent 0)))
    (hg : GammaLe (eventOf .eo) rows ratio defaultUtil h eps) :
    (∃ ρ, eodds "equalized_odds_ratio" .between .worstCase 1 (toFrame (fun r => r.c == c0) rows h) = some (.value (fin ρ)) ∧
      min (ratio * (ratio * mE (eventOf .eo) rows defaultUtil h (stratumEvent c0 (MomentsSrc.labelEvent 1)) - eps)
            / (mE (eventOf .eo) rows defaultUtil h (stratumEvent c0 (MomentsSrc.labelEvent 1)) + eps))
          (ratio * (ratio * mE (eventOf .eo) rows defaultUtil h (stratumEvent c0 (MomentsSrc.labelEvent 0)) - eps)
            / (mE (eventOf .eo) rows defaultUtil h (stratumEvent c0 (MomentsSrc.labelEvent 0)) + eps)) ≤ ρ) ∧
    (∃ ρ, eodds "equalized_odds_ratio" .toOverall .worstCase 1 (toFrame (fun r => r.c == c0) rows h) = some (.value (fin ρ)) ∧
      min ((ratio * mE (eventOf .eo) rows defaultUtil h (stratumEvent c0 (MomentsSrc.labelEvent 1)) - eps)
            / mE (eventOf .eo) rows defaultUtil h (stratumEvent c0 (MomentsSrc.labelEvent 1)))
          ((ratio * mE (eventOf .eo) rows defaultUtil h (stratumEvent c0 (MomentsSrc.labelEvent 0)) - eps)
            / mE (eventOf .eo) rows defaultUtil h (stratumEvent c0 (MomentsSrc.labelEvent 0))) ≤ ρ) :=
  eodds_ratio_ge_of_constraint (eventOf .eo) rows h ratio eps _ _ (fun r => r.c == c0) hl hh hy hne
    (eo_selects c0 1 (Or.inr rfl)) (eo_selects c0 0 (Or.inl rfl)) hcov1 hcov0 hr hr1 he hm1 hm0 hg

/-! ### non-vacuity and sharpness of the L3 theorems -/

/-- ErrorRateParity: error rates a = 1/4, b = 3/4, overall 1/2 — slack exactly 1/4; both constants are attained
    (to_overall difference 1/4 = eps, between_groups 1/2 = 2·eps) -/
def xHe : List Rat := [1, 0, 1, 1, 0, 1, 0, 0]

example : Hard xHe ∧ xHe.length = xRows.length ∧ (∀ r ∈ xRows, r.y = 0 ∨ r.y = 1) := by decide +kernel
example : GammaLe (eventOf .erp) xRows 1 erpUtil xHe (1/4) ∧ ¬ GammaLe (eventOf .erp) xRows 1 erpUtil xHe (1/5) := by
  decide +kernel
theorem erp_constants_attained :
    generated "accuracy_score_difference" .toOverall 1 (toFrame (fun r => r.c == none) xRows xHe) = some (some (.value (fin (1/4)))) ∧
    generated "accuracy_score_difference" .between 1 (toFrame (fun r => r.c == none) xRows xHe) = some (some (.value (fin (2 * (1/4))))) ∧
    generated "zero_one_loss_difference" .between 1 (toFrame (fun r => r.c == none) xRows xHe) = some (some (.value (fin (2 * (1/4))))) := by
  decide +kernel
/-- every hypothesis of `erp_constraint_bounds` at once -/
example : ∃ D, generated "accuracy_score_difference" .toOverall 1 (toFrame (fun r => r.c == none) xRows xHe) = some (some (.value (fin D))) ∧
      0 ≤ D ∧ D ≤ 1/4 :=
  (erp_constraint_bounds xRows xHe (1/4) none (by decide) (by decide +kernel) (by decide +kernel) (by decide +kernel)
    (by decide +kernel)).1.1
/-- ErrorRateParity inside a control stratum (two strata; the constraint is per stratum) -/
def xRowsE : List Row :=
  [⟨1, "a", some "x"⟩, ⟨0, "a", some "x"⟩, ⟨1, "b", some "x"⟩, ⟨0, "b", some "x"⟩,
   ⟨1, "a", some "y"⟩, ⟨0, "b", some "y"⟩]
example : ∃ D, generated "zero_one_loss_difference" .between 1 (toFrame (fun r => r.c == some "x") xRowsE [1, 0, 0, 0, 1, 0]) = some (some (.value (fin D))) ∧
      0 ≤ D ∧ D ≤ 2 * (1/4) :=
  (erp_constraint_bounds xRowsE [1, 0, 0, 0, 1, 0] (1/4) (some "x") (by decide) (by decide +kernel) (by decide +kernel)
    (by decide +kernel) (by decide +kernel)).2.2
example : generated "zero_one_loss_difference" .between 1 (toFrame (fun r => r.c == some "x") xRowsE [1, 0, 0, 0, 1, 0])
    = some (some (.value (fin (1/2)))) := by decide +kernel

/-- ratio bounds, `r = 1/2`, `eps = 0`: positives of group a at rate 1/4 (4 rows), of b at rate 1 (2 rows), overall
    `μ = 1/2`; the negatives follow the same pattern.  `r·(r·μ − eps)/(μ + eps) = 1/4`, `(r·μ − eps)/μ = 1/2` -/
def xRowsR : List Row :=
  [⟨1, "a", none⟩, ⟨1, "a", none⟩, ⟨1, "a", none⟩, ⟨1, "a", none⟩, ⟨1, "b", none⟩, ⟨1, "b", none⟩,
   ⟨0, "a", none⟩, ⟨0, "a", none⟩, ⟨0, "a", none⟩, ⟨0, "a", none⟩, ⟨0, "b", none⟩, ⟨0, "b", none⟩]
def xHR : List Rat := [1, 0, 0, 0, 1, 1, 1, 0, 0, 0, 1, 1]

/-- **both TPR ratio constants are attained**, with `r < 1`: `eopp_ratio_ge_of_constraint` cannot be improved -/
theorem eopp_ratio_bounds_sharp :
    GammaLe (eventOf .tpr) xRowsR (1/2) defaultUtil xHR 0 ∧ mE (eventOf .tpr) xRowsR defaultUtil xHR "label=1" = 1/2 ∧
    named "equal_opportunity_ratio" .between 1 (toFrame (fun r => r.c == none) xRowsR xHR)
      = some (.value (fin ((1/2) * ((1/2) * (1/2) - 0) / (1/2 + 0)))) ∧
    named "equal_opportunity_ratio" .toOverall 1 (toFrame (fun r => r.c == none) xRowsR xHR)
      = some (.value (fin (((1/2) * (1/2) - 0) / (1/2)))) := by
  decide +kernel

theorem fpr_ratio_bounds_sharp :
    GammaLe (eventOf .fpr) xRowsR (1/2) defaultUtil xHR 0 ∧ mE (eventOf .fpr) xRowsR defaultUtil xHR "label=0" = 1/2 ∧
    generated "false_positive_rate_ratio" .between 1 (toFrame (fun r => r.c == none) xRowsR xHR)
      = some (some (.value (fin ((1/2) * ((1/2) * (1/2) - 0) / (1/2 + 0))))) ∧
    generated "false_positive_rate_ratio" .toOverall 1 (toFrame (fun r => r.c == none) xRowsR xHR)
      = some (some (.value (fin (((1/2) * (1/2) - 0) / (1/2))))) := by
  decide +kernel

theorem eodds_ratio_bounds_sharp :
    GammaLe (eventOf .eo) xRowsR (1/2) defaultUtil xHR 0 ∧
    mE (eventOf .eo) xRowsR defaultUtil xHR "label=1" = 1/2 ∧ mE (eventOf .eo) xRowsR defaultUtil xHR "label=0" = 1/2 ∧
    eodds "equalized_odds_ratio" .between .worstCase 1 (toFrame (fun r => r.c == none) xRowsR xHR)
      = some (.value (fin (min ((1/2) * ((1/2) * (1/2) - 0) / (1/2 + 0)) ((1/2) * ((1/2) * (1/2) - 0) / (1/2 + 0))))) ∧
    eodds "equalized_odds_ratio" .toOverall .worstCase 1 (toFrame (fun r => r.c == none) xRowsR xHR)
      = some (.value (fin (min (((1/2) * (1/2) - 0) / (1/2)) (((1/2) * (1/2) - 0) / (1/2))))) := by
  decide +kernel

/-- … and with `r = 1`, `eps = 1/4` (group rates 1/4 and 3/4 around 1/2): between 1/3, to_overall 1/2 -/
def xRowsQ : List Row :=
  [⟨1, "a", none⟩, ⟨1, "a", none⟩, ⟨1, "a", none⟩, ⟨1, "a", none⟩, ⟨1, "b", none⟩, ⟨1, "b", none⟩, ⟨1, "b", none⟩, ⟨1, "b", none⟩,
   ⟨0, "a", none⟩, ⟨0, "b", none⟩]
def xHQ : List Rat := [1, 0, 0, 0, 1, 1, 1, 0, 0, 0]
theorem eopp_ratio_bounds_sharp_eps :
    GammaLe (eventOf .tpr) xRowsQ 1 defaultUtil xHQ (1/4) ∧ mE (eventOf .tpr) xRowsQ defaultUtil xHQ "label=1" = 1/2 ∧
    named "equal_opportunity_ratio" .between 1 (toFrame (fun r => r.c == none) xRowsQ xHQ)
      = some (.value (fin (1 * (1 * (1/2) - 1/4) / (1/2 + 1/4)))) ∧
    named "equal_opportunity_ratio" .toOverall 1 (toFrame (fun r => r.c == none) xRowsQ xHQ)
      = some (.value (fin ((1 * (1/2) - 1/4) / (1/2)))) := by
  decide +kernel

/-- every hypothesis of `tpr_ratio_constraint_bounds_eopp` / `eo_ratio_constraint_bounds_eodds` at once -/
example : ∃ ρ, named "equal_opportunity_ratio" .between 1 (toFrame (fun r => r.c == none) xRowsR xHR) = some (.value (fin ρ)) ∧
    (1/2) * ((1/2) * mE (eventOf .tpr) xRowsR defaultUtil xHR (stratumEvent none (MomentsSrc.labelEvent 1)) - 0)
      / (mE (eventOf .tpr) xRowsR defaultUtil xHR (stratumEvent none (MomentsSrc.labelEvent 1)) + 0) ≤ ρ :=
  (tpr_ratio_constraint_bounds_eopp xRowsR xHR (1/2) 0 none (by decide) (by decide +kernel) (by decide +kernel)
    (by decide +kernel) (by decide +kernel) (by norm_num) (by norm_num) (le_refl _) (by decide +kernel) (by decide +kernel)).1
example : ∃ ρ, eodds "equalized_odds_ratio" .toOverall .worstCase 1 (toFrame (fun r => r.c == none) xRowsR xHR) = some (.value (fin ρ)) :=
  (eo_ratio_constraint_bounds_eodds xRowsR xHR (1/2) 0 none (by decide) (by decide +kernel) (by decide +kernel)
    (by decide +kernel) (by decide +kernel) (by decide +kernel) (by norm_num) (by norm_num) (le_refl _)
    (by decide +kernel) (by decide +kernel) (by decide +kernel)).2.imp fun _ h => h.1
example : ∃ ρ, generated "false_positive_rate_ratio" .between 1 (toFrame (fun r => r.c == none) xRowsR xHR) = some (some (.value (fin ρ))) :=
  (fpr_ratio_ge_of_constraint (eventOf .fpr) xRowsR xHR (1/2) 0 _ (fun r => r.c == none) (by decide) (by decide +kernel)
    (by decide +kernel) (by decide +kernel) (fpr_selects none) (by decide +kernel) (by norm_num) (by norm_num) (le_refl _)
    (by decide +kernel) (by decide +kernel)).1.imp fun _ h => h.1

/-- EqualizedOdds inside a control stratum; the second control value contains a comma AND the text `,label=1` -/
def xRowsS : List Row :=
  [⟨1, "a", some "x"⟩, ⟨0, "a", some "x"⟩, ⟨1, "b", some "x"⟩, ⟨0, "b", some "x"⟩,
   ⟨1, "a", some "x,label=1"⟩, ⟨0, "a", some "x,label=1"⟩, ⟨1, "b", some "x,label=1"⟩, ⟨0, "b", some "x,label=1"⟩]
def xHS : List Rat := [1, 0, 0, 0, 1, 1, 1, 0]

example : GammaLe (eventOf .eo) xRowsS 1 defaultUtil xHS (1/2) ∧ ¬ GammaLe (eventOf .eo) xRowsS 1 defaultUtil xHS (2/5) := by
  decide +kernel
example : ∃ D, eodds "equalized_odds_difference" .between .worstCase 1 (toFrame (fun r => r.c == some "x") xRowsS xHS) = some (.value (fin D)) ∧
      0 ≤ D ∧ D ≤ 2 * (1/2) :=
  (eo_constraint_bounds_eodds_in_stratum xRowsS xHS (1/2) "x" (by decide) (by decide +kernel) (by decide +kernel)
    (by decide +kernel) (by decide +kernel) (by decide +kernel) (by decide +kernel)).2
example : eodds "equalized_odds_difference" .between .worstCase 1 (toFrame (fun r => r.c == some "x") xRowsS xHS)
      = some (.value (fin 1)) ∧
    eodds "equalized_odds_difference" .toOverall .worstCase 1 (toFrame (fun r => r.c == some "x,label=1") xRowsS xHS)
      = some (.value (fin (1/2))) := by decide +kernel

end C06
