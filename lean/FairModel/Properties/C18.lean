/-
C18 — bootstrap intervals are reproducible, ordered and shaped like the estimates.
Property theorems only; helper lemmas live in `Lemmas/Bootstrap.lean`.

The random number generator is an INPUT of the model (`idxs`: for every bootstrap sample the list
of row positions it drew); "identical across runs with the same random_state" is therefore the
statement that every `*_ci` value is a function of (rows, idxs, quantiles) — which it is by
construction (`Bootstrap.ci` is a Lean function) — plus the harness's replay of the seed stream.
The statistical reading of "the resamples differ" is outside the model (partial, see the check).
-/
import FairModel.Lemmas.Bootstrap
import FairModel.Lemmas.BootstrapSrc

namespace C18
open BaseMetrics Weights Bootstrap

/-! ### 1. numpy's linear quantile of the bootstrap sample values -/

/-- entries are non-decreasing in the quantile: any non-empty list, any 0 ≤ q₁ ≤ q₂ ≤ 1 -/
theorem quantile_mono (xs : List Rat) (hne : xs ≠ []) (q1 q2 : Rat) (h0 : 0 ≤ q1) (h12 : q1 ≤ q2)
    (h1 : q2 ≤ 1) : quantileLinear xs q1 ≤ quantileLinear xs q2 :=
  quantileLinear_mono xs hne q1 q2 h0 h12 h1

/-- a statistic that is the same in every resample has every quantile equal to that value -/
theorem quantile_const (xs : List Rat) (hne : xs ≠ []) (c : Rat) (hc : ∀ x ∈ xs, x = c)
    (q : Rat) (q0 : 0 ≤ q) (q1 : q ≤ 1) : quantileLinear xs q = c :=
  quantileLinear_const xs hne c hc q q0 q1

/-- every quantile lies between two of the sample values, hence between their min and max -/
theorem quantile_between_min_max (xs : List Rat) (hne : xs ≠ []) (q : Rat) (q0 : 0 ≤ q) (q1 : q ≤ 1) :
    (∃ a ∈ xs, ∃ b ∈ xs, a ≤ quantileLinear xs q ∧ quantileLinear xs q ≤ b) ∧
    (∀ lo hi : Rat, (∀ x ∈ xs, lo ≤ x ∧ x ≤ hi) → lo ≤ quantileLinear xs q ∧ quantileLinear xs q ≤ hi) :=
  ⟨quantileLinear_mem_bounds xs hne q q0 q1, fun lo hi hb => quantileLinear_between xs hne q q0 q1 lo hi hb⟩

/-! ### 2. every `*_ci` result: one entry per quantile, ordered like the quantiles -/

/-- `overall_ci`, each row of `by_group_ci`, `group_min_ci`, `group_max_ci`, `difference_ci` and
    `ratio_ci` (both methods) have exactly one entry per requested quantile, and entry i ≤ entry j
    whenever qᵢ ≤ qⱼ (both NaN, or both finite and ordered) — for any data, metric, resamples. -/
theorem ci_length_and_order (skip : Bool) (m : BMetric) (rows : List WRow) (idxs : List (List Nat))
    (qs : List Rat) (hq : ∀ q ∈ qs, 0 ≤ q ∧ q ≤ 1) (c : CI) (h : ci skip m rows idxs qs = some c) :
    Ordered qs c.overall ∧ c.byGroup.length = c.keys.length ∧ (∀ row ∈ c.byGroup, Ordered qs row) ∧
    Ordered qs c.gmin ∧ Ordered qs c.gmax ∧ Ordered qs c.diffBetween ∧ Ordered qs c.diffOverall ∧
    Ordered qs c.ratioBetween ∧ Ordered qs c.ratioOverall :=
  ci_wellformed skip m rows idxs qs hq c h

theorem ci_length (skip : Bool) (m : BMetric) (rows : List WRow) (idxs : List (List Nat))
    (qs : List Rat) (hq : ∀ q ∈ qs, 0 ≤ q ∧ q ≤ 1) (c : CI) (h : ci skip m rows idxs qs = some c) :
    c.overall.length = qs.length ∧ (∀ row ∈ c.byGroup, row.length = qs.length) ∧
    c.gmin.length = qs.length ∧ c.gmax.length = qs.length ∧ c.diffBetween.length = qs.length ∧
    c.diffOverall.length = qs.length ∧ c.ratioBetween.length = qs.length ∧
    c.ratioOverall.length = qs.length := by
  obtain ⟨a, _, b, c1, c2, c3, c4, c5, c6⟩ := ci_wellformed skip m rows idxs qs hq c h
  exact ⟨a.1, fun row hr => (b row hr).1, c1.1, c2.1, c3.1, c4.1, c5.1, c6.1⟩

/-! ### 3. shape: the index of `by_group_ci` -/

/-- only groups of the data occur in the index; a group hit by at least one resample does occur -/
theorem ci_shape (skip : Bool) (m : BMetric) (rows : List WRow) (idxs : List (List Nat)) (qs : List Rat)
    (c : CI) (h : ci skip m rows idxs qs = some c) :
    (∀ key ∈ c.keys, key ∈ keys rows) ∧
    (∀ idx ∈ idxs, ∀ i ∈ idx, ∀ r, rows[i]? = some r → r.g ∈ c.keys) := by
  obtain ⟨samples, hs, hk, _⟩ := ci_fields skip m rows idxs qs c h
  rw [hk]
  exact ⟨ciKeys_subset m rows idxs samples hs,
    fun idx hidx i hi r hr => ciKeys_hit m rows idxs samples hs idx hidx i hi r hr⟩

/-! ### 4. every resample has exactly n rows -/

/-- a resample of n positions has n rows: `count` overall is n in every sample ... -/
theorem resample_has_n_rows (rows : List WRow) (idx : List Nat) (rs : List WRow)
    (h : pick rows idx = some rs) : rs.length = idx.length ∧ ∀ r ∈ rs, r ∈ rows :=
  ⟨pick_length rows idx rs h, pick_subset rows idx rs h⟩

/-- ... hence `count`'s overall CI is n at every quantile -/
theorem count_is_n (skip : Bool) (rows : List WRow) (idxs : List (List Nat)) (n : Nat) (hn : 0 < n)
    (hne : idxs ≠ []) (hlen : ∀ idx ∈ idxs, idx.length = n) (qs : List Rat)
    (hq : ∀ q ∈ qs, 0 ≤ q ∧ q ≤ 1) (c : CI) (h : ci skip .count rows idxs qs = some c) :
    ∀ v ∈ c.overall, v = .fin (n : Rat) :=
  count_overall_ci skip rows idxs n hn hne hlen qs hq c h

/-- a metric that is constant over the rows: all quantiles equal the point estimate -/
theorem constant_metric_all_quantiles (skip : Bool) (v : Rat) (rows : List WRow)
    (idxs : List (List Nat)) (hne : idxs ≠ []) (hlen : ∀ idx ∈ idxs, idx ≠ []) (qs : List Rat)
    (hq : ∀ q ∈ qs, 0 ≤ q ∧ q ≤ 1) (c : CI) (h : ci skip (.const v) rows idxs qs = some c) :
    evalB (.const v) rows = .ok v ∧ ∀ x ∈ c.overall, x = .fin v :=
  ⟨rfl, const_overall_ci skip v rows idxs hne hlen qs hq c h⟩

/-- generally: any statistic taking the same finite value in every resample -/
theorem constant_statistic_all_quantiles (skip : Bool) (xs : List XR) (hne : xs ≠ []) (v : Rat)
    (hc : ∀ x ∈ xs, x = .fin v) (qs : List Rat) (hq : ∀ q ∈ qs, 0 ≤ q ∧ q ≤ 1) (l : List XR)
    (h : ciOf skip xs qs = some l) : ∀ x ∈ l, x = .fin v :=
  ciOf_const skip xs hne v hc qs hq l h

/-! ### 5. non-constant samples give an interval of positive width -/

/-- k sample values that are not all equal: a pair with `q_lo·(k−1) < 1`, `q_hi·(k−1) > k−2` and
    `q_lo < q_hi` has strictly increasing quantiles.  (That the resampled values of a varying
    metric *are* non-constant is the statistical part; the harness checks it on the replayed
    resamples.) -/
theorem nonconstant_gives_width (xs : List Rat) (a b : Rat) (ha : a ∈ xs) (hb : b ∈ xs) (hab : a < b)
    (qlo qhi : Rat) (h0 : 0 ≤ qlo) (h1 : qhi ≤ 1) (hlt : qlo < qhi)
    (hlo : qlo * ((xs.length : Rat) - 1) < 1) (hhi : (xs.length : Rat) - 2 < qhi * ((xs.length : Rat) - 1)) :
    quantileLinear xs qlo < quantileLinear xs qhi :=
  quantileLinear_width xs a b ha hb hab qlo qhi h0 h1 hlt hlo hhi

/-- ... and the resampling mean lies strictly inside (min, max), the limit of wide quantile pairs -/
theorem mean_strictly_between_min_max (xs : List Rat) (lo hi : Rat) (hb : ∀ x ∈ xs, lo ≤ x ∧ x ≤ hi)
    (a b : Rat) (ha : a ∈ xs) (hb' : b ∈ xs) (hla : lo < a) (hbh : b < hi) :
    lo < mean xs ∧ mean xs < hi :=
  mean_strictly_inside xs lo hi hb a b ha hb' hla hbh

/-! ### Non-vacuity: concrete inputs meeting the hypotheses, evaluated by the kernel. -/

example : quantileLinear [3, 1, 2, 10] (9/10) = 79/10 := by decide +kernel
example : quantileLinear [3, 1, 2, 10] (1/10) < quantileLinear [3, 1, 2, 10] (9/10) := by decide +kernel
example : (1 / 10 : Rat) * (((([3, 1, 2, 10] : List Rat).length : Nat) : Rat) - 1) < 1 := by norm_num
example : quantileLinear [5, 5, 5] (1/3) = 5 := by decide +kernel
/-- the virtual index hits both branches (interior cell, last cell) -/
example : quantileLinear [4, 8] 1 = 8 ∧ quantileLinear [4, 8] (1/2) = 6 ∧ quantileLinear [7] (1/2) = 7 := by decide +kernel

def exRows : List WRow := [⟨0, 1, 1, 1, 1⟩, ⟨1, 0, 0, 0, 1⟩, ⟨1, 1, 0, 0, 1⟩, ⟨0, 0, 1, 1, 1⟩]
def exIdxs : List (List Nat) := [[0, 1, 1, 3], [2, 2, 0, 0], [3, 3, 3, 3]]
/-- selection rate: the third resample misses group 1, its by_group entry is NaN and skipped -/
example : (ci false (.w (.sel 1)) exRows exIdxs [1/10, 9/10]).map (·.overall) =
    some [.fin (1/2), .fin (9/10)] := by decide +kernel
example : (ci false (.w (.sel 1)) exRows exIdxs [1/10, 9/10]).map (·.keys) = some [0, 1] := by decide +kernel
example : (ci false .count exRows exIdxs [1/10, 9/10]).map (·.overall) = some [.fin 4, .fin 4] := by
  decide +kernel
example : (ci false (.const 7) exRows exIdxs [1/10, 1/2]).map (·.overall) = some [.fin 7, .fin 7] := by
  decide +kernel
/-- a ratio that is 0/0 in one resample makes `np.quantile` (no control features) return NaN -/
example : (ci false (.w (.sel 1)) [⟨0, 1, 0, 0, 1⟩, ⟨0, 1, 1, 1, 1⟩] [[0, 0], [1, 0]] [1/2]).map (·.ratioBetween) =
    some [.nan] := by decide +kernel

/-! ### 6. the same clauses for the model PARAMETRISED BY THE SOURCE

`Generated/BootstrapSrc.lean` is rewritten from the Python `ast` of `_bootstrap.py` / `_metric_frame.py` on every run
(harness/lifters/bootstrap.py): the `data.sample(..)` keywords, the seed of sample i, the loop count, which numpy
quantile function with which method / axis / `q=` each path calls, how entry i of a `*_ci` list is assembled, and
that every accessor receives `ci_quantiles` unchanged.  `Model/BootstrapSrc.lean` builds `ciSrc`, `drawCount`,
`validResample`, `seedIndex`, `loopCount` from those values.  The theorems below hold for the values lifted from the
current tree; an edit of the source changes the generated file and re-checks (or breaks) them. -/

section Src
open BootstrapSrc Generated.BootstrapSrc

/-- `data.sample(frac=1, ..)`: a resample of n rows draws exactly n positions -/
theorem src_draw_count (n : Nat) : drawCount n = n := drawCount_eq n

/-- … with replacement: every list of n positions below n — repetitions allowed — is a possible resample,
    and nothing else is -/
theorem src_resample_shape (n : Nat) (idx : List Nat) :
    validResample n idx = true ↔ (idx.length = n ∧ ∀ i ∈ idx, i < n) :=
  ⟨validResample_length n idx, fun h => validResample_of_length n idx h.1 h.2⟩

theorem src_with_replacement : sampleReplace = true ∧ validResample 3 [0, 0, 2] = true := by decide +kernel

/-- `n_boot` resamples are drawn, the seed stream has `n_boot` entries derived from the user's `random_state`,
    and resample i is seeded with entry i (distinct resamples use distinct entries) -/
theorem src_seed_stream (B i j : Nat) :
    loopCount B = B ∧ seedIndex i = some i ∧ (seedIndex i = seedIndex j → i = j) ∧
    seedStreamSizeIsNSamples = true ∧ nSamplesIsNBoot = true ∧ randomStatePassed = true := by
  refine ⟨loopCount_eq B, rfl, ?_, rfl, rfl, rfl⟩
  intro h; rw [seedIndex_eq, seedIndex_eq] at h; exact Option.some.inj h

/-- the Series path calls `np.quantile`, the DataFrame path `np.nanquantile`, both with numpy's default method
    'linear' along the sample axis: the lifted quantile IS the modelled one -/
theorem src_quantile_is_linear (frame : Bool) (xs : List XR) (q : Rat) :
    quantileXRsrc frame xs q = quantileXR frame xs q ∧ seriesAxis = 0 ∧ frameAxis = 0 :=
  ⟨quantileXRsrc_eq frame xs q, rfl, rfl⟩

/-- the requested quantiles reach numpy in the order given at every call site, entry i of every `*_ci` list is row i
    of the quantile array, shaped (name / columns / index) like the first aligned sample, and all six accessors are
    filled -/
theorem src_order_and_shape (qs : List Rat) :
    qsUsed seriesQOrder qs = qs ∧ qsUsed frameQOrder qs = qs ∧
    quantileArgs.all (· == "ci_quantiles") = true ∧ quantileArgs.length = 5 ∧
    seriesShapeFromFirstSample = true ∧ frameShapeFromFirstSample = true ∧ frameAligned = true ∧
    ciAccessors = ["by_group_ci", "difference_ci", "group_max_ci", "group_min_ci", "overall_ci", "ratio_ci"] := by
  refine ⟨rfl, rfl, ?_, ?_, rfl, rfl, rfl, ?_⟩ <;> decide +kernel

/-- the whole `*_ci` computation assembled from the lifted pieces is the modelled one -/
theorem src_ci_eq (frame : Bool) (m : BMetric) (rows : List WRow) (idxs : List (List Nat)) (qs : List Rat) :
    ciSrc frame m rows idxs qs = ci frame m rows idxs qs := ciSrc_eq frame m rows idxs qs

theorem src_quantile_mono (xs : List Rat) (hne : xs ≠ []) (q1 q2 : Rat) (h0 : 0 ≤ q1) (h12 : q1 ≤ q2)
    (h1 : q2 ≤ 1) : quantileBy seriesMethod xs q1 ≤ quantileBy seriesMethod xs q2 ∧
      quantileBy frameMethod xs q1 ≤ quantileBy frameMethod xs q2 :=
  ⟨quantileLinear_mono xs hne q1 q2 h0 h12 h1, quantileLinear_mono xs hne q1 q2 h0 h12 h1⟩

theorem src_ci_length_and_order (frame : Bool) (m : BMetric) (rows : List WRow) (idxs : List (List Nat))
    (qs : List Rat) (hq : ∀ q ∈ qs, 0 ≤ q ∧ q ≤ 1) (c : CI) (h : ciSrc frame m rows idxs qs = some c) :
    Ordered qs c.overall ∧ c.byGroup.length = c.keys.length ∧ (∀ row ∈ c.byGroup, Ordered qs row) ∧
    Ordered qs c.gmin ∧ Ordered qs c.gmax ∧ Ordered qs c.diffBetween ∧ Ordered qs c.diffOverall ∧
    Ordered qs c.ratioBetween ∧ Ordered qs c.ratioOverall := by
  rw [src_ci_eq] at h; exact ci_wellformed frame m rows idxs qs hq c h

/-- every resample the lifted `data.sample` call can produce has n rows, so `count`'s overall CI is n -/
theorem src_count_is_n (frame : Bool) (rows : List WRow) (idxs : List (List Nat)) (hn : 0 < rows.length)
    (hne : idxs ≠ []) (hv : ∀ idx ∈ idxs, validResample rows.length idx = true) (qs : List Rat)
    (hq : ∀ q ∈ qs, 0 ≤ q ∧ q ≤ 1) (c : CI) (h : ciSrc frame .count rows idxs qs = some c) :
    ∀ v ∈ c.overall, v = .fin (rows.length : Rat) := by
  rw [src_ci_eq] at h
  exact count_overall_ci frame rows idxs rows.length hn hne
    (fun idx hi => (validResample_length _ idx (hv idx hi)).1) qs hq c h

example : (ciSrc false (.w (.sel 1)) exRows exIdxs [9/10, 1/10]).map (·.overall) =
    some [.fin (9/10), .fin (1/2)] := by decide +kernel
example : exIdxs.all (validResample exRows.length) = true := by decide +kernel

end Src

/-! ### 7. NaN handling and entry-wise independence (control features, several metrics) -/

/-- what the code does with a group that is absent from some resamples: `by_group_ci` (and everything when control
    features are present) goes through `np.nanquantile`, i.e. the quantile of the values of the resamples in which the
    group occurs; only a group absent from EVERY resample gives NaN … -/
theorem nan_skipped_in_frames (xs : List XR) (q : Rat) :
    quantileXR true xs q = quantileXR true (xs.filter (fun x => !isNaN x)) q ∧
    ((∀ x ∈ xs, x = .nan) → quantileXR true xs q = some .nan) ∧
    (∀ l : List Rat, l ≠ [] → finOnly (xs.filter (fun x => !isNaN x)) = some l →
      quantileXR true xs q = some (.fin (quantileLinear l q))) := by
  refine ⟨?_, ?_, ?_⟩
  · simp [quantileXR, quantileSkip, List.filter_filter]
  · intro h
    have : xs.filter (fun x => !isNaN x) = [] := by
      rw [List.filter_eq_nil_iff]; intro x hx; rw [h x hx]; simp [isNaN]
    simp [quantileXR, quantileSkip, this]
  · intro l hne hf
    have hl : (xs.filter (fun x => !isNaN x)) ≠ [] := by
      intro h0; rw [h0] at hf; simp [finOnly] at hf; exact hne hf
    simp [quantileXR, quantileSkip, hf, hl]

/-- … whereas the Series path (`overall_ci` and the aggregates without control features) uses `np.quantile`:
    one NaN resample value (e.g. a 0/0 ratio in one resample) makes the entry NaN at every quantile -/
theorem nan_propagates_in_series (xs : List XR) (h : XR.nan ∈ xs) (q : Rat) : quantileXR false xs q = some .nan := by
  have hne : xs.isEmpty = false := by cases xs <;> simp_all
  have hany : xs.any isNaN = true := List.any_eq_true.mpr ⟨.nan, h, rfl⟩
  simp [quantileXR, quantileProp, hne, hany]

/-- the per-level computation is the resampled frame filtered by control level: picking the restricted positions
    from the rows of level L gives the level-L rows of the resample, in drawing order -/
theorem level_resample_is_filtered_resample (L : Nat) (tr : List TRow) (idx : List Nat) (h : ∀ i ∈ idx, i < tr.length) :
    pick (levelRows L tr) (restrict L tr idx) = some (levelRows L (idx.filterMap (fun i => tr[i]?))) :=
  pick_restrict L tr idx h

/-- no cross-talk between control levels: changing rows of OTHER levels (labels, predictions, weights, groups) does
    not change any `*_ci` entry of level L -/
theorem no_cross_talk_between_levels (L : Nat) (m : BMetric) (tr1 tr2 : List TRow)
    (htags : tr1.map (fun p => p.1) = tr2.map (fun p => p.1))
    (hrows : ∀ (i : Nat) (p q : TRow), tr1[i]? = some p → tr2[i]? = some q → p.1 = L → p.2 = q.2)
    (idxs : List (List Nat)) (qs : List Rat) : ciAt L m tr1 idxs qs = ciAt L m tr2 idxs qs := by
  unfold ciAt
  rw [levelRows_congr L tr1 tr2 htags hrows]
  congr 1
  exact List.map_congr_left (fun idx _ => restrict_congr L tr1 tr2 htags idx)

/-- no cross-talk between metrics / levels of one frame: entry (i, j) of the frame's CI table is the CI of metric i at
    level j alone — adding, removing or changing other metrics of the dict or other levels does not change it -/
theorem frame_entrywise (ms : List BMetric) (levels : List Nat) (tr : List TRow) (idxs : List (List Nat)) (qs : List Rat)
    (i j : Nat) (hi : i < ms.length) (hj : j < levels.length) :
    ((ciFrame ms levels tr idxs qs)[i]?).bind (·[j]?) = some (ciAt levels[j] ms[i] tr idxs qs) := by
  simp [ciFrame, hi, hj]

example : ciAt 1 (.w (.sel 1)) [(0, ⟨0, 1, 1, 1, 1⟩), (1, ⟨0, 0, 1, 1, 1⟩), (1, ⟨1, 1, 0, 0, 1⟩)] [[2, 0, 1], [1, 1, 0]] [1/2] =
    ci true (.w (.sel 1)) [⟨0, 0, 1, 1, 1⟩, ⟨1, 1, 0, 0, 1⟩] [[1, 0], [0, 0]] [1/2] := by decide +kernel

end C18
