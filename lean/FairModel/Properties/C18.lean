/-
C18 — bootstrap intervals are reproducible, ordered and shaped like the estimates.
Property theorems only; helper lemmas live in `Lemmas/Bootstrap.lean`, `Lemmas/BootstrapSrc.lean`,
`Lemmas/BootstrapMore.lean`.

The random number generator is an INPUT of the model (`idxs`: for every bootstrap sample the list
of row positions it drew); "identical across runs with the same random_state" is therefore the
statement that every `*_ci` value is a function of (rows, idxs, quantiles) — which it is by
construction (`Bootstrap.ci` is a Lean function) — plus the harness's replay of the seed stream.
The statistical reading of "the resamples differ" is outside the model (partial, see the check).

CLAUSE → THEOREM TABLE (review R2; property text of properties.jsonl, clause by clause)
  1 "every *_ci result is a list with one entry per requested quantile"
        ci_length, ci_length_and_order (`Ordered qs l` contains `l.length = qs.length`), src_ci_length_and_order
  2 "each with the same type, columns … as the corresponding point estimate"
        pandas glue, NOT in the model: lifted flags only (src_order_and_shape: entry i = row i of the quantile array
        with name/columns/index of the first aligned sample) + harness relations C18.ci_type / ci_columns / ci_index
  3 "… and (for groups that occur in at least one resample) index as the point estimate"
        ci_shape (index ⊆ point-estimate index; every drawn group is in it),
        ci_index_eq_point_estimate (NEW: equality with the point estimate's index once every group is drawn),
        ci_index_may_be_smaller (NEW: witness that the parenthesis of the clause is needed)
  4 "entries are element-wise non-decreasing in the quantile"
        quantile_mono, ci_length_and_order, src_quantile_mono, src_ci_length_and_order
        (NaN entries: NaN at one quantile iff NaN at all — `XRle` — see nan_skipped_in_frames / nan_propagates_in_series)
  5 "identical across runs with the same integer random_state"
        PARTIAL BY NATURE: `ci` is a function of (rows, idxs, qs); src_seed_stream (per-sample seed i from a stream of
        n_boot entries derived from random_state); that numpy/pandas RNGs are deterministic is trusted; harness
        relation C18.same_seed (two builds, bitwise equal) and C18.replay (spy metric)
  6 "every resample draws exactly n rows with replacement from the n data rows"
        src_draw_count, src_resample_shape, src_with_replacement, resample_has_n_rows
  7 "the overall row count is n at every quantile"
        count_is_n, src_count_is_n
  8 "a metric that is constant over the rows has all quantiles equal to the point estimate"
        constant_metric_all_quantiles (row-ignoring metric), constant_statistic_all_quantiles (any column),
        resample_constant_metric_all_quantiles (NEW: ANY metric taking the value v on every drawn resample),
        identical_rows_all_quantiles (NEW: ANY metric on n identical rows — equals the point estimate)
  9 "for data on which the metric varies the resamples differ"
        PARTIAL BY NATURE (behaviour of the RNG): observed per case (tag varying_samples); not a theorem
 10 "so a wide quantile pair encloses an interval of positive width around the resampling mean"
        nonconstant_gives_width (positive width, explicit meaning of "wide"), mean_strictly_between_min_max,
        extreme_pair_encloses_mean (NEW: Q(0) ≤ mean ≤ Q(1)).  For quantiles strictly inside (0,1) "encloses the mean"
        is FALSE as a statement about numpy's quantile: wide_pair_need_not_enclose_mean (NEW, witness
        [0,0,0,100], q = 1/10, 7/10: Q(7/10) = 10 < 25 = mean; replayed with np.quantile).  Only the positive width
        is checked by the harness (C18.nonconstant_gives_width).

TOTALISATION NOTES (review R2)
  * `quantileSorted` uses `getD _ 0` and `k - 1 : Nat`: every theorem about it carries `xs ≠ []` and `0 ≤ q ≤ 1`
    (then both indices are < k, lemma `interp_bounds`); the driver refuses empty lists and q outside the range
    (`bad-op`), the real code raises on q outside [0,1] (`np.quantile`: "Quantiles must be in the range [0, 1]").
  * `mean xs = sum / length`: only used with a member `a ∈ xs` / `xs ≠ []`.
  * `ci … = none` (position out of range, metric error, infinite sample value) is OUTSIDE the model; every theorem
    about `ci` assumes `= some c`, the driver prints `unsupported` and the check reports that as a harness error —
    it is never silently skipped.  Examples below show `some` is reached on non-trivial inputs.
  * `lookupKey` returns NaN when the key is missing (= pandas reindex NaN fill — intended, not a default).
-/
import FairModel.Lemmas.Bootstrap
import FairModel.Lemmas.BootstrapSrc
import FairModel.Lemmas.BootstrapMore

namespace C18
open BaseMetrics Weights Bootstrap

/-! ### 1. numpy's linear quantile of the bootstrap sample values -/

/-- entries are non-decreasing in the quantile: any non-empty list, any 0 ≤ q₁ ≤ q₂ ≤ 1 -/
theorem quantile_mono (xs : List Rat) (hne : xs ≠ []) (q1 q2 : Rat) (h0 : 0 ≤ q1) (h12 : q1 ≤ q2)
    (h1 : q2 ≤ 1) : quantileLinear xs q1 ≤ quantileLinear xs q2 :=
  quantileLinear_mono xs hne q1 q2 h0 h12 h1

/-- a statistic that is the same in every resample has every quantile equal to that value -/
theorem quantile_const (xs : List Rat) (hne : xs ≠ []) (c : Rat) (hc : ∀ x ∈ xs, x = c)
    (q : Rat) (q0 : 0 ≤ q) (q1 : q ≤ 1) : quantileLinear xs q = c :=
  quantileLinear_const xs hne c hc q q0 q1

/-- every quantile lies between two of the sample values, hence between their min and max -/
theorem quantile_between_min_max (xs : List Rat) (hne : xs ≠ []) (q : Rat) (q0 : 0 ≤ q) (q1 : q ≤ 1) :
    (∃ a ∈ xs, ∃ b ∈ xs, a ≤ quantileLinear xs q ∧ quantileLinear xs q ≤ b) ∧
    (∀ lo hi : Rat, (∀ x ∈ xs, lo ≤ x ∧ x ≤ hi) → lo ≤ quantileLinear xs q ∧ quantileLinear xs q ≤ hi) :=
  ⟨quantileLinear_mem_bounds xs hne q q0 q1, fun lo hi hb => quantileLinear_between xs hne q q0 q1 lo hi hb⟩

/-! ### 2. every `*_ci` result: one entry per quantile, ordered like the quantiles -/

/-- `overall_ci`, each row of `by_group_ci`, `group_min_ci`, `group_max_ci`, `difference_ci` and
    `ratio_ci` (both methods) have exactly one entry per requested quantile, and entry i ≤ entry j
    whenever qᵢ ≤ qⱼ (both NaN, or both finite and ordered) — for any data, metric, resamples. -/
theorem ci_length_and_order (skip : Bool) (m : BMetric) (rows : List WRow) (idxs : List (List Nat))
    (qs : List Rat) (hq : ∀ q ∈ qs, 0 ≤ q ∧ q ≤ 1) (c : CI) (h : ci skip m rows idxs qs = some c) :
    Ordered qs c.overall ∧ c.byGroup.length = c.keys.length ∧ (∀ row ∈ c.byGroup, Ordered qs row) ∧
    Ordered qs c.gmin ∧ Ordered qs c.gmax ∧ Ordered qs c.diffBetween ∧ Ordered qs c.diffOverall ∧
    Ordered qs c.ratioBetween ∧ Ordered qs c.ratioOverall :=
  ci_wellformed skip m rows idxs qs hq c h

theorem ci_length (skip : Bool) (m : BMetric) (rows : List WRow) (idxs : List (List Nat))
    (qs : List Rat) (hq : ∀ q ∈ qs, 0 ≤ q ∧ q ≤ 1) (c : CI) (h : ci skip m rows idxs qs = some c) :
    c.overall.length = qs.length ∧ (∀ row ∈ c.byGroup, row.length = qs.length) ∧
    c.gmin.length = qs.length ∧ c.gmax.length = qs.length ∧ c.diffBetween.length = qs.length ∧
    c.diffOverall.length = qs.length ∧ c.ratioBetween.length = qs.length ∧
    c.ratioOverall.length = qs.length := by
  obtain ⟨a, _, b, c1, c2, c3, c4, c5, c6⟩ := ci_wellformed skip m rows idxs qs hq c h
  exact ⟨a.1, fun row hr => (b row hr).1, c1.1, c2.1, c3.1, c4.1, c5.1, c6.1⟩

/-! ### 3. shape: the index of `by_group_ci` -/

/-- only groups of the data occur in the index; a group hit by at least one resample does occur -/
theorem ci_shape (skip : Bool) (m : BMetric) (rows : List WRow) (idxs : List (List Nat)) (qs : List Rat)
    (c : CI) (h : ci skip m rows idxs qs = some c) :
    (∀ key ∈ c.keys, key ∈ keys rows) ∧
    (∀ idx ∈ idxs, ∀ i ∈ idx, ∀ r, rows[i]? = some r → r.g ∈ c.keys) := by
  obtain ⟨samples, hs, hk, _⟩ := ci_fields skip m rows idxs qs c h
  rw [hk]
  exact ⟨ciKeys_subset m rows idxs samples hs,
    fun idx hidx i hi r hr => ciKeys_hit m rows idxs samples hs idx hidx i hi r hr⟩

/-- NEW (R2): when every group of the data is drawn by at least one resample, the index of `by_group_ci` IS the
    index of the point estimate (`(frameOf m rows).keys = keys rows`, lemma `frameOf_fields`) — same order, no
    duplicates. -/
theorem ci_index_eq_point_estimate (skip : Bool) (m : BMetric) (rows : List WRow) (idxs : List (List Nat))
    (qs : List Rat) (c : CI) (h : ci skip m rows idxs qs = some c)
    (hall : ∀ key ∈ keys rows, ∃ idx ∈ idxs, ∃ i ∈ idx, ∃ r, rows[i]? = some r ∧ r.g = key) :
    c.keys = keys rows ∧ (∀ f, frameOf m rows = .ok f → c.keys = f.keys) := by
  obtain ⟨samples, hs, hk, _⟩ := ci_fields skip m rows idxs qs c h
  have e := ciKeys_eq_keys m rows idxs samples hs hall
  exact ⟨hk.trans e, fun f hf => by rw [(frameOf_fields m rows f hf).1]; exact hk.trans e⟩

/-- vacuity: exRows' two groups are both drawn by exIdxs (see below), all hypotheses hold at once -/
example : ∃ c, ci false (.w (.sel 1)) [⟨0, 1, 1, 1, 1⟩, ⟨1, 0, 0, 0, 1⟩, ⟨1, 1, 0, 0, 1⟩, ⟨0, 0, 1, 1, 1⟩]
      [[0, 1, 1, 3], [2, 2, 0, 0], [3, 3, 3, 3]] [1/10, 9/10] = some c ∧ c.keys = [0, 1] ∧
    keys [⟨0, 1, 1, 1, 1⟩, ⟨1, 0, 0, 0, 1⟩, ⟨1, 1, 0, 0, 1⟩, ⟨0, 0, 1, 1, 1⟩] = [0, 1] := by decide +kernel

/-- NEW (R2): the parenthesis "(for groups that occur in at least one resample)" is needed: a group that no
    resample draws is missing from the `by_group_ci` index although it is in the point estimate's index. -/
theorem ci_index_may_be_smaller :
    (ci false .count [⟨0, 1, 1, 1, 1⟩, ⟨1, 0, 0, 0, 1⟩] [[0, 0], [0, 0]] [1/2]).map (·.keys) = some [0] ∧
    keys [⟨0, 1, 1, 1, 1⟩, ⟨1, 0, 0, 0, 1⟩] = [0, 1] := by decide +kernel

/-! ### 4. every resample has exactly n rows -/

/-- a resample of n positions has n rows: `count` overall is n in every sample ... -/
theorem resample_has_n_rows (rows : List WRow) (idx : List Nat) (rs : List WRow)
    (h : pick rows idx = some rs) : rs.length = idx.length ∧ ∀ r ∈ rs, r ∈ rows :=
  ⟨pick_length rows idx rs h, pick_subset rows idx rs h⟩

/-- ... hence `count`'s overall CI is n at every quantile -/
theorem count_is_n (skip : Bool) (rows : List WRow) (idxs : List (List Nat)) (n : Nat) (hn : 0 < n)
    (hne : idxs ≠ []) (hlen : ∀ idx ∈ idxs, idx.length = n) (qs : List Rat)
    (hq : ∀ q ∈ qs, 0 ≤ q ∧ q ≤ 1) (c : CI) (h : ci skip .count rows idxs qs = some c) :
    ∀ v ∈ c.overall, v = .fin (n : Rat) :=
  count_overall_ci skip rows idxs n hn hne hlen qs hq c h

/-- a metric that is constant over the rows: all quantiles equal the point estimate -/
theorem constant_metric_all_quantiles (skip : Bool) (v : Rat) (rows : List WRow)
    (idxs : List (List Nat)) (hne : idxs ≠ []) (hlen : ∀ idx ∈ idxs, idx ≠ []) (qs : List Rat)
    (hq : ∀ q ∈ qs, 0 ≤ q ∧ q ≤ 1) (c : CI) (h : ci skip (.const v) rows idxs qs = some c) :
    evalB (.const v) rows = .ok v ∧ ∀ x ∈ c.overall, x = .fin v :=
  ⟨rfl, const_overall_ci skip v rows idxs hne hlen qs hq c h⟩

/-- generally: any statistic taking the same finite value in every resample -/
theorem constant_statistic_all_quantiles (skip : Bool) (xs : List XR) (hne : xs ≠ []) (v : Rat)
    (hc : ∀ x ∈ xs, x = .fin v) (qs : List Rat) (hq : ∀ q ∈ qs, 0 ≤ q ∧ q ≤ 1) (l : List XR)
    (h : ciOf skip xs qs = some l) : ∀ x ∈ l, x = .fin v :=
  ciOf_const skip xs hne v hc qs hq l h

/-- NEW (R2): clause 8 at full strength — ANY metric (selection rate, TPR, count, …) that takes the finite value `v`
    on every resample that is actually drawn has every overall quantile equal to `v`.  (`hlen`: a resample of n ≥ 1
    rows is non-empty; `constant_metric_all_quantiles` is the special case of a metric that ignores its rows.) -/
theorem resample_constant_metric_all_quantiles (skip : Bool) (m : BMetric) (v : Rat) (rows : List WRow)
    (idxs : List (List Nat)) (hne : idxs ≠ []) (hlen : ∀ idx ∈ idxs, idx ≠ [])
    (hv : ∀ idx ∈ idxs, ∀ rs, pick rows idx = some rs → rs ≠ [] → evalB m rs = .ok v)
    (qs : List Rat) (hq : ∀ q ∈ qs, 0 ≤ q ∧ q ≤ 1) (c : CI) (h : ci skip m rows idxs qs = some c) :
    ∀ x ∈ c.overall, x = .fin v :=
  stat_overall_ci skip m v rows idxs hne hlen hv qs hq c h

/-- NEW (R2): n identical rows — whatever the metric, every resample of n positions is the data itself, so every
    overall quantile equals the POINT ESTIMATE `evalB m rows`. -/
theorem identical_rows_all_quantiles (skip : Bool) (m : BMetric) (r : WRow) (n : Nat) (hn : 0 < n)
    (idxs : List (List Nat)) (hne : idxs ≠ []) (hlen : ∀ idx ∈ idxs, idx.length = n) (v : Rat)
    (hpt : evalB m (List.replicate n r) = .ok v)
    (qs : List Rat) (hq : ∀ q ∈ qs, 0 ≤ q ∧ q ≤ 1) (c : CI) (h : ci skip m (List.replicate n r) idxs qs = some c) :
    ∀ x ∈ c.overall, x = .fin v := by
  refine stat_overall_ci skip m v _ idxs hne ?_ ?_ qs hq c h
  · intro idx hi e
    have := hlen idx hi
    rw [e] at this; simp at this; omega
  · intro idx hi rs hp _
    rw [pick_replicate r n idx rs (hlen idx hi) hp]; exact hpt

/-- vacuity for the two theorems above: 3 identical rows (label 1, prediction 1), selection rate, two resamples with
    repetitions; all hypotheses hold, the CI exists, and its entries are the point estimate 1 -/
example : (0 < 3) ∧ ([[0, 0, 2], [1, 2, 2]] : List (List Nat)) ≠ [] ∧
    (∀ idx ∈ ([[0, 0, 2], [1, 2, 2]] : List (List Nat)), idx.length = 3) ∧
    evalB (.w (.sel 1)) (List.replicate 3 ⟨0, 1, 1, 1, 1⟩) = .ok 1 ∧
    (ci false (.w (.sel 1)) (List.replicate 3 ⟨0, 1, 1, 1, 1⟩) [[0, 0, 2], [1, 2, 2]] [1/10, 9/10]).map (·.overall) =
      some [.fin 1, .fin 1] := by decide +kernel

/-- a metric that is constant on the resamples without the rows being identical: all predictions are 1, labels and
    groups vary; selection rate is 1 on every resample -/
example : (ci false (.w (.sel 1)) [⟨0, 1, 1, 1, 1⟩, ⟨1, 0, 1, 1, 1⟩, ⟨1, 1, 1, 1, 2⟩] [[0, 1, 1], [2, 2, 0]] [1/4, 3/4]).map
    (·.overall) = some [.fin 1, .fin 1] := by decide +kernel

/-! ### 5. non-constant samples give an interval of positive width -/

/-- k sample values that are not all equal: a pair with `q_lo·(k−1) < 1`, `q_hi·(k−1) > k−2` and
    `q_lo < q_hi` has strictly increasing quantiles.  (That the resampled values of a varying
    metric *are* non-constant is the statistical part; the harness checks it on the replayed
    resamples.) -/
theorem nonconstant_gives_width (xs : List Rat) (a b : Rat) (ha : a ∈ xs) (hb : b ∈ xs) (hab : a < b)
    (qlo qhi : Rat) (h0 : 0 ≤ qlo) (h1 : qhi ≤ 1) (hlt : qlo < qhi)
    (hlo : qlo * ((xs.length : Rat) - 1) < 1) (hhi : (xs.length : Rat) - 2 < qhi * ((xs.length : Rat) - 1)) :
    quantileLinear xs qlo < quantileLinear xs qhi :=
  quantileLinear_width xs a b ha hb hab qlo qhi h0 h1 hlt hlo hhi

/-- ... and the resampling mean lies strictly inside (min, max), the limit of wide quantile pairs -/
theorem mean_strictly_between_min_max (xs : List Rat) (lo hi : Rat) (hb : ∀ x ∈ xs, lo ≤ x ∧ x ≤ hi)
    (a b : Rat) (ha : a ∈ xs) (hb' : b ∈ xs) (hla : lo < a) (hbh : b < hi) :
    lo < mean xs ∧ mean xs < hi :=
  mean_strictly_inside xs lo hi hb a b ha hb' hla hbh

/-- NEW (R2): the widest pair, q = 0 and q = 1 (min and max of the resampled values), always encloses the resampling
    mean … -/
theorem extreme_pair_encloses_mean (xs : List Rat) (hne : xs ≠ []) :
    quantileLinear xs 0 ≤ mean xs ∧ mean xs ≤ quantileLinear xs 1 :=
  mean_between_extreme_quantiles xs hne

/-- NEW (R2): … but for quantiles strictly inside (0,1) "a wide pair encloses the mean" is FALSE of numpy's linear
    quantile, even under all the width hypotheses of `nonconstant_gives_width`: resampled values 0,0,0,100 and the pair
    (1/10, 7/10) give the interval [0, 10] of positive width, the mean is 25.  (`np.quantile([0,0,0,100],[.1,.7])` =
    `[0., 10.]`, `np.mean` = 25.0 — replayed on numpy 2.5.)  The clause is therefore kept as: positive width (theorem)
    + mean strictly inside (min, max) (theorem) + enclosure at the extreme pair (theorem). -/
theorem wide_pair_need_not_enclose_mean :
    ∃ (xs : List Rat) (a b qlo qhi : Rat), a ∈ xs ∧ b ∈ xs ∧ a < b ∧ 0 ≤ qlo ∧ qhi ≤ 1 ∧ qlo < qhi ∧
      qlo * ((xs.length : Rat) - 1) < 1 ∧ (xs.length : Rat) - 2 < qhi * ((xs.length : Rat) - 1) ∧
      quantileLinear xs qlo < quantileLinear xs qhi ∧ quantileLinear xs qhi < mean xs :=
  ⟨[0, 0, 0, 100], 0, 100, 1/10, 7/10, by decide +kernel⟩

/-- vacuity of `nonconstant_gives_width`: ALL its hypotheses at once on a 4-sample column (both order statistics cells
    are interior: h_lo = 3/10 ∈ cell 0, h_hi = 27/10 ∈ the last cell) -/
example : (1 : Rat) ∈ ([3, 1, 2, 10] : List Rat) ∧ (10 : Rat) ∈ ([3, 1, 2, 10] : List Rat) ∧ (1 : Rat) < 10 ∧
    (0 : Rat) ≤ 1/10 ∧ (9/10 : Rat) ≤ 1 ∧ (1/10 : Rat) < 9/10 ∧
    (1/10 : Rat) * ((([3, 1, 2, 10] : List Rat).length : Rat) - 1) < 1 ∧
    ((([3, 1, 2, 10] : List Rat).length : Rat) - 2) < (9/10 : Rat) * ((([3, 1, 2, 10] : List Rat).length : Rat) - 1) ∧
    quantileLinear [3, 1, 2, 10] (1/10) = 13/10 ∧ quantileLinear [3, 1, 2, 10] (9/10) = 79/10 := by decide +kernel

/-- vacuity of `mean_strictly_between_min_max` (all hypotheses, non-constant list) -/
example : (∀ x ∈ ([3, 1, 2, 10] : List Rat), (1 : Rat) ≤ x ∧ x ≤ 10) ∧ (3 : Rat) ∈ ([3, 1, 2, 10] : List Rat) ∧
    (2 : Rat) ∈ ([3, 1, 2, 10] : List Rat) ∧ (1 : Rat) < 3 ∧ (2 : Rat) < 10 ∧ mean [3, 1, 2, 10] = 4 := by decide +kernel

/-! ### Non-vacuity: concrete inputs meeting the hypotheses, evaluated by the kernel. -/

example : quantileLinear [3, 1, 2, 10] (9/10) = 79/10 := by decide +kernel
example : quantileLinear [3, 1, 2, 10] (1/10) < quantileLinear [3, 1, 2, 10] (9/10) := by decide +kernel
example : (1 / 10 : Rat) * (((([3, 1, 2, 10] : List Rat).length : Nat) : Rat) - 1) < 1 := by norm_num
example : quantileLinear [5, 5, 5] (1/3) = 5 := by decide +kernel
/-- the virtual index hits both branches (interior cell, last cell) -/
example : quantileLinear [4, 8] 1 = 8 ∧ quantileLinear [4, 8] (1/2) = 6 ∧ quantileLinear [7] (1/2) = 7 := by decide +kernel

def exRows : List WRow := [⟨0, 1, 1, 1, 1⟩, ⟨1, 0, 0, 0, 1⟩, ⟨1, 1, 0, 0, 1⟩, ⟨0, 0, 1, 1, 1⟩]
def exIdxs : List (List Nat) := [[0, 1, 1, 3], [2, 2, 0, 0], [3, 3, 3, 3]]
/-- selection rate: the third resample misses group 1, its by_group entry is NaN and skipped -/
example : (ci false (.w (.sel 1)) exRows exIdxs [1/10, 9/10]).map (·.overall) =
    some [.fin (1/2), .fin (9/10)] := by decide +kernel
example : (ci false (.w (.sel 1)) exRows exIdxs [1/10, 9/10]).map (·.keys) = some [0, 1] := by decide +kernel
example : (ci false .count exRows exIdxs [1/10, 9/10]).map (·.overall) = some [.fin 4, .fin 4] := by
  decide +kernel
example : (ci false (.const 7) exRows exIdxs [1/10, 1/2]).map (·.overall) = some [.fin 7, .fin 7] := by
  decide +kernel
/-- vacuity of `count_is_n`, `ci_length_and_order`, `ci_length`, `ci_shape`, `constant_metric_all_quantiles`: ALL
    hypotheses at once on 4 rows / 2 groups / both labels / 3 resamples with repetitions / 2 quantiles -/
example : (0 < 4) ∧ exIdxs ≠ [] ∧ (∀ idx ∈ exIdxs, idx.length = 4) ∧ (∀ idx ∈ exIdxs, idx ≠ []) ∧
    (∀ q ∈ ([1/10, 9/10] : List Rat), 0 ≤ q ∧ q ≤ 1) ∧
    (ci false .count exRows exIdxs [1/10, 9/10]).isSome = true ∧
    (ci true (.w (.sel 1)) exRows exIdxs [1/10, 9/10]).isSome = true ∧
    (ci false (.const 7) exRows exIdxs [1/10, 9/10]).isSome = true := by decide +kernel
/-- … and the by-group table of that case is not degenerate: two rows, group 1 absent from the third resample -/
example : (ci false (.w (.sel 1)) exRows exIdxs [1/10, 9/10]).map (·.byGroup) =
    some [[.fin 1, .fin 1], [.fin 0, .fin 0]] := by decide +kernel
/-- a ratio that is 0/0 in one resample makes `np.quantile` (no control features) return NaN -/
example : (ci false (.w (.sel 1)) [⟨0, 1, 0, 0, 1⟩, ⟨0, 1, 1, 1, 1⟩] [[0, 0], [1, 0]] [1/2]).map (·.ratioBetween) =
    some [.nan] := by decide +kernel

/-! ### 6. the same clauses for the model PARAMETRISED BY THE SOURCE

`Generated/BootstrapSrc.lean` is rewritten from the Python `ast` of `_bootstrap.py` / `_metric_frame.py` on every run
(harness/lifters/bootstrap.py): the `data.sample(..)` keywords, the seed of sample i, the loop count, which numpy
quantile function with which method / axis / `q=` each path calls, how entry i of a `*_ci` list is assembled, and
that every accessor receives `ci_quantiles` unchanged.  `Model/BootstrapSrc.lean` builds `ciSrc`, `drawCount`,
`validResample`, `seedIndex`, `loopCount` from those values.  The theorems below hold for the values lifted from the
current tree; an edit of the source changes the generated file and re-checks (or breaks) them. -/

section Src
open BootstrapSrc Generated.BootstrapSrc

/-- `data.sample(frac=1, ..)`: a resample of n rows draws exactly n positions -/
theorem src_draw_count (n : Nat) : drawCount n = n := drawCount_eq n

/-- … with replacement: every list of n positions below n — repetitions allowed — is a possible resample,
    and nothing else is -/
theorem src_resample_shape (n : Nat) (idx : List Nat) :
    validResample n idx = true ↔ (idx.length = n ∧ ∀ i ∈ idx, i < n) :=
  ⟨validResample_length n idx, fun h => validResample_of_length n idx h.1 h.2⟩

theorem src_with_replacement : sampleReplace = true ∧ validResample 3 [0, 0, 2] = true := by decide +kernel

/-- `n_boot` resamples are drawn, the seed stream has `n_boot` entries derived from the user's `random_state`,
    and resample i is seeded with entry i (distinct resamples use distinct entries) -/
theorem src_seed_stream (B i j : Nat) :
    loopCount B = B ∧ seedIndex i = some i ∧ (seedIndex i = seedIndex j → i = j) ∧
    seedStreamSizeIsNSamples = true ∧ nSamplesIsNBoot = true ∧ randomStatePassed = true := by
  refine ⟨loopCount_eq B, rfl, ?_, rfl, rfl, rfl⟩
  intro h; rw [seedIndex_eq, seedIndex_eq] at h; exact Option.some.inj h

/-- the Series path calls `np.quantile`, the DataFrame path `np.nanquantile`, both with numpy's default method
    'linear' along the sample axis: the lifted quantile IS the modelled one -/
theorem src_quantile_is_linear (frame : Bool) (xs : List XR) (q : Rat) :
    quantileXRsrc frame xs q = quantileXR frame xs q ∧ seriesAxis = 0 ∧ frameAxis = 0 :=
  ⟨quantileXRsrc_eq frame xs q, rfl, rfl⟩

/-- the requested quantiles reach numpy in the order given at every call site, entry i of every `*_ci` list is row i
    of the quantile array, shaped (name / columns / index) like the first aligned sample, and all six accessors are
    filled -/
theorem src_order_and_shape (qs : List Rat) :
    qsUsed seriesQOrder qs = qs ∧ qsUsed frameQOrder qs = qs ∧
    quantileArgs.all (· == "ci_quantiles") = true ∧ quantileArgs.length = 5 ∧
    seriesShapeFromFirstSample = true ∧ frameShapeFromFirstSample = true ∧ frameAligned = true ∧
    ciAccessors = ["by_group_ci", "difference_ci", "group_max_ci", "group_min_ci", "overall_ci", "ratio_ci"] := by
  refine ⟨rfl, rfl, ?_, ?_, rfl, rfl, rfl, ?_⟩ <;> decide +kernel

/-- the whole `*_ci` computation assembled from the lifted pieces is the modelled one -/
theorem src_ci_eq (frame : Bool) (m : BMetric) (rows : List WRow) (idxs : List (List Nat)) (qs : List Rat) :
    ciSrc frame m rows idxs qs = ci frame m rows idxs qs := ciSrc_eq frame m rows idxs qs

theorem src_quantile_mono (xs : List Rat) (hne : xs ≠ []) (q1 q2 : Rat) (h0 : 0 ≤ q1) (h12 : q1 ≤ q2)
    (h1 : q2 ≤ 1) : quantileBy seriesMethod xs q1 ≤ quantileBy seriesMethod xs q2 ∧
      quantileBy frameMethod xs q1 ≤ quantileBy frameMethod xs q2 :=
  ⟨quantileLinear_mono xs hne q1 q2 h0 h12 h1, quantileLinear_mono xs hne q1 q2 h0 h12 h1⟩

theorem src_ci_length_and_order (frame : Bool) (m : BMetric) (rows : List WRow) (idxs : List (List Nat))
    (qs : List Rat) (hq : ∀ q ∈ qs, 0 ≤ q ∧ q ≤ 1) (c : CI) (h : ciSrc frame m rows idxs qs = some c) :
    Ordered qs c.overall ∧ c.byGroup.length = c.keys.length ∧ (∀ row ∈ c.byGroup, Ordered qs row) ∧
    Ordered qs c.gmin ∧ Ordered qs c.gmax ∧ Ordered qs c.diffBetween ∧ Ordered qs c.diffOverall ∧
    Ordered qs c.ratioBetween ∧ Ordered qs c.ratioOverall := by
  rw [src_ci_eq] at h; exact ci_wellformed frame m rows idxs qs hq c h

/-- every resample the lifted `data.sample` call can produce has n rows, so `count`'s overall CI is n -/
theorem src_count_is_n (frame : Bool) (rows : List WRow) (idxs : List (List Nat)) (hn : 0 < rows.length)
    (hne : idxs ≠ []) (hv : ∀ idx ∈ idxs, validResample rows.length idx = true) (qs : List Rat)
    (hq : ∀ q ∈ qs, 0 ≤ q ∧ q ≤ 1) (c : CI) (h : ciSrc frame .count rows idxs qs = some c) :
    ∀ v ∈ c.overall, v = .fin (rows.length : Rat) := by
  rw [src_ci_eq] at h
  exact count_overall_ci frame rows idxs rows.length hn hne
    (fun idx hi => (validResample_length _ idx (hv idx hi)).1) qs hq c h

example : (ciSrc false (.w (.sel 1)) exRows exIdxs [9/10, 1/10]).map (·.overall) =
    some [.fin (9/10), .fin (1/2)] := by decide +kernel
example : exIdxs.all (validResample exRows.length) = true := by decide +kernel
/-- vacuity of `src_count_is_n` / `src_ci_length_and_order`: all hypotheses at once -/
example : (0 < exRows.length) ∧ exIdxs ≠ [] ∧ (∀ idx ∈ exIdxs, validResample exRows.length idx = true) ∧
    (∀ q ∈ ([9/10, 1/10] : List Rat), 0 ≤ q ∧ q ≤ 1) ∧
    (ciSrc true .count exRows exIdxs [9/10, 1/10]).map (·.overall) = some [.fin 4, .fin 4] := by decide +kernel
/-- vacuity of `src_quantile_mono` -/
example : ([3, 1, 2, 10] : List Rat) ≠ [] ∧ quantileBy seriesMethod [3, 1, 2, 10] (1/10) = 13/10 ∧
    quantileBy frameMethod [3, 1, 2, 10] (9/10) = 79/10 := by decide +kernel

end Src

/-! ### 7. NaN handling and entry-wise independence (control features, several metrics) -/

/-- what the code does with a group that is absent from some resamples: `by_group_ci` (and everything when control
    features are present) goes through `np.nanquantile`, i.e. the quantile of the values of the resamples in which the
    group occurs; only a group absent from EVERY resample gives NaN … -/
theorem nan_skipped_in_frames (xs : List XR) (q : Rat) :
    quantileXR true xs q = quantileXR true (xs.filter (fun x => !isNaN x)) q ∧
    ((∀ x ∈ xs, x = .nan) → quantileXR true xs q = some .nan) ∧
    (∀ l : List Rat, l ≠ [] → finOnly (xs.filter (fun x => !isNaN x)) = some l →
      quantileXR true xs q = some (.fin (quantileLinear l q))) := by
  refine ⟨?_, ?_, ?_⟩
  · simp [quantileXR, quantileSkip, List.filter_filter]
  · intro h
    have : xs.filter (fun x => !isNaN x) = [] := by
      rw [List.filter_eq_nil_iff]; intro x hx; rw [h x hx]; simp [isNaN]
    simp [quantileXR, quantileSkip, this]
  · intro l hne hf
    have hl : (xs.filter (fun x => !isNaN x)) ≠ [] := by
      intro h0; rw [h0] at hf; simp [finOnly] at hf; exact hne hf
    simp [quantileXR, quantileSkip, hf, hl]

/-- … whereas the Series path (`overall_ci` and the aggregates without control features) uses `np.quantile`:
    one NaN resample value (e.g. a 0/0 ratio in one resample) makes the entry NaN at every quantile -/
theorem nan_propagates_in_series (xs : List XR) (h : XR.nan ∈ xs) (q : Rat) : quantileXR false xs q = some .nan := by
  have hne : xs.isEmpty = false := by cases xs <;> simp_all
  have hany : xs.any isNaN = true := List.any_eq_true.mpr ⟨.nan, h, rfl⟩
  simp [quantileXR, quantileProp, hne, hany]

/-- the per-level computation is the resampled frame filtered by control level: picking the restricted positions
    from the rows of level L gives the level-L rows of the resample, in drawing order -/
theorem level_resample_is_filtered_resample (L : Nat) (tr : List TRow) (idx : List Nat) (h : ∀ i ∈ idx, i < tr.length) :
    pick (levelRows L tr) (restrict L tr idx) = some (levelRows L (idx.filterMap (fun i => tr[i]?))) :=
  pick_restrict L tr idx h

/-- no cross-talk between control levels: changing rows of OTHER levels (labels, predictions, weights, groups) does
    not change any `*_ci` entry of level L -/
theorem no_cross_talk_between_levels (L : Nat) (m : BMetric) (tr1 tr2 : List TRow)
    (htags : tr1.map (fun p => p.1) = tr2.map (fun p => p.1))
    (hrows : ∀ (i : Nat) (p q : TRow), tr1[i]? = some p → tr2[i]? = some q → p.1 = L → p.2 = q.2)
    (idxs : List (List Nat)) (qs : List Rat) : ciAt L m tr1 idxs qs = ciAt L m tr2 idxs qs := by
  unfold ciAt
  rw [levelRows_congr L tr1 tr2 htags hrows]
  congr 1
  exact List.map_congr_left (fun idx _ => restrict_congr L tr1 tr2 htags idx)

/-- no cross-talk between metrics / levels of one frame: entry (i, j) of the frame's CI table is the CI of metric i at
    level j alone — adding, removing or changing other metrics of the dict or other levels does not change it -/
theorem frame_entrywise (ms : List BMetric) (levels : List Nat) (tr : List TRow) (idxs : List (List Nat)) (qs : List Rat)
    (i j : Nat) (hi : i < ms.length) (hj : j < levels.length) :
    ((ciFrame ms levels tr idxs qs)[i]?).bind (·[j]?) = some (ciAt levels[j] ms[i] tr idxs qs) := by
  simp [ciFrame, hi, hj]

example : ciAt 1 (.w (.sel 1)) [(0, ⟨0, 1, 1, 1, 1⟩), (1, ⟨0, 0, 1, 1, 1⟩), (1, ⟨1, 1, 0, 0, 1⟩)] [[2, 0, 1], [1, 1, 0]] [1/2] =
    ci true (.w (.sel 1)) [⟨0, 0, 1, 1, 1⟩, ⟨1, 1, 0, 0, 1⟩] [[1, 0], [0, 0]] [1/2] := by decide +kernel

/-! ### review R2: vacuity witnesses for the control-feature / NaN theorems of section 7 -/

/-- vacuity of `no_cross_talk_between_levels`: two data sets with the same control tags that differ ONLY in a row of
    level 0 (label, prediction and group changed) — all hypotheses hold, and the level-1 CI is the same -/
def ctA : List TRow := [(0, ⟨0, 1, 1, 1, 1⟩), (1, ⟨0, 0, 1, 1, 1⟩), (1, ⟨1, 1, 0, 0, 1⟩)]
def ctB : List TRow := [(0, ⟨1, 0, 0, 0, 1⟩), (1, ⟨0, 0, 1, 1, 1⟩), (1, ⟨1, 1, 0, 0, 1⟩)]
example : ctA.map (fun p => p.1) = ctB.map (fun p => p.1) := by decide +kernel
theorem ct_rows : ∀ (i : Nat) (p q : TRow), ctA[i]? = some p → ctB[i]? = some q → p.1 = 1 → p.2 = q.2 := by
  intro i p q h1 h2 hL
  match i with
  | 0 => simp [ctA] at h1; subst h1; simp at hL
  | 1 => simp [ctA] at h1; simp [ctB] at h2; subst h1; subst h2; rfl
  | 2 => simp [ctA] at h1; simp [ctB] at h2; subst h1; subst h2; rfl
  | n + 3 => simp [ctA] at h1
example : ciAt 1 (.w (.sel 1)) ctA [[2, 0, 1], [1, 1, 0]] [1/2] = ciAt 1 (.w (.sel 1)) ctB [[2, 0, 1], [1, 1, 0]] [1/2] :=
  no_cross_talk_between_levels 1 (.w (.sel 1)) ctA ctB (by decide +kernel) ct_rows _ _
/-- … and it is a statement with content: level 0 DOES change -/
example : ciAt 0 (.w (.sel 1)) ctA [[2, 0, 1], [1, 1, 0]] [1/2] ≠ ciAt 0 (.w (.sel 1)) ctB [[2, 0, 1], [1, 1, 0]] [1/2] := by
  decide +kernel
/-- vacuity of `level_resample_is_filtered_resample`: positions in range, level 1 hit twice by [2, 0, 1] -/
example : (∀ i ∈ ([2, 0, 1] : List Nat), i < ctA.length) ∧ restrict 1 ctA [2, 0, 1] = [1, 0] ∧
    pick (levelRows 1 ctA) (restrict 1 ctA [2, 0, 1]) = some [⟨1, 1, 0, 0, 1⟩, ⟨0, 0, 1, 1, 1⟩] := by decide +kernel
/-- vacuity of `nan_skipped_in_frames` (third clause) and `nan_propagates_in_series` on the same column -/
example : finOnly (([.fin 1, .nan, .fin 3] : List XR).filter (fun x => !isNaN x)) = some [1, 3] ∧
    quantileXR true [.fin 1, .nan, .fin 3] (1/2) = some (.fin 2) ∧
    quantileXR false [.fin 1, .nan, .fin 3] (1/2) = some .nan := by decide +kernel

end C18
