/-
C06 — constraint moments measure exactly the documented parity violations.
Property theorems only; helper lemmas live in `Lemmas/Moments.lean` / `Lemmas/MomentsRates.lean` / `Lemmas/C06Review.lean`.

All theorems about `index`, `U`, `gamma` are stated for an arbitrary per-row event assignment
`ev : Row → Option String`; `eventOf k` (documented rule = the code since fix b40710c) and `eventOfAsCoded k` (the code
before that fix, finding F3, kept as a regression witness) are its two instances.

CLAUSE → THEOREM TABLE (review R1; property text in properties.jsonl, id C06; composition theorems: C06X.lean)
  (1) "gamma(h) has exactly one '+' and one '-' entry for every (event, group) pair that occurs in the data"
        `index_exact` (entry ⇔ the pair is observed: some row carries this event AND this group — a pair whose event
        occurs and whose group occurs, but never on the same row, has NO entry: example below `ex_no_product_index`),
        `index_nodup`, `index_count` (exactly one of each sign), `index_length`, `gamma_entries` (gamma is indexed by
        `index`), `gamma_exact` (all of it in one statement).  The code builds the index by
        `groupby([event, group_id]).size()` = observed pairs (NOT the Cartesian product its docstring mentions).
  (2) "equal to r*mean_{e,g}(u) − mean_e(u) and r*mean_e(u) − mean_{e,g}(u)"
        `gamma_plus`, `gamma_minus`, `gamma_entry_spec` (every index entry, no side condition).  Zero denominators:
        `index_denominators_pos` — on an index entry P(e) > 0 and P(e,g) > 0, so neither Lean's `x/0 = 0` nor pandas'
        inf/NaN branch is ever taken (an entry with P(e,g) = 0 does not exist in the code either).
  (3) "u is the prediction (the error indicator for error-rate parity)"           `pred_default`, `pred_erp`
  (4) "the events are the label classes the constraint conditions on"              `baseEvent_cases`
  (5) "within each control-feature stratum"                                        `eventOf_some`, `inE_stratum`-based
        selectors `tpr/fpr_event_selects_in_stratum`, `Moments.eo_inE_stratum`, `Cross.dp_event_selects_in_stratum`
  (6) "rows outside the conditioned label class belong to no event"                `eventOf_none_iff`,
        `index_ignores_no_event_rows`, `no_event_rows_inert`; F3 regression witnesses `asCoded_*`;
        TIE of (5)/(6): `event_rule_lifted` — the rule LIFTED from `_merge_event_and_control_columns` /
        `_combine_event_and_control` incl. the notnull guard (`MomentsSrc.mergeEvent/combineEvent`; what the driver runs)
        equals `eventOf`; `lifted_rule_has_guard`
  (7) "bound() is the configured slack on every entry"                             `bound_const`, `config_cases`,
        `config_ratio_in_range`, `config_slack_nonneg`, `bound_of_config` (`mkConfig` is computed with the constructor
        branches LIFTED from `UtilityParity.__init__`, incl. the negative-slack guard; difference_bound → eps = difference_bound, ratio 1;
        ratio_bound → eps = ratio_bound_slack, ratio = ratio_bound; neither → 1/100 (lifted), ratio 1)
  (8) "BoundedGroupLoss.gamma is the per-group mean clipped loss"                  `bgl_gamma`, `loss_values` (clipping,
        lo ≤ hi), `loss_in_declared_range`, `evalS_eq_eval`, `eval_container_dependent` (F21), `zero_one_loss`,
        `bgl_gamma_in_declared_range`, `bgl_signed_weights_entry`
  (9) "ErrorRate.gamma is the cost-weighted error"                                 `errorRate_gamma` (labels 0/1,
        predictions in [0,1] — needed: the code splits `y − pred` by sign), `errorRate_gamma_hard`
 (10) "for r = 1 the '+' entries coincide with MetricFrame by_group − overall of the matching rate"
        against the INDEPENDENT `BaseMetrics` model (C14/C01): `gamma_plus_eq_selection_rate` (DP, any event incl. a
        stratum), `gamma_plus_eq_rate` / `gamma_plus_eq_rate_on` (TPR, FPR, EO; generic in the stratum), instances
        `tpr_gamma_plus`, `fpr_gamma_plus`, `eo_gamma_plus` (no control), `tpr_/fpr_/eo_gamma_plus_in_stratum`,
        `gamma_plus_eq_error_rate` (ERP); against the MetricFrame model of C03 (`Fairness.named`, frames):
        C06X `selrate_dict`, `rate_dict`, `*_difference_le_of_constraint`, whose selector hypotheses `hS : ∀ r, …` are
        discharged for the real event rules by `tpr_constraint_bounds_eopp(_in_stratum)`, `fpr_constraint_bounds`,
        `eo_constraint_bounds_eodds` (EO inside a control stratum is NOT instantiated there: its `hS` quantifies over
        rows with non-binary labels too, which needs `toString` of an `Int` to contain no comma; the `BaseMetrics`
        version `eo_gamma_plus_in_stratum` covers that case for binary rows).
  Vectors of the wrong length: `zipWith`/`dot` truncate on BOTH sides of every equation below (so the equations stay
  true but lose their meaning); the driver rejects such lines (`none`), fairlearn raises — theorems that need the
  length say `h.length = rows.length`.
  Quantifier: nothing is bounded — any number of rows, groups, strata; any rational ratio (the constructor admits
  (0,1]: `config_ratio_in_range`); `h` any rational vector of the right length unless a theorem says `Hard`/`Soft`.
-/
import FairModel.Lemmas.Moments
import FairModel.Lemmas.MomentsRates
import FairModel.Lemmas.MomentsMore
import FairModel.Lemmas.C06Review

namespace C06
open Moments

/-! ### events -/

/-- rows outside the conditioned label class belong to no event — with or without control features -/
theorem eventOf_none_iff (k : Kind) (r : Row) :
    eventOf k r = none ↔ (k = .tpr ∧ r.y ≠ MomentsSrc.tprLabel) ∨ (k = .fpr ∧ r.y ≠ MomentsSrc.fprLabel) := by
  cases k <;> cases hc : r.c <;> simp [eventOf, baseEvent, hc] <;> split <;> simp_all

/-- the event of a row is its base event, formatted into the row's control stratum when there is one -/
theorem eventOf_some (k : Kind) (r : Row) (e : String) (h : baseEvent k r = some e) :
    eventOf k r = some (match r.c with | none => e | some c => MomentsSrc.ctrlFormat c e) := by
  cases hc : r.c <;> simp [eventOf, h, hc]

/-- the base events are the label classes the moment conditions on -/
theorem baseEvent_cases (k : Kind) (r : Row) :
    baseEvent k r = match k with
      | .dp => some MomentsSrc.allEvent
      | .erp => some MomentsSrc.allEvent
      | .eo => some (MomentsSrc.labelEvent r.y)
      | .tpr => if r.y = 1 then some (MomentsSrc.labelEvent 1) else none
      | .fpr => if r.y = 0 then some (MomentsSrc.labelEvent 0) else none := by
  cases k <;> simp [baseEvent, MomentsSrc.tprLabel, MomentsSrc.fprLabel] <;> split <;> simp_all

/-- **the tie of (5)/(6) to the source**: the event rule LIFTED from `_merge_event_and_control_columns` and
    `_combine_event_and_control` (`MomentsSrc.mergeEvent` / `combineEvent`: no control column ⇒ the base event; a NaN /
    None base event or control value ⇒ the base event unchanged — the `pd.notnull` guard of the F3 repair b40710c;
    otherwise `control={0},{1}`), which is what the compiled driver runs in mode `spec`, IS the documented rule
    `eventOf`.  Every theorem below about `eventOf` is therefore a theorem about the text in the tree; reverting the
    guard (or exchanging the format arguments / the `combine` receiver) changes the lifted text and this proof breaks. -/
theorem event_rule_lifted (k : Kind) (r : Row) : eventOfSrc k r = eventOf k r := by
  unfold eventOfSrc eventOf MomentsSrc.mergeEvent MomentsSrc.combineEvent MomentsSrc.txt
  cases baseEvent k r <;> cases r.c <;> simp

theorem event_rule_lifted_fun (k : Kind) : eventOfSrc k = eventOf k := funext (event_rule_lifted k)

/-- the lifted rule keeps a row outside the conditioned label class event-free inside a control stratum (F3 repaired),
    where the un-guarded format call produced the event `control=x,nan` -/
theorem lifted_rule_has_guard :
    eventOfSrc .tpr ⟨0, "b", some "x"⟩ = none ∧ eventOfAsCoded .tpr ⟨0, "b", some "x"⟩ = some "control=x,nan" ∧
    eventOfSrc .tpr ⟨1, "a", some "x"⟩ = some "control=x,label=1" := by
  refine ⟨?_, ?_, ?_⟩ <;> decide +kernel

/-- without control features, and for the moments that condition on nothing or on every label, the code
    as written agrees with the documented rule -/
theorem asCoded_eq_of_no_control (k : Kind) (r : Row) (h : r.c = none) : eventOfAsCoded k r = eventOf k r := by
  simp only [eventOfAsCoded, eventOf, h]; cases baseEvent k r <;> rfl

theorem asCoded_eq_of_unconditional (k : Kind) (r : Row) (hk : k ≠ .tpr ∧ k ≠ .fpr) :
    eventOfAsCoded k r = eventOf k r := by
  cases k <;> simp_all [eventOfAsCoded, eventOf, baseEvent] <;> cases r.c <;> rfl

/-- F3 (finding on the pinned tree): with control features the code as written gives a row outside the
    conditioned label class the event `control=c,nan`, so it is *not* event-free … -/
theorem asCoded_discrepancy :
    eventOf .tpr ⟨0, "b", some "x"⟩ = none ∧
    eventOfAsCoded .tpr ⟨0, "b", some "x"⟩ = some "control=x,nan" := by
  constructor <;> decide +kernel

def f3Rows : List Row := [⟨1, "a", some "x"⟩, ⟨0, "b", some "x"⟩]

/-- … and the constraint index contains constraints for it (minimal dataset, replayed in corpus/C06) -/
theorem asCoded_index_discrepancy :
    index (eventOf .tpr) f3Rows = [⟨.plus, "control=x,label=1", "a"⟩, ⟨.minus, "control=x,label=1", "a"⟩] ∧
    index (eventOfAsCoded .tpr) f3Rows =
      [⟨.plus, "control=x,label=1", "a"⟩, ⟨.plus, "control=x,nan", "b"⟩,
       ⟨.minus, "control=x,label=1", "a"⟩, ⟨.minus, "control=x,nan", "b"⟩] := by
  constructor <;> decide +kernel

/-! ### index -/

/-- the index has an entry of either sign exactly for the observed (event, group) pairs … -/
theorem index_exact (ev : Ev) (rows : List Row) (k : Key) :
    k ∈ index ev rows ↔ Observed ev rows k.event k.group := by
  obtain ⟨s, e, g⟩ := k
  unfold index
  simp only [List.mem_append, List.mem_map, Key.mk.injEq, Prod.exists]
  rw [← mem_observedPairs]
  cases s <;> simp

/-- … and exactly one of each -/
theorem index_nodup (ev : Ev) (rows : List Row) : (index ev rows).Nodup := by
  unfold index
  have hn := nodup_observedPairs ev rows
  rw [List.nodup_append]
  refine ⟨?_, ?_, ?_⟩
  · exact hn.map (fun a b h => by cases a; cases b; simp_all)
  · exact hn.map (fun a b h => by cases a; cases b; simp_all)
  · intro a ha b hb
    simp only [List.mem_map] at ha hb
    obtain ⟨p, _, rfl⟩ := ha
    obtain ⟨q, _, rfl⟩ := hb
    simp

theorem index_count (ev : Ev) (rows : List Row) (s : Sign) (e g : String) (h : Observed ev rows e g) :
    (index ev rows).count ⟨s, e, g⟩ = 1 :=
  List.count_eq_one_of_mem (index_nodup ev rows) ((index_exact ev rows ⟨s, e, g⟩).mpr h)

theorem index_length (ev : Ev) (rows : List Row) :
    (index ev rows).length = 2 * (observedPairs ev rows).length := by
  simp [index]; omega

/-- a row without event contributes to no constraint -/
theorem index_ignores_no_event_rows (ev : Ev) (rows : List Row) (k : Key) (h : k ∈ index ev rows) :
    ∃ r ∈ rows, ev r ≠ none ∧ ev r = some k.event ∧ r.g = k.group := by
  obtain ⟨r, hr, he, hg⟩ := (index_exact ev rows k).mp h
  exact ⟨r, hr, by simp [he], he, hg⟩

/-! ### gamma -/

theorem gamma_entries (ev : Ev) (rows : List Row) (ratio : Rat) (ut : Util) (h : List Rat) :
    gamma ev rows ratio ut h = (index ev rows).map (gammaAt ev rows ratio ut h) ∧
    (gamma ev rows ratio ut h).length = (index ev rows).length := by
  simp [gamma]

/-- `+` entry of an observed pair: `r * mean_{e,g}(u) - mean_e(u)`, `u` = utility of the prediction -/
theorem gamma_plus (ev : Ev) (rows : List Row) (ratio : Rat) (ut : Util) (h : List Rat) (e g : String)
    (hobs : Observed ev rows e g) :
    gammaAt ev rows ratio ut h ⟨.plus, e, g⟩
      = ratio * meanOn (inEG ev e g) rows (predOf ut rows h) - meanOn (inE ev e) rows (predOf ut rows h) := by
  have hn : (rows.length : Rat) ≠ 0 := by exact_mod_cast (rows_pos ev rows e g hobs).ne'
  have he : (countE ev rows e : Rat) ≠ 0 := by exact_mod_cast (countE_pos ev rows e g hobs).ne'
  have hg : (countEG ev rows e g : Rat) ≠ 0 := by exact_mod_cast (countEG_pos ev rows e g hobs).ne'
  unfold gammaAt MomentsSrc.gammaOf meanOn
  rw [dot_uPlus]
  unfold probE probEG
  simp only [countE, countEG] at he hg ⊢
  field_simp
  ring

/-- `-` entry of an observed pair: `r * mean_e(u) - mean_{e,g}(u)` -/
theorem gamma_minus (ev : Ev) (rows : List Row) (ratio : Rat) (ut : Util) (h : List Rat) (e g : String)
    (hobs : Observed ev rows e g) :
    gammaAt ev rows ratio ut h ⟨.minus, e, g⟩
      = ratio * meanOn (inE ev e) rows (predOf ut rows h) - meanOn (inEG ev e g) rows (predOf ut rows h) := by
  have hn : (rows.length : Rat) ≠ 0 := by exact_mod_cast (rows_pos ev rows e g hobs).ne'
  have he : (countE ev rows e : Rat) ≠ 0 := by exact_mod_cast (countE_pos ev rows e g hobs).ne'
  have hg : (countEG ev rows e g : Rat) ≠ 0 := by exact_mod_cast (countEG_pos ev rows e g hobs).ne'
  unfold gammaAt MomentsSrc.gammaOf meanOn
  rw [dot_uMinus]
  unfold probE probEG
  simp only [countE, countEG] at he hg ⊢
  field_simp
  ring

/-- `u` is the prediction itself for DP / TPR / FPR / EO … -/
theorem pred_default (rows : List Row) (h : List Rat) (hl : h.length = rows.length) :
    predOf defaultUtil rows h = h := by
  unfold predOf
  induction rows generalizing h with
  | nil => cases h <;> simp_all
  | cons r rs ih =>
    cases h with
    | nil => simp at hl
    | cons p ps =>
      simp only [List.length_cons, Nat.add_right_cancel_iff] at hl
      have := ih ps hl
      simp only [MomentsSrc.predOf, Util.ud, defaultUtil, MomentsSrc.utilDiff, MomentsSrc.defaultU0,
        MomentsSrc.defaultU1, List.zipWith_cons_cons] at this ⊢
      rw [this]; ring_nf

/-- … and the error `|p - y|` (the 0/1 error indicator for hard predictions) for error-rate parity -/
theorem pred_erp (r : Row) (p : Rat) (hy : r.y = 0 ∨ r.y = 1) (hp : 0 ≤ p ∧ p ≤ 1) :
    MomentsSrc.predOf (erpUtil.ud r) p (erpUtil.u0 r) = |p - (r.y : Rat)| ∧
    (p = 0 ∨ p = 1 → MomentsSrc.predOf (erpUtil.ud r) p (erpUtil.u0 r) = if p = (r.y : Rat) then 0 else 1) := by
  simp only [MomentsSrc.predOf, Util.ud, erpUtil, MomentsSrc.utilDiff, MomentsSrc.erpU0, MomentsSrc.erpU1]
  rcases hy with hy | hy <;> rw [hy] <;> constructor
  · rw [abs_of_nonneg (by push_cast; linarith)]; push_cast; ring
  · rintro (rfl | rfl) <;> norm_num
  · rw [abs_of_nonpos (by push_cast; linarith)]; push_cast; ring
  · rintro (rfl | rfl) <;> norm_num

/-- changing the predictions on rows that belong to no event changes no entry of gamma -/
theorem no_event_rows_inert (ev : Ev) (rows : List Row) (ratio : Rat) (ut : Util) (h h' : List Rat)
    (hl : h.length = rows.length) (hl' : h'.length = rows.length)
    (hagree : ∀ t ∈ rows.zip (h.zip h'), ev t.1 ≠ none → t.2.1 = t.2.2) :
    gamma ev rows ratio ut h = gamma ev rows ratio ut h' := by
  unfold gamma
  apply List.map_congr_left
  intro k hk
  clear hk
  unfold gammaAt
  congr 1
  unfold uCol
  have key : ∀ (f : Row → Rat), (∀ r, ev r = none → f r = 0) →
      dot (rows.map f) (predOf ut rows h) = dot (rows.map f) (predOf ut rows h') := by
    intro f hf
    unfold predOf
    induction rows generalizing h h' with
    | nil => simp
    | cons x xs ih =>
      cases h with
      | nil => simp at hl
      | cons p ps =>
        cases h' with
        | nil => simp at hl'
        | cons p' ps' =>
          simp only [List.length_cons, Nat.add_right_cancel_iff] at hl hl'
          simp only [List.map_cons, List.zipWith_cons_cons, dot_cons]
          rw [ih ps ps' hl hl' (fun t ht => hagree t (by simp [ht]))]
          by_cases hx : ev x = none
          · simp [hf x hx]
          · have : p = p' := hagree (x, p, p') (by simp) hx
            rw [this]
  exact key _ (fun r hr => uEntry_of_no_event ev rows ratio r k hr)

/-! ### bound -/

/-- `bound()` is the configured slack on every entry of the index -/
theorem bound_const (ev : Ev) (rows : List Row) (eps : Rat) :
    bound ev rows eps = List.replicate (index ev rows).length eps := by
  simp [bound]

/-- the slack is `difference_bound`, or `ratio_bound_slack` with ratio `ratio_bound ∈ (0,1]`, or the default
    difference bound; a negative slack (fairlearn c80f72a) and anything else is rejected.  `mkConfig` is computed with
    the branches LIFTED from `UtilityParity.__init__` (`parityCtor`, `parityEps`, `slackMustBeNonneg` of
    `Generated/ValidationTables.lean`, `parityRatio` of `Generated/MomentsSrc.lean`): this theorem is the tie of (7) -/
theorem config_cases (d r : Option Rat) (s : Rat) :
    mkConfig d r s = match d, r with
      | none, none => .ok (MomentsSrc.defaultDifferenceBound, 1)
      | some d, none => if d < 0 then .error .negSlack else .ok (d, 1)
      | none, some r => if 0 < r ∧ r ≤ 1 then (if s < 0 then .error .negSlack else .ok (s, r)) else .error .ratioRange
      | some _, some _ => .error .bothBounds := by
  cases d <;> cases r <;>
    simp [mkConfig, Generated.ValidationTables.parityCtor, Generated.ValidationTables.parityEps,
      Generated.ValidationTables.slackMustBeNonneg, MomentsSrc.parityRatio, MomentsSrc.defaultDifferenceBound]

theorem config_ratio_in_range (d r : Option Rat) (s eps ratio : Rat) (h : mkConfig d r s = .ok (eps, ratio)) :
    0 < ratio ∧ ratio ≤ 1 := by
  rw [config_cases] at h
  cases d <;> cases r <;> simp only at h
  · cases h; norm_num
  · split at h
    · next hr => split at h <;> cases h; exact hr
    · cases h
  · split at h <;> cases h; norm_num
  · cases h

/-- an accepted configuration has a non-negative slack (the guard `if self.eps < 0: raise`, lifted) -/
theorem config_slack_nonneg (d r : Option Rat) (s eps ratio : Rat) (h : mkConfig d r s = .ok (eps, ratio)) : 0 ≤ eps := by
  rw [config_cases] at h
  cases d <;> cases r <;> simp only at h
  · cases h; simp [MomentsSrc.defaultDifferenceBound]
  · split at h
    · split at h
      · cases h
      · next hs => cases h; exact not_lt.mp hs
    · cases h
  · split at h
    · cases h
    · next hd => cases h; exact not_lt.mp hd
  · cases h

/-! ### loss moments and the objective -/

/-- BoundedGroupLoss.gamma is the per-group mean of the (clipped) loss … -/
theorem bgl_gamma (l : Loss) (rows : List LRow) (h : List Rat) (g : String) :
    bglGammaAt l rows h g
      = dot (rows.map (fun r => ind (r.g == g))) (lossOf l rows h) / ((rows.filter (fun r => r.g == g)).length : Rat) ∧
    bglGamma l rows h = (bglIndex rows).map (bglGammaAt l rows h) ∧
    (∀ g', g' ∈ bglIndex rows ↔ ∃ r ∈ rows, r.g = g') ∧ (bglIndex rows).Nodup := by
  refine ⟨?_, rfl, ?_, nodup_sortedDistinct _ _⟩
  · unfold bglGammaAt countG
    congr 1
    generalize lossOf l rows h = v
    induction rows generalizing v with
    | nil => simp
    | cons x xs ih => cases v with
      | nil => simp
      | cons y ys => simp [ih ys]
  · intro g'; unfold bglIndex; rw [mem_sortedDistinct]; simp

/-- … where the loss of a row is the square / absolute difference of label and prediction after clipping both
    to `[lo, hi]`; it lies in `[0, (hi-lo)^2]` resp. `[0, hi-lo]` (the documented `min`/`max` of the loss) -/
theorem loss_values (lo hi y p : Rat) (hlh : lo ≤ hi) :
    (Loss.square lo hi).eval y p = (max lo (min y hi) - max lo (min p hi)) ^ 2 ∧
    (Loss.absolute lo hi).eval y p = |max lo (min y hi) - max lo (min p hi)| ∧
    0 ≤ (Loss.square lo hi).eval y p ∧ (Loss.square lo hi).eval y p ≤ (hi - lo) ^ 2 ∧
    0 ≤ (Loss.absolute lo hi).eval y p ∧ (Loss.absolute lo hi).eval y p ≤ hi - lo := by
  have hc : ∀ x, MomentsSrc.clipR x lo hi = max lo (min x hi) ∧ lo ≤ MomentsSrc.clipR x lo hi ∧
      MomentsSrc.clipR x lo hi ≤ hi := by
    intro x
    unfold MomentsSrc.clipR
    by_cases h1 : x < lo
    · have : min x hi = x := min_eq_left (by linarith)
      simp only [h1, if_true, this, max_eq_left (le_of_lt h1)]
      have : ¬ hi < lo := not_lt.mpr hlh
      simp [this, hlh]
    · simp only [h1, if_false]
      by_cases h2 : hi < x
      · simp only [h2, if_true, min_eq_right (le_of_lt h2), max_eq_right hlh]; exact ⟨trivial, hlh, le_refl _⟩
      · have h2' := not_lt.mp h2
        have h1' := not_lt.mp h1
        simp only [h2, if_false, min_eq_left h2', max_eq_right h1']; exact ⟨trivial, h1', h2'⟩
  obtain ⟨ey, ly, uy⟩ := hc y
  obtain ⟨ep, lp, up⟩ := hc p
  simp only [Loss.eval, MomentsSrc.squareLoss, MomentsSrc.absoluteLoss, absR_eq]
  rw [← ey, ← ep]
  refine ⟨by ring, rfl, by nlinarith [sq_nonneg (MomentsSrc.clipR y lo hi - MomentsSrc.clipR p lo hi)],
    by nlinarith, abs_nonneg _, ?_⟩
  rw [abs_le]; constructor <;> linarith

/-- ErrorRate.gamma is the cost-weighted error: for labels in {0,1} and (soft) predictions in [0,1] it is
    `(1/n) Σ (fn·y·(1-h) + fp·(1-y)·h)` … -/
theorem errorRate_gamma (fp fn : Rat) (ys h : List Rat) (hl : h.length = ys.length)
    (hy : Hard ys) (hh : Soft h) :
    errGamma fp fn ys h
      = (List.zipWith (fun y p => fn * y * (1 - p) + fp * (1 - y) * p) ys h).sum / (ys.length : Rat) :=
  errGamma_soft fp fn ys h hl hy hh

/-- … which for hard predictions is `(fp·#false positives + fn·#false negatives) / n` -/
theorem errorRate_gamma_hard (fp fn : Rat) (ys h : List Rat) (hl : h.length = ys.length)
    (hy : Hard ys) (hh : Hard h) :
    errGamma fp fn ys h
      = (fp * (((ys.zip h).filter (fun t => t.1 == 0 && t.2 == 1)).length : Rat)
         + fn * (((ys.zip h).filter (fun t => t.1 == 1 && t.2 == 0)).length : Rat)) / (ys.length : Rat) := by
  rw [errGamma_soft fp fn ys h hl hy hh.soft, hard_cost_sum fp fn ys h hl hy hh]

/-! ### ratio 1: the `+` entries are MetricFrame's `by_group - overall` of the matching rate -/

/-- demographic parity, hard predictions: selection rate of the group within the event's rows minus the
    selection rate of all the event's rows (`BaseMetrics.selectionRate`, the model behind C14/C01) -/
theorem gamma_plus_eq_selection_rate (ev : Ev) (rows : List Row) (hp : List Int) (e g : String)
    (hl : hp.length = rows.length) (hobs : Observed ev rows e g) :
    BaseMetrics.selectionRate (toBM (inEG ev e g) rows hp) 1 = .ok
      (meanOn (inEG ev e g) rows (hp.map (fun x => ind (x == 1)))) ∧
    BaseMetrics.selectionRate (toBM (inE ev e) rows hp) 1 = .ok
      (meanOn (inE ev e) rows (hp.map (fun x => ind (x == 1)))) ∧
    gammaAt ev rows 1 defaultUtil (hp.map (fun x => ind (x == 1))) ⟨.plus, e, g⟩
      = meanOn (inEG ev e g) rows (hp.map (fun x => ind (x == 1)))
        - meanOn (inE ev e) rows (hp.map (fun x => ind (x == 1))) := by
  have hne : (rows.filter (inEG ev e g)) ≠ [] :=
    List.ne_nil_of_length_pos (countEG_pos ev rows e g hobs)
  have hne' : (rows.filter (inE ev e)) ≠ [] :=
    List.ne_nil_of_length_pos (countE_pos ev rows e g hobs)
  refine ⟨selectionRate_toBM _ rows hp hl hne, selectionRate_toBM _ rows hp hl hne', ?_⟩
  rw [gamma_plus ev rows 1 defaultUtil _ e g hobs, pred_default rows _ (by simp [hl])]
  ring

/-- true/false-positive-rate parity and equalized odds, hard predictions: when the event `e` selects the rows
    of a stratum `S` with label `c` (c = 1: TPR, c = 0: FPR), the `+` entry is the group's rate minus the
    stratum's rate, both computed by `BaseMetrics` on the *whole* stratum (all labels) -/
theorem gamma_plus_eq_rate (ev : Ev) (rows : List Row) (hp : List Int) (e g : String) (S : Row → Bool) (c : Int)
    (hl : hp.length = rows.length) (hobs : Observed ev rows e g) (hh : ∀ x ∈ hp, x = 0 ∨ x = 1)
    (hS : ∀ r, inE ev e r = (S r && r.y == c)) :
    gammaAt ev rows 1 defaultUtil (hp.map (fun x => ind (x == 1))) ⟨.plus, e, g⟩
      = condRate c (toBM (fun r => S r && r.g == g) rows hp) - condRate c (toBM S rows hp) := by
  rw [gamma_plus ev rows 1 defaultUtil _ e g hobs, pred_default rows _ (by simp [hl])]
  have h1 : inEG ev e g = fun r => (S r && r.g == g) && r.y == c := by
    funext r; rw [inEG_eq, hS r]; cases S r <;> cases (r.g == g) <;> cases (r.y == c) <;> rfl
  have h2 : inE ev e = fun r => S r && r.y == c := funext hS
  have hne : (rows.filter (fun r => (S r && r.g == g) && r.y == c)) ≠ [] := by
    rw [← h1]; exact List.ne_nil_of_length_pos (countEG_pos ev rows e g hobs)
  have hne' : (rows.filter (fun r => S r && r.y == c)) ≠ [] := by
    rw [← h2]; exact List.ne_nil_of_length_pos (countE_pos ev rows e g hobs)
  rw [h1, h2, condRate_toBM _ rows hp c hl hh hne, condRate_toBM _ rows hp c hl hh hne']
  ring

/-- `condRate 1` is `BaseMetrics.tprOf … 0 1`, `condRate 0` is `BaseMetrics.fprOf … 0 1` -/
theorem condRate_is_base_rate (bm : List BaseMetrics.Row) :
    condRate 1 bm = BaseMetrics.tprOf bm 0 1 ∧ condRate 0 bm = BaseMetrics.fprOf bm 0 1 := ⟨rfl, rfl⟩

/-- instance without control features: for TPR parity the event `label=1` selects exactly the rows with label 1 -/
theorem tpr_event_selects (r : Row) (h : r.c = none) :
    inE (eventOf .tpr) (MomentsSrc.labelEvent 1) r = (true && r.y == 1) := by
  by_cases hy : r.y = 1 <;> simp [inE, eventOf, baseEvent, h, hy, MomentsSrc.tprLabel]

theorem fpr_event_selects (r : Row) (h : r.c = none) :
    inE (eventOf .fpr) (MomentsSrc.labelEvent 0) r = (true && r.y == 0) := by
  by_cases hy : r.y = 0 <;> simp [inE, eventOf, baseEvent, h, hy, MomentsSrc.fprLabel]

/-- within a control stratum: the TPR event `control=c0,label=1` selects exactly the rows of stratum `c0` with
    label 1, the FPR event `control=c0,label=0` those with label 0 (so `gamma_plus_eq_rate` applies with
    `S := fun r => r.c == some c0`, i.e. to MetricFrame's (control, group) cell minus its control-level overall) -/
theorem tpr_event_selects_in_stratum (r : Row) (c0 : String) :
    inE (eventOf .tpr) (MomentsSrc.ctrlFormat c0 (MomentsSrc.labelEvent 1)) r = ((r.c == some c0) && (r.y == 1)) := by
  apply inE_stratum .tpr 1
  by_cases hy : r.y = 1 <;> simp [baseEvent, MomentsSrc.tprLabel, hy]

theorem fpr_event_selects_in_stratum (r : Row) (c0 : String) :
    inE (eventOf .fpr) (MomentsSrc.ctrlFormat c0 (MomentsSrc.labelEvent 0)) r = ((r.c == some c0) && (r.y == 0)) := by
  apply inE_stratum .fpr 0
  by_cases hy : r.y = 0 <;> simp [baseEvent, MomentsSrc.fprLabel, hy]

/-- TPR parity with control features, ratio 1, hard predictions: the `+` entry of (stratum c0, group g) is the
    group's true-positive rate within the stratum minus the stratum's true-positive rate -/
theorem tpr_gamma_plus_in_stratum (rows : List Row) (hp : List Int) (c0 g : String)
    (hl : hp.length = rows.length) (hh : ∀ x ∈ hp, x = 0 ∨ x = 1)
    (hobs : Observed (eventOf .tpr) rows (MomentsSrc.ctrlFormat c0 (MomentsSrc.labelEvent 1)) g) :
    gammaAt (eventOf .tpr) rows 1 defaultUtil (hp.map (fun x => ind (x == 1)))
        ⟨.plus, MomentsSrc.ctrlFormat c0 (MomentsSrc.labelEvent 1), g⟩
      = BaseMetrics.tprOf (toBM (fun r => (r.c == some c0) && r.g == g) rows hp) 0 1
        - BaseMetrics.tprOf (toBM (fun r => r.c == some c0) rows hp) 0 1 :=
  gamma_plus_eq_rate (eventOf .tpr) rows hp _ g (fun r => r.c == some c0) 1 hl hobs hh
    (fun r => tpr_event_selects_in_stratum r c0)

/-- error-rate parity, ratio 1, hard predictions: the `+` entry is the group's misclassification rate within
    the event's rows minus the misclassification rate of all the event's rows -/
theorem gamma_plus_eq_error_rate (ev : Ev) (rows : List Row) (hp : List Int) (e g : String)
    (hl : hp.length = rows.length) (hobs : Observed ev rows e g)
    (hy : ∀ r ∈ rows, r.y = 0 ∨ r.y = 1) (hh : ∀ x ∈ hp, x = 0 ∨ x = 1) :
    gammaAt ev rows 1 erpUtil (hp.map (fun x => ind (x == 1))) ⟨.plus, e, g⟩
      = errRateBM (toBM (inEG ev e g) rows hp) - errRateBM (toBM (inE ev e) rows hp) := by
  rw [gamma_plus ev rows 1 erpUtil _ e g hobs, errRate_toBM _ rows hp hl hy hh, errRate_toBM _ rows hp hl hy hh]
  ring

/-! ### sums over the groups of one event -/

/-- the `+` entries of an event, weighted by `P(group | event)`, sum to `(r − 1)·mean_event(u)` — for `r = 1` they
    are a vector with zero weighted sum (`groupsOf` = the groups observed with the event, i.e. exactly the groups
    that have an index entry for it, `mem_groupsOf`) … -/
theorem gamma_plus_weighted_sum (ev : Ev) (rows : List Row) (ratio : Rat) (ut : Util) (h : List Rat) (e g0 : String)
    (hobs : Observed ev rows e g0) :
    ((groupsOf ev rows e).map (fun g =>
        (probEG ev rows e g / probE ev rows e) * gammaAt ev rows ratio ut h ⟨.plus, e, g⟩)).sum
      = (ratio - 1) * meanOn (inE ev e) rows (predOf ut rows h) := by
  have hn : (rows.length : Rat) ≠ 0 := by exact_mod_cast (rows_pos ev rows e g0 hobs).ne'
  have he : (countE ev rows e : Rat) ≠ 0 := by exact_mod_cast (countE_pos ev rows e g0 hobs).ne'
  obtain ⟨u, hu⟩ : ∃ u, u = predOf ut rows h := ⟨_, rfl⟩
  obtain ⟨D, hD⟩ : ∃ D, D = dot (rows.map (fun r => ind (inE ev e r))) u := ⟨_, rfl⟩
  rw [← hu]
  have step : ∀ g ∈ groupsOf ev rows e,
      (probEG ev rows e g / probE ev rows e) * gammaAt ev rows ratio ut h ⟨.plus, e, g⟩
        = (ratio / (countE ev rows e : Rat)) * dot (rows.map (fun r => ind (inEG ev e g r))) u
          + (-(D / (countE ev rows e : Rat) ^ 2)) * (countEG ev rows e g : Rat) := by
    intro g hg
    have hobs' := (mem_groupsOf ev rows e g).mp hg
    have hg' : (countEG ev rows e g : Rat) ≠ 0 := by exact_mod_cast (countEG_pos ev rows e g hobs').ne'
    rw [gamma_plus ev rows ratio ut h e g hobs', ← hu]
    unfold meanOn probEG probE
    simp only [countE, countEG] at he hg' ⊢
    rw [← hD]
    field_simp
    ring
  rw [List.map_congr_left step, sum_map_add, sum_map_mul_left, sum_map_mul_left, sum_groups_event,
    sum_groups_count]
  unfold meanOn
  simp only [countE] at he ⊢
  rw [← hD]
  field_simp
  ring

/-- … and so do the `−` entries (`Σ_g P(g|e)·(r·mean_e − mean_{e,g}) = (r − 1)·mean_e`) -/
theorem gamma_minus_weighted_sum (ev : Ev) (rows : List Row) (ratio : Rat) (ut : Util) (h : List Rat) (e g0 : String)
    (hobs : Observed ev rows e g0) :
    ((groupsOf ev rows e).map (fun g =>
        (probEG ev rows e g / probE ev rows e) * gammaAt ev rows ratio ut h ⟨.minus, e, g⟩)).sum
      = (ratio - 1) * meanOn (inE ev e) rows (predOf ut rows h) := by
  have hn : (rows.length : Rat) ≠ 0 := by exact_mod_cast (rows_pos ev rows e g0 hobs).ne'
  have he : (countE ev rows e : Rat) ≠ 0 := by exact_mod_cast (countE_pos ev rows e g0 hobs).ne'
  obtain ⟨u, hu⟩ : ∃ u, u = predOf ut rows h := ⟨_, rfl⟩
  obtain ⟨D, hD⟩ : ∃ D, D = dot (rows.map (fun r => ind (inE ev e r))) u := ⟨_, rfl⟩
  rw [← hu]
  have step : ∀ g ∈ groupsOf ev rows e,
      (probEG ev rows e g / probE ev rows e) * gammaAt ev rows ratio ut h ⟨.minus, e, g⟩
        = (-(1 / (countE ev rows e : Rat))) * dot (rows.map (fun r => ind (inEG ev e g r))) u
          + (ratio * D / (countE ev rows e : Rat) ^ 2) * (countEG ev rows e g : Rat) := by
    intro g hg
    have hobs' := (mem_groupsOf ev rows e g).mp hg
    have hg' : (countEG ev rows e g : Rat) ≠ 0 := by exact_mod_cast (countEG_pos ev rows e g hobs').ne'
    rw [gamma_minus ev rows ratio ut h e g hobs', ← hu]
    unfold meanOn probEG probE
    simp only [countE, countEG] at he hg' ⊢
    rw [← hD]
    field_simp
    ring
  rw [List.map_congr_left step, sum_map_add, sum_map_mul_left, sum_map_mul_left, sum_groups_event,
    sum_groups_count]
  unfold meanOn
  simp only [countE] at he ⊢
  rw [← hD]
  field_simp
  ring

/-- the groups summed over are exactly those with an index entry for the event, each once -/
theorem groupsOf_spec (ev : Ev) (rows : List Row) (e g : String) :
    (g ∈ groupsOf ev rows e ↔ (⟨.plus, e, g⟩ : Key) ∈ index ev rows) ∧ (groupsOf ev rows e).Nodup := by
  refine ⟨?_, nodup_groupsOf ev rows e⟩
  rw [mem_groupsOf, index_exact]

/-! ### gamma is affine in the predictor -/

/-- `γ(a·h + (1−a)·h') = a·γ(h) + (1−a)·γ(h')`, every entry, any rational `a` -/
theorem gamma_affine (ev : Ev) (rows : List Row) (ratio : Rat) (ut : Util) (a : Rat) (h h' : List Rat) (k : Key)
    (hl : h.length = rows.length) (hl' : h'.length = rows.length) :
    gammaAt ev rows ratio ut (vadd (h.map (fun x => a * x)) (h'.map (fun x => (1 - a) * x))) k
      = a * gammaAt ev rows ratio ut h k + (1 - a) * gammaAt ev rows ratio ut h' k := by
  rw [gammaAt_lin ev rows ratio ut _ k (by simp [vadd, hl, hl']), gammaAt_lin ev rows ratio ut h k hl,
    gammaAt_lin ev rows ratio ut h' k hl', dot_vadd_right _ _ _ (by simp [hl, hl']), dot_smul_right, dot_smul_right]
  ring

/-- the randomised predictor: for predictors `hs` with ANY weights `ws` summing to 1, gamma of the pointwise
    mixture `Σ_j w_j·h_j` is the `ws`-mixture of the gammas (this is what makes `gamma(Q)` of
    ExponentiatedGradient's `Q` the `weights_`-mixture of the stored per-predictor gammas) -/
theorem gamma_mixture (ev : Ev) (rows : List Row) (ratio : Rat) (ut : Util) (ws : List Rat) (hs : List (List Rat))
    (hlen : ws.length = hs.length) (hall : ∀ h ∈ hs, h.length = rows.length) (hsum : ws.sum = 1) :
    gamma ev rows ratio ut (mix rows.length ws hs)
      = (index ev rows).map (fun k => dot ws (hs.map (fun h => gammaAt ev rows ratio ut h k))) := by
  unfold gamma
  exact List.map_congr_left (fun k _ => gammaAt_mix ev rows ratio ut ws hs k hlen hall hsum)

/-- the mixture is the pointwise weighted sum: two predictors -/
example : mix 3 [1/4, 3/4] [[1, 0, 1], [0, 0, 1]] = [1/4, 0, 1] := by decide +kernel

/-! ### constant predictors -/

/-- for DP / TPR / FPR / EO (utility = the prediction) a constant predictor `c` has `(r − 1)·c` in every entry of an
    observed pair, `+` and `−` alike (0 for a difference bound) -/
theorem gamma_constant_predictor (ev : Ev) (rows : List Row) (ratio c : Rat) (s : Sign) (e g : String)
    (hobs : Observed ev rows e g) :
    gammaAt ev rows ratio defaultUtil (List.replicate rows.length c) ⟨s, e, g⟩ = (ratio - 1) * c := by
  have h1 : (rows.filter (inEG ev e g)).length ≠ 0 := (countEG_pos ev rows e g hobs).ne'
  have h2 : (rows.filter (inE ev e)).length ≠ 0 := (countE_pos ev rows e g hobs).ne'
  cases s
  · rw [gamma_plus ev rows ratio defaultUtil _ e g hobs, pred_default rows _ (by simp),
      meanOn_const _ rows c h1, meanOn_const _ rows c h2]; ring
  · rw [gamma_minus ev rows ratio defaultUtil _ e g hobs, pred_default rows _ (by simp),
      meanOn_const _ rows c h1, meanOn_const _ rows c h2]; ring

/-! ### the regression losses: declared range, 0/1 loss, group means within the range, multiplier lookup -/

/-- what the code guarantees about the clipped losses, for ALL `min_val`, `max_val`, labels and predictions, on numpy
    arrays (`eval`) and on pandas Series (`evalS`, the call made by `gamma`) alike: the value lies between the loss
    object's own `min` and `max` attributes (as lifted: 0 and `(max_val − min_val)²` resp. `|max_val − min_val|`).
    For `max_val < min_val` numpy clips both arguments to `max_val` (loss 0) and pandas clips into `[max_val, min_val]`. -/
theorem loss_in_declared_range (l : Loss) (y p : Rat) :
    l.declMin ≤ l.eval y p ∧ l.eval y p ≤ l.declMax ∧ l.declMin ≤ l.evalS y p ∧ l.evalS y p ≤ l.declMax := by
  have key : ∀ lo hi a b : Rat, ((lo ≤ a ∧ a ≤ hi ∧ lo ≤ b ∧ b ≤ hi) ∨ (hi ≤ a ∧ a ≤ lo ∧ hi ≤ b ∧ b ≤ lo)) →
      (0 : Rat) ≤ (a - b) * (a - b) ∧ (a - b) * (a - b) ≤ (hi - lo) * (hi - lo) ∧ |a - b| ≤ |hi - lo| := by
    intro lo hi a b hab
    refine ⟨mul_self_nonneg _, ?_, ?_⟩
    · rcases hab with ⟨h1, h2, h3, h4⟩ | ⟨h1, h2, h3, h4⟩ <;> nlinarith
    · rcases hab with ⟨h1, h2, h3, h4⟩ | ⟨h1, h2, h3, h4⟩
      · rw [abs_of_nonneg (by linarith : (0 : Rat) ≤ hi - lo), abs_le]; constructor <;> linarith
      · rw [abs_of_nonpos (by linarith : hi - lo ≤ (0 : Rat)), abs_le]; constructor <;> linarith
  have hR : ∀ lo hi : Rat, ((lo ≤ MomentsSrc.clipR y lo hi ∧ MomentsSrc.clipR y lo hi ≤ hi ∧
        lo ≤ MomentsSrc.clipR p lo hi ∧ MomentsSrc.clipR p lo hi ≤ hi) ∨
      (hi ≤ MomentsSrc.clipR y lo hi ∧ MomentsSrc.clipR y lo hi ≤ lo ∧
        hi ≤ MomentsSrc.clipR p lo hi ∧ MomentsSrc.clipR p lo hi ≤ lo)) := by
    intro lo hi
    rcases le_or_gt lo hi with h | h
    · left; exact ⟨((clipR_cases y lo hi).1 h).1, ((clipR_cases y lo hi).1 h).2,
        ((clipR_cases p lo hi).1 h).1, ((clipR_cases p lo hi).1 h).2⟩
    · right; rw [(clipR_cases y lo hi).2 h, (clipR_cases p lo hi).2 h]; exact ⟨le_refl _, h.le, le_refl _, h.le⟩
  have hS : ∀ lo hi : Rat, ((lo ≤ MomentsSrc.clipS y lo hi ∧ MomentsSrc.clipS y lo hi ≤ hi ∧
        lo ≤ MomentsSrc.clipS p lo hi ∧ MomentsSrc.clipS p lo hi ≤ hi) ∨
      (hi ≤ MomentsSrc.clipS y lo hi ∧ MomentsSrc.clipS y lo hi ≤ lo ∧
        hi ≤ MomentsSrc.clipS p lo hi ∧ MomentsSrc.clipS p lo hi ≤ lo)) := by
    intro lo hi
    rcases le_or_gt lo hi with h | h
    · left; rw [(clipS_cases y lo hi).1 h, (clipS_cases p lo hi).1 h]
      exact ⟨((clipR_cases y lo hi).1 h).1, ((clipR_cases y lo hi).1 h).2,
        ((clipR_cases p lo hi).1 h).1, ((clipR_cases p lo hi).1 h).2⟩
    · right; exact ⟨((clipS_cases y lo hi).2 h).1, ((clipS_cases y lo hi).2 h).2,
        ((clipS_cases p lo hi).2 h).1, ((clipS_cases p lo hi).2 h).2⟩
  cases l with
  | square lo hi =>
    simp only [Loss.eval, Loss.evalS, Loss.declMin, Loss.declMax, MomentsSrc.squareLoss, MomentsSrc.squareLossS,
      LossRange.squareMin, LossRange.squareMax]
    exact ⟨(key lo hi _ _ (hR lo hi)).1, (key lo hi _ _ (hR lo hi)).2.1, (key lo hi _ _ (hS lo hi)).1,
      (key lo hi _ _ (hS lo hi)).2.1⟩
  | absolute lo hi =>
    simp only [Loss.eval, Loss.evalS, Loss.declMin, Loss.declMax, MomentsSrc.absoluteLoss, MomentsSrc.absoluteLossS,
      LossRange.absoluteMin, LossRange.absoluteMax, absR_eq, lr_absR_eq]
    exact ⟨abs_nonneg _, (key lo hi _ _ (hR lo hi)).2.2, abs_nonneg _, (key lo hi _ _ (hS lo hi)).2.2⟩

/-- for `min_val ≤ max_val` the two container paths agree (so `loss_values` describes `gamma`'s losses too) … -/
theorem evalS_eq_eval (l : Loss) (y p : Rat) (h : match l with | .square lo hi => lo ≤ hi | .absolute lo hi => lo ≤ hi) :
    l.evalS y p = l.eval y p := by
  cases l with
  | square lo hi =>
    simp only [Loss.eval, Loss.evalS, MomentsSrc.squareLoss, MomentsSrc.squareLossS,
      (clipS_cases y lo hi).1 h, (clipS_cases p lo hi).1 h]
  | absolute lo hi =>
    simp only [Loss.eval, Loss.evalS, MomentsSrc.absoluteLoss, MomentsSrc.absoluteLossS,
      (clipS_cases y lo hi).1 h, (clipS_cases p lo hi).1 h]

/-- … but for `max_val < min_val` (accepted by the constructors) the value of `loss.eval` depends on the container
    type: 0 on numpy arrays, 1 on pandas Series for label 0 and prediction 1 under `SquareLoss(1, 0)`
    (finding F21, replayed in corpus/C06) -/
theorem eval_container_dependent :
    (Loss.square 1 0).eval 0 1 = 0 ∧ (Loss.square 1 0).evalS 0 1 = 1 ∧
    (Loss.absolute 1 0).eval 0 1 = 0 ∧ (Loss.absolute 1 0).evalS 0 1 = 1 := by
  refine ⟨?_, ?_, ?_, ?_⟩ <;> decide +kernel

/-- `ZeroOneLoss` (= `AbsoluteLoss(0, 1)`, constructor arguments lifted): for a 0/1 label and a prediction in [0,1]
    it is `|y − p|` on either container, i.e. the 0/1 loss on hard predictions -/
theorem zero_one_loss (y p : Rat) (hy : y = 0 ∨ y = 1) (hp : 0 ≤ p ∧ p ≤ 1) :
    (Loss.absolute LossRange.zeroOneLo LossRange.zeroOneHi).eval y p = |y - p| ∧
    (Loss.absolute LossRange.zeroOneLo LossRange.zeroOneHi).evalS y p = |y - p| ∧
    (p = 0 ∨ p = 1 → (Loss.absolute LossRange.zeroOneLo LossRange.zeroOneHi).eval y p = if y = p then 0 else 1) := by
  have hc : ∀ x : Rat, 0 ≤ x → x ≤ 1 → MomentsSrc.clipR x 0 1 = x := by
    intro x h0 h1
    unfold MomentsSrc.clipR
    have a : ¬ x < 0 := not_lt.mpr h0
    have b : ¬ (1 : Rat) < x := not_lt.mpr h1
    simp [a, b]
  have hyc : MomentsSrc.clipR y 0 1 = y := by rcases hy with rfl | rfl <;> exact hc _ (by norm_num) (by norm_num)
  have hS := evalS_eq_eval (.absolute LossRange.zeroOneLo LossRange.zeroOneHi) y p
    (by simp [LossRange.zeroOneLo, LossRange.zeroOneHi])
  rw [hS]
  simp only [Loss.eval, MomentsSrc.absoluteLoss, absR_eq, LossRange.zeroOneLo, LossRange.zeroOneHi, hyc,
    hc p hp.1 hp.2, true_and]
  rintro (rfl | rfl) <;> rcases hy with rfl | rfl <;> norm_num

/-- every entry of `BoundedGroupLoss.gamma` (the plain, unweighted mean of the loss over exactly the group's rows,
    `bgl_gamma`) lies in the loss's declared `[min, max]` -/
theorem bgl_gamma_in_declared_range (l : Loss) (rows : List LRow) (h : List Rat) (g : String)
    (hl : h.length = rows.length) (hg : ∃ r ∈ rows, r.g = g) :
    l.declMin ≤ bglGammaAt l rows h g ∧ bglGammaAt l rows h g ≤ l.declMax := by
  have hcnt : 0 < (rows.filter (fun r => r.g == g)).length := by
    obtain ⟨r, hr, hrg⟩ := hg
    exact List.length_pos_of_mem (List.mem_filter.mpr ⟨hr, by simp [hrg]⟩)
  have hc : (0 : Rat) < ((rows.filter (fun r => r.g == g)).length : Rat) := by exact_mod_cast hcnt
  have hv : ∀ x ∈ lossOf l rows h, l.declMin ≤ x ∧ x ≤ l.declMax := by
    intro x hx
    unfold lossOf at hx
    obtain ⟨i, hidx, rfl⟩ := List.mem_iff_getElem.mp hx
    simp only [List.getElem_zipWith]
    exact ⟨(loss_in_declared_range l _ _).2.2.1, (loss_in_declared_range l _ _).2.2.2⟩
  obtain ⟨b1, b2⟩ := dot_ind_bounds (fun r : LRow => r.g == g) rows (lossOf l rows h) l.declMin l.declMax
    (by simp [lossOf, hl]) hv
  rw [(bgl_gamma l rows h g).1]
  constructor
  · rw [le_div_iff₀ hc]; exact b1
  · rw [div_le_iff₀ hc]; exact b2

/-- `signed_weights(λ)` of a loss moment: row `i` gets `λ_{g_i} / P(g_i)`, where `λ_{g}` is the multiplier at the
    position of `g` in the (sorted, duplicate-free) index -/
theorem bgl_signed_weights_entry (rows : List LRow) (lam : List Rat) (hlen : lam.length = (bglIndex rows).length)
    (i : Nat) (hi : i < (bglIndex rows).length) :
    bglSignedWeights rows (some lam)
      = rows.map (fun r => lookup (bglIndex rows) lam r.g / probG rows r.g) ∧
    lookup (bglIndex rows) lam ((bglIndex rows)[i]) = lam[i]'(by rw [hlen]; exact hi) :=
  ⟨by simp [bglSignedWeights, MomentsSrc.bglAdjust],
   lookup_get (bglIndex rows) (nodup_sortedDistinct _ _) lam hlen i hi⟩

/-! ### non-vacuity: concrete inputs meeting the hypotheses, evaluated by the kernel -/

def ex1 : List Row :=
  [⟨1, "a", some "x"⟩, ⟨0, "b", some "x"⟩, ⟨1, "a", some "y"⟩, ⟨0, "b", some "y"⟩, ⟨1, "b", some "x"⟩, ⟨1, "a", some "y"⟩]
def h1 : List Rat := [1, 0, 1/2, 1, 0, 1]

example : Observed (eventOf .tpr) ex1 "control=x,label=1" "b" := ⟨⟨1, "b", some "x"⟩, by decide +kernel⟩
example : (index (eventOf .tpr) ex1).length = 6 := by decide +kernel
example : gamma (eventOf .tpr) ex1 (1/2) defaultUtil h1 = [0, -1/2, -3/8, -3/4, 1/4, -3/8] := by decide +kernel
example : gamma (eventOf .erp) ex1 1 erpUtil h1 = [-1/3, 1/6, -1/4, 1/2, 1/3, -1/6, 1/4, -1/2] := by decide +kernel
example : meanOn (inEG (eventOf .tpr) "control=x,label=1" "b") ex1 h1 = 0 := by decide +kernel
example : mkConfig none (some (1/2)) (1/8) = .ok (1/8, 1/2) := by decide +kernel
example : mkConfig (some (1/4)) (some (1/2)) 0 = .error .bothBounds := by decide +kernel
example : bglGamma (.square 0 1) [⟨1, "a"⟩, ⟨0, "b"⟩, ⟨1, "b"⟩] [1/2, 2, 1] = [1/4, 1/2] := by decide +kernel
example : errGamma 2 3 [1, 0, 1, 0] [0, 1, 1, 0] = 5/4 := by decide +kernel
example : (∀ r ∈ ex1, r.y = 0 ∨ r.y = 1) := by decide +kernel
example : Observed (eventOf .tpr) ex1 (MomentsSrc.ctrlFormat "y" (MomentsSrc.labelEvent 1)) "a" :=
  ⟨⟨1, "a", some "y"⟩, by decide +kernel⟩

example : groupsOf (eventOf .tpr) ex1 "control=x,label=1" = ["a", "b"] := by decide +kernel
example : ((groupsOf (eventOf .eo) ex1 "control=x,label=1").map (fun g =>
    (probEG (eventOf .eo) ex1 "control=x,label=1" g / probE (eventOf .eo) ex1 "control=x,label=1")
      * gammaAt (eventOf .eo) ex1 (1/2) defaultUtil h1 ⟨.plus, "control=x,label=1", g⟩)).sum
    = (1/2 - 1) * meanOn (inE (eventOf .eo) "control=x,label=1") ex1 h1 := by decide +kernel
example : gammaAt (eventOf .eo) ex1 (1/2) defaultUtil (List.replicate 6 (1/4)) ⟨.minus, "control=x,label=1", "b"⟩
    = (1/2 - 1) * (1/4) := by decide +kernel
example : (Loss.square 1 0).declMax = 1 ∧ (Loss.absolute 2 (-1)).declMax = 3 := by constructor <;> decide +kernel
example : bglGamma (.square 1 0) [⟨0, "a"⟩, ⟨1, "b"⟩] [1, 1/2] = [1, 1/4] := by decide +kernel
example : lookup (bglIndex [⟨1, "b"⟩, ⟨0, "a"⟩, ⟨1, "b"⟩]) [5, 7] "b" = 7 := by decide +kernel


/-! ### review R1: composite statements, division guards, remaining rate instances -/

/-- on every index entry the denominators of `U` and of the means are non-zero: `n > 0`, `#(e) > 0`, `#(e,g) > 0`,
    `P(e) > 0`, `P(e,g) > 0`.  So no theorem about an index entry is true "because `x / 0 = 0`". -/
theorem index_denominators_pos (ev : Ev) (rows : List Row) (k : Key) (hk : k ∈ index ev rows) :
    0 < rows.length ∧ 0 < countE ev rows k.event ∧ 0 < countEG ev rows k.event k.group ∧
    0 < probE ev rows k.event ∧ 0 < probEG ev rows k.event k.group := by
  have hobs := (index_exact ev rows k).mp hk
  have h1 := rows_pos ev rows _ _ hobs
  have h2 := countE_pos ev rows _ _ hobs
  have h3 := countEG_pos ev rows _ _ hobs
  have c1 : (0 : Rat) < (rows.length : Rat) := by exact_mod_cast h1
  have c2 : (0 : Rat) < (countE ev rows k.event : Rat) := by exact_mod_cast h2
  have c3 : (0 : Rat) < (countEG ev rows k.event k.group : Rat) := by exact_mod_cast h3
  exact ⟨h1, h2, h3, div_pos c2 c1, div_pos c3 c1⟩

/-- the documented value of EVERY entry of the index, no side condition -/
theorem gamma_entry_spec (ev : Ev) (rows : List Row) (ratio : Rat) (ut : Util) (h : List Rat) (k : Key)
    (hk : k ∈ index ev rows) :
    gammaAt ev rows ratio ut h k = match k.sign with
      | .plus => ratio * meanOn (inEG ev k.event k.group) rows (predOf ut rows h)
                  - meanOn (inE ev k.event) rows (predOf ut rows h)
      | .minus => ratio * meanOn (inE ev k.event) rows (predOf ut rows h)
                  - meanOn (inEG ev k.event k.group) rows (predOf ut rows h) := by
  have hobs := (index_exact ev rows k).mp hk
  obtain ⟨s, e, g⟩ := k
  cases s
  · exact gamma_plus ev rows ratio ut h e g hobs
  · exact gamma_minus ev rows ratio ut h e g hobs

/-- the first sentence of the property in one statement: `gamma(h)` is the list of documented values over an index
    that is duplicate-free and contains a key of either sign exactly for the observed (event, group) pairs -/
theorem gamma_exact (ev : Ev) (rows : List Row) (ratio : Rat) (ut : Util) (h : List Rat) :
    gamma ev rows ratio ut h = (index ev rows).map (fun k => match k.sign with
      | .plus => ratio * meanOn (inEG ev k.event k.group) rows (predOf ut rows h)
                  - meanOn (inE ev k.event) rows (predOf ut rows h)
      | .minus => ratio * meanOn (inE ev k.event) rows (predOf ut rows h)
                  - meanOn (inEG ev k.event k.group) rows (predOf ut rows h)) ∧
    (index ev rows).Nodup ∧
    (∀ s e g, (⟨s, e, g⟩ : Key) ∈ index ev rows ↔ ∃ r ∈ rows, ev r = some e ∧ r.g = g) := by
  refine ⟨?_, index_nodup ev rows, fun s e g => index_exact ev rows ⟨s, e, g⟩⟩
  unfold gamma
  exact List.map_congr_left (fun k hk => gamma_entry_spec ev rows ratio ut h k hk)

/-- the index is NOT a product index: event `label=1` occurs (row 0), group "b" occurs (row 1), but never together —
    there is no entry for ("label=1", "b") -/
example : index (eventOf .tpr) [⟨1, "a", none⟩, ⟨0, "b", none⟩]
    = [⟨.plus, "label=1", "a"⟩, ⟨.minus, "label=1", "a"⟩] := by decide +kernel
example : index (eventOf .eo) [⟨1, "a", some "x"⟩, ⟨0, "b", some "x"⟩, ⟨1, "b", some "y"⟩]
    = [⟨.plus, "control=x,label=0", "b"⟩, ⟨.plus, "control=x,label=1", "a"⟩, ⟨.plus, "control=y,label=1", "b"⟩,
       ⟨.minus, "control=x,label=0", "b"⟩, ⟨.minus, "control=x,label=1", "a"⟩, ⟨.minus, "control=y,label=1", "b"⟩] := by
  decide +kernel

/-- which slack and which ratio an accepted configuration yields, and that `bound()` repeats that slack -/
theorem bound_of_config (d r : Option Rat) (s eps ratio : Rat) (h : mkConfig d r s = .ok (eps, ratio))
    (ev : Ev) (rows : List Row) :
    bound ev rows eps = List.replicate (index ev rows).length eps ∧
    (∀ x, d = some x → eps = x ∧ ratio = 1 ∧ r = none) ∧
    (∀ x, r = some x → eps = s ∧ ratio = x ∧ d = none ∧ 0 < x ∧ x ≤ 1) ∧
    (d = none → r = none → eps = MomentsSrc.defaultDifferenceBound ∧ ratio = 1) := by
  rw [config_cases] at h
  refine ⟨bound_const ev rows eps, ?_, ?_, ?_⟩
  · intro x hd
    subst hd
    cases r <;> simp only at h
    · split at h <;> cases h; exact ⟨rfl, rfl, rfl⟩
    · cases h
  · intro x hr
    subst hr
    cases d <;> simp only at h
    · split at h
      · next hx => split at h <;> cases h; exact ⟨rfl, rfl, rfl, hx⟩
      · cases h
    · cases h
  · intro hd hr
    subst hd; subst hr
    simp only at h
    cases h; exact ⟨rfl, rfl⟩

example : mkConfig none (some (4/5)) (1/8) = .ok (1/8, 4/5) ∧ mkConfig (some (1/4)) none 7 = .ok (1/4, 1) ∧
    mkConfig none none 7 = .ok (1/100, 1) ∧ mkConfig none (some 0) 0 = .error .ratioRange ∧
    mkConfig none (some (3/2)) 0 = .error .ratioRange ∧ mkConfig (some (-1/8)) none 0 = .error .negSlack ∧
    mkConfig none (some (1/2)) (-1/8) = .error .negSlack ∧ mkConfig (some 0) none 0 = .ok (0, 1) := by decide +kernel

/-- `ErrorRate(costs=…)` accepts the costs iff both are non-negative and not both zero (the driver op `mom.err.costs`
    evaluates `costsOk`) -/
theorem costs_ok_iff (fp fn : Rat) : costsOk fp fn = true ↔ 0 ≤ fp ∧ 0 ≤ fn ∧ 0 < fp + fn := by
  simp [costsOk, Generated.ValidationTables.errorRateCtor, and_assoc]

example : costsOk 0 2 = true ∧ costsOk 0 0 = false ∧ costsOk (-1) 2 = false := by decide +kernel

/-- `gamma_plus_eq_rate` with the selector hypothesis only on the rows PRESENT (so it applies to event rules that
    behave as documented on binary labels only, e.g. EqualizedOdds within a stratum) -/
theorem gamma_plus_eq_rate_on (ev : Ev) (rows : List Row) (hp : List Int) (e g : String) (S : Row → Bool) (c : Int)
    (hl : hp.length = rows.length) (hobs : Observed ev rows e g) (hh : ∀ x ∈ hp, x = 0 ∨ x = 1)
    (hS : ∀ r ∈ rows, inE ev e r = (S r && r.y == c)) :
    gammaAt ev rows 1 defaultUtil (hp.map (fun x => ind (x == 1))) ⟨.plus, e, g⟩
      = condRate c (toBM (fun r => S r && r.g == g) rows hp) - condRate c (toBM S rows hp) := by
  rw [gamma_plus ev rows 1 defaultUtil _ e g hobs, pred_default rows _ (by simp [hl])]
  have h1 : ∀ r ∈ rows, inEG ev e g r = ((S r && r.g == g) && r.y == c) := by
    intro r hr; rw [inEG_eq, hS r hr]; cases S r <;> cases (r.g == g) <;> cases (r.y == c) <;> rfl
  have hne : (rows.filter (fun r => (S r && r.g == g) && r.y == c)) ≠ [] := by
    rw [← List.filter_congr h1]; exact List.ne_nil_of_length_pos (countEG_pos ev rows e g hobs)
  have hne' : (rows.filter (fun r => S r && r.y == c)) ≠ [] := by
    rw [← List.filter_congr hS]; exact List.ne_nil_of_length_pos (countE_pos ev rows e g hobs)
  rw [meanOn_congr _ _ rows _ h1, meanOn_congr _ _ rows _ hS,
    condRate_toBM _ rows hp c hl hh hne, condRate_toBM _ rows hp c hl hh hne']
  ring

/-- TPR parity WITHOUT control features: `+` entry of group g = TPR of g − overall TPR (`BaseMetrics.tprOf`) -/
theorem tpr_gamma_plus (rows : List Row) (hp : List Int) (g : String)
    (hl : hp.length = rows.length) (hh : ∀ x ∈ hp, x = 0 ∨ x = 1) (hc : ∀ r ∈ rows, r.c = none)
    (hobs : Observed (eventOf .tpr) rows (MomentsSrc.labelEvent 1) g) :
    gammaAt (eventOf .tpr) rows 1 defaultUtil (hp.map (fun x => ind (x == 1))) ⟨.plus, MomentsSrc.labelEvent 1, g⟩
      = BaseMetrics.tprOf (toBM (fun r => true && r.g == g) rows hp) 0 1
        - BaseMetrics.tprOf (toBM (fun _ => true) rows hp) 0 1 :=
  gamma_plus_eq_rate_on (eventOf .tpr) rows hp _ g (fun _ => true) 1 hl hobs hh
    (fun r hr => tpr_event_selects r (hc r hr))

/-- FPR parity WITHOUT control features -/
theorem fpr_gamma_plus (rows : List Row) (hp : List Int) (g : String)
    (hl : hp.length = rows.length) (hh : ∀ x ∈ hp, x = 0 ∨ x = 1) (hc : ∀ r ∈ rows, r.c = none)
    (hobs : Observed (eventOf .fpr) rows (MomentsSrc.labelEvent 0) g) :
    gammaAt (eventOf .fpr) rows 1 defaultUtil (hp.map (fun x => ind (x == 1))) ⟨.plus, MomentsSrc.labelEvent 0, g⟩
      = BaseMetrics.fprOf (toBM (fun r => true && r.g == g) rows hp) 0 1
        - BaseMetrics.fprOf (toBM (fun _ => true) rows hp) 0 1 :=
  gamma_plus_eq_rate_on (eventOf .fpr) rows hp _ g (fun _ => true) 0 hl hobs hh
    (fun r hr => fpr_event_selects r (hc r hr))

/-- FPR parity WITH control features: `+` entry of (stratum c0, group g) = FPR of g within the stratum − the
    stratum's FPR -/
theorem fpr_gamma_plus_in_stratum (rows : List Row) (hp : List Int) (c0 g : String)
    (hl : hp.length = rows.length) (hh : ∀ x ∈ hp, x = 0 ∨ x = 1)
    (hobs : Observed (eventOf .fpr) rows (MomentsSrc.ctrlFormat c0 (MomentsSrc.labelEvent 0)) g) :
    gammaAt (eventOf .fpr) rows 1 defaultUtil (hp.map (fun x => ind (x == 1)))
        ⟨.plus, MomentsSrc.ctrlFormat c0 (MomentsSrc.labelEvent 0), g⟩
      = BaseMetrics.fprOf (toBM (fun r => (r.c == some c0) && r.g == g) rows hp) 0 1
        - BaseMetrics.fprOf (toBM (fun r => r.c == some c0) rows hp) 0 1 :=
  gamma_plus_eq_rate (eventOf .fpr) rows hp _ g (fun r => r.c == some c0) 0 hl hobs hh
    (fun r => fpr_event_selects_in_stratum r c0)

/-- EqualizedOdds WITHOUT control features, both events (`lab = 1`: TPR, `lab = 0`: FPR); no assumption on the labels
    (a row with another label belongs to neither event) -/
theorem eo_gamma_plus (rows : List Row) (hp : List Int) (g : String) (lab : Nat) (hlab : lab < 10)
    (hl : hp.length = rows.length) (hh : ∀ x ∈ hp, x = 0 ∨ x = 1) (hc : ∀ r ∈ rows, r.c = none)
    (hobs : Observed (eventOf .eo) rows (MomentsSrc.labelEvent (lab : Int)) g) :
    gammaAt (eventOf .eo) rows 1 defaultUtil (hp.map (fun x => ind (x == 1)))
        ⟨.plus, MomentsSrc.labelEvent (lab : Int), g⟩
      = condRate (lab : Int) (toBM (fun r => true && r.g == g) rows hp)
        - condRate (lab : Int) (toBM (fun _ => true) rows hp) :=
  gamma_plus_eq_rate_on (eventOf .eo) rows hp _ g (fun _ => true) (lab : Int) hl hobs hh
    (fun r hr => eo_inE_plain_all r lab hlab (hc r hr))

/-- EqualizedOdds WITH control features (binary labels): the `+` entry of (stratum c0, label lab, group g) is the
    group's rate within the stratum minus the stratum's rate — TPR for `lab = 1`, FPR for `lab = 0`
    (`condRate_is_base_rate`) -/
theorem eo_gamma_plus_in_stratum (rows : List Row) (hp : List Int) (c0 g : String) (lab : Int)
    (hlab : lab = 0 ∨ lab = 1) (hl : hp.length = rows.length) (hh : ∀ x ∈ hp, x = 0 ∨ x = 1)
    (hy : ∀ r ∈ rows, r.y = 0 ∨ r.y = 1)
    (hobs : Observed (eventOf .eo) rows (MomentsSrc.ctrlFormat c0 (MomentsSrc.labelEvent lab)) g) :
    gammaAt (eventOf .eo) rows 1 defaultUtil (hp.map (fun x => ind (x == 1)))
        ⟨.plus, MomentsSrc.ctrlFormat c0 (MomentsSrc.labelEvent lab), g⟩
      = condRate lab (toBM (fun r => (r.c == some c0) && r.g == g) rows hp)
        - condRate lab (toBM (fun r => r.c == some c0) rows hp) :=
  gamma_plus_eq_rate_on (eventOf .eo) rows hp _ g (fun r => r.c == some c0) lab hl hobs hh
    (fun r hr => eo_inE_stratum r c0 lab (hy r hr) hlab)

/-! non-vacuity of the rate theorems: `ex1` with hard predictions `hp1` meets every hypothesis, the groups' rates
    differ (TPR of "a" in stratum x is 1, of "b" 0, of the stratum 1/2), and both sides evaluate to the same number -/
def hp1 : List Int := [1, 0, 1, 1, 0, 1]
example : hp1.length = ex1.length ∧ (∀ x ∈ hp1, x = 0 ∨ x = 1) ∧ (∀ r ∈ ex1, r.y = 0 ∨ r.y = 1) := by decide +kernel
example : gammaAt (eventOf .tpr) ex1 1 defaultUtil (hp1.map (fun x => ind (x == 1))) ⟨.plus, "control=x,label=1", "a"⟩ = 1/2 ∧
    BaseMetrics.tprOf (toBM (fun r => (r.c == some "x") && r.g == "a") ex1 hp1) 0 1 = 1 ∧
    BaseMetrics.tprOf (toBM (fun r => r.c == some "x") ex1 hp1) 0 1 = 1/2 := by decide +kernel
example : gammaAt (eventOf .eo) ex1 1 defaultUtil (hp1.map (fun x => ind (x == 1))) ⟨.plus, "control=y,label=0", "b"⟩
    = condRate 0 (toBM (fun r => (r.c == some "y") && r.g == "b") ex1 hp1)
      - condRate 0 (toBM (fun r => r.c == some "y") ex1 hp1) :=
  eo_gamma_plus_in_stratum ex1 hp1 "y" "b" 0 (Or.inl rfl) (by decide) (by decide +kernel) (by decide +kernel)
    ⟨⟨0, "b", some "y"⟩, by decide +kernel⟩
def ex2 : List Row := [⟨1, "a", none⟩, ⟨0, "a", none⟩, ⟨1, "b", none⟩, ⟨0, "b", none⟩, ⟨1, "b", none⟩, ⟨0, "a", none⟩]
def hp2 : List Int := [1, 1, 0, 0, 1, 0]
example : gammaAt (eventOf .eo) ex2 1 defaultUtil (hp2.map (fun x => ind (x == 1))) ⟨.plus, "label=0", "a"⟩ = 1/6 ∧
    BaseMetrics.fprOf (toBM (fun r => true && r.g == "a") ex2 hp2) 0 1 = 1/2 ∧
    BaseMetrics.fprOf (toBM (fun _ => true) ex2 hp2) 0 1 = 1/3 := by decide +kernel
example : gammaAt (eventOf .eo) ex2 1 defaultUtil (hp2.map (fun x => ind (x == 1))) ⟨.plus, MomentsSrc.labelEvent ((1 : Nat) : Int), "b"⟩
    = condRate ((1 : Nat) : Int) (toBM (fun r => true && r.g == "b") ex2 hp2) - condRate ((1 : Nat) : Int) (toBM (fun _ => true) ex2 hp2) :=
  eo_gamma_plus ex2 hp2 "b" 1 (by decide) (by decide) (by decide +kernel) (by decide +kernel)
    ⟨⟨1, "b", none⟩, by decide +kernel⟩
-- error-rate parity and selection rate: hypotheses met, non-degenerate values
example : gammaAt (eventOf .erp) ex2 1 erpUtil (hp2.map (fun x => ind (x == 1))) ⟨.plus, "all", "a"⟩
    = errRateBM (toBM (inEG (eventOf .erp) "all" "a") ex2 hp2) - errRateBM (toBM (inE (eventOf .erp) "all") ex2 hp2) ∧
    errRateBM (toBM (inEG (eventOf .erp) "all" "a") ex2 hp2) = 1/3 ∧
    errRateBM (toBM (inE (eventOf .erp) "all") ex2 hp2) = 1/3 + 0 := by decide +kernel
example : BaseMetrics.selectionRate (toBM (inEG (eventOf .dp) "all" "b") ex2 hp2) 1 = .ok (1/3) ∧
    BaseMetrics.selectionRate (toBM (inE (eventOf .dp) "all") ex2 hp2) 1 = .ok (1/2) ∧
    gammaAt (eventOf .dp) ex2 1 defaultUtil (hp2.map (fun x => ind (x == 1))) ⟨.plus, "all", "b"⟩ = 1/3 - 1/2 := by
  decide +kernel
-- `no_event_rows_inert`: TPR parity, predictions changed on the label-0 rows only
example : gamma (eventOf .tpr) ex1 (1/2) defaultUtil [1, 0, 1/2, 1, 0, 1] = gamma (eventOf .tpr) ex1 (1/2) defaultUtil [1, 1, 1/2, 0, 0, 1] := by
  decide +kernel
-- `errorRate_gamma` / `_hard`: labels 0/1, soft resp. hard predictions
example : Hard [1, 0, 1, 0] ∧ Soft [1/2, 1/4, 1, 0] ∧ errGamma 2 3 [1, 0, 1, 0] [1/2, 1/4, 1, 0] = (3 * (1/2) + 2 * (1/4)) / 4 := by
  refine ⟨?_, ?_, by decide +kernel⟩
  · show ∀ x ∈ ([1, 0, 1, 0] : List Rat), x = 0 ∨ x = 1
    decide +kernel
  · show ∀ x ∈ ([1/2, 1/4, 1, 0] : List Rat), 0 ≤ x ∧ x ≤ 1
    decide +kernel
-- `bgl_gamma_in_declared_range`, `loss_values`: ordered bounds, clipping active on label and prediction
example : (Loss.square (1/4) (3/4)).eval 1 0 = 1/4 ∧ (Loss.absolute (-1) 1).evalS 2 (-3) = 2 := by decide +kernel

end C06
