/-
C15 — CorrelationRemover output is uncorrelated with every sensitive column.
Property theorems only; helper lemmas live in `Lemmas/CorrRemover.lean`.

Notation: `X` training matrix (list of rows), `ids` the sensitive column positions (in the order of
`sensitive_feature_ids`, after `lookup_`), `m` the number of columns, `S = sens ids X`,
`Z = nonSens ids m X`, `β = beta_` (a parameter: any matrix satisfying the normal equations).

CLAUSE → THEOREM TABLE (review R2; property text of properties.jsonl, clause by clause)
  1 "fit_transform with alpha = 1 returns the non-sensitive columns minus their least-squares projection on the
     per-column-centred sensitive columns"
        transform_one_eq_residual (output = Z − (S − mean)·β), lstsq_minimises (that residual is THE least-squares one),
        output_independent_of_solution (well defined although β is not unique), lifted_mean_per_column, lifted_center,
        src_model_eq
  2 "so every output column has zero sample covariance with every sensitive column of the training data"
        uncorrelated, covNum_eq_normal_residual (quantitative), src_uncorrelated,
        uncorrelated_two_rows (NEW: with n ≥ 2 the divisor n−1 is non-zero, so `cov = 0` is not a 0/0 artefact)
  3 "for any number of sensitive columns given by position or by name"
        all theorems quantify over `ids : List Nat` of any length; src_ids_by_position_or_name, lifted_split
  4 "the sensitive columns themselves are dropped and the remaining columns keep their order"
        drops_sensitive_keeps_order, src_drops_sensitive_keeps_order, lifted_split
  5 "for general alpha the output is alpha*residual + (1-alpha)*original"
        alpha_blend, transform_entry, alpha_zero, cov_alpha, src_alpha_blend, lifted_out_entry
  6 "transform applies to new data the same affine map (training means and coefficients) learned in fit"
        transform_new_data, transform_affine, transform_entry, lifted_transform_uses_training_statistics,
        src_transform_new_data
  NOT PROVED (trusted, stated in `trusted` of the check): that `numpy.linalg.lstsq` RETURNS a solution of the normal
  equations for every matrix (existence of a least-squares solution).  `uncorrelated`, `cov_alpha`, `lstsq_minimises`
  are conditional on `isLstsq … = true`; the driver evaluates that hypothesis exactly on every fitted `beta_`
  (relation C15.isLstsq), and the examples at the end of this file show it is met by non-degenerate inputs
  (two sensitive columns in non-increasing id order, correlation present, non-constant output) and by rank-deficient ones.

TOTALISATION NOTES (review R2)
  * `cov a b = covNum a b / (n − 1)`: for n = 1 Lean gives x/0 = 0 whatever the output is, numpy gives NaN
    (`np.cov([2.],[1.])` → nan; `CorrelationRemover(sensitive_feature_ids=[0]).fit_transform([[1.,2.]])` → [[2.]]).
    The `cov = 0` conjunct of `uncorrelated` is therefore only meaningful for n ≥ 2 (the property's quantifier):
    `cov_eq_zero_iff`, `uncorrelated_two_rows`, `cov_single_row_is_totalisation` below.  The `covNum = 0` conjunct is
    division-free apart from the column means and carries the content for every n ≥ 1.
  * `ent`, `pick` use `getD _ 0`: an id ≥ m reads a zero column in the model where the real code raises
    ("Columns … not found", covered by C20); the driver refuses such ids (`okIds`), ragged matrices (`wellShaped`) and a
    `beta` of the wrong shape (`okBeta`) with `bad-op`.  The theorems hold for those inputs too, but say nothing about the code.
  * `vsub` is `zipWith`: a stored mean of the wrong length would truncate; `transform_entry` / `transform_affine` carry
    `p.mean.length = p.ids.length`, and `fitMean` has that length by construction (`fit_problem_shaped`).
  * `colMean` divides by the number of rows: X = [] gives mean 0 (real code: validate_data raises); driver refuses X = [].
-/
import FairModel.Lemmas.CorrRemover
import FairModel.Lemmas.CorrLifted
import FairModel.Lemmas.CorrUnique

namespace C15
open CorrRemover Finset

/-- the fitted parameters for `alpha` (mean = the per-column means learned from `X`) -/
def fitted (ids : List Nat) (m : Nat) (X β : Mat) (α : Rat) : Params :=
  ⟨ids, m, fitMean ids X, β, α⟩

/-- `fit_transform` with alpha = 1 returns exactly the residual `Z − (S − mean)·β` -/
theorem transform_one_eq_residual (ids : List Nat) (m : Nat) (mean : List Rat) (β X : Mat) :
    transform ⟨ids, m, mean, β, 1⟩ X
      = residual (center (sens ids X) mean) (nonSens ids m X) β := by
  unfold transform residual center sens nonSens
  rw [List.map_map, List.zipWith_map, List.zipWith_self]
  apply List.map_congr_left
  intro x _
  simp only [transformRow, Function.comp]
  exact blend_one _ _ (length_residRow _ _ _)

/-- Quantitative form, for ANY coefficient matrix β: the covariance numerator of output column `j`
    with sensitive column `k` equals entry `(k,j)` of the normal-equation residual
    `(S − mean)ᵀ·(Z − (S − mean)·β)`.  Hence the covariance vanishes exactly as far as `lstsq`
    solved its problem. -/
theorem covNum_eq_normal_residual (ids : List Nat) (m : Nat) (X β : Mat) (j k : Nat)
    (hk : k < ids.length) :
    covNum (colOf (transform (fitted ids m X β 1) X) j) (colOf (sens ids X) k)
      = normalResid (center (sens ids X) (fitMean ids X))
          (residual (center (sens ids X) (fitMean ids X)) (nonSens ids m X) β) k j := by
  unfold fitted
  rw [transform_one_eq_residual]
  apply covNum_col_eq_normalResid _ _ _ _ _ hk
  · intro i hi
    rw [length_sens] at hi
    exact length_sens_row ids X i hi
  · simp [residual, center, sens, nonSens]

/-- MAIN CLAUSE.  If `beta_` satisfies the normal equations of the per-column-centred sensitive
    block, every output column (alpha = 1) has zero sample covariance with every sensitive column
    of the training data — for any number of rows, sensitive columns and kept columns, any
    (collinear, duplicated, constant) sensitive columns. -/
theorem uncorrelated (ids : List Nat) (m : Nat) (X β : Mat)
    (hfit : isLstsq (center (sens ids X) (fitMean ids X)) (nonSens ids m X) β
              ids.length (nonSensIdx ids m).length = true)
    (j k : Nat) (hj : j < (nonSensIdx ids m).length) (hk : k < ids.length) :
    covNum (colOf (transform (fitted ids m X β 1) X) j) (colOf (sens ids X) k) = 0
    ∧ cov (colOf (transform (fitted ids m X β 1) X) j) (colOf (sens ids X) k) = 0 := by
  have h0 := covNum_eq_normal_residual ids m X β j k hk
  rw [(isLstsq_iff _ _ _ _ _).mp hfit k hk j hj] at h0
  exact ⟨h0, by unfold cov; rw [h0]; simp⟩

/-- NEW (R2): with at least two rows the divisor `n − 1` of the sample covariance is non-zero, so `cov = 0` says
    exactly `covNum = 0` (no x/0 = 0 artefact) -/
theorem cov_eq_zero_iff (a b : List Rat) (h : 2 ≤ a.length) : cov a b = 0 ↔ covNum a b = 0 := by
  have hd : ((a.length : Rat) - 1) ≠ 0 := by
    have : (2 : Rat) ≤ (a.length : Rat) := by exact_mod_cast h
    intro e; linarith
  unfold cov
  constructor
  · intro h0
    rcases div_eq_zero_iff.mp h0 with h1 | h1
    · exact h1
    · exact absurd h1 hd
  · intro h0; rw [h0]; simp

/-- NEW (R2): … whereas for ONE row `cov` is 0 for ANY two columns: pure totalisation (numpy returns NaN there);
    this is why the property's quantifier, the generator and `uncorrelated_two_rows` ask for n ≥ 2 -/
theorem cov_single_row_is_totalisation (a b : List Rat) (h : a.length = 1) : cov a b = 0 := by
  unfold cov; rw [h]; simp

/-- NEW (R2): MAIN CLAUSE with the property's guard n ≥ 2 made explicit: the covariance is a genuine quotient
    (divisor ≠ 0) and it is zero. -/
theorem uncorrelated_two_rows (ids : List Nat) (m : Nat) (X β : Mat) (hn : 2 ≤ X.length)
    (hfit : isLstsq (center (sens ids X) (fitMean ids X)) (nonSens ids m X) β
              ids.length (nonSensIdx ids m).length = true)
    (j k : Nat) (hj : j < (nonSensIdx ids m).length) (hk : k < ids.length) :
    (((colOf (transform (fitted ids m X β 1) X) j).length : Rat) - 1 ≠ 0) ∧
    cov (colOf (transform (fitted ids m X β 1) X) j) (colOf (sens ids X) k) = 0 := by
  have hl : (colOf (transform (fitted ids m X β 1) X) j).length = X.length := by
    simp [colOf, transform]
  refine ⟨?_, (uncorrelated ids m X β hfit j k hj hk).2⟩
  rw [hl]
  have : (2 : Rat) ≤ (X.length : Rat) := by exact_mod_cast hn
  intro e; linarith

/-- entry-wise alpha blend: output = alpha * residual + (1 - alpha) * original -/
theorem alpha_blend (p : Params) (x : List Rat) (j : Nat) (hj : j < (nonSensIdx p.ids p.m).length) :
    (transformRow p x).getD j 0
      = p.alpha * (transformRow { p with alpha := 1 } x).getD j 0
        + (1 - p.alpha) * (pick (nonSensIdx p.ids p.m) x).getD j 0 := by
  have hl : (residRow p.beta (vsub (pick p.ids x) p.mean) (pick (nonSensIdx p.ids p.m) x)).length
      = (pick (nonSensIdx p.ids p.m) x).length := length_residRow _ _ _
  have hj' : j < (pick (nonSensIdx p.ids p.m) x).length := by rw [length_pick]; exact hj
  unfold transformRow
  rw [getD_blend _ _ _ _ (hl ▸ hj') hj', blend_one _ _ hl]

/-- closed form of one output entry: `z_j − alpha · Σ_k (s_k − mean_k) β_kj` -/
theorem transform_entry (p : Params) (x : List Rat) (j : Nat)
    (hj : j < (nonSensIdx p.ids p.m).length) (hm : p.mean.length = p.ids.length) :
    (transformRow p x).getD j 0
      = x.getD ((nonSensIdx p.ids p.m).getD j 0) 0
        - p.alpha * ∑ k ∈ range p.ids.length,
            (x.getD (p.ids.getD k 0) 0 - p.mean.getD k 0) * ent p.beta k j := by
  have hl : (residRow p.beta (vsub (pick p.ids x) p.mean) (pick (nonSensIdx p.ids p.m) x)).length
      = (pick (nonSensIdx p.ids p.m) x).length := length_residRow _ _ _
  have hj' : j < (pick (nonSensIdx p.ids p.m) x).length := by rw [length_pick]; exact hj
  unfold transformRow
  rw [getD_blend _ _ _ _ (hl ▸ hj') hj', getD_residRow _ _ _ _ hj', getD_pick _ _ _ hj]
  have hlen : (vsub (pick p.ids x) p.mean).length = p.ids.length := by
    rw [length_vsub, length_pick, hm, Nat.min_self]
  rw [hlen]
  have e : ∀ k ∈ range p.ids.length,
      (vsub (pick p.ids x) p.mean).getD k 0 * ent p.beta k j
        = (x.getD (p.ids.getD k 0) 0 - p.mean.getD k 0) * ent p.beta k j := by
    intro k hk
    have hk' : k < p.ids.length := Finset.mem_range.mp hk
    unfold vsub
    rw [getD_zipWith _ _ _ _ (by rw [length_pick]; exact hk') (by rw [hm]; exact hk'),
      getD_pick _ _ _ hk']
  rw [Finset.sum_congr rfl e]
  ring

/-- alpha = 0 returns the kept columns untouched -/
theorem alpha_zero (ids : List Nat) (m : Nat) (mean : List Rat) (β X : Mat) :
    transform ⟨ids, m, mean, β, 0⟩ X = nonSens ids m X := by
  unfold transform nonSens
  apply List.map_congr_left
  intro x _
  exact blend_zero _ _ (length_residRow _ _ _)

/-- general alpha: under the normal equations the output keeps exactly the fraction `1 − alpha`
    of the original covariance with every sensitive column -/
theorem cov_alpha (ids : List Nat) (m : Nat) (X β : Mat) (α : Rat)
    (hfit : isLstsq (center (sens ids X) (fitMean ids X)) (nonSens ids m X) β
              ids.length (nonSensIdx ids m).length = true)
    (j k : Nat) (hj : j < (nonSensIdx ids m).length) (hk : k < ids.length) :
    covNum (colOf (transform (fitted ids m X β α) X) j) (colOf (sens ids X) k)
      = (1 - α) * covNum (colOf (nonSens ids m X) j) (colOf (sens ids X) k) := by
  have h1 := (uncorrelated ids m X β hfit j k hj hk).1
  have hb := covNum_blend (colOf (transform (fitted ids m X β α) X) j)
    (colOf (transform (fitted ids m X β 1) X) j) (colOf (nonSens ids m X) j)
    (colOf (sens ids X) k) α
    (by simp [length_colOf, transform, sens]) (by simp [length_colOf, transform, sens])
    (by simp [length_colOf, nonSens, sens])
    (by
      intro i hi
      rw [length_colOf, length_sens] at hi
      rw [getD_colOf _ _ _ (by simpa [transform] using hi),
        getD_colOf _ _ _ (by simpa [transform] using hi),
        getD_colOf _ _ _ (by simpa [nonSens] using hi)]
      unfold transform nonSens
      rw [ent_map _ _ _ _ hi, ent_map _ _ _ _ hi, ent_map _ _ _ _ hi]
      exact alpha_blend (fitted ids m X β α) (X.getD i []) j hj)
  rw [hb, h1]; ring

/-- "minus their least-squares projection": a β satisfying the normal equations minimises the
    squared error of every kept column against the centred sensitive block, over ALL coefficient
    vectors `w` (so the residual the output consists of is the least-squares residual). -/
theorem lstsq_minimises (ids : List Nat) (m : Nat) (X β : Mat)
    (hfit : isLstsq (center (sens ids X) (fitMean ids X)) (nonSens ids m X) β
              ids.length (nonSensIdx ids m).length = true)
    (j : Nat) (hj : j < (nonSensIdx ids m).length) (w : Nat → Rat) :
    ∑ i ∈ range X.length, (ent (transform (fitted ids m X β 1) X) i j) ^ 2
      ≤ ∑ i ∈ range X.length,
          (ent (nonSens ids m X) i j
            - ∑ k ∈ range ids.length, ent (center (sens ids X) (fitMean ids X)) i k * w k) ^ 2 := by
  have hm : (fitMean ids X).length = ids.length := by simp [fitMean, colMeans, length_vec]
  set Sc := center (sens ids X) (fitMean ids X) with hSc
  set R := transform (fitted ids m X β 1) X with hR
  -- entry of the alpha = 1 output
  have hr : ∀ i ∈ range X.length, ent R i j
      = ent (nonSens ids m X) i j - ∑ k ∈ range ids.length, ent Sc i k * ent β k j := by
    intro i hi
    have hi' : i < X.length := Finset.mem_range.mp hi
    obtain ⟨e1, e2⟩ := ent_blocks ids m (fitMean ids X) X i hi' hm
    rw [hR, e2 j hj]
    unfold transform
    rw [ent_map _ _ _ _ hi', transform_entry (fitted ids m X β 1) _ j hj hm]
    simp only [fitted, one_mul]
    congr 1
    apply Finset.sum_congr rfl
    intro k hk
    rw [hSc, e1 k (Finset.mem_range.mp hk)]
  -- normal equations: Σ_i Sc_ik R_ij = 0
  have hn : ∀ k ∈ range ids.length, ∑ i ∈ range X.length, ent Sc i k * ent R i j = 0 := by
    intro k hk
    have := (isLstsq_iff _ _ _ _ _).mp hfit k (Finset.mem_range.mp hk) j hj
    rw [← transform_one_eq_residual] at this
    unfold normalResid at this
    rw [sumTo_eq] at this
    have hl : (center (sens ids X) (fitMean ids X)).length = X.length := by simp [center, sens]
    rw [hl] at this
    exact this
  -- cross term vanishes
  have hcross : ∑ i ∈ range X.length,
      ent R i j * ∑ k ∈ range ids.length, ent Sc i k * (ent β k j - w k) = 0 := by
    simp only [Finset.mul_sum]
    rw [Finset.sum_comm]
    apply Finset.sum_eq_zero
    intro k hk
    have e : ∀ i ∈ range X.length, ent R i j * (ent Sc i k * (ent β k j - w k))
        = (ent β k j - w k) * (ent Sc i k * ent R i j) := by intro i _; ring
    rw [Finset.sum_congr rfl e, ← Finset.mul_sum, hn k hk, mul_zero]
  have hsplit : ∀ i ∈ range X.length,
      (ent (nonSens ids m X) i j - ∑ k ∈ range ids.length, ent Sc i k * w k) ^ 2
        = ent R i j ^ 2
          + 2 * (ent R i j * ∑ k ∈ range ids.length, ent Sc i k * (ent β k j - w k))
          + (∑ k ∈ range ids.length, ent Sc i k * (ent β k j - w k)) ^ 2 := by
    intro i hi
    have e : ∑ k ∈ range ids.length, ent Sc i k * (ent β k j - w k)
        = ∑ k ∈ range ids.length, ent Sc i k * ent β k j - ∑ k ∈ range ids.length, ent Sc i k * w k := by
      rw [← Finset.sum_sub_distrib]
      apply Finset.sum_congr rfl; intro k _; ring
    rw [e, hr i hi]; ring
  rw [Finset.sum_congr rfl hsplit, Finset.sum_add_distrib, Finset.sum_add_distrib,
    ← Finset.mul_sum, hcross]
  have : 0 ≤ ∑ i ∈ range X.length,
      (∑ k ∈ range ids.length, ent Sc i k * (ent β k j - w k)) ^ 2 :=
    Finset.sum_nonneg (fun i _ => sq_nonneg _)
  linarith

/-- `transform` works row by row with the stored parameters only: on new data it applies the map
    learned in `fit` (training means and coefficients), nothing is re-estimated -/
theorem transform_new_data (p : Params) (Xnew Ynew : Mat) :
    transform p Xnew = Xnew.map (transformRow p)
    ∧ transform p (Xnew ++ Ynew) = transform p Xnew ++ transform p Ynew := by
  simp [transform]

/-- the learned map is AFFINE: it commutes with affine combinations of rows -/
theorem transform_affine (p : Params) (t : Rat) (x y : List Rat) (hxy : x.length = y.length)
    (hm : p.mean.length = p.ids.length) :
    transformRow p (lerp t x y) = lerp t (transformRow p x) (transformRow p y) := by
  apply ext_getD
  · simp [lerp, length_transformRow]
  · intro j hj
    rw [length_transformRow] at hj
    rw [getD_lerp _ _ _ (by simp [length_transformRow]),
      transform_entry p _ j hj hm, transform_entry p x j hj hm, transform_entry p y j hj hm]
    simp only [getD_lerp t x y hxy]
    have e : ∀ k ∈ range p.ids.length,
        (t * x.getD (p.ids.getD k 0) 0 + (1 - t) * y.getD (p.ids.getD k 0) 0 - p.mean.getD k 0)
            * ent p.beta k j
          = t * ((x.getD (p.ids.getD k 0) 0 - p.mean.getD k 0) * ent p.beta k j)
            + (1 - t) * ((y.getD (p.ids.getD k 0) 0 - p.mean.getD k 0) * ent p.beta k j) := by
      intro k _; ring
    rw [Finset.sum_congr rfl e, Finset.sum_add_distrib, ← Finset.mul_sum, ← Finset.mul_sum]
    ring

/-- the kept column positions are exactly the non-sensitive ones, in increasing order; the output
    has one column per kept position and one row per input row -/
theorem drops_sensitive_keeps_order (p : Params) (X : Mat) :
    (∀ c, c ∈ nonSensIdx p.ids p.m ↔ c < p.m ∧ c ∉ p.ids)
    ∧ (nonSensIdx p.ids p.m).Pairwise (· < ·)
    ∧ (transform p X).length = X.length
    ∧ (∀ r ∈ transform p X, r.length = (nonSensIdx p.ids p.m).length) := by
  refine ⟨?_, ?_, ?_, ?_⟩
  · intro c; simp [nonSensIdx]
  · exact List.Pairwise.filter _ List.pairwise_lt_range
  · simp [transform]
  · intro r hr
    simp only [transform, List.mem_map] at hr
    obtain ⟨x, _, rfl⟩ := hr
    exact length_transformRow p x

/-! ### is the output well defined when `beta_` is not? (finding F10: rank-deficient `lstsq`)

`numpy.linalg.lstsq` returns SOME solution of the normal equations; on collinear / duplicated / constant sensitive
columns there are many.  The theorems below show that the property's output does not depend on which one:
every solution gives the same residual, hence the same `fit_transform` output (and zero covariance, by `uncorrelated`).
The coefficients themselves are unique exactly when the centred sensitive columns are linearly independent, i.e. when
their Gram matrix is nonsingular.  F10 (covariance −0.0625 with `beta_ ≈ 4.9e14`) therefore is a pure floating-point
artefact: the returned `beta_` does not solve the normal equations to working precision. -/

/-- shape of the least-squares problem `fit` poses on a training matrix `X` -/
theorem fit_problem_shaped (ids : List Nat) (m : Nat) (X : Mat) :
    Shaped (center (sens ids X) (fitMean ids X)) (nonSens ids m X) ids.length (nonSensIdx ids m).length := by
  have hm : (fitMean ids X).length = ids.length := by simp [fitMean, colMeans, length_vec]
  refine ⟨by simp [center, sens, nonSens], ?_⟩
  intro i hi
  have hi' : i < X.length := by simpa [center, sens] using hi
  constructor
  · have : (center (sens ids X) (fitMean ids X)).getD i [] = vsub (pick ids (X.getD i [])) (fitMean ids X) := by
      simp [center, sens, List.getD_eq_getElem?_getD, hi']
    rw [this, length_vsub, length_pick, hm, Nat.min_self]
  · have : (nonSens ids m X).getD i [] = pick (nonSensIdx ids m) (X.getD i []) := by
      simp [nonSens, List.getD_eq_getElem?_getD, hi']
    rw [this, length_pick]

/-- `residual_unique`: ANY two coefficient matrices satisfying the normal equations (unique or not) give the same
    residual `Z − Sc·β`, entry by entry. -/
theorem residual_unique (Sc Z β₁ β₂ : Mat) (ms mz : Nat) (hs : Shaped Sc Z ms mz)
    (h₁ : isLstsq Sc Z β₁ ms mz = true) (h₂ : isLstsq Sc Z β₂ ms mz = true) :
    ∀ i, i < Sc.length → ∀ j, j < mz → ent (residual Sc Z β₁) i j = ent (residual Sc Z β₂) i j := by
  intro i hi j hj
  have n1 := (isLstsq_iff_normalEq Sc Z β₁ ms mz hs).mp h₁ j hj
  have n2 := (isLstsq_iff_normalEq Sc Z β₂ ms mz hs).mp h₂ j hj
  have hf := normalEq_fitted_unique _ _ _ _ _ _ n1 n2 i hi
  have hjz : j < (Z.getD i []).length := by rw [(hs.2 i hi).2]; exact hj
  rw [ent_residual Sc Z β₁ ms i j hi hs.1 (hs.2 i hi).1 hjz, ent_residual Sc Z β₂ ms i j hi hs.1 (hs.2 i hi).1 hjz, hf]

/-- the `fit_transform` output (alpha = 1) is the same for EVERY least-squares solution `beta_` -/
theorem output_independent_of_solution (ids : List Nat) (m : Nat) (X β₁ β₂ : Mat)
    (h₁ : isLstsq (center (sens ids X) (fitMean ids X)) (nonSens ids m X) β₁ ids.length (nonSensIdx ids m).length = true)
    (h₂ : isLstsq (center (sens ids X) (fitMean ids X)) (nonSens ids m X) β₂ ids.length (nonSensIdx ids m).length = true) :
    transform (fitted ids m X β₁ 1) X = transform (fitted ids m X β₂ 1) X := by
  have hs := fit_problem_shaped ids m X
  unfold fitted
  rw [transform_one_eq_residual, transform_one_eq_residual]
  set Sc := center (sens ids X) (fitMean ids X) with hSc
  set Z := nonSens ids m X with hZ
  have hlen : ∀ β : Mat, (residual Sc Z β).length = Sc.length := by
    intro β; simp [residual, hs.1]
  have hrow : ∀ (β : Mat) i, i < Sc.length → ((residual Sc Z β).getD i []).length = (nonSensIdx ids m).length := by
    intro β i hi
    have : (residual Sc Z β).getD i [] = residRow β (Sc.getD i []) (Z.getD i []) := by
      simp [residual, List.getD_eq_getElem?_getD, hi, hs.1 ▸ hi]
    rw [this, length_residRow, (hs.2 i hi).2]
  apply mat_ext
  · rw [hlen, hlen]
  · intro i hi
    rw [hlen] at hi
    rw [hrow β₁ i hi, hrow β₂ i hi]
  · intro i hi j hj
    rw [hlen] at hi
    rw [hrow β₁ i hi] at hj
    exact residual_unique Sc Z β₁ β₂ _ _ hs h₁ h₂ i hi j hj

/-- the Gram matrix of the centred sensitive columns is nonsingular ⇔ these columns are linearly independent -/
theorem gram_nonsingular_iff_independent (Sc : Mat) (ms : Nat) :
    GramNonsingular (ent Sc) Sc.length ms ↔ ColumnsIndependent (ent Sc) Sc.length ms :=
  gramNonsingular_iff_columnsIndependent _ _ _

/-- `normal_equations_unique_iff`: given one solution `β₀` and at least one target column, the solution of the normal
    equations is unique (entry-wise) exactly when the centred sensitive columns are linearly independent — equivalently
    when their Gram matrix is nonsingular. -/
theorem normal_equations_unique_iff (Sc Z β₀ : Mat) (ms mz : Nat) (hs : Shaped Sc Z ms mz) (hmz : 0 < mz)
    (h₀ : isLstsq Sc Z β₀ ms mz = true) :
    (∀ β, isLstsq Sc Z β ms mz = true → ∀ q, q < ms → ∀ j, j < mz → ent β q j = ent β₀ q j)
      ↔ GramNonsingular (ent Sc) Sc.length ms := by
  rw [gram_nonsingular_iff_independent]
  have n0 := (isLstsq_iff_normalEq Sc Z β₀ ms mz hs).mp h₀
  constructor
  · intro hu
    -- perturb column 0 of β₀ by a kernel vector d
    rw [← normalEq_unique_iff (ent Sc) (fun i => ent Z i 0) Sc.length ms (fun q => ent β₀ q 0) (n0 0 hmz)]
    intro w hw q hq
    let β := matOf ms mz (fun q j => if j = 0 then w q else ent β₀ q j)
    have hβ : isLstsq Sc Z β ms mz = true := by
      rw [isLstsq_iff_normalEq Sc Z β ms mz hs]
      intro j hj k hk
      by_cases hj0 : j = 0
      · subst hj0
        have e : ∀ i ∈ Finset.range Sc.length, ent Sc i k * (ent Z i 0 - lin (ent Sc) ms (fun q => ent β q 0) i)
            = ent Sc i k * (ent Z i 0 - lin (ent Sc) ms w i) := by
          intro i _
          rw [lin_congr (ent Sc) ms (fun q => ent β q 0) w i (by
            intro q hq; simp only [β]; rw [ent_matOf _ _ _ _ _ hq hmz]; simp)]
        rw [Finset.sum_congr rfl e]
        exact hw k hk
      · have e : ∀ i ∈ Finset.range Sc.length, ent Sc i k * (ent Z i j - lin (ent Sc) ms (fun q => ent β q j) i)
            = ent Sc i k * (ent Z i j - lin (ent Sc) ms (fun q => ent β₀ q j) i) := by
          intro i _
          rw [lin_congr (ent Sc) ms (fun q => ent β q j) (fun q => ent β₀ q j) i (by
            intro q hq; simp only [β]; rw [ent_matOf _ _ _ _ _ hq hj]; simp [hj0])]
        rw [Finset.sum_congr rfl e]
        exact n0 j hj k hk
    have := hu β hβ q hq 0 hmz
    simp only [β] at this
    rw [ent_matOf _ _ _ _ _ hq hmz] at this
    simpa using this
  · intro hind β hβ q hq j hj
    have nb := (isLstsq_iff_normalEq Sc Z β ms mz hs).mp hβ j hj
    exact (normalEq_unique_iff (ent Sc) (fun i => ent Z i j) Sc.length ms (fun q => ent β₀ q j) (n0 j hj)).mpr hind
      (fun q => ent β q j) nb q hq

/-! ### the tie to the source: definitions LIFTED from `_correlation_remover.py`
(`Generated/CorrRemoverSrc.lean`, rewritten from /repo on every run by harness/lifters/corr_remover.py; `CorrL.*` is the
model re-built from them).  The clauses of the property are re-proved for the lifted text, so an edit of the centring,
of the lstsq operands, of the blend expression, of the column selection or of what `transform` re-uses re-checks them,
breaks them, or is refused by the lifter. -/

section Lifted
open CorrL
set_option linter.unusedTactic false
set_option linter.unreachableTactic false

/-- `self.sensitive_mean_ = X_sensitive.mean(axis=0)`: one mean PER sensitive column -/
theorem lifted_mean_per_column : CorrRemoverSrc.fitMeanKind = .perColumn := by decide

/-- `X_s_center = X_sensitive - self.sensitive_mean_` (this operand order), in `fit` (first operand of lstsq) and in
    `transform` -/
theorem lifted_center : CorrRemoverSrc.fitCenter = (fun s m => s - m) ∧
    CorrRemoverSrc.transformCenter = (fun s m => s - m) := by
  constructor
  · first
    | rfl
    | (funext s m; simp only [CorrRemoverSrc.fitCenter]; ring)
  · first
    | rfl
    | (funext s m; simp only [CorrRemoverSrc.transformCenter]; ring)

/-- `np.linalg.lstsq(X_s_center, X_use, rcond=None)`: the solve is NOT truncated by an explicit cut-off.  This is the
    assumption under which the model takes `beta_` to satisfy the normal equations (`CorrL.lstsqAssumed`); with any explicit
    numeric `rcond` in the source the lifter emits `some q`, this theorem fails, and with it `src_model_eq` and every
    `src_*` clause (an `rcond` that is not a literal is refused by the lifter). -/
theorem lifted_lstsq_untruncated : CorrRemoverSrc.lstsqRcond = none := by decide

/-- what the model assumes of `lstsq` AT THE LIFTED `rcond`: exactly the normal equations of the operands the source passes -/
theorem src_lstsq_assumption (ids : List Nat) (m : Nat) (X β : Mat) :
    isLstsqSrc ids m X β = isLstsq (lstsqA ids X) (useSrc ids m X) β ids.length (keptIdx ids m).length := by
  unfold isLstsqSrc
  rw [lifted_lstsq_untruncated, lstsqAssumed_none]

/-- necessity of `lifted_lstsq_untruncated`: under an explicit cut-off the model's assumption is vacuous, and a `β` that
    violates the normal equations (here β = 0 on a perfectly correlated pair of columns) passes -/
theorem truncated_lstsq_assumes_nothing (q : Rat) :
    lstsqAssumed (some q) [[-1], [1]] [[-1], [1]] [[0]] 1 1 = true ∧
    lstsqAssumed none [[-1], [1]] [[-1], [1]] [[0]] 1 1 = false ∧
    lstsqAssumed none [[-1], [1]] [[-1], [1]] [[1]] 1 1 = true := by
  refine ⟨rfl, ?_, ?_⟩ <;> decide +kernel

/-- `transform` centres with the STORED training mean (and multiplies with the stored `beta_`): nothing is re-estimated -/
theorem lifted_transform_uses_training_statistics : CorrRemoverSrc.transformMean = .stored := by decide

/-- `alpha * (X_use - X_s_center.dot(beta_)) + (1 - alpha) * X_use`, entry-wise -/
theorem lifted_out_entry : CorrRemoverSrc.outEntry = (fun a u pr => a * (u - pr) + (1 - a) * u) := by
  first
  | rfl
  | (funext a u pr; simp only [CorrRemoverSrc.outEntry]; ring)

/-- `_split_X`: sensitive positions in the order of `sensitive_feature_ids`; the others = `range(m)` minus those, in
    ORIGINAL (increasing) order -/
theorem lifted_split (ids : List Nat) (m : Nat) : sensIdx ids = ids ∧ keptIdx ids m = nonSensIdx ids m := by
  have h1 : sensIdx ids = ids := by
    simp [sensIdx, CorrRemoverSrc.sensitiveIdx]
  refine ⟨h1, ?_⟩
  unfold keptIdx
  rw [h1]
  simp [CorrRemoverSrc.nonSensitiveIdx, nonSensIdx]

/-- sensitive columns "given by position or by name": through the lifted `_create_lookup` tables, positions resolve to
    themselves (ndarray) and the names of a DataFrame with distinct column names resolve to their positions, in the
    order of `sensitive_feature_ids` -/
theorem src_ids_by_position_or_name (cols : List Nat) (hn : cols.Nodup) (m : Nat) (ids : List Nat) :
    ((∀ i ∈ ids, i < m) → CorrRemoverSrc.sensitiveIdx (CorrRemoverSrc.lookupArray m) ids = ids) ∧
    (∀ (h : ∀ i ∈ ids, i < cols.length),
      CorrRemoverSrc.sensitiveIdx (CorrRemoverSrc.lookupDataFrame cols) (ids.attach.map (fun i => cols[i.1]'(h i.1 i.2))) = ids) := by
  constructor
  · intro h
    simp only [CorrRemoverSrc.sensitiveIdx]
    conv_rhs => rw [← List.map_id ids]
    apply List.map_congr_left
    intro i hi
    exact lookupArray_eq m i (h i hi)
  · intro h
    simp only [CorrRemoverSrc.sensitiveIdx, List.map_map]
    conv_rhs => rw [← List.attach_map_subtype_val ids]
    apply List.map_congr_left
    intro i _
    exact lookupDataFrame_eq cols hn i.1 (h i.1 i.2)

/-- the model re-built from the lifted text is the model the theorems above are about -/
theorem src_model_eq (p : Params) (X : Mat) (ids : List Nat) (m : Nat) (β : Mat) :
    transformSrc p X = transform p X ∧ fitMeanSrc ids X = fitMean ids X ∧
    isLstsqSrc ids m X β = isLstsq (center (sens ids X) (fitMean ids X)) (nonSens ids m X) β ids.length
      (nonSensIdx ids m).length :=
  ⟨transformSrc_eq p X lifted_transform_uses_training_statistics lifted_center.2 lifted_out_entry
      (lifted_split p.ids p.m).1 (lifted_split p.ids p.m).2,
   fitMeanSrc_eq ids X lifted_mean_per_column (lifted_split ids m).1,
   isLstsqSrc_eq ids m X β lifted_mean_per_column lifted_center.1 (lifted_split ids m).1 (lifted_split ids m).2
     lifted_lstsq_untruncated⟩

/-- MAIN CLAUSE for the lifted text: if `beta_` solves the least-squares problem `lstsq` is CALLED with in the source
    (operands as lifted), the alpha = 1 output of the lifted `transform` with the mean the lifted `fit` stores has zero
    sample covariance with every sensitive column of the training data. -/
theorem src_uncorrelated (ids : List Nat) (m : Nat) (X β : Mat) (hfit : isLstsqSrc ids m X β = true)
    (j k : Nat) (hj : j < (keptIdx ids m).length) (hk : k < ids.length) :
    covNum (colOf (transformSrc ⟨ids, m, fitMeanSrc ids X, β, 1⟩ X) j) (colOf (sensSrc ids X) k) = 0 ∧
    cov (colOf (transformSrc ⟨ids, m, fitMeanSrc ids X, β, 1⟩ X) j) (colOf (sensSrc ids X) k) = 0 := by
  have e := src_model_eq ⟨ids, m, fitMeanSrc ids X, β, 1⟩ X ids m β
  rw [e.2.2] at hfit
  rw [(lifted_split ids m).2] at hj
  have hs : sensSrc ids X = sens ids X := by unfold sensSrc sens; rw [(lifted_split ids m).1]
  rw [e.1, e.2.1, hs]
  exact uncorrelated ids m X β hfit j k hj hk

/-- alpha blend for the lifted `transform`: output = alpha * (alpha-1 output) + (1 - alpha) * original -/
theorem src_alpha_blend (p : Params) (X : Mat) (i j : Nat) (hi : i < X.length)
    (hj : j < (keptIdx p.ids p.m).length) :
    ent (transformSrc p X) i j = p.alpha * ent (transformSrc { p with alpha := 1 } X) i j
      + (1 - p.alpha) * ent (useSrc p.ids p.m X) i j := by
  rw [(src_model_eq p X p.ids p.m []).1, (src_model_eq { p with alpha := 1 } X p.ids p.m []).1]
  rw [(lifted_split p.ids p.m).2] at hj
  unfold transform useSrc
  rw [ent_map _ _ _ _ hi, ent_map _ _ _ _ hi, ent_map _ _ _ _ hi, (lifted_split p.ids p.m).2]
  exact alpha_blend p (X.getD i []) j hj

/-- the lifted `transform` works row by row with the STORED mean and coefficients: new data get the map learned in fit -/
theorem src_transform_new_data (p : Params) (Xnew Ynew : Mat) :
    transformSrc p Xnew = Xnew.map (transformRow p) ∧
    transformSrc p (Xnew ++ Ynew) = transformSrc p Xnew ++ transformSrc p Ynew := by
  rw [(src_model_eq p Xnew p.ids p.m []).1, (src_model_eq p (Xnew ++ Ynew) p.ids p.m []).1,
    (src_model_eq p Ynew p.ids p.m []).1]
  exact transform_new_data p Xnew Ynew

/-- the lifted `_split_X`: kept positions = the non-sensitive ones in increasing order; one output column per kept
    position, one output row per input row -/
theorem src_drops_sensitive_keeps_order (p : Params) (X : Mat) :
    (∀ c, c ∈ keptIdx p.ids p.m ↔ c < p.m ∧ c ∉ p.ids)
    ∧ (keptIdx p.ids p.m).Pairwise (· < ·)
    ∧ (transformSrc p X).length = X.length
    ∧ (∀ r ∈ transformSrc p X, r.length = (keptIdx p.ids p.m).length) := by
  rw [(src_model_eq p X p.ids p.m []).1, (lifted_split p.ids p.m).2]
  exact drops_sensitive_keeps_order p X

end Lifted

/-! ### Regression witness for F2 (grand mean instead of per-column means)

With `sensitive_mean_ = X_sensitive.mean()` (one scalar for all columns) the normal equations
hold for the mis-centred block but the output is NOT uncorrelated: on
`X = [[0,0,0],[0,1,0],[1,1,1]]`, sensitive columns 0 and 1, β = [[1/2],[1/2]]. -/
def f2X : Mat := [[0, 0, 0], [0, 1, 0], [1, 1, 1]]
def f2β : Mat := [[1/2], [1/2]]

theorem grand_mean_breaks_uncorrelated :
    isLstsq (center (sens [0, 1] f2X) (grandMeans (sens [0, 1] f2X) 2)) (nonSens [0, 1] 3 f2X) f2β 2 1 = true
    ∧ covNum (colOf (transform ⟨[0, 1], 3, grandMeans (sens [0, 1] f2X) 2, f2β, 1⟩ f2X) 0)
        (colOf (sens [0, 1] f2X) 0) = 1/6 := by
  decide +kernel

/-! ### Non-vacuity: concrete inputs meeting the hypotheses -/

/-- the same data, per-column centring: β = [[1],[0]] solves the normal equations -/
def okβ : Mat := [[1], [0]]
example : fitMean [0, 1] f2X = [1/3, 2/3] := by decide +kernel
example : isLstsq (center (sens [0, 1] f2X) (fitMean [0, 1] f2X)) (nonSens [0, 1] 3 f2X) okβ 2 1 = true := by
  decide +kernel
example : transform (fitted [0, 1] 3 f2X okβ 1) f2X = [[1/3], [1/3], [1/3]] := by decide +kernel
example : transform (fitted [0, 1] 3 f2X okβ (1/2)) f2X = [[1/6], [1/6], [2/3]] := by decide +kernel
/-- collinear (duplicated) sensitive columns: two different β both satisfy the hypothesis -/
def dupX : Mat := [[0, 0, 1], [1, 1, 3], [2, 2, 2]]
example : isLstsq (center (sens [0, 1] dupX) (fitMean [0, 1] dupX)) (nonSens [0, 1] 3 dupX) [[1/2], [0]] 2 1 = true
    ∧ isLstsq (center (sens [0, 1] dupX) (fitMean [0, 1] dupX)) (nonSens [0, 1] 3 dupX) [[1/4], [1/4]] 2 1 = true := by
  decide +kernel
/-- ... and the duplicated columns are NOT independent: d = (1, -1) is in the kernel of the centred block, so by
    `normal_equations_unique_iff` the coefficients cannot be unique (the two solutions above) -/
example : ∀ i, i < 3 → lin (ent (center (sens [0, 1] dupX) (fitMean [0, 1] dupX))) 2 (fun q => if q = 0 then 1 else -1) i = 0 := by
  intro i hi
  have : i = 0 ∨ i = 1 ∨ i = 2 := by omega
  rcases this with rfl | rfl | rfl <;> (simp [lin, Finset.sum_range_succ]; decide +kernel)
/-- ids given in non-increasing order: the kept columns still come out in their original order -/
example : nonSensIdx [3, 0] 5 = [1, 2, 4] := by decide +kernel
/-- the two different solutions for the duplicated columns give the same output (instance of `output_independent_of_solution`) -/
example : transform (fitted [0, 1] 3 dupX [[1/2], [0]] 1) dupX = transform (fitted [0, 1] 3 dupX [[1/4], [1/4]] 1) dupX := by
  decide +kernel
example : CorrL.keptIdx [3, 0] 5 = [1, 2, 4] := by decide +kernel
example : CorrRemoverSrc.sensitiveIdx (CorrRemoverSrc.lookupDataFrame [7, 5, 9]) [9, 7] = [2, 0] := by decide +kernel
example : CorrL.isLstsqSrc [0, 1] 3 f2X okβ = true := by decide +kernel
example : CorrL.transformSrc ⟨[0, 1], 3, CorrL.fitMeanSrc [0, 1] f2X, okβ, 1/2⟩ f2X = [[1/6], [1/6], [2/3]] := by decide +kernel

/-! ### review R2: a NON-DEGENERATE witness for all hypotheses of `uncorrelated`, `uncorrelated_two_rows`, `cov_alpha`,
`lstsq_minimises` at once: 4 rows, ids given in non-increasing order [2, 0], two kept columns, the input IS correlated
with the sensitive columns (covariance numerators 1, −2, −1, −2), the output columns are not constant. -/
def r2X : Mat := [[1, 2, 0, 1], [2, 1, 1, 3], [0, 4, 1, 2], [3, 3, 2, 0]]
def r2β : Mat := [[3/2, -1/6], [-1, -1/3]]
example : 2 ≤ r2X.length ∧
    isLstsq (center (sens [2, 0] r2X) (fitMean [2, 0] r2X)) (nonSens [2, 0] 4 r2X) r2β
      ([2, 0] : List Nat).length (nonSensIdx [2, 0] 4).length = true ∧
    (nonSensIdx [2, 0] 4).length = 2 ∧ ([2, 0] : List Nat).length = 2 ∧ fitMean [2, 0] r2X = [1, 3/2] := by
  decide +kernel
/-- the input is correlated with both sensitive columns … -/
example : covNum (colOf (nonSens [2, 0] 4 r2X) 0) (colOf (sens [2, 0] r2X) 0) = 1 ∧
    covNum (colOf (nonSens [2, 0] 4 r2X) 0) (colOf (sens [2, 0] r2X) 1) = -2 ∧
    covNum (colOf (nonSens [2, 0] 4 r2X) 1) (colOf (sens [2, 0] r2X) 0) = -1 := by decide +kernel
/-- … the alpha = 1 output is not constant and is uncorrelated; alpha = 1/2 keeps exactly half (`cov_alpha`) -/
example : transform (fitted [2, 0] 4 r2X r2β 1) r2X = [[3, 2/3], [3/2, 19/6], [5/2, 3/2], [3, 2/3]] ∧
    covNum (colOf (transform (fitted [2, 0] 4 r2X r2β 1) r2X) 0) (colOf (sens [2, 0] r2X) 0) = 0 ∧
    covNum (colOf (transform (fitted [2, 0] 4 r2X r2β 1) r2X) 1) (colOf (sens [2, 0] r2X) 1) = 0 ∧
    transform (fitted [2, 0] 4 r2X r2β (1/2)) r2X = [[5/2, 5/6], [5/4, 37/12], [13/4, 7/4], [3, 1/3]] ∧
    covNum (colOf (transform (fitted [2, 0] 4 r2X r2β (1/2)) r2X) 0) (colOf (sens [2, 0] r2X) 0) = 1/2 := by
  decide +kernel
/-- `transform_entry` / `transform_affine` hypothesis `mean.length = ids.length` holds for every fitted state -/
example : (fitted [2, 0] 4 r2X r2β 1).mean.length = (fitted [2, 0] 4 r2X r2β 1).ids.length := by decide +kernel
/-- `cov_eq_zero_iff` is not vacuous and its guard is needed: two rows, non-zero covariance -/
example : cov [0, 1] [0, 2] = 1 ∧ covNum [0, 1] [0, 2] = 1 ∧ cov [5] [7] = 0 := by decide +kernel

end C15
