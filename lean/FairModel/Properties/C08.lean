/-
C08 — ExponentiatedGradient meets the saddle-point guarantees certified by best_gap_.
Property theorems only; helper lemmas live in `Lemmas/Saddle.lean`; the model is `Model/Saddle.lean`,
whose closed expressions (`gapOf`, `lHigh`, `keep`, `breakCond`, `pickLast`, `_PRECISION`, `_MIN_ITER`)
are regenerated from the Python source into `Generated/EGGen.lean` on every run.

Clauses of the property and where they are stated (all over `Rat`, any table size):
  * "g is at least the true duality gap of Q against the recorded multiplier"
        gap_ge_true_gap (the gap `eval_gap` computes from ANY candidate set that contains a true best
        response equals/bounds the gap over the whole class), project_preserves_best_response,
        project_nonneg, project_l1_le (the vector `_eval` really uses is the projected one)
  * "hence error(Q) <= min{error(Q') : Q' feasible} + 2 g"            saddle_error
  * "every constraint exceeds its bound by at most (1 + 2 g)/B"        saddle_violation
  * L_high is the lambda-player's best response value                   lHigh_is_max
  * "whenever fitting stops before max_iter iterations, best_gap_ < nu" early_stop_lt_nu, best_iter_spec

Extension (same namespace, sections below), all for every run length and ANY oracle answers:
  * the MAIN LOOP as a state machine (Model/EGLoop.lean over Generated/EGLoopGen.lean)
        loop_lambda_bounds, loop_lambdaEG_bounds (lambda_t, lambda_EG >= 0, L1 < B, from positivity of exp only),
        loop_QEG_prob, loop_Q_prob, loop_weights_prob, loop_weights_padded_prob ("weights_ ... a probability vector"),
        loop_eta_formula, loop_eta_nonincreasing, loop_iterations, loop_lengths, loop_oracle_calls,
        loop_early_stop (the early-stop clause for the modelled loop itself)
  * the two LPs of solve_linprog (Model/LinProg.lean over Generated/LinProgGen.lean)
        lp_feasible_iff, lp_feasible_iff_distribution, lp_objective, lp_objective_ge_lagr, lp_lHigh_feasible,
        lp_objective_ge_lHigh, dual_feasible_iff, dual_objective, lp_weak_duality, lp_gap_zero_optimal
  * the certificate `eval_gap` computes ([1,2,5,10] loop, early break, best_h cache), in the property's words
        evalGap_gap_le_classGap (ANY class-member oracle: reported gap <= true gap),
        evalGap_Llow_le_class / classGap_le_evalGap_gap (exact oracle at mul = 1: true gap <= reported gap + _PRECISION),
        precision_slack_needed (the slack cannot be dropped), evalGap_guarantees, evalGap_saddle_point,
        loop_certificate, loop_guarantees, loop_guarantees_end_to_end (the two guarantees for the OUTPUT of the loop),
        best_h_store, best_h_returned (cache), project_raises_L (the project_lambda step of _eval)
  * (review L1) the fragments that used to be hard-coded are now LIFTED and consumed by the model functions: the `L`
        expression and `max_constraint` of `_eval` (`Saddle.lagr`, `viol`, `maxViol`), the `L_low` update test (`updLow`),
        the projection order of `_eval` and the body of `project_lambda` (`projLam`, `Saddle.project`), `idxmin` (`argminFrom`),
        `lambda_EG`'s mean (`meanCols`), `last_gap = inf` (`initState`), `weights_ = Qs[best_iter_]` (`weightsOf`) and the
        data-flow fact that `Qs` holds a fresh object per iteration (`storeQ`).  Section (3d): eval_L_lifted,
        eval_max_constraint_lifted, eval_gap_low_update_lifted, eval_projection_lifted, best_h_scan_lifted, lambda_EG_lifted,
        last_gap_init_lifted, qs_entries_are_snapshots, weights_are_certified_iterate, vec_padTo, loop_guarantees_weights
        (the certificate for the attribute `weights_` itself)

CLAUSE → THEOREM TABLE (review R2; property text of properties.jsonl, clause by clause)
  0 premise "exact cost-sensitive learner over a finite hypothesis class; constrained problem feasible"
        the class is a `Table` (any finite size); exactness = hypothesis `hbest` (gap_ge_true_gap) / `hexact`
        (evalGap_*, loop_guarantees*: ONE call, the one at mul = 1 of the certifying eval_gap); feasibility = the
        universally quantified `Feasible TC Q'` (no feasible Q' ⇒ min over the empty set, nothing to prove)
  1 "the fitted randomised classifier Q (weights_ over predictors_, a probability vector)"
        loop_QEG_prob (EG iterates, unconditional), loop_Q_prob / loop_weights_prob / loop_weights_padded_prob
        (conditional on every LP answer being a probability vector = primal feasibility, lp_feasible_iff_distribution;
        scipy.linprog is trusted for that and re-checked per call by the harness)
  2 "g = best_gap_ is at least the true duality gap of Q against the multiplier recorded for the returned iteration"
        gap_ge_true_gap (no-cache reading), evalGap_gap_le_classGap (reported ≤ true, any oracle),
        classGap_le_evalGap_gap (true ≤ reported + _PRECISION, exact call at mul = 1), loop_certificate.
        AS WRITTEN THE CLAUSE IS FALSE OF THE CODE by up to _PRECISION = 1e-8: precision_slack_needed (witness: the
        `best_h` cache returns a stored classifier when the oracle's answer improves by less than _PRECISION).
        Every downstream bound therefore carries `+ _PRECISION`; the harness compares with tolerance ≥ _PRECISION.
  3 "hence error(Q) <= min{error(Q') : Q' feasible} + 2 g"
        saddle_error (from a true-gap bound), evalGap_guarantees / loop_guarantees / loop_guarantees_end_to_end /
        loop_guarantees_explicit (for the OUTPUT of the loop: `+ 2 g + _PRECISION`)
  4 "every constraint value gamma_j(Q) exceeds its bound by at most (1 + 2 g)/B"
        saddle_violation (+ errQ_unit_interval for its two side conditions), same loop theorems (`(1 + 2 g + _PRECISION)/B`)
  5 "for every parity moment with difference or ratio bounds"
        the moment enters only through the table (gamma columns, bounds) and the flag `ratioOne` (project_lambda is the
        identity unless ratio = 1: `projectIf`); `AntiSym` is REQUIRED only when ratioOne (project_preserves_best_response,
        project_raises_L); C08X.momentTable instantiates the table with the C06 moments
  6 "with or without the linear-programming step and for every iteration budget"
        `Params.runLP`, `Params.maxIter` are universally quantified in every loop_* theorem
  7 "whenever fitting stops before max_iter iterations, best_gap_ is below nu"
        early_stop_lt_nu (selection model), loop_early_stop (the modelled loop itself), best_iter_spec
  review additions: loop_guarantees_explicit (the certifying call is NAMED, so its exactness hypothesis can be checked),
  `r2_*` = a non-trivial input meeting ALL hypotheses of the loop guarantees at once (2 stored classifiers, mixed weights_).

TOTALISATION NOTES (review R2)
  * `gaps.getD b 0`, `qs.getD b []`, `certs.getD b default`: always under `bestIterOf … = some b`, which gives
    `b < gaps.length = qs.length = certs.length` (bestIter_spec, Inv.len_qs, CertInv.gaps_eq).
  * `meanCols` divides by the number of columns (≥ 1: the current multiplier is appended first); `normalise` divides by
    `Qsum.sum()` ≥ 1 after `bump`; `lamOf` divides by `1 + Σ e(θ)` > 0 under `LoopHyp.e_pos` — all covered by `Inv`.
  * `X.c.length / 2` (Nat division) is only used when `ratioOne`; `AntiSym` then demands `c.length = 2·(c.length/2)`,
    the driver refuses odd lengths (`bad-op`).
  * the driver's exp table lookup defaults to 0 (NOT positive): the op answers `stuck exp-table` instead of a value
    whenever a θ outside the supplied table is needed, so `LoopHyp.e_pos` is never silently violated.
  * `saddle_violation` divides by B: guarded by `0 < B`;  `EGGen.boundB eps = 1/eps`: `eg_slack_with_code_B` asks `0 < eps`
    (eps = 0 makes fairlearn raise ZeroDivisionError in `fit`: outside the quantifier).
-/
import FairModel.Lemmas.Saddle
import FairModel.Lemmas.EGLoop
import FairModel.Lemmas.LinProg
import FairModel.Lemmas.EGCert

namespace C08
open Saddle Finset

/-- `Q'` is a probability vector over the class that meets every constraint. -/
structure Feasible (T : Table) (Q' : Nat → Rat) : Prop where
  sum_one : ∑ i ∈ range T.nH, Q' i = 1
  nonneg : ∀ i < T.nH, 0 ≤ Q' i
  meets : ∀ j < T.nC, gamQ T Q' j ≤ T.c j

theorem gap_parts {T : Table} {B g : Rat} {Q lam : Nat → Rat} {cands : List Nat}
    (h : gap T B Q lam cands ≤ g) :
    lagr T Q lam - lLow T Q lam cands ≤ g ∧ lHigh T B Q - lagr T Q lam ≤ g := by
  unfold gap EGGen.gapOf at h
  exact max2_le h

/-- a feasible mixture has Lagrangian value at most its error, for non-negative multipliers -/
theorem lagr_feasible_le (T : Table) (lam Q' : Nat → Rat) (hl : ∀ j < T.nC, 0 ≤ lam j)
    (hf : ∀ j < T.nC, gamQ T Q' j ≤ T.c j) : lagr T Q' lam ≤ errQ T Q' := by
  rw [lagr_def, sumTo_eq]
  have : ∑ j ∈ range T.nC, lam j * viol T Q' j ≤ 0 := by
    apply Finset.sum_nonpos
    intro j hj
    have hj' := Finset.mem_range.mp hj
    have h1 := hl j hj'
    have h2 : viol T Q' j ≤ 0 := by rw [viol_def]; linarith [hf j hj']
    exact mul_nonpos_of_nonneg_of_nonpos h1 h2
  linarith

/-- **Error guarantee.**  If the duality gap of `(Q, λ̂)` over the whole class is at most `g`,
    `λ̂ ≥ 0`, and `Q'` is any feasible distribution over the class, then
    `error(Q) ≤ error(Q') + 2 g`.  (`Q` itself may be any weight vector.) -/
theorem saddle_error (T : Table) (B g : Rat) (Q lam Q' : Nat → Rat) (hB : 0 ≤ B)
    (hgap : trueGap T B Q lam ≤ g) (hl : ∀ j < T.nC, 0 ≤ lam j) (hf : Feasible T Q') :
    errQ T Q ≤ errQ T Q' + 2 * g := by
  obtain ⟨h1, h2⟩ := gap_parts hgap
  have h3 := lLow_le_mix T Q lam Q' hf.sum_one hf.nonneg
  have h4 := lagr_feasible_le T lam Q' hl hf.meets
  have h5 := (lHigh_ge T B hB Q).1
  linarith

/-- **Constraint guarantee.**  Under the same hypotheses, with `B > 0`, `error(Q) ≥ 0` and
    `error(Q') ≤ 1`, every constraint value of `Q` exceeds its bound by at most `(1 + 2 g)/B`. -/
theorem saddle_violation (T : Table) (B g : Rat) (Q lam Q' : Nat → Rat) (hB : 0 < B)
    (hgap : trueGap T B Q lam ≤ g) (hl : ∀ j < T.nC, 0 ≤ lam j) (hf : Feasible T Q')
    (he0 : 0 ≤ errQ T Q) (he1 : errQ T Q' ≤ 1) :
    ∀ j < T.nC, gamQ T Q j - T.c j ≤ (1 + 2 * g) / B := by
  intro j hj
  obtain ⟨h1, h2⟩ := gap_parts hgap
  have h3 := lLow_le_mix T Q lam Q' hf.sum_one hf.nonneg
  have h4 := lagr_feasible_le T lam Q' hl hf.meets
  have h5 := (lHigh_ge T B (le_of_lt hB) Q).2 j hj
  rw [le_div_iff₀ hB]
  rw [viol_def] at h5
  linarith

/-- errors in [0,1] per hypothesis give an error in [0,1] for every distribution -/
theorem errQ_unit_interval (T : Table) (Q : Nat → Rat) (he : ∀ i < T.nH, 0 ≤ T.err i ∧ T.err i ≤ 1)
    (hs : ∑ i ∈ range T.nH, Q i = 1) (hq : ∀ i < T.nH, 0 ≤ Q i) : 0 ≤ errQ T Q ∧ errQ T Q ≤ 1 := by
  rw [errQ, sumTo_eq]
  constructor
  · apply Finset.sum_nonneg
    intro i hi
    have hi' := Finset.mem_range.mp hi
    exact mul_nonneg (hq i hi') (he i hi').1
  · rw [← hs]
    apply Finset.sum_le_sum
    intro i hi
    have hi' := Finset.mem_range.mp hi
    have := mul_le_mul_of_nonneg_left (he i hi').2 (hq i hi')
    linarith

/-- `L_high` is the value of the multiplier player's best response: `L(Q, λ) ≤ L_high` for every
    `λ ≥ 0` with `‖λ‖₁ ≤ B` (so `gap ≤ g` makes `(Q, λ̂)` a `g`-approximate saddle point). -/
theorem lHigh_is_max (T : Table) (B : Rat) (Q lam : Nat → Rat)
    (hl : ∀ j < T.nC, 0 ≤ lam j) (hB : ∑ j ∈ range T.nC, lam j ≤ B) : lagr T Q lam ≤ lHigh T B Q :=
  lagr_le_lHigh T B Q lam hl hB

theorem gap_nonneg (T : Table) (B : Rat) (Q lam : Nat → Rat) (cands : List Nat) :
    0 ≤ gap T B Q lam cands := by
  unfold gap EGGen.gapOf
  have := lLow_le_L T Q lam cands
  exact le_trans (by linarith) (max2_ge_left _ _)

/-- **Certificate.**  The gap `eval_gap` computes with ANY list of candidate best responses that
    contains a true best response `i*` to `λ̂` (an exact learner returns one) is at least the true
    duality gap over the whole class — so `best_gap_` never understates the gap. -/
theorem gap_ge_true_gap (T : Table) (B : Rat) (Q lam : Nat → Rat) (cands : List Nat) (istar : Nat)
    (hmem : istar ∈ cands) (hbest : ∀ i < T.nH, lPure T lam istar ≤ lPure T lam i) :
    trueGap T B Q lam ≤ gap T B Q lam cands := by
  have hlow : lLow T Q lam cands ≤ lLow T Q lam (List.range T.nH) := by
    apply le_foldMin
    · exact lLow_le_L T Q lam cands
    · intro i hi
      exact le_trans (lLow_le_pure T Q lam cands istar hmem) (hbest i (List.mem_range.mp hi))
  unfold trueGap gap EGGen.gapOf
  have h1 := max2_ge_left (lagr T Q lam - lLow T Q lam cands) (lHigh T B Q - lagr T Q lam)
  have h2 := max2_ge_right (lagr T Q lam - lLow T Q lam cands) (lHigh T B Q - lagr T Q lam)
  unfold EGGen.max2
  split
  · exact h2
  · exact le_trans (by linarith) h1

/-- with candidates inside the class the computed gap never exceeds the true gap either -/
theorem gap_le_true_gap (T : Table) (B : Rat) (Q lam : Nat → Rat) (cands : List Nat)
    (hsub : ∀ i ∈ cands, i < T.nH) : gap T B Q lam cands ≤ trueGap T B Q lam := by
  have hlow : lLow T Q lam (List.range T.nH) ≤ lLow T Q lam cands := by
    apply le_foldMin
    · exact lLow_le_L T Q lam _
    · intro i hi
      exact lLow_le_pure T Q lam _ i (List.mem_range.mpr (hsub i hi))
  unfold trueGap gap EGGen.gapOf
  have h1 := max2_ge_left (lagr T Q lam - lLow T Q lam (List.range T.nH)) (lHigh T B Q - lagr T Q lam)
  have h2 := max2_ge_right (lagr T Q lam - lLow T Q lam (List.range T.nH)) (lHigh T B Q - lagr T Q lam)
  unfold EGGen.max2
  split
  · exact h2
  · exact le_trans (by linarith) h1

/-- `_eval` replaces `λ̂` by `project_lambda λ̂`; when the `-` entries of every gamma vector are the
    negated `+` entries (UtilityParity, ratio 1) this changes `λ̂·γ(h)` for no `h`, so a best response
    to the recorded (unprojected) `λ̂` is a best response to the vector the gap is evaluated at. -/
theorem project_preserves_best_response (m : Nat) (lam gam : Nat → Rat)
    (hg : ∀ j < m, gam (m + j) = -gam j) :
    ∑ j ∈ range (m + m), project m lam j * gam j = ∑ j ∈ range (m + m), lam j * gam j :=
  project_dot m lam gam hg

theorem project_nonneg (m : Nat) (lam : Nat → Rat) (j : Nat) : 0 ≤ project m lam j :=
  Saddle.project_nonneg m lam j

theorem project_l1_le (m : Nat) (lam : Nat → Rat) (hl : ∀ j < m + m, 0 ≤ lam j) :
    ∑ j ∈ range (m + m), project m lam j ≤ ∑ j ∈ range (m + m), lam j :=
  Saddle.project_l1_le m lam hl

/-- `best_iter_`: in range, within `_PRECISION` of the smallest gap, and the last such iteration. -/
theorem best_iter_spec (gaps : List Rat) (i : Nat) (h : bestIter gaps = some i) :
    i < gaps.length ∧ gaps.getD i 0 ≤ minOf gaps + EGGen.precision ∧
    ∀ k < gaps.length, gaps.getD k 0 ≤ minOf gaps + EGGen.precision → k ≤ i := by
  obtain ⟨h1, h2, h3⟩ := bestIter_spec gaps i h
  refine ⟨h1, by simpa [EGGen.keep] using h2, ?_⟩
  intro k hk hle
  exact h3 k hk (by simpa [EGGen.keep] using hle)

/-- **Early stop.**  If the loop leaves before `max_iter` iterations, then at least `_MIN_ITER + 1`
    iterations ran and the gap of the returned iterate (`best_gap_`) is strictly below `nu` — including
    when the returned iterate is not the last one (the `_PRECISION` tie rule). -/
theorem early_stop_lt_nu (gapAt : Nat → Rat) (nu : Rat) (maxIter : Nat)
    (h : runLen gapAt nu maxIter < maxIter) :
    ∃ i, bestIter (recorded gapAt nu maxIter) = some i ∧
      (recorded gapAt nu maxIter).getD i 0 < nu ∧ EGGen.minIter < runLen gapAt nu maxIter := by
  unfold recorded
  unfold runLen at h ⊢
  cases hfind : (List.range maxIter).find? (fun t => EGGen.breakCond (gapAt t) nu t) with
  | none => rw [hfind] at h; simp at h
  | some t =>
    simp only []
    have hbc := List.find?_some hfind
    simp only [EGGen.breakCond, Bool.and_eq_true, decide_eq_true_eq] at hbc
    have hne : (List.range (t + 1)).map gapAt ≠ [] := by simp
    obtain ⟨i, hi⟩ := bestIter_isSome _ hne
    obtain ⟨h1, h2, h3⟩ := best_iter_spec _ i hi
    have hlen : ((List.range (t + 1)).map gapAt).length = t + 1 := by simp
    have hget : ∀ k, k < t + 1 → ((List.range (t + 1)).map gapAt).getD k 0 = gapAt k := by
      intro k hk
      rw [getD_of_lt _ _ (by rw [hlen]; exact hk)]; simp
    refine ⟨i, hi, ?_, by have := hbc.2; omega⟩
    rw [hlen] at h1 h3
    by_cases hk : gapAt t ≤ minOf ((List.range (t + 1)).map gapAt) + EGGen.precision
    · have := h3 t (by omega) (by rw [hget t (by omega)]; exact hk)
      have hit : i = t := by omega
      rw [hit, hget t (by omega)]; exact hbc.1
    · have h2' := h2
      rw [hget i h1] at h2' ⊢
      have := not_le.mp hk
      linarith [hbc.1]

/-! Non-vacuity: a concrete 2-hypothesis, 2-constraint table (h0 = accurate but unfair, h1 = fair). -/
def exT : Table := mkTable [0, 1/2] [[1/2, 0], [-1/2, 0]] [1/10, 1/10]
def exQ : Nat → Rat := vec [1/5, 4/5]
def exLam : Nat → Rat := vec [1, 0]

example : errQ exT exQ = 2/5 := by decide +kernel
example : lagr exT exQ exLam = 2/5 := by decide +kernel
example : lHigh exT 4 exQ = 2/5 := by decide +kernel
example : trueGap exT 4 exQ exLam = 0 := by decide +kernel
example : trueGap exT 4 (vec [1, 0]) exLam = 6/5 := by decide +kernel
example : Feasible exT exQ :=
  ⟨by decide +kernel, fun i hi => by
      have : i = 0 ∨ i = 1 := by have : i < 2 := hi; omega
      rcases this with rfl | rfl <;> decide +kernel,
    fun j hj => by
      have : j = 0 ∨ j = 1 := by have : j < 2 := hj; omega
      rcases this with rfl | rfl <;> decide +kernel⟩
example : bestIter [3, 1, 2, 1 + 1/200000000, 5] = some 3 := by decide +kernel
example : runLen (vec [9, 9, 9, 9, 9, 9, 1/2, 0]) 1 20 = 7 := by decide +kernel
example : runLen (vec [0, 0, 0, 0, 0, 0]) 1 4 = 4 := by decide +kernel
example : (project 1 (vec [3, 1])) 0 = 2 ∧ (project 1 (vec [3, 1])) 1 = 0 := by decide +kernel

/-! ## The main loop (`Model/EGLoop.lean`): theorems for EVERY run length and ANY oracle answers

`EGLoop.runN P O n` is the state after `n` passes through the body of `for t in range(0, self.max_iter)`
(`run` = `max_iter` passes); `O.h` answers the base-learner calls, `O.lp` the (non-cached) LP solves, `P.e` is the
exponential, of which only positivity is used.  The closed expressions are `Generated/EGLoopGen.lean`. -/
section Loop
open EGLoop

/-- standing assumptions on the parameters: `B = 1/eps > 0`, `eta0 >= 0`, and `e` (np.exp) positive -/
structure LoopHyp (P : Params) : Prop where
  B_pos : 0 < P.B
  e_pos : ∀ x, 0 < P.e x
  eta0_nonneg : 0 ≤ P.eta0

theorem etaInit_nonneg {P : Params} (h : LoopHyp P) : 0 ≤ EGLoopGen.etaInit P.eta0 P.B := by
  unfold EGLoopGen.etaInit
  exact div_nonneg h.eta0_nonneg (le_of_lt h.B_pos)

theorem loop_inv {P : Params} (O : Oracles) (h : LoopHyp P) (n : Nat) : Inv P O (runN P O n) :=
  inv_runN P O h.B_pos h.e_pos (etaInit_nonneg h) n

/-- **(a)** every column of `lambda_vecs_EG_` is non-negative with L1 norm strictly below `B`
    (uses only `0 < e`; the `1 +` of the denominator is what makes the bound strict). -/
theorem loop_lambda_bounds {P : Params} (O : Oracles) (h : LoopHyp P) (n : Nat) :
    ∀ v ∈ (runN P O n).lamCols, v.length = P.c.length ∧ (∀ x ∈ v, 0 ≤ x) ∧ v.sum < P.B :=
  (loop_inv O h n).lam_good

/-- **(b)** so is every running mean `lambda_EG` (the multiplier the EG certificate is evaluated at) -/
theorem loop_lambdaEG_bounds {P : Params} (O : Oracles) (h : LoopHyp P) (n : Nat) :
    ∀ v ∈ (runN P O n).lamEGs, v.length = P.c.length ∧ (∀ x ∈ v, 0 ≤ x) ∧ v.sum < P.B :=
  (loop_inv O h n).lamEG_good

/-- **(c, EG branch)** whenever the EG iterate was kept, `Qs[t] = Qsum / Qsum.sum()` is a probability vector —
    no assumption on the LP solver. -/
theorem loop_QEG_prob {P : Params} (O : Oracles) (h : LoopHyp P) (n : Nat) :
    ∀ p ∈ (runN P O n).fromLP.zip (runN P O n).qs, p.1 = false → IsProb p.2 :=
  (loop_inv O h n).qs_eg

/-- **(c)** if every LP answer is a probability vector (= primal feasibility of the LP's equality row and
    default bounds, `lp_feasible_iff` below), every entry of `Qs`, hence `weights_ = Qs[best_iter_]`, is one. -/
theorem loop_Q_prob {P : Params} (O : Oracles) (h : LoopHyp P) (n : Nat) (hlp : ∀ k, IsProb (O.lp k).Q) :
    ∀ q ∈ (runN P O n).qs, IsProb q :=
  (loop_inv O h n).qs_prob hlp

theorem loop_weights_prob {P : Params} (O : Oracles) (h : LoopHyp P) (hlp : ∀ k, IsProb (O.lp k).Q) (b : Nat)
    (hb : bestIterOf (run P O) = some b) : IsProb ((run P O).qs.getD b []) := by
  have hinv : Inv P O (run P O) := loop_inv O h P.maxIter
  have hlt : b < (run P O).qs.length := by
    rw [hinv.len_qs, ← hinv.len_gaps]; exact (bestIter_spec _ b hb).1
  rw [List.getD_eq_getElem?_getD, List.getElem?_eq_getElem hlt]
  exact loop_Q_prob O h P.maxIter hlp _ (List.getElem_mem hlt)

/-- **(c)** the fitted `weights_` (after the zero padding to every stored classifier) is a probability vector -/
theorem loop_weights_padded_prob {P : Params} (O : Oracles) (h : LoopHyp P) (hlp : ∀ k, IsProb (O.lp k).Q)
    (hne : bestIterOf (run P O) ≠ none) : IsProb (weightsOf (run P O)) := by
  unfold weightsOf
  cases hb : bestIterOf (run P O) with
  | none => exact absurd hb hne
  | some b => exact padTo_isProb _ _ (loop_weights_prob O h hlp b hb)

/-- **(d)** `eta = (eta0 / B) * 0.8^k`, `k` = number of shrink events ≤ number of regret checks ≤ `t` -/
theorem loop_eta_formula {P : Params} (O : Oracles) (h : LoopHyp P) (n : Nat) :
    (runN P O n).eta = EGLoopGen.etaInit P.eta0 P.B * EGGen.shrinkEta ^ (runN P O n).shrinks ∧
    (runN P O n).shrinks ≤ (runN P O n).checks ∧ (runN P O n).checks ≤ (runN P O n).t :=
  ⟨(loop_inv O h n).eta_eq, (loop_inv O h n).shrinks_le, (loop_inv O h n).checks_le⟩

/-- **(d)** the learning rates used by successive iterations never increase and never exceed `eta0 / B` -/
theorem loop_eta_nonincreasing {P : Params} (O : Oracles) (h : LoopHyp P) (n : Nat) :
    (runN P O n).etas.Pairwise (fun a b => b ≤ a) ∧
    ∀ x ∈ (runN P O n).etas, (runN P O n).eta ≤ x ∧ x ≤ EGLoopGen.etaInit P.eta0 P.B :=
  ⟨(loop_inv O h n).etas_mono, (loop_inv O h n).etas_hist⟩

/-- **(e)** at most `max_iter` iterations; `last_iter_ = len(Qs) - 1 = t - 1`; `best_iter_ ≤ last_iter_` -/
theorem loop_iterations {P : Params} (O : Oracles) (h : LoopHyp P) :
    (run P O).t ≤ P.maxIter ∧ lastIterOf (run P O) = ((run P O).t : Int) - 1 ∧
    ∀ b, bestIterOf (run P O) = some b → (b : Int) ≤ lastIterOf (run P O) := by
  have hinv : Inv P O (run P O) := loop_inv O h P.maxIter
  refine ⟨hinv.t_le, ?_, ?_⟩
  · unfold lastIterOf EGLoopGen.lastIter
    rw [hinv.len_qs]
  · intro b hb
    have := (bestIter_spec _ b hb).1
    unfold lastIterOf EGLoopGen.lastIter
    rw [hinv.len_qs, ← hinv.len_gaps]
    omega

/-- **(f)** the loop invariant `len(gaps) = len(Qs) = len(gaps_EG) = #columns of lambda_vecs_EG_ = t` -/
theorem loop_lengths {P : Params} (O : Oracles) (h : LoopHyp P) (n : Nat) :
    (runN P O n).gaps.length = (runN P O n).t ∧ (runN P O n).qs.length = (runN P O n).t ∧
    (runN P O n).gapsEG.length = (runN P O n).t ∧ (runN P O n).lamCols.length = (runN P O n).t ∧
    (runN P O n).t ≤ n := by
  have hinv := loop_inv O h n
  refine ⟨hinv.len_gaps, hinv.len_qs, hinv.len_gapsEG, hinv.len_lamCols, ?_⟩
  clear hinv
  induction n with
  | zero => exact Nat.le_refl _
  | succ n ih =>
    show (iter P O (runN P O n)).t ≤ n + 1
    cases hgo : ((runN P O n).done || decide (P.maxIter ≤ (runN P O n).t))
    · rw [iter_go P O _ hgo]
      show (runN P O n).t + 1 ≤ n + 1
      omega
    · rw [iter_stop P O _ hgo]; omega

/-- **(e')** `n_oracle_calls_ <= 9 * (last_iter_ + 1) <= 9 * max_iter` (one call of the loop body, at most four in each of
    the two `eval_gap` calls), and `len(predictors_) <= n_oracle_calls_` — for any oracle, no assumption at all. -/
theorem loop_oracle_calls (P : Params) (O : Oracles) :
    (run P O).calls ≤ 9 * (run P O).t ∧ (run P O).hs.length ≤ (run P O).calls := by
  have h := calls_runN P O P.maxIter
  have hm : EGGen.muls.length = 4 := by simp [EGGen.muls]
  rw [hm] at h
  exact h

/-- **Early stop, for the modelled loop itself**: if the run ends with fewer than `max_iter` iterations, the
    `break` was taken, more than `_MIN_ITER` iterations ran, and the gap of the RETURNED iterate (`best_gap_`) is
    strictly below `nu`. -/
theorem loop_early_stop {P : Params} (O : Oracles) (h : LoopHyp P) (hlt : (run P O).t < P.maxIter) :
    (run P O).done = true ∧ EGGen.minIter < (run P O).t ∧
    ∃ b, bestIterOf (run P O) = some b ∧ (run P O).gaps.getD b 0 < P.nu := by
  have hinv : Inv P O (run P O) := loop_inv O h P.maxIter
  have hd : (run P O).done = true := by
    cases hdn : (run P O).done
    · have := runN_t P O P.maxIter (Nat.le_refl _) hdn
      unfold run at hlt; omega
    · rfl
  obtain ⟨g, hg, hbc⟩ := hinv.done_spec hd
  simp only [EGGen.breakCond, Bool.and_eq_true, decide_eq_true_eq] at hbc
  refine ⟨hd, ?_, bestIter_lt_of_last_lt _ g P.nu hg hbc.1⟩
  have hpos : 0 < (run P O).t := by
    have : (run P O).gaps ≠ [] := by intro h0; rw [h0] at hg; simp at hg
    have := List.length_pos_iff.mpr this
    rw [hinv.len_gaps] at this; exact this
  have := hbc.2
  omega

end Loop

/-! ## The linear programmes of `solve_linprog` (`Model/LinProg.lean` over `Generated/LinProgGen.lean`)

`T` is the table of the classifiers found so far (`self.errors`, `self.gammas`, `bound()`), the primal variable is
`(Q, t)`, the dual variable `(lambda, mu)`. -/
section LP
open LinProg EGLoop

/-- **(2a)** primal feasibility, spelled out: `Q >= 0`, `t >= 0` (scipy's default bounds), the equality row says
    `sum Q = 1`, and inequality row `j` says `sum_i (gamma_j(h_i) - bound_j) Q_i - t <= 0`. -/
theorem lp_feasible_iff (T : Table) (Q : List Rat) (t : Rat) (hQ : Q.length = T.nH) :
    primalFeasible T (Q ++ [t]) = true ↔
      (∀ x ∈ Q, 0 ≤ x) ∧ 0 ≤ t ∧ Q.sum = 1 ∧
      ∀ j < T.nC, (∑ i ∈ range T.nH, (T.gam j i - T.c j) * vec Q i) - t ≤ 0 := by
  unfold primalFeasible rowsLe rowsEq
  rw [Aub_length, Aeq_eq, beq_eq]
  simp only [Bool.and_eq_true, decide_eq_true_eq, List.all_eq_true, List.mem_range, List.length_append,
    List.length_singleton, List.length_cons, List.length_nil, hQ, List.mem_append, List.mem_singleton]
  constructor
  · rintro ⟨⟨⟨_, hx⟩, hub⟩, heq⟩
    refine ⟨fun x hx' => hx x (Or.inl hx'), hx t (Or.inr rfl), ?_, ?_⟩
    · have := heq 0 (by omega)
      simp only [List.getD_cons_zero] at this
      rw [Aeq_dot T Q t hQ] at this
      exact this
    · intro j hj
      have := hub j hj
      rw [Aub_dot T Q t hQ j hj, bub_get] at this
      exact this
  · rintro ⟨hq, ht, hs, hv⟩
    refine ⟨⟨⟨trivial, ?_⟩, ?_⟩, ?_⟩
    · intro x hx
      rcases hx with hx | rfl
      · exact hq x hx
      · exact ht
    · intro j hj
      rw [Aub_dot T Q t hQ j hj, bub_get]
      exact hv j hj
    · intro j hj
      have : j = 0 := by omega
      subst this
      simp only [List.getD_cons_zero]
      rw [Aeq_dot T Q t hQ]
      exact hs

/-- **(2a)** ... which means exactly: `Q` is a distribution over the stored classifiers and `t` dominates `0` and
    every constraint violation of the mixture `Q`. -/
theorem lp_feasible_iff_distribution (T : Table) (Q : List Rat) (t : Rat) (hQ : Q.length = T.nH) :
    primalFeasible T (Q ++ [t]) = true ↔ IsProb Q ∧ 0 ≤ t ∧ ∀ j < T.nC, viol T (vec Q) j ≤ t := by
  rw [lp_feasible_iff T Q t hQ]
  constructor
  · rintro ⟨hq, ht, hs, hv⟩
    refine ⟨⟨hq, hs⟩, ht, fun j hj => ?_⟩
    have := hv j hj
    rw [row_sum_eq_viol T Q hQ hs j] at this
    linarith
  · rintro ⟨⟨hq, hs⟩, ht, hv⟩
    refine ⟨hq, ht, hs, fun j hj => ?_⟩
    rw [row_sum_eq_viol T Q hQ hs j]
    linarith [hv j hj]

/-- **(2a)** the objective is `error(Q) + B t` (`B` is the last cost entry) -/
theorem lp_objective (T : Table) (B : Rat) (Q : List Rat) (t : Rat) (hQ : Q.length = T.nH) :
    primalObj T B (Q ++ [t]) = errQ T (vec Q) + B * t := c_dot T B Q t hQ

/-- **(2a)** every feasible point's objective is at least `L(Q, lambda)` for EVERY `lambda >= 0` with `|lambda|_1 <= B` -/
theorem lp_objective_ge_lagr (T : Table) (B : Rat) (Q : List Rat) (t : Rat) (hQ : Q.length = T.nH)
    (hf : primalFeasible T (Q ++ [t]) = true) (lam : Nat → Rat) (hl : ∀ j < T.nC, 0 ≤ lam j)
    (hB : ∑ j ∈ range T.nC, lam j ≤ B) : lagr T (vec Q) lam ≤ primalObj T B (Q ++ [t]) := by
  obtain ⟨_, ht, hv⟩ := (lp_feasible_iff_distribution T Q t hQ).mp hf
  rw [lp_objective T B Q t hQ, lagr_def, sumTo_eq]
  have h1 : ∑ j ∈ range T.nC, lam j * viol T (vec Q) j ≤ ∑ j ∈ range T.nC, lam j * t := by
    apply Finset.sum_le_sum
    intro j hj
    have hj' := Finset.mem_range.mp hj
    exact mul_le_mul_of_nonneg_left (hv j hj') (hl j hj')
  rw [← Finset.sum_mul] at h1
  have h2 : (∑ j ∈ range T.nC, lam j) * t ≤ B * t := mul_le_mul_of_nonneg_right hB ht
  linarith

/-- the smallest feasible slack for a mixture: `max(0, max_j violation_j)` -/
def tStar (T : Table) (Q : Nat → Rat) : Rat := if maxViol T Q > 0 then maxViol T Q else 0

/-- **(2a)** for a distribution `Q` the point `(Q, max(0, max violation))` is feasible and its objective is `L_high(Q)`
    of the Saddle model — the value of the multiplier player's best response. -/
theorem lp_lHigh_feasible (T : Table) (B : Rat) (Q : List Rat) (hQ : Q.length = T.nH) (hp : IsProb Q) :
    primalFeasible T (Q ++ [tStar T (vec Q)]) = true ∧
    primalObj T B (Q ++ [tStar T (vec Q)]) = lHigh T B (vec Q) := by
  constructor
  · rw [lp_feasible_iff_distribution T Q _ hQ]
    refine ⟨hp, ?_, fun j hj => ?_⟩
    · unfold tStar; split
      · next h => exact le_of_lt h
      · exact le_refl _
    · have := viol_le_maxViol T (vec Q) j hj
      unfold tStar; split
      · exact this
      · next h => exact le_trans this (not_lt.mp h)
  · rw [lp_objective T B Q _ hQ]
    unfold lHigh EGGen.lHigh tStar
    by_cases h : maxViol T (vec Q) > 0
    · simp [h]
    · simp [h]

/-- **(2a)** and no feasible point with the same `Q` does better (at least one constraint, `B >= 0`): the primal
    optimum is `min_Q L_high(Q) = min_Q max_lambda L(Q, lambda)` over distributions on the stored classifiers. -/
theorem lp_objective_ge_lHigh (T : Table) (B : Rat) (Q : List Rat) (t : Rat) (hQ : Q.length = T.nH) (hB : 0 ≤ B)
    (hnC : 0 < T.nC) (hf : primalFeasible T (Q ++ [t]) = true) : lHigh T B (vec Q) ≤ primalObj T B (Q ++ [t]) := by
  obtain ⟨_, ht, hv⟩ := (lp_feasible_iff_distribution T Q t hQ).mp hf
  obtain ⟨j, hj, hm⟩ := maxViol_attained T (vec Q) hnC
  rw [lp_objective T B Q t hQ]
  unfold lHigh EGGen.lHigh
  split
  · have := hv j hj
    rw [← hm] at this
    nlinarith
  · nlinarith

/-- **(2b)** dual feasibility, spelled out: `lambda >= 0` (the bounds of the first `n_constraints` variables),
    `sum lambda <= B` (the row of the primal slack column), and the free variable `mu` is at most
    `err_i + sum_j lambda_j (gamma_j(h_i) - bound_j)` for every stored classifier `i` — it is a lower bound `L_low`. -/
theorem dual_feasible_iff (T : Table) (B : Rat) (lam : List Rat) (mu : Rat) (hl : lam.length = T.nC) :
    dualFeasible T B (lam ++ [mu]) = true ↔
      (∀ j < T.nC, 0 ≤ vec lam j) ∧ ∑ j ∈ range T.nC, vec lam j ≤ B ∧ ∀ i < T.nH, mu ≤ lPure T (vec lam) i := by
  have hrow_lo : ∀ i < T.nH, LinProg.dot ((dualA T).getD i []) (lam ++ [mu])
      = -(∑ j ∈ range T.nC, vec lam j * (T.gam j i - T.c j)) + mu := by
    intro i hi
    rw [dualA_row_lo T i hi, dot_append_single _ _ _ _ (by simp [hl]), dot_range_map, ← Finset.sum_neg_distrib]
    congr 1
    · apply Finset.sum_congr rfl
      intro j _; unfold vec; ring
    · ring
  have hrow_hi : LinProg.dot ((dualA T).getD T.nH []) (lam ++ [mu]) = ∑ j ∈ range T.nC, vec lam j := by
    rw [dualA_row_hi T, dot_append_single _ _ _ _ (by simp [hl]), dot_range_map]
    simp [vec]
  unfold dualFeasible rowsLe
  rw [dualA_length]
  simp only [Bool.and_eq_true, decide_eq_true_eq, List.all_eq_true, List.mem_range, List.length_append,
    List.length_singleton, hl, Bool.or_eq_true, LinProgGen.dualFree]
  constructor
  · rintro ⟨⟨_, hnn⟩, hrows⟩
    refine ⟨fun j hj => ?_, ?_, fun i hi => ?_⟩
    · rcases hnn j (by omega) with h | h
      · omega
      · rw [getD_append_single_lt lam mu j (by omega)] at h; exact h
    · have := hrows T.nH (by omega)
      rw [hrow_hi, dualB_get T B T.nH (le_refl _)] at this
      simpa using this
    · have := hrows i (by omega)
      rw [hrow_lo i hi, dualB_get T B i (by omega), if_pos hi] at this
      rw [lPure_eq T (vec lam) i hi]
      linarith
  · rintro ⟨hnn, hsum, hmu⟩
    refine ⟨⟨trivial, fun j hj => ?_⟩, fun i hi => ?_⟩
    · by_cases h : j = T.nC
      · left; exact h
      · right
        rw [getD_append_single_lt lam mu j (by omega)]
        exact hnn j (by omega)
    · by_cases h : i < T.nH
      · rw [hrow_lo i h, dualB_get T B i (by omega), if_pos h]
        have := hmu i h
        rw [lPure_eq T (vec lam) i h] at this
        linarith
      · have : i = T.nH := by omega
        subst this
        rw [hrow_hi, dualB_get T B T.nH (le_refl _)]
        simpa using hsum

/-- **(2b)** the code MINIMISES `dual_c . y = -mu` (`dual_c = (b_ub, -b_eq) = (0, ..., 0, -1)`), i.e. maximises `mu` -/
theorem dual_objective (T : Table) (lam : List Rat) (mu : Rat) (hl : lam.length = T.nC) :
    dualObj T (lam ++ [mu]) = -mu := by
  unfold dualObj
  rw [dualC_eq, dot_append_single _ _ _ _ (by simp [hl]), dot_replicate_zero]
  ring

/-- **(2b) weak duality for the generated pair**: any primal-feasible `(Q, t)` and dual-feasible `(lambda, mu)` satisfy
    `-(dual_c . y) = mu <= L(Q, lambda) <= c . x = error(Q) + B t`.  So the generated dual really is the LP dual of
    the generated primal, with the sign convention of the source. -/
theorem lp_weak_duality (T : Table) (B : Rat) (Q : List Rat) (t : Rat) (lam : List Rat) (mu : Rat)
    (hQ : Q.length = T.nH) (hl : lam.length = T.nC)
    (hp : primalFeasible T (Q ++ [t]) = true) (hd : dualFeasible T B (lam ++ [mu]) = true) :
    -(dualObj T (lam ++ [mu])) ≤ lagr T (vec Q) (vec lam) ∧
    lagr T (vec Q) (vec lam) ≤ primalObj T B (Q ++ [t]) := by
  obtain ⟨hnn, hsum, hmu⟩ := (dual_feasible_iff T B lam mu hl).mp hd
  obtain ⟨hprob, _, _⟩ := (lp_feasible_iff_distribution T Q t hQ).mp hp
  refine ⟨?_, lp_objective_ge_lagr T B Q t hQ hp (vec lam) hnn hsum⟩
  rw [dual_objective T lam mu hl, neg_neg]
  have hs : ∑ i ∈ range T.nH, vec Q i = 1 := by rw [← hQ, sum_vec]; exact hprob.2
  rw [lagr_mix T (vec Q) (vec lam) hs]
  have hq := (forall_mem_iff_vec Q).mp hprob.1
  calc mu = ∑ i ∈ range T.nH, vec Q i * mu := by rw [← Finset.sum_mul, hs, one_mul]
    _ ≤ ∑ i ∈ range T.nH, vec Q i * lPure T (vec lam) i := by
      apply Finset.sum_le_sum
      intro i hi
      have hi' := Finset.mem_range.mp hi
      exact mul_le_mul_of_nonneg_left (hmu i hi') (hq i (by omega))

/-- **(2c)** for a primal-feasible `Q` and dual-feasible `lambda` the duality gap of the Saddle model is `>= 0`, and
    if it is `0` then BOTH are optimal: no feasible primal point has a smaller objective than `(Q, t*)` and no
    feasible dual point a larger `mu` than `L(Q, lambda)`.  (The converse — both optimal implies gap `0` — is LP
    strong duality and is NOT proved here; the correspondence check observes `gap_LP` of every LP step.) -/
theorem lp_gap_zero_optimal (T : Table) (B : Rat) (Q lam : List Rat) (hQ : Q.length = T.nH)
    (hp : IsProb Q) (hnn : ∀ j < T.nC, 0 ≤ vec lam j) (hsum : ∑ j ∈ range T.nC, vec lam j ≤ B)
    (hgap : trueGap T B (vec Q) (vec lam) = 0) :
    (∀ (Q' : List Rat) (t' : Rat), Q'.length = T.nH → primalFeasible T (Q' ++ [t']) = true →
        primalObj T B (Q ++ [tStar T (vec Q)]) ≤ primalObj T B (Q' ++ [t'])) ∧
    (∀ (lam' : List Rat) (mu' : Rat), lam'.length = T.nC → dualFeasible T B (lam' ++ [mu']) = true →
        mu' ≤ lagr T (vec Q) (vec lam)) := by
  obtain ⟨h1, h2⟩ := gap_parts (le_of_eq hgap)
  have hhigh := lagr_le_lHigh T B (vec Q) (vec lam) hnn hsum
  have hlow := lLow_le_L T (vec Q) (vec lam) (List.range T.nH)
  have hHeq : lHigh T B (vec Q) = lagr T (vec Q) (vec lam) := by linarith
  have hLeq : lLow T (vec Q) (vec lam) (List.range T.nH) = lagr T (vec Q) (vec lam) := by linarith
  constructor
  · intro Q' t' hQ' hf'
    rw [(lp_lHigh_feasible T B Q hQ hp).2, hHeq, ← hLeq]
    obtain ⟨hprob', _, _⟩ := (lp_feasible_iff_distribution T Q' t' hQ').mp hf'
    have hs' : ∑ i ∈ range T.nH, vec Q' i = 1 := by rw [← hQ', sum_vec]; exact hprob'.2
    have hq' : ∀ i < T.nH, 0 ≤ vec Q' i := by
      intro i hi; exact (forall_mem_iff_vec Q').mp hprob'.1 i (by omega)
    exact le_trans (lLow_le_mix T (vec Q) (vec lam) (vec Q') hs' hq')
      (lp_objective_ge_lagr T B Q' t' hQ' hf' (vec lam) hnn hsum)
  · intro lam' mu' hl' hd'
    have hfeas := (lp_lHigh_feasible T B Q hQ hp).1
    have hw := lp_weak_duality T B Q (tStar T (vec Q)) lam' mu' hQ hl' hfeas hd'
    rw [dual_objective T lam' mu' hl', neg_neg] at hw
    have := le_trans hw.1 hw.2
    rw [(lp_lHigh_feasible T B Q hQ hp).2, hHeq] at this
    exact this

end LP

/-! ## The certificate computed by `eval_gap` (the `[1, 2, 5, 10]` loop with its early break), in the property's words

`TC` is the table of the WHOLE hypothesis class; the store `hs` and every oracle answer are members of it.
`evalGap X O hs k Q lamHat` is `eval_gap(Q, lambda_hat, nu)` run on the store `hs`, the oracle answering `O k, O (k+1), ...`. -/
section Cert
open EGLoop

/-- the smallest Lagrangian value over the class, capped by `L` (what `L_low` would be with every class member as candidate) -/
def classLow (TC : Table) (lamP : Nat → Rat) (L : Rat) : Rat :=
  (List.range TC.nH).foldl (fun acc i => if lPure TC lamP i < acc then lPure TC lamP i else acc) L

/-- the TRUE duality gap over the class of a pair whose `L`, `L_high` are given -/
def classGap (TC : Table) (lamP : Nat → Rat) (L Lhigh : Rat) : Rat := EGGen.gapOf L (classLow TC lamP L) Lhigh

theorem evalGap_fields (X : Ctx) (O : Nat → Hyp) (hs : List Hyp) (k : Nat) (Q lamHat : List Rat) :
    (evalGap X O hs k Q lamHat).2.2.L = lagr (tableOf X.c hs) (vec Q) (projLam X lamHat) ∧
    (evalGap X O hs k Q lamHat).2.2.Lhigh = lHigh (tableOf X.c hs) X.B (vec Q) ∧
    (evalGap X O hs k Q lamHat).2.2.Llow ≤ (evalGap X O hs k Q lamHat).2.2.L := by
  unfold evalGap
  obtain ⟨h1, h2, h3⟩ := evalLoop_fixed X O lamHat EGGen.muls hs k
    ⟨lagr (tableOf X.c hs) (vec Q) (projLam X lamHat), lagr (tableOf X.c hs) (vec Q) (projLam X lamHat),
      lHigh (tableOf X.c hs) X.B (vec Q)⟩
  exact ⟨h1, h2, by rw [h1]; exact h3⟩

theorem gapOf_mono_low (L a b H : Rat) (h : a ≤ b) : EGGen.gapOf L b H ≤ EGGen.gapOf L a H := by
  unfold EGGen.gapOf EGGen.max2
  split <;> split <;> linarith

/-- **(3a, any oracle)** whatever classifiers of the class the oracle answers with — exact or not —, the `L_low` of
    `eval_gap` is at least the true minimum over the class (capped by `L`), hence the REPORTED gap never exceeds the
    true duality gap of `(Q, lambda_hat)`: inexact oracles can only make the certificate optimistic, never pessimistic.
    (`hL`: `L` itself is at least the class minimum — true for every distribution `Q` over stored class members.) -/
theorem evalGap_gap_le_classGap (X : Ctx) (O : Nat → Hyp) (TC : Table) (hc : TC.nC = X.c.length) (hcc : TC.c = vec X.c)
    (hO : ∀ k, ∃ i, IsMember TC (O k) i) (hs : List Hyp) (hmem : Members TC hs) (k : Nat) (Q lamHat : List Rat) :
    (evalGap X O hs k Q lamHat).2.2.gap ≤
      classGap TC (projLam X lamHat) (evalGap X O hs k Q lamHat).2.2.L (evalGap X O hs k Q lamHat).2.2.Lhigh := by
  obtain ⟨hL, hH, _⟩ := evalGap_fields X O hs k Q lamHat
  have hlow : classLow TC (projLam X lamHat) (evalGap X O hs k Q lamHat).2.2.L ≤ (evalGap X O hs k Q lamHat).2.2.Llow := by
    have h := (evalLoop_members X O lamHat TC hc hcc hO
      (classLow TC (projLam X lamHat) (lagr (tableOf X.c hs) (vec Q) (projLam X lamHat)))
      (fun i hi => foldMin_le_mem _ _ _ i (List.mem_range.mpr hi)) EGGen.muls hs k
      ⟨lagr (tableOf X.c hs) (vec Q) (projLam X lamHat), lagr (tableOf X.c hs) (vec Q) (projLam X lamHat),
        lHigh (tableOf X.c hs) X.B (vec Q)⟩ hmem (foldMin_le_init _ _ _)).2
    rw [hL]
    exact h
  unfold GapRes.gap classGap
  exact gapOf_mono_low _ _ _ _ hlow

/-- **(3a, exact oracle at mul = 1)** this is the ONLY inequality that needs exactness: if the answer to the FIRST
    best-response call of `eval_gap` (the one at `1 * lambda_hat`) minimises `h_value` over the class, then `L_low` is at
    most the class minimum PLUS `_PRECISION` — `best_h` returns a stored classifier instead of the oracle's answer
    whenever the improvement is below `_PRECISION` — so the true gap is at most the reported gap plus `_PRECISION`.
    The later multipliers `2, 5, 10` and the early break play no role. -/
theorem evalGap_Llow_le_class (X : Ctx) (O : Nat → Hyp) (TC : Table) (hc : TC.nC = X.c.length) (hcc : TC.c = vec X.c)
    (ha : AntiSym X TC) (hs : List Hyp) (hmem : Members TC hs) (k : Nat) (Q lamHat : List Rat)
    (hOk : ∃ i, IsMember TC (O k) i) (hexact : ∀ i < TC.nH, storedValue lamHat (O k) ≤ classValue TC lamHat i) :
    ∀ i < TC.nH, (evalGap X O hs k Q lamHat).2.2.Llow ≤ lPure TC (projLam X lamHat) i + EGGen.precision := by
  intro i hi
  have hmuls : EGGen.muls = 1 :: EGGen.muls.tail := by simp [EGGen.muls]
  unfold evalGap
  rw [hmuls]
  refine le_trans (evalLoop_first X O lamHat 1 _ hs k _) ?_
  rw [map_one_mul]
  have hidx := bestH_idx_lt hs lamHat (O k)
  have hmem' := bestH_members TC hs lamHat (O k) hmem hOk
  obtain ⟨r, hr⟩ := hmem' _ (getD_mem _ _ hidx)
  have h1 : lagr (tableOf X.c (bestH hs lamHat (O k)).1) (unit (bestH hs lamHat (O k)).2) (projLam X lamHat)
      = lPure TC (projLam X lamHat) r := lPure_member TC X.c hc hcc _ (projLam X lamHat) _ hidx r hr
  rw [h1, lPure_as_value X TC hc ha lamHat r hr.1, lPure_as_value X TC hc ha lamHat i hi,
    ← storedValue_member TC _ r hr lamHat]
  have := (bestH_value hs lamHat (O k)).1
  linarith [hexact i hi]

theorem classLow_ge (TC : Table) (lamP : Nat → Rat) (L m : Rat) (h1 : m ≤ L) (h2 : ∀ i < TC.nH, m ≤ lPure TC lamP i) :
    m ≤ classLow TC lamP L :=
  le_foldMin _ m _ L h1 (fun i hi => h2 i (List.mem_range.mp hi))

/-- **(3a)** ... hence with an exact oracle at `mul = 1`: `true gap <= reported gap + _PRECISION`. -/
theorem classGap_le_evalGap_gap (X : Ctx) (O : Nat → Hyp) (TC : Table) (hc : TC.nC = X.c.length) (hcc : TC.c = vec X.c)
    (ha : AntiSym X TC) (hs : List Hyp) (hmem : Members TC hs) (k : Nat) (Q lamHat : List Rat)
    (hOk : ∃ i, IsMember TC (O k) i) (hexact : ∀ i < TC.nH, storedValue lamHat (O k) ≤ classValue TC lamHat i) :
    classGap TC (projLam X lamHat) (evalGap X O hs k Q lamHat).2.2.L (evalGap X O hs k Q lamHat).2.2.Lhigh
      ≤ (evalGap X O hs k Q lamHat).2.2.gap + EGGen.precision := by
  have hprec : (0 : Rat) ≤ EGGen.precision := by norm_num [EGGen.precision]
  have hle := evalGap_Llow_le_class X O TC hc hcc ha hs hmem k Q lamHat hOk hexact
  obtain ⟨_, _, hlowL⟩ := evalGap_fields X O hs k Q lamHat
  have hcl : (evalGap X O hs k Q lamHat).2.2.Llow - EGGen.precision
      ≤ classLow TC (projLam X lamHat) (evalGap X O hs k Q lamHat).2.2.L :=
    classLow_ge TC _ _ _ (by linarith) (fun i hi => by linarith [hle i hi])
  unfold classGap GapRes.gap EGGen.gapOf EGGen.max2
  split <;> split <;> linarith

/-- **(3b) the two guarantees, stated for the OUTPUT of `eval_gap`** (any store of class members, any `Q`, any
    `lambda_hat` whose projected version is non-negative, exact oracle at `mul = 1`): with `g` the reported gap,
    `error(Q) <= error(Q*) + 2 g + _PRECISION` for every feasible distribution `Q*` over the class, and every constraint
    of `Q` exceeds its bound by at most `(1 + 2 g + _PRECISION)/B`. -/
theorem evalGap_guarantees (X : Ctx) (O : Nat → Hyp) (TC : Table) (hc : TC.nC = X.c.length) (hcc : TC.c = vec X.c)
    (ha : AntiSym X TC) (hs : List Hyp) (hmem : Members TC hs) (k : Nat) (Q lamHat : List Rat)
    (hOk : ∃ i, IsMember TC (O k) i) (hexact : ∀ i < TC.nH, storedValue lamHat (O k) ≤ classValue TC lamHat i)
    (hB : 0 < X.B) (hlam : ∀ j < TC.nC, 0 ≤ projLam X lamHat j) (Q' : Nat → Rat) (hf : Feasible TC Q') :
    errQ (tableOf X.c hs) (vec Q) ≤ errQ TC Q' + 2 * (evalGap X O hs k Q lamHat).2.2.gap + EGGen.precision ∧
    (0 ≤ errQ (tableOf X.c hs) (vec Q) → errQ TC Q' ≤ 1 → ∀ j < X.c.length,
      gamQ (tableOf X.c hs) (vec Q) j - vec X.c j
        ≤ (1 + 2 * (evalGap X O hs k Q lamHat).2.2.gap + EGGen.precision) / X.B) := by
  obtain ⟨hL, hH, _⟩ := evalGap_fields X O hs k Q lamHat
  have hle := evalGap_Llow_le_class X O TC hc hcc ha hs hmem k Q lamHat hOk hexact
  have hg : (evalGap X O hs k Q lamHat).2.2.L - (evalGap X O hs k Q lamHat).2.2.Llow ≤ (evalGap X O hs k Q lamHat).2.2.gap ∧
      (evalGap X O hs k Q lamHat).2.2.Lhigh - (evalGap X O hs k Q lamHat).2.2.L ≤ (evalGap X O hs k Q lamHat).2.2.gap := by
    unfold GapRes.gap EGGen.gapOf
    exact ⟨max2_ge_left _ _, max2_ge_right _ _⟩
  -- L_low - precision is below the Lagrangian of every mixture over the class, in particular of Q'
  have hmix : (evalGap X O hs k Q lamHat).2.2.Llow - EGGen.precision ≤ lagr TC Q' (projLam X lamHat) := by
    rw [lagr_mix TC Q' _ hf.sum_one]
    calc (evalGap X O hs k Q lamHat).2.2.Llow - EGGen.precision
        = ∑ i ∈ range TC.nH, Q' i * ((evalGap X O hs k Q lamHat).2.2.Llow - EGGen.precision) := by
          rw [← Finset.sum_mul, hf.sum_one, one_mul]
      _ ≤ ∑ i ∈ range TC.nH, Q' i * lPure TC (projLam X lamHat) i := by
          apply Finset.sum_le_sum
          intro i hi
          have hi' := Finset.mem_range.mp hi
          exact mul_le_mul_of_nonneg_left (by linarith [hle i hi']) (hf.nonneg i hi')
  have hfe := lagr_feasible_le TC (projLam X lamHat) Q' hlam hf.meets
  have hhigh := lHigh_ge (tableOf X.c hs) X.B (le_of_lt hB) (vec Q)
  rw [← hH] at hhigh
  constructor
  · linarith [hhigh.1]
  · intro he0 he1 j hj
    have := hhigh.2 j hj
    rw [le_div_iff₀ hB]
    rw [viol_def] at this
    have hcj : (tableOf X.c hs).c j = vec X.c j := rfl
    rw [hcj] at this
    linarith

/-- **The saddle-point statement itself** (Agarwal et al. 2018, Theorem 1, for what `eval_gap` certifies): with
    `g` the reported gap and `lambda^ = project(lambda_hat)` the multiplier the gap is evaluated at,
    (i) no multiplier `lambda >= 0` with `|lambda|_1 <= B` raises the Lagrangian of `Q` above `L(Q, lambda^) + g`
        — needs nothing about the oracle —, and
    (ii) no distribution `Q'` over the class lowers it below `L(Q, lambda^) - g - _PRECISION`
        — needs class-member answers and exactness of the one call at `mul = 1`. -/
theorem evalGap_saddle_point (X : Ctx) (O : Nat → Hyp) (TC : Table) (hc : TC.nC = X.c.length) (hcc : TC.c = vec X.c)
    (ha : AntiSym X TC) (hs : List Hyp) (hmem : Members TC hs) (k : Nat) (Q lamHat : List Rat)
    (hOk : ∃ i, IsMember TC (O k) i) (hexact : ∀ i < TC.nH, storedValue lamHat (O k) ≤ classValue TC lamHat i) :
    (∀ lam : Nat → Rat, (∀ j < X.c.length, 0 ≤ lam j) → ∑ j ∈ range X.c.length, lam j ≤ X.B →
      lagr (tableOf X.c hs) (vec Q) lam
        ≤ lagr (tableOf X.c hs) (vec Q) (projLam X lamHat) + (evalGap X O hs k Q lamHat).2.2.gap) ∧
    (∀ Q' : Nat → Rat, ∑ i ∈ range TC.nH, Q' i = 1 → (∀ i < TC.nH, 0 ≤ Q' i) →
      lagr (tableOf X.c hs) (vec Q) (projLam X lamHat) - (evalGap X O hs k Q lamHat).2.2.gap - EGGen.precision
        ≤ lagr TC Q' (projLam X lamHat)) := by
  obtain ⟨hL, hH, _⟩ := evalGap_fields X O hs k Q lamHat
  have hle := evalGap_Llow_le_class X O TC hc hcc ha hs hmem k Q lamHat hOk hexact
  have hg : (evalGap X O hs k Q lamHat).2.2.L - (evalGap X O hs k Q lamHat).2.2.Llow ≤ (evalGap X O hs k Q lamHat).2.2.gap ∧
      (evalGap X O hs k Q lamHat).2.2.Lhigh - (evalGap X O hs k Q lamHat).2.2.L ≤ (evalGap X O hs k Q lamHat).2.2.gap := by
    unfold GapRes.gap EGGen.gapOf
    exact ⟨max2_ge_left _ _, max2_ge_right _ _⟩
  constructor
  · intro lam hl hB
    have := lagr_le_lHigh (tableOf X.c hs) X.B (vec Q) lam hl hB
    rw [← hH] at this
    rw [← hL]
    linarith [hg.2]
  · intro Q' hsum hnn
    rw [lagr_mix TC Q' _ hsum, ← hL]
    calc (evalGap X O hs k Q lamHat).2.2.L - (evalGap X O hs k Q lamHat).2.2.gap - EGGen.precision
        ≤ (evalGap X O hs k Q lamHat).2.2.Llow - EGGen.precision := by linarith [hg.1]
      _ = ∑ i ∈ range TC.nH, Q' i * ((evalGap X O hs k Q lamHat).2.2.Llow - EGGen.precision) := by
          rw [← Finset.sum_mul, hsum, one_mul]
      _ ≤ ∑ i ∈ range TC.nH, Q' i * lPure TC (projLam X lamHat) i := by
          apply Finset.sum_le_sum
          intro i hi
          have hi' := Finset.mem_range.mp hi
          exact mul_le_mul_of_nonneg_left (by linarith [hle i hi']) (hnn i hi')

/-- **(3b) for the OUTPUT of the modelled loop, any run, any oracle answers from the class**: the returned gap
    `best_gap_ = gaps[best_iter_]` IS the gap `eval_gap` computed for the returned `weights_ = Qs[best_iter_]` in one
    specific call (store `c.hs`, first oracle call number `c.k`, multiplier `c.lamHat` = that iteration's `lambda_EG` or
    the LP's dual solution — also when the LP result came from the `last_linprog_n_hs` cache). -/
theorem loop_certificate {P : Params} (O : Oracles) (TC : Table) (hO : ∀ k, ∃ i, IsMember TC (O.h k) i) (b : Nat)
    (hb : bestIterOf (run P O) = some b) :
    ∃ c : Cert, (run P O).gaps.getD b 0 = certGap P O c ∧ (run P O).qs.getD b [] = c.Q ∧ Members TC c.hs := by
  have hinv : CertInv P O TC (run P O) := certInv_runN P O TC hO P.maxIter
  have hlt : b < (run P O).gaps.length := (bestIter_spec _ b hb).1
  have hlen : (run P O).certs.length = (run P O).gaps.length := by rw [hinv.gaps_eq]; simp
  have hlt' : b < (run P O).certs.length := by omega
  obtain ⟨h1, h2, h3⟩ := hinv.cert_ok _ (List.getElem_mem hlt')
  refine ⟨((run P O).certs[b]).1, ?_, ?_, h3⟩
  · rw [← h1, hinv.gaps_eq]
    simp [List.getD_eq_getElem?_getD, hlt']
  · rw [← h2, hinv.qs_eq]
    simp [List.getD_eq_getElem?_getD, hlt']

/-- **(3b) the property's two guarantees for the output of the modelled loop.**  With `g = best_gap_`,
    `Q = weights_`: if the oracle's answers are class members, the ONE oracle call at `mul = 1` of the certifying
    `eval_gap` call was exact, and the (projected) multiplier of that call is non-negative, then for every feasible
    distribution `Q*` over the class   `error(Q) <= error(Q*) + 2 g + _PRECISION`   and every constraint of `Q`
    exceeds its bound by at most `(1 + 2 g + _PRECISION)/B`.  (`_PRECISION = 1e-8` is the cache tolerance of `best_h`;
    `precision_slack_needed` below shows it cannot be dropped.) -/
theorem loop_guarantees {P : Params} (O : Oracles) (TC : Table) (hB : 0 < P.B) (hc : TC.nC = P.c.length)
    (hcc : TC.c = vec P.c) (ha : AntiSym P.ctx TC) (hO : ∀ k, ∃ i, IsMember TC (O.h k) i) (b : Nat)
    (hb : bestIterOf (run P O) = some b) :
    ∃ c : Cert, (run P O).gaps.getD b 0 = certGap P O c ∧ (run P O).qs.getD b [] = c.Q ∧
      ((∀ i < TC.nH, storedValue c.lamHat (O.h c.k) ≤ classValue TC c.lamHat i) →
       (∀ j < TC.nC, 0 ≤ projLam P.ctx c.lamHat j) → ∀ Q', Feasible TC Q' →
        errQ (tableOf P.c c.hs) (vec ((run P O).qs.getD b []))
          ≤ errQ TC Q' + 2 * (run P O).gaps.getD b 0 + EGGen.precision ∧
        (0 ≤ errQ (tableOf P.c c.hs) (vec ((run P O).qs.getD b [])) → errQ TC Q' ≤ 1 → ∀ j < P.c.length,
          gamQ (tableOf P.c c.hs) (vec ((run P O).qs.getD b [])) j - vec P.c j
            ≤ (1 + 2 * (run P O).gaps.getD b 0 + EGGen.precision) / P.B)) := by
  obtain ⟨c, h1, h2, h3⟩ := loop_certificate O TC hO b hb
  refine ⟨c, h1, h2, ?_⟩
  intro hexact hlam Q' hf
  rw [h1, h2]
  exact evalGap_guarantees P.ctx O.h TC hc hcc ha c.hs h3 c.k c.Q c.lamHat (hO c.k) hexact hB hlam Q' hf

/-- **(3b) end to end**: as `loop_guarantees`, with the non-negativity of the certifying multiplier DERIVED — for an EG
    iterate from `loop_lambdaEG_bounds` (positivity of `exp`), for an LP iterate from the dual LP's bounds
    (`hlpl`: every LP answer has `lambda >= 0`, which is part of `dual_feasible_iff`).  What remains assumed is exactly
    what the property assumes: class-member answers and exactness of one oracle call. -/
theorem loop_guarantees_end_to_end {P : Params} (O : Oracles) (TC : Table) (h : LoopHyp P) (hc : TC.nC = P.c.length)
    (hcc : TC.c = vec P.c) (ha : AntiSym P.ctx TC) (hO : ∀ k, ∃ i, IsMember TC (O.h k) i)
    (hlpl : ∀ k, ∀ x ∈ (O.lp k).lam, 0 ≤ x) (b : Nat) (hb : bestIterOf (run P O) = some b) :
    ∃ c : Cert, (run P O).gaps.getD b 0 = certGap P O c ∧ (run P O).qs.getD b [] = c.Q ∧
      ((∀ i < TC.nH, storedValue c.lamHat (O.h c.k) ≤ classValue TC c.lamHat i) → ∀ Q', Feasible TC Q' →
        errQ (tableOf P.c c.hs) (vec ((run P O).qs.getD b []))
          ≤ errQ TC Q' + 2 * (run P O).gaps.getD b 0 + EGGen.precision ∧
        (0 ≤ errQ (tableOf P.c c.hs) (vec ((run P O).qs.getD b [])) → errQ TC Q' ≤ 1 → ∀ j < P.c.length,
          gamQ (tableOf P.c c.hs) (vec ((run P O).qs.getD b [])) j - vec P.c j
            ≤ (1 + 2 * (run P O).gaps.getD b 0 + EGGen.precision) / P.B)) := by
  have hinv : CertInv P O TC (run P O) := certInv_runN P O TC hO P.maxIter
  have hlam : LamInv (run P O) := lamInv_runN P O h.B_pos h.e_pos (etaInit_nonneg h) hlpl P.maxIter
  have hlt : b < (run P O).gaps.length := (bestIter_spec _ b hb).1
  have hlen : (run P O).certs.length = (run P O).gaps.length := by rw [hinv.gaps_eq]; simp
  have hlt' : b < (run P O).certs.length := by omega
  obtain ⟨h1, h2, h3⟩ := hinv.cert_ok _ (List.getElem_mem hlt')
  have h4 := hlam.certs_nonneg _ (List.getElem_mem hlt')
  have hg : (run P O).gaps.getD b 0 = certGap P O ((run P O).certs[b]).1 := by
    rw [← h1, hinv.gaps_eq]; simp [List.getD_eq_getElem?_getD, hlt']
  have hq : (run P O).qs.getD b [] = ((run P O).certs[b]).1.Q := by
    rw [← h2, hinv.qs_eq]; simp [List.getD_eq_getElem?_getD, hlt']
  refine ⟨((run P O).certs[b]).1, hg, hq, ?_⟩
  intro hexact Q' hf
  rw [hg, hq]
  exact evalGap_guarantees P.ctx O.h TC hc hcc ha _ h3 _ _ _ (hO _) hexact h.B_pos
    (fun j _ => projLam_nonneg P.ctx _ h4 j) Q' hf

/-- NEW (R2) **the same, with the certifying call NAMED**: in `loop_guarantees(_end_to_end)` the certificate `c` is
    existentially quantified, so the exactness hypothesis talks about a call the reader cannot identify.  Here
    `c = certs[b]` — the record the state machine keeps of which `eval_gap` call produced `gaps[b]` — is explicit: its
    store `c.hs`, first oracle call `c.k`, arguments `c.Q = weights_` and `c.lamHat` are computable from the run, the
    hypothesis `hexact` is decidable on concrete inputs (see the `r2_*` instance below). -/
theorem loop_guarantees_explicit {P : Params} (O : Oracles) (TC : Table) (h : LoopHyp P) (hc : TC.nC = P.c.length)
    (hcc : TC.c = vec P.c) (ha : AntiSym P.ctx TC) (hO : ∀ k, ∃ i, IsMember TC (O.h k) i)
    (hlpl : ∀ k, ∀ x ∈ (O.lp k).lam, 0 ≤ x) (b : Nat) (hb : bestIterOf (run P O) = some b) :
    (run P O).gaps.getD b 0 = certGap P O ((run P O).certs.getD b default).1 ∧
    (run P O).qs.getD b [] = ((run P O).certs.getD b default).1.Q ∧
    Members TC ((run P O).certs.getD b default).1.hs ∧
    ((∀ i < TC.nH, storedValue ((run P O).certs.getD b default).1.lamHat (O.h ((run P O).certs.getD b default).1.k)
          ≤ classValue TC ((run P O).certs.getD b default).1.lamHat i) →
      ∀ Q', Feasible TC Q' →
        errQ (tableOf P.c ((run P O).certs.getD b default).1.hs) (vec ((run P O).qs.getD b []))
          ≤ errQ TC Q' + 2 * (run P O).gaps.getD b 0 + EGGen.precision ∧
        (0 ≤ errQ (tableOf P.c ((run P O).certs.getD b default).1.hs) (vec ((run P O).qs.getD b [])) →
          errQ TC Q' ≤ 1 → ∀ j < P.c.length,
          gamQ (tableOf P.c ((run P O).certs.getD b default).1.hs) (vec ((run P O).qs.getD b [])) j - vec P.c j
            ≤ (1 + 2 * (run P O).gaps.getD b 0 + EGGen.precision) / P.B)) := by
  have hinv : CertInv P O TC (run P O) := certInv_runN P O TC hO P.maxIter
  have hlam : LamInv (run P O) := lamInv_runN P O h.B_pos h.e_pos (etaInit_nonneg h) hlpl P.maxIter
  have hlt : b < (run P O).gaps.length := (bestIter_spec _ b hb).1
  have hlen : (run P O).certs.length = (run P O).gaps.length := by rw [hinv.gaps_eq]; simp
  have hlt' : b < (run P O).certs.length := by omega
  have hget : (run P O).certs.getD b default = (run P O).certs[b] := by
    rw [List.getD_eq_getElem?_getD, List.getElem?_eq_getElem hlt']; rfl
  rw [hget]
  obtain ⟨h1, h2, h3⟩ := hinv.cert_ok _ (List.getElem_mem hlt')
  have h4 := hlam.certs_nonneg _ (List.getElem_mem hlt')
  have hg : (run P O).gaps.getD b 0 = certGap P O ((run P O).certs[b]).1 := by
    rw [← h1, hinv.gaps_eq]; simp [List.getD_eq_getElem?_getD, hlt']
  have hq : (run P O).qs.getD b [] = ((run P O).certs[b]).1.Q := by
    rw [← h2, hinv.qs_eq]; simp [List.getD_eq_getElem?_getD, hlt']
  refine ⟨hg, hq, h3, ?_⟩
  intro hexact Q' hf
  rw [hg, hq]
  exact evalGap_guarantees P.ctx O.h TC hc hcc ha _ h3 _ _ _ (hO _) hexact h.B_pos
    (fun j _ => projLam_nonneg P.ctx _ h4 j) Q' hf

/-- the `_PRECISION` slack is real: stored `h0` (value 1/2), oracle answers the true minimiser `h1` (value 1/2 - 5e-9);
    the improvement is below `_PRECISION`, `best_h` returns `h0`, and `eval_gap` reports gap `0` although the true
    duality gap of `(Q = h0, lambda = 0)` over the class `{h0, h1}` is `5e-9`. -/
def slackX : Ctx := ⟨4, [1/10], false, 1/100⟩
def slackTC : Table := mkTable [1/2, 1/2 - 5/1000000000] [[0, 0]] [1/10]
theorem precision_slack_needed :
    (evalGap slackX (fun _ => ⟨1/2 - 5/1000000000, [0]⟩) [⟨1/2, [0]⟩] 0 [1] [0]).2.2.gap = 0 ∧
    classGap slackTC (projLam slackX [0]) (1/2) (1/2) = 5/1000000000 := by
  constructor <;> decide +kernel

/-! ### (4) the `best_h` cache -/

/-- the store is append-only; a classifier is appended exactly when the oracle's answer beats EVERY stored value at
    the multiplier asked by more than `_PRECISION` (so the values of successive additions, each under its own multiplier,
    strictly improve on everything stored before), and then it is the returned index -/
theorem best_h_store (hs : List Hyp) (lam : List Rat) (h : Hyp) :
    ((bestH hs lam h).1 = hs ∧ (bestH hs lam h).2 < hs.length) ∨
    ((bestH hs lam h).1 = hs ++ [h] ∧ (bestH hs lam h).2 = hs.length ∧
      ∀ g ∈ hs, storedValue lam h < storedValue lam g - EGGen.precision) := bestH_store hs lam h

/-- the returned index always refers to a stored classifier, whose `h_value` at the multiplier asked is within
    `_PRECISION` of the oracle's answer and minimal over the store -/
theorem best_h_returned (hs : List Hyp) (lam : List Rat) (h : Hyp) :
    (bestH hs lam h).2 < (bestH hs lam h).1.length ∧
    storedValue lam ((bestH hs lam h).1.getD (bestH hs lam h).2 default) ≤ storedValue lam h + EGGen.precision ∧
    ∀ g ∈ (bestH hs lam h).1,
      storedValue lam ((bestH hs lam h).1.getD (bestH hs lam h).2 default) ≤ storedValue lam g :=
  ⟨bestH_idx_lt hs lam h, (bestH_value hs lam h).1, (bestH_value hs lam h).2⟩

/-! ### (3c) the `project_lambda` step inside `_eval` -/

/-- for a uniform non-negative bound and a mixture whose `-` constraint values are the negated `+` values (every
    UtilityParity moment with ratio 1), projecting a non-negative multiplier never lowers the Lagrangian of that `Q`:
    `L(Q, project(lambda)) >= L(Q, lambda)`; `L_high` does not depend on the multiplier, so the `L_high - L` half of the
    gap can only shrink, and by `project_preserves_best_response` the best responses are unchanged. -/
theorem project_raises_L (T : Table) (m : Nat) (c0 : Rat) (Q lam : Nat → Rat) (hn : T.nC = m + m) (hc0 : 0 ≤ c0)
    (hc : ∀ j < m + m, T.c j = c0) (hg : ∀ j < m, gamQ T Q (m + j) = -gamQ T Q j) (hl : ∀ j < m + m, 0 ≤ lam j) :
    lagr T Q lam ≤ lagr T Q (project m lam) ∧
    lHigh T B Q - lagr T Q (project m lam) ≤ lHigh T B Q - lagr T Q lam := by
  have key : lagr T Q lam ≤ lagr T Q (project m lam) := by
    rw [lagr_def, lagr_def]
    rw [sumTo_eq, sumTo_eq, hn]
    have e1 : ∀ l : Nat → Rat, ∑ j ∈ range (m + m), l j * viol T Q j
        = ∑ j ∈ range (m + m), l j * gamQ T Q j - c0 * ∑ j ∈ range (m + m), l j := by
      intro l
      rw [Finset.mul_sum, ← Finset.sum_sub_distrib]
      apply Finset.sum_congr rfl
      intro j hj
      rw [viol_def]
      rw [hc j (Finset.mem_range.mp hj)]; ring
    rw [e1 lam, e1 (project m lam), project_dot m lam (gamQ T Q) hg]
    have := Saddle.project_l1_le m lam hl
    nlinarith
  exact ⟨key, by linarith⟩

/-! ### (3d) review L1: the lifted `_eval` / `eval_gap` / `fit` fragments the certificate depends on

Each statement below is about a definition that is computed with text LIFTED from the source on every run
(`Generated/EGGen.lean`, `EGLoopGen.lean`, `ProjectLambdaSrc.lean`); the closed form on the right is what all theorems of
this file use (through `Lemmas/Saddle.lean:lagr_def/viol_def/maxViol_def/src_posOf/src_negOf`,
`Lemmas/EGCert.lean:lowImproves_iff/argBetter_iff/projLam_def`, `Lemmas/EGLoop.lean:storeQ_fresh/meanCols_def`).  An edit of
the corresponding source line changes the generated text and the named theorem stops checking. -/

/-- `L = error + np.sum(lambda_vec * (gamma - self.constraints.bound()))` -/
theorem eval_L_lifted (T : Table) (Q lam : Nat → Rat) :
    lagr T Q lam = errQ T Q + ∑ j ∈ range T.nC, lam j * (gamQ T Q j - T.c j) := by
  rw [lagr_def, sumTo_eq]
  simp only [viol_def]

/-- `max_constraint = (gamma - self.constraints.bound()).max()`: an upper bound of every violation that is attained -/
theorem eval_max_constraint_lifted (T : Table) (Q : Nat → Rat) (h : 0 < T.nC) :
    (∀ j < T.nC, gamQ T Q j - T.c j ≤ maxViol T Q) ∧ ∃ j < T.nC, maxViol T Q = gamQ T Q j - T.c j := by
  constructor
  · intro j hj
    rw [← viol_def]; exact viol_le_maxViol T Q j hj
  · obtain ⟨j, hj, hm⟩ := LinProg.maxViol_attained T Q h
    exact ⟨j, hj, by rw [hm, viol_def]⟩

/-- `if L_low_mul < result.L_low: result.L_low = L_low_mul`: `L_low` becomes the minimum of the two, `L` and `L_high`
    are untouched (with the comparison flipped `L_low` would be a running MAXIMUM and `gap_ge_true_gap` would fail) -/
theorem eval_gap_low_update_lifted (r : GapRes) (x : Rat) :
    (updLow r x).Llow = (if x < r.Llow then x else r.Llow) ∧ (updLow r x).L = r.L ∧ (updLow r x).Lhigh = r.Lhigh := by
  unfold updLow
  by_cases h : x < r.Llow
  · rw [if_pos ((lowImproves_iff _ _).mpr h), if_pos h]; exact ⟨rfl, rfl, rfl⟩
  · have : ¬ EGGen.lowImproves x r.Llow = true := fun hh => h ((lowImproves_iff _ _).mp hh)
    rw [if_neg this, if_neg h]; exact ⟨rfl, rfl, rfl⟩

/-- `_eval` computes `L` with the PROJECTED multiplier (the projection statement precedes `L = ...`), and the projection is
    the lifted `UtilityParity.project_lambda` for ratio 1: positive part of `λ⁺ − λ⁻` on the `+` half, of `λ⁻ − λ⁺` on the
    `-` half (`m` pairs); identity otherwise -/
theorem eval_projection_lifted (X : Ctx) (lam : List Rat) (j : Nat) :
    projLam X lam j =
      if X.ratioOne then
        (if j < X.c.length / 2 then Saddle.posPart (vec lam j - vec lam (j + X.c.length / 2))
         else Saddle.posPart (vec lam j - vec lam (j - X.c.length / 2)))
      else vec lam j := by
  rw [projLam_def]
  unfold projectIf project
  cases X.ratioOne
  · simp
  · simp only [if_true]
    split
    · rw [src_posOf]
    · rw [src_negOf]

/-- `best_idx = values.idxmin()`: scanning in index order, a later stored value replaces the current best only when it is
    strictly smaller (first minimum) -/
theorem best_h_scan_lifted (v : Rat) (vs : List Rat) (i bi : Nat) (bv : Rat) :
    argminFrom (v :: vs) i bi bv = if v < bv then argminFrom vs (i + 1) i v else argminFrom vs (i + 1) bi bv := by
  rw [argminFrom]
  by_cases h : v < bv
  · rw [if_pos ((argBetter_iff _ _).mpr h), if_pos h]
  · have : ¬ EGLoopGen.argBetter v bv = true := fun hh => h ((argBetter_iff _ _).mp hh)
    rw [if_neg this, if_neg h]

/-- `lambda_EG = self.lambda_vecs_EG_.mean(axis=1)` -/
theorem lambda_EG_lifted (n : Nat) (cols : List (List Rat)) :
    meanCols n cols = (List.range n).map (fun j => (cols.map (fun col => col.getD j 0)).sum / (cols.length : Rat)) :=
  meanCols_def n cols

/-- `last_gap = np.inf` before the loop: the first due regret check never shrinks `eta` -/
theorem last_gap_init_lifted (P : Params) : (initState P).lastGap = none := by
  simp [initState, EGLoopGen.lastGapInit]

/-- **`Qs` holds the iterates, not aliases of one object**: one pass through the loop body appends exactly the
    distribution chosen in that pass and leaves every earlier entry of `Qs` as it was.  This needs the lifted data-flow
    fact `EGLoopGen.qsEntriesFresh` (`Q_EG` / `Q_LP` are re-bound to newly built objects in every pass and never updated
    in place); the seeded change C08a (`Q_EG *= t/(t+1)` in place) makes it `false`, the model's `storeQ` then rewrites
    the earlier EG entries — as Python would — and this theorem and `loop_guarantees*` no longer check. -/
theorem qs_entries_are_snapshots (P : Params) (s : State) (D : Decision) :
    (finish P s D).qs = s.qs ++ [D.q] := finish_qs P s D

/-- **`weights_` is the certified iterate**: `self.weights_ = Qs[self.best_iter_]` (lifted index `EGGen.weightsPick`)
    followed by the zero padding.  With `Qs[-1]` / `Qs[0]` in the source the index is another one and this fails. -/
theorem weights_are_certified_iterate (s : State) (b : Nat) (hb : bestIterOf s = some b) :
    weightsOf s = padTo s.hs.length (s.qs.getD b []) := by
  unfold weightsOf
  rw [hb]
  simp [EGGen.weightsPick]

/-- zero padding is invisible to every mixture quantity (`vec` reads 0 beyond the end) -/
theorem vec_padTo (n : Nat) (q : List Rat) : vec (padTo n q) = vec q := by
  funext i
  unfold vec padTo
  rw [List.getD_eq_getElem?_getD, List.getD_eq_getElem?_getD]
  by_cases hi : i < q.length
  · rw [List.getElem?_append_left hi]
  · have hi' : q.length ≤ i := not_lt.mp hi
    rw [List.getElem?_append_right hi', List.getElem?_eq_none hi', List.getElem?_replicate]
    split <;> rfl

/-- **the certificate is about `weights_`** (not only about the list entry `Qs[best_iter_]`): `loop_guarantees_explicit`
    restated for `vec (weightsOf (run P O))`, the attribute the user gets -/
theorem loop_guarantees_weights {P : Params} (O : Oracles) (TC : Table) (h : LoopHyp P) (hc : TC.nC = P.c.length)
    (hcc : TC.c = vec P.c) (ha : AntiSym P.ctx TC) (hO : ∀ k, ∃ i, IsMember TC (O.h k) i)
    (hlpl : ∀ k, ∀ x ∈ (O.lp k).lam, 0 ≤ x) (b : Nat) (hb : bestIterOf (run P O) = some b) :
    vec (weightsOf (run P O)) = vec ((run P O).certs.getD b default).1.Q ∧
    ((∀ i < TC.nH, storedValue ((run P O).certs.getD b default).1.lamHat (O.h ((run P O).certs.getD b default).1.k)
          ≤ classValue TC ((run P O).certs.getD b default).1.lamHat i) →
      ∀ Q', Feasible TC Q' →
        errQ (tableOf P.c ((run P O).certs.getD b default).1.hs) (vec (weightsOf (run P O)))
          ≤ errQ TC Q' + 2 * (run P O).gaps.getD b 0 + EGGen.precision ∧
        (0 ≤ errQ (tableOf P.c ((run P O).certs.getD b default).1.hs) (vec (weightsOf (run P O))) →
          errQ TC Q' ≤ 1 → ∀ j < P.c.length,
          gamQ (tableOf P.c ((run P O).certs.getD b default).1.hs) (vec (weightsOf (run P O))) j - vec P.c j
            ≤ (1 + 2 * (run P O).gaps.getD b 0 + EGGen.precision) / P.B)) := by
  obtain ⟨_, hq, _, hrest⟩ := loop_guarantees_explicit O TC h hc hcc ha hO hlpl b hb
  have hw : vec (weightsOf (run P O)) = vec ((run P O).qs.getD b []) := by
    rw [weights_are_certified_iterate _ b hb, vec_padTo]
  refine ⟨by rw [hw, hq], ?_⟩
  intro hexact Q' hf
  rw [hw]
  exact hrest hexact Q' hf

end Cert

/-! Non-vacuity for the loop: a 2-constraint run with a positive "exponential", two oracle answers. -/
def exP : EGLoop.Params := ⟨4, 2, 1/100, 3, false, true, [1/10, 1/10], fun x => 1 + x * x⟩
def exO : EGLoop.Oracles := ⟨fun k => if k % 2 = 0 then ⟨0, [1/2, -1/2]⟩ else ⟨1/2, [0, 0]⟩, fun _ => default⟩
example : LoopHyp exP := ⟨by decide +kernel, fun x => by show 0 < 1 + x * x; nlinarith [mul_self_nonneg x], by decide +kernel⟩
example : (EGLoop.run exP exO).t = 3 := by decide +kernel
example : (EGLoop.run exP exO).lamCols.head? = some [4/3, 4/3] := by decide +kernel
example : ((EGLoop.run exP exO).qs.getD 2 []).sum = 1 := by decide +kernel
example : (EGLoop.run exP exO).certs.length = 3 := by decide +kernel

/-! Non-vacuity for the LP theorems on the table `exT` (B = 4): `(Q, t) = (1/5, 4/5, 0)` and `(lambda, mu) = (1, 0, 2/5)`
    are feasible with equal objectives `2/5`, hence both optimal by `lp_weak_duality`. -/
example : LinProg.primalFeasible exT [1/5, 4/5, 0] = true := by decide +kernel
example : LinProg.dualFeasible exT 4 [1, 0, 2/5] = true := by decide +kernel
example : LinProg.primalObj exT 4 [1/5, 4/5, 0] = 2/5 ∧ LinProg.dualObj exT [1, 0, 2/5] = -(2/5) := by
  constructor <;> decide +kernel
example : LinProg.primalFeasible exT [1, 0, 0] = false := by decide +kernel
example : LinProg.Aub exT = [[2/5, -1/10, -1], [-3/5, -1/10, -1]] := by decide +kernel

/-! ### review R2: ONE non-trivial input meeting ALL hypotheses of `loop_guarantees_explicit` (hence of `loop_guarantees`,
`loop_guarantees_end_to_end`, `loop_certificate`, `evalGap_guarantees`, `evalGap_saddle_point`, `classGap_le_evalGap_gap`,
`evalGap_gap_le_classGap`) at once: the class is `exT` = {h0 accurate/unfair, h1 fair}, ratio 1 (projection active,
`AntiSym` needed), 6 iterations, a positive INCREASING stand-in for exp, oracle answers h0 for the first 8 calls and h1
afterwards (all class members; NOT all exact), both classifiers get stored, the returned iterate is the last one with
`weights_ = (2/3, 1/3)`, and the one call that matters (call 11, at mul = 1 of the certifying eval_gap) IS exact. -/
section R2
open EGLoop

def r2e (x : Rat) : Rat := if 0 ≤ x then 1 + x else 1 / (1 - x)
def r2P : EGLoop.Params := ⟨4, 2, 1/100, 6, false, true, [1/10, 1/10], r2e⟩
def r2O : EGLoop.Oracles := ⟨fun k => if k < 8 then ⟨0, [1/2, -1/2]⟩ else ⟨1/2, [0, 0]⟩, fun _ => ⟨[], []⟩⟩

theorem r2e_pos (x : Rat) : 0 < r2e x := by
  unfold r2e
  split
  · linarith
  · next h => exact div_pos one_pos (by linarith [not_le.mp h])

theorem r2_loopHyp : LoopHyp r2P := ⟨by decide +kernel, r2e_pos, by decide +kernel⟩

theorem r2_antiSym : AntiSym r2P.ctx exT := by
  intro _
  refine ⟨rfl, ?_⟩
  intro i hi j hj
  have hj0 : j = 0 := by
    have : j < 1 := hj
    omega
  subst hj0
  have : i = 0 ∨ i = 1 := by have : i < 2 := hi; omega
  rcases this with rfl | rfl <;> decide +kernel

theorem r2_members : ∀ k, ∃ i, IsMember exT (r2O.h k) i := by
  intro k
  by_cases hk : k < 8
  · refine ⟨0, by decide, ?_⟩
    simp only [r2O, hk, if_true]
    refine ⟨by decide +kernel, by decide +kernel, ?_⟩
    intro j hj
    have : j = 0 ∨ j = 1 := by have : j < 2 := hj; omega
    rcases this with rfl | rfl <;> decide +kernel
  · refine ⟨1, by decide, ?_⟩
    simp only [r2O, hk, if_false]
    refine ⟨by decide +kernel, by decide +kernel, ?_⟩
    intro j hj
    have : j = 0 ∨ j = 1 := by have : j < 2 := hj; omega
    rcases this with rfl | rfl <;> decide +kernel

theorem r2_lp_nonneg : ∀ k, ∀ x ∈ (r2O.lp k).lam, 0 ≤ x := by intro k x hx; simp [r2O] at hx

theorem r2_best : EGLoop.bestIterOf (EGLoop.run r2P r2O) = some 5 := by decide +kernel

/-- the run is not degenerate: mixed weights over two stored classifiers, positive gap, the certifying call is call 11 -/
example : (EGLoop.run r2P r2O).qs.getD 5 [] = [2/3, 1/3] ∧ (EGLoop.run r2P r2O).hs.length = 2 ∧
    (EGLoop.run r2P r2O).gaps.getD 5 0 = 134261057798/194692209525 ∧
    ((EGLoop.run r2P r2O).certs.getD 5 default).1.k = 11 ∧ (EGLoop.run r2P r2O).calls = 12 := by decide +kernel

/-- the exactness hypothesis of the certifying call holds (h1 is the best response at that multiplier: 1/2 < 0.5223) -/
theorem r2_exact : ∀ i < exT.nH,
    EGLoop.storedValue ((EGLoop.run r2P r2O).certs.getD 5 default).1.lamHat
        (r2O.h ((EGLoop.run r2P r2O).certs.getD 5 default).1.k)
      ≤ EGLoop.classValue exT ((EGLoop.run r2P r2O).certs.getD 5 default).1.lamHat i := by decide +kernel

/-- … and the theorem applies: error(weights_) ≤ error(exQ) + 2·best_gap_ + _PRECISION for the feasible `exQ` -/
example : errQ (EGLoop.tableOf r2P.c ((EGLoop.run r2P r2O).certs.getD 5 default).1.hs)
      (vec ((EGLoop.run r2P r2O).qs.getD 5 []))
    ≤ errQ exT exQ + 2 * (EGLoop.run r2P r2O).gaps.getD 5 0 + EGGen.precision :=
  ((loop_guarantees_explicit r2O exT r2_loopHyp rfl rfl r2_antiSym r2_members r2_lp_nonneg 5 r2_best).2.2.2
    r2_exact exQ
    ⟨by decide +kernel, fun i hi => by
        have : i = 0 ∨ i = 1 := by have : i < 2 := hi; omega
        rcases this with rfl | rfl <;> decide +kernel,
      fun j hj => by
        have : j = 0 ∨ j = 1 := by have : j < 2 := hj; omega
        rcases this with rfl | rfl <;> decide +kernel⟩).1

/-! the same class with the LINEAR-PROGRAMMING step switched on: the hypothesis `hlp` of `loop_Q_prob`,
`loop_weights_prob`, `loop_weights_padded_prob` (every LP answer is a probability vector — for ALL indices, also the
ones the run never asks for) and `hlpl` of the guarantee theorems are met; the LP iterate is chosen at t = 4, the cache
is hit at t = 2, 3 and 5, the returned `weights_ = (1/5, 4/5)` is the exact constrained optimum with `best_gap_ = 0`, and the
error guarantee is TIGHT up to `_PRECISION`: 2/5 ≤ 2/5 + 2·0 + 1e-8. -/
def r2Plp : EGLoop.Params := { r2P with runLP := true }
def r2Olp : EGLoop.Oracles := ⟨r2O.h, fun k => if k = 0 then ⟨[1], [0, 0]⟩ else ⟨[1/5, 4/5], [1, 0]⟩⟩

theorem r2lp_loopHyp : LoopHyp r2Plp := ⟨by decide +kernel, r2e_pos, by decide +kernel⟩

theorem r2lp_isProb : ∀ k, IsProb (r2Olp.lp k).Q := by
  intro k
  by_cases hk : k = 0
  · simp only [r2Olp, hk, if_true]; exact ⟨by decide +kernel, by decide +kernel⟩
  · simp only [r2Olp, hk, if_false]; exact ⟨by decide +kernel, by decide +kernel⟩

theorem r2lp_lam_nonneg : ∀ k, ∀ x ∈ (r2Olp.lp k).lam, 0 ≤ x := by
  intro k
  by_cases hk : k = 0
  · simp only [r2Olp, hk, if_true]; decide +kernel
  · simp only [r2Olp, hk, if_false]; decide +kernel

theorem r2lp_best : bestIterOf (run r2Plp r2Olp) = some 5 := by decide +kernel

example : (run r2Plp r2Olp).fromLP = [false, false, false, false, true, true] ∧ (run r2Plp r2Olp).lpCalls = 2 ∧
    (run r2Plp r2Olp).cacheHits = 3 ∧ (run r2Plp r2Olp).gaps.getD 5 0 = 0 ∧
    weightsOf (run r2Plp r2Olp) = [1/5, 4/5] := by decide +kernel

/-- `loop_weights_padded_prob` applied: the fitted `weights_` is a probability vector -/
example : IsProb (weightsOf (run r2Plp r2Olp)) :=
  loop_weights_padded_prob r2Olp r2lp_loopHyp r2lp_isProb (by rw [r2lp_best]; simp)

theorem r2lp_exact : ∀ i < exT.nH,
    storedValue ((run r2Plp r2Olp).certs.getD 5 default).1.lamHat (r2Olp.h ((run r2Plp r2Olp).certs.getD 5 default).1.k)
      ≤ classValue exT ((run r2Plp r2Olp).certs.getD 5 default).1.lamHat i := by decide +kernel

/-- `loop_guarantees_explicit` applied to the LP iterate: the bound is tight up to `_PRECISION` -/
example : errQ (tableOf r2Plp.c ((run r2Plp r2Olp).certs.getD 5 default).1.hs) (vec ((run r2Plp r2Olp).qs.getD 5 [])) = 2/5 ∧
    errQ exT exQ + 2 * (run r2Plp r2Olp).gaps.getD 5 0 + EGGen.precision = 2/5 + EGGen.precision ∧
    errQ (tableOf r2Plp.c ((run r2Plp r2Olp).certs.getD 5 default).1.hs) (vec ((run r2Plp r2Olp).qs.getD 5 []))
      ≤ errQ exT exQ + 2 * (run r2Plp r2Olp).gaps.getD 5 0 + EGGen.precision := by
  refine ⟨by decide +kernel, by decide +kernel, ?_⟩
  exact ((loop_guarantees_explicit r2Olp exT r2lp_loopHyp rfl rfl r2_antiSym r2_members r2lp_lam_nonneg 5 r2lp_best).2.2.2
    r2lp_exact exQ
    ⟨by decide +kernel, fun i hi => by
        have : i = 0 ∨ i = 1 := by have : i < 2 := hi; omega
        rcases this with rfl | rfl <;> decide +kernel,
      fun j hj => by
        have : j = 0 ∨ j = 1 := by have : j < 2 := hj; omega
        rcases this with rfl | rfl <;> decide +kernel⟩).1

/-- vacuity of `loop_early_stop` (and of the early-stop clause): with a budget of 8 the LP-enabled run above leaves after 6
    iterations — the break is taken at t = 5 = _MIN_ITER with gap 0 < nu -/
def r2Plp8 : EGLoop.Params := { r2Plp with maxIter := 8 }
theorem r2lp8_loopHyp : LoopHyp r2Plp8 := ⟨by decide +kernel, r2e_pos, by decide +kernel⟩
example : (run r2Plp8 r2Olp).t = 6 ∧ (run r2Plp8 r2Olp).t < r2Plp8.maxIter ∧ (run r2Plp8 r2Olp).done = true ∧
    bestIterOf (run r2Plp8 r2Olp) = some 5 ∧ (run r2Plp8 r2Olp).gaps.getD 5 0 = 0 ∧ r2Plp8.nu = 1/100 := by decide +kernel
example : ∃ b, bestIterOf (run r2Plp8 r2Olp) = some b ∧ (run r2Plp8 r2Olp).gaps.getD b 0 < r2Plp8.nu :=
  (loop_early_stop r2Olp r2lp8_loopHyp (by decide +kernel)).2.2

/-- vacuity of `project_raises_L` / `project_preserves_best_response`: `exT` has m = 1, uniform bound 1/10, and every
    mixture has antisymmetric constraint values; the multiplier (3, 1) projects to (2, 0) and L rises from 1/5 to 2/5 -/
example : exT.nC = 1 + 1 ∧ (0 : Rat) ≤ 1/10 ∧ (∀ j < 1 + 1, exT.c j = 1/10) ∧
    (∀ j < 1, gamQ exT exQ (1 + j) = -gamQ exT exQ j) ∧ (∀ j < 1 + 1, 0 ≤ vec [3, 1] j) ∧
    lagr exT exQ (vec [3, 1]) = 1/5 ∧ lagr exT exQ (project 1 (vec [3, 1])) = 2/5 := by
  refine ⟨rfl, by norm_num, ?_, ?_, ?_, by decide +kernel, by decide +kernel⟩
  · intro j hj
    have : j = 0 ∨ j = 1 := by omega
    rcases this with rfl | rfl <;> decide +kernel
  · intro j hj
    have : j = 0 := by omega
    subst this; decide +kernel
  · intro j hj
    have : j = 0 ∨ j = 1 := by omega
    rcases this with rfl | rfl <;> decide +kernel

end R2

end C08
