/-
C08 — ExponentiatedGradient meets the saddle-point guarantees certified by best_gap_.
Property theorems only; helper lemmas live in `Lemmas/Saddle.lean`; the model is `Model/Saddle.lean`,
whose closed expressions (`gapOf`, `lHigh`, `keep`, `breakCond`, `pickLast`, `_PRECISION`, `_MIN_ITER`)
are regenerated from the Python source into `Generated/EGGen.lean` on every run.

Clauses of the property and where they are stated (all over `Rat`, any table size):
  * "g is at least the true duality gap of Q against the recorded multiplier"
        gap_ge_true_gap (the gap `eval_gap` computes from ANY candidate set that contains a true best
        response equals/bounds the gap over the whole class), project_preserves_best_response,
        project_nonneg, project_l1_le (the vector `_eval` really uses is the projected one)
  * "hence error(Q) <= min{error(Q') : Q' feasible} + 2 g"            saddle_error
  * "every constraint exceeds its bound by at most (1 + 2 g)/B"        saddle_violation
  * L_high is the lambda-player's best response value                   lHigh_is_max
  * "whenever fitting stops before max_iter iterations, best_gap_ < nu" early_stop_lt_nu, best_iter_spec
-/
import FairModel.Lemmas.Saddle
import FairModel.Lemmas.EGLoop

namespace C08
open Saddle Finset

/-- `Q'` is a probability vector over the class that meets every constraint. -/
structure Feasible (T : Table) (Q' : Nat → Rat) : Prop where
  sum_one : ∑ i ∈ range T.nH, Q' i = 1
  nonneg : ∀ i < T.nH, 0 ≤ Q' i
  meets : ∀ j < T.nC, gamQ T Q' j ≤ T.c j

theorem gap_parts {T : Table} {B g : Rat} {Q lam : Nat → Rat} {cands : List Nat}
    (h : gap T B Q lam cands ≤ g) :
    lagr T Q lam - lLow T Q lam cands ≤ g ∧ lHigh T B Q - lagr T Q lam ≤ g := by
  unfold gap EGGen.gapOf at h
  exact max2_le h

/-- a feasible mixture has Lagrangian value at most its error, for non-negative multipliers -/
theorem lagr_feasible_le (T : Table) (lam Q' : Nat → Rat) (hl : ∀ j < T.nC, 0 ≤ lam j)
    (hf : ∀ j < T.nC, gamQ T Q' j ≤ T.c j) : lagr T Q' lam ≤ errQ T Q' := by
  rw [lagr, sumTo_eq]
  have : ∑ j ∈ range T.nC, lam j * viol T Q' j ≤ 0 := by
    apply Finset.sum_nonpos
    intro j hj
    have hj' := Finset.mem_range.mp hj
    have h1 := hl j hj'
    have h2 : viol T Q' j ≤ 0 := by unfold viol; linarith [hf j hj']
    exact mul_nonpos_of_nonneg_of_nonpos h1 h2
  linarith

/-- **Error guarantee.**  If the duality gap of `(Q, λ̂)` over the whole class is at most `g`,
    `λ̂ ≥ 0`, and `Q'` is any feasible distribution over the class, then
    `error(Q) ≤ error(Q') + 2 g`.  (`Q` itself may be any weight vector.) -/
theorem saddle_error (T : Table) (B g : Rat) (Q lam Q' : Nat → Rat) (hB : 0 ≤ B)
    (hgap : trueGap T B Q lam ≤ g) (hl : ∀ j < T.nC, 0 ≤ lam j) (hf : Feasible T Q') :
    errQ T Q ≤ errQ T Q' + 2 * g := by
  obtain ⟨h1, h2⟩ := gap_parts hgap
  have h3 := lLow_le_mix T Q lam Q' hf.sum_one hf.nonneg
  have h4 := lagr_feasible_le T lam Q' hl hf.meets
  have h5 := (lHigh_ge T B hB Q).1
  linarith

/-- **Constraint guarantee.**  Under the same hypotheses, with `B > 0`, `error(Q) ≥ 0` and
    `error(Q') ≤ 1`, every constraint value of `Q` exceeds its bound by at most `(1 + 2 g)/B`. -/
theorem saddle_violation (T : Table) (B g : Rat) (Q lam Q' : Nat → Rat) (hB : 0 < B)
    (hgap : trueGap T B Q lam ≤ g) (hl : ∀ j < T.nC, 0 ≤ lam j) (hf : Feasible T Q')
    (he0 : 0 ≤ errQ T Q) (he1 : errQ T Q' ≤ 1) :
    ∀ j < T.nC, gamQ T Q j - T.c j ≤ (1 + 2 * g) / B := by
  intro j hj
  obtain ⟨h1, h2⟩ := gap_parts hgap
  have h3 := lLow_le_mix T Q lam Q' hf.sum_one hf.nonneg
  have h4 := lagr_feasible_le T lam Q' hl hf.meets
  have h5 := (lHigh_ge T B (le_of_lt hB) Q).2 j hj
  rw [le_div_iff₀ hB]
  unfold viol at h5
  linarith

/-- errors in [0,1] per hypothesis give an error in [0,1] for every distribution -/
theorem errQ_unit_interval (T : Table) (Q : Nat → Rat) (he : ∀ i < T.nH, 0 ≤ T.err i ∧ T.err i ≤ 1)
    (hs : ∑ i ∈ range T.nH, Q i = 1) (hq : ∀ i < T.nH, 0 ≤ Q i) : 0 ≤ errQ T Q ∧ errQ T Q ≤ 1 := by
  rw [errQ, sumTo_eq]
  constructor
  · apply Finset.sum_nonneg
    intro i hi
    have hi' := Finset.mem_range.mp hi
    exact mul_nonneg (hq i hi') (he i hi').1
  · rw [← hs]
    apply Finset.sum_le_sum
    intro i hi
    have hi' := Finset.mem_range.mp hi
    have := mul_le_mul_of_nonneg_left (he i hi').2 (hq i hi')
    linarith

/-- `L_high` is the value of the multiplier player's best response: `L(Q, λ) ≤ L_high` for every
    `λ ≥ 0` with `‖λ‖₁ ≤ B` (so `gap ≤ g` makes `(Q, λ̂)` a `g`-approximate saddle point). -/
theorem lHigh_is_max (T : Table) (B : Rat) (Q lam : Nat → Rat)
    (hl : ∀ j < T.nC, 0 ≤ lam j) (hB : ∑ j ∈ range T.nC, lam j ≤ B) : lagr T Q lam ≤ lHigh T B Q :=
  lagr_le_lHigh T B Q lam hl hB

theorem gap_nonneg (T : Table) (B : Rat) (Q lam : Nat → Rat) (cands : List Nat) :
    0 ≤ gap T B Q lam cands := by
  unfold gap EGGen.gapOf
  have := lLow_le_L T Q lam cands
  exact le_trans (by linarith) (max2_ge_left _ _)

/-- **Certificate.**  The gap `eval_gap` computes with ANY list of candidate best responses that
    contains a true best response `i*` to `λ̂` (an exact learner returns one) is at least the true
    duality gap over the whole class — so `best_gap_` never understates the gap. -/
theorem gap_ge_true_gap (T : Table) (B : Rat) (Q lam : Nat → Rat) (cands : List Nat) (istar : Nat)
    (hmem : istar ∈ cands) (hbest : ∀ i < T.nH, lPure T lam istar ≤ lPure T lam i) :
    trueGap T B Q lam ≤ gap T B Q lam cands := by
  have hlow : lLow T Q lam cands ≤ lLow T Q lam (List.range T.nH) := by
    apply le_foldMin
    · exact lLow_le_L T Q lam cands
    · intro i hi
      exact le_trans (lLow_le_pure T Q lam cands istar hmem) (hbest i (List.mem_range.mp hi))
  unfold trueGap gap EGGen.gapOf
  have h1 := max2_ge_left (lagr T Q lam - lLow T Q lam cands) (lHigh T B Q - lagr T Q lam)
  have h2 := max2_ge_right (lagr T Q lam - lLow T Q lam cands) (lHigh T B Q - lagr T Q lam)
  unfold EGGen.max2
  split
  · exact h2
  · exact le_trans (by linarith) h1

/-- with candidates inside the class the computed gap never exceeds the true gap either -/
theorem gap_le_true_gap (T : Table) (B : Rat) (Q lam : Nat → Rat) (cands : List Nat)
    (hsub : ∀ i ∈ cands, i < T.nH) : gap T B Q lam cands ≤ trueGap T B Q lam := by
  have hlow : lLow T Q lam (List.range T.nH) ≤ lLow T Q lam cands := by
    apply le_foldMin
    · exact lLow_le_L T Q lam _
    · intro i hi
      exact lLow_le_pure T Q lam _ i (List.mem_range.mpr (hsub i hi))
  unfold trueGap gap EGGen.gapOf
  have h1 := max2_ge_left (lagr T Q lam - lLow T Q lam (List.range T.nH)) (lHigh T B Q - lagr T Q lam)
  have h2 := max2_ge_right (lagr T Q lam - lLow T Q lam (List.range T.nH)) (lHigh T B Q - lagr T Q lam)
  unfold EGGen.max2
  split
  · exact h2
  · exact le_trans (by linarith) h1

/-- `_eval` replaces `λ̂` by `project_lambda λ̂`; when the `-` entries of every gamma vector are the
    negated `+` entries (UtilityParity, ratio 1) this changes `λ̂·γ(h)` for no `h`, so a best response
    to the recorded (unprojected) `λ̂` is a best response to the vector the gap is evaluated at. -/
theorem project_preserves_best_response (m : Nat) (lam gam : Nat → Rat)
    (hg : ∀ j < m, gam (m + j) = -gam j) :
    ∑ j ∈ range (m + m), project m lam j * gam j = ∑ j ∈ range (m + m), lam j * gam j :=
  project_dot m lam gam hg

theorem project_nonneg (m : Nat) (lam : Nat → Rat) (j : Nat) : 0 ≤ project m lam j :=
  Saddle.project_nonneg m lam j

theorem project_l1_le (m : Nat) (lam : Nat → Rat) (hl : ∀ j < m + m, 0 ≤ lam j) :
    ∑ j ∈ range (m + m), project m lam j ≤ ∑ j ∈ range (m + m), lam j :=
  Saddle.project_l1_le m lam hl

/-- `best_iter_`: in range, within `_PRECISION` of the smallest gap, and the last such iteration. -/
theorem best_iter_spec (gaps : List Rat) (i : Nat) (h : bestIter gaps = some i) :
    i < gaps.length ∧ gaps.getD i 0 ≤ minOf gaps + EGGen.precision ∧
    ∀ k < gaps.length, gaps.getD k 0 ≤ minOf gaps + EGGen.precision → k ≤ i := by
  obtain ⟨h1, h2, h3⟩ := bestIter_spec gaps i h
  refine ⟨h1, by simpa [EGGen.keep] using h2, ?_⟩
  intro k hk hle
  exact h3 k hk (by simpa [EGGen.keep] using hle)

/-- **Early stop.**  If the loop leaves before `max_iter` iterations, then at least `_MIN_ITER + 1`
    iterations ran and the gap of the returned iterate (`best_gap_`) is strictly below `nu` — including
    when the returned iterate is not the last one (the `_PRECISION` tie rule). -/
theorem early_stop_lt_nu (gapAt : Nat → Rat) (nu : Rat) (maxIter : Nat)
    (h : runLen gapAt nu maxIter < maxIter) :
    ∃ i, bestIter (recorded gapAt nu maxIter) = some i ∧
      (recorded gapAt nu maxIter).getD i 0 < nu ∧ EGGen.minIter < runLen gapAt nu maxIter := by
  unfold recorded
  unfold runLen at h ⊢
  cases hfind : (List.range maxIter).find? (fun t => EGGen.breakCond (gapAt t) nu t) with
  | none => rw [hfind] at h; simp at h
  | some t =>
    simp only []
    have hbc := List.find?_some hfind
    simp only [EGGen.breakCond, Bool.and_eq_true, decide_eq_true_eq] at hbc
    have hne : (List.range (t + 1)).map gapAt ≠ [] := by simp
    obtain ⟨i, hi⟩ := bestIter_isSome _ hne
    obtain ⟨h1, h2, h3⟩ := best_iter_spec _ i hi
    have hlen : ((List.range (t + 1)).map gapAt).length = t + 1 := by simp
    have hget : ∀ k, k < t + 1 → ((List.range (t + 1)).map gapAt).getD k 0 = gapAt k := by
      intro k hk
      rw [getD_of_lt _ _ (by rw [hlen]; exact hk)]; simp
    refine ⟨i, hi, ?_, by have := hbc.2; omega⟩
    rw [hlen] at h1 h3
    by_cases hk : gapAt t ≤ minOf ((List.range (t + 1)).map gapAt) + EGGen.precision
    · have := h3 t (by omega) (by rw [hget t (by omega)]; exact hk)
      have hit : i = t := by omega
      rw [hit, hget t (by omega)]; exact hbc.1
    · have h2' := h2
      rw [hget i h1] at h2' ⊢
      have := not_le.mp hk
      linarith [hbc.1]

/-! Non-vacuity: a concrete 2-hypothesis, 2-constraint table (h0 = accurate but unfair, h1 = fair). -/
def exT : Table := mkTable [0, 1/2] [[1/2, 0], [-1/2, 0]] [1/10, 1/10]
def exQ : Nat → Rat := vec [1/5, 4/5]
def exLam : Nat → Rat := vec [1, 0]

example : errQ exT exQ = 2/5 := by decide +kernel
example : lagr exT exQ exLam = 2/5 := by decide +kernel
example : lHigh exT 4 exQ = 2/5 := by decide +kernel
example : trueGap exT 4 exQ exLam = 0 := by decide +kernel
example : trueGap exT 4 (vec [1, 0]) exLam = 6/5 := by decide +kernel
example : Feasible exT exQ :=
  ⟨by decide +kernel, fun i hi => by
      have : i = 0 ∨ i = 1 := by have : i < 2 := hi; omega
      rcases this with rfl | rfl <;> decide +kernel,
    fun j hj => by
      have : j = 0 ∨ j = 1 := by have : j < 2 := hj; omega
      rcases this with rfl | rfl <;> decide +kernel⟩
example : bestIter [3, 1, 2, 1 + 1/200000000, 5] = some 3 := by decide +kernel
example : runLen (vec [9, 9, 9, 9, 9, 9, 1/2, 0]) 1 20 = 7 := by decide +kernel
example : runLen (vec [0, 0, 0, 0, 0, 0]) 1 4 = 4 := by decide +kernel
example : (project 1 (vec [3, 1])) 0 = 2 ∧ (project 1 (vec [3, 1])) 1 = 0 := by decide +kernel

/-! ## The main loop (`Model/EGLoop.lean`): theorems for EVERY run length and ANY oracle answers

`EGLoop.runN P O n` is the state after `n` passes through the body of `for t in range(0, self.max_iter)`
(`run` = `max_iter` passes); `O.h` answers the base-learner calls, `O.lp` the (non-cached) LP solves, `P.e` is the
exponential, of which only positivity is used.  The closed expressions are `Generated/EGLoopGen.lean`. -/
section Loop
open EGLoop

/-- standing assumptions on the parameters: `B = 1/eps > 0`, `eta0 >= 0`, and `e` (np.exp) positive -/
structure LoopHyp (P : Params) : Prop where
  B_pos : 0 < P.B
  e_pos : ∀ x, 0 < P.e x
  eta0_nonneg : 0 ≤ P.eta0

theorem etaInit_nonneg {P : Params} (h : LoopHyp P) : 0 ≤ EGLoopGen.etaInit P.eta0 P.B := by
  unfold EGLoopGen.etaInit
  exact div_nonneg h.eta0_nonneg (le_of_lt h.B_pos)

theorem loop_inv {P : Params} (O : Oracles) (h : LoopHyp P) (n : Nat) : Inv P O (runN P O n) :=
  inv_runN P O h.B_pos h.e_pos (etaInit_nonneg h) n

/-- **(a)** every column of `lambda_vecs_EG_` is non-negative with L1 norm strictly below `B`
    (uses only `0 < e`; the `1 +` of the denominator is what makes the bound strict). -/
theorem loop_lambda_bounds {P : Params} (O : Oracles) (h : LoopHyp P) (n : Nat) :
    ∀ v ∈ (runN P O n).lamCols, v.length = P.c.length ∧ (∀ x ∈ v, 0 ≤ x) ∧ v.sum < P.B :=
  (loop_inv O h n).lam_good

/-- **(b)** so is every running mean `lambda_EG` (the multiplier the EG certificate is evaluated at) -/
theorem loop_lambdaEG_bounds {P : Params} (O : Oracles) (h : LoopHyp P) (n : Nat) :
    ∀ v ∈ (runN P O n).lamEGs, v.length = P.c.length ∧ (∀ x ∈ v, 0 ≤ x) ∧ v.sum < P.B :=
  (loop_inv O h n).lamEG_good

/-- **(c, EG branch)** whenever the EG iterate was kept, `Qs[t] = Qsum / Qsum.sum()` is a probability vector —
    no assumption on the LP solver. -/
theorem loop_QEG_prob {P : Params} (O : Oracles) (h : LoopHyp P) (n : Nat) :
    ∀ p ∈ (runN P O n).fromLP.zip (runN P O n).qs, p.1 = false → IsProb p.2 :=
  (loop_inv O h n).qs_eg

/-- **(c)** if every LP answer is a probability vector (= primal feasibility of the LP's equality row and
    default bounds, `lp_feasible_iff` below), every entry of `Qs`, hence `weights_ = Qs[best_iter_]`, is one. -/
theorem loop_Q_prob {P : Params} (O : Oracles) (h : LoopHyp P) (n : Nat) (hlp : ∀ k, IsProb (O.lp k).Q) :
    ∀ q ∈ (runN P O n).qs, IsProb q :=
  (loop_inv O h n).qs_prob hlp

theorem loop_weights_prob {P : Params} (O : Oracles) (h : LoopHyp P) (hlp : ∀ k, IsProb (O.lp k).Q) (b : Nat)
    (hb : bestIterOf (run P O) = some b) : IsProb ((run P O).qs.getD b []) := by
  have hinv : Inv P O (run P O) := loop_inv O h P.maxIter
  have hlt : b < (run P O).qs.length := by
    rw [hinv.len_qs, ← hinv.len_gaps]; exact (bestIter_spec _ b hb).1
  rw [List.getD_eq_getElem?_getD, List.getElem?_eq_getElem hlt]
  exact loop_Q_prob O h P.maxIter hlp _ (List.getElem_mem hlt)

/-- **(d)** `eta = (eta0 / B) * 0.8^k`, `k` = number of shrink events ≤ number of regret checks ≤ `t` -/
theorem loop_eta_formula {P : Params} (O : Oracles) (h : LoopHyp P) (n : Nat) :
    (runN P O n).eta = EGLoopGen.etaInit P.eta0 P.B * EGGen.shrinkEta ^ (runN P O n).shrinks ∧
    (runN P O n).shrinks ≤ (runN P O n).checks ∧ (runN P O n).checks ≤ (runN P O n).t :=
  ⟨(loop_inv O h n).eta_eq, (loop_inv O h n).shrinks_le, (loop_inv O h n).checks_le⟩

/-- **(d)** the learning rates used by successive iterations never increase and never exceed `eta0 / B` -/
theorem loop_eta_nonincreasing {P : Params} (O : Oracles) (h : LoopHyp P) (n : Nat) :
    (runN P O n).etas.Pairwise (fun a b => b ≤ a) ∧
    ∀ x ∈ (runN P O n).etas, (runN P O n).eta ≤ x ∧ x ≤ EGLoopGen.etaInit P.eta0 P.B :=
  ⟨(loop_inv O h n).etas_mono, (loop_inv O h n).etas_hist⟩

/-- **(e)** at most `max_iter` iterations; `last_iter_ = len(Qs) - 1 = t - 1`; `best_iter_ ≤ last_iter_` -/
theorem loop_iterations {P : Params} (O : Oracles) (h : LoopHyp P) :
    (run P O).t ≤ P.maxIter ∧ lastIterOf (run P O) = ((run P O).t : Int) - 1 ∧
    ∀ b, bestIterOf (run P O) = some b → (b : Int) ≤ lastIterOf (run P O) := by
  have hinv : Inv P O (run P O) := loop_inv O h P.maxIter
  refine ⟨hinv.t_le, ?_, ?_⟩
  · unfold lastIterOf EGLoopGen.lastIter
    rw [hinv.len_qs]
  · intro b hb
    have := (bestIter_spec _ b hb).1
    unfold lastIterOf EGLoopGen.lastIter
    rw [hinv.len_qs, ← hinv.len_gaps]
    omega

/-- **(f)** the loop invariant `len(gaps) = len(Qs) = len(gaps_EG) = #columns of lambda_vecs_EG_ = t` -/
theorem loop_lengths {P : Params} (O : Oracles) (h : LoopHyp P) (n : Nat) :
    (runN P O n).gaps.length = (runN P O n).t ∧ (runN P O n).qs.length = (runN P O n).t ∧
    (runN P O n).gapsEG.length = (runN P O n).t ∧ (runN P O n).lamCols.length = (runN P O n).t ∧
    (runN P O n).t ≤ n := by
  have hinv := loop_inv O h n
  refine ⟨hinv.len_gaps, hinv.len_qs, hinv.len_gapsEG, hinv.len_lamCols, ?_⟩
  clear hinv
  induction n with
  | zero => exact Nat.le_refl _
  | succ n ih =>
    show (iter P O (runN P O n)).t ≤ n + 1
    cases hgo : ((runN P O n).done || decide (P.maxIter ≤ (runN P O n).t))
    · rw [iter_go P O _ hgo]
      show (runN P O n).t + 1 ≤ n + 1
      omega
    · rw [iter_stop P O _ hgo]; omega

/-- **Early stop, for the modelled loop itself**: if the run ends with fewer than `max_iter` iterations, the
    `break` was taken, more than `_MIN_ITER` iterations ran, and the gap of the RETURNED iterate (`best_gap_`) is
    strictly below `nu`. -/
theorem loop_early_stop {P : Params} (O : Oracles) (h : LoopHyp P) (hlt : (run P O).t < P.maxIter) :
    (run P O).done = true ∧ EGGen.minIter < (run P O).t ∧
    ∃ b, bestIterOf (run P O) = some b ∧ (run P O).gaps.getD b 0 < P.nu := by
  have hinv : Inv P O (run P O) := loop_inv O h P.maxIter
  have hd : (run P O).done = true := by
    cases hdn : (run P O).done
    · have := runN_t P O P.maxIter (Nat.le_refl _) hdn
      unfold run at hlt; omega
    · rfl
  obtain ⟨g, hg, hbc⟩ := hinv.done_spec hd
  simp only [EGGen.breakCond, Bool.and_eq_true, decide_eq_true_eq] at hbc
  refine ⟨hd, ?_, bestIter_lt_of_last_lt _ g P.nu hg hbc.1⟩
  have hpos : 0 < (run P O).t := by
    have : (run P O).gaps ≠ [] := by intro h0; rw [h0] at hg; simp at hg
    have := List.length_pos_iff.mpr this
    rw [hinv.len_gaps] at this; exact this
  have := hbc.2
  omega

end Loop

/-! Non-vacuity for the loop: a 2-constraint run with a positive "exponential", two oracle answers. -/
def exP : EGLoop.Params := ⟨4, 2, 1/100, 3, false, true, [1/10, 1/10], fun x => 1 + x * x⟩
def exO : EGLoop.Oracles := ⟨fun k => if k % 2 = 0 then ⟨0, [1/2, -1/2]⟩ else ⟨1/2, [0, 0]⟩, fun _ => default⟩
example : LoopHyp exP := ⟨by decide +kernel, fun x => by show 0 < 1 + x * x; nlinarith [mul_self_nonneg x], by decide +kernel⟩
example : (EGLoop.run exP exO).t = 3 := by decide +kernel
example : (EGLoop.run exP exO).lamCols.head? = some [4/3, 4/3] := by decide +kernel
example : ((EGLoop.run exP exO).qs.getD 2 []).sum = 1 := by decide +kernel

end C08
