/-
C08 — ExponentiatedGradient meets the saddle-point guarantees certified by best_gap_.
Property theorems only; helper lemmas live in `Lemmas/Saddle.lean`; the model is `Model/Saddle.lean`,
whose closed expressions (`gapOf`, `lHigh`, `keep`, `breakCond`, `pickLast`, `_PRECISION`, `_MIN_ITER`)
are regenerated from the Python source into `Generated/EGGen.lean` on every run.

Clauses of the property and where they are stated (all over `Rat`, any table size):
  * "g is at least the true duality gap of Q against the recorded multiplier"
        gap_ge_true_gap (the gap `eval_gap` computes from ANY candidate set that contains a true best
        response equals/bounds the gap over the whole class), project_preserves_best_response,
        project_nonneg, project_l1_le (the vector `_eval` really uses is the projected one)
  * "hence error(Q) <= min{error(Q') : Q' feasible} + 2 g"            saddle_error
  * "every constraint exceeds its bound by at most (1 + 2 g)/B"        saddle_violation
  * L_high is the lambda-player's best response value                   lHigh_is_max
  * "whenever fitting stops before max_iter iterations, best_gap_ < nu" early_stop_lt_nu, best_iter_spec
-/
import FairModel.Lemmas.Saddle

namespace C08
open Saddle Finset

/-- `Q'` is a probability vector over the class that meets every constraint. -/
structure Feasible (T : Table) (Q' : Nat → Rat) : Prop where
  sum_one : ∑ i ∈ range T.nH, Q' i = 1
  nonneg : ∀ i < T.nH, 0 ≤ Q' i
  meets : ∀ j < T.nC, gamQ T Q' j ≤ T.c j

theorem gap_parts {T : Table} {B g : Rat} {Q lam : Nat → Rat} {cands : List Nat}
    (h : gap T B Q lam cands ≤ g) :
    lagr T Q lam - lLow T Q lam cands ≤ g ∧ lHigh T B Q - lagr T Q lam ≤ g := by
  unfold gap EGGen.gapOf at h
  exact max2_le h

/-- a feasible mixture has Lagrangian value at most its error, for non-negative multipliers -/
theorem lagr_feasible_le (T : Table) (lam Q' : Nat → Rat) (hl : ∀ j < T.nC, 0 ≤ lam j)
    (hf : ∀ j < T.nC, gamQ T Q' j ≤ T.c j) : lagr T Q' lam ≤ errQ T Q' := by
  rw [lagr, sumTo_eq]
  have : ∑ j ∈ range T.nC, lam j * viol T Q' j ≤ 0 := by
    apply Finset.sum_nonpos
    intro j hj
    have hj' := Finset.mem_range.mp hj
    have h1 := hl j hj'
    have h2 : viol T Q' j ≤ 0 := by unfold viol; linarith [hf j hj']
    exact mul_nonpos_of_nonneg_of_nonpos h1 h2
  linarith

/-- **Error guarantee.**  If the duality gap of `(Q, λ̂)` over the whole class is at most `g`,
    `λ̂ ≥ 0`, and `Q'` is any feasible distribution over the class, then
    `error(Q) ≤ error(Q') + 2 g`.  (`Q` itself may be any weight vector.) -/
theorem saddle_error (T : Table) (B g : Rat) (Q lam Q' : Nat → Rat) (hB : 0 ≤ B)
    (hgap : trueGap T B Q lam ≤ g) (hl : ∀ j < T.nC, 0 ≤ lam j) (hf : Feasible T Q') :
    errQ T Q ≤ errQ T Q' + 2 * g := by
  obtain ⟨h1, h2⟩ := gap_parts hgap
  have h3 := lLow_le_mix T Q lam Q' hf.sum_one hf.nonneg
  have h4 := lagr_feasible_le T lam Q' hl hf.meets
  have h5 := (lHigh_ge T B hB Q).1
  linarith

/-- **Constraint guarantee.**  Under the same hypotheses, with `B > 0`, `error(Q) ≥ 0` and
    `error(Q') ≤ 1`, every constraint value of `Q` exceeds its bound by at most `(1 + 2 g)/B`. -/
theorem saddle_violation (T : Table) (B g : Rat) (Q lam Q' : Nat → Rat) (hB : 0 < B)
    (hgap : trueGap T B Q lam ≤ g) (hl : ∀ j < T.nC, 0 ≤ lam j) (hf : Feasible T Q')
    (he0 : 0 ≤ errQ T Q) (he1 : errQ T Q' ≤ 1) :
    ∀ j < T.nC, gamQ T Q j - T.c j ≤ (1 + 2 * g) / B := by
  intro j hj
  obtain ⟨h1, h2⟩ := gap_parts hgap
  have h3 := lLow_le_mix T Q lam Q' hf.sum_one hf.nonneg
  have h4 := lagr_feasible_le T lam Q' hl hf.meets
  have h5 := (lHigh_ge T B (le_of_lt hB) Q).2 j hj
  rw [le_div_iff₀ hB]
  unfold viol at h5
  linarith

/-- errors in [0,1] per hypothesis give an error in [0,1] for every distribution -/
theorem errQ_unit_interval (T : Table) (Q : Nat → Rat) (he : ∀ i < T.nH, 0 ≤ T.err i ∧ T.err i ≤ 1)
    (hs : ∑ i ∈ range T.nH, Q i = 1) (hq : ∀ i < T.nH, 0 ≤ Q i) : 0 ≤ errQ T Q ∧ errQ T Q ≤ 1 := by
  rw [errQ, sumTo_eq]
  constructor
  · apply Finset.sum_nonneg
    intro i hi
    have hi' := Finset.mem_range.mp hi
    exact mul_nonneg (hq i hi') (he i hi').1
  · rw [← hs]
    apply Finset.sum_le_sum
    intro i hi
    have hi' := Finset.mem_range.mp hi
    have := mul_le_mul_of_nonneg_left (he i hi').2 (hq i hi')
    linarith

/-- `L_high` is the value of the multiplier player's best response: `L(Q, λ) ≤ L_high` for every
    `λ ≥ 0` with `‖λ‖₁ ≤ B` (so `gap ≤ g` makes `(Q, λ̂)` a `g`-approximate saddle point). -/
theorem lHigh_is_max (T : Table) (B : Rat) (Q lam : Nat → Rat)
    (hl : ∀ j < T.nC, 0 ≤ lam j) (hB : ∑ j ∈ range T.nC, lam j ≤ B) : lagr T Q lam ≤ lHigh T B Q :=
  lagr_le_lHigh T B Q lam hl hB

theorem gap_nonneg (T : Table) (B : Rat) (Q lam : Nat → Rat) (cands : List Nat) :
    0 ≤ gap T B Q lam cands := by
  unfold gap EGGen.gapOf
  have := lLow_le_L T Q lam cands
  exact le_trans (by linarith) (max2_ge_left _ _)

/-- **Certificate.**  The gap `eval_gap` computes with ANY list of candidate best responses that
    contains a true best response `i*` to `λ̂` (an exact learner returns one) is at least the true
    duality gap over the whole class — so `best_gap_` never understates the gap. -/
theorem gap_ge_true_gap (T : Table) (B : Rat) (Q lam : Nat → Rat) (cands : List Nat) (istar : Nat)
    (hmem : istar ∈ cands) (hbest : ∀ i < T.nH, lPure T lam istar ≤ lPure T lam i) :
    trueGap T B Q lam ≤ gap T B Q lam cands := by
  have hlow : lLow T Q lam cands ≤ lLow T Q lam (List.range T.nH) := by
    apply le_foldMin
    · exact lLow_le_L T Q lam cands
    · intro i hi
      exact le_trans (lLow_le_pure T Q lam cands istar hmem) (hbest i (List.mem_range.mp hi))
  unfold trueGap gap EGGen.gapOf
  have h1 := max2_ge_left (lagr T Q lam - lLow T Q lam cands) (lHigh T B Q - lagr T Q lam)
  have h2 := max2_ge_right (lagr T Q lam - lLow T Q lam cands) (lHigh T B Q - lagr T Q lam)
  unfold EGGen.max2
  split
  · exact h2
  · exact le_trans (by linarith) h1

/-- with candidates inside the class the computed gap never exceeds the true gap either -/
theorem gap_le_true_gap (T : Table) (B : Rat) (Q lam : Nat → Rat) (cands : List Nat)
    (hsub : ∀ i ∈ cands, i < T.nH) : gap T B Q lam cands ≤ trueGap T B Q lam := by
  have hlow : lLow T Q lam (List.range T.nH) ≤ lLow T Q lam cands := by
    apply le_foldMin
    · exact lLow_le_L T Q lam _
    · intro i hi
      exact lLow_le_pure T Q lam _ i (List.mem_range.mpr (hsub i hi))
  unfold trueGap gap EGGen.gapOf
  have h1 := max2_ge_left (lagr T Q lam - lLow T Q lam (List.range T.nH)) (lHigh T B Q - lagr T Q lam)
  have h2 := max2_ge_right (lagr T Q lam - lLow T Q lam (List.range T.nH)) (lHigh T B Q - lagr T Q lam)
  unfold EGGen.max2
  split
  · exact h2
  · exact le_trans (by linarith) h1

/-- `_eval` replaces `λ̂` by `project_lambda λ̂`; when the `-` entries of every gamma vector are the
    negated `+` entries (UtilityParity, ratio 1) this changes `λ̂·γ(h)` for no `h`, so a best response
    to the recorded (unprojected) `λ̂` is a best response to the vector the gap is evaluated at. -/
theorem project_preserves_best_response (m : Nat) (lam gam : Nat → Rat)
    (hg : ∀ j < m, gam (m + j) = -gam j) :
    ∑ j ∈ range (m + m), project m lam j * gam j = ∑ j ∈ range (m + m), lam j * gam j :=
  project_dot m lam gam hg

theorem project_nonneg (m : Nat) (lam : Nat → Rat) (j : Nat) : 0 ≤ project m lam j :=
  Saddle.project_nonneg m lam j

theorem project_l1_le (m : Nat) (lam : Nat → Rat) (hl : ∀ j < m + m, 0 ≤ lam j) :
    ∑ j ∈ range (m + m), project m lam j ≤ ∑ j ∈ range (m + m), lam j :=
  Saddle.project_l1_le m lam hl

/-- `best_iter_`: in range, within `_PRECISION` of the smallest gap, and the last such iteration. -/
theorem best_iter_spec (gaps : List Rat) (i : Nat) (h : bestIter gaps = some i) :
    i < gaps.length ∧ gaps.getD i 0 ≤ minOf gaps + EGGen.precision ∧
    ∀ k < gaps.length, gaps.getD k 0 ≤ minOf gaps + EGGen.precision → k ≤ i := by
  obtain ⟨h1, h2, h3⟩ := bestIter_spec gaps i h
  refine ⟨h1, by simpa [EGGen.keep] using h2, ?_⟩
  intro k hk hle
  exact h3 k hk (by simpa [EGGen.keep] using hle)

/-- **Early stop.**  If the loop leaves before `max_iter` iterations, then at least `_MIN_ITER + 1`
    iterations ran and the gap of the returned iterate (`best_gap_`) is strictly below `nu` — including
    when the returned iterate is not the last one (the `_PRECISION` tie rule). -/
theorem early_stop_lt_nu (gapAt : Nat → Rat) (nu : Rat) (maxIter : Nat)
    (h : runLen gapAt nu maxIter < maxIter) :
    ∃ i, bestIter (recorded gapAt nu maxIter) = some i ∧
      (recorded gapAt nu maxIter).getD i 0 < nu ∧ EGGen.minIter < runLen gapAt nu maxIter := by
  unfold recorded
  unfold runLen at h ⊢
  cases hfind : (List.range maxIter).find? (fun t => EGGen.breakCond (gapAt t) nu t) with
  | none => rw [hfind] at h; simp at h
  | some t =>
    simp only []
    have hbc := List.find?_some hfind
    simp only [EGGen.breakCond, Bool.and_eq_true, decide_eq_true_eq] at hbc
    have hne : (List.range (t + 1)).map gapAt ≠ [] := by simp
    obtain ⟨i, hi⟩ := bestIter_isSome _ hne
    obtain ⟨h1, h2, h3⟩ := best_iter_spec _ i hi
    have hlen : ((List.range (t + 1)).map gapAt).length = t + 1 := by simp
    have hget : ∀ k, k < t + 1 → ((List.range (t + 1)).map gapAt).getD k 0 = gapAt k := by
      intro k hk
      rw [getD_of_lt _ _ (by rw [hlen]; exact hk)]; simp
    refine ⟨i, hi, ?_, by have := hbc.2; omega⟩
    rw [hlen] at h1 h3
    by_cases hk : gapAt t ≤ minOf ((List.range (t + 1)).map gapAt) + EGGen.precision
    · have := h3 t (by omega) (by rw [hget t (by omega)]; exact hk)
      have hit : i = t := by omega
      rw [hit, hget t (by omega)]; exact hbc.1
    · have h2' := h2
      rw [hget i h1] at h2' ⊢
      have := not_le.mp hk
      linarith [hbc.1]

/-! Non-vacuity: a concrete 2-hypothesis, 2-constraint table (h0 = accurate but unfair, h1 = fair). -/
def exT : Table := mkTable [0, 1/2] [[1/2, 0], [-1/2, 0]] [1/10, 1/10]
def exQ : Nat → Rat := vec [1/5, 4/5]
def exLam : Nat → Rat := vec [1, 0]

example : errQ exT exQ = 2/5 := by decide +kernel
example : lagr exT exQ exLam = 2/5 := by decide +kernel
example : lHigh exT 4 exQ = 2/5 := by decide +kernel
example : trueGap exT 4 exQ exLam = 0 := by decide +kernel
example : trueGap exT 4 (vec [1, 0]) exLam = 6/5 := by decide +kernel
example : Feasible exT exQ :=
  ⟨by decide +kernel, fun i hi => by
      have : i = 0 ∨ i = 1 := by have : i < 2 := hi; omega
      rcases this with rfl | rfl <;> decide +kernel,
    fun j hj => by
      have : j = 0 ∨ j = 1 := by have : j < 2 := hj; omega
      rcases this with rfl | rfl <;> decide +kernel⟩
example : bestIter [3, 1, 2, 1 + 1/200000000, 5] = some 3 := by decide +kernel
example : runLen (vec [9, 9, 9, 9, 9, 9, 1/2, 0]) 1 20 = 7 := by decide +kernel
example : runLen (vec [0, 0, 0, 0, 0, 0]) 1 4 = 4 := by decide +kernel
example : (project 1 (vec [3, 1])) 0 = 2 ∧ (project 1 (vec [3, 1])) 1 = 0 := by decide +kernel

end C08
