/-
C13 — multiple sensitive/control columns group rows by tuple equality, collision-free.
Property theorems only; helper lemmas live in `Lemmas/Merge.lean`.

The encoder (`Merge.escape`, `Merge.joinNames`) is built from `Generated/MergeConsts.lean`, i.e. from
the separator and the `.replace(..)` chain that `_merge_columns` contains *now*; every theorem below
depends on `escape_spec`, which is proved from those generated constants.

CLAUSE → THEOREM TABLE (review R1; property text in properties.jsonl, id C13)
  (1) "two rows belong to the same group exactly when they agree in every column (compared as strings)"
        several columns (merged): `same_group_iff` (equal widths ≥ 1, column-wise form), `join_injective` (ANY two
        non-empty rows, widths may differ), `mergeKey_injective` (on Lean `String`s, what the driver runs);
        what the callers really do (1 column: NOT merged, NOT stringified; ≥ 2 columns: merged — thresholds lifted):
        `encode_single`, `encode_multi`, `encode_injective`, `encode_same_group_iff` (+ `_control`), all widths ≥ 1.
        "compared as strings": the model's cell IS the string numpy's `astype(str)` produced; `astype(str)` itself
        (fixed-width `<U` truncation of a pre-typed unicode array, stripping of trailing NULs) is NOT modelled — it is in
        the trusted list of harness/props/c13.py and observed by corpus/C13/truncated-stringification.json.
  (2) "whatever characters the values contain – commas and backslashes included": all theorems quantify over
        arbitrary `List Char` cells (empty strings, separators, escape characters): `escape_spec`, `split_join`.
        Necessity of non-emptiness of the row: `empty_row_collides`.
  (3) "so the induced partition equals MetricFrame's partition into non-empty intersectional groups":
        `partition_eq_tuple`, `partition_eq_metricframe` (merged keys, width ≥ 1) and — for the group ids the callers
        actually produce, single column included — `encode_partition_eq_tuple`, `encode_partition_eq_metricframe`
        (sensitive and control).  `class_membership` / `same_class_iff`: what "partition" means position-wise.
  (4) "ThresholdOptimizer applies at predict time the rule learned for the same tuple at fit time":
        THEOREM at encoder level: `predict_selects_same_tuple` (the predict-time group id of a row equals the fit-time
        group id of row i iff the two rows are the same tuple) + `fit_predict_same_encoder` (the lifted call sites of
        fit and `_pmf_predict` reach the same function).  The dictionary lookup `interpolation_dict[group_id]` and the
        application of the rule are NOT in the Lean model: they are CORRESPONDENCE only (c13.py relations
        `C13.predict_rule_same_tuple`, `C13.to_keys`), checked against a first-principles per-tuple refit.
-/
import FairModel.Lemmas.Merge
import FairModel.Lemmas.MergePart

namespace C13
open Merge

/-- The source's replacement chain is the per-character encoding: the escape character and the
    separator get an escape character in front, every other character is kept. -/
theorem escape_spec (s : Str) :
    escape s = s.flatMap (fun c => if c = esc ∨ c = sep then [esc, c] else [c]) :=
  escape_eq_flatMap s

/-- **Decoding inverts the merge** for every non-empty row over arbitrary characters
    (commas, backslashes, empty strings, anything). -/
theorem split_join (fs : List Str) (hne : fs ≠ []) : split (joinNames fs) = fs :=
  split_joinWith_escape fs hne

/-- **Collision freedom**: two non-empty rows with the same merged key are the same tuple —
    whatever their widths.  (The code merges only when there are ≥ 2 columns, and all rows of one
    table have the same width; neither fact is needed beyond non-emptiness.) -/
theorem join_injective (fs gs : List Str) (hf : fs ≠ []) (hg : gs ≠ [])
    (h : joinNames fs = joinNames gs) : fs = gs := by
  rw [← split_join fs hf, ← split_join gs hg, h]

/-- the form the plan asked for: rows of one table (equal width ≥ 2) -/
theorem join_injective_same_width (fs gs : List Str) (hlen : fs.length = gs.length)
    (h2 : 2 ≤ fs.length) (h : joinNames fs = joinNames gs) : fs = gs :=
  join_injective fs gs (by intro e; simp [e] at h2) (by intro e; have : gs.length = 0 := by rw [e]; rfl
                                                        omega) h

/-- Non-emptiness cannot be dropped: the zero-column row and the one-column row holding the empty
    string get the same key.  This is why `_validate_and_reformat_input`'s guard `shape[1] > 1`
    matters (a table with ≥ 2 columns has no empty row). -/
theorem empty_row_collides : joinNames [] = joinNames [[]] ∧ ([] : List Str) ≠ [[]] := by
  constructor
  · decide
  · simp

/-- Two rows of a table get the same merged key **iff they agree in every column** (as strings). -/
theorem same_group_iff (r₁ r₂ : List Str) (hlen : r₁.length = r₂.length) (hpos : 0 < r₁.length) :
    joinNames r₁ = joinNames r₂ ↔ ∀ k, k < r₁.length → r₁.getD k [] = r₂.getD k [] := by
  have h1 : r₁ ≠ [] := by intro e; simp [e] at hpos
  have h2 : r₂ ≠ [] := by
    intro e
    have : r₂.length = 0 := by rw [e]; rfl
    omega
  constructor
  · intro h k _
    rw [join_injective r₁ r₂ h1 h2 h]
  · intro h
    have : r₁ = r₂ := by
      apply List.ext_getElem hlen
      intro i hi1 hi2
      have := h i hi1
      simpa [List.getD, List.getElem?_eq_getElem hi1, List.getElem?_eq_getElem hi2] using this
    rw [this]

/-- the same statement on Lean `String`s, as the compiled driver computes it -/
theorem mergeKey_injective (r₁ r₂ : List String) (h1 : r₁ ≠ []) (h2 : r₂ ≠ [])
    (h : mergeKey r₁ = mergeKey r₂) : r₁ = r₂ := by
  unfold mergeKey ofStr at h
  have h' := join_injective _ _ (by simpa using h1) (by simpa using h2) (String.ofList_injective h)
  exact List.map_injective_iff.mpr (fun a b hab => String.toList_injective hab) h'

/-- position `i` lies in the class of key `k` exactly when the `i`-th key is `k`: `classes` really is
    "group the row positions by key" -/
theorem class_membership {α : Type} [DecidableEq α] (k : α) (keys : List α) (i : Nat) :
    i ∈ positions k keys ↔ keys[i]? = some k :=
  mem_positions k keys i

/-- the merged keys of a table with no empty row are pairwise equal exactly where the rows are -/
theorem same_class_iff (rows : List (List Str)) (hne : ∀ r ∈ rows, r ≠ []) (i j : Nat)
    (hi : i < rows.length) (hj : j < rows.length) :
    (mergeColumns rows)[i]? = (mergeColumns rows)[j]? ↔ rows[i] = rows[j] := by
  unfold mergeColumns
  simp only [List.getElem?_map, List.getElem?_eq_getElem hi, List.getElem?_eq_getElem hj,
    Option.map_some, Option.some.injEq]
  constructor
  · intro h
    exact join_injective _ _ (hne _ (List.getElem_mem hi)) (hne _ (List.getElem_mem hj)) h
  · intro h; rw [h]

/-- **The partition induced by the merged keys is the partition by tuple equality.** -/
theorem partition_eq_tuple (rows : List (List Str)) (hne : ∀ r ∈ rows, r ≠ []) :
    classes (mergeColumns rows) = classes rows := by
  unfold mergeColumns
  exact classes_map joinNames rows (fun x hx y hy h => join_injective x y (hne x hx) (hne y hy) h)

/-- **... and it is MetricFrame's partition**: the non-empty cells of the product of the per-column
    levels are exactly the classes of the merged keys (as sets of row positions), for every
    rectangular table with at least one column. -/
theorem partition_eq_metricframe (rows : List (List Str)) (w : Nat) (hw : 0 < w)
    (hrect : ∀ r ∈ rows, r.length = w) (c : List Nat) :
    c ∈ interCells rows w ↔ c ∈ classes (mergeColumns rows) := by
  have hne : ∀ r ∈ rows, r ≠ [] := by
    intro r hr e
    have := hrect r hr
    simp [e] at this
    omega
  rw [partition_eq_tuple rows hne, mem_classes]
  unfold interCells
  simp only [List.mem_filter, List.mem_map, Bool.not_eq_true', List.isEmpty_eq_false_iff]
  constructor
  · rintro ⟨⟨combo, _, rfl⟩, hc⟩
    exact ⟨combo, (positions_ne_nil combo rows).mp hc, rfl⟩
  · rintro ⟨r, hr, rfl⟩
    exact ⟨⟨r, row_mem_combos rows w r hr (hrect r hr), rfl⟩, (positions_ne_nil r rows).mpr hr⟩

/-! ### the callers of `_merge_columns` (lifted into `Generated/MergeCallers.lean`) -/

/-- a single column is NOT merged and NOT stringified: the cell value itself is the group id, for sensitive and for
    control features alike … -/
theorem encode_single (v : Str) : encodeSensitive [v] = .raw v ∧ encodeControl [v] = .raw v := by
  constructor <;> simp [encodeSensitive, encodeControl, encodeWith, MergeCallers.sfThreshold, MergeCallers.cfThreshold]

/-- … and two or more columns are merged with `_join_names` -/
theorem encode_multi (r : List Str) (h : 2 ≤ r.length) :
    encodeSensitive r = .merged (joinNames r) ∧ encodeControl r = .merged (joinNames r) := by
  have h' : r.length > 1 := h
  constructor <;> simp [encodeSensitive, encodeControl, encodeWith, MergeCallers.sfThreshold, MergeCallers.cfThreshold, h']

/-- the group id is injective on rows of one table (any width ≥ 1): the single-column passthrough is injective too -/
theorem encode_injective (r₁ r₂ : List Str) (hlen : r₁.length = r₂.length) (hpos : 0 < r₁.length) :
    (encodeSensitive r₁ = encodeSensitive r₂ → r₁ = r₂) ∧ (encodeControl r₁ = encodeControl r₂ → r₁ = r₂) := by
  have key : ∀ t, t = 1 → encodeWith t r₁ = encodeWith t r₂ → r₁ = r₂ := by
    intro t ht h
    subst ht
    unfold encodeWith at h
    by_cases h1 : r₁.length > 1
    · have h2 : r₂.length > 1 := hlen ▸ h1
      simp only [h1, h2, if_true, GroupId.merged.injEq] at h
      exact join_injective r₁ r₂ (by intro e; simp [e] at hpos) (by intro e; rw [e] at h2; simp at h2) h
    · have h2 : ¬ r₂.length > 1 := hlen ▸ h1
      simp only [h1, h2, if_false, GroupId.raw.injEq] at h
      match r₁, r₂, hlen, hpos, h1 with
      | [a], [b], _, _, _ => simp at h; rw [h]
      | [_], [], hl, _, _ => simp at hl
      | [_], _ :: _ :: _, hl, _, _ => simp at hl
      | _ :: _ :: _, _, _, _, h1 => simp at h1
  exact ⟨key MergeCallers.sfThreshold rfl, key MergeCallers.cfThreshold rfl⟩

/-- hence, at any width, two rows are in the same group exactly when they agree in every column -/
theorem encode_same_group_iff (r₁ r₂ : List Str) (hlen : r₁.length = r₂.length) (hpos : 0 < r₁.length) :
    encodeSensitive r₁ = encodeSensitive r₂ ↔ r₁ = r₂ :=
  ⟨(encode_injective r₁ r₂ hlen hpos).1, fun h => by rw [h]⟩

/-- control features are merged separately from the sensitive features, by the same function under the same
    column-count test -/
theorem control_uses_same_encoder :
    MergeCallers.cfMerger = MergeCallers.sfMerger ∧ MergeCallers.sfMerger = "_merge_columns" ∧
    MergeCallers.cfThreshold = MergeCallers.sfThreshold ∧ (∀ r, encodeControl r = encodeSensitive r) := by
  refine ⟨by decide, by decide, by decide, fun r => rfl⟩

/-- every fit-time call site (ThresholdOptimizer.fit, the `load_data` of all moments) and the predict-time call site
    (InterpolatedThresholder._pmf_predict, reached unchanged from ThresholdOptimizer.predict) encode their sensitive
    features with the same function: the lifted call targets are equal -/
theorem fit_predict_same_encoder :
    (∀ a ∈ MergeCallers.callSites, ∀ b ∈ MergeCallers.callSites, a.2.2 = b.2.2) ∧
    (∃ a ∈ MergeCallers.callSites, a.1 = "ThresholdOptimizer.fit" ∧ a.2.1 = "fit") ∧
    (∃ b ∈ MergeCallers.callSites, b.1 = "InterpolatedThresholder._pmf_predict" ∧ b.2.1 = "predict") := by
  refine ⟨by decide, ⟨_, List.mem_cons_self, rfl, rfl⟩, ⟨_, List.mem_cons_of_mem _ List.mem_cons_self, rfl, rfl⟩⟩

/-- so a row presented at predict time selects the rule learned for a fit-time row exactly when the two rows are the
    same tuple (the encoder is one function of the row, whatever the other rows of either table are) -/
theorem predict_selects_same_tuple (fitRows : List (List Str)) (q : List Str) (i : Nat) (hi : i < fitRows.length)
    (hlen : q.length = fitRows[i].length) (hpos : 0 < q.length) :
    encodeSensitive q = (fitRows.map encodeSensitive)[i]'(by simpa using hi) ↔ q = fitRows[i] := by
  rw [List.getElem_map]
  exact encode_same_group_iff q fitRows[i] hlen hpos

/-- the partition induced by the group ids the callers actually produce (single column passed through, several
    columns merged) is the partition by tuple equality — every rectangular table of width ≥ 1, sensitive and control -/
theorem encode_partition_eq_tuple (rows : List (List Str)) (w : Nat) (hw : 0 < w) (hrect : ∀ r ∈ rows, r.length = w) :
    classes (rows.map encodeSensitive) = classes rows ∧ classes (rows.map encodeControl) = classes rows := by
  constructor
  · exact classes_map encodeSensitive rows (fun x hx y hy h =>
      (encode_injective x y (by rw [hrect x hx, hrect y hy]) (by rw [hrect x hx]; exact hw)).1 h)
  · exact classes_map encodeControl rows (fun x hx y hy h =>
      (encode_injective x y (by rw [hrect x hx, hrect y hy]) (by rw [hrect x hx]; exact hw)).2 h)

/-- … and hence MetricFrame's partition into non-empty intersectional cells, at every width ≥ 1 (for width 1 the
    "intersection" is the single column's levels) -/
theorem encode_partition_eq_metricframe (rows : List (List Str)) (w : Nat) (hw : 0 < w)
    (hrect : ∀ r ∈ rows, r.length = w) (c : List Nat) :
    (c ∈ interCells rows w ↔ c ∈ classes (rows.map encodeSensitive)) ∧
    (c ∈ interCells rows w ↔ c ∈ classes (rows.map encodeControl)) := by
  have hne : ∀ r ∈ rows, r ≠ [] := by
    intro r hr e
    have := hrect r hr
    simp [e] at this
    omega
  have h := partition_eq_metricframe rows w hw hrect c
  rw [partition_eq_tuple rows hne] at h
  obtain ⟨h1, h2⟩ := encode_partition_eq_tuple rows w hw hrect
  rw [h1, h2]
  exact ⟨h, h⟩

/-- control features: same statement as `encode_same_group_iff` -/
theorem encode_same_group_iff_control (r₁ r₂ : List Str) (hlen : r₁.length = r₂.length) (hpos : 0 < r₁.length) :
    encodeControl r₁ = encodeControl r₂ ↔ r₁ = r₂ :=
  ⟨(encode_injective r₁ r₂ hlen hpos).2, fun h => by rw [h]⟩

/-- equal widths cannot be dropped for the CALLERS' group ids (they can for `join_injective`): the one-column row
    `("a,b")` is passed through raw while the two-column row `("a","b")` is merged — different constructors, so no
    collision arises in the model; in the code both become the Python string `'a,b'`, but never inside one table
    (a table has one width), and fit/predict tables of different widths are outside the property -/
example : encodeSensitive [['a', ',', 'b']] = .raw ['a', ',', 'b'] ∧
    encodeSensitive [['a'], ['b']] = .merged ['a', ',', 'b'] := by decide +kernel

example : encodeSensitive [['1']] = .raw ['1'] := by decide +kernel
example : encodeSensitive [['1'], ['1', '.', '0']] = .merged ['1', ',', '1', '.', '0'] := by decide +kernel

/-! ### The classes are a partition of the row positions (no row lost, none counted twice, no empty group) -/

/-- **Every row lies in exactly one class**: for every position of the key list there is one class containing
    it, and any class containing it is that one. -/
theorem classes_cover_unique {α : Type} [DecidableEq α] (keys : List α) (i : Nat) (hi : i < keys.length) :
    ∃ c ∈ classes keys, i ∈ c ∧ ∀ c' ∈ classes keys, i ∈ c' → c' = c := by
  refine ⟨positions keys[i] keys, ?_, ?_, ?_⟩
  · rw [mem_classes]; exact ⟨keys[i], List.getElem_mem hi, rfl⟩
  · rw [mem_positions]; exact List.getElem?_eq_getElem hi
  · intro c' hc' hic'
    obtain ⟨k, _, rfl⟩ := (mem_classes c' keys).mp hc'
    rw [mem_positions, List.getElem?_eq_getElem hi] at hic'
    rw [Option.some.inj hic']

/-- two different classes share no row -/
theorem classes_disjoint {α : Type} [DecidableEq α] (keys : List α) (c c' : List Nat)
    (hc : c ∈ classes keys) (hc' : c' ∈ classes keys) (i : Nat) (hi : i ∈ c) (hi' : i ∈ c') : c = c' := by
  obtain ⟨k, _, rfl⟩ := (mem_classes c keys).mp hc
  have hlt : i < keys.length := positions_lt k keys i hi
  obtain ⟨d, _, _, huniq⟩ := classes_cover_unique keys i hlt
  rw [huniq _ hc hi, huniq _ hc' hi']

/-- classes only contain row positions, and **no class is empty** (the groups are the NON-EMPTY intersections) -/
theorem classes_nonempty_inrange {α : Type} [DecidableEq α] (keys : List α) (c : List Nat) (hc : c ∈ classes keys) :
    c ≠ [] ∧ ∀ i ∈ c, i < keys.length := by
  obtain ⟨k, hk, rfl⟩ := (mem_classes c keys).mp hc
  exact ⟨(positions_ne_nil k keys).mpr hk, fun i hi => positions_lt k keys i hi⟩

/-- one class per distinct key, each class listed once -/
theorem classes_count {α : Type} [DecidableEq α] (keys : List α) :
    (classes keys).length = (distinct keys).length ∧ (classes keys).Nodup := by
  refine ⟨by simp [classes], ?_⟩
  unfold classes
  refine (List.nodup_map_iff_inj_on (distinct_nodup keys)).mpr ?_
  intro k hk k' _ h
  exact positions_injective k k' keys ((mem_distinct k keys).mp hk) h

/-- the partition laws for the groups a multi-column table induces through the merged keys -/
theorem merged_partition (rows : List (List Str)) (i : Nat) (hi : i < rows.length) :
    ∃ c ∈ classes (mergeColumns rows), i ∈ c ∧ ∀ c' ∈ classes (mergeColumns rows), i ∈ c' → c' = c :=
  classes_cover_unique (mergeColumns rows) i (by simpa [mergeColumns] using hi)

example : ∃ c ∈ classes ([3, 5, 3] : List Nat), 2 ∈ c := ⟨[0, 2], by decide +kernel, by decide⟩
example : classes ([3, 5, 3] : List Nat) = [[0, 2], [1]] := by decide +kernel

/-! Non-vacuity and regression examples (evaluated by the kernel). -/

/-- adversarial values: separator, escape character, empty string -/
def exRows : List (List Str) :=
  [[[','], ['\\']], [[], [',', '\\']], [['\\', ','], []], [[','], ['\\']], [['a'], ['1', '.', '0']]]

example : mergeColumns exRows =
    [['\\', ',', ',', '\\', '\\'], [',', '\\', ',', '\\', '\\'], ['\\', '\\', '\\', ',', ','],
     ['\\', ',', ',', '\\', '\\'], ['a', ',', '1', '.', '0']] := by decide +kernel
example : ∀ r ∈ exRows, r.length = 2 := by decide +kernel
example : classes (mergeColumns exRows) = [[0, 3], [1], [2], [4]] := by decide +kernel
example : interCells exRows 2 = [[0, 3], [1], [2], [4]] := by decide +kernel
example : split (joinNames [[','], ['\\'], []]) = [[','], ['\\'], []] := by decide +kernel
example : mergeKey ["a,", "\\"] = "a\\,,\\\\" := by decide +kernel

/-- Regression witnesses: what the two classic slips would do.  Without the backslash escape the rows
    `("\\", ",")` and `(",\\", "")` collide; with the two replacements swapped the comma's escape
    character gets escaped itself and `("\\", "")`/… no longer decode — here a concrete collision of the
    unescaped join. -/
example : joinWith ([['\\'], [',']].map (replaceChar ',' ['\\', ','])) =
          joinWith ([[',', '\\'], []].map (replaceChar ',' ['\\', ','])) := by decide +kernel
example : joinWith [['a', ','], ['b']] = joinWith [['a'], [',', 'b']] := by decide +kernel

/-! non-vacuity of the caller-level theorems: width 1 and width 2 tables meeting every hypothesis -/
def exRows1 : List (List Str) := [[[',']], [[]], [[',']], [['\\']]]
example : ∀ r ∈ exRows1, r.length = 1 := by decide +kernel
example : classes (exRows1.map encodeSensitive) = [[0, 2], [1], [3]] ∧ interCells exRows1 1 = [[0, 2], [1], [3]] := by
  decide +kernel
example : classes (exRows.map encodeSensitive) = [[0, 3], [1], [2], [4]] ∧
    classes (exRows.map encodeControl) = classes exRows := by decide +kernel
-- `predict_selects_same_tuple`: query row = fit row 3 (≠ fit row 1 although both contain only separators/escapes)
example : (exRows.map encodeSensitive)[3]'(by decide) = encodeSensitive [[','], ['\\']] ∧
    (exRows.map encodeSensitive)[1]'(by decide) ≠ encodeSensitive [[','], ['\\']] := by decide +kernel
example : ([[','], ['\\']] : List Str).length = exRows[3].length ∧ 0 < ([[','], ['\\']] : List Str).length := by decide
-- `same_group_iff`: both directions on concrete rows
example : joinNames [[','], []] ≠ joinNames [[], [',']] ∧ joinNames [['a'], []] = joinNames [['a'], []] := by decide +kernel

end C13
