/-
C04 — ThresholdOptimizer equalises the constrained metric exactly on the training data.

Theorems about the model `Model/Threshold.lean` (which uses the METRIC_DICT / confusion tables generated from the
source).  All hold for every dataset (no size bound), any number of groups, every constraint metric, objective,
`flip`, grid size `N ≥ 1` and also for a forced grid index (the rule at ANY grid index is parity-satisfying).
"Every group contains both labels" is `BothLabels groups`; a successful fit implies it.
-/
/-
CLAUSE → THEOREM TABLE (review R1-B; property text in properties.jsonl, id C04)

| clause of the property text                                              | theorem(s)                                                        |
|--------------------------------------------------------------------------|-------------------------------------------------------------------|
| "after fit ... whenever every group contains both labels" (fit succeeds)  | fit_simple_succeeds, fit_EO_succeeds; converse: parity_* conclude |
|                                                                          | BothLabels; fit_simple_none_iff                                   |
| a group lacks a label ⇒ ValueError (outside the quantifier)               | fit_simple_rejects_degenerate, fit_EO_rejects_degenerate          |
| "expected value under the fitted randomised rule ... computed on the      | expectedMetric = m.eval (expCM (ruleProb rule) rows): sums over   |
|  training rows of each group"                                            | the ROWS of the predict-time probability; tied to `_pmf_predict`  |
|                                                                          | by fit_predict_consistent_simple / _EO (Pmf.thrPositive)          |
| "... of the constrained metric (selection rate, FPR, FNR, TPR, TNR)       | parity_simple (+_pairwise), ONE theorem generic in `xm` with       |
|  is the same for all groups"                                             | IsConstraintMetric xm := xm ∈ LIFTED SIMPLE_CONSTRAINTS ∨ eoX;     |
|                                                                          | all_simple_constraints_covered; parity_simple_of_bothLabels       |
| "both FPR and TPR for equalized odds"                                     | parity_EO, parity_EO_of_bothLabels                                 |
| "up to floating-point rounding"                                           | exact equality in Rat; rounding = tolerance of the correspondence  |
|                                                                          | (measured, see harness/thr_common.py TOL); F18 = the one place      |
|                                                                          | where rounding changes the RULE (threshold_betweenness_suffices,   |
|                                                                          | midpoint_strictly_between, threshold_on_score_breaks_rule)         |
| "any scores (including ties)"                                             | no hypothesis on scores anywhere; sweep_point_sound               |
| "any number of groups"                                                    | groups : List (List Row) arbitrary (EO: groups ≠ [] for success)  |
| "either setting of flip"                                                  | flip : Bool universally quantified                                |
| "any grid size"                                                           | N : Nat arbitrary: parity_*_any_grid, fit_*_succeeds_any_grid,     |
|                                                                          | *_of_bothLabels (N = 0 = the grid {0} included; the DRIVER refuses |
|                                                                          | n = 0 and the generator never draws it: theorem only, no tie)      |
Supporting: metric_affine, expected_metric_of_mixture, hull_invariants, sortLex_sorted, interpIndex_bracket (no x/0:
`interpolateAt` returns none on a zero-width bracket and group_rule_exists shows it is never taken), group_rule_exists,
src_* (what the lifted text must say).
-/
import FairModel.Lemmas.ThresholdFit
import FairModel.Lemmas.C04Review
import FairModel.Lemmas.ThresholdPredict

set_option linter.unusedVariables false

namespace C04
open Threshold ThresholdGen

/-! ### Tie to `_tradeoff_curve_utilities.py`: what the definitions LIFTED on every run (`Generated/TradeoffSrc.lean`)
have to say for the geometry below.  `Model/Threshold.lean` is defined over the lifted definitions and every lemma file
goes through these statements (`Lemmas/ThresholdSrc.lean`), so an edit of the source breaks the matching one. -/

/-- hull: `r1` is dropped iff `(r1.y - r0.y) * (r2.x - r0.x) <= (r2.y - r0.y) * (r1.x - r0.x)`, i.e. iff `r1` is on or
    below the chord `r0 → r2`; collinear and duplicate points ARE dropped (`<=`, not `<`) -/
theorem src_hull_test (r0 r1 r2 : Pt) : dropTest r0 r1 r2 = true ↔ cross r0 r2 r1 ≤ 0 := dropTest_iff r0 r1 r2

/-- hull loop: `while len(selected) >= 2`, `r1 = selected[-1]`, `r0 = selected[-2]`, `selected.pop()` drops `r1` -/
theorem src_hull_loop : TradeoffSrc.hullMinLen = 2 ∧ TradeoffSrc.hullR1Back = 1 ∧ TradeoffSrc.hullR0Back = 2 ∧
    TradeoffSrc.hullPopsLast = true := src_hull_loop_shape

/-- the points are sorted by `["x", "y"]`, ascending, before the hull is taken; scores by decreasing score -/
theorem src_sort_orders (a b : Pt) (y r : Row) :
    (lexLt a b = true ↔ (a.x < b.x ∨ (a.x = b.x ∧ a.y < b.y))) ∧ (scoreBefore y r = true ↔ y.score < r.score) :=
  ⟨src_lexLt a b, src_scoreBefore y r⟩

/-- threshold candidates: `+inf` for the initial point, the midpoint between consecutive distinct scores, `-inf` last -/
theorem src_thresholds (t s : Rat) :
    thrInitial = Thr.pinf ∧ thrSentinel = Thr.ninf ∧ TradeoffSrc.midThreshold t s = (t + s) / 2 :=
  ⟨src_thrInitial, src_thrSentinel, src_midThreshold t s⟩

/-- **betweenness is all the sweep needs of a stored threshold**: two thresholds strictly between the same pair of
    consecutive score levels `lo < hi` define the same `>` rule and the same `<` rule on every score that is not strictly
    between the two levels (in particular on every training score) — so `sweep_point_sound`, and with it `parity_*`, hold
    for ANY stored threshold `θ` with `lo < θ < hi`, not only for the exact midpoint -/
theorem threshold_betweenness_suffices (θ θ' lo hi s : Rat) (h : lo < θ ∧ θ < hi) (h' : lo < θ' ∧ θ' < hi)
    (hs : s ≤ lo ∨ hi ≤ s) :
    (Thr.fin θ).below s = (Thr.fin θ').below s ∧ (Thr.fin θ).above s = (Thr.fin θ').above s := by
  simp only [Thr.below, Thr.above, src_opGt_eq, src_opLt_eq]
  rcases hs with hs | hs
  · exact ⟨by rw [decide_eq_false (by linarith), decide_eq_false (by linarith)],
           by rw [decide_eq_true (by linarith), decide_eq_true (by linarith)]⟩
  · exact ⟨by rw [decide_eq_true (by linarith), decide_eq_true (by linarith)],
           by rw [decide_eq_false (by linarith), decide_eq_false (by linarith)]⟩

/-- in exact arithmetic the lifted midpoint IS strictly between two distinct scores -/
theorem midpoint_strictly_between (t s : Rat) (h : s < t) :
    s < TradeoffSrc.midThreshold t s ∧ TradeoffSrc.midThreshold t s < t := by
  rw [src_midThreshold]; constructor <;> linarith

/-- ... and the hypothesis is sharp: a threshold ON the upper level (what binary64 rounding of the midpoint of two
    adjacent doubles produces, known finding F18) does not select that level with `>`, a threshold on the lower level
    does not select it with `<` -/
theorem threshold_on_score_breaks_rule (lo hi : Rat) :
    (Thr.fin hi).below hi = false ∧ (Thr.fin lo).above lo = false := by
  simp [Thr.below, Thr.above, src_opGt_eq, src_opLt_eq]

/-- interpolation index: `searchsorted(side="right") - 1`, and one more step to the left when a grid value with index
    ≥ 1 equals the vertex found -/
theorem src_interp_index (xs : List Rat) (i : Nat) (g : Rat) :
    interpIndex xs i g =
      (if countLE xs g = 0 then none else
        if i ≥ 1 ∧ xs[countLE xs g - 1]? = some g then
          (if countLE xs g - 1 = 0 then none else some (countLE xs g - 1 - 1))
        else some (countLE xs g - 1)) := src_interpIndex xs i g

/-- interpolation weights: `p0 = (x_next - g) / (x_next - x_cur)` goes with the LEFT vertex' operation and y,
    `p1 = 1 - p0` with the right one -/
theorem src_interp_weights (xcur xnext ycur ynext g : Rat) :
    TradeoffSrc.interpP0 xcur xnext g = (xnext - g) / (xnext - xcur) ∧
    TradeoffSrc.interpP1 xcur xnext g = 1 - (xnext - g) / (xnext - xcur) ∧
    TradeoffSrc.interpY xcur xnext ycur ynext g =
      (xnext - g) / (xnext - xcur) * ycur + (1 - (xnext - g) / (xnext - xcur)) * ynext ∧
    TradeoffSrc.op0FromNext = false ∧ TradeoffSrc.op1FromNext = true :=
  ⟨src_interpP0 xcur xnext g, src_interpP1 xcur xnext g, src_interpY xcur xnext ycur ynext g, src_interpOps.1,
   src_interpOps.2⟩

/-- fit glue (`Generated/ThresholdFitSrc.lean`): the grid is `np.linspace(0, 1, N + 1)`, the overall curve is the
    `len(group) / n`-weighted sum of the groups' interpolated objectives accumulated from 0, `p_ignore` is 0 on the ROC
    diagonal and `(y - y_best) / (y - x)` elsewhere, the best index is `idxmax`, `n_negative = n - n_positive` -/
theorem src_fit_glue (N i : Nat) (groups : List (List Row)) (is : List Interp) (r : Interp) (yBest n npos : Rat) :
    gridVal N i = (i : Rat) / (N : Rat) ∧
    objSimple groups is =
      (List.zipWith (fun (g : List Row) (r : Interp) => ((g.length : Rat) / (totalRows groups : Rat)) * r.y) groups is).sum ∧
    pIgnore r yBest = (if r.y = r.x then 0 else (r.y - yBest) / (r.y - r.x)) ∧
    ThresholdFitSrc.bestIsIdxmax = true ∧ ThresholdFitSrc.eoNNeg n npos = n - npos :=
  ⟨src_gridVal N i, src_objSimple groups is, src_pIgnore r yBest, (src_fit_misc n npos).1, (src_fit_misc n npos).2⟩

/-- predict path as the fit sees it (`Generated/ThresholderSrc.lean`): operator ">" is `score > threshold`, "<" is
    `score < threshold`, and `_pmf_predict` is `p_ignore * c + (1 - p_ignore) * (p0 * op0(s) + p1 * op1(s))` -/
theorem src_predict_path (r : Rule) (s t : Rat) :
    (ThresholderSrc.opGt s t = true ↔ t < s) ∧ (ThresholderSrc.opLt s t = true ↔ s < t) ∧
    ruleProb r s =
      (match r.ign with
       | none => r.p0 * ind (r.op0.apply s) + r.p1 * ind (r.op1.apply s)
       | some (pi, c) => pi * c + (1 - pi) * (r.p0 * ind (r.op0.apply s) + r.p1 * ind (r.op1.apply s))) :=
  ⟨by rw [src_opGt_eq]; simp, by rw [src_opLt_eq]; simp, src_ruleProb r s⟩

/-! ### The model COMPUTES WITH the lifted loop shape, extremum, reduction, guard and counts
Each `lifted_*` theorem says: the model function evaluated with the value the lifter read from the source equals the
closed form every theorem below is proved about.  An edit of that source text changes the generated value and breaks the
theorem named here (or is refused by the lifter). -/

/-- `_filter_points_to_get_convex_hull`, run with the LIFTED `while len(selected) >= 2` / `selected[-1]` / `selected[-2]` /
    `selected.pop()` and the lifted turn test, raises no `IndexError` and is Andrew's monotone chain `hullRev` (the function
    `hull_invariants` is proved about) -/
theorem lifted_hull_loop (pts : List Pt) :
    hullSrc pts = some (upperHull pts) ∧ upperHull pts = (hullRev pts).reverse := by
  rw [upperHull_eq]; exact ⟨hullSrc_eq pts, rfl⟩

/-- the `while` loop alone: from any stack, with `len + 1` fuel, the lifted loop returns what the structural recursion returns -/
theorem lifted_hull_while (r2 : Pt) (st : List Pt) : popWhileSrc r2 (st.length + 1) st = some (popWhile r2 st) :=
  popWhileSrc_eq r2 _ st (Nat.lt_succ_self _)

/-- `_get_counts` (lifted: `len(labels)`, `sum(labels)`, `n - n_positive`) gives the numbers of rows / positive / negative
    rows, and the lifted guard `n_positive == 0 or n_negative == 0` fires iff one of them is 0 -/
theorem lifted_counts_and_guard (flip : Bool) (xm ym : Metric) (rows : List Row) :
    srcCounts rows = ((rows.length : Rat), (nPos rows : Rat), (nNeg rows : Rat)) ∧
    (degenerate rows = true ↔ (nPos rows = 0 ∨ nNeg rows = 0)) ∧
    (tradeoffPoints flip xm ym rows = none ↔ (nPos rows = 0 ∨ nNeg rows = 0)) := by
  refine ⟨srcCounts_eq rows, src_degenerate rows, ?_⟩
  rw [tradeoffPoints_eq]
  by_cases h : nPos rows = 0 ∨ nNeg rows = 0 <;> simp [h]

/-- `idxmax` (lifted for both methods): the index chosen addresses a maximal entry and every EARLIER entry is strictly
    smaller — the first maximum -/
theorem lifted_best_index (l : List Rat) (hne : l ≠ []) :
    bestIndexSimple l = bestIndexEO l ∧
    ∃ m, l[bestIndexSimple l]? = some m ∧ (∀ v ∈ l, v ≤ m) ∧
      ∀ k w, k < bestIndexSimple l → l[k]? = some w → w < m := by
  rw [bestIndexSimple_eq, bestIndexEO_eq]
  obtain ⟨m, hm, hmax⟩ := argmaxFirst_spec l hne
  exact ⟨rfl, m, hm, hmax, fun k w hk hw => argmaxFirst_first l k w m hk hw hm⟩

/-- `np.amin(y_values, axis=1)` (lifted): `_y_min` at a grid point is an attained lower bound of the groups' y values -/
theorem lifted_y_min (ys : List Rat) (m : Rat) (h : yReduce ys = some m) : m ∈ ys ∧ ∀ v ∈ ys, m ≤ v := by
  rw [yReduce_eq] at h; exact minList_spec ys m h

/-- `np.around(., 15)` is the identity on the exact model (ASSUMPTION, see `Threshold.aroundModel`);
    `prediction_constant` (lifted) is `x_best`; `n_negative` (lifted `n - n_positive`) is the number of negative rows -/
theorem lifted_eo_glue (groups : List (List Row)) (v x y : Rat) :
    aroundModel ThresholdFitSrc.aroundDecimals v = v ∧ ThresholdFitSrc.predictionConstant x y = x ∧
    eoNegatives groups = (totalNeg groups : Rat) :=
  ⟨aroundModel_eq _ v, src_predictionConstant x y, eoNegatives_eq groups⟩

/-- both fit functions, computed with the lifted definitions, ARE the closed forms (first maximum of the exact objective,
    pointwise minimum, `prediction_constant = x_best`) that `parity_*`, `fit_*` and C05's `optimal_*` are proved about -/
theorem lifted_fit_closed_forms (flip : Bool) (xm ym obj : Metric) (N : Nat) (groups : List (List Row)) (force : Option Nat)
    (fit : Fit) (yBest : Rat) :
    (fitSimple flip xm ym N groups force = some fit →
      fit.iBest = force.getD (argmaxFirst (((curves ((hullsOf flip xm ym groups).getD []) N).getD []).map (objSimple groups)))) ∧
    (fitEO flip obj N groups force = some (fit, yBest) →
      ∀ r ∈ fit.rules, ∃ pi, r.ign = some (pi, gridVal N fit.iBest)) := by
  constructor
  · intro h
    obtain ⟨hulls, cs, best, hh, hc, _, _, _, _, hi⟩ := fitSimple_some h
    rw [hh, Option.getD_some, hc]; exact hi
  · intro h r hr
    obtain ⟨hulls, cs, ymins, best, _, _, _, _, _, _, hrules, _, _⟩ := fitEO_some h
    rw [hrules] at hr
    obtain ⟨i, _, rfl⟩ := List.mem_map.mp hr
    exact ⟨_, rfl⟩

/-- (a) every METRIC_DICT entry is affine in the confusion counts for a fixed number of positives and negatives -/
theorem metric_affine (m : Metric) (a b : Rat) (A B : CM) (hab : a + b = 1)
    (hp : A.positives = B.positives) (hn : A.negatives = B.negatives) :
    m.eval (CM.mix a A b B) = a * m.eval A + b * m.eval B :=
  Threshold.metric_affine m a b A B hab hp hn

/-- ... hence the expected metric of a mixture of two randomised predictors is the mixture of their metrics -/
theorem expected_metric_of_mixture (m : Metric) (a b : Rat) (f g : Rat → Rat) (rows : List Row) (hab : a + b = 1) :
    m.eval (expCM (fun s => a * f s + b * g s) rows) = a * m.eval (expCM f rows) + b * m.eval (expCM g rows) :=
  eval_expCM_mix m a b f g rows hab

/-- (b) each tradeoff point's (x, y) is the metric pair of its own ThresholdOperation applied to the group's rows
    (ties included: the threshold never coincides with a score) -/
theorem sweep_point_sound (flip : Bool) (xm ym : Metric) (rows : List Row) (p : Pt)
    (hp : p ∈ rawPoints flip xm ym rows) :
    p.x = xm.eval (confusion p.op rows) ∧ p.y = ym.eval (confusion p.op rows) :=
  rawPoints_sound flip xm ym rows p hp

/-- (c) hull invariants of the monotone chain, for ANY lexicographically sorted input: the hull is a
    sub-collection of the points, keeps the first and the last sorted point, is lexicographically sorted, and its
    x is strictly increasing from the second vertex on -/
theorem hull_invariants (pts : List Pt) (hs : pts.Pairwise LexLe) :
    (∀ h ∈ upperHull pts, h ∈ pts) ∧
    (upperHull pts).head? = pts.head? ∧ (upperHull pts).getLast? = pts.getLast? ∧
    (upperHull pts).Pairwise LexLe ∧
    (∀ l1 r0 r1 r2 l2, upperHull pts = l1 ++ r0 :: r1 :: r2 :: l2 → r1.x < r2.x) := by
  have g := upperHull_good pts hs
  exact ⟨g.sub, g.head, g.last, g.sorted, g.strict⟩

/-- the sorted data frame really is sorted (stable insertion by (x, y)) and has the same points -/
theorem sortLex_sorted (pts : List Pt) : (sortLex pts).Pairwise LexLe ∧ ∀ q, q ∈ sortLex pts ↔ q ∈ pts :=
  ⟨pairwise_sortLex pts, fun q => mem_sortLex q pts⟩

/-- (d) the interpolation index addresses a bracket with `a ≤ g ≤ b` and `a < b` -/
theorem interpIndex_bracket (xs : List Rat) (i : Nat) (g : Rat)
    (h0 : i = 0 → g = 0) (hpos : 1 ≤ i → 0 < g) (hg1 : g ≤ 1)
    (hhead : ∃ v, xs.head? = some v ∧ v ≤ 0) (hlast : ∃ v, xs.getLast? = some v ∧ 1 ≤ v)
    (hstrict : ∀ k, 1 ≤ k → ∀ a b, xs[k]? = some a → xs[k + 1]? = some b → a < b) :
    ∃ k a b, interpIndex xs i g = some k ∧ xs[k]? = some a ∧ xs[k + 1]? = some b ∧ a ≤ g ∧ g ≤ b ∧ a < b :=
  Threshold.interpIndex_bracket xs i g h0 hpos hg1 hhead hlast hstrict

/-- for a group with both labels the curve of a constraint metric exists and every grid point gets a rule that
    is a proper mixture (p0, p1 ≥ 0, p0 + p1 = 1) of two consecutive hull vertices -/
theorem group_rule_exists (flip : Bool) (xm ym : Metric) (rows : List Row) (hx : IsConstraintMetric xm)
    (hp : nPos rows ≠ 0) (hn : nNeg rows ≠ 0) (N i : Nat) (hN : 1 ≤ N) (hi : i ≤ N) :
    ∃ H r, tradeoffCurve flip xm ym rows = some H ∧ interpolateAt H i (gridVal N i) = some r ∧
      0 ≤ r.p0 ∧ 0 ≤ r.p1 ∧ r.p0 + r.p1 = 1 ∧
      expectedMetric xm (simpleRule r) rows = gridVal N i ∧ expectedMetric ym (simpleRule r) rows = r.y := by
  obtain ⟨H, gc⟩ := groupCurve_exists flip xm ym rows hx hp hn
  obtain ⟨r, hr, hs⟩ := group_interpolate gc hN hi
  obtain ⟨e1, e2⟩ := expected_simple gc hs
  exact ⟨H, r, gc.eq, hr, hs.p0_nonneg, hs.p1_nonneg, hs.sum_one, e1, e2⟩

/-- the fit succeeds whenever every group has both labels — for ANY grid size, `N = 0` (the one-point grid `[0.]`) included -/
theorem fit_simple_succeeds_any_grid (flip : Bool) (xm ym : Metric) (N : Nat) (groups : List (List Row))
    (hx : IsConstraintMetric xm) (hb : BothLabels groups) :
    ∃ fit, fitSimple flip xm ym N groups none = some fit := by
  obtain ⟨hulls, hh⟩ := hullsOf_exists flip xm ym groups hx hb
  obtain ⟨cs, hc⟩ := curves_exists_any hx hh N
  have hclen := (curves_some hc).1
  have hne : cs.map (objSimple groups) ≠ [] := by
    intro h; have := congrArg List.length h
    simp only [List.length_map, List.length_nil] at this; omega
  obtain ⟨m, hm, _⟩ := argmaxFirst_spec _ hne
  have hlt : argmaxFirst (cs.map (objSimple groups)) < cs.length := by
    have := (List.getElem?_eq_some_iff.mp hm).1; simpa using this
  rw [fitSimple_eq]
  rw [hh]; simp only
  rw [hc]; simp only [Option.getD_none]
  rw [List.getElem?_eq_getElem hlt, List.getElem?_eq_getElem (by simpa using hlt)]
  exact ⟨_, rfl⟩

/-- the fit succeeds whenever every group has both labels -/
theorem fit_simple_succeeds (flip : Bool) (xm ym : Metric) (N : Nat) (groups : List (List Row))
    (hN : 1 ≤ N) (hx : IsConstraintMetric xm) (hb : BothLabels groups) :
    ∃ fit, fitSimple flip xm ym N groups none = some fit :=
  fit_simple_succeeds_any_grid flip xm ym N groups hx hb

/-- (e) **parity_simple**: after a successful fit (argmax or any forced grid index) every group's rule is a
    proper mixture and its expected constrained metric on the group's own rows equals the common grid value
    `iBest / N` — exact equality in `Rat`; the expected objective metric is the interpolated y -/
theorem parity_simple_any_grid (flip : Bool) (xm ym : Metric) (N : Nat) (groups : List (List Row)) (force : Option Nat)
    (fit : Fit) (hx : IsConstraintMetric xm)
    (hfit : fitSimple flip xm ym N groups force = some fit) :
    BothLabels groups ∧ fit.iBest ≤ N ∧ fit.rules.length = groups.length ∧
    ∀ j (hj : j < groups.length) (hj' : j < fit.rules.length),
      expectedMetric xm fit.rules[j] groups[j] = gridVal N fit.iBest ∧
      (∀ s, 0 ≤ ruleProb fit.rules[j] s ∧ ruleProb fit.rules[j] s ≤ 1) := by
  obtain ⟨hulls, cs, best, hh, hc, hb, _, hrules, _, _⟩ := fitSimple_some hfit
  have hclen := (curves_some hc).1
  obtain ⟨hi, hbest⟩ := List.getElem?_eq_some_iff.mp hb
  obtain ⟨hrow, hent⟩ := curves_entry_any hx hh hc fit.iBest hi
  have hlen := (hullsOf_some hh).1
  rw [hbest] at hrow hent
  refine ⟨hullsOf_bothLabels hh, by omega, by rw [hrules]; simp [hrow], ?_⟩
  intro j hj hj'
  have hjb : j < best.length := by omega
  obtain ⟨gc, hs⟩ := hent j hj hjb (by omega)
  have hr : fit.rules[j] = simpleRule best[j] := by simp [hrules]
  rw [hr]
  exact ⟨(expected_simple gc hs).1, ruleProb_simple_range hs⟩

/-- `parity_simple_any_grid` for `N ≥ 1` (the statement the other property files use) -/
theorem parity_simple (flip : Bool) (xm ym : Metric) (N : Nat) (groups : List (List Row)) (force : Option Nat)
    (fit : Fit) (hN : 1 ≤ N) (hx : IsConstraintMetric xm)
    (hfit : fitSimple flip xm ym N groups force = some fit) :
    BothLabels groups ∧ fit.iBest ≤ N ∧ fit.rules.length = groups.length ∧
    ∀ j (hj : j < groups.length) (hj' : j < fit.rules.length),
      expectedMetric xm fit.rules[j] groups[j] = gridVal N fit.iBest ∧
      (∀ s, 0 ≤ ruleProb fit.rules[j] s ∧ ruleProb fit.rules[j] s ≤ 1) :=
  parity_simple_any_grid flip xm ym N groups force fit hx hfit

/-- pairwise form: any two groups have the same expected constrained metric -/
theorem parity_simple_pairwise (flip : Bool) (xm ym : Metric) (N : Nat) (groups : List (List Row))
    (force : Option Nat) (fit : Fit) (hN : 1 ≤ N) (hx : IsConstraintMetric xm)
    (hfit : fitSimple flip xm ym N groups force = some fit)
    (j k : Nat) (hj : j < groups.length) (hk : k < groups.length)
    (hj' : j < fit.rules.length) (hk' : k < fit.rules.length) :
    expectedMetric xm fit.rules[j] groups[j] = expectedMetric xm fit.rules[k] groups[k] := by
  obtain ⟨_, _, _, h⟩ := parity_simple flip xm ym N groups force fit hN hx hfit
  rw [(h j hj hj').1, (h k hk hk').1]

theorem eo_metric_is_constraint : IsConstraintMetric eoXMetric := Or.inr rfl

/-- the equalized-odds fit succeeds whenever every group has both labels and there is at least one group -/
theorem fit_EO_succeeds_any_grid (flip : Bool) (obj : Metric) (N : Nat) (groups : List (List Row))
    (hg : groups ≠ []) (hb : BothLabels groups) :
    ∃ fit, fitEO flip obj N groups none = some fit := by
  obtain ⟨hulls, hh⟩ := hullsOf_exists flip eoXMetric eoYMetric groups eo_metric_is_constraint hb
  obtain ⟨cs, hc⟩ := curves_exists_any eo_metric_is_constraint hh N
  have hclen := (curves_some hc).1
  have hlen := (hullsOf_some hh).1
  obtain ⟨ymins, hy⟩ : ∃ ymins, allSome (cs.map (fun is => minList (is.map (·.y)))) = some ymins := by
    apply allSome_of_forall
    intro row hrow
    obtain ⟨i, hi, rfl⟩ := List.getElem_of_mem hrow
    have := (curves_entry_any eo_metric_is_constraint hh hc i hi).1
    apply minList_isSome
    intro h
    have h2 := congrArg List.length h
    simp only [List.length_map, List.length_nil] at h2
    have : groups.length = 0 := by omega
    exact hg (List.length_eq_zero_iff.mp this)
  have hylen : ymins.length = cs.length := (allSome_map_get hy).1
  set objs := (List.range (N + 1)).zipWith (fun i y => objEO obj groups (gridVal N i) y) ymins with hobjs
  have holen : objs.length = N + 1 := by simp [hobjs, hylen, hclen]
  have hne : objs ≠ [] := by intro h; rw [h] at holen; simp at holen
  obtain ⟨m, hm, _⟩ := argmaxFirst_spec _ hne
  have hlt : argmaxFirst objs < N + 1 := by
    have := (List.getElem?_eq_some_iff.mp hm).1; omega
  rw [fitEO_eq]
  rw [hh]; simp only
  rw [hc]; simp only
  rw [hy]; simp only [Option.getD_none]
  rw [← hobjs]
  rw [List.getElem?_eq_getElem (show argmaxFirst objs < cs.length by omega),
      List.getElem?_eq_getElem (show argmaxFirst objs < objs.length by omega),
      List.getElem?_eq_getElem (show argmaxFirst objs < ymins.length by omega)]
  exact ⟨_, rfl⟩

theorem fit_EO_succeeds (flip : Bool) (obj : Metric) (N : Nat) (groups : List (List Row))
    (hN : 1 ≤ N) (hg : groups ≠ []) (hb : BothLabels groups) :
    ∃ fit, fitEO flip obj N groups none = some fit :=
  fit_EO_succeeds_any_grid flip obj N groups hg hb

/-- (f) **parity_EO**: after a successful equalized-odds fit every group's rule (interpolation + p_ignore towards
    the constant `x_best`) has expected FPR exactly `x_best = iBest / N` and expected TPR exactly `y_best`, the
    pointwise minimum of the ROC hulls — on its own training rows, for every group; `p_ignore ∈ [0,1]` -/
theorem parity_EO_any_grid (flip : Bool) (obj : Metric) (N : Nat) (groups : List (List Row)) (force : Option Nat)
    (fit : Fit) (yBest : Rat)
    (hfit : fitEO flip obj N groups force = some (fit, yBest)) :
    BothLabels groups ∧ fit.iBest ≤ N ∧ fit.rules.length = groups.length ∧
    ∀ j (hj : j < groups.length) (hj' : j < fit.rules.length),
      expectedMetric eoXMetric fit.rules[j] groups[j] = gridVal N fit.iBest ∧
      expectedMetric eoYMetric fit.rules[j] groups[j] = yBest ∧
      ∃ pi c, fit.rules[j].ign = some (pi, c) ∧ 0 ≤ pi ∧ pi ≤ 1 ∧ c = gridVal N fit.iBest := by
  obtain ⟨hulls, cs, ymins, best, hh, hc, hy, hb, hyb, _, hrules, _, _⟩ := fitEO_some hfit
  have hx := eo_metric_is_constraint
  have hclen := (curves_some hc).1
  obtain ⟨hi, hbest⟩ := List.getElem?_eq_some_iff.mp hb
  obtain ⟨hrow, hent⟩ := curves_entry_any hx hh hc fit.iBest hi
  have hlen := (hullsOf_some hh).1
  rw [hbest] at hrow hent
  have hiN : fit.iBest ≤ N := by omega
  have hg0 := gridVal_nonneg N fit.iBest
  have hg1 := gridVal_le_one_any hiN
  -- yBest is the minimum of the interpolated TPRs of row iBest
  have hmin : minList (best.map (·.y)) = some yBest := by
    obtain ⟨hylen, hyget⟩ := allSome_map_get hy
    obtain ⟨hiy, hye⟩ := List.getElem?_eq_some_iff.mp hyb
    have := hyget fit.iBest hi hiy
    rw [hbest, hye] at this
    exact this
  obtain ⟨hymem, hyle⟩ := minList_spec _ _ hmin
  -- every interpolated TPR is at least the grid FPR, so is the minimum
  have habove : ∀ j (hj : j < groups.length) (hjb : j < best.length), gridVal N fit.iBest ≤ best[j].y := by
    intro j hj hjb
    obtain ⟨gc, hs⟩ := hent j hj hjb (by omega)
    exact roc_above_diagonal gc hs hg0 hg1
  have hyB : gridVal N fit.iBest ≤ yBest := by
    obtain ⟨r, hr, hry⟩ := List.mem_map.mp hymem
    obtain ⟨j, hjb, rfl⟩ := List.getElem_of_mem hr
    rw [← hry]; exact habove j (by omega) hjb
  refine ⟨hullsOf_bothLabels hh, hiN, by rw [hrules]; simp [hrow], ?_⟩
  intro j hj hj'
  have hjb : j < best.length := by omega
  obtain ⟨gc, hs⟩ := hent j hj hjb (by omega)
  have hr : fit.rules[j] = eoRule (gridVal N fit.iBest) yBest best[j] := by simp [hrules]
  rw [hr]
  obtain ⟨ex, ey⟩ := expected_eo gc hs (gridVal N fit.iBest) yBest
  have hrx : best[j].x = gridVal N fit.iBest := hs.x_eq
  have hry_ge : gridVal N fit.iBest ≤ best[j].y := habove j hj hjb
  have hry_min : yBest ≤ best[j].y := hyle _ (List.mem_map.mpr ⟨best[j], List.getElem_mem hjb, rfl⟩)
  refine ⟨by rw [ex]; ring, ?_, pIgnore best[j] yBest, gridVal N fit.iBest, rfl, ?_, ?_, rfl⟩
  · rw [ey]
    rw [src_pIgnore]
    by_cases hd : best[j].y = best[j].x
    · rw [if_pos hd]
      have : best[j].y = yBest := le_antisymm (by rw [hd, hrx]; exact hyB) hry_min |>.symm ▸ rfl
      linarith
    · rw [if_neg hd]
      have hne : best[j].y - best[j].x ≠ 0 := sub_ne_zero.mpr hd
      rw [← hrx]; field_simp; ring
  · rw [src_pIgnore]
    by_cases hd : best[j].y = best[j].x
    · rw [if_pos hd]
    · rw [if_neg hd]
      have : 0 < best[j].y - best[j].x := by
        rw [hrx]; exact lt_of_le_of_ne (by linarith) (fun h => hd (by rw [hrx]; linarith))
      exact div_nonneg (by linarith) (le_of_lt this)
  · rw [src_pIgnore]
    by_cases hd : best[j].y = best[j].x
    · rw [if_pos hd]; exact zero_le_one
    · rw [if_neg hd]
      have : 0 < best[j].y - best[j].x := by
        rw [hrx]; exact lt_of_le_of_ne (by linarith) (fun h => hd (by rw [hrx]; linarith))
      rw [div_le_one this]; rw [hrx]; linarith

/-- `parity_EO_any_grid` for `N ≥ 1` (the statement the other property files use) -/
theorem parity_EO (flip : Bool) (obj : Metric) (N : Nat) (groups : List (List Row)) (force : Option Nat)
    (fit : Fit) (yBest : Rat) (hN : 1 ≤ N)
    (hfit : fitEO flip obj N groups force = some (fit, yBest)) :
    BothLabels groups ∧ fit.iBest ≤ N ∧ fit.rules.length = groups.length ∧
    ∀ j (hj : j < groups.length) (hj' : j < fit.rules.length),
      expectedMetric eoXMetric fit.rules[j] groups[j] = gridVal N fit.iBest ∧
      expectedMetric eoYMetric fit.rules[j] groups[j] = yBest ∧
      ∃ pi c, fit.rules[j].ign = some (pi, c) ∧ 0 ≤ pi ∧ pi ≤ 1 ∧ c = gridVal N fit.iBest :=
  parity_EO_any_grid flip obj N groups force fit yBest hfit

/-! ### The property as ONE statement, and the error branch (review additions)

`parity_simple` / `parity_EO` take a successful fit as hypothesis; `fit_*_succeeds` derive it from "every group contains both
labels".  Composed: the ONLY hypotheses are `BothLabels groups` and — for the simple constraints — that the metric is one of the
LIFTED `SIMPLE_CONSTRAINTS` (all of them: `all_simple_constraints_covered`).  ANY grid size `N : Nat`, `N = 0` included
(`np.linspace(0, 1, 1) = [0.]`, accepted by fairlearn; `*_any_grid`, `Lemmas/C04Review.lean`) — the older statements with
`1 ≤ N` are kept as corollaries because other property files use them.  No sortedness, no distinct scores, no lower bound on the number of groups
(equalized odds: at least one group, because `np.amin` of an empty frame raises). -/

/-- every entry of the lifted `SIMPLE_CONSTRAINTS` table (selection rate / demographic parity, FPR, FNR, TPR, TNR) is covered
    by `parity_simple`; equalized odds' x metric (FPR) too -/
theorem all_simple_constraints_covered :
    (∀ p ∈ simpleConstraints, IsConstraintMetric p.2) ∧ IsConstraintMetric eoXMetric ∧
    simpleConstraints.map (·.2) =
      [.selection_rate, .selection_rate, .false_positive_rate, .false_negative_rate, .true_positive_rate,
       .true_negative_rate] := by decide +kernel

/-- **C04, simple constraints, in one statement**: whenever every group contains both labels, the fit succeeds and the
    expected constrained metric of the fitted randomised rule, computed on each group's own training rows, is the same for
    all groups (any scores incl. ties, any number of groups, either `flip`, ANY grid size, any objective) -/
theorem parity_simple_of_bothLabels (flip : Bool) (xm ym : Metric) (N : Nat) (groups : List (List Row))
    (hx : IsConstraintMetric xm) (hb : BothLabels groups) :
    ∃ fit, fitSimple flip xm ym N groups none = some fit ∧ fit.rules.length = groups.length ∧
      ∀ j k (hj : j < groups.length) (hk : k < groups.length) (hj' : j < fit.rules.length) (hk' : k < fit.rules.length),
        expectedMetric xm fit.rules[j] groups[j] = expectedMetric xm fit.rules[k] groups[k] := by
  obtain ⟨fit, hfit⟩ := fit_simple_succeeds_any_grid flip xm ym N groups hx hb
  obtain ⟨_, _, hlen, h⟩ := parity_simple_any_grid flip xm ym N groups none fit hx hfit
  exact ⟨fit, hfit, hlen, fun j k hj hk hj' hk' => by rw [(h j hj hj').1, (h k hk hk').1]⟩

/-- **C04, equalized odds, in one statement**: both the expected FPR and the expected TPR coincide across groups -/
theorem parity_EO_of_bothLabels (flip : Bool) (obj : Metric) (N : Nat) (groups : List (List Row))
    (hg : groups ≠ []) (hb : BothLabels groups) :
    ∃ fit yBest, fitEO flip obj N groups none = some (fit, yBest) ∧ fit.rules.length = groups.length ∧
      ∀ j k (hj : j < groups.length) (hk : k < groups.length) (hj' : j < fit.rules.length) (hk' : k < fit.rules.length),
        expectedMetric eoXMetric fit.rules[j] groups[j] = expectedMetric eoXMetric fit.rules[k] groups[k] ∧
        expectedMetric eoYMetric fit.rules[j] groups[j] = expectedMetric eoYMetric fit.rules[k] groups[k] := by
  obtain ⟨⟨fit, yBest⟩, hfit⟩ := fit_EO_succeeds_any_grid flip obj N groups hg hb
  obtain ⟨_, _, hlen, h⟩ := parity_EO_any_grid flip obj N groups none fit yBest hfit
  refine ⟨fit, yBest, hfit, hlen, fun j k hj hk hj' hk' => ?_⟩
  rw [(h j hj hj').1, (h k hk hk').1, (h j hj hj').2.1, (h k hk hk').2.1]
  exact ⟨rfl, rfl⟩

/-- **error branch** (`ValueError: Degenerate labels`): if some group lacks a label the model fit returns `none` — for
    every metric pair, grid size, `flip`, forced index; no theorem above says anything about such data -/
theorem fit_simple_rejects_degenerate (flip : Bool) (xm ym : Metric) (N : Nat) (groups : List (List Row))
    (force : Option Nat) (g : List Row) (hg : g ∈ groups) (hdeg : nPos g = 0 ∨ nNeg g = 0) :
    fitSimple flip xm ym N groups force = none := by
  cases h : fitSimple flip xm ym N groups force with
  | none => rfl
  | some fit =>
    exfalso
    obtain ⟨hulls, _, _, hh, _⟩ := fitSimple_some h
    have := hullsOf_bothLabels hh g hg
    rcases hdeg with h0 | h0
    · exact this.1 h0
    · exact this.2 h0

theorem fit_EO_rejects_degenerate (flip : Bool) (obj : Metric) (N : Nat) (groups : List (List Row))
    (force : Option Nat) (g : List Row) (hg : g ∈ groups) (hdeg : nPos g = 0 ∨ nNeg g = 0) :
    fitEO flip obj N groups force = none := by
  cases h : fitEO flip obj N groups force with
  | none => rfl
  | some fy =>
    exfalso
    obtain ⟨fit, yb⟩ := fy
    obtain ⟨hulls, _, _, _, hh, _⟩ := fitEO_some h
    have := hullsOf_bothLabels hh g hg
    rcases hdeg with h0 | h0
    · exact this.1 h0
    · exact this.2 h0

/-- hence, for a constraint metric and ANY grid size: the fit is rejected IFF some group lacks a label -/
theorem fit_simple_none_iff (flip : Bool) (xm ym : Metric) (N : Nat) (groups : List (List Row))
    (hx : IsConstraintMetric xm) :
    fitSimple flip xm ym N groups none = none ↔ ¬ BothLabels groups := by
  constructor
  · intro h hb
    obtain ⟨fit, hfit⟩ := fit_simple_succeeds_any_grid flip xm ym N groups hx hb
    rw [h] at hfit; cases hfit
  · intro h
    cases hf : fitSimple flip xm ym N groups none with
    | none => rfl
    | some fit => exact absurd (parity_simple_any_grid flip xm ym N groups none fit hx hf).1 h

/-! ### Fit → predict: the parity theorems are about the pmf that `predict` really uses

`ThresholdPredict.dictOf names fit.rules` is the `interpolation_dict` the fit stores (one Bunch per sensitive-feature value),
`Pmf.thrPositive` is `InterpolatedThresholder._pmf_predict` (both over the expressions lifted from the source), and
`predictedMetric m dict name rows` the expected value of metric `m` when every row of `rows` is predicted 1 with the
probability `_pmf_predict` reports for it under sensitive-feature value `name`. -/

open ThresholdPredict in
/-- **fit_predict_consistent_simple**: computed from `_pmf_predict` of the fitted model on the training rows, every
    group's expected constrained metric is exactly `x_best = iBest / N` and its expected objective metric is the `y` of the
    group's interpolated curve at `x_best` -/
theorem fit_predict_consistent_simple (flip : Bool) (xm ym : Metric) (N : Nat) (groups : List (List Row))
    (force : Option Nat) (fit : Fit) (names : List String) (hN : 1 ≤ N) (hx : IsConstraintMetric xm)
    (hfit : fitSimple flip xm ym N groups force = some fit) (hnd : names.Nodup) (hlen : names.length = groups.length) :
    fit.interps.length = groups.length ∧
    ∀ j (hj : j < groups.length) (hn : j < names.length) (hi : j < fit.interps.length),
      predictedMetric xm (dictOf names fit.rules) names[j] groups[j] = gridVal N fit.iBest ∧
      predictedMetric ym (dictOf names fit.rules) names[j] groups[j] = fit.interps[j].y := by
  obtain ⟨hulls, cs, best, hh, hc, hb, hint, hrules, _, _⟩ := fitSimple_some hfit
  obtain ⟨hi, hbest⟩ := List.getElem?_eq_some_iff.mp hb
  obtain ⟨hrow, hent⟩ := curves_entry hx hh hN hc fit.iBest hi
  have hlenh := (hullsOf_some hh).1
  rw [hbest] at hrow hent
  have hrl : fit.rules.length = groups.length := by rw [hrules]; simp [hrow]
  refine ⟨by rw [hint]; exact hrow, ?_⟩
  intro j hj hn hji
  have hjb : j < best.length := by omega
  obtain ⟨gc, hs⟩ := hent j hj hjb (by omega)
  have hr : fit.rules[j]'(by omega) = simpleRule best[j] := by simp [hrules]
  have hib : fit.interps[j] = best[j] := by simp [hint]
  rw [predictedMetric_eq xm names fit.rules hnd (by omega) j hn (by omega),
      predictedMetric_eq ym names fit.rules hnd (by omega) j hn (by omega), hr, hib]
  exact expected_simple gc hs

open ThresholdPredict in
/-- **fit_predict_consistent_EO**: computed from `_pmf_predict` of the fitted model (interpolation mixed with the
    constant `prediction_constant = x_best` with weight `p_ignore`) on the training rows, every group's expected false
    positive rate is exactly `x_best` and its expected true positive rate exactly `y_best` -/
theorem fit_predict_consistent_EO (flip : Bool) (obj : Metric) (N : Nat) (groups : List (List Row))
    (force : Option Nat) (fit : Fit) (yBest : Rat) (names : List String) (hN : 1 ≤ N)
    (hfit : fitEO flip obj N groups force = some (fit, yBest)) (hnd : names.Nodup)
    (hlen : names.length = groups.length) :
    ∀ j (hj : j < groups.length) (hn : j < names.length),
      predictedMetric eoXMetric (dictOf names fit.rules) names[j] groups[j] = gridVal N fit.iBest ∧
      predictedMetric eoYMetric (dictOf names fit.rules) names[j] groups[j] = yBest := by
  obtain ⟨_, _, hrl, hpar⟩ := parity_EO flip obj N groups force fit yBest hN hfit
  intro j hj hn
  rw [predictedMetric_eq eoXMetric names fit.rules hnd (by omega) j hn (by omega),
      predictedMetric_eq eoYMetric names fit.rules hnd (by omega) j hn (by omega)]
  exact ⟨(hpar j hj (by omega)).1, (hpar j hj (by omega)).2.1⟩

/-! ### Non-vacuity: a 3-group example with ties and a vertical first hull segment, evaluated by the kernel -/

def gA : List Row := [⟨1, true⟩, ⟨1, true⟩, ⟨1/2, false⟩, ⟨1/2, true⟩, ⟨0, false⟩]
def gB : List Row := [⟨1, true⟩, ⟨3/4, false⟩, ⟨1/2, true⟩, ⟨1/4, false⟩, ⟨1/4, false⟩, ⟨0, false⟩]
def gC : List Row := [⟨1, true⟩, ⟨1, true⟩, ⟨1, false⟩, ⟨0, false⟩, ⟨0, true⟩, ⟨0, false⟩]
def ex : List (List Row) := [gA, gB, gC]

example : BothLabels ex := by decide +kernel
example : IsConstraintMetric .false_positive_rate := by decide +kernel
-- ties: gA has two rows with score 1 and two with score 1/2, so 3 distinct levels give 4 sweep steps
example : (sweepSteps gA).length = 4 := by decide +kernel
-- a vertical first segment: the first two hull vertices share x = 0
example : ((tradeoffCurve false .false_positive_rate .true_positive_rate gA).map
    (fun h => h.map (fun p => (p.x, p.y)))) = some [(0, 0), (0, 2/3), (1/2, 1), (1, 1)] := by decide +kernel
-- simple constraints: interior grid point, all three groups at exactly 1/5 resp. 1/3
example : (fitSimple true .false_positive_rate .accuracy_score 5 ex none).map
    (fun f => (f.iBest, f.objective, List.zipWith (fun r g => expectedMetric .false_positive_rate r g) f.rules ex)) =
    some (1, 63/85, [1/5, 1/5, 1/5]) := by decide +kernel
example : (fitSimple false .selection_rate .balanced_accuracy_score 3 ex none).map
    (fun f => (f.iBest, List.zipWith (fun r g => expectedMetric .selection_rate r g) f.rules ex)) =
    some (1, [1/3, 1/3, 1/3]) := by decide +kernel
-- equalized odds: non-trivial p_ignore (4/7, 2/3, 0), all groups at FPR 1/4 and TPR 1/2
example : (fitEO false .accuracy_score 4 ex none).map (fun f => (f.1.iBest, f.2)) = some (1, 1/2) := by
  decide +kernel
example : (fitEO false .accuracy_score 4 ex none).map (fun f => f.1.rules.map (fun r => r.ign)) =
    some [some (4/7, 1/4), some (2/3, 1/4), some (0, 1/4)] := by decide +kernel
example : (fitEO false .accuracy_score 4 ex none).map (fun f =>
      List.zipWith (fun r g => (expectedMetric .false_positive_rate r g, expectedMetric .true_positive_rate r g))
        f.1.rules ex) = some [(1/4, 1/2), (1/4, 1/2), (1/4, 1/2)] := by decide +kernel

-- fit → predict: the same numbers computed from `_pmf_predict` of the stored interpolation_dict (keys "a", "b", "c")
example : (fitEO false .accuracy_score 4 ex none).map (fun f =>
      List.zipWith (fun n g =>
        (ThresholdPredict.predictedMetric .false_positive_rate (ThresholdPredict.dictOf ["a", "b", "c"] f.1.rules) n g,
         ThresholdPredict.predictedMetric .true_positive_rate (ThresholdPredict.dictOf ["a", "b", "c"] f.1.rules) n g))
        ["a", "b", "c"] ex) = some [(1/4, 1/2), (1/4, 1/2), (1/4, 1/2)] := by decide +kernel
-- unseen scores (7/8; 3/4 = exactly a fitted threshold) and an unseen group under the fitted equalized-odds model
example : (fitEO false .accuracy_score 4 ex none).map (fun f =>
      (ThresholdPredict.predictPmf ["a", "b", "c"] f.1 [("a", 7/8), ("a", 3/4), ("b", 5/8), ("zz", 1)]).map (·.2)) =
    some [4/7, 5/14, 1/2, 0] := by
  decide +kernel


-- review additions: the one-statement forms' hypotheses are met by `ex` (3 groups, ties, both labels) ...
example : IsConstraintMetric .false_positive_rate ∧ BothLabels ex ∧ ex ≠ [] ∧ ex.length = 3 := by decide +kernel
-- ... also for grid size 0 (grid {0}): every group sits at FPR 0; equalized odds pulls all groups down to the TPR 0 of the
-- group whose top score level is label-mixed (p_ignore = 1 for the other two)
example : (fitSimple true .false_positive_rate .accuracy_score 0 ex none).map
    (fun f => (f.iBest, List.zipWith (fun r g => expectedMetric .false_positive_rate r g) f.rules ex)) =
    some (0, [0, 0, 0]) := by decide +kernel
example : (fitEO false .accuracy_score 0 ex none).map (fun f =>
      List.zipWith (fun r g => (expectedMetric .false_positive_rate r g, expectedMetric .true_positive_rate r g))
        f.1.rules ex) = some [(0, 0), (0, 0), (0, 0)] := by decide +kernel
-- ... and the error branch: drop the only negative of a group and the fit is rejected, for simple constraints and EO
def exDeg : List (List Row) := [gA, [⟨1, true⟩, ⟨0, true⟩], gC]
example : nNeg [⟨1, true⟩, ⟨0, true⟩] = 0 ∧ [⟨1, true⟩, ⟨0, true⟩] ∈ exDeg := by decide +kernel
example : fitSimple true .false_positive_rate .accuracy_score 5 exDeg none = none := by decide +kernel
example : (fitEO false .accuracy_score 4 exDeg none).isNone = true := by decide +kernel

end C04
