/-
C19 — estimator life cycle: fit depends on parameters and data, not on call history.

For every machine of `Model/Lifecycle.lean`:
  * `<m>_refines_spec`     under the repaired rule the machine shows, for EVERY call history, exactly the view
                           of the specification automaton `Spec` (fit returns self and never raises, the state
                           is "fresh twin fitted on the last data", predict/pickle leave it alone, clone resets);
  * `<m>_history_free`     `run (ops ++ [fit d]) = run [fit d]` for every history `ops` (whole modelled state);
  * `<m>_fit_returns_self`, `<m>_params_unchanged`, `<m>_predict_pure`, `<m>_pickle_roundtrip`;
  * for the rule that is in the source today where it differs: the negation with a concrete 2-3 operation
    witness (F5a-F5e), replayed on real fairlearn by harness/props/c19.py (`probe_rules`).
Two candidate repairs of the moment latch (F5b) are modelled: `copyPerFit` (repair A; `gs_/eg_refines_spec`,
`_params_unchanged`: the user's moment object is never touched) and `reentrant` (repair B;
`gs_/eg_reentrant_refines_spec`: same view, but the user's object is rewritten by every fit).
The theorems are about the latches/flags of the machines; they say nothing about Python object identity,
pickle or clone internals (pickle is the identity of the modelled state by definition).

CLAUSE -> THEOREM TABLE (review R2).  "src" = the machine runs under the rule flags DERIVED FROM THE SOURCE
(Generated/LifecycleSrc.lean), i.e. it is a statement about the code in /repo today; "hyp" = a statement about a
hypothetical rule (repair A `copyPerFit`, repaired `nu`), kept because the counter-witnesses refer to it.

  A  refit on D = fresh fit on D (TO, EG, GS, CR, adversarial warm_start=False), every history
       src: src_to_refines_spec, src_to_history_free; src_gs_refines_spec, src_gs_history_free,
            src_gs_refines_spec_any_moment; src_cr_refines_spec, src_cr_history_free;
            src_adv_refines_spec (pickle RESULT masked), src_adv_history_free;
            EG, nu given:  src_eg_refines_spec_nu_given, src_eg_history_free_nu_given, src_eg_refines_spec_any_moment
            EG, nu=None:   FALSE of the code (F5c, known finding): src_eg_nu_none_is_f5c (witness fit D1; fit D2),
                           PARTIAL: src_eg_nu_none_results_refine_spec_partial (all results as specified, every
                           history), src_eg_nu_none_cls_partial (state = unfitted / fresh twin / twin with an
                           earlier data set's automatic nu, never anything else), src_eg_nu_none_first_fit_fresh
            attribute level (lifted definite-assignment tables): src_fit_shape, src_fit_overwrites_all_fitted_state,
                           src_fit_history_reads, src_cr_fit_shape (one static path, dead at run time: harness relation
                           C19.cr_1d_path_dead); src_estimator_cloned (every `.fit` receiver is a clone / fresh object)
            prefit=True:   src_to_prefit, src_to_prefit_history_free (clone-free histories; clone: to_prefit_clone_then_fit)
            set_params:    src_no_stale_derived, src_params_refines_spec, src_gs_set_params_repaired
       hyp: gs_history_free, gs_refines_spec, gs_reentrant_*, eg_history_free, eg_refines_spec, eg_reentrant_*,
            to_*, cr_*, adv_*; counter-witnesses for the old rules: gs_current_not_history_free, eg_current_*,
            cr_current_not_history_free, adv_current_not_history_free, to_without_clone_not_history_free,
            params_stale_derived_not_spec
  B  fit returns the estimator itself
       src: src_fit_returns_self (lifted return expressions, all 7 classes), src_gs_fit_returns_self,
            src_eg_fit_returns_self, src_to_fit_returns_self, src_cr_fit_returns_self, src_adv_fit_returns_self
            (from ANY state); hyp: gs_current_fit_returns_none (F5a)
  C  fit never changes the constructor parameters reported by get_params
       src: src_params_unchanged (TO, GS, CR, adversarial: no parameter rebound or stored into, lifted),
            src_eg_params_assigned (EG rebinds exactly `nu`: F5c), src_eg_nu_unchanged_nu_given,
            src_fit_escapes_trusted; src_constraints_loaded_in_place + src_constraints_object_rewritten: the OBJECT
            behind `constraints` is the same object but is written to by `load_data` (identity kept, content not) —
            harmless for A by src_gs_/src_eg_refines_spec_any_moment
       hyp: gs_params_unchanged, eg_params_unchanged (repair A), to_params_unchanged
  D  prediction does not alter fitted state; same seed repeats the answer
       src: src_predict_pure, src_predict_methods_present (lifted, inside each estimator class);
            ACROSS the helper objects (lifters/lifecycle_helpers.py): src_helper_calls_followed (every method ThresholdOptimizer
            calls on `interpolated_thresholder_` and the adversarial estimators call on `backendEngine_` is found in
            InterpolatedThresholder / BackendEngine + PytorchEngine + TensorflowEngine), src_helper_predict_pure (that closure
            writes no attribute of the helper object or of the estimator behind `self.base`, in place or through aliases, and
            calls no mutating method), src_helper_mode_flag_scratch (the torch train/eval mode flag, which `evaluate` DOES write,
            is selected before every forward pass in evaluate and in train_step, so it is scratch state — decision documented
            in Model/LifecycleSrc.lean), src_predict_pure_flags (`predictPureSrc c` for all 7 classes);
            the `predict` step of EVERY `…src` machine runs through that flag (`guardPredict`, src_*_guard), so
            src_predict_does_not_alter_state (every history) and every src_*_refines_spec / src_*_history_free DEPEND on the lifted
            lists (guard_off_breaks_spec: with the flag off they are false).  F5g (repaired): src_cr_transform_pure — no
            prediction entry point calls validate_data(self, ..) with reset=True (`predictValidateResets` is part of the purity flag);
            src_cr_transform_resets_sklearn_attrs is the counter-witness for the pre-repair rule (`transform` in that list).
            *_predict_pure (every state, every rule).  The model's predict result does not depend on the seed at all,
            so "same seed repeats" is the second conjunct of *_predict_pure; the numbers are compared by the harness.
       STILL MODELLED, NOT LIFTED: the `.retSelf` result of the EG / TO / CR steps (fitReturns is lifted and proved `["self"]`,
            but only gsStep's rule flag and advStepSrc compute their result from it); what a user's base estimator / torch
            module does inside its own predict / forward.
  E  pickle round trip (TO, EG, GS, CR) predicts like the original
       src_pickle_restores_state, *_pickle_roundtrip — BY DEFINITION of the model (pickle = identity on the modelled
       state); nothing about pickling is lifted from the source.  The content of this clause is checked by the
       harness only (relation C19.pickle_roundtrip).  Adversarial: adv_pickle_state_unchanged (result not claimed).
  quantifier "call sequences up to length 4": every theorem above is for ALL histories (`List Op`), no bound.
  totalisation: adv_reachable_invariant / adv_refit_uses_existing_engine (`getD []` never taken on a reachable state),
       driver_output_covers_every_op (no `zip` truncation in the driver output), view_length, changedCol_length.
-/
import FairModel.Lemmas.Lifecycle
import FairModel.Model.LifecycleSrc
import FairModel.Lemmas.LifecycleSrc
import FairModel.Lemmas.LifecycleParams

namespace C19
open Lifecycle Lifecycle.Machine

/-! ## GridSearch -/

theorem gs_step_embed (r : GSRules) (hm : r.moment = .copyPerFit) (t : Option Data) (o : Op) :
    ((GS r).step (gsEmb t) o).1 = gsEmb (Spec.step t o).1 := by
  cases o <;> cases t <;>
    simp [GS, gsStep, gsEmb, Spec, hm, loadConstraints, Moment.loadData, Moment.new, Except.map]

/-- F5b repaired (F5a irrelevant for the state): the fitted state does not depend on the history. -/
theorem gs_history_free (r : GSRules) (hm : r.moment = .copyPerFit) (ops : List Op) (d : Data) :
    (GS r).run (ops ++ [.fit d]) = (GS r).run [.fit d] := by
  have h := run_eq_embed (GS r) Spec gsEmb rfl (gs_step_embed r hm)
  rw [h, h, spec_run_snoc_fit]; rfl

theorem gs_refines_spec (ops : List Op) : (GS gsRepaired).view gsCls ops = Spec.view specCls ops := by
  apply view_eq_of_embed (GS gsRepaired) Spec gsEmb gsCls specCls rfl (gs_step_embed _ rfl)
  · intro t o
    cases o <;> cases t <;>
      simp [GS, gsStep, gsEmb, Spec, gsRepaired, loadConstraints, Moment.loadData, Moment.new, Except.map]
  · intro t; cases t <;> simp [gsCls, gsEmb, specCls]

theorem gs_fit_returns_self (ops : List Op) (d : Data) :
    ((GS gsRepaired).step ((GS gsRepaired).run ops) (.fit d)).2 = .retSelf := by
  rw [run_eq_embed (GS gsRepaired) Spec gsEmb rfl (gs_step_embed _ rfl)]
  simp [GS, gsStep, gsEmb, gsRepaired, loadConstraints, Moment.loadData, Moment.new, Except.map]

/-- the object behind `constraints` is never touched (repaired rule) -/
theorem gs_params_unchanged (r : GSRules) (hm : r.moment = .copyPerFit) (ops : List Op) :
    gsParams ((GS r).run ops) = gsParams gsInit := by
  rw [run_eq_embed (GS r) Spec gsEmb rfl (gs_step_embed r hm)]; rfl

/-- non-vacuity of `gs_history_free` / `gs_params_unchanged`: the hypothesis is met by repair A, on a non-trivial history -/
example : (GS gsRepaired).run ([.fit D1, .clone, .predict 1] ++ [.fit D2]) = (GS gsRepaired).run [.fit D2] ∧
    gsParams ((GS gsRepaired).run [.fit D1, .clone, .fit D2]) = gsParams gsInit :=
  ⟨gs_history_free gsRepaired rfl _ D2, gs_params_unchanged gsRepaired rfl _⟩

theorem gs_predict_pure (r : GSRules) (s : GSState) (k : Nat) :
    ((GS r).step s (.predict k)).1 = s ∧
    ((GS r).step ((GS r).step s (.predict k)).1 (.predict k)).2 = ((GS r).step s (.predict k)).2 := by
  have h : ((GS r).step s (.predict k)).1 = s := by
    simp only [GS, gsStep]; split <;> rfl
  exact ⟨h, by rw [h]⟩

theorem gs_pickle_roundtrip (r : GSRules) (s : GSState) : ((GS r).step s .pickle).1 = s := rfl

/-- F5a, today's rule: every completed fit returns None. -/
theorem gs_current_fit_returns_none (m : MomentRule) (d : Data) :
    ((GS ⟨.current, m⟩).step gsInit (.fit d)).2 = .retNone := by
  cases m <;> rfl

/-- F5b, today's rule: witness `fit D1; fit D2` — the second fit raises and leaves `predictors_` emptied. -/
theorem gs_current_not_history_free :
    ¬ ∀ (ops : List Op) (d : Data), (GS ⟨.repaired, .latched⟩).run (ops ++ [.fit d]) = (GS ⟨.repaired, .latched⟩).run [.fit d] := by
  intro h; exact absurd (h [.fit D1] D2) (by decide)

example : (GS ⟨.current, .latched⟩).view gsCls [.fit D1, .fit D2, .predict 0] =
    [(.retNone, .fresh D1), (.raised .assertion, .broken .index), (.raised .index, .broken .index)] := by decide

/-- F5b through clone: the deep copy of a loaded moment is loaded. -/
example : (GS ⟨.current, .latched⟩).view gsCls [.fit D1, .clone, .fit D2, .predict 0] =
    [(.retNone, .fresh D1), (.ok, .unfitted), (.raised .assertion, .broken .attribute),
     (.raised .attribute, .broken .attribute)] := by decide

/-- non-vacuity of the repaired theorems on a history that exercises every operation -/
example : (GS gsRepaired).view gsCls [.fit D1, .predict 3, .pickle, .clone, .predict 3, .fit D2, .fit D1] =
    [(.retSelf, .fresh D1), (.ok, .fresh D1), (.ok, .fresh D1), (.ok, .unfitted),
     (.raised .notFitted, .unfitted), (.retSelf, .fresh D2), (.retSelf, .fresh D1)] := by decide

/-! ### GridSearch, repair B (re-entrant `load_data`): same view, but the user's moment object is rewritten -/

theorem gs_reentrant_history_free (r : GSRules) (hm : r.moment = .reentrant) (ops : List Op) (d : Data) :
    (GS r).run (ops ++ [.fit d]) = (GS r).run [.fit d] := by
  rw [run_snoc, run_single]; simp [GS, gsStep, hm, loadConstraints]

theorem gs_reentrant_refines_spec (ops : List Op) : (GS gsReentrant).view gsCls ops = Spec.view specCls ops := by
  apply view_eq_of_sim (GS gsReentrant) Spec
    (fun s t => s.predictors = t.map some ∧ s.bestIdx = t) gsCls specCls ⟨rfl, rfl⟩
  · rintro ⟨m, p, b⟩ t o ⟨h1, h2⟩
    simp only at h1 h2; subst h1 h2
    cases o <;> cases b <;> simp [GS, gsStep, Spec, gsReentrant, loadConstraints]
  · rintro ⟨m, p, b⟩ t ⟨h1, h2⟩
    simp only at h1 h2; subst h1 h2
    cases b <;> simp [gsCls, specCls]

/-- what repair B does not give: the object behind `constraints` is modified by fit -/
example : gsParams ((GS gsReentrant).run [.fit D1]) ≠ gsParams gsInit := by decide

/-! ## ExponentiatedGradient -/

theorem eg_step_embed (r : EGRules) (g : Bool) (hm : r.moment = .copyPerFit)
    (hn : r.nu = .repaired ∨ g = true) (t : Option Data) (o : Op) :
    ((EG r g).step (egEmb g t) o).1 = egEmb g (Spec.step t o).1 := by
  rcases hn with hn | hn <;> cases o <;> cases t <;> cases g <;>
    simp_all [EG, egStep, egEmb, Spec, loadConstraints, Moment.loadData, Moment.new, Except.map, egFreshNu] <;>
    cases r.nu <;> simp

/-- F5b repaired and (F5c repaired or `nu` given by the user): history free. -/
theorem eg_history_free (r : EGRules) (g : Bool) (hm : r.moment = .copyPerFit)
    (hn : r.nu = .repaired ∨ g = true) (ops : List Op) (d : Data) :
    (EG r g).run (ops ++ [.fit d]) = (EG r g).run [.fit d] := by
  have h := run_eq_embed (EG r g) Spec (egEmb g) rfl (eg_step_embed r g hm hn)
  rw [h, h, spec_run_snoc_fit]; rfl

/-- non-vacuity of `eg_history_free`: both hypotheses at once, through the `nu given` alternative with today's `nu` rule -/
example : (EG ⟨.copyPerFit, .current⟩ true).run ([.fit D1, .pickle, .fit D2w] ++ [.fit D2]) =
    (EG ⟨.copyPerFit, .current⟩ true).run [.fit D2] :=
  eg_history_free ⟨.copyPerFit, .current⟩ true rfl (Or.inr rfl) _ D2

theorem eg_refines_spec (g : Bool) (ops : List Op) :
    (EG egRepaired g).view (egCls g) ops = Spec.view specCls ops := by
  apply view_eq_of_embed (EG egRepaired g) Spec (egEmb g) (egCls g) specCls rfl
    (eg_step_embed _ g rfl (Or.inl rfl))
  · intro t o
    cases o <;> cases t <;> cases g <;>
      simp [EG, egStep, egEmb, Spec, egRepaired, loadConstraints, Moment.loadData, Moment.new, Except.map]
  · intro t; cases t <;> cases g <;> simp [egCls, egEmb, specCls, egFreshNu]

theorem eg_fit_returns_self (g : Bool) (ops : List Op) (d : Data) :
    ((EG egRepaired g).step ((EG egRepaired g).run ops) (.fit d)).2 = .retSelf := by
  rw [run_eq_embed (EG egRepaired g) Spec (egEmb g) rfl (eg_step_embed _ g rfl (Or.inl rfl))]
  simp [EG, egStep, egEmb, egRepaired, loadConstraints, Moment.loadData, Moment.new, Except.map]

/-- neither the constraints object nor `nu` ever change (repaired rules) -/
theorem eg_params_unchanged (g : Bool) (ops : List Op) :
    egParams ((EG egRepaired g).run ops) = egParams (egInit g) := by
  rw [run_eq_embed (EG egRepaired g) Spec (egEmb g) rfl (eg_step_embed _ g rfl (Or.inl rfl))]; rfl

theorem eg_predict_pure (r : EGRules) (g : Bool) (s : EGState) (k : Nat) :
    ((EG r g).step s (.predict k)).1 = s ∧
    ((EG r g).step ((EG r g).step s (.predict k)).1 (.predict k)).2 = ((EG r g).step s (.predict k)).2 := by
  have h : ((EG r g).step s (.predict k)).1 = s := by
    simp only [EG, egStep]; split <;> rfl
  exact ⟨h, by rw [h]⟩

theorem eg_pickle_roundtrip (r : EGRules) (g : Bool) (s : EGState) : ((EG r g).step s .pickle).1 = s := rfl

/-- F5b, today's rule -/
theorem eg_current_not_history_free (n : Rule) (g : Bool) :
    ¬ ∀ (ops : List Op) (d : Data), (EG ⟨.latched, n⟩ g).run (ops ++ [.fit d]) = (EG ⟨.latched, n⟩ g).run [.fit d] := by
  intro h; have := h [.fit D1] D2; revert this; cases n <;> cases g <;> decide

example : (EG ⟨.latched, .current⟩ true).view (egCls true) [.fit D1, .fit D2, .predict 0] =
    [(.retSelf, .fresh D1), (.raised .assertion, .fresh D1), (.ok, .fresh D1)] := by decide

example : (EG ⟨.latched, .current⟩ true).view (egCls true) [.fit D1, .clone, .fit D2, .predict 0] =
    [(.retSelf, .fresh D1), (.ok, .unfitted), (.raised .assertion, .broken .attribute),
     (.raised .attribute, .broken .attribute)] := by decide

/-- F5c, today's rule: one fit with `nu=None` overwrites the constructor parameter ... -/
theorem eg_current_nu_overwritten (m : MomentRule) (d : Data) :
    ((EG ⟨m, .current⟩ false).run [.fit d]).nuParam = some (.auto d) ∧ (egInit false).nuParam = none := by
  cases m <;> exact ⟨rfl, rfl⟩

/-- ... and, once the moment latch is repaired, makes the next fit depend on the first data set. -/
theorem eg_current_nu_not_history_free :
    ¬ ∀ (ops : List Op) (d : Data), (EG ⟨.copyPerFit, .current⟩ false).run (ops ++ [.fit d]) = (EG ⟨.copyPerFit, .current⟩ false).run [.fit d] := by
  intro h; exact absurd (h [.fit D1] D2) (by decide)

example : (EG ⟨.copyPerFit, .current⟩ false).view (egCls false) [.fit D1, .fit D2] =
    [(.retSelf, .fresh D1), (.retSelf, .staleNu D2 D1)] := by decide

example : (EG egRepaired false).view (egCls false) [.fit D1, .predict 1, .clone, .fit D2, .pickle, .fit D1] =
    [(.retSelf, .fresh D1), (.ok, .fresh D1), (.ok, .unfitted), (.retSelf, .fresh D2), (.ok, .fresh D2),
     (.retSelf, .fresh D1)] := by decide

/-! ### ExponentiatedGradient, repair B (re-entrant `load_data`) -/

theorem eg_reentrant_refines_spec (g : Bool) (ops : List Op) :
    (EG egReentrant g).view (egCls g) ops = Spec.view specCls ops := by
  apply view_eq_of_sim (EG egReentrant g) Spec
    (fun s t => s.nuParam = (egInit g).nuParam ∧ s.started = t.isSome ∧
                s.fitted = t.map (fun d => (d, egFreshNu g d))) (egCls g) specCls ⟨rfl, rfl, rfl⟩
  · rintro ⟨m, n, st, f⟩ t o ⟨h1, h2, h3⟩
    simp only at h1 h2 h3; subst h1 h2 h3
    cases o <;> cases t <;> cases g <;>
      simp [EG, egStep, Spec, egReentrant, loadConstraints, egInit, egFreshNu]
  · rintro ⟨m, n, st, f⟩ t ⟨h1, h2, h3⟩
    simp only at h1 h2 h3; subst h1 h2 h3
    cases t <;> cases g <;> simp [egCls, specCls, egFreshNu]

theorem eg_reentrant_history_free (g : Bool) (ops : List Op) (d : Data) :
    egCls g ((EG egReentrant g).run (ops ++ [.fit d])) = .fresh d := by
  have h := eg_reentrant_refines_spec g (ops ++ [.fit d])
  have hl := congrArg (fun l => (l.getLast?).map (·.2)) h
  simp only [view, trace] at hl
  have key : ∀ {σ : Type} (M : Machine σ) (c : σ → Cls) (s : σ) (ops : List Op) (o : Op),
      (((M.traceFrom s (ops ++ [o])).map (fun p => (p.1, c p.2))).getLast?).map (·.2)
        = some (c (M.step (M.runFrom s ops) o).1) := by
    intro σ M c s ops o
    induction ops generalizing s with
    | nil => simp [traceFrom, runFrom]
    | cons a as ih =>
      have := ih (M.step s a).1
      simp only [List.cons_append, traceFrom, List.map_cons, runFrom, List.foldl_cons] at this ⊢
      rw [List.getLast?_cons_of_ne_nil]
      · exact this
      · cases as <;> simp [traceFrom]
  rw [key, key] at hl
  have hs : specCls (Spec.step (Spec.runFrom Spec.init ops) (.fit d)).1 = .fresh d := rfl
  rw [hs] at hl
  rw [run_snoc]
  exact Option.some.inj hl

/-! ## ThresholdOptimizer -/

theorem to_step_embed (t : Option Data) (o : Op) :
    ((TO true).step (toEmb t) o).1 = toEmb (Spec.step t o).1 := by
  cases o <;> cases t <;> simp [TO, toStep, toEmb, Spec]

/-- with a clone of the wrapped estimator per fit the result is history free even for a base learner
    whose own `fit` is history dependent -/
theorem to_history_free (ops : List Op) (d : Data) :
    (TO true).run (ops ++ [.fit d]) = (TO true).run [.fit d] := by
  have h := run_eq_embed (TO true) Spec toEmb rfl to_step_embed
  rw [h, h, spec_run_snoc_fit]; rfl

theorem to_refines_spec (ops : List Op) : (TO true).view toCls ops = Spec.view specCls ops := by
  apply view_eq_of_embed (TO true) Spec toEmb toCls specCls rfl to_step_embed
  · intro t o; cases o <;> cases t <;> simp [TO, toStep, toEmb, Spec]
  · intro t; cases t <;> simp [toCls, toEmb, specCls]

theorem to_fit_returns_self (c : Bool) (s : TOState) (d : Data) : ((TO c).step s (.fit d)).2 = .retSelf := by
  cases c <;> rfl

/-- the object passed as `estimator` is never fitted -/
theorem to_params_unchanged (ops : List Op) : toParams ((TO true).run ops) = [] := by
  rw [run_eq_embed (TO true) Spec toEmb rfl to_step_embed]; rfl

theorem to_predict_pure (c : Bool) (s : TOState) (k : Nat) :
    ((TO c).step s (.predict k)).1 = s ∧
    ((TO c).step ((TO c).step s (.predict k)).1 (.predict k)).2 = ((TO c).step s (.predict k)).2 :=
  ⟨rfl, rfl⟩

theorem to_pickle_roundtrip (c : Bool) (s : TOState) : ((TO c).step s .pickle).1 = s := rfl

/-- why the clone matters: fitting the user's object in place is history dependent -/
theorem to_without_clone_not_history_free :
    ¬ ∀ (ops : List Op) (d : Data), (TO false).run (ops ++ [.fit d]) = (TO false).run [.fit d] := by
  intro h; exact absurd (h [.fit D1] D2) (by decide)

example : (TO true).view toCls [.predict 0, .fit D1, .fit D2, .pickle, .predict 5, .clone] =
    [(.raised .notFitted, .unfitted), (.retSelf, .fresh D1), (.retSelf, .fresh D2), (.ok, .fresh D2),
     (.ok, .fresh D2), (.ok, .unfitted)] := by decide

/-! ## CorrelationRemover -/

theorem cr_step_embed (t : Option Data) (o : Op) :
    ((CR .repaired).step (crEmb t) o).1 = crEmb (Spec.step t o).1 := by
  cases o <;> cases t <;> simp [CR, crStep, crEmb, Spec]

theorem cr_history_free (ops : List Op) (d : Data) :
    (CR .repaired).run (ops ++ [.fit d]) = (CR .repaired).run [.fit d] := by
  have h := run_eq_embed (CR .repaired) Spec crEmb rfl cr_step_embed
  rw [h, h, spec_run_snoc_fit]; rfl

theorem cr_refines_spec (ops : List Op) : (CR .repaired).view crCls ops = Spec.view specCls ops := by
  apply view_eq_of_embed (CR .repaired) Spec crEmb crCls specCls rfl cr_step_embed
  · intro t o; cases o <;> cases t <;> simp [CR, crStep, crEmb, Spec]
  · intro t; cases t <;> simp [crCls, crEmb, specCls]

theorem cr_fit_returns_self (s : CRState) (d : Data) : ((CR .repaired).step s (.fit d)).2 = .retSelf := by
  simp [CR, crStep]

theorem cr_predict_pure (r : Rule) (s : CRState) (k : Nat) :
    ((CR r).step s (.predict k)).1 = s ∧
    ((CR r).step ((CR r).step s (.predict k)).1 (.predict k)).2 = ((CR r).step s (.predict k)).2 :=
  ⟨rfl, rfl⟩

theorem cr_pickle_roundtrip (r : Rule) (s : CRState) : ((CR r).step s .pickle).1 = s := rfl

/-- F5e, today's rule: witness `fit D1 (3 columns); fit D2w (4 columns)` raises ValueError, state stays D1 -/
theorem cr_current_not_history_free :
    ¬ ∀ (ops : List Op) (d : Data), (CR .current).run (ops ++ [.fit d]) = (CR .current).run [.fit d] := by
  intro h; exact absurd (h [.fit D1] D2w) (by decide)

example : (CR .current).view crCls [.fit D1, .fit D2w] =
    [(.retSelf, .fresh D1), (.raised .value, .fresh D1)] := by decide

/-- F5e is exactly about the width: today's rule *is* history free over data sets of one width. -/
theorem cr_current_history_free_same_width (w : Nat) (ops : List Op) (d : Data) (hd : d.width = w)
    (hw : ∀ d', Op.fit d' ∈ ops → d'.width = w) :
    (CR .current).run (ops ++ [.fit d]) = (CR .current).run [.fit d] := by
  have inv : ∀ (ops : List Op) (s : CRState), (s.nFeatures = none ∨ s.nFeatures = some w) →
      (∀ d', Op.fit d' ∈ ops → d'.width = w) →
      (((CR .current).runFrom s ops).nFeatures = none ∨ ((CR .current).runFrom s ops).nFeatures = some w) := by
    intro ops
    induction ops with
    | nil => intro s hs _; exact hs
    | cons o os ih =>
      intro s hs hw
      apply ih
      · cases o with
        | fit d' =>
          have hd' := hw d' (by simp)
          rcases hs with hs | hs <;> simp [CR, crStep, hs, hd']
        | predict k => exact hs
        | pickle => exact hs
        | clone => left; rfl
      · intro d' hmem; exact hw d' (by simp [hmem])
  have hs := inv ops (CR .current).init (Or.inl rfl) hw
  rw [run_snoc, run_single]
  unfold run
  generalize (CR .current).runFrom (CR .current).init ops = s at hs
  rcases s with ⟨nf, f⟩
  simp only at hs
  rcases hs with rfl | rfl <;> simp [CR, crStep, hd, crInit]

/-- non-vacuity of `cr_current_history_free_same_width`: w = 3, a history with two fits, a clone and a predict -/
example : (CR .current).run ([.fit D1, .predict 0, .clone, .fit D2] ++ [.fit D1]) = (CR .current).run [.fit D1] :=
  cr_current_history_free_same_width 3 _ D1 rfl (by intro d' h; simp at h; rcases h with rfl | rfl <;> rfl)

example : (CR .repaired).view crCls [.fit D1, .fit D2w, .predict 0, .clone, .fit D1] =
    [(.retSelf, .fresh D1), (.retSelf, .fresh D2w), (.ok, .fresh D2w), (.ok, .unfitted), (.retSelf, .fresh D1)] := by
  decide

/-! ## adversarial estimators (warm_start = False) -/

theorem adv_step_embed (t : Option Data) (o : Op) :
    ((Adv .repaired false).step (advEmb t) o).1 = advEmb (Spec.step t o).1 := by
  cases o <;> cases t <;> simp [Adv, advStep, advEmb, Spec, newEngine, advInit]

theorem adv_history_free (ops : List Op) (d : Data) :
    (Adv .repaired false).run (ops ++ [.fit d]) = (Adv .repaired false).run [.fit d] := by
  have h := run_eq_embed (Adv .repaired false) Spec advEmb rfl adv_step_embed
  rw [h, h, spec_run_snoc_fit]; rfl

/-- pickling a set-up adversarial estimator is not claimed by the property: the result of `pickle` is
    masked, its effect on the state (none) is not. -/
theorem adv_refines_spec (ops : List Op) :
    (Adv .repaired false).maskPickle.view advCls ops = Spec.view specCls ops := by
  apply view_eq_of_embed (Adv .repaired false).maskPickle Spec advEmb advCls specCls rfl
  · intro t o; cases o <;> cases t <;> simp [maskPickle, Adv, advStep, advEmb, Spec, newEngine, advInit]
  · intro t o; cases o <;> cases t <;> simp [maskPickle, Adv, advStep, advEmb, Spec, advInit]
  · intro t; cases t <;> simp [advCls, advEmb, specCls, advInit]

theorem adv_fit_returns_self (r : Rule) (w : Bool) (s : AdvState) (d : Data) :
    ((Adv r w).step s (.fit d)).2 = .retSelf := rfl

theorem adv_predict_pure (r : Rule) (w : Bool) (s : AdvState) (k : Nat) :
    ((Adv r w).step s (.predict k)).1 = s ∧
    ((Adv r w).step ((Adv r w).step s (.predict k)).1 (.predict k)).2 = ((Adv r w).step s (.predict k)).2 :=
  ⟨rfl, rfl⟩

/-- whether or not pickling succeeds, it does not alter the estimator -/
theorem adv_pickle_state_unchanged (r : Rule) (w : Bool) (s : AdvState) : ((Adv r w).step s .pickle).1 = s := rfl

/-- F5d, today's rule: witness `fit D1; fit D2` — the engine is not rebuilt, training continues. -/
theorem adv_current_not_history_free :
    ¬ ∀ (ops : List Op) (d : Data), (Adv .current false).run (ops ++ [.fit d]) = (Adv .current false).run [.fit d] := by
  intro h; exact absurd (h [.fit D1] D2) (by decide)

example : (Adv .current false).view advCls [.fit D1, .fit D2, .clone, .fit D2] =
    [(.retSelf, .fresh D1), (.retSelf, .other), (.ok, .unfitted), (.retSelf, .fresh D2)] := by decide

/-- today `warm_start` is never consulted after the first fit: both settings behave alike -/
theorem adv_current_ignores_warm_start (ops : List Op) :
    (Adv .current true).run ops = (Adv .current false).run ops := by
  have h : ∀ (ops : List Op) (s : AdvState), (s.isSetup = s.hasClasses ∧ (s.isSetup = false → s.engine = none)) →
      (Adv .current true).runFrom s ops = (Adv .current false).runFrom s ops := by
    intro ops
    induction ops with
    | nil => intro s _; rfl
    | cons o os ih =>
      intro s hs
      have e : ((Adv .current true).step s o) = ((Adv .current false).step s o) := by
        cases o <;> try rfl
        rcases s with ⟨c, u, en⟩
        cases u <;> cases c <;> simp_all [Adv, advStep, newEngine]
      show (Adv .current true).runFrom ((Adv .current true).step s o).1 os =
           (Adv .current false).runFrom ((Adv .current false).step s o).1 os
      rw [e]
      apply ih
      cases o <;> simp [Adv, advStep, advInit] <;> exact hs
  exact h ops advInit ⟨rfl, fun _ => rfl⟩

/-- the hypothesis warm_start = False is needed: with the repaired rule and warm_start = True training
    legitimately continues -/
example : (Adv .repaired true).view advCls [.fit D1, .fit D2] =
    [(.retSelf, .fresh D1), (.retSelf, .other)] := by decide

example : (Adv .repaired false).view advCls [.fit D1, .fit D2, .predict 0, .pickle, .clone, .pickle] =
    [(.retSelf, .fresh D1), (.retSelf, .fresh D2), (.ok, .fresh D2), (.raised .pickling, .fresh D2),
     (.ok, .unfitted), (.ok, .unfitted)] := by decide

/-! ## the same clauses for the rule flags DERIVED FROM THE SOURCE (`Generated/LifecycleSrc.lean`, rewritten from
the Python `ast` on every run by harness/lifters/lifecycle.py; machines in `Model/LifecycleSrc.lean`).
The quantifier of the `decide` proofs below is the finite, generated list of classes / attribute names; the histories
are still universally quantified (the flags are rewritten into the hand-written machines proved above).
Modelled assumption (trusted): rebinding `self.<name>` inside the class's own methods is the only way the value
`get_params` reports for `<name>` changes, and the callees in `fitSelfEscapes` / `predictSelfEscapes` do not do it. -/

section Src
open LifecycleSrc Generated.LifecycleSrc

/-- no estimator except ExponentiatedGradient rebinds or stores into a constructor parameter anywhere in the
    closure of `fit` / `partial_fit` -/
theorem src_params_unchanged :
    ∀ c ∈ [EstCls.TO, .GS, .CR, .ADV, .ADVC, .ADVR], paramsAssignedInFit c = [] ∧ paramsMutatedInFit c = [] := by
  decide +kernel

/-- F5c (KNOWN finding, kept visible): `ExponentiatedGradient.fit` rebinds exactly the parameter `nu`. -/
theorem src_eg_params_assigned : paramsAssignedInFit .EG = ["nu"] ∧ paramsMutatedInFit .EG = [] := by
  decide +kernel

/-- every path of `fit` / `partial_fit` of every estimator ends in `return self` -/
theorem src_fit_returns_self : ∀ c ∈ estimators, fitReturns c = ["self"] := by decide +kernel

/-- no prediction entry point (predict, predict_proba, decision_function, _pmf_predict, transform, _raw_predict)
    rebinds or stores into any attribute of the estimator, and the only outside code handed the estimator is
    sklearn's `check_is_fitted` / `validate_data` -/
theorem src_predict_pure :
    ∀ c ∈ estimators, predictAssigned c = [] ∧ subset (predictSelfEscapes c) trustedPredictCallees = true := by
  decide +kernel

/-- every estimator has at least one prediction entry point that was analysed (non-vacuity of `src_predict_pure`) -/
theorem src_predict_methods_present : ∀ c ∈ estimators, predictMethods c ≠ [] := by decide +kernel

/-! ### the prediction closure followed ACROSS the helper objects (`InterpolatedThresholder` behind
`ThresholdOptimizer.interpolated_thresholder_`; `BackendEngine` / `PytorchEngine` / `TensorflowEngine` behind
`_AdversarialFairness.backendEngine_`): lifted by harness/lifters/lifecycle_helpers.py -/

/-- ThresholdOptimizer and the adversarial estimators do delegate their predictions to a helper object, every method they
    call on it was found and analysed in every helper class behind the attribute (for the engines: the abstract base
    method and both overrides), and no other estimator class has such an attribute -/
theorem src_helper_calls_followed :
    helperPredictCalls .TO ≠ [] ∧ helperPredictCalls .ADV ≠ [] ∧
    (∀ c ∈ estimators, helperCallsResolved c = true) ∧
    (∀ c ∈ [EstCls.EG, .GS, .CR], helpersOf c = [] ∧ helperPredictCalls c = []) ∧
    helperPredictClosure .IT ≠ [] ∧ helperPredictClosure .PT ≠ [] ∧ helperPredictClosure .TF ≠ [] := by decide +kernel

/-- what the lifter does NOT follow during prediction is a generated list too, and it consists of the prediction methods of the
    wrapped base estimators, `FloatTransformer.inverse_transform` and the adversarial predictor function only -/
theorem src_predict_other_calls_trusted :
    ∀ c ∈ estimators, subset (predictOtherCalls c) trustedPredictObjectCalls = true := by decide +kernel

/-- inside the helper classes, the closure of the prediction methods the estimators call (`InterpolatedThresholder.predict` /
    `_pmf_predict`, `<engine>.evaluate`) rebinds no attribute of the helper object or of the estimator behind `self.base`,
    stores into none in place, calls no mutating method on one (container mutators, torch in-place `…_` methods, optimiser
    `step` / `zero_grad`, RNG draws — also through local aliases such as `for p in self.predictor_model.parameters()`),
    hands the helper object only to `check_is_fitted` and its attributes only to `_get_soft_predictions` -/
theorem src_helper_predict_pure :
    ∀ h ∈ allHelpers, helperPredictWrites h = [] ∧ subset (helperPredictSelfEscapes h) trustedPredictCallees = true ∧
      subset (helperPredictAttrArgs h) trustedHelperAttrArgs = true := by decide +kernel

/-- the train / eval MODE FLAG of the networks is scratch state: the prediction closure only ever selects eval mode
    (`PytorchEngine.evaluate`: `self.predictor_model.eval()`, `TensorflowEngine.evaluate`: `training=False`), every forward
    pass of a prediction happens after an unconditional eval selection in the same call, and `train_step` selects train mode
    on the same module before its own forward pass — so the flag carries nothing from a prediction into a later fit or
    prediction.  (Parameters, buffers and optimiser state are covered by `src_helper_predict_pure`.) -/
theorem src_helper_mode_flag_scratch :
    (∀ h ∈ allHelpers, modeOk h = true) ∧
    helperPredictForwardModes .PT = [("predictor_model", "eval")] ∧
    helperPredictForwardModes .TF = [("predictor_model", "eval")] ∧
    (helperTrainStepForwardModes .PT).contains ("predictor_model", "train") = true := by decide +kernel

/-- F5g REPAIRED (current source): `CorrelationRemover.transform` calls `validate_data(self, X, reset=False)`, so no prediction
    entry point of any class lets sklearn rewrite `n_features_in_` / `feature_names_in_`; CorrelationRemover's purity flag is
    on WITHOUT exception, its source-derived machine is the raw one, and a `transform` leaves the modelled state alone. -/
theorem src_cr_transform_pure :
    (∀ c ∈ estimators, predictValidateResets c = []) ∧ predictPureSrc .CR = true ∧ CRsrc = CRraw := by
  refine ⟨by decide +kernel, by decide +kernel, ?_⟩
  exact guardPredict_of_flag (by decide +kernel) _ _

/-- F5g, the PRE-REPAIR rule (counter-witness, like the other historical rules): with `validate_data(self, X)` in `transform`
    (sklearn's default `reset=True`; the lifter then emits `predictValidateResets .CR = ["transform"]`) the purity flag of
    CorrelationRemover is OFF, and the machine run through that flag departs from the specification after one `transform`
    (replayed on fairlearn before the repair: fit on 3 columns, `transform` of 4 columns raised ValueError and left
    `n_features_in_ = 4`; a DataFrame with a renamed column replaced `feature_names_in_`).  No fairlearn code reads the two
    attributes, which is why only the attribute comparison of the harness could see it. -/
theorem src_cr_transform_resets_sklearn_attrs :
    predictPureWith ["transform"] .CR = false ∧
    (guardPredict (predictPureWith ["transform"] .CR) crTaint CRraw).view crCls [.fit D1, .predict 0]
      ≠ Spec.view specCls [.fit D1, .predict 0] ∧
    (predictReads .CR).contains "n_features_in_" = false ∧ (predictReads .CR).contains "feature_names_in_" = false ∧
    (fitHistoryReads .CR).all (fun x => !x.startsWith "n_features_in_ " && !x.startsWith "feature_names_in_ ") = true := by
  decide +kernel

/-- THE predict-purity flag of every estimator class (`predictAssigned` empty, escapes trusted, helper calls resolved,
    every helper class pure) is on — every `…src` machine below runs its prediction step through this flag -/
theorem src_predict_pure_flags : ∀ c ∈ estimators, predictPureSrc c = true := by decide +kernel

theorem src_to_guard : TOsrc = TOraw := guardPredict_of_flag (src_predict_pure_flags .TO (by decide)) _ _
theorem src_topre_guard (h0 : List Data) : TOPreSrc h0 = TOPreRaw h0 :=
  guardPredict_of_flag (src_predict_pure_flags .TO (by decide)) _ _
theorem src_gs_guard : GSsrc = GSraw := guardPredict_of_flag (src_predict_pure_flags .GS (by decide)) _ _
theorem src_eg_guard (g : Bool) : EGsrc g = EGraw g := guardPredict_of_flag (src_predict_pure_flags .EG (by decide)) _ _
theorem src_cr_guard : CRsrc = CRraw := guardPredict_of_flag (src_predict_pure_flags .CR (by decide)) _ _
theorem src_adv_guard (w : Bool) : ADVsrc w = ADVraw w := guardPredict_of_flag (src_predict_pure_flags .ADV (by decide)) _ _

/-- the guard has teeth: with the flag off (= some lifted write list non-empty) one prediction makes the estimator differ
    from its fresh twin, i.e. the refinement theorems below would be FALSE -/
theorem guard_off_breaks_spec :
    (guardPredict false toTaint TOraw).view toCls [.fit D1, .predict 0] ≠ Spec.view specCls [.fit D1, .predict 0] ∧
    (guardPredict false advTaint (ADVraw false)).view advCls [.fit D1, .predict 0] ≠ Spec.view specCls [.fit D1, .predict 0] ∧
    (guardPredict false gsTaint GSraw).view gsCls [.fit D1, .predict 0] ≠ Spec.view specCls [.fit D1, .predict 0] ∧
    (guardPredict false (egTaint) (EGraw true)).view (egCls true) [.fit D1, .predict 0] ≠ Spec.view specCls [.fit D1, .predict 0] ∧
    (guardPredict false crTaint CRraw).view crCls [.fit D1, .predict 0] ≠ Spec.view specCls [.fit D1, .predict 0] := by
  decide +kernel

theorem src_fit_escapes_trusted : ∀ c ∈ estimators, subset (fitSelfEscapes c) trustedFitCallees = true := by
  decide +kernel

/-- every object that ThresholdOptimizer, GridSearch and ExponentiatedGradient (through `_Lagrangian`) call `.fit` on
    is a clone / deep copy of the wrapped estimator or a freshly constructed object on every path -/
theorem src_estimator_cloned :
    toClones = true ∧ clonesBeforeFit .GS = true ∧ clonesBeforeFit .EG = true ∧ clonesBeforeFit .LAG = true ∧
    (fitReceivers .GS ≠ [] ∧ fitReceivers .LAG ≠ []) := by decide +kernel

/-- `fit` of ThresholdOptimizer, ExponentiatedGradient and GridSearch reads no fitted attribute before it has
    definitely reassigned it in the same call (flow-sensitive definite-assignment analysis of the lifter).
    CorrelationRemover: the one static path is `_create_lookup` returning early for 1-d input without setting
    `lookup_`; that path is dead (`validate_data` raises for 1-d input right after — replayed by the harness,
    relation `C19.cr_1d_path_dead`). -/
theorem src_fit_history_reads :
    fitHistoryReads .TO = [] ∧ fitHistoryReads .EG = [] ∧ fitHistoryReads .GS = [] ∧
    fitHistoryReads .CR = ["lookup_ in _split_X"] := by decide +kernel

/-- `fit` and the prediction entry points read no attribute that only `__init__` sets (and `get_params` does not
    report).  GridSearch still DERIVES `objective_weight = 1 − constraint_weight` in `__init__`, but since the repair of
    F5f (/repo 2f54dd0) nothing reads it. -/
theorem src_init_derived_reads :
    initDerivedReads .TO = [] ∧ initDerivedReads .EG = [] ∧ initDerivedReads .CR = [] ∧ initDerivedReads .GS = [] ∧
    initDerivedDeps .GS = [("objective_weight", ["constraint_weight"])] := by decide +kernel

/-- GENERIC: a `fit` that reads no stale fitted state and unconditionally reassigns every attribute a prediction reads
    leaves the same observable fitted state whatever the estimator's history was (any old state, any branch choices) —
    and that state is computed from the data of this fit only -/
theorem fit_overwrites_all_fitted_state (sh : FitShape) (h1 : sh.historyReads = [])
    (h2 : ∀ a ∈ sh.predictReads, a ∈ sh.uncond) (ch1 ch2 : String → Bool) (d : Nat) (s1 s2 : FittedState) :
    observe sh (fitOn sh ch1 d s1) = observe sh (fitOn sh ch2 d s2) ∧
    ∀ v ∈ observe sh (fitOn sh ch1 d s1), v = some (d, true) := by
  have key : ∀ (ch : String → Bool) (s : FittedState), ∀ a ∈ sh.predictReads, fitOn sh ch d s a = some (d, true) := by
    intro ch s a ha
    have hu : a ∈ sh.uncond := h2 a ha
    simp [fitOn, hu, h1]
  constructor
  · unfold observe
    apply List.map_congr_left
    intro a ha; rw [key ch1 s1 a ha, key ch2 s2 a ha]
  · intro v hv
    unfold observe at hv
    obtain ⟨a, ha, rfl⟩ := List.mem_map.mp hv
    exact key ch1 s1 a ha

/-- the hypotheses are needed: a conditional reset (the attribute is only rewritten on some paths) lets an earlier
    fit's value through -/
example : observe ⟨[], ["curve"], [], ["curve"]⟩ (fitOn ⟨[], ["curve"], [], ["curve"]⟩ (fun _ => false) 2 (fun _ => some (1, true)))
    = [some (1, true)] := by decide

/-- non-vacuity of `fit_overwrites_all_fitted_state`: GridSearch's lifted shape meets both hypotheses, reads two fitted
    attributes in predict, and the two old states / branch choices really differ -/
example : observe (shapeOf .GS) (fitOn (shapeOf .GS) (fun _ => true) 2 (fun _ => some (1, false))) =
    observe (shapeOf .GS) (fitOn (shapeOf .GS) (fun _ => false) 2 (fun _ => none)) ∧
    observe (shapeOf .GS) (fitOn (shapeOf .GS) (fun _ => true) 2 (fun _ => some (1, false))) = [some (2, true), some (2, true)] :=
  ⟨(fit_overwrites_all_fitted_state (shapeOf .GS) (by decide +kernel) (by decide +kernel) _ _ 2 _ _).1, by decide +kernel⟩

/-- from the source: for ThresholdOptimizer, ExponentiatedGradient and GridSearch, `fit` reads no fitted attribute
    before reassigning it AND every fitted attribute a prediction entry point reads is reassigned on every normally
    returning path of `fit` … -/
theorem src_fit_shape :
    ∀ c ∈ [EstCls.TO, .EG, .GS], (shapeOf c).historyReads = [] ∧ predictReadsNotOverwritten c = [] ∧ predictReads c ≠ [] := by
  decide +kernel

/-- … hence every fit overwrites all fitted state a prediction can see (history freedom of the attribute state) -/
theorem src_fit_overwrites_all_fitted_state (c : EstCls) (hc : c ∈ [EstCls.TO, .EG, .GS]) (ch1 ch2 : String → Bool)
    (d : Nat) (s1 s2 : FittedState) :
    observe (shapeOf c) (fitOn (shapeOf c) ch1 d s1) = observe (shapeOf c) (fitOn (shapeOf c) ch2 d s2) := by
  obtain ⟨h1, h2, _⟩ := src_fit_shape c hc
  refine (fit_overwrites_all_fitted_state (shapeOf c) h1 ?_ ch1 ch2 d s1 s2).1
  intro a ha
  have : (predictReadsNotOverwritten c).contains a = false := by rw [h2]; rfl
  by_contra hn
  have hmem : a ∈ predictReadsNotOverwritten c := by
    unfold predictReadsNotOverwritten
    rw [List.mem_filter]
    refine ⟨ha, ?_⟩
    have hnm : a ∉ fitDefinitelyAssigned c := hn
    simp [hnm]
  rw [h2] at hmem; cases hmem

/-- CorrelationRemover: the same, up to the one static path of `_create_lookup` (1-d input) that is dead at run time -/
theorem src_cr_fit_shape :
    predictReadsNotOverwritten .CR = ["lookup_"] ∧ fitHistoryReads .CR = ["lookup_ in _split_X"] := by decide +kernel

/-! ### the machines under the derived flags -/

theorem src_gs_rules : gsRules = gsReentrant := by decide +kernel

/-- F5c stays: the moment latch is gone (re-entrant `load_data`), `nu` is still rebound -/
theorem src_eg_rules : egRules = ⟨.reentrant, .current⟩ := by decide +kernel

theorem src_cr_rule : crRule = .repaired := by decide +kernel

theorem src_to_clones : toClones = true := by decide +kernel

theorem src_gs_refines_spec (ops : List Op) : GSsrc.view gsCls ops = Spec.view specCls ops := by
  rw [src_gs_guard]; unfold GSraw; rw [src_gs_rules]; exact gs_reentrant_refines_spec ops

theorem src_gs_history_free (ops : List Op) (d : Data) : GSsrc.run (ops ++ [.fit d]) = GSsrc.run [.fit d] := by
  rw [src_gs_guard]; unfold GSraw; exact gs_reentrant_history_free _ (by rw [src_gs_rules]; rfl) ops d

theorem src_gs_fit_returns_self (s : GSState) (d : Data) : (GSsrc.step s (.fit d)).2 = .retSelf := by
  rw [src_gs_guard]; unfold GSraw; rw [src_gs_rules]; simp [GS, gsStep, gsReentrant, loadConstraints]

/-- ExponentiatedGradient with `nu` given by the user: today's source refines the specification … -/
theorem src_eg_refines_spec_nu_given (ops : List Op) :
    (EGsrc true).view (egCls true) ops = Spec.view specCls ops := by
  rw [src_eg_guard]; unfold EGraw; rw [src_eg_rules]
  apply view_eq_of_sim (EG ⟨.reentrant, .current⟩ true) Spec
    (fun s t => s.nuParam = some .given ∧ s.started = t.isSome ∧
                s.fitted = t.map (fun d => (d, Nu.given))) (egCls true) specCls ⟨rfl, rfl, rfl⟩
  · rintro ⟨m, n, st, f⟩ t o ⟨h1, h2, h3⟩
    simp only at h1 h2 h3; subst h1 h2 h3
    cases o <;> cases t <;> simp [EG, egStep, Spec, loadConstraints]
  · rintro ⟨m, n, st, f⟩ t ⟨h1, h2, h3⟩
    simp only at h1 h2 h3; subst h1 h2 h3
    cases t <;> simp [egCls, specCls, egFreshNu]

/-- … and never changes `nu` -/
theorem src_eg_nu_unchanged_nu_given (ops : List Op) : ((EGsrc true).run ops).nuParam = some .given := by
  rw [src_eg_guard]; unfold EGraw; rw [src_eg_rules]
  have h : ∀ (ops : List Op) (s : EGState), s.nuParam = some .given →
      ((EG ⟨.reentrant, .current⟩ true).runFrom s ops).nuParam = some .given := by
    intro ops
    induction ops with
    | nil => intro s hs; exact hs
    | cons o os ih =>
      intro s hs
      apply ih
      cases o <;> simp [EG, egStep, loadConstraints, hs]
      · split <;> simp [hs]
  exact h ops _ rfl

/-- F5c under today's source, `nu=None`: the first fit's automatic `nu` is kept by every later fit (known finding) -/
theorem src_eg_nu_none_is_f5c :
    (EGsrc false).view (egCls false) [.fit D1, .fit D2] = [(.retSelf, .fresh D1), (.retSelf, .staleNu D2 D1)] ∧
    ((EGsrc false).run [.fit D1]).nuParam = some (.auto D1) := by
  decide +kernel

theorem src_cr_refines_spec (ops : List Op) : CRsrc.view crCls ops = Spec.view specCls ops := by
  rw [src_cr_guard]; unfold CRraw; rw [src_cr_rule]; exact cr_refines_spec ops

theorem src_cr_history_free (ops : List Op) (d : Data) : CRsrc.run (ops ++ [.fit d]) = CRsrc.run [.fit d] := by
  rw [src_cr_guard]; unfold CRraw; rw [src_cr_rule]; exact cr_history_free ops d

theorem src_to_refines_spec (ops : List Op) : TOsrc.view toCls ops = Spec.view specCls ops := by
  rw [src_to_guard]; unfold TOraw; rw [src_to_clones]; exact to_refines_spec ops

theorem src_to_history_free (ops : List Op) (d : Data) : TOsrc.run (ops ++ [.fit d]) = TOsrc.run [.fit d] := by
  rw [src_to_guard]; unfold TOraw; rw [src_to_clones]; exact to_history_free ops d

/-- the adversarial step function written over the three lifted boolean rules (`reinitialize = …` in fit, the guard
    of `self.__setup` in `_validate_input`, the keep condition of `BackendEngine.__init__`) IS the repaired rule -/
theorem src_adv_step_eq (w : Bool) (s : AdvState) (o : Op) : advStepSrc w s o = advStep .repaired w s o := by
  rcases s with ⟨c, u, e⟩
  cases o <;> try rfl
  cases w <;> cases c <;> cases u <;> cases e <;>
    simp [advStepSrc, advStep, advSetupCond, advReinit, advKeepEngine, newEngineSrc, newEngine, fitReturns]

theorem src_adv_machine_eq (w : Bool) : ADVsrc w = Adv .repaired w := by
  rw [src_adv_guard]; unfold ADVraw Adv; congr 1; funext s o; exact src_adv_step_eq w s o

theorem src_adv_history_free (ops : List Op) (d : Data) :
    (ADVsrc false).run (ops ++ [.fit d]) = (ADVsrc false).run [.fit d] := by
  rw [src_adv_machine_eq]; exact adv_history_free ops d

theorem src_adv_refines_spec (ops : List Op) :
    (ADVsrc false).maskPickle.view advCls ops = Spec.view specCls ops := by
  rw [src_adv_machine_eq]; exact adv_refines_spec ops

example : (EGsrc true).view (egCls true) [.fit D1, .predict 1, .clone, .fit D2, .pickle, .fit D1] =
    [(.retSelf, .fresh D1), (.ok, .fresh D1), (.ok, .unfitted), (.retSelf, .fresh D2), (.ok, .fresh D2),
     (.retSelf, .fresh D1)] := by decide +kernel

example : (ADVsrc false).view advCls [.fit D1, .fit D2, .clone, .fit D2] =
    [(.retSelf, .fresh D1), (.retSelf, .fresh D2), (.ok, .unfitted), (.retSelf, .fresh D2)] := by decide +kernel

end Src

/-! ## histories with `set_params` between fits (`Model/LifecycleParams.lean`)

`fit; set_params(p=v); fit` must equal `fresh(p=v).fit`.  `set_params` is `setattr` on the parameter only, so the
clause holds for every history exactly when `fit` reads nothing that `__init__` derived from a parameter. -/

section Params
open LifecycleParams Generated.LifecycleSrc

/-- an estimator whose `fit` reads only constructor parameters: for EVERY history over fit / predict / pickle /
    clone / set_params it shows the specification's view — in particular a fit after `set_params(p=v)` gives the
    model of a fresh estimator constructed with `p=v` -/
theorem params_refines_spec (p0 : Nat) (ops : List POp) : view false p0 ops = specView p0 ops :=
  view_false_eq_spec p0 ops

/-- the specification's own content: after any history, `fit d` leaves "fresh twin on d with the parameter value
    of the last `set_params`" -/
theorem spec_fit_uses_current_params (p0 : Nat) (ops : List POp) (d : Data) :
    pspecCls (runWith pspecStep ⟨p0, none⟩ (ops ++ [.fit d])) = .fresh d (currentParam p0 ops) := by
  rw [runWith_snoc]
  show PCls.fresh d (runWith pspecStep ⟨p0, none⟩ ops).param = _
  rw [spec_param]

/-- an estimator whose `fit` reads an attribute derived in `__init__`: 2-operation witness
    `set_params(p=v1); fit(D1)` is like no fresh twin; `clone` (which re-runs `__init__`) heals it -/
theorem params_stale_derived_not_spec : ¬ ∀ ops, view true 0 ops = specView 0 ops := by
  intro h; exact absurd (h [.setParam 1, .fit D1]) (by decide)

example : view true 0 [.setParam 1, .fit D1] = [(.ok, .unfitted), (.retSelf, .other)] := by decide
example : view true 0 [.setParam 1, .clone, .fit D1] = [(.ok, .unfitted), (.ok, .unfitted), (.retSelf, .fresh D1 1)] := by
  decide
example : view false 0 [.fit D1, .setParam 1, .predict, .fit D2, .setParam 0, .fit D1] =
    [(.retSelf, .fresh D1 0), (.ok, .fresh D1 0), (.ok, .fresh D1 0), (.retSelf, .fresh D2 1), (.ok, .fresh D2 1),
     (.retSelf, .fresh D1 0)] := by decide

/-- from the source: no estimator reads, in `fit` or a prediction entry point, an attribute that `__init__` derived
    from a constructor parameter (what the adversarial `__init__` chain derives depends on no parameter; GridSearch's
    `objective_weight` is no longer read) … -/
theorem src_no_stale_derived :
    ∀ c ∈ [EstCls.TO, .EG, .GS, .CR, .ADV, .ADVC, .ADVR], staleAfterSetParams c = [] := by decide +kernel

/-- … so their `set_params` histories refine the specification -/
theorem src_params_refines_spec (c : EstCls) (hc : c ∈ [EstCls.TO, .EG, .GS, .CR, .ADV, .ADVC, .ADVR]) (p0 : Nat)
    (ops : List POp) : view (readsDerivedSrc c) p0 ops = specView p0 ops := by
  have h : readsDerivedSrc c = false := by
    unfold readsDerivedSrc; rw [src_no_stale_derived c hc]; rfl
  rw [h]; exact view_false_eq_spec p0 ops

example : view (readsDerivedSrc .GS) 0 [.fit D1, .setParam 1, .fit D2] = specView 0 [.fit D1, .setParam 1, .fit D2] :=
  src_params_refines_spec .GS (by decide) 0 _

/-- F5f (found by this check, repaired in /repo 2f54dd0): `GridSearch.fit` used to read `objective_weight`, which
    `__init__` computed as `1.0 - constraint_weight` and `set_params(constraint_weight=…)` does not update — the stale
    machine `view true` above (`params_stale_derived_not_spec`).  Today's source: the machine reads no derived attribute. -/
theorem src_gs_set_params_repaired :
    readsDerivedSrc .GS = false ∧
    view (readsDerivedSrc .GS) 0 [.setParam 1, .fit D1] = [(.ok, .unfitted), (.retSelf, .fresh D1 1)] := by
  decide +kernel

end Params

/-! ## ThresholdOptimizer with `prefit=True`

History freedom there means: the thresholds depend on the data of the last fit and on the user's fitted estimator AS THE
USER LEFT IT — `fit` never refits that object.  `clone` drops the fitted state of the nested estimator, after which `fit`
fails exactly like a fresh ThresholdOptimizer(prefit=True) around an unfitted estimator. -/

section Prefit

def cloneFree (ops : List Op) : Prop := ∀ o ∈ ops, o ≠ Op.clone

theorem to_prefit_inv (h0 : List Data) (hne : h0 ≠ []) :
    ∀ (ops : List Op) (s : TOPreState), cloneFree ops → s.user = h0 →
      ((TOPre false h0).runFrom s ops).user = h0 := by
  intro ops
  induction ops with
  | nil => intro s _ hs; exact hs
  | cons o os ih =>
    intro s hc hs
    apply ih
    · intro o' ho'; exact hc o' (List.mem_cons_of_mem _ ho')
    · have hn : s.user.isEmpty = false := by rw [hs]; cases h0 <;> simp_all
      cases o with
      | fit d => simp only [TOPre, toPreStep, hn, Bool.false_eq_true, if_false]; exact hs
      | predict k => exact hs
      | pickle => exact hs
      | clone => exact absurd rfl (hc .clone (by simp))

/-- the user's estimator is never refitted: after any clone-free history its fit history is what the user left -/
theorem to_prefit_user_estimator_untouched (h0 : List Data) (hne : h0 ≠ []) (ops : List Op) (hc : cloneFree ops) :
    ((TOPre false h0).run ops).user = h0 :=
  to_prefit_inv h0 hne ops _ hc rfl

/-- … and a fit after any clone-free history gives the state of a first fit -/
theorem to_prefit_history_free (h0 : List Data) (hne : h0 ≠ []) (ops : List Op) (hc : cloneFree ops) (d : Data) :
    (TOPre false h0).run (ops ++ [.fit d]) = (TOPre false h0).run [.fit d] := by
  rw [run_snoc, run_single]
  have hu := to_prefit_user_estimator_untouched h0 hne ops hc
  have hn : h0.isEmpty = false := by cases h0 <;> simp_all
  generalize (TOPre false h0).run ops = s at hu
  rcases s with ⟨u, e, f⟩
  simp only at hu; subst hu
  simp [TOPre, toPreStep, toPreInit, hn]

theorem to_prefit_fit_returns_self (h0 : List Data) (hne : h0 ≠ []) (ops : List Op) (hc : cloneFree ops) (d : Data) :
    ((TOPre false h0).step ((TOPre false h0).run ops) (.fit d)).2 = .retSelf ∧
    toPreCls h0 ((TOPre false h0).run (ops ++ [.fit d])) = .fresh d := by
  have hn : h0.isEmpty = false := by cases h0 <;> simp_all
  constructor
  · have hu := to_prefit_user_estimator_untouched h0 hne ops hc
    generalize (TOPre false h0).run ops = s at hu
    rcases s with ⟨u, e, f⟩
    simp only at hu; subst hu
    simp [TOPre, toPreStep, hn]
  · rw [to_prefit_history_free h0 hne ops hc d, run_single]
    simp [TOPre, toPreStep, toPreInit, hn, toPreCls]

/-- non-vacuity of the prefit theorems: a fitted user estimator (h0 = [D2w]) and a clone-free history with two fits -/
example : (TOPre false [D2w]).run ([.predict 0, .fit D1, .pickle, .fit D2] ++ [.fit D1]) = (TOPre false [D2w]).run [.fit D1] ∧
    ((TOPre false [D2w]).run [.predict 0, .fit D1, .pickle, .fit D2]).user = [D2w] ∧
    toPreCls [D2w] ((TOPre false [D2w]).run ([.predict 0, .fit D1, .pickle, .fit D2] ++ [.fit D1])) = .fresh D1 :=
  have hc : cloneFree [.predict 0, .fit D1, .pickle, .fit D2] := by unfold cloneFree; decide
  ⟨to_prefit_history_free [D2w] (by decide) _ hc D1, to_prefit_user_estimator_untouched [D2w] (by decide) _ hc,
   (to_prefit_fit_returns_self [D2w] (by decide) _ hc D1).2⟩

/-- clone then fit ≡ a fresh ThresholdOptimizer(prefit=True) around an UNFITTED estimator: both fail in the same way -/
theorem to_prefit_clone_then_fit (h0 : List Data) (ops : List Op) (d : Data) :
    (TOPre false h0).run (ops ++ [.clone, .fit d]) = (TOPre false []).run [.fit d] ∧
    ((TOPre false []).step (toPreInit []) (.fit d)).2 = .raised .attribute := by
  constructor
  · have : ops ++ [Op.clone, Op.fit d] = (ops ++ [.clone]) ++ [.fit d] := by simp
    rw [this, run_snoc, run_snoc, run_single]
    simp [TOPre, toPreStep, toPreInit]
  · rfl

theorem to_prefit_predict_pure (r : Bool) (h0 : List Data) (s : TOPreState) (k : Nat) :
    ((TOPre r h0).step s (.predict k)).1 = s := rfl

theorem to_prefit_pickle_roundtrip (r : Bool) (h0 : List Data) (s : TOPreState) :
    ((TOPre r h0).step s .pickle).1 = s := rfl

/-- why it matters: a prefit branch that fitted the user's object would change it with every fit -/
theorem to_prefit_refit_touches_user_estimator :
    ((TOPre true [D1]).run [.fit D2]).user ≠ [D1] ∧
    toPreCls [D1] ((TOPre true [D1]).run [.fit D2]) = .other := by decide

/-- from the source: the prefit branch of `ThresholdOptimizer.fit` fits nothing and aliases the user's estimator -/
theorem src_to_prefit : Generated.LifecycleSrc.toPrefitRefits = false ∧ Generated.LifecycleSrc.toPrefitAliases = true := by
  decide +kernel

theorem src_to_prefit_history_free (h0 : List Data) (hne : h0 ≠ []) (ops : List Op) (hc : cloneFree ops) (d : Data) :
    (LifecycleSrc.TOPreSrc h0).run (ops ++ [.fit d]) = (LifecycleSrc.TOPreSrc h0).run [.fit d] ∧
    ((LifecycleSrc.TOPreSrc h0).run ops).user = h0 := by
  have h : LifecycleSrc.TOPreSrc h0 = TOPre false h0 := by
    rw [src_topre_guard]; unfold LifecycleSrc.TOPreRaw; rw [src_to_prefit.1]
  rw [h]
  exact ⟨to_prefit_history_free h0 hne ops hc d, to_prefit_user_estimator_untouched h0 hne ops hc⟩

example : (TOPre false [D2w]).view (toPreCls [D2w]) [.predict 0, .fit D1, .fit D2, .pickle, .predict 5, .clone, .fit D1, .predict 1] =
    [(.raised .notFitted, .unfitted), (.retSelf, .fresh D1), (.retSelf, .fresh D2), (.ok, .fresh D2), (.ok, .fresh D2),
     (.ok, .unfitted), (.raised .attribute, .broken .attribute), (.raised .attribute, .broken .attribute)] := by decide

end Prefit

/-! ## review R2 — clauses that had no theorem about the SOURCE-DERIVED machines, totalisation, tie -/

section R2
open LifecycleSrc Generated.LifecycleSrc

/-! ### clause B (fit returns the estimator) for every source-derived machine, from ANY state -/

theorem src_eg_fit_returns_self (g : Bool) (s : EGState) (d : Data) : ((EGsrc g).step s (.fit d)).2 = .retSelf := by
  rw [src_eg_guard]; unfold EGraw; rw [src_eg_rules]; simp [EG, egStep, loadConstraints]

theorem src_to_fit_returns_self (s : TOState) (d : Data) : (TOsrc.step s (.fit d)).2 = .retSelf :=
  to_fit_returns_self _ s d

theorem src_cr_fit_returns_self (s : CRState) (d : Data) : (CRsrc.step s (.fit d)).2 = .retSelf := by
  rw [src_cr_guard]; unfold CRraw; rw [src_cr_rule]; exact cr_fit_returns_self s d

theorem src_adv_fit_returns_self (w : Bool) (s : AdvState) (d : Data) : ((ADVsrc w).step s (.fit d)).2 = .retSelf := by
  rw [src_adv_machine_eq]; rfl

/-! ### clause A for ExponentiatedGradient under today's source, state level -/

/-- `nu` given by the user: the whole modelled state after `fit d` is that of a first fit (the constraints object is
    loaded with `d` in place, which is also what a first fit does) -/
theorem src_eg_history_free_nu_given (ops : List Op) (d : Data) :
    (EGsrc true).run (ops ++ [.fit d]) = (EGsrc true).run [.fit d] := by
  have hn := src_eg_nu_unchanged_nu_given ops
  rw [run_snoc, run_single]
  generalize (EGsrc true).run ops = s at hn
  rcases s with ⟨m, n, st, f⟩
  simp only at hn; subst hn
  rw [src_eg_guard]; unfold EGraw; rw [src_eg_rules]; simp [EG, egStep, loadConstraints, egInit]

/-- F5c, what DOES hold for `nu=None` under today's source (PARTIAL: the full clause `src_eg_refines_spec` for
    `nuGiven = false` is false, witness `src_eg_nu_none_is_f5c`): for EVERY history the results column is the
    specification's — every fit returns self and never raises, predict raises NotFittedError exactly when the
    specification does, pickle and clone succeed.  (Both views are taken with the constant class, i.e. only the
    results are compared.) -/
theorem src_eg_nu_none_results_refine_spec_partial (ops : List Op) :
    (EGsrc false).view (fun _ => Cls.unfitted) ops = Spec.view (fun _ => Cls.unfitted) ops := by
  rw [src_eg_guard]; unfold EGraw; rw [src_eg_rules]
  apply view_eq_of_sim (EG ⟨.reentrant, .current⟩ false) Spec
    (fun s t => s.started = t.isSome ∧ s.fitted.isSome = t.isSome) _ _ ⟨rfl, rfl⟩
  · rintro ⟨m, n, st, f⟩ t o ⟨h1, h2⟩
    simp only at h1 h2; subst h1
    cases o <;> cases t <;> cases f <;> simp_all [EG, egStep, Spec, loadConstraints]
  · intro _ _ _; rfl

/-- the first fit after construction (no fit before it, whatever else happened) is the fresh twin even for `nu=None` -/
theorem src_eg_nu_none_first_fit_fresh (ops : List Op) (hno : ∀ o ∈ ops, ∀ d', o ≠ Op.fit d') (d : Data) :
    egCls false ((EGsrc false).run (ops ++ [.fit d])) = .fresh d := by
  rw [src_eg_guard]; unfold EGraw; rw [src_eg_rules]
  have inv : ∀ (ops : List Op) (s : EGState), s.nuParam = none → (∀ o ∈ ops, ∀ d', o ≠ Op.fit d') →
      ((EG ⟨.reentrant, .current⟩ false).runFrom s ops).nuParam = none := by
    intro ops
    induction ops with
    | nil => intro s hs _; exact hs
    | cons o os ih =>
      intro s hs hno
      apply ih
      · cases o with
        | fit d' => exact absurd rfl (hno (.fit d') (by simp) d')
        | predict k =>
          show (((EG ⟨.reentrant, .current⟩ false).step s (.predict k)).1).nuParam = none
          rw [(eg_predict_pure _ _ s k).1]; exact hs
        | pickle => exact hs
        | clone => exact hs
      · intro o' ho'; exact hno o' (List.mem_cons_of_mem _ ho')
  have hn := inv ops (EG ⟨.reentrant, .current⟩ false).init rfl hno
  rw [run_snoc]
  unfold run
  generalize (EG ⟨.reentrant, .current⟩ false).runFrom (EG ⟨.reentrant, .current⟩ false).init ops = s at hn
  rcases s with ⟨m, n, st, f⟩
  simp only at hn; subst hn
  simp [EG, egStep, loadConstraints, egCls, egFreshNu]

example : egCls false ((EGsrc false).run ([.predict 0, .clone, .pickle] ++ [.fit D2])) = .fresh D2 :=
  src_eg_nu_none_first_fit_fresh _ (by simp) D2

/-- F5c, complete description of what today's source does for `nu=None` (PARTIAL w.r.t. clause A, which would demand
    `.fresh d` throughout): after ANY history the estimator is unfitted, the fresh twin of its last data, or the twin
    fitted on its last data with the automatic `nu` of an earlier data set — never "like no twin" and never broken -/
theorem src_eg_nu_none_cls_partial (ops : List Op) :
    egCls false ((EGsrc false).run ops) = .unfitted ∨
    (∃ d, egCls false ((EGsrc false).run ops) = .fresh d) ∨
    (∃ d d', egCls false ((EGsrc false).run ops) = .staleNu d d') := by
  rw [src_eg_guard]; unfold EGraw; rw [src_eg_rules]
  have inv : ∀ (ops : List Op) (s : EGState),
      (s.started = s.fitted.isSome ∧ (∀ v, s.nuParam = some v → ∃ d', v = .auto d') ∧
        ∀ d nu, s.fitted = some (d, nu) → ∃ d', nu = .auto d') →
      (((EG ⟨.reentrant, .current⟩ false).runFrom s ops).started =
          ((EG ⟨.reentrant, .current⟩ false).runFrom s ops).fitted.isSome ∧
        (∀ v, ((EG ⟨.reentrant, .current⟩ false).runFrom s ops).nuParam = some v → ∃ d', v = .auto d') ∧
        ∀ d nu, ((EG ⟨.reentrant, .current⟩ false).runFrom s ops).fitted = some (d, nu) → ∃ d', nu = .auto d') := by
    intro ops
    induction ops with
    | nil => intro s hs; exact hs
    | cons o os ih =>
      intro s hs
      apply ih
      rcases s with ⟨m, n, st, f⟩
      obtain ⟨h1, h2, h3⟩ := hs
      simp only at h1 h2 h3
      cases o with
      | fit d =>
        cases n with
        | none =>
          refine ⟨rfl, ?_, ?_⟩
          · intro v hv
            simp [EG, egStep, loadConstraints] at hv
            exact ⟨d, hv.symm⟩
          · intro d0 nu hf
            simp [EG, egStep, loadConstraints] at hf
            exact ⟨d, hf.2.symm⟩
        | some v0 =>
          obtain ⟨d', rfl⟩ := h2 v0 rfl
          refine ⟨rfl, ?_, ?_⟩
          · intro v hv
            simp [EG, egStep, loadConstraints] at hv
            exact ⟨d', hv.symm⟩
          · intro d0 nu hf
            simp [EG, egStep, loadConstraints] at hf
            exact ⟨d', hf.2.symm⟩
      | predict k =>
        have e : ((EG ⟨.reentrant, .current⟩ false).step ⟨m, n, st, f⟩ (.predict k)).1 = ⟨m, n, st, f⟩ :=
          (eg_predict_pure _ _ _ k).1
        simp only [e]; exact ⟨h1, h2, h3⟩
      | pickle => exact ⟨h1, h2, h3⟩
      | clone => exact ⟨rfl, h2, by intro d nu h; cases h⟩
  obtain ⟨h1, _, h3⟩ := inv ops (EG ⟨.reentrant, .current⟩ false).init
    ⟨rfl, (by intro v hv; cases hv), (by intro d nu h; cases h)⟩
  unfold run
  generalize (EG ⟨.reentrant, .current⟩ false).runFrom (EG ⟨.reentrant, .current⟩ false).init ops = s at h1 h3
  rcases s with ⟨m, n, st, f⟩
  simp only at h1 h3
  cases f with
  | none => left; simp at h1; simp [egCls, h1]
  | some p =>
    obtain ⟨d, nu⟩ := p
    obtain ⟨d', rfl⟩ := h3 d nu rfl
    by_cases hd : d' = d
    · right; left; exact ⟨d, by simp [egCls, egFreshNu, hd]⟩
    · right; right; exact ⟨d, d', by simp [egCls, egFreshNu, hd]⟩

/-! ### clauses D and E at the level of histories: a prediction / a pickle round trip at the end of ANY history leaves
the modelled state (hence every later answer) as it was — for the machines under the source-derived flags -/

theorem src_predict_does_not_alter_state (ops : List Op) (k : Nat) :
    TOsrc.run (ops ++ [.predict k]) = TOsrc.run ops ∧ GSsrc.run (ops ++ [.predict k]) = GSsrc.run ops ∧
    CRsrc.run (ops ++ [.predict k]) = CRsrc.run ops ∧
    (∀ g, (EGsrc g).run (ops ++ [.predict k]) = (EGsrc g).run ops) ∧
    (∀ w, (ADVsrc w).run (ops ++ [.predict k]) = (ADVsrc w).run ops) :=
  by
  -- the prediction step of every `…src` machine runs through the LIFTED purity flag (`guardPredict (predictPureSrc c)`):
  -- this theorem holds because `src_predict_pure_flags` does
  rw [src_to_guard, src_gs_guard, src_cr_guard]
  exact ⟨run_snoc_of_step_id _ _ (fun s => (to_predict_pure _ s k).1) ops,
   run_snoc_of_step_id _ _ (fun s => (gs_predict_pure _ s k).1) ops,
   run_snoc_of_step_id _ _ (fun s => (cr_predict_pure _ s k).1) ops,
   fun g => by rw [src_eg_guard]; exact run_snoc_of_step_id _ _ (fun s => (eg_predict_pure _ g s k).1) ops,
   fun w => run_snoc_of_step_id _ _ (fun s => by rw [src_adv_machine_eq]; rfl) ops⟩

/-- clause E: ThresholdOptimizer, ExponentiatedGradient, GridSearch, CorrelationRemover restored from pickle are in the
    state of the original after every history, and the round trip itself succeeds (MODELLING ASSUMPTION, not a lifted
    fact: `pickle` is the identity on the modelled state; see the tie audit) -/
theorem src_pickle_restores_state (ops : List Op) :
    (TOsrc.run (ops ++ [.pickle]) = TOsrc.run ops ∧ (TOsrc.step (TOsrc.run ops) .pickle).2 = .ok) ∧
    (GSsrc.run (ops ++ [.pickle]) = GSsrc.run ops ∧ (GSsrc.step (GSsrc.run ops) .pickle).2 = .ok) ∧
    (CRsrc.run (ops ++ [.pickle]) = CRsrc.run ops ∧ (CRsrc.step (CRsrc.run ops) .pickle).2 = .ok) ∧
    (∀ g, (EGsrc g).run (ops ++ [.pickle]) = (EGsrc g).run ops ∧ ((EGsrc g).step ((EGsrc g).run ops) .pickle).2 = .ok) :=
  ⟨⟨run_snoc_of_step_id _ _ (fun _ => rfl) ops, rfl⟩, ⟨run_snoc_of_step_id _ _ (fun _ => rfl) ops, rfl⟩,
   ⟨run_snoc_of_step_id _ _ (fun _ => rfl) ops, rfl⟩, fun _ => ⟨run_snoc_of_step_id _ _ (fun _ => rfl) ops, rfl⟩⟩

/-! ### clause C under today's source: what `fit` does to the object behind `constraints` -/

/-- the lifted facts behind `momentRule = reentrant`: both reductions call `load_data` on the user's object itself (no
    copy) and no `load_data` refuses a second call.  (`constraintsInPlace` is used by no model function; this theorem
    is its only consumer.) -/
theorem src_constraints_loaded_in_place :
    constraintsInPlace .EG = true ∧ constraintsInPlace .GS = true ∧ constraintsCopied .EG = false ∧
    constraintsCopied .GS = false ∧ momentLatch = false := by decide +kernel

/-- consequence, kept visible: under today's source `get_params()["constraints"]` is the same OBJECT after fit, but the
    object has been written to (it holds the data of the last fit) -/
theorem src_constraints_object_rewritten :
    gsParams (GSsrc.run [.fit D1]) = ⟨true, some D1⟩ ∧ gsParams gsInit = ⟨false, none⟩ ∧
    (egParams ((EGsrc true).run [.fit D1, .fit D2])).1 = ⟨true, some D2⟩ := by decide +kernel

/-- … and that is harmless for the property: a GridSearch / ExponentiatedGradient constructed around a constraints
    object in ANY state (fresh, or loaded by an earlier estimator or by `clone` of a fitted one) shows the
    specification's view -/
theorem src_gs_refines_spec_any_moment (m : Moment) (ops : List Op) :
    (⟨⟨m, none, none⟩, gsStep gsRules⟩ : Machine GSState).view gsCls ops = Spec.view specCls ops := by
  rw [src_gs_rules]
  apply view_eq_of_sim (⟨⟨m, none, none⟩, gsStep gsReentrant⟩ : Machine GSState) Spec
    (fun s t => s.predictors = t.map some ∧ s.bestIdx = t) gsCls specCls ⟨rfl, rfl⟩
  · rintro ⟨m, p, b⟩ t o ⟨h1, h2⟩
    simp only at h1 h2; subst h1 h2
    cases o <;> cases b <;> simp [gsStep, Spec, gsReentrant, loadConstraints]
  · rintro ⟨m, p, b⟩ t ⟨h1, h2⟩
    simp only at h1 h2; subst h1 h2
    cases b <;> simp [gsCls, specCls]

theorem src_eg_refines_spec_any_moment (m : Moment) (ops : List Op) :
    (⟨⟨m, some .given, false, none⟩, egStep egRules⟩ : Machine EGState).view (egCls true) ops = Spec.view specCls ops := by
  rw [src_eg_rules]
  apply view_eq_of_sim (⟨⟨m, some .given, false, none⟩, egStep ⟨.reentrant, .current⟩⟩ : Machine EGState) Spec
    (fun s t => s.nuParam = some .given ∧ s.started = t.isSome ∧
                s.fitted = t.map (fun d => (d, Nu.given))) (egCls true) specCls ⟨rfl, rfl, rfl⟩
  · rintro ⟨m, n, st, f⟩ t o ⟨h1, h2, h3⟩
    simp only at h1 h2 h3; subst h1 h2 h3
    cases o <;> cases t <;> simp [egStep, Spec, loadConstraints]
  · rintro ⟨m, n, st, f⟩ t ⟨h1, h2, h3⟩
    simp only at h1 h2 h3; subst h1 h2 h3
    cases t <;> simp [egCls, specCls, egFreshNu]

example : (⟨⟨⟨true, some D2w⟩, none, none⟩, gsStep gsRules⟩ : Machine GSState).view gsCls [.fit D1, .clone, .fit D2] =
    [(.retSelf, .fresh D1), (.ok, .unfitted), (.retSelf, .fresh D2)] := by decide +kernel

/-- the classes the generated tables cover are the property's estimators plus the helper `_Lagrangian` -/
theorem src_estimators_cover : ∀ c ∈ allClasses, c = .LAG ∨ c ∈ estimators := by decide +kernel

/-! ### totalisation -/

/-- `advStep` / `advStepSrc` use `s.engine.getD []` when no new engine is built.  On every REACHABLE state that default
    is never taken: `_is_setup`, `classes_` and `backendEngine_` exist together (so "no setup" implies an engine). -/
theorem adv_reachable_invariant (r : Rule) (w : Bool) (ops : List Op) :
    ((Adv r w).run ops).isSetup = ((Adv r w).run ops).engine.isSome ∧
    ((Adv r w).run ops).hasClasses = ((Adv r w).run ops).isSetup := by
  have inv : ∀ (ops : List Op) (s : AdvState), (s.isSetup = s.engine.isSome ∧ s.hasClasses = s.isSetup) →
      (((Adv r w).runFrom s ops).isSetup = ((Adv r w).runFrom s ops).engine.isSome ∧
       ((Adv r w).runFrom s ops).hasClasses = ((Adv r w).runFrom s ops).isSetup) := by
    intro ops
    induction ops with
    | nil => intro s hs; exact hs
    | cons o os ih =>
      intro s hs
      apply ih
      cases o with
      | fit d => exact ⟨rfl, rfl⟩
      | predict k => exact hs
      | pickle => exact hs
      | clone => exact ⟨rfl, rfl⟩
  exact inv ops advInit ⟨rfl, rfl⟩

/-- hence a refit that keeps the engine really extends an EXISTING training history (never the `[]` default) -/
theorem adv_refit_uses_existing_engine (r : Rule) (w : Bool) (ops : List Op) (h : ((Adv r w).run ops).isSetup = true) :
    ∃ hist, ((Adv r w).run ops).engine = some hist := by
  have := (adv_reachable_invariant r w ops).1
  rw [h] at this
  exact Option.isSome_iff_exists.mp this.symm

example : ((Adv .current true).run [.fit D1, .predict 0]).isSetup = true ∧
    ((Adv .current true).run [.fit D1, .predict 0]).engine = some [D1] := by decide

/-- the driver prints exactly one record per operation: neither the view, nor the changed-parameter column, nor the
    `zip` of the two inside `fmtView` drops an operation -/
theorem driver_output_covers_every_op {σ π : Type} [DecidableEq π] (M : Machine σ) (c : σ → Cls) (params : σ → π)
    (name : String) (ops : List Op) :
    ((M.view c ops).zip (changedCol M params name ops)).length = ops.length := by
  simp [List.length_zip, view_length, changedCol_length]

end R2

/-! ## the specification itself carries the clauses of the property -/

/-- fitting on `d` after any history gives the state of a fresh estimator fitted on `d` -/
theorem spec_history_free (ops : List Op) (d : Data) : Spec.run (ops ++ [.fit d]) = Spec.run [.fit d] := by
  rw [spec_run_snoc_fit]; rfl

theorem spec_fit_returns_self (s : Option Data) (d : Data) : (Spec.step s (.fit d)).2 = .retSelf := rfl

theorem spec_predict_pure (s : Option Data) (k : Nat) : (Spec.step s (.predict k)).1 = s := rfl

theorem spec_pickle_roundtrip (s : Option Data) : (Spec.step s .pickle).1 = s := rfl

end C19
