/-
C03X — consistency theorems between the named fairness metrics (C03 ↔ C14 ↔ C02), for every valid dataset
(≥ 1 row, ≥ 1 sensitive column, positive weights, any number of groups):
  * equalized_odds_difference(agg="worst_case") ≥ equal_opportunity_difference (same `method`);
  * demographic_parity_ratio = 1 ⇔ demographic_parity_difference = 0 when some group has a positive selection rate;
  * differences lie in [0,1] and ratios in [0,1] for the rate metrics — whose values lie in [0,1]
    (`C14.rate_public_in_unit_interval` for TPR/FPR, directly for the selection rate).
-/
import FairModel.Properties.C03
import FairModel.Properties.C14

namespace C03
open Fairness Frame Aggregate MetricPool XR

/-! ### (1) equalized odds dominates equal opportunity -/

/-- the difference aggregate of a finite metric is a finite number -/
theorem difference_finite {m : Metric} {g : List Dat → Rat} {nsf : Nat} {rows : List (Row Dat)}
    (hv : Valid nsf rows) (hf : FiniteOn (eval m) g rows) (meth : Method) :
    ∃ D, run m .difference meth true nsf rows = .value (fin D) ∧ 0 ≤ D := by
  cases meth
  · obtain ⟨mn, mx, ⟨_, hmn⟩, ⟨⟨r, hr, e⟩, _⟩, h⟩ := difference_between_spec hv hf
    exact ⟨mx - mn, h, by have := hmn r hr; rw [← e] at this; linarith⟩
  · obtain ⟨D, h, ⟨r, _, e⟩, _⟩ := difference_overall_spec hv hf
    exact ⟨D, h, by rw [e]; exact abs_nonneg _⟩

/-- **equalized_odds_difference (worst case) ≥ equal_opportunity_difference**, and also ≥ the false-positive-rate
    difference, for either `method` -/
theorem eodds_ge_eopp (meth : Method) (nsf : Nat) (rows : List (Row Dat)) (hv : Valid nsf rows)
    (hb : BinaryRows rows) :
    ∃ A F E, named "equal_opportunity_difference" meth nsf rows = some (.value (fin A)) ∧
      run .fpr .difference meth true nsf rows = .value (fin F) ∧
      eodds "equalized_odds_difference" meth .worstCase nsf rows = some (.value (fin E)) ∧
      A ≤ E ∧ F ≤ E ∧ 0 ≤ A ∧ (E = A ∨ E = F) := by
  obtain ⟨A, hA, hA0⟩ := difference_finite hv (tpr_finiteOn hb) meth
  obtain ⟨F, hF, _⟩ := difference_finite hv (fpr_finiteOn hb) meth
  obtain ⟨a, b, ha, hb', he⟩ := eodds_def "equalized_odds_difference" "difference" "max" .difference
    (by decide +kernel) (by decide +kernel) meth .worstCase nsf rows hv hb
  rw [hA] at ha; rw [hF] at hb'
  injection ha with ha; injection hb' with hb'
  subst ha; subst hb'
  refine ⟨A, F, max A F, by rw [equal_opportunity_difference_def, hA], hF, ?_, le_max_left _ _, le_max_right _ _,
    hA0, ?_⟩
  · rw [he]; simp only [pyFold_max_fin, Option.map_some]
  · rcases le_total A F with h | h
    · right; exact max_eq_right h
    · left; exact max_eq_left h

/-! ### (2) ratio = 1 ⇔ difference = 0 -/

theorem groupMin_unique {g : List Dat → Rat} {rows : List (Row Dat)} {a b : Rat}
    (ha : IsGroupMin g rows a) (hb : IsGroupMin g rows b) : a = b := by
  obtain ⟨⟨r1, hr1, e1⟩, h1⟩ := ha
  obtain ⟨⟨r2, hr2, e2⟩, h2⟩ := hb
  apply le_antisymm
  · rw [e2]; exact h1 r2 hr2
  · rw [e1]; exact h2 r1 hr1

theorem groupMax_unique {g : List Dat → Rat} {rows : List (Row Dat)} {a b : Rat}
    (ha : IsGroupMax g rows a) (hb : IsGroupMax g rows b) : a = b := by
  obtain ⟨⟨r1, hr1, e1⟩, h1⟩ := ha
  obtain ⟨⟨r2, hr2, e2⟩, h2⟩ := hb
  apply le_antisymm
  · rw [e1]; exact h2 r1 hr1
  · rw [e2]; exact h1 r2 hr2

/-- for any finite metric with a positive largest group value: between-groups ratio = 1 ⇔ difference = 0 -/
theorem ratio_one_iff_difference_zero {m : Metric} {g : List Dat → Rat} {nsf : Nat} {rows : List (Row Dat)}
    (hv : Valid nsf rows) (hf : FiniteOn (eval m) g rows) (hpos : ∃ r ∈ rows, 0 < g (groupOf rows r)) :
    ∃ ρ D, run m .ratio .between true nsf rows = .value (fin ρ) ∧
      run m .difference .between true nsf rows = .value (fin D) ∧ (ρ = 1 ↔ D = 0) := by
  obtain ⟨mn, mx, h1, h2, h3⟩ := ratio_between_spec hv hf
  obtain ⟨mn', mx', h1', h2', h3'⟩ := difference_between_spec hv hf
  have e1 := groupMin_unique h1 h1'
  have e2 := groupMax_unique h2 h2'
  subst e1; subst e2
  obtain ⟨r, hr, hp⟩ := hpos
  have hmx : 0 < mx := lt_of_lt_of_le hp (h2.2 r hr)
  refine ⟨mn / mx, mx - mn, by rw [h3, div_fin_fin, if_neg (ne_of_gt hmx)], h3', ?_⟩
  rw [div_eq_one_iff_eq (ne_of_gt hmx)]
  constructor
  · intro h; rw [h]; ring
  · intro h; linarith

/-- **demographic_parity_ratio = 1 ⇔ demographic_parity_difference = 0** (between groups) as soon as some group has
    a positive selection rate (in particular when all have) -/
theorem dp_ratio_one_iff_difference_zero (nsf : Nat) (rows : List (Row Dat)) (hv : Valid nsf rows)
    (hpos : ∃ r ∈ rows, 0 < selRateSpec (groupOf rows r)) :
    ∃ ρ D, named "demographic_parity_ratio" .between nsf rows = some (.value (fin ρ)) ∧
      named "demographic_parity_difference" .between nsf rows = some (.value (fin D)) ∧ (ρ = 1 ↔ D = 0) := by
  obtain ⟨ρ, D, h1, h2, h3⟩ := ratio_one_iff_difference_zero hv (selrate_finiteOn hv) hpos
  exact ⟨ρ, D, by rw [demographic_parity_ratio_def, h1], by rw [demographic_parity_difference_def, h2], h3⟩

/-- when every selection rate is 0 the ratio is undefined (0/0 = NaN) while the difference is 0: the positivity
    hypothesis cannot be dropped -/
theorem dp_ratio_nan_when_all_zero :
    named "demographic_parity_ratio" .between 1 [⟨⟨1, 0, 1, 0⟩, [], ["a"]⟩, ⟨⟨0, 0, 1, 0⟩, [], ["b"]⟩] = some (.value nan) ∧
    named "demographic_parity_difference" .between 1 [⟨⟨1, 0, 1, 0⟩, [], ["a"]⟩, ⟨⟨0, 0, 1, 0⟩, [], ["b"]⟩]
      = some (.value (fin 0)) := by
  decide +kernel

/-! ### (3) ranges -/

/-- a metric with group values and overall value in [0,1]: differences in [0,1], between-groups ratio in [0,1] -/
theorem unit_metric_ranges {m : Metric} {g : List Dat → Rat} {nsf : Nat} {rows : List (Row Dat)}
    (hv : Valid nsf rows) (hf : FiniteOn (eval m) g rows)
    (hu : ∀ r ∈ rows, 0 ≤ g (groupOf rows r) ∧ g (groupOf rows r) ≤ 1)
    (ho : 0 ≤ g (slice rows) ∧ g (slice rows) ≤ 1) :
    (∃ D, run m .difference .between true nsf rows = .value (fin D) ∧ 0 ≤ D ∧ D ≤ 1) ∧
    (∃ D, run m .difference .toOverall true nsf rows = .value (fin D) ∧ 0 ≤ D ∧ D ≤ 1) ∧
    ((∃ r ∈ rows, 0 < g (groupOf rows r)) →
      ∃ ρ, run m .ratio .between true nsf rows = .value (fin ρ) ∧ 0 ≤ ρ ∧ ρ ≤ 1) := by
  refine ⟨?_, ?_, ?_⟩
  · obtain ⟨mn, mx, ⟨⟨r1, hr1, e1⟩, hmn⟩, ⟨⟨r2, hr2, e2⟩, _⟩, h⟩ := difference_between_spec hv hf
    refine ⟨mx - mn, h, ?_, ?_⟩
    · have := hmn r2 hr2; rw [← e2] at this; linarith
    · have a := (hu r2 hr2).2; have b := (hu r1 hr1).1; rw [← e2] at a; rw [← e1] at b; linarith
  · obtain ⟨D, h, ⟨r, hr, e⟩, _⟩ := difference_overall_spec hv hf
    refine ⟨D, h, by rw [e]; exact abs_nonneg _, ?_⟩
    rw [e, abs_le]
    have := hu r hr
    constructor <;> linarith [ho.1, ho.2]
  · rintro ⟨r, hr, hp⟩
    obtain ⟨mn, mx, ⟨⟨r1, hr1, e1⟩, hmn⟩, ⟨⟨r2, hr2, e2⟩, hmx⟩, h⟩ := ratio_between_spec hv hf
    have hmxp : 0 < mx := lt_of_lt_of_le hp (hmx r hr)
    have hmn0 : 0 ≤ mn := by rw [e1]; exact (hu r1 hr1).1
    have hle : mn ≤ mx := by have := hmn r2 hr2; rw [← e2] at this; exact this
    refine ⟨mn / mx, by rw [h, div_fin_fin, if_neg (ne_of_gt hmxp)], div_nonneg hmn0 (le_of_lt hmxp), ?_⟩
    rw [div_le_one hmxp]; exact hle

theorem wsum_nonneg (p : Dat → Bool) (ds : List Dat) (hw : ∀ d ∈ ds, 0 ≤ d.p0) : 0 ≤ Fairness.wsum p ds := by
  unfold Fairness.wsum
  apply List.sum_nonneg
  intro x hx
  obtain ⟨d, hd, rfl⟩ := List.mem_map.mp hx
  exact hw d (List.mem_filter.mp hd).1

/-- the selection rate of any non-empty slice with positive weights lies in [0,1] -/
theorem selRateSpec_unit (ds : List Dat) (hw : ∀ d ∈ ds, 0 < d.p0) (hne : ds ≠ []) :
    0 ≤ selRateSpec ds ∧ selRateSpec ds ≤ 1 := by
  have hpos := wsum_true_pos hw hne
  have hw' : ∀ d ∈ ds, 0 ≤ d.p0 := fun d hd => le_of_lt (hw d hd)
  have hs := wsum_split (fun _ => true) (fun d => d.pred == 1) ds
  simp only [Bool.true_and] at hs
  have h1 := wsum_nonneg (fun d => d.pred == 1) ds hw'
  have h2 := wsum_nonneg (fun d => !(d.pred == 1)) ds hw'
  unfold selRateSpec
  exact ⟨div_nonneg h1 (le_of_lt hpos), by rw [div_le_one hpos]; linarith⟩

/-- TPR / FPR of a binary slice lie in [0,1] — through the BaseMetrics model and `C14.rate_public_in_unit_interval` -/
theorem tprSpec_unit (ds : List Dat) (hb : Binary ds) (hne : ds ≠ []) (hw : ∀ d ∈ ds, 0 ≤ d.p0) :
    0 ≤ tprSpec ds ∧ tprSpec ds ≤ 1 := by
  have h := tpr_eq_spec hb hne
  simp only [eval, rateCell, binary_isInt hb, if_true] at h
  have hnn : C14.NonNegW (ds.map toBM) := by
    intro r hr
    obtain ⟨d, hd, rfl⟩ := List.mem_map.mp hr
    exact hw d hd
  split at h
  · next q hq =>
    have : q = tprSpec ds := by simpa [Cell.ofRat] using h
    rw [← this]
    exact C14.rate_public_in_unit_interval .tpr _ none q hnn hq
  · cases h

theorem fprSpec_unit (ds : List Dat) (hb : Binary ds) (hne : ds ≠ []) (hw : ∀ d ∈ ds, 0 ≤ d.p0) :
    0 ≤ fprSpec ds ∧ fprSpec ds ≤ 1 := by
  have h := fpr_eq_spec hb hne
  simp only [eval, rateCell, binary_isInt hb, if_true] at h
  have hnn : C14.NonNegW (ds.map toBM) := by
    intro r hr
    obtain ⟨d, hd, rfl⟩ := List.mem_map.mp hr
    exact hw d hd
  split at h
  · next q hq =>
    have : q = fprSpec ds := by simpa [Cell.ofRat] using h
    rw [← this]
    exact C14.rate_public_in_unit_interval .fpr _ none q hnn hq
  · cases h

theorem group_weights {nsf : Nat} {rows : List (Row Dat)} (hv : Valid nsf rows) (r : Row Dat) :
    ∀ d ∈ groupOf rows r, 0 < d.p0 := by
  intro d hd
  obtain ⟨r', hr', rfl⟩ := slice_sub r.key d hd
  exact hv.wpos r' hr'

theorem slice_weights {nsf : Nat} {rows : List (Row Dat)} (hv : Valid nsf rows) :
    ∀ d ∈ slice rows, 0 < d.p0 := by
  intro d hd
  obtain ⟨r', hr', rfl⟩ := List.mem_map.mp hd
  exact hv.wpos r' hr'

/-- **demographic_parity_difference ∈ [0,1] (both methods), demographic_parity_ratio(between) ∈ [0,1]** -/
theorem dp_ranges (nsf : Nat) (rows : List (Row Dat)) (hv : Valid nsf rows) :
    (∃ D, named "demographic_parity_difference" .between nsf rows = some (.value (fin D)) ∧ 0 ≤ D ∧ D ≤ 1) ∧
    (∃ D, named "demographic_parity_difference" .toOverall nsf rows = some (.value (fin D)) ∧ 0 ≤ D ∧ D ≤ 1) ∧
    ((∃ r ∈ rows, 0 < selRateSpec (groupOf rows r)) →
      ∃ ρ, named "demographic_parity_ratio" .between nsf rows = some (.value (fin ρ)) ∧ 0 ≤ ρ ∧ ρ ≤ 1) := by
  have hne : slice rows ≠ [] := by simpa [slice] using hv.ne
  obtain ⟨h1, h2, h3⟩ := unit_metric_ranges hv (selrate_finiteOn hv)
    (fun r hr => selRateSpec_unit _ (group_weights hv r) (groupOf_ne_nil hr))
    (selRateSpec_unit _ (slice_weights hv) hne)
  refine ⟨?_, ?_, fun hp => ?_⟩
  · obtain ⟨D, h, hd⟩ := h1; exact ⟨D, by rw [demographic_parity_difference_def, h], hd⟩
  · obtain ⟨D, h, hd⟩ := h2; exact ⟨D, by rw [demographic_parity_difference_def, h], hd⟩
  · obtain ⟨ρ, h, hd⟩ := h3 hp; exact ⟨ρ, by rw [demographic_parity_ratio_def, h], hd⟩

/-- **equal_opportunity_difference ∈ [0,1], equalized_odds_difference (worst case) ∈ [0,1]**, both methods -/
theorem eopp_eodds_ranges (meth : Method) (nsf : Nat) (rows : List (Row Dat)) (hv : Valid nsf rows)
    (hb : BinaryRows rows) :
    ∃ A E, named "equal_opportunity_difference" meth nsf rows = some (.value (fin A)) ∧
      eodds "equalized_odds_difference" meth .worstCase nsf rows = some (.value (fin E)) ∧
      0 ≤ A ∧ A ≤ E ∧ E ≤ 1 := by
  have hne : slice rows ≠ [] := by simpa [slice] using hv.ne
  have hbs : Binary (slice rows) := binary_of_sub hb (fun d hd => by
    obtain ⟨r, hr, rfl⟩ := List.mem_map.mp hd; exact ⟨r, hr, rfl⟩)
  have hbg : ∀ r, Binary (groupOf rows r) := fun r => binary_of_sub hb (slice_sub r.key)
  obtain ⟨t1, t2, _⟩ := unit_metric_ranges hv (tpr_finiteOn hb)
    (fun r hr => tprSpec_unit _ (hbg r) (groupOf_ne_nil hr) (fun d hd => le_of_lt (group_weights hv r d hd)))
    (tprSpec_unit _ hbs hne (fun d hd => le_of_lt (slice_weights hv d hd)))
  obtain ⟨f1, f2, _⟩ := unit_metric_ranges hv (fpr_finiteOn hb)
    (fun r hr => fprSpec_unit _ (hbg r) (groupOf_ne_nil hr) (fun d hd => le_of_lt (group_weights hv r d hd)))
    (fprSpec_unit _ hbs hne (fun d hd => le_of_lt (slice_weights hv d hd)))
  obtain ⟨A, F, E, hA, hF, hE, hAE, _, hA0, hcases⟩ := eodds_ge_eopp meth nsf rows hv hb
  refine ⟨A, E, hA, hE, hA0, hAE, ?_⟩
  rw [equal_opportunity_difference_def] at hA
  cases meth
  · obtain ⟨D1, hd1, _, hle1⟩ := t1
    obtain ⟨D2, hd2, _, hle2⟩ := f1
    injection hA with hA
    rw [hd1] at hA; rw [hd2] at hF
    injection hA with hA; injection hF with hF
    injection hA with hA; injection hF with hF
    rcases hcases with h | h <;> rw [h] <;> linarith
  · obtain ⟨D1, hd1, _, hle1⟩ := t2
    obtain ⟨D2, hd2, _, hle2⟩ := f2
    injection hA with hA
    rw [hd1] at hA; rw [hd2] at hF
    injection hA with hA; injection hF with hF
    injection hA with hA; injection hF with hF
    rcases hcases with h | h <;> rw [h] <;> linarith

/-! ### non-vacuity -/

example : Valid 1 exF1 ∧ BinaryRows exF1 := ⟨⟨by decide, by decide, by decide, by decide +kernel⟩, by decide +kernel⟩
example : ∃ r ∈ exF1, 0 < selRateSpec (groupOf exF1 r) := ⟨⟨⟨1, 1, 2, 0⟩, [], ["a"]⟩, List.Mem.head _, by decide +kernel⟩
example : named "equal_opportunity_difference" .toOverall 1 exF1 = some (.value (fin (3/5))) := by decide +kernel
example : eodds "equalized_odds_difference" .toOverall .worstCase 1 exF1 = some (.value (fin (3/5))) := by decide +kernel

/-! ### (4) work package L3: `accuracy_score` and `zero_one_loss` disparities coincide; equalized-odds ratio ≤ equal-opportunity ratio -/

/-- `accuracy_score = 1 − zero_one_loss` on every non-empty slice with positive weights -/
theorem accuracy_eq_one_sub_zeroOne (ds : List Dat) (hw : ∀ d ∈ ds, 0 < d.p0) (hne : ds ≠ []) :
    accuracySpec ds = 1 - zeroOneSpec ds := by
  have hs := wsum_split (fun _ => true) (fun d => d.y == d.pred) ds
  simp only [Bool.true_and] at hs
  have hpos := ne_of_gt (wsum_true_pos hw hne)
  unfold accuracySpec zeroOneSpec
  field_simp
  linarith

/-- **`accuracy_score_difference` = `zero_one_loss_difference`** for every valid dataset with 0/1 labels and predictions,
    both `method`s (they are the disparity ErrorRateParity constrains, C06X `erp_difference_le_of_constraint`) -/
theorem accuracy_difference_eq_zero_one_difference (meth : Method) (nsf : Nat) (rows : List (Row Dat))
    (hv : Valid nsf rows) (hb : BinaryRows rows) :
    run .accuracy .difference meth true nsf rows = run .zeroOne .difference meth true nsf rows := by
  have hfa := finiteOn_of_spec hv hb (rfl : specOf .accuracy = some accuracySpec)
  have hfz := finiteOn_of_spec hv hb (rfl : specOf .zeroOne = some zeroOneSpec)
  have hg : ∀ r ∈ rows, accuracySpec (groupOf rows r) = 1 - zeroOneSpec (groupOf rows r) :=
    fun r hr => accuracy_eq_one_sub_zeroOne _ (group_weights hv r) (groupOf_ne_nil hr)
  have hne : slice rows ≠ [] := by simpa [slice] using hv.ne
  have ho : accuracySpec (slice rows) = 1 - zeroOneSpec (slice rows) :=
    accuracy_eq_one_sub_zeroOne _ (slice_weights hv) hne
  cases meth
  · obtain ⟨mna, mxa, hmna, hmxa, ha⟩ := difference_between_spec hv hfa
    obtain ⟨mnz, mxz, hmnz, hmxz, hz⟩ := difference_between_spec hv hfz
    have e1 : mna = 1 - mxz := by
      apply groupMin_unique hmna
      obtain ⟨⟨r, hr, e⟩, hle⟩ := hmxz
      exact ⟨⟨r, hr, by rw [hg r hr, e]⟩, fun r' hr' => by rw [hg r' hr']; linarith [hle r' hr']⟩
    have e2 : mxa = 1 - mnz := by
      apply groupMax_unique hmxa
      obtain ⟨⟨r, hr, e⟩, hle⟩ := hmnz
      exact ⟨⟨r, hr, by rw [hg r hr, e]⟩, fun r' hr' => by rw [hg r' hr']; linarith [hle r' hr']⟩
    rw [ha, hz, e1, e2]
    congr 2; ring
  · obtain ⟨Da, ha, ⟨ra, hra, ea⟩, hla⟩ := difference_overall_spec hv hfa
    obtain ⟨Dz, hz, ⟨rz, hrz, ez⟩, hlz⟩ := difference_overall_spec hv hfz
    have key : ∀ r ∈ rows, |accuracySpec (groupOf rows r) - accuracySpec (slice rows)|
        = |zeroOneSpec (groupOf rows r) - zeroOneSpec (slice rows)| := by
      intro r hr
      rw [hg r hr, ho, ← abs_neg]
      congr 1; ring
    have e : Da = Dz := by
      apply le_antisymm
      · rw [ea, key ra hra]; exact hlz ra hra
      · rw [ez, ← key rz hrz]; exact hla rz hrz
    rw [ha, hz, e]

/-- **equalized_odds_ratio (worst case) is the smaller of the TPR and the FPR ratio**, hence at most
    `equal_opportunity_ratio` — the ratio-form companion of `eodds_ge_eopp` (whenever both ratios are finite numbers;
    `eodds_ratio_eq_spec` describes the NaN cases) -/
theorem eodds_ratio_le_eopp (meth : Method) (nsf : Nat) (rows : List (Row Dat)) (hv : Valid nsf rows)
    (hb : BinaryRows rows) (A F : Rat)
    (hA : named "equal_opportunity_ratio" meth nsf rows = some (.value (fin A)))
    (hF : run .fpr .ratio meth true nsf rows = .value (fin F)) :
    eodds "equalized_odds_ratio" meth .worstCase nsf rows = some (.value (fin (min A F))) ∧
    min A F ≤ A ∧ min A F ≤ F := by
  obtain ⟨a, b, ha, hb', he⟩ := eodds_def "equalized_odds_ratio" "ratio" "min" .ratio
    (by decide +kernel) (by decide +kernel) meth .worstCase nsf rows hv hb
  rw [equal_opportunity_ratio_def] at hA
  injection hA with hA
  rw [hA] at ha; rw [hF] at hb'
  injection ha with ha; injection hb' with hb'
  subst ha; subst hb'
  refine ⟨?_, min_le_left _ _, min_le_right _ _⟩
  rw [he]; simp only [pyFold_min_fin, Option.map_some]

example : run .accuracy .difference .between true 1 exF1 = run .zeroOne .difference .between true 1 exF1 :=
  accuracy_difference_eq_zero_one_difference .between 1 exF1 ⟨by decide, by decide, by decide, by decide +kernel⟩ (by decide +kernel)
example : run .accuracy .difference .toOverall true 1 exF1 = .value (fin (1/2)) ∧
    run .zeroOne .difference .between true 1 exF1 = .value (fin (3/4)) := by decide +kernel

end C03
