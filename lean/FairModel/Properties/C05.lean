/-
C05 — ThresholdOptimizer returns the best parity-satisfying threshold rule on its grid.

A competing rule randomises, separately per group, over the group's tradeoff points = all thresholdings swept by
`_calculate_tradeoff_points` (and the flipped ones when `flip`): a `Mixture` (weights ≥ 0 summing to 1 over points
of `rawPoints flip xm ym rows`).  By `C04.sweep_point_sound` and `metric_affine` the expected (x, y) metric pair of
such a rule is (`Mixture.x`, `Mixture.y`).  All theorems hold for every dataset, any number of groups, every
constraint / objective / flip and ANY grid size `N : Nat` (`*_any_grid`; `N = 0` is the one-point grid `[0.]`, accepted by
fairlearn; only `ge_constant` / `ge_constant_EO` need `1 ≤ N`, because the all-positive constant sits at x = 1).  The
arg-max is the exact one (`np.around(.,15)` is the identity on the exact model: `Threshold.aroundModel_eq`; IEEE rounding
of the implementation is outside the model; the harness accepts arg-max ties within 1e-12).  The fit the theorems talk
about COMPUTES WITH the lifted `idxmax` / `np.amin` / `prediction_constant` / hull loop (`C04.lifted_*`).
-/
/-
CLAUSE → THEOREM TABLE (review R1-B; property text in properties.jsonl, id C05)

| clause of the property text                                               | theorem(s)                                                       |
|---------------------------------------------------------------------------|------------------------------------------------------------------|
| "all rules that randomise, separately per group, over thresholdings of the  | OpMix / OpMix.Valid flip (finite mixtures of ARBITRARY threshold |
|  scores (and flipped thresholdings when flip=True)"                        | operations); sweep_complete, randomised_rule_is_mixture           |
| "... that give every group the same value x of the constrained metric for   | hypothesis hms of optimal_simple_ops / optimal_EO_ops: metric     |
|  some x on the grid {0, 1/grid_size, ..., 1}"                              | computed FROM THE ROWS = gridVal N i, i ≤ N                      |
| "the fitted rule attains the maximum of the objective"                     | optimal_simple_ops / optimal_EO_ops (every member ≤ fit.objective)|
|                                                                           | + fitted_rule_attains_simple / _EO (the fitted rules ARE a member |
|                                                                           | — ruleOps, ruleOps_prob — with class objective = fit.objective);  |
|                                                                           | point form: optimal_simple, optimal_EO                           |
| "group-frequency-weighted mean of the per-group objective"                 | opsObjective / mixObjective with freq = len(group)/n; objective_ |
|                                                                           | attained_simple, objective_is_weighted_curve                     |
| "overall accuracy or balanced accuracy for equalized odds"                 | optimal_EO_ops: obj.eval of the OVERALL expected confusion counts |
|                                                                           | (overallCMp); objective_attained_EO; obj ∈ LIFTED objectivesEO   |
| "(all groups placed on the pointwise-lowest ROC hull)"                     | optimal_EO (y ≤ min of hulls), C04.parity_EO (yBest)             |
| "never worse than the best constant classifier"                            | ge_constant (simple; BOTH constants), ge_constant_EO (both)      |
| arg-max tie rule (idxmax = first maximum)                                  | fitted_index_first_maximum_simple / _EO                          |
Supporting: hull_supporting, supportsAll_true, mixture_le_line, interpolate_is_envelope, eo_objective_monotone.
Hypotheses everywhere: IsConstraintMetric xm (lifted table), a successful fit (⇔ BothLabels, C04.fit_simple_none_iff); `1 ≤ N`
only in ge_constant / ge_constant_EO (every other theorem has an `_any_grid` form for N : Nat; the forms with `1 ≤ N` are kept as corollaries).
NOT MODELLED: np.around(.,15) before the EO arg-max (identity on the exact model, Threshold.aroundModel_eq), IEEE rounding (trusted;
the harness compares objective VALUES).
-/
import FairModel.Lemmas.ThresholdOpt
import FairModel.Lemmas.ThresholdComplete
import FairModel.Lemmas.C05Review
import FairModel.Properties.C04

namespace C05
open Threshold ThresholdGen

/-- the comparison class is complete: ANY `ThresholdOperation(">", t)` — and `("<", t)` when `flip` — with an
    arbitrary threshold `t` (finite, ±inf, even equal to a score) has exactly the confusion counts, on the group's
    rows, of one of the tradeoff points; so mixtures of tradeoff points are all randomisations over thresholdings -/
theorem sweep_complete (flip : Bool) (xm ym : Metric) (rows : List Row) (o : Op) (ho : o.gt = true ∨ flip = true) :
    ∃ p ∈ rawPoints flip xm ym rows, p.op.gt = o.gt ∧ confusion p.op rows = confusion o rows ∧
      p.x = xm.eval (confusion o rows) ∧ p.y = ym.eval (confusion o rows) := by
  obtain ⟨p, hp, hgt, hc⟩ := Threshold.sweep_complete flip xm ym rows o ho
  obtain ⟨hx, hy⟩ := rawPoints_sound flip xm ym rows p hp
  exact ⟨p, hp, hgt, hc, by rw [hx, hc], by rw [hy, hc]⟩

/-- (a) **hull_supporting** (monotone-chain correctness): for ANY lexicographically sorted point list, every point
    lies on or below the line through any two consecutive hull vertices -/
theorem hull_supporting (pts : List Pt) (hs : pts.Pairwise LexLe) (l1 l2 : List Pt) (a b : Pt)
    (hH : upperHull pts = l1 ++ a :: b :: l2) : ∀ q ∈ pts, cross a b q ≤ 0 :=
  (upperHull_good pts hs).supporting l1 a b l2 hH

/-- the boolean the driver evaluates on every case is therefore always true -/
theorem supportsAll_true (pts : List Pt) (hs : pts.Pairwise LexLe) : supportsAll (upperHull pts) pts = true := by
  unfold supportsAll
  rw [List.all_eq_true]
  intro ab hab
  rw [List.all_eq_true]
  intro q hq
  simp only [decide_eq_true_eq]
  -- a zip-with-tail pair is a consecutive pair
  have hcons : ∀ (L : List Pt) (p : Pt × Pt), p ∈ L.zip L.tail → ∃ l1 l2, L = l1 ++ p.1 :: p.2 :: l2 := by
    intro L
    induction L with
    | nil => intro p hp; simp at hp
    | cons x L ih =>
      intro p hp
      cases L with
      | nil => simp at hp
      | cons y L =>
        simp only [List.tail_cons, List.zip_cons_cons, List.mem_cons] at hp
        rcases hp with rfl | hp
        · exact ⟨[], L, rfl⟩
        · obtain ⟨l1, l2, h⟩ := ih p (by simpa using hp)
          exact ⟨x :: l1, l2, by rw [h]; rfl⟩
  obtain ⟨l1, l2, h⟩ := hcons _ ab hab
  have := hull_supporting pts hs l1 l2 ab.1 ab.2 h q hq
  unfold cross at this
  exact this

/-- (b) **mixture_le_line**: a mixture of points under a supporting line stays under it -/
theorem mixture_le_line (a b : Pt) (pts : List Pt) (m : Mixture) (g ry : Rat)
    (hsup : ∀ q ∈ pts, cross a b q ≤ 0) (hab : a.x < b.x) (hv : m.Valid pts) (hx : m.x = g)
    (hline : (b.x - a.x) * (ry - a.y) = (b.y - a.y) * (g - a.x)) : m.y ≤ ry :=
  Threshold.mixture_le_line a b pts m g ry hsup hab hv hx hline

/-- the interpolated curve is the concave envelope on the grid: no mixture of the group's threshold rules with
    constraint value `i/N` has a larger objective than the interpolated rule, and the interpolated rule attains it -/
theorem interpolate_is_envelope_any_grid (flip : Bool) (xm ym : Metric) (rows : List Row) (hx : IsConstraintMetric xm)
    (hp : nPos rows ≠ 0) (hn : nNeg rows ≠ 0) (N i : Nat) (hi : i ≤ N) :
    ∃ H r, tradeoffCurve flip xm ym rows = some H ∧ interpolateAt H i (gridVal N i) = some r ∧
      expectedMetric xm (simpleRule r) rows = gridVal N i ∧ expectedMetric ym (simpleRule r) rows = r.y ∧
      ∀ m : Mixture, m.Valid (rawPoints flip xm ym rows) → m.x = gridVal N i → m.y ≤ r.y := by
  obtain ⟨H, gc⟩ := groupCurve_exists flip xm ym rows hx hp hn
  obtain ⟨r, hr, hs⟩ := group_interpolate_any gc hi
  obtain ⟨e1, e2⟩ := expected_simple gc hs
  exact ⟨H, r, gc.eq, hr, e1, e2, fun m hv hmx => interp_dominates gc hs m hv hmx⟩

/-- `interpolate_is_envelope_any_grid` for `N ≥ 1` (the older statement; the hypothesis `1 ≤ N` is not used) -/
theorem interpolate_is_envelope (flip : Bool) (xm ym : Metric) (rows : List Row) (hx : IsConstraintMetric xm)
    (hp : nPos rows ≠ 0) (hn : nNeg rows ≠ 0) (N i : Nat) (hN : 1 ≤ N) (hi : i ≤ N) :
    ∃ H r, tradeoffCurve flip xm ym rows = some H ∧ interpolateAt H i (gridVal N i) = some r ∧
      expectedMetric xm (simpleRule r) rows = gridVal N i ∧ expectedMetric ym (simpleRule r) rows = r.y ∧
      ∀ m : Mixture, m.Valid (rawPoints flip xm ym rows) → m.x = gridVal N i → m.y ≤ r.y :=
  interpolate_is_envelope_any_grid flip xm ym rows hx hp hn N i hi

/-- the reported objective is the frequency-weighted expected objective of the fitted rules -/
theorem objective_attained_simple_any_grid (flip : Bool) (xm ym : Metric) (N : Nat) (groups : List (List Row))
    (force : Option Nat) (fit : Fit) (hx : IsConstraintMetric xm)
    (hfit : fitSimple flip xm ym N groups force = some fit) :
    fit.objective =
      (List.zipWith (fun g (r : Rule) => freq groups g * expectedMetric ym r g) groups fit.rules).sum := by
  obtain ⟨hulls, cs, best, hh, hc, hb, _, hrules, hobj, _⟩ := fitSimple_some hfit
  obtain ⟨hi, hbest⟩ := List.getElem?_eq_some_iff.mp hb
  obtain ⟨hrow, hent⟩ := curves_entry_any hx hh hc fit.iBest hi
  have hlen := (hullsOf_some hh).1
  rw [hbest] at hrow hent
  rw [hobj, objSimple_eq, hrules]
  apply zipWith_sum_eq groups _ _ best (best.map simpleRule) hrow (by simp [hrow])
  intro j hj hja hjb
  obtain ⟨gc, hs⟩ := hent j hj hja (by omega)
  simp only [List.getElem_map]
  rw [(expected_simple gc hs).2]

/-- `objective_attained_simple_any_grid` for `N ≥ 1` (the older statement; the hypothesis `1 ≤ N` is not used) -/
theorem objective_attained_simple (flip : Bool) (xm ym : Metric) (N : Nat) (groups : List (List Row))
    (force : Option Nat) (fit : Fit) (hN : 1 ≤ N) (hx : IsConstraintMetric xm)
    (hfit : fitSimple flip xm ym N groups force = some fit) :
    fit.objective =
      (List.zipWith (fun g (r : Rule) => freq groups g * expectedMetric ym r g) groups fit.rules).sum :=
  objective_attained_simple_any_grid flip xm ym N groups force fit hx hfit

/-- (c) **optimal_simple**: among all families of per-group mixtures of the groups' (flip-allowed) threshold
    rules that give every group the same constraint value `i/N` for some grid index `i ≤ N`, none has a larger
    frequency-weighted objective than the fitted rule -/
theorem optimal_simple_any_grid (flip : Bool) (xm ym : Metric) (N : Nat) (groups : List (List Row)) (fit : Fit) (hx : IsConstraintMetric xm)
    (hfit : fitSimple flip xm ym N groups none = some fit)
    (i : Nat) (hi : i ≤ N) (ms : List Mixture) (hlen : ms.length = groups.length)
    (hms : ∀ j (hj : j < groups.length) (hj' : j < ms.length),
      ms[j].Valid (rawPoints flip xm ym groups[j]) ∧ ms[j].x = gridVal N i) :
    mixObjective groups ms ≤ fit.objective := by
  obtain ⟨hulls, cs, best, hh, hc, hb, _, _, hobj, hib⟩ := fitSimple_some hfit
  have hclen := (curves_some hc).1
  have hlenh := (hullsOf_some hh).1
  -- row i dominates the family
  have hi' : i < cs.length := by omega
  obtain ⟨hrow, hent⟩ := curves_entry_any hx hh hc i hi'
  have h1 : mixObjective groups ms ≤ objSimple groups cs[i] := by
    rw [objSimple_eq]
    unfold mixObjective
    apply zipWith_sum_le groups _ _ ms cs[i] hlen hrow
    intro j hj hja hjb
    obtain ⟨gc, hs⟩ := hent j hj hjb (by omega)
    obtain ⟨hv, hmx⟩ := hms j hj hja
    exact mul_le_mul_of_nonneg_left (interp_dominates gc hs ms[j] hv hmx) (freq_nonneg _ _)
  -- the arg-max dominates row i
  have hne : cs.map (objSimple groups) ≠ [] := by
    intro h; have := congrArg List.length h
    simp only [List.length_map, List.length_nil] at this; omega
  obtain ⟨m, hm, hmax⟩ := argmaxFirst_spec _ hne
  simp only [Option.getD_none] at hib
  rw [← hib] at hm
  simp only [List.getElem?_map, hb, Option.map_some, Option.some.injEq] at hm
  have h2 : objSimple groups cs[i] ≤ m := hmax _ (List.mem_map.mpr ⟨cs[i], List.getElem_mem hi', rfl⟩)
  rw [hobj, hm]
  exact le_trans h1 h2

/-- `optimal_simple_any_grid` for `N ≥ 1` (the older statement; the hypothesis `1 ≤ N` is not used) -/
theorem optimal_simple (flip : Bool) (xm ym : Metric) (N : Nat) (groups : List (List Row)) (fit : Fit)
    (hN : 1 ≤ N) (hx : IsConstraintMetric xm)
    (hfit : fitSimple flip xm ym N groups none = some fit)
    (i : Nat) (hi : i ≤ N) (ms : List Mixture) (hlen : ms.length = groups.length)
    (hms : ∀ j (hj : j < groups.length) (hj' : j < ms.length),
      ms[j].Valid (rawPoints flip xm ym groups[j]) ∧ ms[j].x = gridVal N i) :
    mixObjective groups ms ≤ fit.objective :=
  optimal_simple_any_grid flip xm ym N groups fit hx hfit i hi ms hlen hms

/-- the reported objective is the `len(group) / n`-weighted sum of the `y` of every group's interpolated curve at `x_best`;
    by `C04.fit_predict_consistent_simple` that `y` is the group's expected objective metric computed from `_pmf_predict`
    of the fitted model on its training rows — so the optimality statements are about what `predict` really does -/
theorem objective_is_weighted_curve (flip : Bool) (xm ym : Metric) (N : Nat) (groups : List (List Row))
    (force : Option Nat) (fit : Fit) (hfit : fitSimple flip xm ym N groups force = some fit) :
    fit.objective = (List.zipWith (fun g (r : Interp) => freq groups g * r.y) groups fit.interps).sum := by
  obtain ⟨_, _, best, _, _, _, hint, _, hobj, _⟩ := fitSimple_some hfit
  rw [hobj, hint, objSimple_eq]

/-- **tie rule of the arg-max (`Series.idxmax`)**: the fitted grid index is the FIRST grid point attaining the maximum of
    the overall objective curve: no grid point has a larger value and every EARLIER grid point has a strictly smaller one
    (so the fitted rule is a function of the data alone — reproducible — also when several grid points tie) -/
theorem fitted_index_first_maximum_simple (flip : Bool) (xm ym : Metric) (N : Nat) (groups : List (List Row)) (fit : Fit)
    (hfit : fitSimple flip xm ym N groups none = some fit) :
    ∃ hulls cs, hullsOf flip xm ym groups = some hulls ∧ curves hulls N = some cs ∧ fit.iBest < cs.length ∧
      (∀ i (hi : i < cs.length), objSimple groups cs[i] ≤ fit.objective) ∧
      (∀ i (hi : i < cs.length), i < fit.iBest → objSimple groups cs[i] < fit.objective) := by
  obtain ⟨hulls, cs, best, hh, hc, hb, _, _, hobj, hib⟩ := fitSimple_some hfit
  obtain ⟨hi, hbest⟩ := List.getElem?_eq_some_iff.mp hb
  simp only [Option.getD_none] at hib
  have hm : (cs.map (objSimple groups))[argmaxFirst (cs.map (objSimple groups))]? = some fit.objective := by
    rw [← hib, hobj]; simp [hb]
  have hne : cs.map (objSimple groups) ≠ [] := by
    intro h; have := congrArg List.length h; simp only [List.length_map, List.length_nil] at this; omega
  obtain ⟨m, hm', hmax⟩ := argmaxFirst_spec _ hne
  rw [hm] at hm'
  simp only [Option.some.injEq] at hm'
  refine ⟨hulls, cs, hh, hc, hi, ?_, ?_⟩
  · intro i hi'
    rw [hm']
    exact hmax _ (List.mem_map.mpr ⟨cs[i], List.getElem_mem hi', rfl⟩)
  · intro i hi' hlt
    exact argmaxFirst_first (cs.map (objSimple groups)) i _ _ (by rw [← hib]; exact hlt)
      (by simp [List.getElem?_eq_getElem hi']) hm

/-- the same for equalized odds: `iBest` is the first grid index maximising the objective of `(i/N, y_min[i])` -/
theorem fitted_index_first_maximum_EO (flip : Bool) (obj : Metric) (N : Nat) (groups : List (List Row)) (fit : Fit)
    (yBest : Rat) (hfit : fitEO flip obj N groups none = some (fit, yBest)) :
    ∃ ymins : List Rat, ymins.length = N + 1 ∧ ymins[fit.iBest]? = some yBest ∧
      (∀ i (hi : i < ymins.length), objEO obj groups (gridVal N i) ymins[i] ≤ fit.objective) ∧
      (∀ i (hi : i < ymins.length), i < fit.iBest → objEO obj groups (gridVal N i) ymins[i] < fit.objective) := by
  obtain ⟨hulls, cs, ymins, best, hh, hc, hy, hb, hyb, _, _, hobjv, hib⟩ := fitEO_some hfit
  have hclen := (curves_some hc).1
  obtain ⟨hylen, _⟩ := allSome_map_get hy
  have hyl : ymins.length = N + 1 := by omega
  simp only [Option.getD_none] at hib
  set objs := (List.range (N + 1)).zipWith (fun i y => objEO obj groups (gridVal N i) y) ymins with hobjs
  have hiB : fit.iBest < N + 1 := by have := (List.getElem?_eq_some_iff.mp hb).1; omega
  have hget : ∀ i, i < N + 1 → ∀ (h : i < ymins.length), objs[i]? = some (objEO obj groups (gridVal N i) ymins[i]) :=
    fun i hi h => getElem?_zipWith_range _ hyl i hi
  have hyb' : ymins[fit.iBest]'(by omega) = yBest := (List.getElem?_eq_some_iff.mp hyb).2
  have hm : objs[argmaxFirst objs]? = some fit.objective := by
    rw [← hib, hget fit.iBest hiB (by omega), hobjv, hyb']
  have hne : objs ≠ [] := by
    intro h; have := congrArg List.length h; simp [hobjs, hyl] at this
  obtain ⟨m, hm', hmax⟩ := argmaxFirst_spec _ hne
  rw [hm] at hm'
  simp only [Option.some.injEq] at hm'
  refine ⟨ymins, hyl, hyb, ?_, ?_⟩
  · intro i hi
    rw [hm']
    exact hmax _ (List.mem_of_getElem? (hget i (by omega) hi))
  · intro i hi hlt
    exact argmaxFirst_first objs i _ _ (by rw [← hib]; exact hlt) (hget i (by omega) hi) hm

/-- objective of a deterministic rule applied to every group -/
def constObjective (ym : Metric) (groups : List (List Row)) (o : Op) : Rat :=
  (List.zipWith (fun g (_ : Unit) => freq groups g * ym.eval (confusion o g)) groups
    (List.replicate groups.length ())).sum

/-- (d) **ge_constant**: the fitted rule is never worse than the all-negative (`> +inf`) or the all-positive
    (`> -inf`) constant classifier -/
theorem ge_constant (flip : Bool) (xm ym : Metric) (N : Nat) (groups : List (List Row)) (fit : Fit)
    (hN : 1 ≤ N) (hx : IsConstraintMetric xm)
    (hfit : fitSimple flip xm ym N groups none = some fit) :
    constObjective ym groups ⟨true, .pinf⟩ ≤ fit.objective ∧ constObjective ym groups ⟨true, .ninf⟩ ≤ fit.objective := by
  obtain ⟨hulls, _, _, hh, _, _, _, _, _, _⟩ := fitSimple_some hfit
  have hb := hullsOf_bothLabels hh
  -- the two families of single-point mixtures
  let P0 := fun (g : List Row) => (⟨xm.eval (actualCounts 0 0 (nNeg g) (nPos g)),
      ym.eval (actualCounts 0 0 (nNeg g) (nPos g)), ⟨true, .pinf⟩⟩ : Pt)
  let P1 := fun (g : List Row) => (⟨xm.eval (actualCounts (nNeg g) (nPos g) (nNeg g) (nPos g)),
      ym.eval (actualCounts (nNeg g) (nPos g) (nNeg g) (nPos g)), ⟨true, .ninf⟩⟩ : Pt)
  have hmem : ∀ g ∈ groups, P0 g ∈ rawPoints flip xm ym g ∧ P1 g ∈ rawPoints flip xm ym g :=
    fun g hg => rawPoints_has_extremes flip xm ym g (nPos_ne_zero_ne_nil (hb g hg).1)
  have hval : ∀ (P : List Row → Pt) (g : List Row), P g ∈ rawPoints flip xm ym g →
      Mixture.Valid [((1 : Rat), P g)] (rawPoints flip xm ym g) := by
    intro P g h
    refine ⟨fun wp hwp => ?_, by simp [Mixture.weight]⟩
    simp only [List.mem_singleton] at hwp
    subst hwp
    exact ⟨zero_le_one, h⟩
  -- objective of such a family is the constant classifier's objective
  have hobjc : ∀ (P : List Row → Pt) (o : Op), (∀ g ∈ groups, P g ∈ rawPoints flip xm ym g ∧ (P g).op = o) →
      mixObjective groups (groups.map (fun g => [((1 : Rat), P g)])) = constObjective ym groups o := by
    intro P o hP
    unfold mixObjective constObjective
    apply zipWith_sum_eq groups _ _ _ _ (by simp) (by simp)
    intro j hj hja hjb
    simp only [List.getElem_map, Mixture.y, List.map_cons, List.map_nil, List.sum_cons, List.sum_nil]
    obtain ⟨hin, hop⟩ := hP groups[j] (List.getElem_mem hj)
    have := (rawPoints_sound flip xm ym groups[j] _ hin).2
    rw [hop] at this
    rw [this]; ring
  rcases constraint_extremes_uniform xm hx with hE | hE
  · -- all-negative has x = 0 = grid[0], all-positive has x = 1 = grid[N]
    constructor
    · rw [← hobjc P0 ⟨true, .pinf⟩ (fun g hg => ⟨(hmem g hg).1, rfl⟩)]
      apply optimal_simple flip xm ym N groups fit hN hx hfit 0 (by omega) _ (by simp)
      intro j hj hj'
      have hg := List.getElem_mem hj
      simp only [List.getElem_map]
      refine ⟨hval P0 _ (hmem _ hg).1, ?_⟩
      simp only [Mixture.x, List.map_cons, List.map_nil, List.sum_cons, List.sum_nil]
      rw [gridVal_zero]
      have := (hE (nNeg groups[j]) (nPos groups[j]) (hb _ hg).2 (hb _ hg).1).1
      simp only [P0]; rw [this]; ring
    · rw [← hobjc P1 ⟨true, .ninf⟩ (fun g hg => ⟨(hmem g hg).2, rfl⟩)]
      apply optimal_simple flip xm ym N groups fit hN hx hfit N (le_refl _) _ (by simp)
      intro j hj hj'
      have hg := List.getElem_mem hj
      simp only [List.getElem_map]
      refine ⟨hval P1 _ (hmem _ hg).2, ?_⟩
      simp only [Mixture.x, List.map_cons, List.map_nil, List.sum_cons, List.sum_nil]
      rw [gridVal_self hN]
      have := (hE (nNeg groups[j]) (nPos groups[j]) (hb _ hg).2 (hb _ hg).1).2
      simp only [P1]; rw [this]; ring
  · constructor
    · rw [← hobjc P0 ⟨true, .pinf⟩ (fun g hg => ⟨(hmem g hg).1, rfl⟩)]
      apply optimal_simple flip xm ym N groups fit hN hx hfit N (le_refl _) _ (by simp)
      intro j hj hj'
      have hg := List.getElem_mem hj
      simp only [List.getElem_map]
      refine ⟨hval P0 _ (hmem _ hg).1, ?_⟩
      simp only [Mixture.x, List.map_cons, List.map_nil, List.sum_cons, List.sum_nil]
      rw [gridVal_self hN]
      have := (hE (nNeg groups[j]) (nPos groups[j]) (hb _ hg).2 (hb _ hg).1).1
      simp only [P0]; rw [this]; ring
    · rw [← hobjc P1 ⟨true, .ninf⟩ (fun g hg => ⟨(hmem g hg).2, rfl⟩)]
      apply optimal_simple flip xm ym N groups fit hN hx hfit 0 (by omega) _ (by simp)
      intro j hj hj'
      have hg := List.getElem_mem hj
      simp only [List.getElem_map]
      refine ⟨hval P1 _ (hmem _ hg).2, ?_⟩
      simp only [Mixture.x, List.map_cons, List.map_nil, List.sum_cons, List.sum_nil]
      rw [gridVal_zero]
      have := (hE (nNeg groups[j]) (nPos groups[j]) (hb _ hg).2 (hb _ hg).1).2
      simp only [P1]; rw [this]; ring

/-- both admissible equalized-odds objectives are non-decreasing in the common TPR at fixed FPR (generated table) -/
theorem eo_objective_monotone (obj : Metric) (hobj : obj ∈ objectivesEO) (groups : List (List Row)) (x y y' : Rat)
    (hy : y ≤ y') : objEO obj groups x y ≤ objEO obj groups x y' :=
  objEO_mono obj hobj groups x y y' hy

/-- (e) **optimal_EO**: if every group can realise the same ROC point `(i/N, y)` by some mixture of its threshold
    rules, then `y` is at most the pointwise-lowest hull at `i/N`, and the overall objective of `(i/N, y)` is at
    most the objective of the fitted rule, which sits at `(iBest/N, yBest)` (see `C04.parity_EO`) -/
theorem optimal_EO_any_grid (flip : Bool) (obj : Metric) (hobj : obj ∈ objectivesEO) (N : Nat) (groups : List (List Row))
    (fit : Fit) (yBest : Rat)
    (hfit : fitEO flip obj N groups none = some (fit, yBest))
    (i : Nat) (hi : i ≤ N) (y : Rat)
    (hms : ∀ j (hj : j < groups.length), ∃ m : Mixture,
      m.Valid (rawPoints flip eoXMetric eoYMetric groups[j]) ∧ m.x = gridVal N i ∧ m.y = y) :
    fit.objective = objEO obj groups (gridVal N fit.iBest) yBest ∧
    objEO obj groups (gridVal N i) y ≤ fit.objective := by
  obtain ⟨hulls, cs, ymins, best, hh, hc, hy, hb, hyb, _, _, hobjv, hib⟩ := fitEO_some hfit
  have hx : IsConstraintMetric eoXMetric := Or.inr rfl
  have hclen := (curves_some hc).1
  have hlenh := (hullsOf_some hh).1
  obtain ⟨hylen, hyget⟩ := allSome_map_get hy
  have hi' : i < cs.length := by omega
  obtain ⟨hrow, hent⟩ := curves_entry_any hx hh hc i hi'
  -- y is below every group's interpolated TPR, hence below their minimum
  have hymin : minList (cs[i].map (·.y)) = some (ymins[i]'(by omega)) := hyget i hi' (by omega)
  obtain ⟨hmem, _⟩ := minList_spec _ _ hymin
  have hyle : y ≤ ymins[i]'(by omega) := by
    obtain ⟨r, hr, hry⟩ := List.mem_map.mp hmem
    obtain ⟨j, hjb, rfl⟩ := List.getElem_of_mem hr
    obtain ⟨gc, hs⟩ := hent j (by omega) hjb (by omega)
    obtain ⟨m, hv, hmx, hmy⟩ := hms j (by omega)
    rw [← hry, ← hmy]
    exact interp_dominates gc hs m hv hmx
  have h1 := objEO_mono obj hobj groups (gridVal N i) y _ hyle
  -- arg-max over the grid
  set objs := (List.range (N + 1)).zipWith (fun i y => objEO obj groups (gridVal N i) y) ymins with hobjs
  have hyl : ymins.length = N + 1 := by omega
  have hne : objs ≠ [] := by
    intro h; have := congrArg List.length h; simp [hobjs, hyl] at this
  obtain ⟨m, hm, hmax⟩ := argmaxFirst_spec _ hne
  simp only [Option.getD_none] at hib
  rw [← hib] at hm
  have hiB : fit.iBest < N + 1 := by
    have := (List.getElem?_eq_some_iff.mp hb).1; omega
  rw [hobjs, getElem?_zipWith_range _ hyl fit.iBest hiB] at hm
  simp only [Option.some.injEq] at hm
  have hyb' : ymins[fit.iBest]'(by omega) = yBest := by
    have := (List.getElem?_eq_some_iff.mp hyb).2; exact this
  rw [hyb'] at hm
  have h2 : objEO obj groups (gridVal N i) (ymins[i]'(by omega)) ≤ m := by
    apply hmax
    have := getElem?_zipWith_range (fun i y => objEO obj groups (gridVal N i) y) hyl i (by omega)
    exact List.mem_of_getElem? this
  refine ⟨hobjv, ?_⟩
  rw [hobjv, hm]
  exact le_trans h1 h2

/-- `optimal_EO_any_grid` for `N ≥ 1` (the older statement; the hypothesis `1 ≤ N` is not used) -/
theorem optimal_EO (flip : Bool) (obj : Metric) (hobj : obj ∈ objectivesEO) (N : Nat) (groups : List (List Row))
    (fit : Fit) (yBest : Rat) (hN : 1 ≤ N)
    (hfit : fitEO flip obj N groups none = some (fit, yBest))
    (i : Nat) (hi : i ≤ N) (y : Rat)
    (hms : ∀ j (hj : j < groups.length), ∃ m : Mixture,
      m.Valid (rawPoints flip eoXMetric eoYMetric groups[j]) ∧ m.x = gridVal N i ∧ m.y = y) :
    fit.objective = objEO obj groups (gridVal N fit.iBest) yBest ∧
    objEO obj groups (gridVal N i) y ≤ fit.objective :=
  optimal_EO_any_grid flip obj hobj N groups fit yBest hfit i hi y hms

/-- the objective reported for equalized odds IS the objective metric of the overall expected confusion counts of
    the fitted randomised rule on the whole training set (sum over groups of each group's rule on its own rows) -/
theorem objective_attained_EO_any_grid (flip : Bool) (obj : Metric) (N : Nat) (groups : List (List Row))
    (force : Option Nat) (fit : Fit) (yBest : Rat)
    (hfit : fitEO flip obj N groups force = some (fit, yBest)) :
    fit.objective = obj.eval (overallCM groups fit.rules) := by
  obtain ⟨hb, _, hlen, hpar⟩ := C04.parity_EO_any_grid flip obj N groups force fit yBest hfit
  obtain ⟨_, _, _, _, _, _, _, _, _, _, _, hobjv, _⟩ := fitEO_some hfit
  rw [hobjv]
  rw [objEO_eq]
  rw [overallCM_eq (gridVal N fit.iBest) yBest groups fit.rules hlen]
  intro j hj hj'
  have hg := hb groups[j] (List.getElem_mem hj)
  exact ⟨hg.1, hg.2, (hpar j hj hj').1, (hpar j hj hj').2.1⟩

/-- `objective_attained_EO_any_grid` for `N ≥ 1` (the older statement; the hypothesis `1 ≤ N` is not used) -/
theorem objective_attained_EO (flip : Bool) (obj : Metric) (N : Nat) (groups : List (List Row))
    (force : Option Nat) (fit : Fit) (yBest : Rat) (hN : 1 ≤ N)
    (hfit : fitEO flip obj N groups force = some (fit, yBest)) :
    fit.objective = obj.eval (overallCM groups fit.rules) :=
  objective_attained_EO_any_grid flip obj N groups force fit yBest hfit


/-! ### The comparison class FROM FIRST PRINCIPLES (review addition)

`optimal_simple` / `optimal_EO` above quantify over `Mixture`s of tradeoff POINTS.  The property text quantifies over "all
rules that randomise, separately per group, over thresholdings of the scores (and flipped thresholdings when flip=True)".
Such a rule is an `OpMix`: any finite list of `ThresholdOperation`s — ARBITRARY thresholds (finite, ±inf, equal to a score),
operator "<" only when `flip` — with weights ≥ 0 summing to 1; its probability of predicting 1 is `OpMix.prob`, and its
expected metrics are computed FROM THE ROWS (`m.eval (expCM prob rows)`), exactly like `expectedMetric` of the fitted rule. -/

/-- every randomised threshold rule of a group has, on the group's rows, the expected metric pair of a valid mixture of
    tradeoff points (sweep completeness + n-ary affinity of every METRIC_DICT entry) -/
theorem randomised_rule_is_mixture (flip : Bool) (xm ym : Metric) (rows : List Row) (m : OpMix) (hv : m.Valid flip) :
    ∃ M : Mixture, M.Valid (rawPoints flip xm ym rows) ∧
      M.x = xm.eval (expCM m.prob rows) ∧ M.y = ym.eval (expCM m.prob rows) :=
  opMix_to_mixture flip xm ym rows m hv

/-- frequency-weighted expected objective of a family of per-group randomised threshold rules, from the rows -/
def opsObjective (ym : Metric) (groups : List (List Row)) (ms : List OpMix) : Rat :=
  (List.zipWith (fun g (m : OpMix) => freq groups g * ym.eval (expCM m.prob g)) groups ms).sum

/-- **optimal_simple, full comparison class**: take ANY family of per-group randomised threshold rules (finite mixtures
    of arbitrary `>`-thresholdings, and `<`-thresholdings when `flip`) whose expected constrained metric, computed on each
    group's own rows, is the same grid value `i/N` in every group.  Its group-frequency-weighted expected objective is at
    most the objective of the fitted rule (which by `objective_attained_simple` is the same functional of the fitted rules). -/
theorem optimal_simple_ops_any_grid (flip : Bool) (xm ym : Metric) (N : Nat) (groups : List (List Row)) (fit : Fit) (hx : IsConstraintMetric xm)
    (hfit : fitSimple flip xm ym N groups none = some fit)
    (i : Nat) (hi : i ≤ N) (ms : List OpMix) (hlen : ms.length = groups.length)
    (hms : ∀ j (hj : j < groups.length) (hj' : j < ms.length),
      ms[j].Valid flip ∧ xm.eval (expCM ms[j].prob groups[j]) = gridVal N i) :
    opsObjective ym groups ms ≤ fit.objective := by
  obtain ⟨hulls, cs, hh, hc, _, hmax, _⟩ := fitted_index_first_maximum_simple flip xm ym N groups fit hfit
  have hclen := (curves_some hc).1
  have hlenh := (hullsOf_some hh).1
  have hi' : i < cs.length := by omega
  obtain ⟨hrow, hent⟩ := curves_entry_any hx hh hc i hi'
  refine le_trans ?_ (hmax i hi')
  rw [objSimple_eq]
  unfold opsObjective
  apply zipWith_sum_le groups _ _ ms cs[i] hlen hrow
  intro j hj hja hjb
  obtain ⟨gc, hs⟩ := hent j hj hjb (by omega)
  obtain ⟨hv, hmx⟩ := hms j hj hja
  obtain ⟨M, hMv, hMx, hMy⟩ := opMix_to_mixture flip xm ym groups[j] ms[j] hv
  have := interp_dominates gc hs M hMv (hMx.trans hmx)
  rw [hMy] at this
  exact mul_le_mul_of_nonneg_left this (freq_nonneg _ _)

/-- `optimal_simple_ops_any_grid` for `N ≥ 1` (the older statement; the hypothesis `1 ≤ N` is not used) -/
theorem optimal_simple_ops (flip : Bool) (xm ym : Metric) (N : Nat) (groups : List (List Row)) (fit : Fit)
    (hN : 1 ≤ N) (hx : IsConstraintMetric xm)
    (hfit : fitSimple flip xm ym N groups none = some fit)
    (i : Nat) (hi : i ≤ N) (ms : List OpMix) (hlen : ms.length = groups.length)
    (hms : ∀ j (hj : j < groups.length) (hj' : j < ms.length),
      ms[j].Valid flip ∧ xm.eval (expCM ms[j].prob groups[j]) = gridVal N i) :
    opsObjective ym groups ms ≤ fit.objective :=
  optimal_simple_ops_any_grid flip xm ym N groups fit hx hfit i hi ms hlen hms

/-- **optimal_EO, full comparison class**: ANY family of per-group randomised threshold rules that gives every group the
    same expected FPR `i/N` (a grid value) and the same expected TPR `y`, both computed on the group's own rows, has an
    overall objective — the objective metric of the OVERALL expected confusion counts on the whole training set — at most
    the fitted rule's, which by `objective_attained_EO` is the same functional of the fitted rules -/
theorem optimal_EO_ops_any_grid (flip : Bool) (obj : Metric) (hobj : obj ∈ objectivesEO) (N : Nat) (groups : List (List Row))
    (fit : Fit) (yBest : Rat)
    (hfit : fitEO flip obj N groups none = some (fit, yBest))
    (i : Nat) (hi : i ≤ N) (y : Rat) (ms : List OpMix) (hlen : ms.length = groups.length)
    (hms : ∀ j (hj : j < groups.length) (hj' : j < ms.length),
      ms[j].Valid flip ∧ eoXMetric.eval (expCM ms[j].prob groups[j]) = gridVal N i ∧
      eoYMetric.eval (expCM ms[j].prob groups[j]) = y) :
    obj.eval (overallCMp groups (ms.map OpMix.prob)) ≤ obj.eval (overallCM groups fit.rules) := by
  obtain ⟨hb, _, _, _⟩ := C04.parity_EO_any_grid flip obj N groups none fit yBest hfit
  rw [← objective_attained_EO_any_grid flip obj N groups none fit yBest hfit]
  have hcm : overallCMp groups (ms.map OpMix.prob) = eoCounts (totalNeg groups) (totalPos groups) (gridVal N i) y := by
    apply overallCMp_eq (gridVal N i) y groups _ (by simpa using hlen)
    intro j hj hj'
    have hg := hb groups[j] (List.getElem_mem hj)
    have hja : j < ms.length := by omega
    simp only [List.getElem_map]
    exact ⟨hg.1, hg.2, (hms j hj hja).2.1, (hms j hj hja).2.2⟩
  rw [hcm, ← objEO_eq]
  refine (optimal_EO_any_grid flip obj hobj N groups fit yBest hfit i hi y ?_).2
  intro j hj
  have hja : j < ms.length := by omega
  obtain ⟨hv, h1, h2⟩ := hms j hj hja
  obtain ⟨M, hMv, hMx, hMy⟩ := opMix_to_mixture flip eoXMetric eoYMetric groups[j] ms[j] hv
  exact ⟨M, hMv, hMx.trans h1, hMy.trans h2⟩

/-- `optimal_EO_ops_any_grid` for `N ≥ 1` (the older statement; the hypothesis `1 ≤ N` is not used) -/
theorem optimal_EO_ops (flip : Bool) (obj : Metric) (hobj : obj ∈ objectivesEO) (N : Nat) (groups : List (List Row))
    (fit : Fit) (yBest : Rat) (hN : 1 ≤ N)
    (hfit : fitEO flip obj N groups none = some (fit, yBest))
    (i : Nat) (hi : i ≤ N) (y : Rat) (ms : List OpMix) (hlen : ms.length = groups.length)
    (hms : ∀ j (hj : j < groups.length) (hj' : j < ms.length),
      ms[j].Valid flip ∧ eoXMetric.eval (expCM ms[j].prob groups[j]) = gridVal N i ∧
      eoYMetric.eval (expCM ms[j].prob groups[j]) = y) :
    obj.eval (overallCMp groups (ms.map OpMix.prob)) ≤ obj.eval (overallCM groups fit.rules) :=
  optimal_EO_ops_any_grid flip obj hobj N groups fit yBest hfit i hi y ms hlen hms

/-- **ge_constant for equalized odds**: the fitted rule's overall objective is at least that of the all-negative and of the
    all-positive constant classifier (overall objective of the whole training set predicted constantly 0 resp. 1) -/
theorem ge_constant_EO (flip : Bool) (obj : Metric) (hobj : obj ∈ objectivesEO) (N : Nat) (groups : List (List Row))
    (fit : Fit) (yBest : Rat) (hN : 1 ≤ N)
    (hfit : fitEO flip obj N groups none = some (fit, yBest)) :
    obj.eval (overallCMp groups (groups.map (fun _ => fun _ => (0 : Rat)))) ≤ fit.objective ∧
    obj.eval (overallCMp groups (groups.map (fun _ => fun _ => (1 : Rat)))) ≤ fit.objective := by
  obtain ⟨hb, _, _, _⟩ := C04.parity_EO flip obj N groups none fit yBest hN hfit
  rw [objective_attained_EO flip obj N groups none fit yBest hN hfit]
  have key : ∀ (o : Op) (c : Rat) (i : Nat), o.gt = true → i ≤ N → (∀ s, ind (o.apply s) = c) → gridVal N i = c →
      obj.eval (overallCMp groups (groups.map (fun _ => fun _ => c))) ≤ obj.eval (overallCM groups fit.rules) := by
    intro o c i hgt hi hoc hgi
    have hprob : ∀ g : List Row, OpMix.prob [((1 : Rat), o)] = fun _ => c := by
      intro g; funext s; simp [OpMix.prob, hoc s]
    have := optimal_EO_ops flip obj hobj N groups fit yBest hN hfit i hi c (groups.map (fun _ => [((1 : Rat), o)]))
      (by simp) (fun j hj hj' => by
        have hg := hb groups[j] (List.getElem_mem hj)
        simp only [List.getElem_map]
        refine ⟨⟨fun wo hwo => ?_, by simp [OpMix.weight]⟩, ?_, ?_⟩
        · simp only [List.mem_singleton] at hwo; subst hwo; exact ⟨zero_le_one, Or.inl hgt⟩
        · rw [hprob groups[j], hgi]; exact (const_rates c groups[j] hg.1 hg.2).1
        · rw [hprob groups[j]]; exact (const_rates c groups[j] hg.1 hg.2).2)
    simpa [List.map_map, Function.comp_def, hprob []] using this
  constructor
  · exact key ⟨true, .pinf⟩ 0 0 rfl (by omega) (fun s => by simp [Op.apply, Thr.below, ind]) (gridVal_zero N)
  · exact key ⟨true, .ninf⟩ 1 N rfl (le_refl _) (fun s => by simp [Op.apply, Thr.below, ind]) (gridVal_self hN)

/-! ### "... the fitted rule ATTAINS the maximum": the fitted rule is itself a member of the comparison class -/

/-- the fitted Bunch of one group written as a randomisation over thresholdings: the two interpolated operations, and for
    equalized odds the constant `prediction_constant = c` drawn with probability `p_ignore`, i.e. "predict 1" (`> -inf`)
    with weight `p_ignore * c` and "predict 0" (`> +inf`) with weight `p_ignore * (1 - c)` -/
def ruleOps (r : Rule) : OpMix :=
  match r.ign with
  | none => [(r.p0, r.op0), (r.p1, r.op1)]
  | some (pi, c) =>
    [((1 - pi) * r.p0, r.op0), ((1 - pi) * r.p1, r.op1), (pi * c, ⟨true, .ninf⟩), (pi * (1 - c), ⟨true, .pinf⟩)]

/-- ... and it predicts 1 with exactly the probability `_pmf_predict` reports -/
theorem ruleOps_prob (r : Rule) : (ruleOps r).prob = ruleProb r := by
  funext s
  rw [src_ruleProb]
  unfold ruleOps OpMix.prob
  rcases hr : r.ign with _ | ⟨pi, c⟩
  · simp only [List.map_cons, List.map_nil, List.sum_cons, List.sum_nil]; ring
  · have h1 : ind ((⟨true, .ninf⟩ : Op).apply s) = 1 := by simp [Op.apply, Thr.below, ind]
    have h0 : ind ((⟨true, .pinf⟩ : Op).apply s) = 0 := by simp [Op.apply, Thr.below, ind]
    simp only [List.map_cons, List.map_nil, List.sum_cons, List.sum_nil, h1, h0]
    ring

/-- **attainment, simple constraints**: the fitted rules form a member of the comparison class of `optimal_simple_ops` —
    valid randomisations over (flip-allowed) thresholdings, common constraint value `iBest / N` computed from the rows — and
    the class objective of this member IS `fit.objective`.  With `optimal_simple_ops`: the fitted rule attains the maximum. -/
theorem fitted_rule_attains_simple_any_grid (flip : Bool) (xm ym : Metric) (N : Nat) (groups : List (List Row)) (force : Option Nat)
    (fit : Fit) (hx : IsConstraintMetric xm)
    (hfit : fitSimple flip xm ym N groups force = some fit) :
    (fit.rules.map ruleOps).length = groups.length ∧ fit.iBest ≤ N ∧
    (∀ j (hj : j < groups.length) (hj' : j < fit.rules.length),
      (ruleOps fit.rules[j]).Valid flip ∧
      xm.eval (expCM (ruleOps fit.rules[j]).prob groups[j]) = gridVal N fit.iBest) ∧
    opsObjective ym groups (fit.rules.map ruleOps) = fit.objective := by
  obtain ⟨_, hiN, hrl, hpar⟩ := C04.parity_simple_any_grid flip xm ym N groups force fit hx hfit
  obtain ⟨hulls, cs, best, hh, hc, hb, _, hrules, _, _⟩ := fitSimple_some hfit
  obtain ⟨hi, hbest⟩ := List.getElem?_eq_some_iff.mp hb
  obtain ⟨hrow, hent⟩ := curves_entry_any hx hh hc fit.iBest hi
  have hlenh := (hullsOf_some hh).1
  rw [hbest] at hrow hent
  refine ⟨by simpa using hrl, hiN, fun j hj hj' => ?_, ?_⟩
  · have hjb : j < best.length := by omega
    obtain ⟨gc, hs⟩ := hent j hj hjb (by omega)
    have hr : fit.rules[j] = simpleRule best[j] := by simp [hrules]
    refine ⟨?_, by rw [ruleOps_prob]; exact (hpar j hj hj').1⟩
    rw [hr]
    refine ⟨fun wo hwo => ?_, by simp [ruleOps, simpleRule, OpMix.weight, hs.sum_one]⟩
    have hops : flip = false → best[j].op0.gt = true ∧ best[j].op1.gt = true := by
      intro hf; subst hf; exact ThresholdPredict.interp_ops_gt gc hs
    simp only [ruleOps, simpleRule, List.mem_cons, List.not_mem_nil, or_false] at hwo
    cases hflip : flip with
    | true => rcases hwo with rfl | rfl
              · exact ⟨hs.p0_nonneg, Or.inr rfl⟩
              · exact ⟨hs.p1_nonneg, Or.inr rfl⟩
    | false => rcases hwo with rfl | rfl
               · exact ⟨hs.p0_nonneg, Or.inl (hops hflip).1⟩
               · exact ⟨hs.p1_nonneg, Or.inl (hops hflip).2⟩
  · rw [objective_attained_simple_any_grid flip xm ym N groups force fit hx hfit]
    unfold opsObjective
    apply zipWith_sum_eq groups _ _ (fit.rules.map ruleOps) fit.rules (by simpa using hrl) hrl
    intro j hj hja hjb
    simp only [List.getElem_map, ruleOps_prob]
    rfl

/-- `fitted_rule_attains_simple_any_grid` for `N ≥ 1` (the older statement; the hypothesis `1 ≤ N` is not used) -/
theorem fitted_rule_attains_simple (flip : Bool) (xm ym : Metric) (N : Nat) (groups : List (List Row)) (force : Option Nat)
    (fit : Fit) (hN : 1 ≤ N) (hx : IsConstraintMetric xm)
    (hfit : fitSimple flip xm ym N groups force = some fit) :
    (fit.rules.map ruleOps).length = groups.length ∧ fit.iBest ≤ N ∧
    (∀ j (hj : j < groups.length) (hj' : j < fit.rules.length),
      (ruleOps fit.rules[j]).Valid flip ∧
      xm.eval (expCM (ruleOps fit.rules[j]).prob groups[j]) = gridVal N fit.iBest) ∧
    opsObjective ym groups (fit.rules.map ruleOps) = fit.objective :=
  fitted_rule_attains_simple_any_grid flip xm ym N groups force fit hx hfit

/-- **attainment, equalized odds**: every fitted Bunch (interpolation + `p_ignore` towards the constant `x_best`) is a valid
    randomisation over thresholdings with expected FPR `x_best` and TPR `y_best` from the rows, and the overall objective of
    this family is `fit.objective` -/
theorem fitted_rule_attains_EO_any_grid (flip : Bool) (obj : Metric) (N : Nat) (groups : List (List Row)) (force : Option Nat)
    (fit : Fit) (yBest : Rat)
    (hfit : fitEO flip obj N groups force = some (fit, yBest)) :
    (∀ j (hj : j < groups.length) (hj' : j < fit.rules.length),
      (ruleOps fit.rules[j]).Valid flip ∧
      eoXMetric.eval (expCM (ruleOps fit.rules[j]).prob groups[j]) = gridVal N fit.iBest ∧
      eoYMetric.eval (expCM (ruleOps fit.rules[j]).prob groups[j]) = yBest) ∧
    obj.eval (overallCMp groups ((fit.rules.map ruleOps).map OpMix.prob)) = fit.objective := by
  obtain ⟨_, hiN, hrl, hpar⟩ := C04.parity_EO_any_grid flip obj N groups force fit yBest hfit
  obtain ⟨hulls, cs, ymins, best, hh, hc, _, hb, _, _, hrules, _, _⟩ := fitEO_some hfit
  have hx := C04.eo_metric_is_constraint
  obtain ⟨hi, hbest⟩ := List.getElem?_eq_some_iff.mp hb
  obtain ⟨hrow, hent⟩ := curves_entry_any hx hh hc fit.iBest hi
  have hlenh := (hullsOf_some hh).1
  rw [hbest] at hrow hent
  refine ⟨fun j hj hj' => ?_, ?_⟩
  · have hjb : j < best.length := by omega
    obtain ⟨gc, hs⟩ := hent j hj hjb (by omega)
    obtain ⟨ex, ey, pi, c, hign, hp0, hp1, hcv⟩ := hpar j hj hj'
    have hr : fit.rules[j] = eoRule (gridVal N fit.iBest) yBest best[j] := by simp [hrules]
    refine ⟨?_, by rw [ruleOps_prob]; exact ex, by rw [ruleOps_prob]; exact ey⟩
    have hc0 : 0 ≤ c := by rw [hcv]; exact gridVal_nonneg N fit.iBest
    have hc1 : c ≤ 1 := by rw [hcv]; exact gridVal_le_one_any hiN
    have hops : flip = false → best[j].op0.gt = true ∧ best[j].op1.gt = true := by
      intro hf; subst hf; exact ThresholdPredict.interp_ops_gt gc hs
    have hro : fit.rules[j].op0 = best[j].op0 ∧ fit.rules[j].op1 = best[j].op1 ∧ fit.rules[j].p0 = best[j].p0 ∧
        fit.rules[j].p1 = best[j].p1 := by rw [hr]; exact ⟨rfl, rfl, rfl, rfl⟩
    have hgt : ∀ o : Op, o = fit.rules[j].op0 ∨ o = fit.rules[j].op1 → (o.gt = true ∨ flip = true) := by
      intro o ho
      cases hflip : flip with
      | true => exact Or.inr rfl
      | false =>
        rcases ho with rfl | rfl
        · exact Or.inl (by rw [hro.1]; exact (hops hflip).1)
        · exact Or.inl (by rw [hro.2.1]; exact (hops hflip).2)
    refine ⟨fun wo hwo => ?_, ?_⟩
    · simp only [ruleOps, hign, List.mem_cons, List.not_mem_nil, or_false] at hwo
      rcases hwo with rfl | rfl | rfl | rfl
      · exact ⟨mul_nonneg (by linarith) (by rw [hro.2.2.1]; exact hs.p0_nonneg), hgt _ (Or.inl rfl)⟩
      · exact ⟨mul_nonneg (by linarith) (by rw [hro.2.2.2]; exact hs.p1_nonneg), hgt _ (Or.inr rfl)⟩
      · exact ⟨mul_nonneg hp0 hc0, Or.inl rfl⟩
      · exact ⟨mul_nonneg hp0 (by linarith), Or.inl rfl⟩
    · simp only [ruleOps, hign, OpMix.weight, List.map_cons, List.map_nil, List.sum_cons, List.sum_nil]
      have hsum : fit.rules[j].p0 + fit.rules[j].p1 = 1 := by rw [hro.2.2.1, hro.2.2.2]; exact hs.sum_one
      have : fit.rules[j].p1 = 1 - fit.rules[j].p0 := by linarith
      rw [this]; ring
  · rw [objective_attained_EO_any_grid flip obj N groups force fit yBest hfit, overallCM_eq_overallCMp]
    simp only [List.map_map, Function.comp_def, ruleOps_prob]

/-- `fitted_rule_attains_EO_any_grid` for `N ≥ 1` (the older statement; the hypothesis `1 ≤ N` is not used) -/
theorem fitted_rule_attains_EO (flip : Bool) (obj : Metric) (N : Nat) (groups : List (List Row)) (force : Option Nat)
    (fit : Fit) (yBest : Rat) (hN : 1 ≤ N)
    (hfit : fitEO flip obj N groups force = some (fit, yBest)) :
    (∀ j (hj : j < groups.length) (hj' : j < fit.rules.length),
      (ruleOps fit.rules[j]).Valid flip ∧
      eoXMetric.eval (expCM (ruleOps fit.rules[j]).prob groups[j]) = gridVal N fit.iBest ∧
      eoYMetric.eval (expCM (ruleOps fit.rules[j]).prob groups[j]) = yBest) ∧
    obj.eval (overallCMp groups ((fit.rules.map ruleOps).map OpMix.prob)) = fit.objective :=
  fitted_rule_attains_EO_any_grid flip obj N groups force fit yBest hfit

/-! ### Non-vacuity -/

def gA : List Row := [⟨1, true⟩, ⟨1, true⟩, ⟨1/2, false⟩, ⟨1/2, true⟩, ⟨0, false⟩]
def gB : List Row := [⟨1, true⟩, ⟨3/4, false⟩, ⟨1/2, true⟩, ⟨1/4, false⟩, ⟨1/4, false⟩, ⟨0, false⟩]
def gC : List Row := [⟨1, true⟩, ⟨1, true⟩, ⟨1, false⟩, ⟨0, false⟩, ⟨0, true⟩, ⟨0, false⟩]
def ex : List (List Row) := [gA, gB, gC]

-- the fit of `optimal_simple` exists, picks an interior grid point and beats both constant classifiers strictly
example : (fitSimple true .false_positive_rate .accuracy_score 5 ex none).map (fun f => (f.iBest, f.objective)) =
    some (1, 63/85) := by decide +kernel
example : constObjective .accuracy_score ex ⟨true, .pinf⟩ = 9/17 ∧
    constObjective .accuracy_score ex ⟨true, .ninf⟩ = 8/17 := by decide +kernel
-- a competing family: every group thresholded at "> -inf" (x = 1 = grid[5]) is a valid family with objective 8/17
example : mixObjective ex (ex.map (fun g => [((1 : Rat), (⟨1, Metric.eval .accuracy_score (confusion ⟨true, .ninf⟩ g),
    ⟨true, .ninf⟩⟩ : Pt))])) = 8/17 := by decide +kernel
example : Metric.accuracy_score ∈ objectivesEO ∧ Metric.balanced_accuracy_score ∈ objectivesEO := by decide +kernel
example : (fitEO false .accuracy_score 4 ex none).map (fun f => (f.1.iBest, f.2, f.1.objective)) =
    some (1, 1/2, 43/68) := by decide +kernel
-- the hull of gA has three edges and supports all 4 tradeoff points
example : (tradeoffPoints false .false_positive_rate .true_positive_rate gA).map
    (fun pts => ((upperHull pts).length, pts.length, supportsAll (upperHull pts) pts)) = some (4, 4, true) := by
  decide +kernel

-- arg-max tie rule: two uninformative groups, every grid point has balanced accuracy 1/2 (grid index 3 forced: same
-- objective); the fit picks the FIRST one, index 0
def tie : List (List Row) := [[⟨1, true⟩, ⟨1, false⟩], [⟨0, true⟩, ⟨0, false⟩, ⟨0, true⟩]]
example : (fitSimple false .selection_rate .balanced_accuracy_score 4 tie none).map (fun f => (f.iBest, f.objective)) =
    some (0, 1/2) ∧
    (fitSimple false .selection_rate .balanced_accuracy_score 4 tie (some 3)).map (fun f => (f.iBest, f.objective)) =
    some (3, 1/2) := by decide +kernel

-- review additions: hypotheses of `optimal_simple_ops` / `optimal_EO_ops` met SIMULTANEOUSLY by a randomised, non-constant
-- competitor on the 3-group example with ties: toss a fair coin between "all negative" and "all positive" ...
def mHalf : OpMix := [(1/2, ⟨true, .pinf⟩), (1/2, ⟨true, .ninf⟩)]
-- ... or, with flip, mix a threshold ON a training score (1/2) with a flipped thresholding
def mFlip : OpMix := [(1/4, ⟨true, .fin (1/2)⟩), (3/4, ⟨false, .fin (3/4)⟩)]
example : mHalf.Valid false ∧ mFlip.Valid true ∧ ¬ mFlip.Valid false := by
  refine ⟨⟨by decide +kernel, by decide +kernel⟩, ⟨by decide +kernel, by decide +kernel⟩, fun h => ?_⟩
  have := (h.1 (3/4, ⟨false, .fin (3/4)⟩) (by simp [mFlip])).2
  simp at this
example : (fitSimple false .selection_rate .accuracy_score 2 ex none).map (fun f => (f.iBest, f.objective)) =
    some (1, 13/17) := by decide +kernel
example : ∀ g ∈ ex, Metric.eval .selection_rate (expCM mHalf.prob g) = gridVal 2 1 := by decide +kernel
example : opsObjective .accuracy_score ex [mHalf, mHalf, mHalf] = 1/2 := by decide +kernel
-- equalized odds: the same family has FPR = TPR = 1/2 = grid[2] of 4 in every group; its overall accuracy 1/2 < 43/68
example : ∀ g ∈ ex, Metric.eval eoXMetric (expCM mHalf.prob g) = gridVal 4 2 ∧
    Metric.eval eoYMetric (expCM mHalf.prob g) = 1/2 := by decide +kernel
example : Metric.eval .accuracy_score (overallCMp ex ([mHalf, mHalf, mHalf].map OpMix.prob)) = 1/2 := by decide +kernel
-- a rule of the class that is NOT a tradeoff point itself (threshold on a score, flipped part): its metric pair from the rows
example : (Metric.eval .false_positive_rate (expCM mFlip.prob gB), Metric.eval .true_positive_rate (expCM mFlip.prob gB)) =
    (5/8, 1/2) := by decide +kernel

-- attainment: the fitted family, written as randomisations over thresholdings, has class objective = fit.objective
example : (fitSimple false .selection_rate .accuracy_score 2 ex none).map
    (fun f => opsObjective .accuracy_score ex (f.rules.map ruleOps)) = some (13/17) := by decide +kernel
example : (fitEO false .accuracy_score 4 ex none).map (fun f =>
      (f.1.rules.map (fun r => (ruleOps r).weight),
       Metric.eval .accuracy_score (overallCMp ex ((f.1.rules.map ruleOps).map OpMix.prob)))) =
    some ([1, 1, 1], 43/68) := by decide +kernel

-- `*_any_grid` at N = 0 (the one-point grid `[0.]`): the fit succeeds, sits at index 0, and the hypotheses of
-- `optimal_simple_ops_any_grid` are met by the all-negative rule (selection rate 0 = gridVal 0 0) in every group
example : (fitSimple false .selection_rate .accuracy_score 0 ex none).map (fun f => (f.iBest, f.rules.length)) =
    some (0, 3) := by decide +kernel
example : (fitEO false .accuracy_score 0 ex none).map (fun f => (f.1.iBest, f.2)) = some (0, 0) := by decide +kernel
example : ∀ g ∈ ex, Metric.eval .selection_rate (expCM (OpMix.prob [(1, ⟨true, .pinf⟩)]) g) = gridVal 0 0 := by
  decide +kernel

end C05
