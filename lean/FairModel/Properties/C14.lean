/-
C14 — base rate metrics are weighted confusion-matrix ratios for any binary encoding.
Property theorems only; helper lemmas live in `Lemmas/BaseMetrics.lean`, `Lemmas/BaseMetricsSrc.lean`
and `Lemmas/C14Review.lean`.

CLAUSE → THEOREM TABLE (review R3; "src_" = the same clause for the functions TRANSLATED from
_base_metrics.py, which is what the driver ops `bms.*` evaluate; the hand model's ops `rate`, `selrate`,
`meanpred`, `count` evaluate `rate`, `selectionRate`, `meanPrediction`, `count`)

 1 "TPR/FNR/FPR/TNR equal the (weighted) confusion-matrix ratios"
      rate_is_class_fraction (each rate = weight of one cell / weight of the WHOLE true class, public level, a genuine
      quotient when the class has a row: rate_class_weight_pos), rateOf_eq_class_fraction; src_rate_is_class_fraction   FULL
   "for labels in {0,1}, {-1,1}"                default_encodings_accepted, default_restricted_iff                       FULL
   "or any two values with pos_label given"     two_values_accepted, src_labels_pos_last, accepted_pos;
                                                rejected otherwise: too_many_rejected, foreign_pos_rejected              FULL
 2 "return scalars"                             the rates: correspondence only (relation C14.scalar_result); see clause 5
   "in [0,1]"                                   rate_in_unit_interval, rate_public_in_unit_interval, src_rate_in_unit_interval  FULL
 3 "TPR+FNR = 1 when a positive row exists … (both terms are 0 otherwise)", same for TNR+FPR
      tpr_add_fnr / tnr_add_fpr (in terms of the confusion-matrix row total), rowTot_pos_of_row,
      tpr_add_fnr_public / tnr_add_fpr_public (public level, in terms of "a row of that class exists", positive
      weights), rowTot_ne_zero_iff; src_tpr_add_fnr, src_tnr_add_fpr, src_tpr_add_fnr_row                               FULL
 4 "exchange roles when pos_label is switched to the other class"
      pos_label_swap, pos_label_swap_public (two observed values), pos_label_swap_single (ONE observed value, the
      other class unobserved — the quantifier includes single-valued vectors), src_pos_label_swap(_single)              FULL
 5 "selection_rate is the weighted fraction of predictions equal to pos_label"
      selectionRate_def, selectionRate_spec (division-free, unique), selectionRate_in_unit_interval(_pos),
      src_selection_rate_def/_spec/_in_unit_interval, src_selection_rate_empty                                          FULL
   "mean_prediction the weighted mean prediction"  meanPrediction_def, meanPrediction_spec (division-free, unique),
      meanPrediction_between, meanPrediction_unit, src_mean_prediction_def/_spec                                       FULL
   "count the number of rows"                    count_def, src_count_eq_model, src_count_inconsistent                   FULL
   "each returned as a scalar"                   src_selection_rate_scalar, src_mean_prediction_scalar over the SHAPE-level
      translation (Generated/SqueezeSrc.lean) of the bodies and of `_convert_to_ndarray_and_squeeze`: src_squeeze_vector,
      src_squeeze_column, src_squeeze_never_scalar, src_selection_rate_empty_shape; `count` returns `len(...)`, a Python
      int (C14.scalar_result); the primitives' shapes are tied to numpy by the ops `nds.*` (C14.shape_model)            FULL

TOTALISATION (points where Lean's `x / 0 = 0` or a default would otherwise decide; each replayed on fairlearn):
  * `ratio n 0 = 0` in the rates is sklearn's `nan_to_num` of an empty confusion-matrix row (real: 0.0) — modelled,
    not an artefact; it is the "(both terms are 0 otherwise)" branch.
  * ALL weights zero: sklearn raises ValueError("Sample weights must contain at least one non-zero number"), the
    model answers `ok 0` (`rate_all_zero_weights_is_totalisation`). Outside the quantifier (positive weights); the
    public-level theorems added by the review carry `PosW`.
  * `selectionRate` / `meanPrediction` at total weight 0 (and `meanPrediction []`): numpy gives NaN, Lean gives 0
    (`selectionRate_zero_total_is_totalisation`, `meanPrediction_zero_total_is_totalisation`);
    `selectionRate_in_unit_interval` (hypothesis `NonNegW`) is true AT that point only by totalisation — the guarded
    statement is `selectionRate_in_unit_interval_pos` / `selectionRate_spec`.
  * a label equal to the sentinel `np.iinfo(np.int64).min`: the model's confusion matrix counts the row twice
    (`sentinel_label_deviates`: model TPR 1/2, fairlearn 1.0). `pos_label_swap_single` excludes it explicitly.
  * `getD i 0` on the ravelled matrix in the translation: the label list always has two entries
    (`src_labels_eq_model`), so the default is never taken; `zip` truncation in `dot` / `cmCount`: all statements are
    over the columns of ONE row list (equal lengths); unequal lengths raise in numpy/sklearn and are never sent to the
    driver (`mkRows` answers `bad-op`).
-/
import FairModel.Lemmas.BaseMetrics
import FairModel.Lemmas.BaseMetricsSrc
import FairModel.Lemmas.C14Review
import FairModel.Lemmas.SqueezeSrc

namespace C14
open BaseMetrics

/-- every row weight is non-negative (the property quantifies over positive weights) -/
def NonNegW (rows : List Row) : Prop := ∀ r ∈ rows, 0 ≤ r.w

instance (rows : List Row) : Decidable (NonNegW rows) := by unfold NonNegW; infer_instance

theorem cell_nonneg (rows : List Row) (hw : NonNegW rows) (a b : Int) : 0 ≤ cell rows a b :=
  wsum_nonneg _ rows hw

/-- All four rates are in [0,1] for any labels, any (non-negative) weights. -/
theorem rate_in_unit_interval (k : Kind) (rows : List Row) (neg pos : Int) (hw : NonNegW rows) :
    0 ≤ rateOf k rows neg pos ∧ rateOf k rows neg pos ≤ 1 := by
  have c := cell_nonneg rows hw
  cases k <;> simp only [rateOf, tprOf, fnrOf, fprOf, tnrOf, rowTot] <;> constructor <;>
    first
    | exact ratio_nonneg (c _ _) (add_nonneg (c _ _) (c _ _))
    | exact ratio_le_one (add_nonneg (c _ _) (c _ _)) (by linarith [c pos neg, c pos pos, c neg neg, c neg pos])

/-- ... and so is whatever the public function returns when it does not raise. -/
theorem rate_public_in_unit_interval (k : Kind) (rows : List Row) (p : Option Int) (v : Rat)
    (hw : NonNegW rows) (h : rate k rows p = .ok v) : 0 ≤ v ∧ v ≤ 1 := by
  unfold rate at h
  split at h
  · cases h
  · cases h; exact rate_in_unit_interval k rows _ _ hw

/-- TPR + FNR = 1 when the positive row of the confusion matrix is non-empty, else both 0. -/
theorem tpr_add_fnr (rows : List Row) (neg pos : Int) :
    (rowTot rows neg pos pos ≠ 0 → tprOf rows neg pos + fnrOf rows neg pos = 1) ∧
    (rowTot rows neg pos pos = 0 → tprOf rows neg pos = 0 ∧ fnrOf rows neg pos = 0) := by
  constructor
  · intro h
    unfold tprOf fnrOf
    unfold rowTot at h ⊢
    rw [add_comm (ratio _ _)]
    exact ratio_add h
  · intro h; simp [tprOf, fnrOf, h, ratio_zero_den]

theorem tnr_add_fpr (rows : List Row) (neg pos : Int) :
    (rowTot rows neg pos neg ≠ 0 → tnrOf rows neg pos + fprOf rows neg pos = 1) ∧
    (rowTot rows neg pos neg = 0 → tnrOf rows neg pos = 0 ∧ fprOf rows neg pos = 0) := by
  constructor
  · intro h
    unfold tnrOf fprOf
    unfold rowTot at h ⊢
    exact ratio_add h
  · intro h; simp [tnrOf, fprOf, h, ratio_zero_den]

/-- "a positive row exists": a row with true label `a`, positive weight and a prediction in
    {neg,pos} makes the row total of class `a` non-zero (non-negative weights). -/
theorem rowTot_pos_of_row (rows : List Row) (neg pos a : Int) (hw : NonNegW rows)
    (r : Row) (hr : r ∈ rows) (hyt : r.yt = a) (hyp : r.yp = neg ∨ r.yp = pos) (hpos : 0 < r.w) :
    rowTot rows neg pos a ≠ 0 := by
  have c := cell_nonneg rows hw
  unfold rowTot
  rcases hyp with h | h
  · have : 0 < cell rows a neg :=
      wsum_pos_of_mem _ rows hw r hr (by simp [hyt, h]) hpos
    have := c a pos; linarith
  · have : 0 < cell rows a pos :=
      wsum_pos_of_mem _ rows hw r hr (by simp [hyt, h]) hpos
    have := c a neg; linarith

/-- Switching `pos_label` to the other class exchanges TPR<->TNR and FPR<->FNR. -/
theorem pos_label_swap (rows : List Row) (a b : Int) :
    tprOf rows a b = tnrOf rows b a ∧ fprOf rows a b = fnrOf rows b a ∧
    tnrOf rows a b = tprOf rows b a ∧ fnrOf rows a b = fprOf rows b a := by
  simp only [tprOf, tnrOf, fprOf, fnrOf, rowTot]
  refine ⟨?_, ?_, ?_, ?_⟩ <;> rw [add_comm]

/-- the same at the level of the public functions, for any two-valued encoding `a < b` -/
theorem pos_label_swap_public (rows : List Row) (a b : Int) (hab : a < b)
    (hu : uniqueSorted (allLabels rows) = [a, b]) :
    rate .tpr rows (some b) = rate .tnr rows (some a) ∧
    rate .fpr rows (some b) = rate .fnr rows (some a) ∧
    rate .tnr rows (some b) = rate .tpr rows (some a) ∧
    rate .fnr rows (some b) = rate .fpr rows (some a) := by
  have hne : b ≠ a := ne_of_gt hab
  have h := pos_label_swap rows a b
  simp [rate, labelsForCM, hu, hne, rateOf, h.1, h.2.1, h.2.2.1, h.2.2.2]

/-- label handling: more than two distinct values are rejected, whatever `pos_label` is
    (unless the pos_label=None rule already rejected the input) -/
theorem too_many_rejected (labels : List Int) (p : Option Int) (x y z : Int) (rest : List Int)
    (hu : uniqueSorted labels = x :: y :: z :: rest) :
    ∃ e, labelsForCM labels p = .error e := by
  unfold labelsForCM
  simp only [hu]
  cases p with
  | some q => exact ⟨_, rfl⟩
  | none => dsimp only; split <;> exact ⟨_, rfl⟩

/-- a `pos_label` that is not one of two observed values is rejected -/
theorem foreign_pos_rejected (labels : List Int) (p a b : Int)
    (hu : uniqueSorted labels = [a, b]) (ha : p ≠ a) (hb : p ≠ b) :
    labelsForCM labels (some p) = .error .needPos := by
  simp [labelsForCM, hu, ha, hb]

/-- accepted inputs: the returned positive label is the requested one -/
theorem accepted_pos (labels : List Int) (p neg pos : Int)
    (h : labelsForCM labels (some p) = .ok (neg, pos)) : pos = p := by
  unfold labelsForCM at h
  simp only at h
  split at h
  · split at h <;> cases h <;> rfl
  · split at h
    · cases h; symm; assumption
    · split at h
      · cases h; symm; assumption
      · cases h
  · cases h

/-- selection_rate is the weighted fraction of predictions equal to pos_label -/
theorem selectionRate_def (rows : List Row) (pos : Int) (hne : rows ≠ []) :
    selectionRate rows pos =
      .ok (((rows.filter (fun r => r.yp == pos)).map (·.w)).sum / (rows.map (·.w)).sum) := by
  cases rows with
  | nil => exact absurd rfl hne
  | cons r rs => simp [selectionRate, wsum, totalW]

theorem wsum_le_total (p : Row → Bool) (rows : List Row) (hw : NonNegW rows) :
    wsum p rows ≤ totalW rows := by
  induction rows with
  | nil => simp [totalW]
  | cons r rs ih =>
    rw [wsum_cons]
    have h1 := hw r (by simp)
    have h2 := ih (fun x hx => hw x (by simp [hx]))
    simp only [totalW, List.map_cons, List.sum_cons] at h2 ⊢
    split <;> linarith

theorem selectionRate_in_unit_interval (rows : List Row) (pos : Int) (v : Rat)
    (hw : NonNegW rows) (h : selectionRate rows pos = .ok v) : 0 ≤ v ∧ v ≤ 1 := by
  unfold selectionRate at h
  split at h
  · cases h
  · cases h
    have hn := wsum_nonneg (fun r => r.yp == pos) rows hw
    have hle := wsum_le_total (fun r => r.yp == pos) rows hw
    have ht : 0 ≤ totalW rows := le_trans hn hle
    constructor
    · exact div_nonneg hn ht
    · rcases eq_or_lt_of_le ht with h0 | hpos
      · rw [← h0]; simp
      · rw [div_le_one hpos]; exact hle

/-- mean_prediction is the weighted mean prediction -/
theorem meanPrediction_def (rows : List PRow) :
    meanPrediction rows = (rows.map (fun r => r.pred * r.w)).sum / (rows.map (·.w)).sum := rfl

/-- unit weights: mean_prediction is the plain mean -/
theorem meanPrediction_unit (rows : List PRow) (h1 : ∀ r ∈ rows, r.w = 1) :
    meanPrediction rows = (rows.map (·.pred)).sum / rows.length := by
  unfold meanPrediction
  have e1 : rows.map (fun r => r.pred * r.w) = rows.map (·.pred) := by
    apply List.map_congr_left; intro r hr; simp [h1 r hr]
  have e2 : (rows.map (·.w)).sum = rows.length := by
    clear e1
    induction rows with
    | nil => simp
    | cons r rs ih =>
      simp only [List.map_cons, List.sum_cons, List.length_cons]
      rw [ih (fun x hx => h1 x (by simp [hx])), h1 r (by simp)]
      push_cast; ring
  rw [e1, e2]

/-- count is the number of rows -/
theorem count_def (rows : List Row) : count rows = rows.length := rfl

/-! ### Tie to the source text

`Generated/BaseMetricsSrc.lean` is the statement-by-statement translation of the bodies of
`_get_labels_for_confusion_matrix`, the four rate functions, `count`, `mean_prediction` and
`selection_rate` (lifter `harness/lifters/base_metrics.py`, regenerated from /repo on every run).
The `src_*_eq_model` theorems identify the translated functions with the hand-written model — so
every theorem above (and those of C11 / C03 / C06 that use `BaseMetrics`) is a statement about the
source text — and the property clauses are restated directly for the translated functions.
Statements are over the columns `rows.map (·.yt)` etc. of an arbitrary row list: every call with
arrays of equal length is of this form. -/

section Source
open BaseMetricsSrc

/-- the y_true / y_pred / sample_weight arrays of a row list -/
abbrev colT (rows : List Row) : List Int := rows.map (·.yt)
abbrev colP (rows : List Row) : List Int := rows.map (·.yp)
abbrev colW (rows : List Row) : Option (List Rat) := some (rows.map (·.w))

theorem src_labels_eq_model (labels : List Int) (p : Option Int) :
    get_labels_for_confusion_matrix labels p = (labelsForCM labels p).map (fun np => [np.1, np.2]) :=
  BaseMetricsGen.labels_eq_model labels p

/-- the translated `true_positive_rate` … `true_negative_rate` are the model's `rate` -/
theorem src_rate_eq_model (k : Kind) (rows : List Row) (p : Option Int) :
    BaseMetricsGen.rate k (colT rows) (colP rows) (colW rows) p = rate k rows p :=
  BaseMetricsGen.rate_eq_model k rows p

/-- `sample_weight=None` in the translated functions is the all-ones weight vector -/
theorem src_rate_none_eq_model (k : Kind) (rows : List Row) (p : Option Int) :
    BaseMetricsGen.rate k (colT rows) (colP rows) none p = rate k (BaseMetricsGen.unitW rows) p :=
  BaseMetricsGen.rate_none_eq_model k rows p

theorem src_selection_rate_eq_model (rows : List Row) (pos : Int) :
    selection_rate (colT rows) (colP rows) pos (colW rows) = selectionRate rows pos :=
  BaseMetricsGen.selection_rate_eq_model rows pos

theorem src_selection_rate_none_eq_model (rows : List Row) (pos : Int) :
    selection_rate (colT rows) (colP rows) pos none = selectionRate (BaseMetricsGen.unitW rows) pos :=
  BaseMetricsGen.selection_rate_none_eq_model rows pos

theorem src_mean_prediction_eq_model (yt : List Rat) (rows : List PRow) :
    mean_prediction yt (rows.map (·.pred)) (some (rows.map (·.w))) = .ok (meanPrediction rows) :=
  BaseMetricsGen.mean_prediction_eq_model yt rows

theorem src_mean_prediction_none_eq_model (yt : List Rat) (rows : List PRow) :
    mean_prediction yt (rows.map (·.pred)) none = .ok (meanPrediction (BaseMetricsGen.unitP rows)) :=
  BaseMetricsGen.mean_prediction_none_eq_model yt rows

theorem src_count_eq_model (rows : List Row) :
    BaseMetricsSrc.count (colT rows) (colP rows) = .ok rows.length :=
  BaseMetricsGen.count_eq_model rows

/-- whatever a translated rate function returns is in [0,1] -/
theorem src_rate_in_unit_interval (k : Kind) (rows : List Row) (p : Option Int) (v : Rat)
    (hw : NonNegW rows) (h : BaseMetricsGen.rate k (colT rows) (colP rows) (colW rows) p = .ok v) :
    0 ≤ v ∧ v ≤ 1 := by
  rw [src_rate_eq_model] at h
  exact rate_public_in_unit_interval k rows p v hw h

/-- translated TPR + FNR = 1 when the positive confusion-matrix row is non-empty, else both are 0;
    `(neg, pos)` are the labels the translated `_get_labels_for_confusion_matrix` returns -/
theorem src_tpr_add_fnr (rows : List Row) (p : Option Int) (a b : Rat)
    (ha : true_positive_rate (colT rows) (colP rows) (colW rows) p = .ok a)
    (hb : false_negative_rate (colT rows) (colP rows) (colW rows) p = .ok b) :
    ∃ neg pos, get_labels_for_confusion_matrix (allLabels rows) p = .ok [neg, pos] ∧
      (rowTot rows neg pos pos ≠ 0 → a + b = 1) ∧ (rowTot rows neg pos pos = 0 → a = 0 ∧ b = 0) := by
  have ha' := src_rate_eq_model .tpr rows p
  have hb' := src_rate_eq_model .fnr rows p
  simp only [BaseMetricsGen.rate] at ha' hb'
  rw [ha'] at ha; rw [hb'] at hb
  rw [src_labels_eq_model]
  unfold rate at ha hb
  cases hl : labelsForCM (allLabels rows) p with
  | error e => simp [hl] at ha
  | ok np =>
    obtain ⟨neg, pos⟩ := np
    simp only [hl, rateOf, Except.ok.injEq] at ha hb
    subst ha; subst hb
    exact ⟨neg, pos, rfl, (tpr_add_fnr rows neg pos).1, (tpr_add_fnr rows neg pos).2⟩

theorem src_tnr_add_fpr (rows : List Row) (p : Option Int) (a b : Rat)
    (ha : true_negative_rate (colT rows) (colP rows) (colW rows) p = .ok a)
    (hb : false_positive_rate (colT rows) (colP rows) (colW rows) p = .ok b) :
    ∃ neg pos, get_labels_for_confusion_matrix (allLabels rows) p = .ok [neg, pos] ∧
      (rowTot rows neg pos neg ≠ 0 → a + b = 1) ∧ (rowTot rows neg pos neg = 0 → a = 0 ∧ b = 0) := by
  have ha' := src_rate_eq_model .tnr rows p
  have hb' := src_rate_eq_model .fpr rows p
  simp only [BaseMetricsGen.rate] at ha' hb'
  rw [ha'] at ha; rw [hb'] at hb
  rw [src_labels_eq_model]
  unfold rate at ha hb
  cases hl : labelsForCM (allLabels rows) p with
  | error e => simp [hl] at ha
  | ok np =>
    obtain ⟨neg, pos⟩ := np
    simp only [hl, rateOf, Except.ok.injEq] at ha hb
    subst ha; subst hb
    exact ⟨neg, pos, rfl, (tnr_add_fpr rows neg pos).1, (tnr_add_fpr rows neg pos).2⟩

/-- switching `pos_label` exchanges the translated functions: TPR<->TNR, FPR<->FNR -/
theorem src_pos_label_swap (rows : List Row) (a b : Int) (hab : a < b)
    (hu : uniqueSorted (allLabels rows) = [a, b]) :
    true_positive_rate (colT rows) (colP rows) (colW rows) (some b) =
      true_negative_rate (colT rows) (colP rows) (colW rows) (some a) ∧
    false_positive_rate (colT rows) (colP rows) (colW rows) (some b) =
      false_negative_rate (colT rows) (colP rows) (colW rows) (some a) ∧
    true_negative_rate (colT rows) (colP rows) (colW rows) (some b) =
      true_positive_rate (colT rows) (colP rows) (colW rows) (some a) ∧
    false_negative_rate (colT rows) (colP rows) (colW rows) (some b) =
      false_positive_rate (colT rows) (colP rows) (colW rows) (some a) := by
  have h := pos_label_swap_public rows a b hab hu
  have e : ∀ k p, BaseMetricsGen.rate k (colT rows) (colP rows) (colW rows) p = rate k rows p :=
    fun k p => src_rate_eq_model k rows p
  have e1 := e .tpr; have e2 := e .fnr; have e3 := e .fpr; have e4 := e .tnr
  simp only [BaseMetricsGen.rate] at e1 e2 e3 e4
  rw [e1, e1, e2, e2, e3, e3, e4, e4]
  exact h

/-- translated `_get_labels_for_confusion_matrix`: accepted inputs give `[neg, pos]` with the
    requested positive label LAST -/
theorem src_labels_pos_last (labels : List Int) (p : Int) (l : List Int)
    (h : get_labels_for_confusion_matrix labels (some p) = .ok l) : ∃ neg, l = [neg, p] := by
  rw [src_labels_eq_model] at h
  cases hl : labelsForCM labels (some p) with
  | error e => simp [hl, Except.map] at h
  | ok np =>
    obtain ⟨neg, pos⟩ := np
    have := accepted_pos labels p neg pos hl
    simp only [hl, Except.map, Except.ok.injEq] at h
    exact ⟨neg, by rw [← h, this]⟩

/-- translated `selection_rate` is the weighted fraction of predictions equal to `pos_label` -/
theorem src_selection_rate_def (rows : List Row) (pos : Int) (hne : rows ≠ []) :
    selection_rate (colT rows) (colP rows) pos (colW rows) =
      .ok (((rows.filter (fun r => r.yp == pos)).map (·.w)).sum / (rows.map (·.w)).sum) := by
  rw [src_selection_rate_eq_model]; exact selectionRate_def rows pos hne

theorem src_selection_rate_in_unit_interval (rows : List Row) (pos : Int) (v : Rat) (hw : NonNegW rows)
    (h : selection_rate (colT rows) (colP rows) pos (colW rows) = .ok v) : 0 ≤ v ∧ v ≤ 1 := by
  rw [src_selection_rate_eq_model] at h; exact selectionRate_in_unit_interval rows pos v hw h

/-- translated `selection_rate` rejects the empty input -/
theorem src_selection_rate_empty (pos : Int) (w : Option (List Rat)) :
    selection_rate [] [] pos w = .error .empty := by
  cases w <;> rfl

/-- translated `mean_prediction` is the weighted mean prediction -/
theorem src_mean_prediction_def (yt : List Rat) (rows : List PRow) :
    mean_prediction yt (rows.map (·.pred)) (some (rows.map (·.w))) =
      .ok ((rows.map (fun r => r.pred * r.w)).sum / (rows.map (·.w)).sum) := by
  rw [src_mean_prediction_eq_model]; rfl

end Source

/-! ## Review additions (R3): public-level clauses, class-conditional form, single-valued swap, guarded
quotients, totalisation witnesses, joint non-vacuity examples -/

section Review
open BaseMetricsSrc

/-- the cell of the confusion matrix a rate reads and the true class it conditions on -/
def trueClass (k : Kind) (neg pos : Int) : Int := match k with | .tpr => pos | .fnr => pos | .fpr => neg | .tnr => neg
def predClass (k : Kind) (neg pos : Int) : Int := match k with | .tpr => pos | .fnr => neg | .fpr => pos | .tnr => neg

/-- Clause 1 on the level of the confusion matrix: each rate is
    (weight of the rows with true class c and predicted class d) / (weight of ALL rows with true class c),
    with sklearn's 0 for an empty class — provided every prediction is one of the two labels. -/
theorem rateOf_eq_class_fraction (k : Kind) (rows : List Row) (neg pos : Int) (hnp : neg ≠ pos)
    (hyp : ∀ r ∈ rows, r.yp = neg ∨ r.yp = pos) :
    rateOf k rows neg pos =
      ratio (cell rows (trueClass k neg pos) (predClass k neg pos))
            (wsum (fun r => r.yt == trueClass k neg pos) rows) := by
  cases k <;>
    simp only [rateOf, tprOf, fnrOf, fprOf, tnrOf, trueClass, predClass,
      rowTot_eq_class_weight rows neg pos _ hnp hyp]

/-- Clause 1 at the level of the public functions, for ANY accepted labelling (default encodings or
    `pos_label` given): the call returns the class-conditional weighted fraction w.r.t. the label pair
    `_get_labels_for_confusion_matrix` chose.  `pos ≠ int64Min` excludes the sentinel (see
    `sentinel_label_deviates`). -/
theorem rate_is_class_fraction (k : Kind) (rows : List Row) (p : Option Int) (neg pos : Int)
    (hl : labelsForCM (allLabels rows) p = .ok (neg, pos)) (hnp : neg ≠ pos) :
    rate k rows p =
      .ok (ratio (cell rows (trueClass k neg pos) (predClass k neg pos))
                 (wsum (fun r => r.yt == trueClass k neg pos) rows)) := by
  have hm := labelsForCM_ok_mem _ _ _ _ hl
  have hyp : ∀ r ∈ rows, r.yp = neg ∨ r.yp = pos := fun r hr =>
    hm r.yp (by simp only [allLabels, List.mem_append, List.mem_map]; exact Or.inr ⟨r, hr, rfl⟩)
  simp only [rate, hl]
  rw [rateOf_eq_class_fraction k rows neg pos hnp hyp]

/-- … and the quotient is a genuine one (non-zero denominator) as soon as the class has a row
    (positive weights): nothing in `rate_is_class_fraction` is then decided by `ratio _ 0 = 0`. -/
theorem rate_class_weight_pos (rows : List Row) (c : Int) (hw : PosW rows) (r : Row) (hr : r ∈ rows)
    (hc : r.yt = c) : 0 < wsum (fun r => r.yt == c) rows :=
  wsum_pos_of_mem _ rows hw.nonneg r hr (by simp [hc]) (hw r hr)

/-- Clause 1, accepted encodings: any two observed values with `pos_label` one of them … -/
theorem two_values_accepted (rows : List Row) (a b : Int) (hu : uniqueSorted (allLabels rows) = [a, b])
    (k : Kind) :
    rate k rows (some b) = .ok (rateOf k rows a b) ∧ rate k rows (some a) = .ok (rateOf k rows b a) := by
  obtain ⟨h1, h2⟩ := labelsForCM_two (allLabels rows) a b hu
  simp [rate, h1, h2]

/-- … and `pos_label=None` on {0,1} and {-1,1} (positive label 1), incl. single-valued vectors -/
theorem default_encodings_accepted (rows : List Row) (k : Kind) :
    (uniqueSorted (allLabels rows) = [0, 1] → rate k rows none = .ok (rateOf k rows 0 1)) ∧
    (uniqueSorted (allLabels rows) = [-1, 1] → rate k rows none = .ok (rateOf k rows (-1) 1)) ∧
    (uniqueSorted (allLabels rows) = [0] → rate k rows none = .ok (rateOf k rows 0 1)) ∧
    (uniqueSorted (allLabels rows) = [-1] → rate k rows none = .ok (rateOf k rows (-1) 1)) ∧
    (uniqueSorted (allLabels rows) = [1] → rate k rows none = .ok (rateOf k rows int64Min 1)) := by
  obtain ⟨h1, h2, h3, h4, h5⟩ := labelsForCM_default (allLabels rows)
  refine ⟨?_, ?_, ?_, ?_, ?_⟩ <;> intro hu <;> simp [rate, h1, h2, h3, h4, h5, hu]

/-- `pos_label=None` is rejected as "restricted" exactly when the labels are neither inside {0,1} nor
    inside {-1,1} -/
theorem default_restricted_iff (k : Kind) (rows : List Row) :
    rate k rows none = .error .restricted ↔
      ¬ ((∀ x ∈ allLabels rows, x = 0 ∨ x = 1) ∨ (∀ x ∈ allLabels rows, x = -1 ∨ x = 1)) := by
  rw [← labelsForCM_none_restricted_iff]
  unfold rate
  cases h : labelsForCM (allLabels rows) none with
  | error e => simp
  | ok np => simp

/-- "a row of class `a` exists" ⇔ the confusion-matrix row of `a` is non-empty (positive weights, every
    prediction one of the two labels) -/
theorem rowTot_ne_zero_iff (rows : List Row) (neg pos a : Int) (hw : PosW rows)
    (hyp : ∀ r ∈ rows, r.yp = neg ∨ r.yp = pos) :
    rowTot rows neg pos a ≠ 0 ↔ ∃ r ∈ rows, r.yt = a := by
  constructor
  · intro h
    by_contra hno
    have hno' : ∀ r ∈ rows, r.yt ≠ a := fun r hr hra => hno ⟨r, hr, hra⟩
    exact h (by simp [rowTot, cell_eq_zero_of_no_true rows a _ hno'])
  · rintro ⟨r, hr, hra⟩
    exact rowTot_pos_of_row rows neg pos a hw.nonneg r hr hra (hyp r hr) (hw r hr)

/-- Clause 3 at the level of the public functions, in the words of the property: whatever TPR and FNR
    return for the same arguments, they add up to 1 when a row of the positive class exists and are
    both 0 otherwise (positive weights; `pos` is the positive label the call uses). -/
theorem tpr_add_fnr_public (rows : List Row) (p : Option Int) (x y : Rat) (hw : PosW rows)
    (hx : rate .tpr rows p = .ok x) (hy : rate .fnr rows p = .ok y) :
    ∃ neg pos, labelsForCM (allLabels rows) p = .ok (neg, pos) ∧
      ((∃ r ∈ rows, r.yt = pos) → x + y = 1) ∧ ((∀ r ∈ rows, r.yt ≠ pos) → x = 0 ∧ y = 0) := by
  unfold rate at hx hy
  cases hl : labelsForCM (allLabels rows) p with
  | error e => simp [hl] at hx
  | ok np =>
    obtain ⟨neg, pos⟩ := np
    simp only [hl, rateOf, Except.ok.injEq] at hx hy
    subst hx; subst hy
    have hm := labelsForCM_ok_mem _ _ _ _ hl
    have hyp : ∀ r ∈ rows, r.yp = neg ∨ r.yp = pos := fun r hr =>
      hm r.yp (by simp only [allLabels, List.mem_append, List.mem_map]; exact Or.inr ⟨r, hr, rfl⟩)
    refine ⟨neg, pos, rfl, ?_, ?_⟩
    · intro he
      exact (tpr_add_fnr rows neg pos).1 ((rowTot_ne_zero_iff rows neg pos pos hw hyp).2 he)
    · intro hno
      exact (tpr_add_fnr rows neg pos).2 (by simp [rowTot, cell_eq_zero_of_no_true rows pos _ hno])

theorem tnr_add_fpr_public (rows : List Row) (p : Option Int) (x y : Rat) (hw : PosW rows)
    (hx : rate .tnr rows p = .ok x) (hy : rate .fpr rows p = .ok y) :
    ∃ neg pos, labelsForCM (allLabels rows) p = .ok (neg, pos) ∧
      ((∃ r ∈ rows, r.yt = neg) → x + y = 1) ∧ ((∀ r ∈ rows, r.yt ≠ neg) → x = 0 ∧ y = 0) := by
  unfold rate at hx hy
  cases hl : labelsForCM (allLabels rows) p with
  | error e => simp [hl] at hx
  | ok np =>
    obtain ⟨neg, pos⟩ := np
    simp only [hl, rateOf, Except.ok.injEq] at hx hy
    subst hx; subst hy
    have hm := labelsForCM_ok_mem _ _ _ _ hl
    have hyp : ∀ r ∈ rows, r.yp = neg ∨ r.yp = pos := fun r hr =>
      hm r.yp (by simp only [allLabels, List.mem_append, List.mem_map]; exact Or.inr ⟨r, hr, rfl⟩)
    refine ⟨neg, pos, rfl, ?_, ?_⟩
    · intro he
      exact (tnr_add_fpr rows neg pos).1 ((rowTot_ne_zero_iff rows neg pos neg hw hyp).2 he)
    · intro hno
      exact (tnr_add_fpr rows neg pos).2 (by simp [rowTot, cell_eq_zero_of_no_true rows neg _ hno])

/-- Clause 4 for vectors with a SINGLE distinct value `a` (inside the property's quantifier): switching
    `pos_label` from `a` to any other value `b` exchanges the roles as well.  `a ≠ int64Min`: the sentinel
    the code pairs a single label with must not itself be the label (`sentinel_label_deviates`). -/
theorem pos_label_swap_single (rows : List Row) (a b : Int) (hu : uniqueSorted (allLabels rows) = [a])
    (hab : b ≠ a) (hs : a ≠ int64Min) :
    rate .tpr rows (some a) = rate .tnr rows (some b) ∧
    rate .fpr rows (some a) = rate .fnr rows (some b) ∧
    rate .tnr rows (some a) = rate .tpr rows (some b) ∧
    rate .fnr rows (some a) = rate .fpr rows (some b) := by
  have hall : ∀ r ∈ rows, r.yt = a ∧ r.yp = a := by
    intro r hr
    have h1 : r.yt ∈ uniqueSorted (allLabels rows) :=
      (mem_uniqueSorted _ _).2 (by simp only [allLabels, List.mem_append, List.mem_map]; exact Or.inl ⟨r, hr, rfl⟩)
    have h2 : r.yp ∈ uniqueSorted (allLabels rows) :=
      (mem_uniqueSorted _ _).2 (by simp only [allLabels, List.mem_append, List.mem_map]; exact Or.inr ⟨r, hr, rfl⟩)
    rw [hu] at h1 h2
    simp only [List.mem_singleton] at h1 h2
    exact ⟨h1, h2⟩
  have hs' : int64Min ≠ a := fun h => hs h.symm
  have nt : ∀ c d, c ≠ a → cell rows c d = 0 := fun c d hc =>
    cell_eq_zero_of_no_true rows c d (fun r hr h => hc (by rw [← h, (hall r hr).1]))
  have np : ∀ c d, d ≠ a → cell rows c d = 0 := fun c d hd =>
    cell_eq_zero_of_no_pred rows c d (fun r hr h => hd (by rw [← h, (hall r hr).2]))
  have ha := labelsForCM_single (allLabels rows) a hu a
  have hb := labelsForCM_single (allLabels rows) a hu b
  simp only [if_true] at ha
  rw [if_neg (fun h => hab h.symm)] at hb
  simp only [rate, ha, hb, rateOf, tprOf, tnrOf, fprOf, fnrOf, rowTot]
  refine ⟨?_, ?_, ?_, ?_⟩
  · rw [np a int64Min hs', np a b hab]; simp
  · rw [nt int64Min a hs', nt b a hab, ratio_zero_num, ratio_zero_num]
  · rw [nt int64Min int64Min hs', nt b b hab, ratio_zero_num, ratio_zero_num]
  · rw [np a int64Min hs', np a b hab, ratio_zero_num, ratio_zero_num]

/-- MODEL DEVIATION, documented: if the single observed label IS the sentinel `np.iinfo(np.int64).min`,
    the model's 2×2 matrix over the label list `[int64Min, int64Min]` counts the row in both columns
    (TPR 1/2); sklearn maps the duplicated label to ONE index and fairlearn returns 1.0 (replayed).
    The harness never generates this label; `pos_label_swap_single` excludes it. -/
theorem sentinel_label_deviates :
    rate .tpr [⟨int64Min, int64Min, 1⟩] (some int64Min) = .ok (1/2) := by decide +kernel

/-- TOTALISATION WITNESS: with ALL weights zero the model answers 0 for every rate, sklearn raises
    `ValueError("Sample weights must contain at least one non-zero number")` (replayed:
    `true_positive_rate([1],[1],sample_weight=[0])`).  Outside the property's quantifier (positive weights);
    the review's public-level theorems carry `PosW`. -/
theorem rate_all_zero_weights_is_totalisation (k : Kind) (rows : List Row) (neg pos : Int)
    (h0 : ∀ r ∈ rows, r.w = 0) : rateOf k rows neg pos = 0 := by
  have hc : ∀ a b, cell rows a b = 0 := by
    intro a b
    unfold cell wsum
    have : ((rows.filter (fun r => r.yt == a && r.yp == b)).map (·.w)) =
        (rows.filter (fun r => r.yt == a && r.yp == b)).map (fun _ => (0 : Rat)) :=
      List.map_congr_left (fun r hr => h0 r (List.mem_of_mem_filter hr))
    rw [this]; simp
  cases k <;> simp [rateOf, tprOf, fnrOf, fprOf, tnrOf, rowTot, hc, ratio_zero_den]

/-- `selection_rate` in [0,1] with a GENUINE quotient: positive weights, non-empty input.
    (`selectionRate_in_unit_interval` above also admits total weight 0, where its conclusion holds only
    because Lean's `x / 0 = 0`; numpy returns NaN there.) -/
theorem selectionRate_in_unit_interval_pos (rows : List Row) (pos : Int) (hne : rows ≠ []) (hw : PosW rows) :
    ∃ v, selectionRate rows pos = .ok v ∧ 0 < totalW rows ∧
      v * totalW rows = wsum (fun r => r.yp == pos) rows ∧ 0 ≤ v ∧ v ≤ 1 := by
  obtain ⟨v, hv, hm, _⟩ := selectionRate_spec rows pos hne hw
  exact ⟨v, hv, totalW_pos rows hne hw, hm, selectionRate_in_unit_interval rows pos v hw.nonneg hv⟩

/-- `count` on arrays of different length raises (sklearn `check_consistent_length`) -/
theorem src_count_inconsistent (yt yp : List Int) (h : yt.length ≠ yp.length) :
    BaseMetricsSrc.count yt yp = .error .inconsistent := by
  simp [BaseMetricsSrc.count, h, BaseMetricsGen.throw_eq, bind, Except.bind]

/-- Clause 1 for the translated functions -/
theorem src_rate_is_class_fraction (k : Kind) (rows : List Row) (p : Option Int) (neg pos : Int)
    (hl : get_labels_for_confusion_matrix (allLabels rows) p = .ok [neg, pos]) (hnp : neg ≠ pos) :
    BaseMetricsGen.rate k (colT rows) (colP rows) (colW rows) p =
      .ok (ratio (cell rows (trueClass k neg pos) (predClass k neg pos))
                 (wsum (fun r => r.yt == trueClass k neg pos) rows)) := by
  rw [src_rate_eq_model]
  apply rate_is_class_fraction k rows p neg pos _ hnp
  rw [src_labels_eq_model] at hl
  cases h : labelsForCM (allLabels rows) p with
  | error e => simp [h, Except.map] at hl
  | ok np =>
    obtain ⟨n', p'⟩ := np
    simp only [h, Except.map, Except.ok.injEq, List.cons.injEq, and_true] at hl
    rw [hl.1, hl.2]

/-- Clause 3 for the translated functions in the words of the property (a row of the positive class
    exists / does not exist), positive weights -/
theorem src_tpr_add_fnr_row (rows : List Row) (p : Option Int) (a b : Rat) (hw : PosW rows)
    (ha : true_positive_rate (colT rows) (colP rows) (colW rows) p = .ok a)
    (hb : false_negative_rate (colT rows) (colP rows) (colW rows) p = .ok b) :
    ∃ neg pos, get_labels_for_confusion_matrix (allLabels rows) p = .ok [neg, pos] ∧
      ((∃ r ∈ rows, r.yt = pos) → a + b = 1) ∧ ((∀ r ∈ rows, r.yt ≠ pos) → a = 0 ∧ b = 0) := by
  have ha' := src_rate_eq_model .tpr rows p
  have hb' := src_rate_eq_model .fnr rows p
  simp only [BaseMetricsGen.rate] at ha' hb'
  rw [ha'] at ha; rw [hb'] at hb
  obtain ⟨neg, pos, hl, h1, h2⟩ := tpr_add_fnr_public rows p a b hw ha hb
  exact ⟨neg, pos, by rw [src_labels_eq_model, hl]; rfl, h1, h2⟩

theorem src_tnr_add_fpr_row (rows : List Row) (p : Option Int) (a b : Rat) (hw : PosW rows)
    (ha : true_negative_rate (colT rows) (colP rows) (colW rows) p = .ok a)
    (hb : false_positive_rate (colT rows) (colP rows) (colW rows) p = .ok b) :
    ∃ neg pos, get_labels_for_confusion_matrix (allLabels rows) p = .ok [neg, pos] ∧
      ((∃ r ∈ rows, r.yt = neg) → a + b = 1) ∧ ((∀ r ∈ rows, r.yt ≠ neg) → a = 0 ∧ b = 0) := by
  have ha' := src_rate_eq_model .tnr rows p
  have hb' := src_rate_eq_model .fpr rows p
  simp only [BaseMetricsGen.rate] at ha' hb'
  rw [ha'] at ha; rw [hb'] at hb
  obtain ⟨neg, pos, hl, h1, h2⟩ := tnr_add_fpr_public rows p a b hw ha hb
  exact ⟨neg, pos, by rw [src_labels_eq_model, hl]; rfl, h1, h2⟩

/-- Clause 4, single observed value, for the translated functions -/
theorem src_pos_label_swap_single (rows : List Row) (a b : Int) (hu : uniqueSorted (allLabels rows) = [a])
    (hab : b ≠ a) (hs : a ≠ int64Min) :
    true_positive_rate (colT rows) (colP rows) (colW rows) (some a) =
      true_negative_rate (colT rows) (colP rows) (colW rows) (some b) ∧
    false_positive_rate (colT rows) (colP rows) (colW rows) (some a) =
      false_negative_rate (colT rows) (colP rows) (colW rows) (some b) ∧
    true_negative_rate (colT rows) (colP rows) (colW rows) (some a) =
      true_positive_rate (colT rows) (colP rows) (colW rows) (some b) ∧
    false_negative_rate (colT rows) (colP rows) (colW rows) (some a) =
      false_positive_rate (colT rows) (colP rows) (colW rows) (some b) := by
  have h := pos_label_swap_single rows a b hu hab hs
  have e : ∀ k p, BaseMetricsGen.rate k (colT rows) (colP rows) (colW rows) p = rate k rows p :=
    fun k p => src_rate_eq_model k rows p
  have e1 := e .tpr; have e2 := e .fnr; have e3 := e .fpr; have e4 := e .tnr
  simp only [BaseMetricsGen.rate] at e1 e2 e3 e4
  rw [e1, e1, e2, e2, e3, e3, e4, e4]
  exact h

/-- Clause 5 for the translated `selection_rate`: division-free and unique, in [0,1] -/
theorem src_selection_rate_spec (rows : List Row) (pos : Int) (hne : rows ≠ []) (hw : PosW rows) :
    ∃ v, selection_rate (colT rows) (colP rows) pos (colW rows) = .ok v ∧ 0 < totalW rows ∧
      v * totalW rows = wsum (fun r => r.yp == pos) rows ∧ 0 ≤ v ∧ v ≤ 1 := by
  rw [src_selection_rate_eq_model]; exact selectionRate_in_unit_interval_pos rows pos hne hw

/-- Clause 5 for the translated `mean_prediction`: THE number v with v·Σw = Σ pred·w, between the
    smallest and the largest prediction (positive weights, non-empty input) -/
theorem src_mean_prediction_spec (yt : List Rat) (rows : List PRow) (lo hi : Rat) (hne : rows ≠ [])
    (hw : PosP rows) (hb : ∀ r ∈ rows, lo ≤ r.pred ∧ r.pred ≤ hi) :
    ∃ v, mean_prediction yt (rows.map (·.pred)) (some (rows.map (·.w))) = .ok v ∧ 0 < totalP rows ∧
      v * totalP rows = (rows.map (fun r => r.pred * r.w)).sum ∧ lo ≤ v ∧ v ≤ hi := by
  refine ⟨meanPrediction rows, src_mean_prediction_eq_model yt rows, totalP_pos rows hne hw,
    (meanPrediction_spec rows hne hw).1, meanPrediction_between rows lo hi hne hw hb⟩

end Review

/-! ### Joint non-vacuity (review): for every theorem with hypotheses, ONE concrete non-trivial input that
meets ALL of them, on the interesting branch (both classes present, weights ≠ 1, denominators ≠ 0, or the
empty-class branch where that is the point). -/
/-- weighted, both classes, both predictions, every cell non-empty -/
def exW : List Row := [⟨1, 1, 2⟩, ⟨1, 0, 1⟩, ⟨0, 1, 1/2⟩, ⟨0, 0, 3⟩, ⟨1, 1, 3/4⟩]
/-- two arbitrary values (3 = negative, 7 = positive), weighted -/
def ex37 : List Row := [⟨7, 7, 2⟩, ⟨7, 3, 1⟩, ⟨3, 7, 5⟩, ⟨3, 3, 3⟩]
/-- no positive row (true labels all 0) but positive predictions: the "both 0 otherwise" branch -/
def exNoPos : List Row := [⟨0, 1, 2⟩, ⟨0, 0, 1⟩]
/-- a single distinct value -/
def exSingle : List Row := [⟨7, 7, 2⟩, ⟨7, 7, 1/2⟩]
def exP : List PRow := [⟨1, 2⟩, ⟨0, 1⟩, ⟨3/4, 1/2⟩]

-- rate_in_unit_interval / rate_public_in_unit_interval / src_rate_in_unit_interval
example : NonNegW exW ∧ rate .fpr exW none = .ok (1/7) ∧
    BaseMetricsGen.rate .fpr (colT exW) (colP exW) (colW exW) none = .ok (1/7) := by decide +kernel
-- tpr_add_fnr / tnr_add_fpr: both branches
example : rowTot exW 0 1 1 ≠ 0 ∧ rowTot exW 0 1 0 ≠ 0 ∧ tprOf exW 0 1 = 11/15 ∧ fnrOf exW 0 1 = 4/15 := by
  decide +kernel
example : rowTot exNoPos 0 1 1 = 0 ∧ rowTot exNoPos 0 1 0 ≠ 0 := by decide +kernel
-- rowTot_pos_of_row
example : NonNegW exW ∧ (⟨1, 0, 1⟩ : Row) ∈ exW ∧ (0 : Rat) < 1 := by decide +kernel
-- pos_label_swap_public / src_pos_label_swap / two_values_accepted: a non-{0,1} encoding
example : (3 : Int) < 7 ∧ uniqueSorted (allLabels ex37) = [3, 7] ∧
    rate .tpr ex37 (some 7) = .ok (2/3) ∧ rate .tnr ex37 (some 3) = .ok (2/3) ∧
    rate .fpr ex37 (some 7) = .ok (5/8) ∧ rate .fnr ex37 (some 3) = .ok (5/8) := by decide +kernel
-- pos_label_swap_single / src_pos_label_swap_single
example : uniqueSorted (allLabels exSingle) = [7] ∧ (3 : Int) ≠ 7 ∧ (7 : Int) ≠ int64Min ∧
    rate .tpr exSingle (some 7) = .ok 1 ∧ rate .tnr exSingle (some 3) = .ok 1 ∧
    rate .fnr exSingle (some 7) = .ok 0 ∧ rate .fpr exSingle (some 3) = .ok 0 := by decide +kernel
-- too_many_rejected / foreign_pos_rejected / accepted_pos / src_labels_pos_last
example : uniqueSorted [3, 9, 7, 3] = 3 :: 7 :: 9 :: [] ∧ labelsForCM [3, 9, 7, 3] (some 3) = .error .tooMany := by
  decide +kernel
example : uniqueSorted [3, 7, 3] = [3, 7] ∧ (9 : Int) ≠ 3 ∧ (9 : Int) ≠ 7 ∧
    labelsForCM [3, 7, 3] (some 9) = .error .needPos := by decide +kernel
example : labelsForCM [3, 7, 3] (some 3) = .ok (7, 3) ∧
    BaseMetricsSrc.get_labels_for_confusion_matrix [3, 7, 3] (some 3) = .ok [7, 3] := by decide +kernel
-- default_encodings_accepted / default_restricted_iff
example : uniqueSorted (allLabels exW) = [0, 1] ∧ rate .tpr exW none = .ok (11/15) := by decide +kernel
example : uniqueSorted (allLabels [⟨-1, 1, 2⟩, ⟨1, 1, 1⟩]) = [-1, 1] ∧
    rate .tnr [⟨-1, 1, 2⟩, ⟨1, 1, 1⟩] none = .ok 0 := by decide +kernel
example : rate .tpr ex37 none = .error .restricted := by decide +kernel
-- rate_is_class_fraction / src_rate_is_class_fraction / rate_class_weight_pos: genuine quotient 11/4 ÷ 15/4
example : labelsForCM (allLabels exW) none = .ok (0, 1) ∧ (0 : Int) ≠ 1 ∧ PosW exW ∧
    cell exW 1 1 = 11/4 ∧ wsum (fun r => r.yt == 1) exW = 15/4 ∧
    BaseMetricsSrc.get_labels_for_confusion_matrix (allLabels exW) none = .ok [0, 1] := by decide +kernel
-- rowTot_ne_zero_iff / tpr_add_fnr_public / tnr_add_fpr_public / src_*_row: the "exists" branch …
example : PosW exW ∧ rate .tpr exW none = .ok (11/15) ∧ rate .fnr exW none = .ok (4/15) ∧
    labelsForCM (allLabels exW) none = .ok (0, 1) ∧ (⟨1, 0, 1⟩ : Row) ∈ exW := by decide +kernel
-- … and the "otherwise" branch: no positive row, TPR = FNR = 0 although positive PREDICTIONS exist
example : PosW exNoPos ∧ rate .tpr exNoPos none = .ok 0 ∧ rate .fnr exNoPos none = .ok 0 ∧
    labelsForCM (allLabels exNoPos) none = .ok (0, 1) ∧ (∀ r ∈ exNoPos, r.yt ≠ 1) ∧
    rate .tnr exNoPos none = .ok (1/3) ∧ rate .fpr exNoPos none = .ok (2/3) := by decide +kernel
-- selectionRate_def / _spec / _in_unit_interval(_pos) / src_selection_rate_*
example : exW ≠ [] ∧ PosW exW ∧ NonNegW exW ∧ selectionRate exW 1 = .ok (13/29) ∧
    BaseMetricsSrc.selection_rate (colT exW) (colP exW) 1 (colW exW) = .ok (13/29) := by decide +kernel
-- selectionRate_zero_total_is_totalisation: the only way to total weight 0 is a non-positive weight
example : ([⟨1, 1, 0⟩] : List Row) ≠ [] ∧ totalW [⟨1, 1, 0⟩] = 0 ∧ NonNegW [⟨1, 1, 0⟩] ∧ ¬ PosW [⟨1, 1, 0⟩] := by
  decide +kernel
-- meanPrediction_unit / _spec / _between / src_mean_prediction_spec
example : exP ≠ [] ∧ PosP exP ∧ (∀ r ∈ exP, (0 : Rat) ≤ r.pred ∧ r.pred ≤ 1) ∧ meanPrediction exP = 19/28 := by
  decide +kernel
example : (∀ r ∈ ([⟨1, 1⟩, ⟨0, 1⟩, ⟨1/2, 1⟩] : List PRow), r.w = 1) ∧
    meanPrediction [⟨1, 1⟩, ⟨0, 1⟩, ⟨1/2, 1⟩] = 1/2 := by decide +kernel
-- src_count_inconsistent
example : BaseMetricsSrc.count [1, 0] [1] = .error .inconsistent ∧ BaseMetricsSrc.count [1, 0] [1, 1] = .ok 2 := by
  decide +kernel
-- the empty input is rejected by the rates exactly as fairlearn does ("no more than two unique y values")
example : rate .tpr [] none = .error .tooMany ∧
    BaseMetricsSrc.true_positive_rate [] [] none none = .error .tooMany := by decide +kernel

/-! Non-vacuity: concrete inputs meeting the hypotheses, evaluated by the kernel. -/
def ex1 : List Row := [⟨1, 1, 2⟩, ⟨1, 0, 1⟩, ⟨0, 1, 1⟩, ⟨0, 0, 3⟩]
example : rate .tpr ex1 none = .ok (2/3) := by decide +kernel
example : rate .fnr ex1 none = .ok (1/3) := by decide +kernel
example : rate .tnr ex1 (some 0) = .ok (2/3) := by decide +kernel
example : uniqueSorted (allLabels ex1) = [0, 1] := by decide +kernel
example : selectionRate [⟨1, 1, 2⟩] 1 = .ok 1 := by decide +kernel
example : labelsForCM [5, 7] none = .error .restricted := by decide +kernel
example : BaseMetricsSrc.true_positive_rate (colT ex1) (colP ex1) (colW ex1) none = .ok (2/3) := by decide +kernel
example : BaseMetricsSrc.false_negative_rate (colT ex1) (colP ex1) none (some 0) = .ok (1/2) := by decide +kernel
example : BaseMetricsSrc.get_labels_for_confusion_matrix [7, 7] (some 7) = .ok [int64Min, 7] := by decide +kernel
example : BaseMetricsSrc.get_labels_for_confusion_matrix [3, 7, 3] (some 3) = .ok [7, 3] := by decide +kernel
example : BaseMetricsSrc.selection_rate [1] [1] 1 (some [2]) = .ok 1 := by decide +kernel

/-! ### "returns a scalar": the shape-level translation (`Generated/SqueezeSrc.lean`)

`harness/lifters/base_metrics.py::lift_squeeze` translates `_convert_to_ndarray_and_squeeze`
(fairlearn/utils/_input_manipulations.py: `np.asarray`, the `size == 0` / `size > 1` / else branches with
`np.squeeze` / `reshape(1)`) and the bodies of `selection_rate` / `mean_prediction` into functions on numpy SHAPES
(`Model/NdShape.lean`).  `[]` is the 0-d shape — what numpy returns as a scalar. -/
section Shapes
open NdShape SqueezeSrc

/-- the reading of the value-level translation (`_convert_to_ndarray_and_squeeze(v)` of a vector is `v`) is a theorem
    about the translated helper: a vector of ANY length — also the empty and the ONE-ELEMENT vector (F1: with
    `np.squeeze` in the last branch a one-element vector becomes 0-d and `len()` raises) — keeps its shape -/
theorem src_squeeze_vector (n : Nat) : convert_to_ndarray_and_squeeze_shape [n] = .ok [n] := conv_vec n

/-- a single-column / single-row 2-d input (a one-column DataFrame) becomes the vector -/
theorem src_squeeze_column (n : Nat) (hn : 0 < n) :
    convert_to_ndarray_and_squeeze_shape [n, 1] = .ok [n] ∧ convert_to_ndarray_and_squeeze_shape [1, n] = .ok [n] := by
  rw [conv_eq, conv_eq]
  have hs1 : size [n, 1] = n := by simp [size]
  have hs2 : size [1, n] = n := by simp [size]
  rw [hs1, hs2]
  by_cases h1 : n > 1
  · have hne : n ≠ 1 := by omega
    have h0 : n ≠ 0 := by omega
    simp [h0, h1, npSqueeze, hne]
  · have : n = 1 := by omega
    subst this; simp [npReshape, size]

/-- the helper never hands out a 0-d array ("a special case to stop single element arrays being converted to scalars"),
    whatever the input shape: the result has at least one dimension -/
theorem src_squeeze_never_scalar (s r : Shape) (h : convert_to_ndarray_and_squeeze_shape s = .ok r) : r ≠ [] := by
  rw [conv_eq] at h
  by_cases h0 : size s = 0
  · simp only [h0, if_true, Except.ok.injEq] at h
    subst h; exact size_zero_ne_nil s h0
  · by_cases h1 : size s > 1
    · simp only [h0, if_false, h1, if_true, Except.ok.injEq] at h
      subst h; exact squeeze_ne_nil s h1
    · simp only [h0, if_false, h1, npReshape] at h
      split at h
      · simp only [Except.ok.injEq] at h; subst h; simp
      · simp at h

/-- **"selection_rate … returned as a scalar"**: for predictions of any length n ≥ 1 (vector or single column), without
    weights or with a weight vector (column) of the same length, the translated body returns the 0-d shape -/
theorem src_selection_rate_scalar (n : Nat) (hn : 0 < n) (yt : Shape) :
    selection_rate_shape yt [n] none = .ok [] ∧ selection_rate_shape yt [n] (some [n]) = .ok [] ∧
    selection_rate_shape yt [n, 1] (some [n, 1]) = .ok [] := by
  have h0 : (n == 0) = false := by simp; omega
  refine ⟨?_, ?_, ?_⟩ <;>
    simp [selection_rate_shape, conv_vec, (src_squeeze_column n hn).1, npBroadcast, npLen, npDot, npSum, h0,
      bind, Except.bind]

/-- … and an empty prediction vector raises (`ValueError`, the "Empty y_pred" guard) -/
theorem src_selection_rate_empty_shape (yt : Shape) (w : Option Shape) :
    selection_rate_shape yt [0] w = .error .valueError := by
  cases w <;> simp [selection_rate_shape, conv_vec, npBroadcast, npLen, bind, Except.bind, throw, throwThe,
    MonadExceptOf.throw]

/-- **"mean_prediction … returned as a scalar"** -/
theorem src_mean_prediction_scalar (n : Nat) (yt : Shape) :
    mean_prediction_shape yt [n] none = .ok [] ∧ mean_prediction_shape yt [n] (some [n]) = .ok [] := by
  constructor <;>
    simp [mean_prediction_shape, conv_vec, npBroadcast, npLen, npDot, npSum, bind, Except.bind]

-- non-vacuity / the interesting points: one element stays a vector; a 1x1 matrix and a 0-d input become `[1]`
example : convert_to_ndarray_and_squeeze_shape [1] = .ok [1] ∧ convert_to_ndarray_and_squeeze_shape [1, 1] = .ok [1] ∧
    convert_to_ndarray_and_squeeze_shape [] = .ok [1] ∧ convert_to_ndarray_and_squeeze_shape [0] = .ok [0] ∧
    convert_to_ndarray_and_squeeze_shape [3, 1, 2] = .ok [3, 2] := by decide +kernel
example : selection_rate_shape [1] [1] (some [1]) = .ok [] ∧ mean_prediction_shape [1] [1] none = .ok [] := by decide +kernel
-- a 2-d prediction matrix (outside the quantifier: label VECTORS) does not slip through as a scalar: `np.dot` raises
example : selection_rate_shape [3, 2] [3, 2] none = .error .valueError := by decide +kernel

end Shapes

end C14
