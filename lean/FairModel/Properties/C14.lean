/-
C14 — base rate metrics are weighted confusion-matrix ratios for any binary encoding.
Property theorems only; helper lemmas live in `Lemmas/BaseMetrics.lean`.
-/
import FairModel.Lemmas.BaseMetrics
import FairModel.Lemmas.BaseMetricsSrc

namespace C14
open BaseMetrics

/-- every row weight is non-negative (the property quantifies over positive weights) -/
def NonNegW (rows : List Row) : Prop := ∀ r ∈ rows, 0 ≤ r.w

theorem cell_nonneg (rows : List Row) (hw : NonNegW rows) (a b : Int) : 0 ≤ cell rows a b :=
  wsum_nonneg _ rows hw

/-- All four rates are in [0,1] for any labels, any (non-negative) weights. -/
theorem rate_in_unit_interval (k : Kind) (rows : List Row) (neg pos : Int) (hw : NonNegW rows) :
    0 ≤ rateOf k rows neg pos ∧ rateOf k rows neg pos ≤ 1 := by
  have c := cell_nonneg rows hw
  cases k <;> simp only [rateOf, tprOf, fnrOf, fprOf, tnrOf, rowTot] <;> constructor <;>
    first
    | exact ratio_nonneg (c _ _) (add_nonneg (c _ _) (c _ _))
    | exact ratio_le_one (add_nonneg (c _ _) (c _ _)) (by linarith [c pos neg, c pos pos, c neg neg, c neg pos])

/-- ... and so is whatever the public function returns when it does not raise. -/
theorem rate_public_in_unit_interval (k : Kind) (rows : List Row) (p : Option Int) (v : Rat)
    (hw : NonNegW rows) (h : rate k rows p = .ok v) : 0 ≤ v ∧ v ≤ 1 := by
  unfold rate at h
  split at h
  · cases h
  · cases h; exact rate_in_unit_interval k rows _ _ hw

/-- TPR + FNR = 1 when the positive row of the confusion matrix is non-empty, else both 0. -/
theorem tpr_add_fnr (rows : List Row) (neg pos : Int) :
    (rowTot rows neg pos pos ≠ 0 → tprOf rows neg pos + fnrOf rows neg pos = 1) ∧
    (rowTot rows neg pos pos = 0 → tprOf rows neg pos = 0 ∧ fnrOf rows neg pos = 0) := by
  constructor
  · intro h
    unfold tprOf fnrOf
    unfold rowTot at h ⊢
    rw [add_comm (ratio _ _)]
    exact ratio_add h
  · intro h; simp [tprOf, fnrOf, h, ratio_zero_den]

theorem tnr_add_fpr (rows : List Row) (neg pos : Int) :
    (rowTot rows neg pos neg ≠ 0 → tnrOf rows neg pos + fprOf rows neg pos = 1) ∧
    (rowTot rows neg pos neg = 0 → tnrOf rows neg pos = 0 ∧ fprOf rows neg pos = 0) := by
  constructor
  · intro h
    unfold tnrOf fprOf
    unfold rowTot at h ⊢
    exact ratio_add h
  · intro h; simp [tnrOf, fprOf, h, ratio_zero_den]

/-- "a positive row exists": a row with true label `a`, positive weight and a prediction in
    {neg,pos} makes the row total of class `a` non-zero (non-negative weights). -/
theorem rowTot_pos_of_row (rows : List Row) (neg pos a : Int) (hw : NonNegW rows)
    (r : Row) (hr : r ∈ rows) (hyt : r.yt = a) (hyp : r.yp = neg ∨ r.yp = pos) (hpos : 0 < r.w) :
    rowTot rows neg pos a ≠ 0 := by
  have c := cell_nonneg rows hw
  unfold rowTot
  rcases hyp with h | h
  · have : 0 < cell rows a neg :=
      wsum_pos_of_mem _ rows hw r hr (by simp [hyt, h]) hpos
    have := c a pos; linarith
  · have : 0 < cell rows a pos :=
      wsum_pos_of_mem _ rows hw r hr (by simp [hyt, h]) hpos
    have := c a neg; linarith

/-- Switching `pos_label` to the other class exchanges TPR<->TNR and FPR<->FNR. -/
theorem pos_label_swap (rows : List Row) (a b : Int) :
    tprOf rows a b = tnrOf rows b a ∧ fprOf rows a b = fnrOf rows b a ∧
    tnrOf rows a b = tprOf rows b a ∧ fnrOf rows a b = fprOf rows b a := by
  simp only [tprOf, tnrOf, fprOf, fnrOf, rowTot]
  refine ⟨?_, ?_, ?_, ?_⟩ <;> rw [add_comm]

/-- the same at the level of the public functions, for any two-valued encoding `a < b` -/
theorem pos_label_swap_public (rows : List Row) (a b : Int) (hab : a < b)
    (hu : uniqueSorted (allLabels rows) = [a, b]) :
    rate .tpr rows (some b) = rate .tnr rows (some a) ∧
    rate .fpr rows (some b) = rate .fnr rows (some a) ∧
    rate .tnr rows (some b) = rate .tpr rows (some a) ∧
    rate .fnr rows (some b) = rate .fpr rows (some a) := by
  have hne : b ≠ a := ne_of_gt hab
  have h := pos_label_swap rows a b
  simp [rate, labelsForCM, hu, hne, rateOf, h.1, h.2.1, h.2.2.1, h.2.2.2]

/-- label handling: more than two distinct values are rejected, whatever `pos_label` is
    (unless the pos_label=None rule already rejected the input) -/
theorem too_many_rejected (labels : List Int) (p : Option Int) (x y z : Int) (rest : List Int)
    (hu : uniqueSorted labels = x :: y :: z :: rest) :
    ∃ e, labelsForCM labels p = .error e := by
  unfold labelsForCM
  simp only [hu]
  cases p with
  | some q => exact ⟨_, rfl⟩
  | none => dsimp only; split <;> exact ⟨_, rfl⟩

/-- a `pos_label` that is not one of two observed values is rejected -/
theorem foreign_pos_rejected (labels : List Int) (p a b : Int)
    (hu : uniqueSorted labels = [a, b]) (ha : p ≠ a) (hb : p ≠ b) :
    labelsForCM labels (some p) = .error .needPos := by
  simp [labelsForCM, hu, ha, hb]

/-- accepted inputs: the returned positive label is the requested one -/
theorem accepted_pos (labels : List Int) (p neg pos : Int)
    (h : labelsForCM labels (some p) = .ok (neg, pos)) : pos = p := by
  unfold labelsForCM at h
  simp only at h
  split at h
  · split at h <;> cases h <;> rfl
  · split at h
    · cases h; symm; assumption
    · split at h
      · cases h; symm; assumption
      · cases h
  · cases h

/-- selection_rate is the weighted fraction of predictions equal to pos_label -/
theorem selectionRate_def (rows : List Row) (pos : Int) (hne : rows ≠ []) :
    selectionRate rows pos =
      .ok (((rows.filter (fun r => r.yp == pos)).map (·.w)).sum / (rows.map (·.w)).sum) := by
  cases rows with
  | nil => exact absurd rfl hne
  | cons r rs => simp [selectionRate, wsum, totalW]

theorem wsum_le_total (p : Row → Bool) (rows : List Row) (hw : NonNegW rows) :
    wsum p rows ≤ totalW rows := by
  induction rows with
  | nil => simp [totalW]
  | cons r rs ih =>
    rw [wsum_cons]
    have h1 := hw r (by simp)
    have h2 := ih (fun x hx => hw x (by simp [hx]))
    simp only [totalW, List.map_cons, List.sum_cons] at h2 ⊢
    split <;> linarith

theorem selectionRate_in_unit_interval (rows : List Row) (pos : Int) (v : Rat)
    (hw : NonNegW rows) (h : selectionRate rows pos = .ok v) : 0 ≤ v ∧ v ≤ 1 := by
  unfold selectionRate at h
  split at h
  · cases h
  · cases h
    have hn := wsum_nonneg (fun r => r.yp == pos) rows hw
    have hle := wsum_le_total (fun r => r.yp == pos) rows hw
    have ht : 0 ≤ totalW rows := le_trans hn hle
    constructor
    · exact div_nonneg hn ht
    · rcases eq_or_lt_of_le ht with h0 | hpos
      · rw [← h0]; simp
      · rw [div_le_one hpos]; exact hle

/-- mean_prediction is the weighted mean prediction -/
theorem meanPrediction_def (rows : List PRow) :
    meanPrediction rows = (rows.map (fun r => r.pred * r.w)).sum / (rows.map (·.w)).sum := rfl

/-- unit weights: mean_prediction is the plain mean -/
theorem meanPrediction_unit (rows : List PRow) (h1 : ∀ r ∈ rows, r.w = 1) :
    meanPrediction rows = (rows.map (·.pred)).sum / rows.length := by
  unfold meanPrediction
  have e1 : rows.map (fun r => r.pred * r.w) = rows.map (·.pred) := by
    apply List.map_congr_left; intro r hr; simp [h1 r hr]
  have e2 : (rows.map (·.w)).sum = rows.length := by
    clear e1
    induction rows with
    | nil => simp
    | cons r rs ih =>
      simp only [List.map_cons, List.sum_cons, List.length_cons]
      rw [ih (fun x hx => h1 x (by simp [hx])), h1 r (by simp)]
      push_cast; ring
  rw [e1, e2]

/-- count is the number of rows -/
theorem count_def (rows : List Row) : count rows = rows.length := rfl

/-! ### Tie to the source text

`Generated/BaseMetricsSrc.lean` is the statement-by-statement translation of the bodies of
`_get_labels_for_confusion_matrix`, the four rate functions, `count`, `mean_prediction` and
`selection_rate` (lifter `harness/lifters/base_metrics.py`, regenerated from /repo on every run).
The `src_*_eq_model` theorems identify the translated functions with the hand-written model — so
every theorem above (and those of C11 / C03 / C06 that use `BaseMetrics`) is a statement about the
source text — and the property clauses are restated directly for the translated functions.
Statements are over the columns `rows.map (·.yt)` etc. of an arbitrary row list: every call with
arrays of equal length is of this form. -/

section Source
open BaseMetricsSrc

/-- the y_true / y_pred / sample_weight arrays of a row list -/
abbrev colT (rows : List Row) : List Int := rows.map (·.yt)
abbrev colP (rows : List Row) : List Int := rows.map (·.yp)
abbrev colW (rows : List Row) : Option (List Rat) := some (rows.map (·.w))

theorem src_labels_eq_model (labels : List Int) (p : Option Int) :
    get_labels_for_confusion_matrix labels p = (labelsForCM labels p).map (fun np => [np.1, np.2]) :=
  BaseMetricsGen.labels_eq_model labels p

/-- the translated `true_positive_rate` … `true_negative_rate` are the model's `rate` -/
theorem src_rate_eq_model (k : Kind) (rows : List Row) (p : Option Int) :
    BaseMetricsGen.rate k (colT rows) (colP rows) (colW rows) p = rate k rows p :=
  BaseMetricsGen.rate_eq_model k rows p

/-- `sample_weight=None` in the translated functions is the all-ones weight vector -/
theorem src_rate_none_eq_model (k : Kind) (rows : List Row) (p : Option Int) :
    BaseMetricsGen.rate k (colT rows) (colP rows) none p = rate k (BaseMetricsGen.unitW rows) p :=
  BaseMetricsGen.rate_none_eq_model k rows p

theorem src_selection_rate_eq_model (rows : List Row) (pos : Int) :
    selection_rate (colT rows) (colP rows) pos (colW rows) = selectionRate rows pos :=
  BaseMetricsGen.selection_rate_eq_model rows pos

theorem src_selection_rate_none_eq_model (rows : List Row) (pos : Int) :
    selection_rate (colT rows) (colP rows) pos none = selectionRate (BaseMetricsGen.unitW rows) pos :=
  BaseMetricsGen.selection_rate_none_eq_model rows pos

theorem src_mean_prediction_eq_model (yt : List Rat) (rows : List PRow) :
    mean_prediction yt (rows.map (·.pred)) (some (rows.map (·.w))) = .ok (meanPrediction rows) :=
  BaseMetricsGen.mean_prediction_eq_model yt rows

theorem src_mean_prediction_none_eq_model (yt : List Rat) (rows : List PRow) :
    mean_prediction yt (rows.map (·.pred)) none = .ok (meanPrediction (BaseMetricsGen.unitP rows)) :=
  BaseMetricsGen.mean_prediction_none_eq_model yt rows

theorem src_count_eq_model (rows : List Row) :
    BaseMetricsSrc.count (colT rows) (colP rows) = .ok rows.length :=
  BaseMetricsGen.count_eq_model rows

/-- whatever a translated rate function returns is in [0,1] -/
theorem src_rate_in_unit_interval (k : Kind) (rows : List Row) (p : Option Int) (v : Rat)
    (hw : NonNegW rows) (h : BaseMetricsGen.rate k (colT rows) (colP rows) (colW rows) p = .ok v) :
    0 ≤ v ∧ v ≤ 1 := by
  rw [src_rate_eq_model] at h
  exact rate_public_in_unit_interval k rows p v hw h

/-- translated TPR + FNR = 1 when the positive confusion-matrix row is non-empty, else both are 0;
    `(neg, pos)` are the labels the translated `_get_labels_for_confusion_matrix` returns -/
theorem src_tpr_add_fnr (rows : List Row) (p : Option Int) (a b : Rat)
    (ha : true_positive_rate (colT rows) (colP rows) (colW rows) p = .ok a)
    (hb : false_negative_rate (colT rows) (colP rows) (colW rows) p = .ok b) :
    ∃ neg pos, get_labels_for_confusion_matrix (allLabels rows) p = .ok [neg, pos] ∧
      (rowTot rows neg pos pos ≠ 0 → a + b = 1) ∧ (rowTot rows neg pos pos = 0 → a = 0 ∧ b = 0) := by
  have ha' := src_rate_eq_model .tpr rows p
  have hb' := src_rate_eq_model .fnr rows p
  simp only [BaseMetricsGen.rate] at ha' hb'
  rw [ha'] at ha; rw [hb'] at hb
  rw [src_labels_eq_model]
  unfold rate at ha hb
  cases hl : labelsForCM (allLabels rows) p with
  | error e => simp [hl] at ha
  | ok np =>
    obtain ⟨neg, pos⟩ := np
    simp only [hl, rateOf, Except.ok.injEq] at ha hb
    subst ha; subst hb
    exact ⟨neg, pos, rfl, (tpr_add_fnr rows neg pos).1, (tpr_add_fnr rows neg pos).2⟩

theorem src_tnr_add_fpr (rows : List Row) (p : Option Int) (a b : Rat)
    (ha : true_negative_rate (colT rows) (colP rows) (colW rows) p = .ok a)
    (hb : false_positive_rate (colT rows) (colP rows) (colW rows) p = .ok b) :
    ∃ neg pos, get_labels_for_confusion_matrix (allLabels rows) p = .ok [neg, pos] ∧
      (rowTot rows neg pos neg ≠ 0 → a + b = 1) ∧ (rowTot rows neg pos neg = 0 → a = 0 ∧ b = 0) := by
  have ha' := src_rate_eq_model .tnr rows p
  have hb' := src_rate_eq_model .fpr rows p
  simp only [BaseMetricsGen.rate] at ha' hb'
  rw [ha'] at ha; rw [hb'] at hb
  rw [src_labels_eq_model]
  unfold rate at ha hb
  cases hl : labelsForCM (allLabels rows) p with
  | error e => simp [hl] at ha
  | ok np =>
    obtain ⟨neg, pos⟩ := np
    simp only [hl, rateOf, Except.ok.injEq] at ha hb
    subst ha; subst hb
    exact ⟨neg, pos, rfl, (tnr_add_fpr rows neg pos).1, (tnr_add_fpr rows neg pos).2⟩

/-- switching `pos_label` exchanges the translated functions: TPR<->TNR, FPR<->FNR -/
theorem src_pos_label_swap (rows : List Row) (a b : Int) (hab : a < b)
    (hu : uniqueSorted (allLabels rows) = [a, b]) :
    true_positive_rate (colT rows) (colP rows) (colW rows) (some b) =
      true_negative_rate (colT rows) (colP rows) (colW rows) (some a) ∧
    false_positive_rate (colT rows) (colP rows) (colW rows) (some b) =
      false_negative_rate (colT rows) (colP rows) (colW rows) (some a) ∧
    true_negative_rate (colT rows) (colP rows) (colW rows) (some b) =
      true_positive_rate (colT rows) (colP rows) (colW rows) (some a) ∧
    false_negative_rate (colT rows) (colP rows) (colW rows) (some b) =
      false_positive_rate (colT rows) (colP rows) (colW rows) (some a) := by
  have h := pos_label_swap_public rows a b hab hu
  have e : ∀ k p, BaseMetricsGen.rate k (colT rows) (colP rows) (colW rows) p = rate k rows p :=
    fun k p => src_rate_eq_model k rows p
  have e1 := e .tpr; have e2 := e .fnr; have e3 := e .fpr; have e4 := e .tnr
  simp only [BaseMetricsGen.rate] at e1 e2 e3 e4
  rw [e1, e1, e2, e2, e3, e3, e4, e4]
  exact h

/-- translated `_get_labels_for_confusion_matrix`: accepted inputs give `[neg, pos]` with the
    requested positive label LAST -/
theorem src_labels_pos_last (labels : List Int) (p : Int) (l : List Int)
    (h : get_labels_for_confusion_matrix labels (some p) = .ok l) : ∃ neg, l = [neg, p] := by
  rw [src_labels_eq_model] at h
  cases hl : labelsForCM labels (some p) with
  | error e => simp [hl, Except.map] at h
  | ok np =>
    obtain ⟨neg, pos⟩ := np
    have := accepted_pos labels p neg pos hl
    simp only [hl, Except.map, Except.ok.injEq] at h
    exact ⟨neg, by rw [← h, this]⟩

/-- translated `selection_rate` is the weighted fraction of predictions equal to `pos_label` -/
theorem src_selection_rate_def (rows : List Row) (pos : Int) (hne : rows ≠ []) :
    selection_rate (colT rows) (colP rows) pos (colW rows) =
      .ok (((rows.filter (fun r => r.yp == pos)).map (·.w)).sum / (rows.map (·.w)).sum) := by
  rw [src_selection_rate_eq_model]; exact selectionRate_def rows pos hne

theorem src_selection_rate_in_unit_interval (rows : List Row) (pos : Int) (v : Rat) (hw : NonNegW rows)
    (h : selection_rate (colT rows) (colP rows) pos (colW rows) = .ok v) : 0 ≤ v ∧ v ≤ 1 := by
  rw [src_selection_rate_eq_model] at h; exact selectionRate_in_unit_interval rows pos v hw h

/-- translated `selection_rate` rejects the empty input -/
theorem src_selection_rate_empty (pos : Int) (w : Option (List Rat)) :
    selection_rate [] [] pos w = .error .empty := by
  cases w <;> rfl

/-- translated `mean_prediction` is the weighted mean prediction -/
theorem src_mean_prediction_def (yt : List Rat) (rows : List PRow) :
    mean_prediction yt (rows.map (·.pred)) (some (rows.map (·.w))) =
      .ok ((rows.map (fun r => r.pred * r.w)).sum / (rows.map (·.w)).sum) := by
  rw [src_mean_prediction_eq_model]; rfl

end Source

/-! Non-vacuity: concrete inputs meeting the hypotheses, evaluated by the kernel. -/
def ex1 : List Row := [⟨1, 1, 2⟩, ⟨1, 0, 1⟩, ⟨0, 1, 1⟩, ⟨0, 0, 3⟩]
example : rate .tpr ex1 none = .ok (2/3) := by decide +kernel
example : rate .fnr ex1 none = .ok (1/3) := by decide +kernel
example : rate .tnr ex1 (some 0) = .ok (2/3) := by decide +kernel
example : uniqueSorted (allLabels ex1) = [0, 1] := by decide +kernel
example : selectionRate [⟨1, 1, 2⟩] 1 = .ok 1 := by decide +kernel
example : labelsForCM [5, 7] none = .error .restricted := by decide +kernel
example : BaseMetricsSrc.true_positive_rate (colT ex1) (colP ex1) (colW ex1) none = .ok (2/3) := by decide +kernel
example : BaseMetricsSrc.false_negative_rate (colT ex1) (colP ex1) none (some 0) = .ok (1/2) := by decide +kernel
example : BaseMetricsSrc.get_labels_for_confusion_matrix [7, 7] (some 7) = .ok [int64Min, 7] := by decide +kernel
example : BaseMetricsSrc.get_labels_for_confusion_matrix [3, 7, 3] (some 3) = .ok [7, 3] := by decide +kernel
example : BaseMetricsSrc.selection_rate [1] [1] 1 (some [2]) = .ok 1 := by decide +kernel

end C14
