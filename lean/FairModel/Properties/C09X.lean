/-
C09X — composition theorems C09 ↔ C06: what GridSearch's selection rule (`selection_rule="tradeoff_optimization"`)
guarantees about the SELECTED predictor.

`GridSearch.fit` computes for every trained predictor `k` the loss
`(1 − constraint_weight)·objective_k + constraint_weight·max(gamma(h_k))` (`Grid.tradeoff`; note: the maximum of
the raw gamma entries, the bound is NOT subtracted) and returns the first index of the minimum
(`Grid.argminFirst`).  A trained predictor is `(objective, gamma_0, other gamma entries)`, gamma non-empty.
-/
import FairModel.Properties.C09
import FairModel.Properties.C06X

namespace C09
open Grid

/-- one trained predictor: objective value and its (non-empty) gamma vector -/
abbrev Pred := Rat × Rat × List Rat

def Pred.gam (p : Pred) : List Rat := p.2.1 :: p.2.2
def Pred.maxGamma (p : Pred) : Rat := maxL p.2.1 p.2.2
def lossOf (cw : Rat) (p : Pred) : Rat := (1 - cw) * p.1 + cw * p.maxGamma

/-- `lossOf` is `Grid.tradeoff` (the model of `loss_fct`) on that predictor, and the list `fit` minimises over is
    the one the driver op `grid.select` builds -/
theorem lossOf_eq_tradeoff (cw : Rat) (preds : List Pred) :
    (∀ p : Pred, tradeoff cw p.1 p.gam = some (lossOf cw p)) ∧
    allSome (List.zipWith (tradeoff cw) (preds.map (·.1)) (preds.map Pred.gam)) = some (preds.map (lossOf cw)) := by
  refine ⟨fun p => rfl, ?_⟩
  induction preds with
  | nil => rfl
  | cons p ps ih =>
    simp only [List.map_cons, List.zipWith_cons_cons]
    have : tradeoff cw p.1 p.gam = some (lossOf cw p) := rfl
    rw [this]
    simp only [allSome, ih, Option.map_some]

/-- every gamma entry is at most the predictor's `max(gamma)`, and the maximum is one of the entries -/
theorem maxGamma_spec (p : Pred) : p.maxGamma ∈ p.gam ∧ ∀ y ∈ p.gam, y ≤ p.maxGamma :=
  maxL_spec p.2.1 p.2.2

/-- **the selected predictor minimises the trade-off**: its loss is at most that of every trained predictor
    (and strictly smaller than that of every earlier one) -/
theorem selected_minimises_tradeoff (cw : Rat) (preds : List Pred) (i : Nat)
    (hi : argminFirst (preds.map (lossOf cw)) = some i) :
    ∃ hi' : i < preds.length, (∀ p ∈ preds, lossOf cw preds[i] ≤ lossOf cw p) ∧
      ∀ (j : Nat) (hj : j < i), lossOf cw preds[i] < lossOf cw (preds[j]'(by omega)) := by
  obtain ⟨h1, h2, h3⟩ := argminFirst_spec _ i hi
  have hlen : i < preds.length := by simpa using h1
  refine ⟨hlen, ?_, ?_⟩
  · intro p hp
    have := h2 (lossOf cw p) (List.mem_map.mpr ⟨p, hp, rfl⟩)
    simpa using this
  · intro j hj
    have := h3 j hj
    simpa using this

/-- **constraint_weight = 1: the selected predictor has the smallest maximal gamma entry** among the trained ones -/
theorem selected_min_max_gamma (preds : List Pred) (i : Nat)
    (hi : argminFirst (preds.map (lossOf 1)) = some i) :
    ∃ hi' : i < preds.length, ∀ p ∈ preds, preds[i].maxGamma ≤ p.maxGamma := by
  obtain ⟨hlen, h, _⟩ := selected_minimises_tradeoff 1 preds i hi
  refine ⟨hlen, fun p hp => ?_⟩
  have := h p hp
  simp only [lossOf] at this
  linarith

/-- … hence if SOME trained predictor satisfies `gamma ≤ eps` entrywise, so does the selected one -/
theorem selected_satisfies_of_some_satisfies (preds : List Pred) (i : Nat) (eps : Rat)
    (hi : argminFirst (preds.map (lossOf 1)) = some i)
    (hk : ∃ p ∈ preds, ∀ y ∈ p.gam, y ≤ eps) :
    ∃ hi' : i < preds.length, ∀ y ∈ preds[i].gam, y ≤ eps := by
  obtain ⟨hlen, h⟩ := selected_min_max_gamma preds i hi
  obtain ⟨p, hp, hpe⟩ := hk
  refine ⟨hlen, fun y hy => ?_⟩
  have h1 := (maxGamma_spec preds[i]).2 y hy
  have h2 := h p hp
  have h3 := hpe _ (maxGamma_spec p).1
  linarith

/-- general `constraint_weight ∈ (0, 1]`, objectives in [0,1] (error rates): the selected predictor's maximal gamma
    entry exceeds that of any trained predictor `p` by at most `(1 − cw)/cw · (objective_p − objective_selected)`,
    in particular by at most `(1 − cw)/cw` -/
theorem selected_max_gamma_le (cw : Rat) (hcw : 0 < cw) (hcw1 : cw ≤ 1) (preds : List Pred) (i : Nat)
    (hi : argminFirst (preds.map (lossOf cw)) = some i)
    (hobj : ∀ p ∈ preds, 0 ≤ p.1 ∧ p.1 ≤ 1) :
    ∃ hi' : i < preds.length, ∀ p ∈ preds,
      preds[i].maxGamma ≤ p.maxGamma + (1 - cw) / cw * (p.1 - preds[i].1) ∧
      preds[i].maxGamma ≤ p.maxGamma + (1 - cw) / cw := by
  obtain ⟨hlen, h, _⟩ := selected_minimises_tradeoff cw preds i hi
  refine ⟨hlen, fun p hp => ?_⟩
  have hl := h p hp
  simp only [lossOf] at hl
  have h1 : preds[i].maxGamma ≤ p.maxGamma + (1 - cw) / cw * (p.1 - preds[i].1) := by
    have : cw * preds[i].maxGamma ≤ cw * p.maxGamma + (1 - cw) * (p.1 - preds[i].1) := by linarith
    have e : p.maxGamma + (1 - cw) / cw * (p.1 - preds[i].1)
        = (cw * p.maxGamma + (1 - cw) * (p.1 - preds[i].1)) / cw := by field_simp
    rw [e, le_div_iff₀ hcw]; linarith
  refine ⟨h1, le_trans h1 ?_⟩
  have hd : 0 ≤ (1 - cw) / cw := div_nonneg (by linarith) (le_of_lt hcw)
  have hb : p.1 - preds[i].1 ≤ 1 := by
    have a := (hobj p hp).2
    have b := (hobj preds[i] (List.getElem_mem hlen)).1
    linarith
  nlinarith

/-! ### tied to a moment: the gamma vectors are `Moments.gamma` of the trained predictors -/

open Moments Cross in
/-- the trained predictor `k` of a GridSearch over moment `(ev, rows, ratio, ut)`: objective `obj k`, gamma vector
    `Moments.gamma … (H k)` (needs a non-empty constraint index) -/
def momentPred (ev : Ev) (rows : List Row) (ratio : Rat) (ut : Util) (obj : Nat → Rat) (H : Nat → List Rat)
    (k : Nat) : Option Pred :=
  match gamma ev rows ratio ut (H k) with
  | [] => none
  | g :: gs => some (obj k, g, gs)

open Moments Cross in
/-- **GridSearch(constraint_weight = 1) selects a constraint-satisfying predictor whenever the grid contains one**:
    then every bound of C06X (`dp_difference_le_of_constraint`, `eodds_difference_le_of_constraint`, …) applies to
    the selected hard predictor `H i` -/
theorem grid_selected_gammaLe (ev : Ev) (rows : List Row) (ratio : Rat) (ut : Util) (obj : Nat → Rat)
    (H : Nat → List Rat) (n : Nat) (preds : List Pred) (i : Nat) (eps : Rat)
    (hp : ∀ k < n, ∃ hk : k < preds.length, momentPred ev rows ratio ut obj H k = some preds[k])
    (hn : preds.length = n)
    (hi : argminFirst (preds.map (lossOf 1)) = some i)
    (hk : ∃ k < n, GammaLe ev rows ratio ut (H k) eps) :
    i < n ∧ GammaLe ev rows ratio ut (H i) eps := by
  have hgam : ∀ k (hk : k < n) (hk' : k < preds.length), preds[k].gam = gamma ev rows ratio ut (H k) := by
    intro k hk hk'
    obtain ⟨_, h⟩ := hp k hk
    unfold momentPred at h
    split at h
    · cases h
    · next g gs heq =>
      injection h with h
      rw [← h, heq]; rfl
  obtain ⟨k, hkn, hkg⟩ := hk
  have hk' : k < preds.length := by omega
  obtain ⟨hlen, hsel⟩ := selected_satisfies_of_some_satisfies preds i eps hi
    ⟨preds[k], List.getElem_mem hk', by
      intro y hy
      rw [hgam k hkn hk'] at hy
      obtain ⟨key, hkey, rfl⟩ := List.mem_map.mp hy
      exact hkg key hkey⟩
  refine ⟨by omega, ?_⟩
  intro key hkey
  apply hsel
  rw [hgam i (by omega) hlen]
  exact List.mem_map.mpr ⟨key, hkey, rfl⟩

/-! ### non-vacuity -/

def xPreds : List Pred := [(1/10, 3/10, [-3/10]), (1/4, 1/20, [-1/20]), (2/5, 0, [0]), (1/4, 1/20, [-1/20])]

example : argminFirst (xPreds.map (lossOf 1)) = some 2 := by decide +kernel
example : argminFirst (xPreds.map (lossOf (1/2))) = some 1 := by decide +kernel
example : argminFirst (xPreds.map (lossOf 0)) = some 0 := by decide +kernel
example : ∃ p ∈ xPreds, ∀ y ∈ p.gam, y ≤ (1/20 : Rat) := ⟨(1/4, 1/20, [-1/20]), by decide +kernel, by decide +kernel⟩
example : ∀ p ∈ xPreds, (0 : Rat) ≤ p.1 ∧ p.1 ≤ 1 := by decide +kernel
example : momentPred (Moments.eventOf .dp) C06.xRows 1 Moments.defaultUtil (fun _ => 1/4) (fun _ => C06.xH) 0
    = some (1/4, 1/4, [-1/4, -1/4, 1/4]) := by decide +kernel

end C09
