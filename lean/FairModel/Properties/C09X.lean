/-
C09X — composition theorems C09 ↔ C06: what GridSearch's selection rule (`selection_rule="tradeoff_optimization"`)
guarantees about the SELECTED predictor.

`GridSearch.fit` computes for every trained predictor `k` the loss
`(1 − constraint_weight)·objective_k + constraint_weight·max(gamma(h_k))` (`Grid.tradeoff`; note: the maximum of
the raw gamma entries, the bound is NOT subtracted) and returns the first index of the minimum
(`Grid.argminFirst`).  A trained predictor is `(objective, gamma_0, other gamma entries)`, gamma non-empty.
-/
import FairModel.Properties.C09
import FairModel.Properties.C06X
import FairModel.Properties.C07

namespace C09
open Grid

/-- one trained predictor: objective value and its (non-empty) gamma vector -/
abbrev Pred := Rat × Rat × List Rat

def Pred.gam (p : Pred) : List Rat := p.2.1 :: p.2.2
def Pred.maxGamma (p : Pred) : Rat := maxL p.2.1 p.2.2
def lossOf (cw : Rat) (p : Pred) : Rat := (1 - cw) * p.1 + cw * p.maxGamma

/-- `lossOf` is `Grid.tradeoff` (the model of `loss_fct`) on that predictor, and the list `fit` minimises over is
    the one the driver op `grid.select` builds -/
theorem lossOf_eq_tradeoff (cw : Rat) (preds : List Pred) :
    (∀ p : Pred, tradeoff cw p.1 p.gam = some (lossOf cw p)) ∧
    allSome (List.zipWith (tradeoff cw) (preds.map (·.1)) (preds.map Pred.gam)) = some (preds.map (lossOf cw)) := by
  refine ⟨fun p => rfl, ?_⟩
  induction preds with
  | nil => rfl
  | cons p ps ih =>
    simp only [List.map_cons, List.zipWith_cons_cons]
    have : tradeoff cw p.1 p.gam = some (lossOf cw p) := rfl
    rw [this]
    simp only [allSome, ih, Option.map_some]

/-- every gamma entry is at most the predictor's `max(gamma)`, and the maximum is one of the entries -/
theorem maxGamma_spec (p : Pred) : p.maxGamma ∈ p.gam ∧ ∀ y ∈ p.gam, y ≤ p.maxGamma :=
  maxL_spec p.2.1 p.2.2

/-- **the selected predictor minimises the trade-off**: its loss is at most that of every trained predictor
    (and strictly smaller than that of every earlier one) -/
theorem selected_minimises_tradeoff (cw : Rat) (preds : List Pred) (i : Nat)
    (hi : argminFirst (preds.map (lossOf cw)) = some i) :
    ∃ hi' : i < preds.length, (∀ p ∈ preds, lossOf cw preds[i] ≤ lossOf cw p) ∧
      ∀ (j : Nat) (hj : j < i), lossOf cw preds[i] < lossOf cw (preds[j]'(by omega)) := by
  obtain ⟨h1, h2, h3⟩ := argminFirst_spec _ i hi
  have hlen : i < preds.length := by simpa using h1
  refine ⟨hlen, ?_, ?_⟩
  · intro p hp
    have := h2 (lossOf cw p) (List.mem_map.mpr ⟨p, hp, rfl⟩)
    simpa using this
  · intro j hj
    have := h3 j hj
    simpa using this

/-- **constraint_weight = 1: the selected predictor has the smallest maximal gamma entry** among the trained ones -/
theorem selected_min_max_gamma (preds : List Pred) (i : Nat)
    (hi : argminFirst (preds.map (lossOf 1)) = some i) :
    ∃ hi' : i < preds.length, ∀ p ∈ preds, preds[i].maxGamma ≤ p.maxGamma := by
  obtain ⟨hlen, h, _⟩ := selected_minimises_tradeoff 1 preds i hi
  refine ⟨hlen, fun p hp => ?_⟩
  have := h p hp
  simp only [lossOf] at this
  linarith

/-- … hence if SOME trained predictor satisfies `gamma ≤ eps` entrywise, so does the selected one -/
theorem selected_satisfies_of_some_satisfies (preds : List Pred) (i : Nat) (eps : Rat)
    (hi : argminFirst (preds.map (lossOf 1)) = some i)
    (hk : ∃ p ∈ preds, ∀ y ∈ p.gam, y ≤ eps) :
    ∃ hi' : i < preds.length, ∀ y ∈ preds[i].gam, y ≤ eps := by
  obtain ⟨hlen, h⟩ := selected_min_max_gamma preds i hi
  obtain ⟨p, hp, hpe⟩ := hk
  refine ⟨hlen, fun y hy => ?_⟩
  have h1 := (maxGamma_spec preds[i]).2 y hy
  have h2 := h p hp
  have h3 := hpe _ (maxGamma_spec p).1
  linarith

/-- general `constraint_weight ∈ (0, 1]`, objectives in [0,1] (error rates): the selected predictor's maximal gamma
    entry exceeds that of any trained predictor `p` by at most `(1 − cw)/cw · (objective_p − objective_selected)`,
    in particular by at most `(1 − cw)/cw` -/
theorem selected_max_gamma_le (cw : Rat) (hcw : 0 < cw) (hcw1 : cw ≤ 1) (preds : List Pred) (i : Nat)
    (hi : argminFirst (preds.map (lossOf cw)) = some i)
    (hobj : ∀ p ∈ preds, 0 ≤ p.1 ∧ p.1 ≤ 1) :
    ∃ hi' : i < preds.length, ∀ p ∈ preds,
      preds[i].maxGamma ≤ p.maxGamma + (1 - cw) / cw * (p.1 - preds[i].1) ∧
      preds[i].maxGamma ≤ p.maxGamma + (1 - cw) / cw := by
  obtain ⟨hlen, h, _⟩ := selected_minimises_tradeoff cw preds i hi
  refine ⟨hlen, fun p hp => ?_⟩
  have hl := h p hp
  simp only [lossOf] at hl
  have h1 : preds[i].maxGamma ≤ p.maxGamma + (1 - cw) / cw * (p.1 - preds[i].1) := by
    have : cw * preds[i].maxGamma ≤ cw * p.maxGamma + (1 - cw) * (p.1 - preds[i].1) := by linarith
    have e : p.maxGamma + (1 - cw) / cw * (p.1 - preds[i].1)
        = (cw * p.maxGamma + (1 - cw) * (p.1 - preds[i].1)) / cw := by field_simp
    rw [e, le_div_iff₀ hcw]; linarith
  refine ⟨h1, le_trans h1 ?_⟩
  have hd : 0 ≤ (1 - cw) / cw := div_nonneg (by linarith) (le_of_lt hcw)
  have hb : p.1 - preds[i].1 ≤ 1 := by
    have a := (hobj p hp).2
    have b := (hobj preds[i] (List.getElem_mem hlen)).1
    linarith
  nlinarith

/-! ### tied to a moment: the gamma vectors are `Moments.gamma` of the trained predictors -/

open Moments Cross in
/-- the trained predictor `k` of a GridSearch over moment `(ev, rows, ratio, ut)`: objective `obj k`, gamma vector
    `Moments.gamma … (H k)` (needs a non-empty constraint index) -/
def momentPred (ev : Ev) (rows : List Row) (ratio : Rat) (ut : Util) (obj : Nat → Rat) (H : Nat → List Rat)
    (k : Nat) : Option Pred :=
  match gamma ev rows ratio ut (H k) with
  | [] => none
  | g :: gs => some (obj k, g, gs)

open Moments Cross in
/-- **GridSearch(constraint_weight = 1) selects a constraint-satisfying predictor whenever the grid contains one**:
    then every bound of C06X (`dp_difference_le_of_constraint`, `eodds_difference_le_of_constraint`, …) applies to
    the selected hard predictor `H i` -/
theorem grid_selected_gammaLe (ev : Ev) (rows : List Row) (ratio : Rat) (ut : Util) (obj : Nat → Rat)
    (H : Nat → List Rat) (n : Nat) (preds : List Pred) (i : Nat) (eps : Rat)
    (hp : ∀ k < n, ∃ hk : k < preds.length, momentPred ev rows ratio ut obj H k = some preds[k])
    (hn : preds.length = n)
    (hi : argminFirst (preds.map (lossOf 1)) = some i)
    (hk : ∃ k < n, GammaLe ev rows ratio ut (H k) eps) :
    i < n ∧ GammaLe ev rows ratio ut (H i) eps := by
  have hgam : ∀ k (hk : k < n) (hk' : k < preds.length), preds[k].gam = gamma ev rows ratio ut (H k) := by
    intro k hk hk'
    obtain ⟨_, h⟩ := hp k hk
    unfold momentPred at h
    split at h
    · cases h
    · next g gs heq =>
      injection h with h
      rw [← h, heq]; rfl
  obtain ⟨k, hkn, hkg⟩ := hk
  have hk' : k < preds.length := by omega
  obtain ⟨hlen, hsel⟩ := selected_satisfies_of_some_satisfies preds i eps hi
    ⟨preds[k], List.getElem_mem hk', by
      intro y hy
      rw [hgam k hkn hk'] at hy
      obtain ⟨key, hkey, rfl⟩ := List.mem_map.mp hy
      exact hkg key hkey⟩
  refine ⟨by omega, ?_⟩
  intro key hkey
  apply hsel
  rw [hgam i (by omega) hlen]
  exact List.mem_map.mpr ⟨key, hkey, rfl⟩

/-! ### non-vacuity -/

def xPreds : List Pred := [(1/10, 3/10, [-3/10]), (1/4, 1/20, [-1/20]), (2/5, 0, [0]), (1/4, 1/20, [-1/20])]

example : argminFirst (xPreds.map (lossOf 1)) = some 2 := by decide +kernel
example : argminFirst (xPreds.map (lossOf (1/2))) = some 1 := by decide +kernel
example : argminFirst (xPreds.map (lossOf 0)) = some 0 := by decide +kernel
example : ∃ p ∈ xPreds, ∀ y ∈ p.gam, y ≤ (1/20 : Rat) := ⟨(1/4, 1/20, [-1/20]), by decide +kernel, by decide +kernel⟩
example : ∀ p ∈ xPreds, (0 : Rat) ≤ p.1 ∧ p.1 ≤ 1 := by decide +kernel
example : momentPred (Moments.eventOf .dp) C06.xRows 1 Moments.defaultUtil (fun _ => 1/4) (fun _ => C06.xH) 0
    = some (1/4, 1/4, [-1/4, -1/4, 1/4]) := by decide +kernel

/-! ## Work package L3: GridSearch END TO END — from the output of `Grid.select` / `Grid.fitLoop` to the named metric

`fit_spec` (C09) describes `best_idx_`; C06X turns "gamma ≤ eps" into bounds on the user-facing metric.  The theorems
below compose them into ONE statement about the value `fitLoop` returns, for any `constraint_weight ∈ (0, 1]`. -/

/-- what `Grid.select` sees of one record with a non-empty gamma vector -/
theorem tradeoff_cons (cw obj g : Rat) (gs : List Rat) :
    tradeoff cw obj (g :: gs) = some ((1 - cw) * obj + cw * maxL g gs) := rfl

/-- **`Grid.select`, any `constraint_weight ∈ (0,1]`, objectives in [0,1]**: if SOME record has all gamma entries
    `≤ eps`, every gamma entry of the SELECTED record is `≤ eps + (1 − cw)/cw` (`= eps` for `cw = 1`) -/
theorem select_gamma_le (cw : Rat) (hcw : 0 < cw) (hcw1 : cw ≤ 1) (recs : List (Rat × List Rat)) (i : Nat)
    (h : select cw recs = some i) (hobj : ∀ r ∈ recs, 0 ≤ r.1 ∧ r.1 ≤ 1) (eps : Rat)
    (hk : ∃ r ∈ recs, ∀ y ∈ r.2, y ≤ eps) :
    ∃ hi : i < recs.length, ∀ y ∈ recs[i].2, y ≤ eps + (1 - cw) / cw := by
  obtain ⟨losses, hmap, hi, hmin, _⟩ := select_spec cw recs i h
  have hlen : recs.length = losses.length := by
    have := congrArg List.length hmap; simpa using this
  have hrec : ∀ k (hk1 : k < recs.length) (hk2 : k < losses.length),
      ∃ g gs, recs[k].2 = g :: gs ∧ losses[k] = (1 - cw) * recs[k].1 + cw * maxL g gs := by
    intro k hk1 hk2
    have h1 : (recs.map (fun r => tradeoff cw r.1 r.2))[k]'(by simpa using hk1) = (losses.map some)[k]'(by simpa using hk2) := by
      simp only [hmap]
    simp only [List.getElem_map] at h1
    cases hg : recs[k].2 with
    | nil => rw [hg] at h1; simp [tradeoff] at h1
    | cons g gs =>
      rw [hg, tradeoff_cons] at h1
      exact ⟨g, gs, rfl, (Option.some.inj h1).symm⟩
  have hi' : i < recs.length := by omega
  refine ⟨hi', ?_⟩
  obtain ⟨r, hr, hre⟩ := hk
  obtain ⟨k, hk1, hkr⟩ := List.getElem_of_mem hr
  have hk2 : k < losses.length := by omega
  obtain ⟨g, gs, hg, hl⟩ := hrec k hk1 hk2
  obtain ⟨gi, gsi, hgi, hli⟩ := hrec i hi' hi
  have hle := hmin _ (List.getElem_mem hk2)
  rw [hl, hli] at hle
  have hMk : maxL g gs ≤ eps := by
    apply hre
    rw [← hkr, hg]
    exact (maxL_spec g gs).1
  have ho1 := (hobj _ (List.getElem_mem hk1)).2
  have ho2 := (hobj _ (List.getElem_mem hi')).1
  have hMi : maxL gi gsi ≤ eps + (1 - cw) / cw := by
    have e : eps + (1 - cw) / cw = (cw * eps + (1 - cw)) / cw := by field_simp
    rw [e, le_div_iff₀ hcw]
    have : cw * maxL g gs ≤ cw * eps := mul_le_mul_of_nonneg_left hMk (le_of_lt hcw)
    nlinarith
  intro y hy
  rw [hgi] at hy
  exact le_trans ((maxL_spec gi gsi).2 y hy) hMi

open Moments Cross in
theorem gammaLe_iff_mem (ev : Ev) (rows : List Row) (ratio : Rat) (ut : Util) (h : List Rat) (eps : Rat) :
    GammaLe ev rows ratio ut h eps ↔ ∀ y ∈ gamma ev rows ratio ut h, y ≤ eps := by
  unfold GammaLe gamma
  constructor
  · intro hg y hy
    obtain ⟨k, hk, rfl⟩ := List.mem_map.mp hy
    exact hg k hk
  · intro hy k hk
    exact hy _ (List.mem_map.mpr ⟨k, hk, rfl⟩)

theorem toRat_hard (p : List Nat) (hp : ∀ x ∈ p, x = 0 ∨ x = 1) : Moments.Hard (toRat p) := by
  induction p with
  | nil => intro x hx; simp at hx
  | cons a p ih =>
    intro x hx
    rw [toRat_cons] at hx
    rcases List.mem_cons.mp hx with rfl | hx'
    · rcases hp a (by simp) with rfl | rfl <;> simp
    · exact ih (fun y hy => hp y (by simp [hy])) x hx'

open Moments Cross in
/-- **GridSearch.fit, end to end (constraint level)**: run the loop of `GridSearch.fit` (`Grid.fitLoop`: any grid, any
    base learner, any objective with values in [0,1]) with `constraints.gamma` = the gamma of a `UtilityParity` moment
    `(ev, rows, ratio, ut)`.  If SOME trained predictor satisfies `gamma ≤ eps`, the predictor `predict` delegates to
    (`out.preds[out.best]`) satisfies `gamma ≤ eps + (1 − cw)/cw`; with `constraint_weight = 1`: `gamma ≤ eps` -/
theorem fit_selected_gammaLe (ev : Ev) (rows : List Row) (ratio : Rat) (ut : Util)
    (span : Bool) (cwOf : List Rat → List Rat) (ow : List Rat) (learner : List (Nat × Rat) → List Nat)
    (objOf : List Nat → Rat) (cw : Rat) (grid : List (List Rat)) (out : FitOut) (eps : Rat)
    (hcw : 0 < cw) (hcw1 : cw ≤ 1)
    (hfit : fitLoop span cwOf ow learner objOf (fun p => gamma ev rows ratio ut (toRat p)) cw grid = some out)
    (hobj : ∀ p ∈ out.preds, 0 ≤ objOf p ∧ objOf p ≤ 1)
    (hsome : ∃ p ∈ out.preds, GammaLe ev rows ratio ut (toRat p) eps) :
    ∃ hb : out.best < out.preds.length,
      GammaLe ev rows ratio ut (toRat out.preds[out.best]) (eps + (1 - cw) / cw) := by
  simp only [fitLoop, Option.map_eq_some_iff] at hfit
  obtain ⟨b, hsel, rfl⟩ := hfit
  simp only at hobj hsome ⊢
  set preds := grid.map (fun lam => trainAt learner (relabel (combineWeights span (cwOf lam) ow))) with hpreds
  obtain ⟨p, hp, hpe⟩ := hsome
  obtain ⟨hi, hle⟩ := select_gamma_le cw hcw hcw1 _ b hsel
    (by
      intro r hr
      obtain ⟨q, hq, rfl⟩ := List.mem_map.mp hr
      exact hobj q hq)
    eps ⟨_, List.mem_map.mpr ⟨p, hp, rfl⟩, (gammaLe_iff_mem ev rows ratio ut _ eps).mp hpe⟩
  have hb : b < preds.length := by simpa using hi
  refine ⟨hb, (gammaLe_iff_mem ev rows ratio ut _ _).mpr ?_⟩
  simpa using hle

open Moments Cross Fairness in
/-- **GridSearch(DemographicParity) end to end**: the demographic-parity difference (as `fairlearn.metrics` reports
    it, on the rows of event `e`: all rows / one control stratum) of the predictor GridSearch RETURNS is at most
    `eps + (1 − cw)/cw` to the overall rate and twice that between groups, as soon as some grid point yields a
    predictor satisfying the constraint with slack `eps` -/
theorem gridsearch_dp_end_to_end (ev : Ev) (rows : List Row) (e : String)
    (span : Bool) (cwOf : List Rat → List Rat) (ow : List Rat) (learner : List (Nat × Rat) → List Nat)
    (objOf : List Nat → Rat) (cw : Rat) (grid : List (List Rat)) (out : FitOut) (eps : Rat)
    (hcw : 0 < cw) (hcw1 : cw ≤ 1)
    (hfit : fitLoop span cwOf ow learner objOf (fun p => gamma ev rows 1 defaultUtil (toRat p)) cw grid = some out)
    (hobj : ∀ p ∈ out.preds, 0 ≤ objOf p ∧ objOf p ≤ 1)
    (hshape : ∀ p ∈ out.preds, p.length = rows.length ∧ ∀ x ∈ p, x = 0 ∨ x = 1)
    (hsome : ∃ p ∈ out.preds, GammaLe ev rows 1 defaultUtil (toRat p) eps)
    (hne : ∃ g, Observed ev rows e g) :
    ∃ hb : out.best < out.preds.length,
      (∃ D, named "demographic_parity_difference" .toOverall 1 (toFrame (inE ev e) rows (toRat out.preds[out.best]))
          = some (.value (XR.fin D)) ∧ 0 ≤ D ∧ D ≤ eps + (1 - cw) / cw) ∧
      (∃ D, named "demographic_parity_difference" .between 1 (toFrame (inE ev e) rows (toRat out.preds[out.best]))
          = some (.value (XR.fin D)) ∧ 0 ≤ D ∧ D ≤ 2 * (eps + (1 - cw) / cw)) := by
  obtain ⟨hb, hg⟩ := fit_selected_gammaLe ev rows 1 defaultUtil span cwOf ow learner objOf cw grid out eps hcw hcw1
    hfit hobj hsome
  obtain ⟨hl, h01⟩ := hshape _ (List.getElem_mem hb)
  exact ⟨hb, C06.dp_difference_le_of_constraint ev rows _ _ e (by simpa [toRat] using hl) (toRat_hard _ h01) hne hg⟩

open Moments Cross Fairness in
/-- **GridSearch(EqualizedOdds) end to end**, real event rule, without (`c0 = none`) or within a control stratum:
    equalized_odds_difference (worst case) of the RETURNED predictor -/
theorem gridsearch_eo_end_to_end (rows : List Row) (c0 : Option String)
    (span : Bool) (cwOf : List Rat → List Rat) (ow : List Rat) (learner : List (Nat × Rat) → List Nat)
    (objOf : List Nat → Rat) (cw : Rat) (grid : List (List Rat)) (out : FitOut) (eps : Rat)
    (hcw : 0 < cw) (hcw1 : cw ≤ 1)
    (hfit : fitLoop span cwOf ow learner objOf (fun p => gamma (eventOf .eo) rows 1 defaultUtil (toRat p)) cw grid = some out)
    (hobj : ∀ p ∈ out.preds, 0 ≤ objOf p ∧ objOf p ≤ 1)
    (hshape : ∀ p ∈ out.preds, p.length = rows.length ∧ ∀ x ∈ p, x = 0 ∨ x = 1)
    (hsome : ∃ p ∈ out.preds, GammaLe (eventOf .eo) rows 1 defaultUtil (toRat p) eps)
    (hy : ∀ r ∈ rows, r.y = 0 ∨ r.y = 1) (hne : rows.filter (fun r => r.c == c0) ≠ [])
    (hcov1 : ∀ r ∈ rows, (r.c == c0) = true → ∃ r2 ∈ rows, (r2.c == c0) = true ∧ r2.g = r.g ∧ r2.y = 1)
    (hcov0 : ∀ r ∈ rows, (r.c == c0) = true → ∃ r2 ∈ rows, (r2.c == c0) = true ∧ r2.g = r.g ∧ r2.y = 0) :
    ∃ hb : out.best < out.preds.length,
      (∃ D, eodds "equalized_odds_difference" .toOverall .worstCase 1 (toFrame (fun r => r.c == c0) rows (toRat out.preds[out.best]))
          = some (.value (XR.fin D)) ∧ 0 ≤ D ∧ D ≤ eps + (1 - cw) / cw) ∧
      (∃ D, eodds "equalized_odds_difference" .between .worstCase 1 (toFrame (fun r => r.c == c0) rows (toRat out.preds[out.best]))
          = some (.value (XR.fin D)) ∧ 0 ≤ D ∧ D ≤ 2 * (eps + (1 - cw) / cw)) := by
  obtain ⟨hb, hg⟩ := fit_selected_gammaLe (eventOf .eo) rows 1 defaultUtil span cwOf ow learner objOf cw grid out eps
    hcw hcw1 hfit hobj hsome
  obtain ⟨hl, h01⟩ := hshape _ (List.getElem_mem hb)
  refine ⟨hb, ?_⟩
  exact C06.eodds_difference_le_of_constraint (eventOf .eo) rows _ _
    (C06.stratumEvent c0 (MomentsSrc.labelEvent 1)) (C06.stratumEvent c0 (MomentsSrc.labelEvent 0))
    (fun r => r.c == c0) (by simpa [toRat] using hl) (toRat_hard _ h01) hy hne
    (C06.eo_selects c0 1 (Or.inr rfl)) (C06.eo_selects c0 0 (Or.inl rfl)) hcov1 hcov0 hg

/-- `constraint_weight = 1`: the bound is `eps` itself -/
theorem slack_cw_one (eps : Rat) : eps + (1 - 1) / 1 = eps := by norm_num

/-! non-vacuity: a real `fitLoop` run (two grid points, learner = "predict the relabelled target") on 4 rows,
    DemographicParity; the second predictor is the constant 0 (gamma = 0), selected for `cw = 1` -/
def xFitRows : List Moments.Row := [⟨1, "a", none⟩, ⟨0, "a", none⟩, ⟨1, "b", none⟩, ⟨0, "b", none⟩]
def xFit : Option FitOut :=
  fitLoop false (fun lam => lam) [0, 0, 0, 0] (fun d => d.map (·.1)) (fun p => (p.map (fun x => if x = 1 then (1 : Rat) / 4 else 0)).sum)
    (fun p => Moments.gamma (Moments.eventOf .dp) xFitRows 1 Moments.defaultUtil (toRat p)) 1
    [[1, 1, -1, -1], [-1, -1, -1, 1/2]]

example : xFit.map (fun o => (o.preds, o.best)) = some ([[1, 1, 0, 0], [0, 0, 0, 1]], 1) := by decide +kernel
example : xFit.map (fun o => o.gammas) = some [[1/2, -1/2, -1/2, 1/2], [-1/4, 1/4, 1/4, -1/4]] := by decide +kernel

open Moments Cross Fairness in
/-- every hypothesis of `gridsearch_dp_end_to_end` is met by that run (`cw = 1`, `eps = 1/4`), and the bound is attained:
    the returned predictor `[0,0,0,1]` has demographic-parity difference exactly 1/4 to the overall rate -/
example (out : FitOut) (h : xFit = some out) :
    ∃ _ : out.best < out.preds.length,
      (∃ D, named "demographic_parity_difference" .toOverall 1
          (toFrame (inE (eventOf .dp) "all") xFitRows (toRat out.preds[out.best])) = some (.value (XR.fin D)) ∧
        0 ≤ D ∧ D ≤ 1/4 + (1 - 1) / 1) ∧
      (∃ D, named "demographic_parity_difference" .between 1
          (toFrame (inE (eventOf .dp) "all") xFitRows (toRat out.preds[out.best])) = some (.value (XR.fin D)) ∧
        0 ≤ D ∧ D ≤ 2 * (1/4 + (1 - 1) / 1)) := by
  have hp : out.preds = [[1, 1, 0, 0], [0, 0, 0, 1]] := by
    have : xFit.map (·.preds) = some [[1, 1, 0, 0], [0, 0, 0, 1]] := by decide +kernel
    rw [h] at this; simpa using this
  apply gridsearch_dp_end_to_end (eventOf .dp) xFitRows "all" false (fun lam => lam) [0, 0, 0, 0] (fun d => d.map (·.1))
    (fun p => (p.map (fun x => if x = 1 then (1 : Rat) / 4 else 0)).sum) 1 [[1, 1, -1, -1], [-1, -1, -1, 1/2]] out (1/4)
    (by norm_num) (le_refl _) h
  · rw [hp]; decide +kernel
  · rw [hp]; decide +kernel
  · rw [hp]; exact ⟨[0, 0, 0, 1], by simp, by decide +kernel⟩
  · exact ⟨"a", ⟨1, "a", none⟩, by decide +kernel, by decide +kernel, rfl⟩
open Moments Cross Fairness in
example : named "demographic_parity_difference" .toOverall 1
    (toFrame (inE (eventOf .dp) "all") xFitRows (toRat [0, 0, 0, 1])) = some (.value (XR.fin (1/4))) := by decide +kernel

open Moments Cross Fairness in
/-- **GridSearch(TruePositiveRateParity) end to end**, real event rule, with or without control features:
    equal_opportunity_difference of the RETURNED predictor -/
theorem gridsearch_tpr_end_to_end (rows : List Row) (c0 : Option String)
    (span : Bool) (cwOf : List Rat → List Rat) (ow : List Rat) (learner : List (Nat × Rat) → List Nat)
    (objOf : List Nat → Rat) (cw : Rat) (grid : List (List Rat)) (out : FitOut) (eps : Rat)
    (hcw : 0 < cw) (hcw1 : cw ≤ 1)
    (hfit : fitLoop span cwOf ow learner objOf (fun p => gamma (eventOf .tpr) rows 1 defaultUtil (toRat p)) cw grid = some out)
    (hobj : ∀ p ∈ out.preds, 0 ≤ objOf p ∧ objOf p ≤ 1)
    (hshape : ∀ p ∈ out.preds, p.length = rows.length ∧ ∀ x ∈ p, x = 0 ∨ x = 1)
    (hsome : ∃ p ∈ out.preds, GammaLe (eventOf .tpr) rows 1 defaultUtil (toRat p) eps)
    (hy : ∀ r ∈ rows, r.y = 0 ∨ r.y = 1) (hne : rows.filter (fun r => r.c == c0) ≠ [])
    (hcov : ∀ r ∈ rows, (r.c == c0) = true → ∃ r2 ∈ rows, (r2.c == c0) = true ∧ r2.g = r.g ∧ r2.y = 1) :
    ∃ hb : out.best < out.preds.length,
      (∃ D, named "equal_opportunity_difference" .toOverall 1 (toFrame (fun r => r.c == c0) rows (toRat out.preds[out.best]))
          = some (.value (XR.fin D)) ∧ 0 ≤ D ∧ D ≤ eps + (1 - cw) / cw) ∧
      (∃ D, named "equal_opportunity_difference" .between 1 (toFrame (fun r => r.c == c0) rows (toRat out.preds[out.best]))
          = some (.value (XR.fin D)) ∧ 0 ≤ D ∧ D ≤ 2 * (eps + (1 - cw) / cw)) := by
  obtain ⟨hb, hg⟩ := fit_selected_gammaLe (eventOf .tpr) rows 1 defaultUtil span cwOf ow learner objOf cw grid out eps
    hcw hcw1 hfit hobj hsome
  obtain ⟨hl, h01⟩ := hshape _ (List.getElem_mem hb)
  exact ⟨hb, C06.eopp_difference_le_of_constraint (eventOf .tpr) rows _ _
    (C06.stratumEvent c0 (MomentsSrc.labelEvent 1)) (fun r => r.c == c0) (by simpa [toRat] using hl) (toRat_hard _ h01)
    hy hne (C06.tpr_selects c0) hcov hg⟩

open Moments Cross Fairness in
/-- **GridSearch(ErrorRateParity) end to end**: `accuracy_score_difference` (and, by
    `C03.accuracy_difference_eq_zero_one_difference`, `zero_one_loss_difference`) of the RETURNED predictor -/
theorem gridsearch_erp_end_to_end (rows : List Row) (c0 : Option String)
    (span : Bool) (cwOf : List Rat → List Rat) (ow : List Rat) (learner : List (Nat × Rat) → List Nat)
    (objOf : List Nat → Rat) (cw : Rat) (grid : List (List Rat)) (out : FitOut) (eps : Rat)
    (hcw : 0 < cw) (hcw1 : cw ≤ 1)
    (hfit : fitLoop span cwOf ow learner objOf (fun p => gamma (eventOf .erp) rows 1 erpUtil (toRat p)) cw grid = some out)
    (hobj : ∀ p ∈ out.preds, 0 ≤ objOf p ∧ objOf p ≤ 1)
    (hshape : ∀ p ∈ out.preds, p.length = rows.length ∧ ∀ x ∈ p, x = 0 ∨ x = 1)
    (hsome : ∃ p ∈ out.preds, GammaLe (eventOf .erp) rows 1 erpUtil (toRat p) eps)
    (hy : ∀ r ∈ rows, r.y = 0 ∨ r.y = 1) (hne : rows.filter (fun r => r.c == c0) ≠ []) :
    ∃ hb : out.best < out.preds.length,
      (∃ D, generated "accuracy_score_difference" .toOverall 1 (toFrame (fun r => r.c == c0) rows (toRat out.preds[out.best]))
          = some (some (.value (XR.fin D))) ∧ 0 ≤ D ∧ D ≤ eps + (1 - cw) / cw) ∧
      (∃ D, generated "accuracy_score_difference" .between 1 (toFrame (fun r => r.c == c0) rows (toRat out.preds[out.best]))
          = some (some (.value (XR.fin D))) ∧ 0 ≤ D ∧ D ≤ 2 * (eps + (1 - cw) / cw)) := by
  obtain ⟨hb, hg⟩ := fit_selected_gammaLe (eventOf .erp) rows 1 erpUtil span cwOf ow learner objOf cw grid out eps
    hcw hcw1 hfit hobj hsome
  obtain ⟨hl, h01⟩ := hshape _ (List.getElem_mem hb)
  exact ⟨hb, (C06.erp_constraint_bounds rows _ _ c0 (by simpa [toRat] using hl) (toRat_hard _ h01) hy hne hg).1⟩

open Moments Cross Fairness in
/-- **GridSearch(DemographicParity(ratio_bound = r, ratio_bound_slack = eps)) end to end**: lower bounds on
    `demographic_parity_ratio` of the RETURNED predictor, with `eps' = eps + (1 − cw)/cw` and `μ` its overall selection
    rate on the event's rows -/
theorem gridsearch_dp_ratio_end_to_end (ev : Ev) (rows : List Row) (e : String) (ratio : Rat)
    (span : Bool) (cwOf : List Rat → List Rat) (ow : List Rat) (learner : List (Nat × Rat) → List Nat)
    (objOf : List Nat → Rat) (cw : Rat) (grid : List (List Rat)) (out : FitOut) (eps : Rat)
    (hcw : 0 < cw) (hcw1 : cw ≤ 1) (hr : 0 < ratio) (hr1 : ratio ≤ 1) (he : 0 ≤ eps)
    (hfit : fitLoop span cwOf ow learner objOf (fun p => gamma ev rows ratio defaultUtil (toRat p)) cw grid = some out)
    (hobj : ∀ p ∈ out.preds, 0 ≤ objOf p ∧ objOf p ≤ 1)
    (hshape : ∀ p ∈ out.preds, p.length = rows.length ∧ ∀ x ∈ p, x = 0 ∨ x = 1)
    (hsome : ∃ p ∈ out.preds, GammaLe ev rows ratio defaultUtil (toRat p) eps)
    (hne : ∃ g, Observed ev rows e g)
    (hm : ∀ p ∈ out.preds, 0 < mE ev rows defaultUtil (toRat p) e) :
    ∃ hb : out.best < out.preds.length,
      (∃ ρ, named "demographic_parity_ratio" .between 1 (toFrame (inE ev e) rows (toRat out.preds[out.best])) = some (.value (XR.fin ρ)) ∧
        ratio * (ratio * mE ev rows defaultUtil (toRat out.preds[out.best]) e - (eps + (1 - cw) / cw))
          / (mE ev rows defaultUtil (toRat out.preds[out.best]) e + (eps + (1 - cw) / cw)) ≤ ρ) ∧
      (∃ ρ, named "demographic_parity_ratio" .toOverall 1 (toFrame (inE ev e) rows (toRat out.preds[out.best])) = some (.value (XR.fin ρ)) ∧
        (ratio * mE ev rows defaultUtil (toRat out.preds[out.best]) e - (eps + (1 - cw) / cw))
          / mE ev rows defaultUtil (toRat out.preds[out.best]) e ≤ ρ) := by
  obtain ⟨hb, hg⟩ := fit_selected_gammaLe ev rows ratio defaultUtil span cwOf ow learner objOf cw grid out eps
    hcw hcw1 hfit hobj hsome
  obtain ⟨hl, h01⟩ := hshape _ (List.getElem_mem hb)
  have he' : 0 ≤ eps + (1 - cw) / cw := add_nonneg he (div_nonneg (by linarith) (le_of_lt hcw))
  exact ⟨hb, C06.dp_ratio_ge_of_constraint ev rows _ ratio _ e (by simpa [toRat] using hl) (toRat_hard _ h01) hne hr hr1 he'
    (hm _ (List.getElem_mem hb)) hg⟩

/-! all-hypotheses examples for the three corollaries: the run `xFit` with the gamma of the respective moment -/
def xFitWith (gam : List Nat → List Rat) : Option FitOut :=
  fitLoop false (fun lam => lam) [0, 0, 0, 0] (fun d => d.map (·.1)) (fun p => (p.map (fun x => if x = 1 then (1 : Rat) / 4 else 0)).sum)
    gam 1 [[1, 1, -1, -1], [-1, -1, -1, 1/2]]

theorem xFitWith_preds (gam : List Nat → List Rat) (out : FitOut) (h : xFitWith gam = some out) :
    out.preds = [[1, 1, 0, 0], [0, 0, 0, 1]] := by
  simp only [xFitWith, fitLoop, Option.map_eq_some_iff] at h
  obtain ⟨b, _, rfl⟩ := h
  show List.map (fun lam => trainAt (fun d => List.map (fun x => x.1) d) (relabel (combineWeights false lam [0, 0, 0, 0])))
      [[1, 1, -1, -1], [-1, -1, -1, 1 / 2]] = [[1, 1, 0, 0], [0, 0, 0, 1]]
  decide +kernel

open Moments Cross Fairness in
example (out : FitOut)
    (h : xFitWith (fun p => gamma (eventOf .tpr) xFitRows 1 defaultUtil (toRat p)) = some out) :
    ∃ _ : out.best < out.preds.length,
      (∃ D, named "equal_opportunity_difference" .toOverall 1 (toFrame (fun r => r.c == none) xFitRows (toRat out.preds[out.best]))
          = some (.value (XR.fin D)) ∧ 0 ≤ D ∧ D ≤ 0 + (1 - 1) / 1) ∧
      (∃ D, named "equal_opportunity_difference" .between 1 (toFrame (fun r => r.c == none) xFitRows (toRat out.preds[out.best]))
          = some (.value (XR.fin D)) ∧ 0 ≤ D ∧ D ≤ 2 * (0 + (1 - 1) / 1)) := by
  have hp := xFitWith_preds _ out h
  apply gridsearch_tpr_end_to_end xFitRows none false (fun lam => lam) [0, 0, 0, 0] (fun d => d.map (·.1))
    (fun p => (p.map (fun x => if x = 1 then (1 : Rat) / 4 else 0)).sum) 1 [[1, 1, -1, -1], [-1, -1, -1, 1/2]] out 0
    (by norm_num) (le_refl _) h
  · rw [hp]; decide +kernel
  · rw [hp]; decide +kernel
  · rw [hp]; exact ⟨[0, 0, 0, 1], by simp, by decide +kernel⟩
  · decide +kernel
  · decide +kernel
  · decide +kernel

open Moments Cross Fairness in
example (out : FitOut)
    (h : xFitWith (fun p => gamma (eventOf .erp) xFitRows 1 erpUtil (toRat p)) = some out) :
    ∃ _ : out.best < out.preds.length,
      (∃ D, generated "accuracy_score_difference" .toOverall 1 (toFrame (fun r => r.c == none) xFitRows (toRat out.preds[out.best]))
          = some (some (.value (XR.fin D))) ∧ 0 ≤ D ∧ D ≤ 0 + (1 - 1) / 1) ∧
      (∃ D, generated "accuracy_score_difference" .between 1 (toFrame (fun r => r.c == none) xFitRows (toRat out.preds[out.best]))
          = some (some (.value (XR.fin D))) ∧ 0 ≤ D ∧ D ≤ 2 * (0 + (1 - 1) / 1)) := by
  have hp := xFitWith_preds _ out h
  apply gridsearch_erp_end_to_end xFitRows none false (fun lam => lam) [0, 0, 0, 0] (fun d => d.map (·.1))
    (fun p => (p.map (fun x => if x = 1 then (1 : Rat) / 4 else 0)).sum) 1 [[1, 1, -1, -1], [-1, -1, -1, 1/2]] out 0
    (by norm_num) (le_refl _) h
  · rw [hp]; decide +kernel
  · rw [hp]; decide +kernel
  · rw [hp]; exact ⟨[1, 1, 0, 0], by simp, by decide +kernel⟩
  · decide +kernel
  · decide +kernel

open Moments Cross Fairness in
example (out : FitOut)
    (h : xFitWith (fun p => gamma (eventOf .dp) xFitRows (1/2) defaultUtil (toRat p)) = some out) :
    ∃ _ : out.best < out.preds.length,
      (∃ ρ, named "demographic_parity_ratio" .between 1 (toFrame (inE (eventOf .dp) "all") xFitRows (toRat out.preds[out.best])) = some (.value (XR.fin ρ)) ∧
        (1/2) * ((1/2) * mE (eventOf .dp) xFitRows defaultUtil (toRat out.preds[out.best]) "all" - (1/8 + (1 - 1) / 1))
          / (mE (eventOf .dp) xFitRows defaultUtil (toRat out.preds[out.best]) "all" + (1/8 + (1 - 1) / 1)) ≤ ρ) ∧
      (∃ ρ, named "demographic_parity_ratio" .toOverall 1 (toFrame (inE (eventOf .dp) "all") xFitRows (toRat out.preds[out.best])) = some (.value (XR.fin ρ)) ∧
        ((1/2) * mE (eventOf .dp) xFitRows defaultUtil (toRat out.preds[out.best]) "all" - (1/8 + (1 - 1) / 1))
          / mE (eventOf .dp) xFitRows defaultUtil (toRat out.preds[out.best]) "all" ≤ ρ) := by
  have hp := xFitWith_preds _ out h
  apply gridsearch_dp_ratio_end_to_end (eventOf .dp) xFitRows "all" (1/2) false (fun lam => lam) [0, 0, 0, 0] (fun d => d.map (·.1))
    (fun p => (p.map (fun x => if x = 1 then (1 : Rat) / 4 else 0)).sum) 1 [[1, 1, -1, -1], [-1, -1, -1, 1/2]] out (1/8)
    (by norm_num) (le_refl _) (by norm_num) (by norm_num) (by norm_num) h
  · rw [hp]; decide +kernel
  · rw [hp]; decide +kernel
  · rw [hp]; exact ⟨[0, 0, 0, 1], by simp, by decide +kernel⟩
  · exact ⟨"a", ⟨1, "a", none⟩, by decide +kernel, by decide +kernel, rfl⟩
  · rw [hp]; decide +kernel

/-! ## Review R3: clause (b) for the REAL Lagrangian (composition C09 ↔ C07)

`fit_predictor_minimises_lagrangian` (C09) is stated for an abstract `F`.  Here `F` is `Oracle.lagr` = the ErrorRate
objective (costs `fp`, `fn`) + `λ·γ` of a `UtilityParity` moment `(ev, rows, ratio, ut)` (all five parity moments), the
constraint weights are `Moments.signedWeights` and the objective weights `ErrorRate.signed_weights()`: the SAME
functions C07's reduction identity is about.  `Grid.lagr_affine` (from `Oracle.dot_totalW`) provides the affine form on
0/1 labelings, `Grid.combineWeights_totalW` identifies GridSearch's combined weights with C07's total weights. -/

/-- the data `GridSearch.fit` hands to the estimator at multiplier vector `lam` (objective not in the span):
    `weights = constraints.signed_weights(lam) + objective.signed_weights()`, then the lifted relabelling -/
def gridData (ev : Moments.Ev) (rows : List Moments.Row) (ratio : Rat) (ut : Moments.Util) (fp fn : Rat)
    (lam : List Rat) : List (Nat × Rat) :=
  relabel (combineWeights false (Moments.signedWeights ev rows ratio ut lam)
    (Moments.errWeights fp fn (Moments.labelsOf rows) none))

/-- **one grid point**: the estimator trained on the data relabelled / reweighted for `lam` (an exact cost-sensitive
    learner over the class `H` of 0/1 labelings, or the constant DummyClassifier when the relabelled data has a single
    label) minimises the REAL `error + λ·γ` over `H` -/
theorem fit_predictor_minimises_real_lagrangian (ev : Moments.Ev) (rows : List Moments.Row) (ratio : Rat)
    (ut : Moments.Util) (fp fn : Rat) (lam : List Rat) (learner : List (Nat × Rat) → List Nat) (H : List Nat → Prop)
    (hne : rows ≠ []) (hy : Moments.Hard (Moments.labelsOf rows))
    (hH : ∀ h', H h' → h'.length = rows.length ∧ ∀ x ∈ h', x = 0 ∨ x = 1)
    (hex : ∀ h', H h' →
      weighted01 (gridData ev rows ratio ut fp fn lam) (learner (gridData ev rows ratio ut fp fn lam)) ≤
        weighted01 (gridData ev rows ratio ut fp fn lam) h')
    (hshape : (learner (gridData ev rows ratio ut fp fn lam)).length = rows.length ∧
      ∀ x ∈ learner (gridData ev rows ratio ut fp fn lam), x = 0 ∨ x = 1) :
    ∀ h', H h' →
      Oracle.lagr ev rows ratio ut fp fn lam (toRat (trainAt learner (gridData ev rows ratio ut fp fn lam)))
        ≤ Oracle.lagr ev rows ratio ut fp fn lam (toRat h') := by
  unfold gridData at hex hshape ⊢
  rw [combineWeights_totalW] at hex hshape ⊢
  have hwl := Oracle.totalW_length ev rows ratio ut fp fn lam
  have hn : (0 : Rat) < 1 / (rows.length : Rat) := by
    have := List.length_pos_of_ne_nil hne
    have h' : (0 : Rat) < (rows.length : Rat) := by exact_mod_cast this
    positivity
  exact fit_predictor_minimises_lagrangian_hard learner H (Oracle.totalW ev rows ratio ut fp fn lam)
    (Oracle.lagr ev rows ratio ut fp fn lam (List.replicate rows.length 0)) (1 / (rows.length : Rat)) hn
    (fun h => Oracle.lagr ev rows ratio ut fp fn lam (toRat h))
    (fun h hl hb => lagr_affine ev rows ratio ut fp fn lam h hne (by rw [← hl, hwl]) hy hb)
    hex (by rw [hwl]; exact hshape) (fun h' hh' => ⟨by rw [hwl]; exact (hH h' hh').1.symm, (hH h' hh').2⟩)

/-- **CLAUSE (b) + (c) FOR THE WHOLE LOOP, real quantities**: run `GridSearch.fit`'s loop (`Grid.fitLoop`) with the
    signed weights of a parity moment and of the ErrorRate objective and a base learner that is exact over a class `H`
    of 0/1 labelings.  Then there is one predictor per grid point, each trained on the data relabelled / reweighted for
    ITS OWN multiplier vector, each minimises `error + λ·γ` for that vector over `H`, and `objectives_` / `gammas_` are
    the values of exactly those predictors. -/
theorem fit_trains_real_lagrangian_minimisers (ev : Moments.Ev) (rows : List Moments.Row) (ratio : Rat)
    (ut : Moments.Util) (fp fn : Rat) (learner : List (Nat × Rat) → List Nat)
    (objOf : List Nat → Rat) (gamOf : List Nat → List Rat) (cw : Rat) (grid : List (List Rat)) (out : FitOut)
    (H : List Nat → Prop) (hne : rows ≠ []) (hy : Moments.Hard (Moments.labelsOf rows))
    (hH : ∀ h', H h' → h'.length = rows.length ∧ ∀ x ∈ h', x = 0 ∨ x = 1)
    (hex : ∀ w h', H h' → weighted01 (relabel w) (learner (relabel w)) ≤ weighted01 (relabel w) h')
    (hshape : ∀ w, (learner (relabel w)).length = w.length ∧ ∀ x ∈ learner (relabel w), x = 0 ∨ x = 1)
    (hfit : fitLoop false (fun lam => Moments.signedWeights ev rows ratio ut lam)
      (Moments.errWeights fp fn (Moments.labelsOf rows) none) learner objOf gamOf cw grid = some out) :
    out.preds = grid.map (fun lam => trainAt learner (gridData ev rows ratio ut fp fn lam)) ∧
    out.objectives = out.preds.map objOf ∧ out.gammas = out.preds.map gamOf ∧
    ∀ lam ∈ grid, ∀ h', H h' →
      Oracle.lagr ev rows ratio ut fp fn lam (toRat (trainAt learner (gridData ev rows ratio ut fp fn lam)))
        ≤ Oracle.lagr ev rows ratio ut fp fn lam (toRat h') := by
  obtain ⟨hp, _, ho, hg, _⟩ := fit_spec false _ _ learner objOf gamOf cw grid out H hex hfit
  refine ⟨hp, ho, hg, ?_⟩
  intro lam _ h' hh'
  refine fit_predictor_minimises_real_lagrangian ev rows ratio ut fp fn lam learner H hne hy hH
    (fun h'' hh'' => hex _ h'' hh'') ?_ h' hh'
  have hs := hshape (combineWeights false (Moments.signedWeights ev rows ratio ut lam)
    (Moments.errWeights fp fn (Moments.labelsOf rows) none))
  rw [combineWeights_totalW, Oracle.totalW_length] at hs
  unfold gridData
  rw [combineWeights_totalW]
  exact hs

/-! non-vacuity: DemographicParity on the 4 rows `xFitRows` (2 groups), unit costs, the exact learner `xLearner`
    ("predict the relabelled target"), `H` = all 0/1 labelings of the 4 rows, two grid points; the first one trains a
    non-constant predictor -/
def xLagrFit : Option FitOut :=
  fitLoop false (fun lam => Moments.signedWeights (Moments.eventOf .dp) xFitRows 1 Moments.defaultUtil lam)
    (Moments.errWeights 1 1 (Moments.labelsOf xFitRows) none) xLearner
    (fun p => Moments.errGamma 1 1 (Moments.labelsOf xFitRows) (toRat p))
    (fun p => Moments.gamma (Moments.eventOf .dp) xFitRows 1 Moments.defaultUtil (toRat p)) (1/2)
    [[4, 0, 0, 0], [0, 0, 0, 0]]

example : xLagrFit.map (fun o => (o.preds, o.objectives, o.best)) = some ([[0, 0, 1, 1], [1, 0, 1, 0]], [1/2, 0], 1) := by
  decide +kernel

example (out : FitOut) (h : xLagrFit = some out) :
    ∀ lam ∈ [[4, 0, 0, 0], [0, 0, 0, (0 : Rat)]], ∀ h' : List Nat, (h'.length = 4 ∧ ∀ x ∈ h', x = 0 ∨ x = 1) →
      Oracle.lagr (Moments.eventOf .dp) xFitRows 1 Moments.defaultUtil 1 1 lam
          (toRat (trainAt xLearner (gridData (Moments.eventOf .dp) xFitRows 1 Moments.defaultUtil 1 1 lam)))
        ≤ Oracle.lagr (Moments.eventOf .dp) xFitRows 1 Moments.defaultUtil 1 1 lam (toRat h') :=
  (fit_trains_real_lagrangian_minimisers (Moments.eventOf .dp) xFitRows 1 Moments.defaultUtil 1 1 xLearner _ _ (1/2) _ out
    (fun h' => h'.length = 4 ∧ ∀ x ∈ h', x = 0 ∨ x = 1) (by decide) (by decide +kernel) (fun _ hh => hh)
    (fun w h' _ => xLearner_exact w h') xLearner_shape h).2.2.2

/-! ### clause (b), BoundedGroupLoss: the regression branch of the loop (`is_classification_reduction = False`)

`Grid.fitLoop` models the classification branch only.  For a loss moment the source passes `y` unchanged and the raw
weights `constraints.signed_weights(λ)` (objective in the span: nothing is added, nothing relabelled, no `abs`); that
column of `GridSearch.fit` is `Oracle.callGridLoss` (C07's model over `Generated/OracleSrc.lean`).  Composition with
`C07.loss_grid_identity`: a learner that minimises the weighted loss it is given minimises `λ·γ` over its class. -/

/-- **BoundedGroupLoss, one grid point**: the learner receives the labels unchanged and the weights
    `w = signed_weights(λ)` (or, when all labels coincide, a constant DummyClassifier is trained); a predictor `h` that
    minimises the weighted loss `Σ wᵢ·loss(yᵢ, hᵢ)` over a class `H` minimises `λ·γ(h)` over `H` (any loss of the
    moment, any rational λ; `rows ≠ []` is needed: for no rows both sides are 0 by `x/0 = 0`, and the source rejects
    empty data). -/
theorem bgl_grid_point_minimises_lambda_gamma (l : Moments.Loss) (rows : List Moments.LRow) (lam : List Rat)
    (hne : rows ≠ []) (H : List Rat → Prop) (h : List Rat)
    (hmin : ∀ h', H h' →
      Moments.dot (Moments.bglSignedWeights rows (some lam)) (Moments.lossOf l rows h)
        ≤ Moments.dot (Moments.bglSignedWeights rows (some lam)) (Moments.lossOf l rows h')) :
    (Oracle.callGridLoss rows lam = .fit (rows.map (·.y)) (Moments.bglSignedWeights rows (some lam)) ∨
      ∃ c, Oracle.callGridLoss rows lam = .dummy c (rows.map (·.y)) (Moments.bglSignedWeights rows (some lam)) ∧
        ∀ r ∈ rows, r.y = c) ∧
    ∀ h', H h' → Moments.dot lam (Moments.bglGamma l rows h) ≤ Moments.dot lam (Moments.bglGamma l rows h') := by
  refine ⟨(C07.loss_grid_identity l rows lam h hne).1, ?_⟩
  intro h' hh'
  have e := (C07.loss_grid_identity l rows lam h hne).2
  have e' := (C07.loss_grid_identity l rows lam h' hne).2
  have hn : (0 : Rat) < (rows.length : Rat) := by
    have := List.length_pos_of_ne_nil hne
    exact_mod_cast this
  have hm := hmin h' hh'
  rw [e, e'] at hm
  exact le_of_mul_le_mul_left hm hn

/-- all hypotheses at once: 3 rows, two groups, 0/1 loss, λ = (1, 2); the class {[1,0,0], [0,0,0], [1,1,1]}; the
    labeling [1,0,0] has weighted loss 3·(1/2) and is the minimiser -/
example : ∀ h', (h' = [1, 0, 0] ∨ h' = [0, 0, 0] ∨ h' = [1, 1, 1]) →
    Moments.dot [1, 2] (Moments.bglGamma Moments.Loss.zeroOne [⟨1, "a"⟩, ⟨0, "b"⟩, ⟨1/2, "b"⟩] [1, 0, 0])
      ≤ Moments.dot [1, 2] (Moments.bglGamma Moments.Loss.zeroOne [⟨1, "a"⟩, ⟨0, "b"⟩, ⟨1/2, "b"⟩] h') :=
  (bgl_grid_point_minimises_lambda_gamma Moments.Loss.zeroOne [⟨1, "a"⟩, ⟨0, "b"⟩, ⟨1/2, "b"⟩] [1, 2] (by decide)
    (fun h' => h' = [1, 0, 0] ∨ h' = [0, 0, 0] ∨ h' = [1, 1, 1]) [1, 0, 0]
    (by rintro _ (rfl | rfl | rfl) <;> decide +kernel)).2

/-- EqualizedOdds: all hypotheses of `gridsearch_eo_end_to_end` on the run `xFitWith` (both groups have both labels) -/
example (out : FitOut)
    (h : xFitWith (fun p => Moments.gamma (Moments.eventOf .eo) xFitRows 1 Moments.defaultUtil (toRat p)) = some out) :
    ∃ _ : out.best < out.preds.length,
      (∃ D, Fairness.eodds "equalized_odds_difference" .toOverall .worstCase 1
          (Cross.toFrame (fun r => r.c == none) xFitRows (toRat out.preds[out.best])) = some (.value (XR.fin D)) ∧
        0 ≤ D ∧ D ≤ 1/2 + (1 - 1) / 1) ∧
      (∃ D, Fairness.eodds "equalized_odds_difference" .between .worstCase 1
          (Cross.toFrame (fun r => r.c == none) xFitRows (toRat out.preds[out.best])) = some (.value (XR.fin D)) ∧
        0 ≤ D ∧ D ≤ 2 * (1/2 + (1 - 1) / 1)) := by
  have hp := xFitWith_preds _ out h
  apply gridsearch_eo_end_to_end xFitRows none false (fun lam => lam) [0, 0, 0, 0] (fun d => d.map (·.1))
    (fun p => (p.map (fun x => if x = 1 then (1 : Rat) / 4 else 0)).sum) 1 [[1, 1, -1, -1], [-1, -1, -1, 1/2]] out (1/2)
    (by norm_num) (le_refl _) h
  · rw [hp]; decide +kernel
  · rw [hp]; decide +kernel
  · rw [hp]; exact ⟨[1, 1, 0, 0], by simp, by decide +kernel⟩
  · decide +kernel
  · decide +kernel
  · decide +kernel
  · decide +kernel

end C09
