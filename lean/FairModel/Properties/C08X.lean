/-
C08X — composition theorems C08 ↔ C06 ↔ C03: from ExponentiatedGradient's certificate (`best_gap_`) to the
bound a user sees on the fairness metric of the returned randomised classifier.

`momentTable` instantiates the abstract hypothesis table of `Model/Saddle.lean` with a reduction moment of
`Model/Moments.lean`: hypothesis `i` is the prediction vector `H i` (the `i`-th stored predictor evaluated on
the training rows), its constraint column is `gamma(H i)` in `index` order, every bound is `eps`
(`UtilityParity.bound`).  Because gamma is affine (`C06.gamma_of_mixture`), `Saddle.gamQ` of a probability
vector `Q` is gamma of the EXPECTED prediction vector `Σ_t Q_t·H_t` of the randomised classifier.
Then `C08.saddle_violation` (every constraint exceeds its bound by at most `(1 + 2g)/B`) and C06X give the
user-facing bounds with slack `eps + (1 + 2g)/B`; with `B = 1/eps` as in the code (`EGGen.boundB`) that is
`eps·(2 + 2g)`.
-/
import FairModel.Properties.C08
import FairModel.Properties.C06X

namespace C08
open Saddle Finset Moments Cross

/-- the table `_Lagrangian` holds for a `UtilityParity` moment: `gam j i` = entry `j` (in `index` order) of
    `gamma(H i)`, bounds all `eps` -/
def momentTable (ev : Ev) (rows : List Row) (ratio : Rat) (ut : Util) (eps : Rat) (H : Nat → List Rat)
    (nH : Nat) (err : Nat → Rat) : Table :=
  { nH := nH, nC := (index ev rows).length, err := err,
    gam := fun j i => gammaAt ev rows ratio ut (H i) ((index ev rows).getD j ⟨.plus, "", ""⟩),
    c := fun _ => eps }

/-- `gamma(Q)` as the Lagrangian computes it (`gammas[Q.index].dot(Q)`) is gamma of the expected predictions -/
theorem gamQ_momentTable (ev : Ev) (rows : List Row) (ratio : Rat) (ut : Util) (eps : Rat) (H : Nat → List Rat)
    (nH : Nat) (err : Nat → Rat) (Q : Nat → Rat) (j : Nat)
    (hH : ∀ t < nH, (H t).length = rows.length) (hQ : ∑ t ∈ range nH, Q t = 1) :
    gamQ (momentTable ev rows ratio ut eps H nH err) Q j
      = gammaAt ev rows ratio ut (mixN rows.length Q H nH) ((index ev rows).getD j ⟨.plus, "", ""⟩) := by
  rw [C06.gamma_of_mixture ev rows ratio ut Q H nH _ hH hQ]
  unfold gamQ
  rw [sumTo_eq]
  rfl

/-- **certificate ⇒ constraint with enlarged slack**: if the duality gap of `(Q, λ̂)` over the class is at most `g`
    (what `best_gap_` certifies, `C08.gap_ge_true_gap`), some feasible mixture `Q'` exists, errors are in [0,1]
    (`C08.errQ_unit_interval`), then the expected predictions of the returned classifier satisfy the moment's
    constraint with slack `eps + (1 + 2g)/B` -/
theorem eg_constraint_of_certificate (ev : Ev) (rows : List Row) (ratio : Rat) (ut : Util) (eps : Rat)
    (H : Nat → List Rat) (nH : Nat) (err : Nat → Rat) (B g : Rat) (Q lam Q' : Nat → Rat)
    (hH : ∀ t < nH, (H t).length = rows.length) (hQ : ∑ t ∈ range nH, Q t = 1) (hB : 0 < B)
    (hgap : trueGap (momentTable ev rows ratio ut eps H nH err) B Q lam ≤ g)
    (hl : ∀ j < (index ev rows).length, 0 ≤ lam j)
    (hf : Feasible (momentTable ev rows ratio ut eps H nH err) Q')
    (he0 : 0 ≤ errQ (momentTable ev rows ratio ut eps H nH err) Q)
    (he1 : errQ (momentTable ev rows ratio ut eps H nH err) Q' ≤ 1) :
    GammaLe ev rows ratio ut (mixN rows.length Q H nH) (eps + (1 + 2 * g) / B) := by
  intro k hk
  obtain ⟨j, hj, hget⟩ := List.getElem_of_mem hk
  have hv := saddle_violation (momentTable ev rows ratio ut eps H nH err) B g Q lam Q' hB hgap hl hf he0 he1 j hj
  rw [gamQ_momentTable ev rows ratio ut eps H nH err Q j hH hQ] at hv
  have hk' : (index ev rows).getD j ⟨.plus, "", ""⟩ = k := by
    rw [List.getD_eq_getElem?_getD, List.getElem?_eq_getElem hj, hget]; rfl
  rw [hk'] at hv
  have : (momentTable ev rows ratio ut eps H nH err).c j = eps := rfl
  rw [this] at hv
  linarith

/-- **EG certificate ⇒ expected group rates**: for a difference-bound moment (ratio 1, default utilities: DP / TPR /
    FPR / EqualizedOdds), the expected rate `Σ_t Q_t·rate_{e,g}(h_t)` of every observed (event, group) of the
    returned classifier is within `eps + (1 + 2g)/B` of the expected event rate, and any two groups of an event
    within `2·(eps + (1 + 2g)/B)` -/
theorem eg_expected_rates (ev : Ev) (rows : List Row) (eps : Rat)
    (H : Nat → List Rat) (nH : Nat) (err : Nat → Rat) (B g : Rat) (Q lam Q' : Nat → Rat)
    (hH : ∀ t < nH, (H t).length = rows.length) (hQ : ∑ t ∈ range nH, Q t = 1) (hB : 0 < B)
    (hgap : trueGap (momentTable ev rows 1 defaultUtil eps H nH err) B Q lam ≤ g)
    (hl : ∀ j < (index ev rows).length, 0 ≤ lam j)
    (hf : Feasible (momentTable ev rows 1 defaultUtil eps H nH err) Q')
    (he0 : 0 ≤ errQ (momentTable ev rows 1 defaultUtil eps H nH err) Q)
    (he1 : errQ (momentTable ev rows 1 defaultUtil eps H nH err) Q' ≤ 1)
    (e gA gB : String) (hobs : Observed ev rows e gA) (hobs' : Observed ev rows e gB) :
    |∑ t ∈ range nH, Q t * meanOn (inEG ev e gA) rows (H t) - ∑ t ∈ range nH, Q t * meanOn (inE ev e) rows (H t)|
      ≤ eps + (1 + 2 * g) / B ∧
    |∑ t ∈ range nH, Q t * meanOn (inEG ev e gA) rows (H t) - ∑ t ∈ range nH, Q t * meanOn (inEG ev e gB) rows (H t)|
      ≤ 2 * (eps + (1 + 2 * g) / B) :=
  C06.expected_rates_of_constraint ev rows Q H nH _ hH
    (eg_constraint_of_certificate ev rows 1 defaultUtil eps H nH err B g Q lam Q' hH hQ hB hgap hl hf he0 he1)
    e gA gB hobs hobs'

/-- **EG certificate ⇒ user-facing demographic-parity bound**: the `mean_prediction` difference (= selection-rate
    difference for hard predictors, i.e. demographic_parity_difference of the expected predictions) of the returned
    randomised classifier is at most `eps + (1 + 2g)/B` to the overall rate and `2·(eps + (1 + 2g)/B)` between
    groups — on the rows of event `e` (all rows, or one control stratum) -/
theorem eg_dp_difference_le (ev : Ev) (rows : List Row) (eps : Rat)
    (H : Nat → List Rat) (nH : Nat) (err : Nat → Rat) (B g : Rat) (Q lam Q' : Nat → Rat)
    (hH : ∀ t < nH, (H t).length = rows.length) (hQ : ∑ t ∈ range nH, Q t = 1) (hB : 0 < B)
    (hgap : trueGap (momentTable ev rows 1 defaultUtil eps H nH err) B Q lam ≤ g)
    (hl : ∀ j < (index ev rows).length, 0 ≤ lam j)
    (hf : Feasible (momentTable ev rows 1 defaultUtil eps H nH err) Q')
    (he0 : 0 ≤ errQ (momentTable ev rows 1 defaultUtil eps H nH err) Q)
    (he1 : errQ (momentTable ev rows 1 defaultUtil eps H nH err) Q' ≤ 1)
    (e : String) (hne : ∃ g', Observed ev rows e g') :
    (∃ D, Fairness.run .meanpred .difference .toOverall true 1
        (toFrame (inE ev e) rows (mixN rows.length Q H nH)) = .value (XR.fin D) ∧
      0 ≤ D ∧ D ≤ eps + (1 + 2 * g) / B) ∧
    (∃ D, Fairness.run .meanpred .difference .between true 1
        (toFrame (inE ev e) rows (mixN rows.length Q H nH)) = .value (XR.fin D) ∧
      0 ≤ D ∧ D ≤ 2 * (eps + (1 + 2 * g) / B)) :=
  C06.meanpred_difference_le_of_constraint ev rows _ _ e (mixN_length _ _ _ _ hH) hne
    (eg_constraint_of_certificate ev rows 1 defaultUtil eps H nH err B g Q lam Q' hH hQ hB hgap hl hf he0 he1)

/-- with `B = 1/eps` as ExponentiatedGradient sets it (`EGGen.boundB`), the slack is `eps·(2 + 2g)` -/
theorem eg_slack_with_code_B (eps g : Rat) (he : 0 < eps) :
    eps + (1 + 2 * g) / EGGen.boundB eps = eps * (2 + 2 * g) ∧ 0 < EGGen.boundB eps := by
  unfold EGGen.boundB
  constructor
  · field_simp; ring
  · positivity

/-- a pure (deterministic) returned classifier is the special case `Q = unit i`: the hard predictor `H i` itself
    then satisfies the enlarged constraint, so C06X's named-metric bounds (`dp_difference_le_of_constraint`,
    `eodds_difference_le_of_constraint`, …) apply to it directly -/
theorem mixN_unit (len : Nat) (H : Nat → List Rat) (n i : Nat) (hi : i < n)
    (hH : ∀ t < n, (H t).length = len) : mixN len (unit i) H n = H i := by
  have gen : ∀ m, m ≤ n → mixN len (unit i) H m = if i < m then H i else List.replicate len 0 := by
    intro m hm
    induction m with
    | zero => simp [mixN]
    | succ m ih =>
      have ih' := ih (by omega)
      simp only [mixN, ih']
      have hlen := hH i hi
      by_cases h1 : i < m
      · have hne : m ≠ i := by omega
        have : unit i m = 0 := by simp [unit, hne]
        rw [if_pos h1, if_pos (by omega), this]
        apply List.ext_getElem
        · simp [hH m (by omega), hlen]
        · intro k hk1 hk2; simp
      · by_cases h2 : i = m
        · subst h2
          have : unit i i = 1 := by simp [unit]
          rw [if_neg h1, if_pos (by omega), this]
          apply List.ext_getElem
          · simp [hlen]
          · intro k hk1 hk2; simp
        · have hne : m ≠ i := fun h => h2 h.symm
          have : unit i m = 0 := by simp [unit, hne]
          rw [if_neg h1, if_neg (by omega), this]
          apply List.ext_getElem
          · simp [hH m (by omega)]
          · intro k hk1 hk2; simp
  rw [gen n (le_refl _), if_pos hi]

/-! ### non-vacuity: a 2-predictor class on 4 rows, DP with eps = 1/10, B = 10 -/

def xRows : List Row := [⟨1, "a", none⟩, ⟨0, "a", none⟩, ⟨1, "b", none⟩, ⟨0, "b", none⟩]
/-- h0 = the labels restricted to group a (accurate on a, unfair), h1 = all zero (fair) -/
def xH : Nat → List Rat := fun t => if t = 0 then [1, 0, 0, 0] else [0, 0, 0, 0]
def xErr : Nat → Rat := vec [1/4, 1/2]
def xT : Table := momentTable (eventOf .dp) xRows 1 defaultUtil (1/10) xH 2 xErr
def xQ : Nat → Rat := vec [2/5, 3/5]
def xLam : Nat → Rat := vec [1, 0, 0, 0]

example : ∀ t < 2, (xH t).length = xRows.length := by decide +kernel
example : ∑ t ∈ range 2, xQ t = 1 := by decide +kernel
example : xT.nC = 4 := by decide +kernel
example : (List.range 4).map (gamQ xT xQ) = [1/10, -1/10, -1/10, 1/10] := by decide +kernel
example : trueGap xT 10 xQ xLam = 0 := by decide +kernel
example : ∀ j < (index (eventOf .dp) xRows).length, 0 ≤ xLam j := by decide +kernel
example : 0 ≤ errQ xT xQ ∧ errQ xT xQ ≤ 1 := by decide +kernel
example : GammaLe (eventOf .dp) xRows 1 defaultUtil (mixN xRows.length xQ xH 2) (1/10) := by decide +kernel
example : Fairness.run .meanpred .difference .between true 1
    (toFrame (inE (eventOf .dp) "all") xRows (mixN xRows.length xQ xH 2)) = .value (XR.fin (1/5)) := by decide +kernel
example : Feasible xT xQ :=
  ⟨by decide +kernel, fun i hi => by
      have : i = 0 ∨ i = 1 := by have : i < 2 := hi; omega
      rcases this with rfl | rfl <;> decide +kernel,
    fun j hj => by
      have : j < 4 := hj
      have : j = 0 ∨ j = 1 ∨ j = 2 ∨ j = 3 := by omega
      rcases this with rfl | rfl | rfl | rfl <;> decide +kernel⟩

/-- (review R2) the remaining hypotheses of `eg_expected_rates` / `eg_dp_difference_le`: both groups are observed for the
    single event of demographic parity, `B = 10 > 0`; together with the examples above ALL hypotheses of the three
    composition theorems hold simultaneously for `xT`, `xQ`, `xLam`, `Q' = xQ`, `g = 0`, and the conclusion is TIGHT:
    the slack is `eps + (1 + 2·0)/10 = 1/5` and the between-groups difference of the mixture is exactly `1/5`. -/
example : Observed (eventOf .dp) xRows "all" "a" ∧ Observed (eventOf .dp) xRows "all" "b" :=
  ⟨⟨⟨1, "a", none⟩, by decide +kernel, by decide +kernel, rfl⟩, ⟨⟨1, "b", none⟩, by decide +kernel, by decide +kernel, rfl⟩⟩
example : (1 / 10 : Rat) + (1 + 2 * 0) / 10 = 1 / 5 ∧ (0 : Rat) < 10 ∧ trueGap xT 10 xQ xLam ≤ 0 := by
  refine ⟨by norm_num, by norm_num, ?_⟩
  decide +kernel

/-! ## Work package L3: the EG certificate for TPR / FPR / EqualizedOdds moments

`eg_dp_difference_le` is generic in the event rule: its frame is "the rows of event `e`".  For the label-conditioned
moments those are the rows of a stratum WITH label `l`, and `mean_prediction` over them is the true- resp. false-positive
rate.  Two things are proved and one is said:

 * `eg_tpr_difference_le`, `eg_fpr_difference_le`, `eg_eo_difference_le`: with the real rules (`eventOf .tpr/.fpr/.eo`,
   with or without control features) the `mean_prediction` difference of the EXPECTED predictions on the event rows
   obeys the certificate bound;
 * `eg_expected_tpr_is_mixture` / `eg_expected_fpr_is_mixture`: that quantity IS the `weights_`-mixture of the stored
   hard predictors' `true_positive_rate` / `false_positive_rate` (first-principles `tprSpec` / `fprSpec` of C03);
 * why only expectations: the returned classifier draws ONE predictor per call (`_pmf_predict` / `predict` with a
   random state, C10); `true_positive_rate` of a realised 0/1 prediction vector is a random variable — it is NOT a
   function of the expected prediction vector (`true_positive_rate` rejects non-0/1 predictions, and rates of
   different draws differ), so no almost-sure bound follows from the certificate.  Its EXPECTATION over the draw of
   the predictor is linear in `Q` and is what the theorems bound.  For a DETERMINISTIC result (`weights_` = a unit
   vector) the named metric itself is bounded: `eg_pure_eo_bounds`, `eg_pure_tpr_bounds`. -/

/-- the certificate bound on the frame of the event rows described by a selector `P` -/
theorem eg_event_difference_le (ev : Ev) (rows : List Row) (eps : Rat)
    (H : Nat → List Rat) (nH : Nat) (err : Nat → Rat) (B g : Rat) (Q lam Q' : Nat → Rat)
    (hH : ∀ t < nH, (H t).length = rows.length) (hQ : ∑ t ∈ range nH, Q t = 1) (hB : 0 < B)
    (hgap : trueGap (momentTable ev rows 1 defaultUtil eps H nH err) B Q lam ≤ g)
    (hl : ∀ j < (index ev rows).length, 0 ≤ lam j)
    (hf : Feasible (momentTable ev rows 1 defaultUtil eps H nH err) Q')
    (he0 : 0 ≤ errQ (momentTable ev rows 1 defaultUtil eps H nH err) Q)
    (he1 : errQ (momentTable ev rows 1 defaultUtil eps H nH err) Q' ≤ 1)
    (e : String) (P : Row → Bool) (hP : ∀ r, inE ev e r = P r) (hne : ∃ g', Observed ev rows e g') :
    (∃ D, Fairness.run .meanpred .difference .toOverall true 1
        (toFrame P rows (mixN rows.length Q H nH)) = .value (XR.fin D) ∧
      0 ≤ D ∧ D ≤ eps + (1 + 2 * g) / B) ∧
    (∃ D, Fairness.run .meanpred .difference .between true 1
        (toFrame P rows (mixN rows.length Q H nH)) = .value (XR.fin D) ∧
      0 ≤ D ∧ D ≤ 2 * (eps + (1 + 2 * g) / B)) := by
  have := eg_dp_difference_le ev rows eps H nH err B g Q lam Q' hH hQ hB hgap hl hf he0 he1 e hne
  rwa [show inE ev e = P from funext hP] at this

/-- **EG(TruePositiveRateParity) ⇒ expected-TPR difference**: `mean_prediction` of the expected predictions over the
    POSITIVES of stratum `c0` (`none`: no control features) -/
theorem eg_tpr_difference_le (rows : List Row) (eps : Rat)
    (H : Nat → List Rat) (nH : Nat) (err : Nat → Rat) (B g : Rat) (Q lam Q' : Nat → Rat)
    (hH : ∀ t < nH, (H t).length = rows.length) (hQ : ∑ t ∈ range nH, Q t = 1) (hB : 0 < B)
    (hgap : trueGap (momentTable (eventOf .tpr) rows 1 defaultUtil eps H nH err) B Q lam ≤ g)
    (hl : ∀ j < (index (eventOf .tpr) rows).length, 0 ≤ lam j)
    (hf : Feasible (momentTable (eventOf .tpr) rows 1 defaultUtil eps H nH err) Q')
    (he0 : 0 ≤ errQ (momentTable (eventOf .tpr) rows 1 defaultUtil eps H nH err) Q)
    (he1 : errQ (momentTable (eventOf .tpr) rows 1 defaultUtil eps H nH err) Q' ≤ 1)
    (c0 : Option String)
    (hne : ∃ g', Observed (eventOf .tpr) rows (C06.stratumEvent c0 (MomentsSrc.labelEvent 1)) g') :
    (∃ D, Fairness.run .meanpred .difference .toOverall true 1
        (toFrame (fun r => (r.c == c0) && (r.y == 1)) rows (mixN rows.length Q H nH)) = .value (XR.fin D) ∧
      0 ≤ D ∧ D ≤ eps + (1 + 2 * g) / B) ∧
    (∃ D, Fairness.run .meanpred .difference .between true 1
        (toFrame (fun r => (r.c == c0) && (r.y == 1)) rows (mixN rows.length Q H nH)) = .value (XR.fin D) ∧
      0 ≤ D ∧ D ≤ 2 * (eps + (1 + 2 * g) / B)) :=
  eg_event_difference_le (eventOf .tpr) rows eps H nH err B g Q lam Q' hH hQ hB hgap hl hf he0 he1 _ _
    (C06.tpr_selects c0) hne

/-- **EG(FalsePositiveRateParity) ⇒ expected-FPR difference** over the NEGATIVES of stratum `c0` -/
theorem eg_fpr_difference_le (rows : List Row) (eps : Rat)
    (H : Nat → List Rat) (nH : Nat) (err : Nat → Rat) (B g : Rat) (Q lam Q' : Nat → Rat)
    (hH : ∀ t < nH, (H t).length = rows.length) (hQ : ∑ t ∈ range nH, Q t = 1) (hB : 0 < B)
    (hgap : trueGap (momentTable (eventOf .fpr) rows 1 defaultUtil eps H nH err) B Q lam ≤ g)
    (hl : ∀ j < (index (eventOf .fpr) rows).length, 0 ≤ lam j)
    (hf : Feasible (momentTable (eventOf .fpr) rows 1 defaultUtil eps H nH err) Q')
    (he0 : 0 ≤ errQ (momentTable (eventOf .fpr) rows 1 defaultUtil eps H nH err) Q)
    (he1 : errQ (momentTable (eventOf .fpr) rows 1 defaultUtil eps H nH err) Q' ≤ 1)
    (c0 : Option String)
    (hne : ∃ g', Observed (eventOf .fpr) rows (C06.stratumEvent c0 (MomentsSrc.labelEvent 0)) g') :
    (∃ D, Fairness.run .meanpred .difference .toOverall true 1
        (toFrame (fun r => (r.c == c0) && (r.y == 0)) rows (mixN rows.length Q H nH)) = .value (XR.fin D) ∧
      0 ≤ D ∧ D ≤ eps + (1 + 2 * g) / B) ∧
    (∃ D, Fairness.run .meanpred .difference .between true 1
        (toFrame (fun r => (r.c == c0) && (r.y == 0)) rows (mixN rows.length Q H nH)) = .value (XR.fin D) ∧
      0 ≤ D ∧ D ≤ 2 * (eps + (1 + 2 * g) / B)) :=
  eg_event_difference_le (eventOf .fpr) rows eps H nH err B g Q lam Q' hH hQ hB hgap hl hf he0 he1 _ _
    (C06.fpr_selects c0) hne

/-- **EG(EqualizedOdds) ⇒ expected-TPR (`lab = 1`) and expected-FPR (`lab = 0`) differences** within stratum `c0` -/
theorem eg_eo_difference_le (rows : List Row) (eps : Rat)
    (H : Nat → List Rat) (nH : Nat) (err : Nat → Rat) (B g : Rat) (Q lam Q' : Nat → Rat)
    (hH : ∀ t < nH, (H t).length = rows.length) (hQ : ∑ t ∈ range nH, Q t = 1) (hB : 0 < B)
    (hgap : trueGap (momentTable (eventOf .eo) rows 1 defaultUtil eps H nH err) B Q lam ≤ g)
    (hl : ∀ j < (index (eventOf .eo) rows).length, 0 ≤ lam j)
    (hf : Feasible (momentTable (eventOf .eo) rows 1 defaultUtil eps H nH err) Q')
    (he0 : 0 ≤ errQ (momentTable (eventOf .eo) rows 1 defaultUtil eps H nH err) Q)
    (he1 : errQ (momentTable (eventOf .eo) rows 1 defaultUtil eps H nH err) Q' ≤ 1)
    (c0 : Option String) (lab : Int) (hlab : lab = 0 ∨ lab = 1)
    (hne : ∃ g', Observed (eventOf .eo) rows (C06.stratumEvent c0 (MomentsSrc.labelEvent lab)) g') :
    (∃ D, Fairness.run .meanpred .difference .toOverall true 1
        (toFrame (fun r => (r.c == c0) && (r.y == lab)) rows (mixN rows.length Q H nH)) = .value (XR.fin D) ∧
      0 ≤ D ∧ D ≤ eps + (1 + 2 * g) / B) ∧
    (∃ D, Fairness.run .meanpred .difference .between true 1
        (toFrame (fun r => (r.c == c0) && (r.y == lab)) rows (mixN rows.length Q H nH)) = .value (XR.fin D) ∧
      0 ≤ D ∧ D ≤ 2 * (eps + (1 + 2 * g) / B)) :=
  eg_event_difference_le (eventOf .eo) rows eps H nH err B g Q lam Q' hH hQ hB hgap hl hf he0 he1 _ _
    (C06.eo_selects c0 lab hlab) hne

/-- **what `mean_prediction` over the positives of the expected predictions IS**: the `Q`-mixture of the
    `true_positive_rate`s (C03's first-principles `tprSpec`, on the frame of the rows selected by `P`, all labels) of
    the stored hard predictors, i.e. the expectation of the realised TPR over the draw of the predictor -/
theorem eg_expected_tpr_is_mixture (P : Row → Bool) (rows : List Row) (Q : Nat → Rat) (H : Nat → List Rat) (n : Nat)
    (hH : ∀ t < n, (H t).length = rows.length) (hh : ∀ t < n, Hard (H t)) :
    meanPredSpec (selDat (fun r => P r && (r.y == 1)) rows (mixN rows.length Q H n))
      = ∑ t ∈ range n, Q t * Fairness.tprSpec (selDat P rows (H t)) := by
  rw [meanPredSpec_selDat _ rows _ (mixN_length _ _ _ _ hH), meanOn_mixN _ rows Q H n hH]
  apply Finset.sum_congr rfl
  intro t ht
  have ht' := Finset.mem_range.mp ht
  rw [tprSpec_selDat P rows (H t) (hH t ht') (hh t ht')]

theorem eg_expected_fpr_is_mixture (P : Row → Bool) (rows : List Row) (Q : Nat → Rat) (H : Nat → List Rat) (n : Nat)
    (hH : ∀ t < n, (H t).length = rows.length) (hh : ∀ t < n, Hard (H t)) :
    meanPredSpec (selDat (fun r => P r && (r.y == 0)) rows (mixN rows.length Q H n))
      = ∑ t ∈ range n, Q t * Fairness.fprSpec (selDat P rows (H t)) := by
  rw [meanPredSpec_selDat _ rows _ (mixN_length _ _ _ _ hH), meanOn_mixN _ rows Q H n hH]
  apply Finset.sum_congr rfl
  intro t ht
  have ht' := Finset.mem_range.mp ht
  rw [fprSpec_selDat P rows (H t) (hH t ht') (hh t ht')]

theorem sum_unit (i n : Nat) (hi : i < n) : ∑ t ∈ range n, unit i t = 1 := by
  unfold unit
  rw [Finset.sum_ite_eq' (range n) i (fun _ => (1 : Rat))]
  simp [hi]

/-- **deterministic result** (`weights_` is the unit vector of predictor `i`): the certificate bounds the NAMED metric
    `equalized_odds_difference` of that hard predictor, with or without control features -/
theorem eg_pure_eo_bounds (rows : List Row) (eps : Rat)
    (H : Nat → List Rat) (nH : Nat) (err : Nat → Rat) (B g : Rat) (lam Q' : Nat → Rat) (i : Nat) (hi : i < nH)
    (hH : ∀ t < nH, (H t).length = rows.length) (hB : 0 < B)
    (hgap : trueGap (momentTable (eventOf .eo) rows 1 defaultUtil eps H nH err) B (unit i) lam ≤ g)
    (hl : ∀ j < (index (eventOf .eo) rows).length, 0 ≤ lam j)
    (hf : Feasible (momentTable (eventOf .eo) rows 1 defaultUtil eps H nH err) Q')
    (he0 : 0 ≤ errQ (momentTable (eventOf .eo) rows 1 defaultUtil eps H nH err) (unit i))
    (he1 : errQ (momentTable (eventOf .eo) rows 1 defaultUtil eps H nH err) Q' ≤ 1)
    (c0 : Option String) (hh : Hard (H i)) (hy : ∀ r ∈ rows, r.y = 0 ∨ r.y = 1)
    (hne : rows.filter (fun r => r.c == c0) ≠ [])
    (hcov1 : ∀ r ∈ rows, (r.c == c0) = true → ∃ r2 ∈ rows, (r2.c == c0) = true ∧ r2.g = r.g ∧ r2.y = 1)
    (hcov0 : ∀ r ∈ rows, (r.c == c0) = true → ∃ r2 ∈ rows, (r2.c == c0) = true ∧ r2.g = r.g ∧ r2.y = 0) :
    (∃ D, Fairness.eodds "equalized_odds_difference" .toOverall .worstCase 1 (toFrame (fun r => r.c == c0) rows (H i))
        = some (.value (XR.fin D)) ∧ 0 ≤ D ∧ D ≤ eps + (1 + 2 * g) / B) ∧
    (∃ D, Fairness.eodds "equalized_odds_difference" .between .worstCase 1 (toFrame (fun r => r.c == c0) rows (H i))
        = some (.value (XR.fin D)) ∧ 0 ≤ D ∧ D ≤ 2 * (eps + (1 + 2 * g) / B)) := by
  have hc := eg_constraint_of_certificate (eventOf .eo) rows 1 defaultUtil eps H nH err B g (unit i) lam Q' hH
    (sum_unit i nH hi) hB hgap hl hf he0 he1
  rw [mixN_unit rows.length H nH i hi hH] at hc
  exact C06.eodds_difference_le_of_constraint (eventOf .eo) rows (H i) _
    (C06.stratumEvent c0 (MomentsSrc.labelEvent 1)) (C06.stratumEvent c0 (MomentsSrc.labelEvent 0))
    (fun r => r.c == c0) (hH i hi) hh hy hne
    (C06.eo_selects c0 1 (Or.inr rfl)) (C06.eo_selects c0 0 (Or.inl rfl)) hcov1 hcov0 hc

/-- the same for TruePositiveRateParity ⇒ `equal_opportunity_difference` -/
theorem eg_pure_tpr_bounds (rows : List Row) (eps : Rat)
    (H : Nat → List Rat) (nH : Nat) (err : Nat → Rat) (B g : Rat) (lam Q' : Nat → Rat) (i : Nat) (hi : i < nH)
    (hH : ∀ t < nH, (H t).length = rows.length) (hB : 0 < B)
    (hgap : trueGap (momentTable (eventOf .tpr) rows 1 defaultUtil eps H nH err) B (unit i) lam ≤ g)
    (hl : ∀ j < (index (eventOf .tpr) rows).length, 0 ≤ lam j)
    (hf : Feasible (momentTable (eventOf .tpr) rows 1 defaultUtil eps H nH err) Q')
    (he0 : 0 ≤ errQ (momentTable (eventOf .tpr) rows 1 defaultUtil eps H nH err) (unit i))
    (he1 : errQ (momentTable (eventOf .tpr) rows 1 defaultUtil eps H nH err) Q' ≤ 1)
    (c0 : Option String) (hh : Hard (H i)) (hy : ∀ r ∈ rows, r.y = 0 ∨ r.y = 1)
    (hne : rows.filter (fun r => r.c == c0) ≠ [])
    (hcov : ∀ r ∈ rows, (r.c == c0) = true → ∃ r2 ∈ rows, (r2.c == c0) = true ∧ r2.g = r.g ∧ r2.y = 1) :
    (∃ D, Fairness.named "equal_opportunity_difference" .toOverall 1 (toFrame (fun r => r.c == c0) rows (H i))
        = some (.value (XR.fin D)) ∧ 0 ≤ D ∧ D ≤ eps + (1 + 2 * g) / B) ∧
    (∃ D, Fairness.named "equal_opportunity_difference" .between 1 (toFrame (fun r => r.c == c0) rows (H i))
        = some (.value (XR.fin D)) ∧ 0 ≤ D ∧ D ≤ 2 * (eps + (1 + 2 * g) / B)) := by
  have hc := eg_constraint_of_certificate (eventOf .tpr) rows 1 defaultUtil eps H nH err B g (unit i) lam Q' hH
    (sum_unit i nH hi) hB hgap hl hf he0 he1
  rw [mixN_unit rows.length H nH i hi hH] at hc
  exact C06.eopp_difference_le_of_constraint (eventOf .tpr) rows (H i) _
    (C06.stratumEvent c0 (MomentsSrc.labelEvent 1)) (fun r => r.c == c0) (hH i hi) hh hy hne
    (C06.tpr_selects c0) hcov hc

/-! ### non-vacuity: EqualizedOdds, 8 rows, two hard predictors, eps = 1/10, B = 10 -/

def yRows : List Row :=
  [⟨1, "a", none⟩, ⟨1, "a", none⟩, ⟨0, "a", none⟩, ⟨0, "a", none⟩, ⟨1, "b", none⟩, ⟨1, "b", none⟩, ⟨0, "b", none⟩, ⟨0, "b", none⟩]
/-- h0 = the labels on group a only (TPR a = 1, b = 0; FPR 0), h1 = all zero -/
def yH : Nat → List Rat := fun t => if t = 0 then [1, 1, 0, 0, 0, 0, 0, 0] else [0, 0, 0, 0, 0, 0, 0, 0]
def yErr : Nat → Rat := vec [1/4, 1/2]
def yT : Table := momentTable (eventOf .eo) yRows 1 defaultUtil (1/10) yH 2 yErr
def yQ : Nat → Rat := vec [1/5, 4/5]
def yLam : Nat → Rat := vec [0, 0, 0, 0, 0, 0, 0, 0]

example : (∀ t < 2, (yH t).length = yRows.length) ∧ (∀ t < 2, Hard (yH t)) ∧ ∑ t ∈ range 2, yQ t = 1 := by decide +kernel
example : GammaLe (eventOf .eo) yRows 1 defaultUtil (mixN yRows.length yQ yH 2) (1/10) := by decide +kernel
example : ∃ g', Observed (eventOf .eo) yRows (C06.stratumEvent none (MomentsSrc.labelEvent 1)) g' :=
  ⟨"a", ⟨1, "a", none⟩, by decide +kernel, by decide +kernel, rfl⟩
/-- expected TPR of group a = 1/5·1 + 4/5·0, of b = 0, overall 1/10: the between-groups difference of the expected
    TPRs is 1/5 = 2·eps: the factor 2 is attained by the mixture -/
example : Fairness.run .meanpred .difference .between true 1
    (toFrame (fun r => (r.c == none) && (r.y == 1)) yRows (mixN yRows.length yQ yH 2)) = .value (XR.fin (1/5)) := by
  decide +kernel
example : meanPredSpec (selDat (fun r => (r.g == "a") && (r.y == 1)) yRows (mixN yRows.length yQ yH 2)) = 1/5 ∧
    ∑ t ∈ range 2, yQ t * Fairness.tprSpec (selDat (fun r => r.g == "a") yRows (yH t)) = 1/5 := by decide +kernel
theorem yFeasible : Feasible yT yQ :=
  ⟨by decide +kernel, fun i hi => by
      have : i = 0 ∨ i = 1 := by have : i < 2 := hi; omega
      rcases this with rfl | rfl <;> decide +kernel,
    fun j hj => by
      have : j < 8 := hj
      have : j = 0 ∨ j = 1 ∨ j = 2 ∨ j = 3 ∨ j = 4 ∨ j = 5 ∨ j = 6 ∨ j = 7 := by omega
      rcases this with rfl | rfl | rfl | rfl | rfl | rfl | rfl | rfl <;> decide +kernel⟩
example : (∀ j < (index (eventOf .eo) yRows).length, 0 ≤ yLam j) ∧ 0 ≤ errQ yT yQ ∧ errQ yT yQ ≤ 1 := by decide +kernel
example : trueGap yT 10 yQ yLam ≤ 1/5 ∧ trueGap yT 10 (unit 1) yLam ≤ 1/4 ∧ 0 ≤ errQ yT (unit 1) := by decide +kernel
/-- every hypothesis of `eg_eo_difference_le` at once (`g = 1/5`, `B = 10`) -/
example : ∃ D, Fairness.run .meanpred .difference .between true 1
      (toFrame (fun r => (r.c == none) && (r.y == 1)) yRows (mixN yRows.length yQ yH 2)) = .value (XR.fin D) ∧
    0 ≤ D ∧ D ≤ 2 * (1/10 + (1 + 2 * (1/5)) / 10) :=
  (eg_eo_difference_le yRows (1/10) yH 2 yErr 10 (1/5) yQ yLam yQ (by decide +kernel) (by decide +kernel) (by norm_num)
    (by decide +kernel) (by decide +kernel) yFeasible (by decide +kernel) (by decide +kernel) none 1 (Or.inr rfl)
    ⟨"a", ⟨1, "a", none⟩, by decide +kernel, by decide +kernel, rfl⟩).2
/-- every hypothesis of `eg_pure_eo_bounds` at once: the deterministic result `unit 1` (the all-zero predictor) -/
example : ∃ D, Fairness.eodds "equalized_odds_difference" .between .worstCase 1 (toFrame (fun r => r.c == none) yRows (yH 1))
      = some (.value (XR.fin D)) ∧ 0 ≤ D ∧ D ≤ 2 * (1/10 + (1 + 2 * (1/4)) / 10) :=
  (eg_pure_eo_bounds yRows (1/10) yH 2 yErr 10 (1/4) yLam yQ 1 (by decide) (by decide +kernel) (by norm_num)
    (by decide +kernel) (by decide +kernel) yFeasible (by decide +kernel) (by decide +kernel) none (by decide +kernel)
    (by decide +kernel) (by decide +kernel) (by decide +kernel) (by decide +kernel)).2

/-- **deterministic result, ErrorRateParity**: the certificate bounds `accuracy_score_difference` /
    `zero_one_loss_difference` of the returned hard predictor (`weights_` = unit vector `i`) -/
theorem eg_pure_erp_bounds (rows : List Row) (eps : Rat)
    (H : Nat → List Rat) (nH : Nat) (err : Nat → Rat) (B g : Rat) (lam Q' : Nat → Rat) (i : Nat) (hi : i < nH)
    (hH : ∀ t < nH, (H t).length = rows.length) (hB : 0 < B)
    (hgap : trueGap (momentTable (eventOf .erp) rows 1 erpUtil eps H nH err) B (unit i) lam ≤ g)
    (hl : ∀ j < (index (eventOf .erp) rows).length, 0 ≤ lam j)
    (hf : Feasible (momentTable (eventOf .erp) rows 1 erpUtil eps H nH err) Q')
    (he0 : 0 ≤ errQ (momentTable (eventOf .erp) rows 1 erpUtil eps H nH err) (unit i))
    (he1 : errQ (momentTable (eventOf .erp) rows 1 erpUtil eps H nH err) Q' ≤ 1)
    (c0 : Option String) (hh : Hard (H i)) (hy : ∀ r ∈ rows, r.y = 0 ∨ r.y = 1)
    (hne : rows.filter (fun r => r.c == c0) ≠ []) :
    (∃ D, Fairness.generated "accuracy_score_difference" .toOverall 1 (toFrame (fun r => r.c == c0) rows (H i))
        = some (some (.value (XR.fin D))) ∧ 0 ≤ D ∧ D ≤ eps + (1 + 2 * g) / B) ∧
    (∃ D, Fairness.generated "accuracy_score_difference" .between 1 (toFrame (fun r => r.c == c0) rows (H i))
        = some (some (.value (XR.fin D))) ∧ 0 ≤ D ∧ D ≤ 2 * (eps + (1 + 2 * g) / B)) := by
  have hc := eg_constraint_of_certificate (eventOf .erp) rows 1 erpUtil eps H nH err B g (unit i) lam Q' hH
    (sum_unit i nH hi) hB hgap hl hf he0 he1
  rw [mixN_unit rows.length H nH i hi hH] at hc
  exact (C06.erp_constraint_bounds rows (H i) _ c0 (hH i hi) hh hy hne hc).1

/-! non-vacuity: ErrorRateParity on `yRows`; h0 = the labels (error 0 everywhere), h1 = all zero (error 1/2 in both groups);
    both are feasible with slack 0, the deterministic result `unit 0` has gap 0 against λ = 0 -/
def zH : Nat → List Rat := fun t => if t = 0 then [1, 1, 0, 0, 1, 1, 0, 0] else [0, 0, 0, 0, 0, 0, 0, 0]
def zT : Table := momentTable (eventOf .erp) yRows 1 erpUtil (1/10) zH 2 (vec [0, 1/2])
theorem zFeasible : Feasible zT (unit 0) :=
  ⟨by decide +kernel, fun i hi => by
      have : i = 0 ∨ i = 1 := by have : i < 2 := hi; omega
      rcases this with rfl | rfl <;> decide +kernel,
    fun j hj => by
      have : j < 4 := hj
      have : j = 0 ∨ j = 1 ∨ j = 2 ∨ j = 3 := by omega
      rcases this with rfl | rfl | rfl | rfl <;> decide +kernel⟩
example : ∃ D, Fairness.generated "accuracy_score_difference" .between 1 (toFrame (fun r => r.c == none) yRows (zH 0))
      = some (some (.value (XR.fin D))) ∧ 0 ≤ D ∧ D ≤ 2 * (1/10 + (1 + 2 * 0) / 10) :=
  (eg_pure_erp_bounds yRows (1/10) zH 2 (vec [0, 1/2]) 10 0 (vec [0, 0, 0, 0]) (unit 0) 0 (by decide) (by decide +kernel) (by norm_num)
    (by decide +kernel) (by decide +kernel) zFeasible (by decide +kernel) (by decide +kernel) none (by decide +kernel)
    (by decide +kernel) (by decide +kernel)).2

end C08
